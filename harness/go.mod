module verifharness

go 1.21

require (
	github.com/asticode/go-astisub v0.0.0
	github.com/asticode/go-astits v1.8.0
)

replace github.com/asticode/go-astisub => /repo
