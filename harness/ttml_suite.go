package main

// C03 suites: reader vs ground truth (oracle) and vs the extracted tree-level model; time expressions vs
// exact rational arithmetic and vs the model; writer output through an independent encoding/xml-based
// decoder, through the library's reader, and vs the model's tree.

import (
	"bytes"
	"fmt"
	"math/big"
	"regexp"
	"sort"
	"strconv"
	"strings"

	astisub "github.com/asticode/go-astisub"
)

// ---------- independent evaluation of TTML time expressions (exact) ----------

var (
	reTTClock  = regexp.MustCompile(`^([0-9]{2,}):([0-9]{2}):([0-9]{2})(?:\.([0-9]+)|:([0-9]{2,}))?$`)
	reTTOffset = regexp.MustCompile(`^([0-9]+)(?:\.([0-9]+))?(h|m|s|ms|f|t)$`)
)

func ratDec(ip, fp string) *big.Rat {
	v, _ := new(big.Rat).SetString(ip)
	if fp != "" {
		f, _ := new(big.Rat).SetString(fp)
		den := new(big.Int).Exp(big.NewInt(10), big.NewInt(int64(len(fp))), nil)
		f.Quo(f, new(big.Rat).SetInt(den))
		v.Add(v, f)
	}
	return v
}

// evalTimeExpr: the instant (in ns) a TTML time expression means under frame rate fr and tick rate tr
func evalTimeExpr(s string, fr, tr int) (*big.Rat, bool) {
	if m := reTTClock.FindStringSubmatch(s); m != nil {
		v := new(big.Rat).Mul(ratDec(m[1], ""), ratI(3600))
		v.Add(v, new(big.Rat).Mul(ratDec(m[2], ""), ratI(60)))
		v.Add(v, ratDec(m[3], m[4]))
		if m[5] != "" {
			if fr <= 0 {
				return nil, false
			}
			v.Add(v, new(big.Rat).Quo(ratDec(m[5], ""), ratI(int64(fr))))
		}
		return v.Mul(v, ratI(1e9)), true
	}
	if m := reTTOffset.FindStringSubmatch(s); m != nil {
		v := ratDec(m[1], m[2])
		switch m[3] {
		case "h":
			v.Mul(v, ratI(3600e9))
		case "m":
			v.Mul(v, ratI(60e9))
		case "s":
			v.Mul(v, ratI(1e9))
		case "ms":
			v.Mul(v, ratI(1e6))
		case "f":
			if fr <= 0 {
				return nil, false
			}
			v.Mul(v, ratI(1e9)).Quo(v, ratI(int64(fr)))
		case "t":
			if tr <= 0 {
				return nil, false
			}
			v.Mul(v, ratI(1e9)).Quo(v, ratI(int64(tr)))
		}
		return v, true
	}
	return nil, false
}

// ---------- independent decoder: XML tree -> document value ----------

type ttDecoded struct {
	V     tvDoc
	Times [][2]*big.Rat
}

func ttAttrsOfNode(n *xNode) (a tvAttrs, err error) {
	for i, name := range ttAttrNames {
		if v, ok := n.attr(name); ok {
			vv := v
			a.S[i] = &vv
		}
	}
	if v, ok := n.attr("zIndex"); ok {
		z, e := strconv.Atoi(strings.TrimSpace(v))
		if e != nil {
			return a, fmt.Errorf("zIndex %q", v)
		}
		a.Z = &z
	}
	return
}

func textOf(n *xNode) string {
	var b strings.Builder
	for _, k := range n.Kids {
		if !k.Elem {
			b.WriteString(k.Text)
		}
	}
	return b.String()
}

func optAttr(n *xNode, name string) *string {
	if v, ok := n.attr(name); ok && v != "" {
		return &v
	}
	return nil
}

// denoteTTML: what a TTML document tree denotes (flat paragraphs: text, span, br)
func denoteTTML(root *xNode) (*ttDecoded, error) {
	if root.Name.Local != "tt" {
		return nil, fmt.Errorf("root element %q", root.Name.Local)
	}
	d := &ttDecoded{}
	d.V.HasMeta = true
	fr, tr := 0, 0
	if v, ok := root.attr("frameRate"); ok {
		fr, _ = strconv.Atoi(v)
	}
	if v, ok := root.attr("tickRate"); ok {
		tr, _ = strconv.Atoi(v)
	}
	d.V.Framerate = fr
	if v, ok := root.attr("lang"); ok && len(v) >= 2 {
		d.V.Lang = map[string]string{"en": "english", "fr": "french", "ja": "japanese", "zh": "chinese", "no": "norwegian"}[v[:2]]
	}
	styleIDs := map[string]bool{}
	for _, head := range root.children("head") {
		for _, md := range head.children("metadata") {
			for _, t := range md.children("title") {
				d.V.Title = textOf(t)
			}
			for _, t := range md.children("copyright") {
				d.V.Copyright = textOf(t)
			}
		}
		for _, sg := range head.children("styling") {
			for _, st := range sg.children("style") {
				a, err := ttAttrsOfNode(st)
				if err != nil {
					return nil, err
				}
				id, _ := st.attr("id")
				if styleIDs[id] {
					return nil, fmt.Errorf("duplicate style %q", id)
				}
				styleIDs[id] = true
				d.V.Styles = append(d.V.Styles, tvStyle{Key: id, ID: id, Ref: optAttr(st, "style"), A: a})
			}
		}
		for _, lo := range head.children("layout") {
			for _, rg := range lo.children("region") {
				a, err := ttAttrsOfNode(rg)
				if err != nil {
					return nil, err
				}
				id, _ := rg.attr("id")
				d.V.Regions = append(d.V.Regions, tvStyle{Key: id, ID: id, Ref: optAttr(rg, "style"), A: a})
			}
		}
	}
	for _, st := range d.V.Styles {
		if st.Ref != nil && !styleIDs[*st.Ref] {
			return nil, fmt.Errorf("style %q: unknown parent %q", st.ID, *st.Ref)
		}
	}
	sort.Slice(d.V.Styles, func(i, j int) bool { return d.V.Styles[i].Key < d.V.Styles[j].Key })
	sort.Slice(d.V.Regions, func(i, j int) bool { return d.V.Regions[i].Key < d.V.Regions[j].Key })
	for _, body := range root.children("body") {
		for _, div := range body.children("div") {
			for _, p := range div.children("p") {
				var it tvItem
				var err error
				if it.A, err = ttAttrsOfNode(p); err != nil {
					return nil, err
				}
				it.Region, it.Style = optAttr(p, "region"), optAttr(p, "style")
				bs, ok1 := p.attr("begin")
				es, ok2 := p.attr("end")
				if !ok1 || !ok2 {
					return nil, fmt.Errorf("p without begin/end")
				}
				b, ok1 := evalTimeExpr(bs, fr, tr)
				e, ok2 := evalTimeExpr(es, fr, tr)
				if !ok1 || !ok2 {
					return nil, fmt.Errorf("time expression %q / %q", bs, es)
				}
				d.Times = append(d.Times, [2]*big.Rat{b, e})
				line := []tvRun{}
				for _, k := range p.Kids {
					switch {
					case !k.Elem:
						if isXMLSpaceOnly(k.Text) {
							continue // indentation between elements
						}
						line = append(line, tvRun{Text: k.Text})
					case k.Name.Local == "br":
						it.Lines = append(it.Lines, line)
						line = []tvRun{}
					case k.Name.Local == "span":
						a, err := ttAttrsOfNode(k)
						if err != nil {
							return nil, err
						}
						cur := ""
						for _, kk := range k.Kids {
							switch {
							case !kk.Elem:
								cur += kk.Text
							case kk.Name.Local == "br":
								line = append(line, tvRun{Text: cur, Style: optAttr(k, "style"), A: a})
								it.Lines = append(it.Lines, line)
								line, cur = []tvRun{}, ""
							default:
								return nil, fmt.Errorf("nested element %q", kk.Name.Local)
							}
						}
						line = append(line, tvRun{Text: cur, Style: optAttr(k, "style"), A: a})
					default:
						return nil, fmt.Errorf("element %q in p", k.Name.Local)
					}
				}
				it.Lines = append(it.Lines, line)
				d.V.Items = append(d.V.Items, it)
			}
		}
	}
	return d, nil
}

// ---------- observations ----------

func ttReadImpl(doc []byte) (impl string, v tvDoc, problems []string, panicked string, err error) {
	var s *astisub.Subtitles
	panicked = safely(func() { s, err = astisub.ReadFromTTML(bytes.NewReader(doc)) })
	switch {
	case panicked != "":
		return "2", v, nil, panicked, nil
	case err != nil:
		return "1", v, nil, "", err
	}
	v, problems = projectSubs(s)
	return (&enc{}).n(0).tdoc(v).String(), v, problems, "", nil
}

// ttReadObs runs the reader on doc; want = ground truth (nil: model comparison only)
func ttReadObs(doc string, want *ttDoc, group string, human map[string]interface{}) *obs {
	o := &obs{Suite: "ttmlread", Group: group, Human: human}
	impl, v, problems, p, err := ttReadImpl([]byte(doc))
	o.Impl = impl
	root, simple, perr := parseXMLTree([]byte(doc))
	if perr != nil {
		// the harness's own XML layer rejects the document: the implementation must reject it too
		o.Suite, o.Input = "ttmlconst", "1"
	} else {
		in := &enc{}
		in.bool(simple).xnode(root)
		o.Input = in.String()
	}
	switch {
	case p != "":
		o.Oracle, o.Sig = "ReadFromTTML panicked: "+p, "ttml-read-panic"
	case want == nil:
	case err != nil:
		o.Oracle, o.Sig = "ReadFromTTML rejects a well-formed document: "+err.Error(), "ttml-read-error"
	default:
		if len(problems) > 0 {
			o.Oracle, o.Sig = problems[0], "ttml-read-identity"
		} else if m, sig := diffDocs(v, want.V, true); m != "" {
			o.Oracle, o.Sig = m, "ttml-read-"+sig
		} else {
			for i, cu := range want.Cues {
				if !checkInstant(v.Items[i].St, cu.Begin.Exact) {
					o.Oracle, o.Sig = fmt.Sprintf("cue %d: begin=%q read as %d ns, means %s ns", i, cu.Begin.Expr, v.Items[i].St, cu.Begin.Exact.FloatString(3)), "ttml-read-time-"+cu.Begin.Kind
					break
				}
				if !checkInstant(v.Items[i].En, cu.End.Exact) {
					o.Oracle, o.Sig = fmt.Sprintf("cue %d: end=%q read as %d ns, means %s ns", i, cu.End.Expr, v.Items[i].En, cu.End.Exact.FloatString(3)), "ttml-read-time-"+cu.End.Kind
					break
				}
			}
		}
	}
	return o
}

func ttTimeObs(expr string, fr, tr int, exact *big.Rat, group string) *obs {
	in := &enc{}
	in.str(expr).i(int64(fr)).i(int64(tr))
	o := &obs{Suite: "ttmltime", Group: group, Input: in.String(), Human: map[string]interface{}{"expr": expr, "frameRate": fr, "tickRate": tr}}
	if exact != nil && exact.Cmp(ratI(360000e9)) >= 0 {
		exact = nil // the property's domain is instants below 100 h; beyond it only the model is compared
	}
	var got int64
	var err error
	p := safely(func() { got, err = astisub.VerifTTMLDuration([]byte(expr), fr, tr) })
	switch {
	case p != "":
		o.Impl, o.Oracle, o.Sig = "2", "TTMLInDuration panicked: "+p, "ttml-time-panic"
	case err != nil:
		o.Impl = "1"
		if exact != nil {
			o.Oracle, o.Sig = "time expression rejected: "+err.Error(), "ttml-time-rejected"
		}
	default:
		o.Impl = (&enc{}).n(0).i(got).String()
		if exact != nil && !checkInstant(got, exact) {
			o.Oracle, o.Sig = fmt.Sprintf("%q (frame rate %d, tick rate %d) resolved to %d ns, means %s ns", expr, fr, tr, got, exact.FloatString(3)), "ttml-time-value"
		}
	}
	o.NT = exact != nil
	return o
}

// expected value after the writer: times truncated to the millisecond, frame rate not written, language
// only when mapped, a cue without lines reads as one empty line
func ttExpectWritten(v tvDoc) tvDoc {
	w := v
	w.HasMeta = true
	w.Framerate = 0
	if !v.HasMeta {
		w.Title, w.Copyright, w.Lang = "", "", ""
	}
	switch w.Lang {
	case "english", "french", "japanese", "chinese", "norwegian":
	default:
		w.Lang = ""
	}
	w.Items = nil
	for _, it := range v.Items {
		x := it
		x.St, x.En = it.St-it.St%1e6, it.En-it.En%1e6
		if len(x.Lines) == 0 {
			x.Lines = [][]tvRun{{}}
		}
		w.Items = append(w.Items, x)
	}
	return w
}

func diffTimes(got, want tvDoc) string {
	for i := range want.Items {
		if got.Items[i].St != want.Items[i].St || got.Items[i].En != want.Items[i].En {
			return fmt.Sprintf("cue %d: times %d..%d ns, want %d..%d ns", i, got.Items[i].St, got.Items[i].En, want.Items[i].St, want.Items[i].En)
		}
	}
	return ""
}

func suiteTtml(R *runner, r *rng) {
	R.rule("ttml: ground-truth documents (1..5 cues; 0..6 styles whose parent links form a forest, several styles sharing a parent, parents defined before or after their children; 0..4 regions with style references; inline tts:* attributes on styles, regions, paragraphs and spans incl. empty values and characters needing escapes; title, copyright, xml:lang among the five mapped languages (with and without subtags), others and none; frameRate in {absent,0,1,8,12,24,25,30,48,50,60,100,120}, tickRate in {absent,1,3,7,10,60,1000,44100,48000,90000,10^7,27*10^6}; 1..5 lines of 0..3 runs, empty lines first/middle/last, bare text and spans, text over a palette with & < > quotes, accents, CJK, non-BMP, NBSP/ideographic space, combining marks) x renderings (each boundary in any syntax that denotes it exactly: clock time with 0-3 fraction digits, clock time with frames, offsets in h/m/s/ms/f/t with decimal fractions (fractional frame and tick counts included); indentation none/spaces/tab between elements and around <br/>; <br/> between elements or inside the element when both sides are one run; three namespace-prefix schemes; attribute order/quoting, character references); oracle: the reader returns the ground truth, every boundary = the denoted instant when that is a whole number of ns and otherwise within 1 ns of it; the same documents as trees through the extracted Coq reader model; time expressions: boundary grids per syntax and unit, exhaustive 0.000s..9.999s, frame grids for 8 rates, tick grids for 10 rates, random, malformed strings (model only); writer: values from the ground truth (XML-legal text incl. tab, CR, leading/trailing blanks; nil metadata, nil inline styles, nil map entries, indent option absent/\"\"/tab/spaces/newline) decoded by an independent encoding/xml-based decoder and by the library's reader: same cues (times truncated to ms), styles, regions, title, copyright, language; bytes of the output vs the Coq writer model for every indent option, the harness's parse of them vs the model's indented tree, the Coq XML parser vs encoding/xml on them, and the byte-level reader model (Coq parser + tree reader) vs ReadFromTTML on them; non-trivial = at least one style or two lines")
	N := 700
	if R.tier == "thorough" {
		N = 12000
	}
	indents := []string{"", "", "  ", "    ", "\t", " "}
	// ---- reader on rendered ground truth ----
	for c := 0; c < N; c++ {
		d := ttRandDoc(r, ttGenOpts{MaxCues: 5, MaxStyles: 6, MaxRegions: 4})
		rd := ttRendering{Indent: indents[r.intn(len(indents))], Prefix: r.intn(3), BrInside: r.chance(2, 3), Decl: r.chance(1, 2)}
		doc := renderTTML(r, d, rd)
		h := map[string]interface{}{"doc": doc, "indent": rd.Indent, "prefix_scheme": rd.Prefix, "br_inside": rd.BrInside}
		o := ttReadObs(doc, d, "ttml.read", h)
		nl := 0
		for _, cu := range d.Cues {
			R.count("ttml.time." + cu.Begin.Kind)
			R.count("ttml.time." + cu.End.Kind)
			if len(cu.V.Lines) > nl {
				nl = len(cu.V.Lines)
			}
			for j, l := range cu.V.Lines {
				if len(l) == 0 {
					switch {
					case j == 0:
						R.count("ttml.emptyline.first")
					case j == len(cu.V.Lines)-1:
						R.count("ttml.emptyline.last")
					default:
						R.count("ttml.emptyline.middle")
					}
				}
				if j > 0 && len(l) > 0 && cu.Merge[j][0] && rd.BrInside {
					R.count("ttml.br.inside")
				} else if j > 0 {
					R.count("ttml.br.between")
				}
			}
		}
		shared := map[string]int{}
		for _, st := range d.V.Styles {
			if st.Ref != nil {
				shared[*st.Ref]++
			}
		}
		for _, k := range shared {
			if k > 1 {
				R.count("ttml.styles.sharing_a_parent")
				break
			}
		}
		R.count("ttml.indent." + strconv.Quote(rd.Indent))
		R.count("ttml.prefix." + strconv.Itoa(rd.Prefix))
		R.count("ttml.framerate." + strconv.Itoa(d.FrameRate))
		R.count("ttml.tickrate." + strconv.Itoa(d.TickRate))
		R.countN("ttml.styles", len(d.V.Styles))
		R.countN("ttml.regions", len(d.V.Regions))
		R.countN("ttml.cues", len(d.Cues))
		o.NT = len(d.V.Styles) > 0 || nl > 1
		R.add(o)
		// byte level: the extended Coq XML parser (Kit/XmlParse2.v) vs encoding/xml on the rendered document, and the
		// byte-level reader model (that parser, then the tree reader) vs ReadFromTTML
		if root, simple, perr := parseXMLTree([]byte(doc)); perr == nil {
			R.add(&obs{Suite: "xmlparse2", Group: "ttml.read.xmlparse2", Input: (&enc{}).bytes([]byte(doc)).String(), Impl: (&enc{}).n(0).xnode(root).String(), NT: o.NT})
			R.add(&obs{Suite: "ttmlreadbytes2", Group: "ttml.read.bytes", Input: (&enc{}).bool(simple).bytes([]byte(doc)).String(), Impl: o.Impl, NT: o.NT})
		}
	}
	for k, v := range ttFreedoms {
		R.countN("ttml.freedom."+k, v)
	}
	R.countN("ttml.read.start_tags_with_a_line_break_inside", xmlLineBreakInTag)
	xmlLineBreakInTag = 0
	ttFreedoms = map[string]int{}
	// crafted documents (regressions of what the checks found, one concern each)
	for _, cd := range ttCorpus {
		o := ttReadObs(cd.doc, nil, "ttml.read.corpus", map[string]interface{}{"doc": cd.doc, "note": cd.note})
		o.NT = true
		if cd.check != nil && o.Oracle == "" && o.Impl != "1" && o.Impl != "2" {
			_, v, _, _, _ := ttReadImpl([]byte(cd.doc))
			if m := cd.check(v); m != "" {
				o.Oracle, o.Sig = cd.note+": "+m, "ttml-corpus"
			}
		}
		R.add(o)
	}
	// the worked example of the composite reading theorem, replayed on the library
	{
		o := &obs{Suite: "ttmlrenderex", Group: "ttml.read.rendered_example", NT: true, Human: map[string]interface{}{"doc": ttRenderExDoc}}
		root, _, perr := parseXMLTree([]byte(ttRenderExDoc))
		impl, _, problems, _, rerr := ttReadImpl([]byte(ttRenderExDoc))
		switch {
		case perr != nil || rerr != nil:
			o.NoModel, o.Impl = true, "1"
			o.Oracle, o.Sig = fmt.Sprintf("worked example rejected: %v / %v", perr, rerr), "ttml-rendered-example"
		case len(problems) > 0:
			o.NoModel, o.Impl = true, "1"
			o.Oracle, o.Sig = problems[0], "ttml-rendered-example"
		default:
			o.Input = (&enc{}).xnode(root).String()
			o.Impl = "1 " + strings.TrimPrefix(impl, "0 ")
		}
		R.add(o)
	}
	// repository samples (model comparison; the extended XML parser where it applies: no CR, CDATA, DOCTYPE)
	xp2 := func(doc []byte, group string) {
		if bytes.IndexByte(doc, '\r') >= 0 || bytes.Contains(doc, []byte("<![CDATA[")) || bytes.Contains(doc, []byte("<!DOCTYPE")) {
			return
		}
		if root, _, perr := parseXMLTree(doc); perr == nil {
			R.add(&obs{Suite: "xmlparse2", Group: group, Input: (&enc{}).bytes(doc).String(), Impl: (&enc{}).n(0).xnode(root).String(), NT: true})
		}
	}
	for _, f := range []string{"example-in.ttml", "example-in-breaklines.ttml", "example-out.ttml", "example-out-breaklines.ttml", "example-out-no-indent.ttml"} {
		if b, err := readRepoFile("testdata/" + f); err == nil {
			o := ttReadObs(string(b), nil, "ttml.read.testdata", map[string]interface{}{"file": f})
			o.NT = true
			R.add(o)
			xp2(b, "ttml.read.testdata.xmlparse2")
		}
	}
	for _, cd := range ttCorpus {
		xp2([]byte(cd.doc), "ttml.read.corpus.xmlparse2")
	}
	xp2([]byte(ttRenderExDoc), "ttml.read.corpus.xmlparse2")
	// mutated documents (model comparison: values inside the faithful domain, class outside)
	frags := []string{"<br/>", "<span>", "</span>", "<p>", "</p>", " ", "\n", "\n   ", "&amp;", "&#10;", "&#32;", "<!-- c -->", "<![CDATA[x]]>", "<span tts:zIndex=\"x\">", " style=\"nope\"", " begin=\"1s\"", " end=\"x\"", "<BR/>", "<x:br/>", "<b>bold</b>", "<span><span>n</span><br/></span>", " ", "\r\n", "<?pi?>", "<div>", "</div>", " region=\"r0\"", " tts:color=\"c1\" color=\"c2\"", "<style xml:id=\"s0\"/>", "<style xml:id=\"zz\" style=\"nope\"/>", "<metadata><ttm:title>t2</ttm:title></metadata>", "<head/>", " ttp:frameRate=\"x\"", " ttp:frameRate=\" 30 \"", " xml:lang=\"e\""}
	for c := 0; c < N; c++ {
		d := ttRandDoc(r, ttGenOpts{MaxCues: 3, MaxStyles: 3, MaxRegions: 2})
		doc := []byte(renderTTML(r, d, ttRendering{Indent: indents[r.intn(len(indents))], Prefix: r.intn(3), BrInside: true}))
		for k := 0; k < 1+r.intn(2) && len(doc) > 0; k++ {
			i := r.intn(len(doc))
			switch r.intn(6) {
			case 0, 1, 2:
				// insert a fragment at a tag boundary or anywhere
				if r.chance(2, 3) {
					if j := bytes.IndexAny(doc[i:], "<>"); j >= 0 {
						i += j
						if doc[i] == '>' && r.chance(1, 2) {
							i++
						}
					}
				}
				doc = append(doc[:i], append([]byte(frags[r.intn(len(frags))]), doc[i:]...)...)
			case 3:
				doc = append(doc[:i], doc[i+1:]...)
			case 4:
				doc[i] = byte(r.pick("<", ">", "\"", "&", " ", "\n", "/", ":", "0", "x")[0])
			default:
				j := r.intn(len(doc))
				if i > j {
					i, j = j, i
				}
				if j-i < 40 {
					doc = append(doc[:i], doc[j:]...)
				}
			}
		}
		o := ttReadObs(string(doc), nil, "ttml.read.mutated", map[string]interface{}{"doc": string(doc)})
		o.NT = o.Impl != "1"
		if o.Impl != "1" {
			R.count("ttml.mutated.accepted")
		}
		R.add(o)
	}

	// ---- time expressions ----
	rates := []int{24, 25, 30, 50, 60, 1, 8, 120}
	trates := []int{1, 3, 7, 10, 1000, 44100, 48000, 90000, 10000000, 27000000}
	addT := func(expr string, fr, tr int, group string) {
		ex, ok := evalTimeExpr(expr, fr, tr)
		if !ok {
			ex = nil
		}
		R.add(ttTimeObs(expr, fr, tr, ex, group))
	}
	for _, h := range []string{"00", "01", "09", "10", "23", "99", "100", "000"} {
		for _, m := range []string{"00", "01", "59"} {
			for _, s := range []string{"00", "01", "59"} {
				base := h + ":" + m + ":" + s
				addT(base, 25, 0, "ttml.time.clock")
				addT(base, 0, 0, "ttml.time.clock")
				for _, f := range []string{"0", "1", "5", "9", "00", "01", "10", "50", "99", "000", "001", "010", "100", "500", "999"} {
					addT(base+"."+f, 30, 0, "ttml.time.clock")
				}
				for _, fr := range rates {
					for _, f := range []int{0, 1, fr / 2, fr - 1} {
						addT(fmt.Sprintf("%s:%02d", base, f), fr, 0, "ttml.time.clockframes")
					}
				}
			}
		}
	}
	for ms := 0; ms < 10000; ms++ {
		addT(decStr(int64(ms), 3, false)+"s", 0, 0, "ttml.time.offset")
	}
	for _, u := range []string{"h", "m", "s", "ms"} {
		for _, v := range []string{"0", "1", "2", "10", "59", "60", "99", "100", "1000", "123456", "0.1", "0.5", "0.25", "0.001", "1.001", "1.0001", "2.002", "0.000001", "1.000001", "12.345678", "1.5", "99.999", "3.3", "0.7", "0.07", "1.1", "2.2", "4.35", "1.005", "8.875", "0.3", "16.1", "1.000000001"} {
			addT(v+u, 30, 1000, "ttml.time.offset")
		}
	}
	for _, fr := range rates {
		for f := 0; f <= 200; f++ {
			addT(strconv.Itoa(f)+"f", fr, 0, "ttml.time.frames")
		}
		for _, f := range []int{1000, 86399, 90000, 2160000, 1234567} {
			addT(strconv.Itoa(f)+"f", fr, 0, "ttml.time.frames")
		}
	}
	// fractional frame and tick counts (offset-time allows a fraction with every metric)
	for _, v := range []string{"0.5", "12.5", "1.25", "99.75", "0.04", "0.001", "7.1", "24.999", "100.0", "3.000", "0.0"} {
		for _, fr := range rates {
			addT(v+"f", fr, 0, "ttml.time.frames.frac")
		}
		for _, tr := range trates {
			addT(v+"t", 25, tr, "ttml.time.ticks.frac")
		}
	}
	for _, tr := range trates {
		for _, k := range []int64{0, 1, 2, 3, 7, 10, 99, 100, 1000, 44100, 48000, 90000, 123456, 10000000, 27000000, 600000000, 9000000000, 36000000000, 123456789012} {
			addT(strconv.FormatInt(k, 10)+"t", 0, tr, "ttml.time.ticks")
			addT(strconv.FormatInt(k*int64(tr), 10)+"t", 0, tr, "ttml.time.ticks")
			addT(strconv.FormatInt(k*int64(tr)+1, 10)+"t", 25, tr, "ttml.time.ticks")
		}
	}
	for c := 0; c < N*6; c++ {
		fr, tr := rates[r.intn(len(rates))], trates[r.intn(len(trates))]
		ms := r.i64n(100 * 3600 * 1000)
		if r.chance(1, 2) {
			ms = r.i64n(7200 * 1000)
		}
		var e ttTime
		switch r.intn(4) {
		case 0:
			e = exprFrames(r, ms/1000, int64(r.intn(fr)), fr)
		case 1:
			e = exprTicks(r.i64n(360000*int64(tr))+1, tr)
		default:
			e = exprForMs(r, ms, fr, tr)
		}
		R.count("ttml.timesuite." + e.Kind)
		R.add(ttTimeObs(e.Expr, fr, tr, e.Exact, "ttml.time.random"))
	}
	// random decimal offsets with up to 9 fraction digits
	for c := 0; c < N*2; c++ {
		u := r.pick("h", "m", "s", "ms")
		ip := strconv.FormatInt(r.i64n([]int64{3, 100, 5000, 100000}[r.intn(4)]), 10)
		nd := r.intn(10)
		fp := ""
		for k := 0; k < nd; k++ {
			fp += strconv.Itoa(r.intn(10))
		}
		expr := ip
		if fp != "" {
			expr += "." + fp
		}
		addT(expr+u, 0, 0, "ttml.time.random")
	}
	// malformed and unusual strings: model comparison only
	bad := []string{"2562047:47:16:24", "9007199254.740993s", "", " ", "1", "1.5", "1s ", " 1s", "1.s", ".5s", "1:2", "01:02", "1:2:3:4:5", "00:00:01.1234", "1e3s", "-1s", "+1s", "１s", "00:00:61", "1,5s", "00:00:01:", ":00:00:01", "00::01", "00:00:01:1:", "00:00:01:xx", "5 f", "5F", "5S", "5ms ", "5mss", "5hs", "00:00:01.5s", "1.2.3s", "99999999999999999999s", "0.99999999999999999999s", "00:00:01:99999999999999999999", "123456789012345f", "1234567890123456f", "9223372036854775807t", "00:00:01;05", "00:00:01.000:05", "00:00:01:05.5", "10f\n", "\n10f", "00:00:01\n", "0x10s", "1_0s", "1h30m", "12:34:56.789", "12:34:56:2", "123.4h", "6t", "00:01", "1:02", "a:b:c", "00:00:-1", "00:00:+1", "00: 00 : 01", "00:00:01 .5", "00:00:01. 5", "4294967296f", "18446744073709551616t"}
	for _, s := range bad {
		for _, rt := range [][2]int{{25, 4}, {0, 0}, {30, 10000000}, {-5, -5}} {
			R.add(ttTimeObs(s, rt[0], rt[1], nil, "ttml.time.malformed"))
		}
	}
	for c := 0; c < N*2; c++ {
		e := exprForMs(r, r.i64n(7200000), 25, 1000).Expr
		b := []byte(e)
		for k := 0; k < 1+r.intn(2) && len(b) > 0; k++ {
			i := r.intn(len(b))
			switch r.intn(4) {
			case 0:
				b = append(b[:i], b[i+1:]...)
			case 1:
				b[i] = byte(r.pick(":", ".", "0", "9", " ", "s", "m", "h", "f", "t", "x", "-")[0])
			case 2:
				b = append(b[:i], append([]byte(r.pick(":", ".", "5", "00", " ", "ms", ":00", ".0")), b[i:]...)...)
			default:
				b = append(b, r.pick("s", "f", "t", " ", "0", ":10")...)
			}
		}
		R.add(ttTimeObs(string(b), []int{0, 25, 30}[r.intn(3)], []int{0, 1000}[r.intn(2)], nil, "ttml.time.malformed"))
	}

	// ---- writer ----
	wIndents := []*string{nil, nil, strPtr(""), strPtr("\t"), strPtr("  "), strPtr(" "), strPtr("\n"), strPtr("\t ")}
	for c := 0; c < N; c++ {
		d := ttRandDoc(r, ttGenOpts{MaxCues: 5, MaxStyles: 5, MaxRegions: 3, MsOnly: true})
		v := d.V
		illegal := false
		// writer-side freedoms: sub-millisecond instants, texts with tab / CR / blanks, nil metadata, no lines
		for i := range v.Items {
			v.Items[i].St = d.Cues[i].Begin.Exact.Num().Int64()
			v.Items[i].En = d.Cues[i].End.Exact.Num().Int64()
			if r.chance(1, 3) {
				v.Items[i].St += r.i64n(1e6)
				v.Items[i].En += r.i64n(1e6)
			}
			for j := range v.Items[i].Lines {
				for k := range v.Items[i].Lines[j] {
					if r.chance(1, 6) {
						// random XML-legal characters (any plane; tab and CR included, LF is a line boundary)
						var b strings.Builder
						for n := 1 + r.intn(3); n > 0; n-- {
							var c rune
							switch r.intn(6) {
							case 0:
								c = rune(0x20 + r.intn(0x5f))
							case 1:
								c = rune(0x80 + r.intn(0x780))
							case 2:
								c = rune(0x800 + r.intn(0xd000))
							case 3:
								c = rune(0xe000 + r.intn(0x1ffe))
							case 4:
								c = rune(0x10000 + r.intn(0x100000))
							default:
								c = []rune{0x9, 0xd, 0x85, 0xa0, 0x2028, 0xfffd, 0xd7ff, 0x10ffff}[r.intn(8)]
							}
							b.WriteRune(c)
						}
						v.Items[i].Lines[j][k].Text += b.String()
						R.count("ttml.write.random_legal_text")
					}
					if r.chance(1, 40) {
						// text that is NOT XML-legal (outside the property's premise): the encoder substitutes U+FFFD; only
						// the byte correspondence with the exact EscapeText model is checked for these values
						v.Items[i].Lines[j][k].Text += r.pick("\x00", "\x01", "\x1f", "\xff", "\xc0\x80", "\xed\xa0\x80", "\xef\xbf\xbe", "\xef\xbf\xbf", "\xf4\x90\x80\x80", "\xe2\x82", "a\x00b")
						illegal = true
						R.count("ttml.write.illegal_text")
					}
					if r.chance(1, 8) {
						v.Items[i].Lines[j][k].Text = r.pick("\t", " lead", "trail ", "\ttab", "a\rb", "", "  ", "x ", " x", "]]>", "<![CDATA[", "&#10;", "", "�", "\U0010ffff", "\u0085", " ", "퟿", "\r", " ") + v.Items[i].Lines[j][k].Text
					}
				}
			}
			if r.chance(1, 20) {
				v.Items[i].Lines = nil
			}
		}
		if r.chance(1, 8) {
			v.HasMeta = false
		} else if r.chance(1, 4) {
			v.Lang = r.pick("german", "", "english", "spanish")
		}
		s := subsOfDoc(v)
		nilInline := r.chance(1, 6)
		if nilInline {
			for _, it := range s.Items {
				if attrsOfSA(it.InlineStyle).empty() {
					it.InlineStyle = nil
				}
				for j := range it.Lines {
					for k := range it.Lines[j].Items {
						if attrsOfSA(it.Lines[j].Items[k].InlineStyle).empty() {
							it.Lines[j].Items[k].InlineStyle = nil
						}
					}
				}
			}
			for _, st := range s.Styles {
				if attrsOfSA(st.InlineStyle).empty() {
					st.InlineStyle = nil
				}
			}
		}
		if r.chance(1, 10) {
			s.Styles["~nil"] = nil
			s.Regions["~nil"] = nil
		}
		ind := wIndents[r.intn(len(wIndents))]
		in := &enc{}
		if ind == nil {
			in.str("    ")
		} else {
			in.str(*ind)
		}
		pv, _ := projectSubs(s)
		in.tdoc(pv)
		o := &obs{Suite: "ttmlwrite", Group: "ttml.write", Input: in.String(), Human: map[string]interface{}{"indent": ind, "value": pv}}
		o.NT = len(v.Styles) > 0
		for _, it := range v.Items {
			if len(it.Lines) > 1 {
				o.NT = true
			}
		}
		if r.chance(1, 8) {
			// Items is a []*Item: WriteToTTML drops nil elements first (nonNilItems, write_ttml_items_c); the model input
			// above is the list without them
			s.Items = withNilItems(s.Items, r.intn(8))
			R.count("ttml.write.nil_item")
		}
		var buf bytes.Buffer
		var err error
		p := safely(func() {
			if ind == nil {
				err = s.WriteToTTML(&buf)
			} else {
				err = s.WriteToTTML(&buf, astisub.WriteToTTMLWithIndentOption(*ind))
			}
		})
		want := ttExpectWritten(v)
		switch {
		case p != "":
			o.Impl, o.Oracle, o.Sig = "2", "WriteToTTML panicked: "+p, "ttml-write-panic"
		case err != nil:
			o.Impl, o.Oracle, o.Sig = "1", "WriteToTTML failed: "+err.Error(), "ttml-write-error"
		default:
			o.Human.(map[string]interface{})["written"] = buf.String()
			root, _, perr := parseXMLTree(buf.Bytes())
			if perr != nil {
				o.Impl, o.Oracle, o.Sig = "0", "the output is not well-formed XML: "+perr.Error(), "ttml-write-xml"
				break
			}
			o.Impl = (&enc{}).n(0).bytes(buf.Bytes()).String()
			illegal = false
			for _, it := range v.Items {
				for _, l := range it.Lines {
					for _, run := range l {
						if !xmlLegal(run.Text) {
							illegal = true
						}
					}
				}
			}
			if illegal {
				if !bytes.Contains(buf.Bytes(), []byte("\xef\xbf\xbd")) {
					o.Oracle, o.Sig = "text that is not XML-legal was written without the U+FFFD substitution", "ttml-write-illegal"
				}
				break
			}
			// the XML-layer contract on this output: parsing the bytes gives the model's tree with the encoder's indentation
			R.add(&obs{Suite: "ttmlwritetree", Group: "ttml.write.tree", Input: o.Input, Impl: (&enc{}).n(0).xnode(root).String(), NT: o.NT})
			// the Coq XML parser (Kit/XmlParse.v) on the implementation's bytes = encoding/xml's token tree
			R.add(&obs{Suite: "xmlparse", Group: "ttml.write.xmlparse", Input: (&enc{}).bytes(buf.Bytes()).String(), Impl: (&enc{}).n(0).xnode(root).String(), NT: o.NT})
			dec, derr := denoteTTML(root)
			if derr != nil {
				o.Oracle, o.Sig = "independent decoder rejects the writer's output: "+derr.Error(), "ttml-write-decoder"
				break
			}
			if m, sig := diffDocs(dec.V, want, true); m != "" {
				o.Oracle, o.Sig = "independent decoder: "+m, "ttml-write-decoder-"+sig
				break
			}
			for i := range want.Items {
				if !checkInstant(want.Items[i].St, dec.Times[i][0]) || !checkInstant(want.Items[i].En, dec.Times[i][1]) {
					o.Oracle, o.Sig = fmt.Sprintf("independent decoder: cue %d: times %s..%s, want %d..%d", i, dec.Times[i][0].FloatString(0), dec.Times[i][1].FloatString(0), want.Items[i].St, want.Items[i].En), "ttml-write-decoder-time"
				}
			}
			if o.Oracle != "" {
				break
			}
			back, rerr := astisub.ReadFromTTML(bytes.NewReader(buf.Bytes()))
			if rerr != nil {
				o.Oracle, o.Sig = "the library's reader rejects the writer's output: "+rerr.Error(), "ttml-write-read"
				break
			}
			bv, problems := projectSubs(back)
			// byte-level reader model (Coq XML parser, then the tree reader) on the implementation's bytes vs ReadFromTTML
			R.add(&obs{Suite: "ttmlreadbytes", Group: "ttml.write.readbytes", Input: (&enc{}).bytes(buf.Bytes()).String(), Impl: (&enc{}).n(0).tdoc(bv).String(), NT: o.NT})
			if len(problems) > 0 {
				o.Oracle, o.Sig = "write then read: "+problems[0], "ttml-write-read-identity"
			} else if m, sig := diffDocs(bv, want, true); m != "" {
				o.Oracle, o.Sig = "write then read: "+m, "ttml-write-read-"+sig
			} else if m := diffTimes(bv, want); m != "" {
				o.Oracle, o.Sig = "write then read: "+m, "ttml-write-read-time"
			}
		}
		R.add(o)
	}
	// empty list: nothing to write
	{
		s := astisub.NewSubtitles()
		var buf bytes.Buffer
		err := s.WriteToTTML(&buf)
		pv, _ := projectSubs(s)
		in := &enc{}
		in.str("    ").tdoc(pv)
		o := &obs{Suite: "ttmlwrite", Group: "ttml.write", Input: in.String(), Impl: "1", NT: true}
		if err != astisub.ErrNoSubtitlesToWrite || buf.Len() != 0 {
			o.Oracle, o.Sig = "an empty list must be refused with ErrNoSubtitlesToWrite before anything is written", "ttml-write-empty"
		}
		R.add(o)
	}
}

type ttCorpusDoc struct {
	note  string
	doc   string
	check func(v tvDoc) string
}

func ttWrap(head, body string) string {
	return `<tt xmlns="http://www.w3.org/ns/ttml" xmlns:tts="http://www.w3.org/ns/ttml#styling" xmlns:ttp="http://www.w3.org/ns/ttml#parameter" ttp:frameRate="25" ttp:tickRate="3">` + head + `<body><div>` + body + `</div></body></tt>`
}

var ttCorpus = []ttCorpusDoc{
	{"hh:mm:ss without fraction is a clock time, not a frame count", ttWrap("", `<p begin="00:00:05" end="00:01:07">x</p>`), func(v tvDoc) string {
		if len(v.Items) != 1 || v.Items[0].St != 5e9 || v.Items[0].En != 67e9 {
			return fmt.Sprintf("read as %d..%d ns", v.Items[0].St, v.Items[0].En)
		}
		return ""
	}},
	{"two styles sharing a parent are both linked", ttWrap(`<head><styling><style xml:id="p" tts:color="red"/><style xml:id="a" style="p"/><style xml:id="b" style="p"/></styling></head>`, `<p begin="1s" end="2s">x</p>`), func(v tvDoc) string {
		for _, s := range v.Styles {
			if s.ID != "p" && (s.Ref == nil || *s.Ref != "p") {
				return "style " + s.ID + " has no parent"
			}
		}
		return ""
	}},
	{"1.001s is 1 001 000 000 ns", ttWrap("", `<p begin="1.001s" end="2.002s">x</p>`), func(v tvDoc) string {
		if v.Items[0].St != 1001000000 || v.Items[0].En != 2002000000 {
			return fmt.Sprintf("read as %d..%d ns", v.Items[0].St, v.Items[0].En)
		}
		return ""
	}},
	{"leading, middle and trailing empty lines", ttWrap("", `<p begin="1s" end="2s"><br/>second row<br/><br/>fourth<br/></p>`), func(v tvDoc) string {
		if len(v.Items[0].Lines) != 5 || len(v.Items[0].Lines[0]) != 0 || len(v.Items[0].Lines[2]) != 0 || len(v.Items[0].Lines[4]) != 0 {
			return "lines " + showLines(v.Items[0].Lines)
		}
		return ""
	}},
	{"ticks at a rate that does not divide 10^9", ttWrap("", `<p begin="3t" end="300000t">x</p>`), func(v tvDoc) string {
		if v.Items[0].St != 1e9 || v.Items[0].En != 1e14 {
			return fmt.Sprintf("read as %d..%d ns", v.Items[0].St, v.Items[0].En)
		}
		return ""
	}},
	{"br inside a span, indentation", ttWrap("", "<p begin=\"1s\" end=\"2s\">\n  <span tts:color=\"red\">a<br/>\n   b</span>\n  <br/>\n  c\n</p>"), func(v tvDoc) string {
		if showLines(v.Items[0].Lines) != `["a" / "b" / "c"]` {
			return "lines " + showLines(v.Items[0].Lines)
		}
		return ""
	}},
	// necessity of the composite theorem's side conditions (coq/Proofs/TtmlRenderNeeded.v), replayed on the library
	{"bare_text_no_leading_blank_needed: the leading blank of bare text is taken for indentation", `<tt><body><div><p begin="1s" end="2s"> x</p></div></body></tt>`, func(v tvDoc) string {
		if len(v.Items) != 1 || len(v.Items[0].Lines) != 1 || len(v.Items[0].Lines[0]) != 1 || v.Items[0].Lines[0][0].Text != "x" {
			return "lines " + showLines(v.Items[0].Lines)
		}
		return ""
	}},
	{"one_line_needed: an empty p reads as one empty line", `<tt><body><div><p begin="1s" end="2s"></p></div></body></tt>`, func(v tvDoc) string {
		if len(v.Items) != 1 || len(v.Items[0].Lines) != 1 || len(v.Items[0].Lines[0]) != 0 {
			return "lines " + showLines(v.Items[0].Lines)
		}
		return ""
	}},
	{"distinct_ids_needed: a duplicate style identifier leaves one style", `<tt><head><styling><style id="a"/><style id="a"/></styling></head><body><div><p begin="1s" end="2s">x</p></div></body></tt>`, func(v tvDoc) string {
		if len(v.Styles) != 1 {
			return fmt.Sprintf("%d styles", len(v.Styles))
		}
		return ""
	}},
	{"positive_rate_needed: a frame count without a frame rate contributes nothing", `<tt><body><div><p begin="25f" end="2s">x</p></div></body></tt>`, func(v tvDoc) string {
		if v.Items[0].St != 0 {
			return fmt.Sprintf("begin read as %d", v.Items[0].St)
		}
		return ""
	}},
	{"closed_references_needed: p naming an undefined style", `<tt><body><div><p begin="1s" end="2s" style="z">x</p></div></body></tt>`, nil},
	{"a start tag inside a paragraph written over several lines", ttWrap("", "<p begin=\"1s\" end=\"2s\"><span\n tts:color=\"red\"\n\ttts:fontStyle='italic'\n>Hi</span\n><br\n/>x</p>"), func(v tvDoc) string {
		l := v.Items[0].Lines
		if len(l) != 2 || len(l[0]) != 1 || l[0][0].Text != "Hi" || l[0][0].A.S[1] == nil || *l[0][0].A.S[1] != "red" || l[1][0].Text != "x" {
			return "lines " + showLines(l)
		}
		return ""
	}},
	{"p without begin", ttWrap("", `<p end="2s">x</p>`), nil},
	{"unknown style", ttWrap("", `<p begin="1s" end="2s" style="nope">x</p>`), nil},
	{"unknown parent", ttWrap(`<head><styling><style xml:id="a" style="nope"/></styling></head>`, `<p begin="1s" end="2s">x</p>`), nil},
	{"duplicate style ids, first has a parent", ttWrap(`<head><styling><style xml:id="p"/><style xml:id="a" style="p"/><style xml:id="a"/></styling></head>`, `<p begin="1s" end="2s" style="a">x</p>`), nil},
	{"nested elements and a nested br", ttWrap("", `<p begin="1s" end="2s"><span>a<b>x<br/>y</b>c<br/>d</span></p>`), nil},
	{"root is not tt", `<ttx><body><div><p begin="1s" end="2s">x</p></div></body></ttx>`, nil},
	{"nested div", ttWrap("", `<div><p begin="1s" end="2s">x</p></div>`), nil},
	{"empty p, p with only blanks", ttWrap("", `<p begin="1s" end="2s"/><p begin="1s" end="2s">   </p><p begin="1s" end="2s"><span/></p>`), nil},
	{"two heads, two metadata, nested markup in the title", `<tt xml:lang="fr-CA"><head><metadata><title>a<b>x</b>c</title><copyright>c1</copyright></metadata></head><head><metadata><title>second</title></metadata><styling><style id="s"/></styling></head><body><div><p begin="1s" end="2s" style="s">x</p></div></body></tt>`, nil},
	{"integer attributes: blanks, sign, empty", `<tt frameRate=" 30 " tickRate=""><head><styling><style id="s" zIndex="+5"/><style id="t" zIndex=""/><style id="u" zIndex=" -3 "/></styling></head><body><div><p begin="30f" end="00:00:02:15">x</p></div></body></tt>`, nil},
	{"bad zIndex on a span", ttWrap("", `<p begin="1s" end="2s"><span tts:zIndex="x">a</span></p>`), nil},
	{"bad zIndex on a nested span is skipped", ttWrap("", `<p begin="1s" end="2s"><span>a<span tts:zIndex="x">b</span></span></p>`), nil},
	{"bad frameRate", `<tt frameRate="abc"><body><div><p begin="1s" end="2s">x</p></div></body></tt>`, nil},
	{"region with unknown style", ttWrap(`<head><layout><region xml:id="r" style="nope"/></layout></head>`, `<p begin="1s" end="2s">x</p>`), nil},
	{"region and style tables, references everywhere", ttWrap(`<head><layout><region xml:id="r" style="s" tts:origin="1% 2%"/></layout><styling><style xml:id="s" tts:color="c"/></styling></head>`, `<p begin="1s" end="2s" region="r" style="s"><span style="s" tts:color="d">x</span></p>`), nil},
	{"upper-case and prefixed br, br with content", ttWrap("", `<p begin="1s" end="2s">a<BR/>b<x:br xmlns:x="u">ignored</x:br>c<Br></Br><span>d<BR/>e</span></p>`), nil},
	{"one-letter language, unknown language", `<tt xml:lang="e"><body><div><p begin="1s" end="2s">x</p></div></body></tt>`, nil},
	{"text directly in div/body is ignored, p outside div is ignored", `<tt><body>t<p begin="1s" end="2s">no</p><div>u<p begin="1s" end="2s">yes</p>v</div></body></tt>`, nil},
	{"style without id, empty references", ttWrap(`<head><styling><style tts:color="c"/></styling></head>`, `<p begin="1s" end="2s" style="" region="">x</p>`), nil},
	{"several begin attributes, one malformed", `<tt xmlns:a="u1" xmlns:b="u2"><body><div><p a:begin="x" b:begin="2s" end="3s">x</p></div></body></tt>`, nil},
	{"non-breaking and ideographic space at the start of bare text, a bare no-break space between spans", ttWrap("", "<p begin=\"1s\" end=\"2s\">\u00a0a<br/>\n  \u3000b<span>\u00a0c</span>\u00a0<span>d</span></p>"), func(v tvDoc) string {
		if l := v.Items[0].Lines; len(l) != 2 || len(l[0]) != 1 || len(l[1]) != 4 || l[0][0].Text != "\u00a0a" || l[1][0].Text != "\u3000b" || l[1][1].Text != "\u00a0c" || l[1][2].Text != "\u00a0" || l[1][3].Text != "d" {
			return "lines " + showLines(v.Items[0].Lines)
		}
		return ""
	}},
	{"tab indentation, blank lines, trailing blanks on text lines", ttWrap("", "<p begin=\"1s\" end=\"2s\">\n\t\tfirst  \n\n\t\t<br/>\n\t\tsecond\t\n\t</p>"), nil},
	{"duplicate attributes by local name", `<tt xmlns:a="u1" xmlns:b="u2"><body><div><p a:begin="1s" b:begin="2s" end="3s" a:color="x" b:color="y">x</p></div></body></tt>`, nil},
}
