package main

// Generator of cue lists assembled from the public types with every optional part possibly present
// or absent (used by C07, C08, C19, C20).

import (
	"fmt"
	"time"

	astisub "github.com/asticode/go-astisub"
)

func strPtr(s string) *string   { return &s }
func f64Ptr(f float64) *float64 { return &f }
func boolPtr(b bool) *bool      { return &b }

type richOpts struct {
	caseIDs   bool // style identifiers that differ only by case
	unordered bool // cues not in start order
	safe      bool // every InlineStyle of styles/regions and the metadata are present
	hostile   bool // text with leading combining marks, control characters, non-BMP runes
	maxStyles int
	maxItems  int
	dangling  bool // some styles / regions inherit from styles that are NOT registered in Subtitles.Styles
	breaks    bool // some texts contain line terminators (LF, CR, CR LF)
}

func randColor(r *rng) *astisub.Color {
	return &astisub.Color{Alpha: uint8(r.intn(256)), Blue: uint8(r.intn(256)), Green: uint8(r.intn(256)), Red: uint8(r.intn(256))}
}

func randStyleAttrs(r *rng, kind int) *astisub.StyleAttributes {
	sa := &astisub.StyleAttributes{}
	// heterogeneous subsets: each attribute present with probability 1/3
	on := func() bool { return r.chance(1, 3) }
	if on() {
		sa.SSAAlignment = intPtr(1 + r.intn(9))
	}
	if on() {
		sa.SSAAlphaLevel = f64Ptr(float64(r.intn(100)) / 100)
	}
	if on() {
		sa.SSAAngle = f64Ptr(float64(r.intn(360)))
	}
	if on() {
		sa.SSABackColour = randColor(r)
	}
	if on() {
		sa.SSABold = boolPtr(r.chance(1, 2))
	}
	if on() {
		sa.SSABorderStyle = intPtr(1 + 2*r.intn(2))
	}
	if on() {
		sa.SSAEncoding = intPtr(r.intn(3))
	}
	if on() {
		sa.SSAFontName = r.pick("Arial", "Tahoma", "f1")
	}
	if on() {
		sa.SSAFontSize = f64Ptr(float64(8 + r.intn(40)))
	}
	if on() {
		sa.SSAItalic = boolPtr(r.chance(1, 2))
	}
	if on() {
		sa.SSAMarginLeft = intPtr(r.intn(50))
	}
	if on() {
		sa.SSAMarginRight = intPtr(r.intn(50))
	}
	if on() {
		sa.SSAMarginVertical = intPtr(r.intn(50))
	}
	if on() {
		sa.SSAOutline = f64Ptr(float64(r.intn(4)))
	}
	if on() {
		sa.SSAOutlineColour = randColor(r)
	}
	if on() {
		sa.SSAPrimaryColour = randColor(r)
	}
	if on() {
		sa.SSAScaleX = f64Ptr(float64(50 + r.intn(100)))
	}
	if on() {
		sa.SSAScaleY = f64Ptr(float64(50 + r.intn(100)))
	}
	if on() {
		sa.SSASecondaryColour = randColor(r)
	}
	if on() {
		sa.SSAShadow = f64Ptr(float64(r.intn(4)))
	}
	if on() {
		sa.SSASpacing = f64Ptr(float64(r.intn(4)))
	}
	if on() {
		sa.SSAStrikeout = boolPtr(r.chance(1, 2))
	}
	if on() {
		sa.SSAUnderline = boolPtr(r.chance(1, 2))
	}
	if on() {
		sa.TTMLColor = strPtr(r.pick("white", "red", "#00ff00", "yellow"))
	}
	if on() {
		sa.TTMLBackgroundColor = strPtr(r.pick("black", "#101010"))
	}
	if on() {
		sa.TTMLFontSize = strPtr(r.pick("100%", "80%"))
	}
	if on() {
		sa.TTMLTextAlign = strPtr(r.pick("center", "left", "right"))
	}
	if on() {
		sa.TTMLExtent = strPtr(r.pick("80% 10%", "100% 20%"))
	}
	if on() {
		sa.TTMLOrigin = strPtr(r.pick("10% 80%", "0% 0%"))
	}
	if on() {
		sa.TTMLZIndex = intPtr(r.intn(5))
	}
	if on() {
		n := 1 + r.intn(3)
		for i := 0; i < n; i++ {
			sa.WebVTTStyles = append(sa.WebVTTStyles, fmt.Sprintf("::cue(%s) { color: %s; }", r.pick("b", "i", "c", "v"), r.pick("red", "lime", "peachpuff")))
		}
	}
	switch kind {
	case 1: // region
		if on() {
			sa.WebVTTLines = 1 + r.intn(4)
		}
		if on() {
			sa.WebVTTWidth = r.pick("40%", "80%")
		}
		if on() {
			sa.WebVTTRegionAnchor = r.pick("0%,100%", "100%,100%")
		}
		if on() {
			sa.WebVTTViewportAnchor = r.pick("10%,90%", "90%,90%")
		}
		if on() {
			sa.WebVTTScroll = "up"
		}
	case 2: // cue
		if on() {
			sa.WebVTTAlign = r.pick("start", "center", "end", "left", "right")
		}
		if on() {
			sa.WebVTTLine = r.pick("0", "50%", "-1")
		}
		if on() {
			sa.WebVTTPosition = r.pick("10%", "50%")
		}
		if on() {
			sa.WebVTTSize = r.pick("40%", "100%")
		}
		if on() {
			sa.WebVTTVertical = r.pick("rl", "lr")
		}
		if on() {
			sa.SSALayer = intPtr(r.intn(3))
		}
		if on() {
			sa.SSAMarked = boolPtr(r.chance(1, 2))
		}
		if on() {
			sa.SSAEffect = r.pick("Scroll up", "Banner")
		}
		if on() {
			j := astisub.Justification(1 + r.intn(4))
			sa.STLJustification = &j
		}
		if on() {
			sa.STLPosition = &astisub.STLPosition{VerticalPosition: 1 + r.intn(22), MaxRows: 23, Rows: 1}
		}
	case 3: // run
		if on() {
			sa.SRTBold = true
		}
		if on() {
			sa.SRTItalics = true
		}
		if on() {
			sa.SRTColor = strPtr(r.pick("#ff0000", "yellow"))
		}
		if on() {
			sa.STLItalics = boolPtr(r.chance(1, 2))
		}
		if on() {
			sa.STLUnderline = boolPtr(r.chance(1, 2))
		}
		if on() {
			sa.STLBoxing = boolPtr(r.chance(1, 2))
		}
		if on() {
			sa.SSAEffect = r.pick("{\\b1}", "{\\i1}")
		}
		if on() {
			sa.WebVTTTags = []astisub.WebVTTTag{{Name: r.pick("b", "i", "c", "lang"), Classes: []string{"x"}}}
			if r.chance(1, 2) {
				sa.WebVTTTags = append(sa.WebVTTTags, astisub.WebVTTTag{Name: "u"})
			}
		}
		if on() {
			sa.TeletextColor = randColor(r)
		}
	}
	return sa
}

var plainWords = []string{"hello", "world", "Good morning", "a-b", "x y z", "The quick brown fox", "ok", "1 2 3", "(music)", "What?", "No!", "café", "naïve"}
var hostileWords = []string{"́a", "̀", "a\x00b", "\x1b[0m", "\U0001F600", "\U0001D11E clef", "tab\tbed", "line\nbreak", "‮RTL", "�", string([]byte{0xff, 0xfe}), "<b>&", "-->", "{\\an8}", " ", "", " ", "\r"}

func richSubs(r *rng, o richOpts) *astisub.Subtitles {
	s := &astisub.Subtitles{}
	if o.safe || r.chance(2, 3) {
		s.Styles = map[string]*astisub.Style{}
	}
	if o.safe || r.chance(2, 3) {
		s.Regions = map[string]*astisub.Region{}
	}
	if o.safe || r.chance(2, 3) {
		m := &astisub.Metadata{Framerate: 25, STLDisplayStandardCode: r.pick("0", "1", "0"), Title: r.pick("", "A title"), Language: r.pick("", astisub.LanguageFrench, astisub.LanguageEnglish)}
		m.SSAScriptType = r.pick("v4.00", "v4.00+", "v4.00")
		m.STLMaximumNumberOfDisplayableCharactersInAnyTextRow = intPtr(40)
		m.STLMaximumNumberOfDisplayableRows = intPtr(23)
		if r.chance(1, 2) {
			m.TTMLCopyright = "(c) someone"
		}
		if r.chance(1, 3) {
			m.Comments = []string{"c1", "c2"}
		}
		if r.chance(1, 3) {
			m.SSAPlayResX, m.SSAPlayResY = intPtr(640), intPtr(480)
		}
		if r.chance(1, 2) {
			t := time.Date(2020, 1, 2, 0, 0, 0, 0, time.UTC)
			m.STLCreationDate, m.STLRevisionDate = &t, &t
		}
		if r.chance(1, 4) {
			m.WebVTTTimestampMap = &astisub.WebVTTTimestampMap{Local: time.Duration(r.intn(10)) * time.Second, MpegTS: int64(r.intn(900000))}
		}
		if !o.safe && r.chance(1, 3) {
			m = &astisub.Metadata{} // foreign / empty metadata
		}
		s.Metadata = m
	}
	var styles []*astisub.Style
	ns := r.intn(o.maxStyles + 1)
	for i := 0; i < ns && s.Styles != nil; i++ {
		st := &astisub.Style{ID: fmt.Sprintf("s%d", i)}
		if o.caseIDs {
			st.ID = []string{"Default", "default", "DEFAULT", "Alt", "alt", "aLT", "x"}[i%7]
		}
		if o.safe || r.chance(3, 4) {
			st.InlineStyle = randStyleAttrs(r, 0)
		}
		if i > 0 && r.chance(1, 3) {
			st.Style = styles[r.intn(i)]
		}
		if o.dangling && r.chance(1, 2) {
			// a parent the caller did not register (several distinct ones over the list)
			st.Style = &astisub.Style{ID: fmt.Sprintf("unregistered%d", r.intn(4)), InlineStyle: randStyleAttrs(r, 0)}
		}
		styles = append(styles, st)
		s.Styles[st.ID] = st
	}
	var regions []*astisub.Region
	nr := r.intn(o.maxStyles/2 + 2)
	for i := 0; i < nr && s.Regions != nil; i++ {
		rg := &astisub.Region{ID: fmt.Sprintf("r%d", i)}
		if o.safe || r.chance(3, 4) {
			rg.InlineStyle = randStyleAttrs(r, 1)
		}
		if len(styles) > 0 && r.chance(1, 2) {
			rg.Style = styles[r.intn(len(styles))]
		}
		regions = append(regions, rg)
		s.Regions[rg.ID] = rg
	}
	if o.hostile {
		// the maps are public: keys that differ from the element's identifier, nil elements
		if len(s.Styles) > 0 && r.chance(1, 4) {
			for k, v := range s.Styles {
				delete(s.Styles, k)
				s.Styles["key-"+k] = v
				break
			}
		}
		if len(s.Regions) > 0 && r.chance(1, 4) {
			for k, v := range s.Regions {
				delete(s.Regions, k)
				s.Regions["key-"+k] = v
				break
			}
		}
		if s.Styles != nil && r.chance(1, 6) {
			s.Styles["nil-style"] = nil
		}
		if s.Regions != nil && r.chance(1, 6) {
			s.Regions["nil-region"] = nil
		}
	}
	ni := 1 + r.intn(o.maxItems)
	if !o.safe && r.chance(1, 10) {
		ni = 0
	}
	var t int64
	words := plainWords
	for i := 0; i < ni; i++ {
		t += (1 + r.i64n(3000)) * 1e6
		it := &astisub.Item{StartAt: time.Duration(t)}
		t += (500 + r.i64n(3000)) * 1e6
		it.EndAt = time.Duration(t)
		if !o.safe && r.chance(1, 8) {
			it.StartAt, it.EndAt = 0, 0
		}
		if len(regions) > 0 && r.chance(1, 2) {
			it.Region = regions[r.intn(len(regions))]
		}
		if len(styles) > 0 && r.chance(1, 2) {
			it.Style = styles[r.intn(len(styles))]
		}
		if r.chance(1, 2) {
			it.InlineStyle = randStyleAttrs(r, 2)
		}
		if r.chance(1, 4) {
			it.Comments = []string{"note " + fmt.Sprint(i)}
		}
		nl := 1 + r.intn(2)
		if !o.safe && r.chance(1, 8) {
			nl = 0
		}
		for l := 0; l < nl; l++ {
			ln := astisub.Line{VoiceName: r.pick("", "", "Bob")}
			nk := 1 + r.intn(2)
			if !o.safe && r.chance(1, 8) {
				nk = 0
			}
			for k := 0; k < nk; k++ {
				w := words[r.intn(len(words))]
				if o.hostile && r.chance(1, 2) {
					w = hostileWords[r.intn(len(hostileWords))]
				}
				if o.breaks && r.chance(1, 3) {
					w = r.pick("Knock,\nknock.", "a\rb", "two\r\nlines", "\nlead", "trail\n")
				}
				li := astisub.LineItem{Text: w}
				if r.chance(1, 3) {
					li.InlineStyle = randStyleAttrs(r, 3)
				}
				if len(styles) > 0 && r.chance(1, 4) {
					li.Style = styles[r.intn(len(styles))]
				}
				if r.chance(1, 8) {
					li.StartAt = it.StartAt + time.Duration(r.intn(500))*time.Millisecond
				}
				ln.Items = append(ln.Items, li)
			}
			it.Lines = append(it.Lines, ln)
		}
		s.Items = append(s.Items, it)
	}
	if o.unordered {
		for i := len(s.Items) - 1; i > 0; i-- {
			j := r.intn(i + 1)
			s.Items[i], s.Items[j] = s.Items[j], s.Items[i]
		}
	}
	return s
}

// withNilItems returns the list with a nil element inserted at position k mod (len+1) and another one at the end:
// Items is a public []*Item; the writers skip nil elements (the writer models take the list without them:
// Kit.Chk.somes, write_*_items_c), so the model input stays the encoding of the list without nil
func withNilItems(items []*astisub.Item, k int) []*astisub.Item {
	p := k % (len(items) + 1)
	o := append([]*astisub.Item{}, items[:p]...)
	o = append(o, nil)
	o = append(o, items[p:]...)
	return append(o, nil)
}
