package main

// One PRNG for every random choice (splitmix64), seeded from VERIF_SEED.

type rng struct{ s uint64 }

func newRng(seed uint64) *rng { return &rng{s: seed*0x9E3779B97F4A7C15 + 0x1234567} }
func (r *rng) u64() uint64 {
	r.s += 0x9E3779B97F4A7C15
	z := r.s
	z = (z ^ (z >> 30)) * 0xBF58476D1CE4E5B9
	z = (z ^ (z >> 27)) * 0x94D049BB133111EB
	return z ^ (z >> 31)
}
func (r *rng) intn(n int) int {
	if n <= 0 {
		return 0
	}
	return int(r.u64() % uint64(n))
}
func (r *rng) i64n(n int64) int64 {
	if n <= 0 {
		return 0
	}
	return int64(r.u64() % uint64(n))
}
func (r *rng) rangeI64(lo, hi int64) int64 { return lo + r.i64n(hi-lo+1) }
func (r *rng) chance(num, den int) bool    { return r.intn(den) < num }
func (r *rng) pick(ss ...string) string    { return ss[r.intn(len(ss))] }
func (r *rng) fork() *rng                  { return newRng(r.u64()) }
