package main

// C15 linear correction

import (
	"fmt"
	"math/big"
	"strconv"
	"strings"
	"time"

	astisub "github.com/asticode/go-astisub"
)

const day = int64(24 * time.Hour)

// exact affine map d1 + (t-a1)(d2-d1)/(a2-a1)
func exactLin(a1, d1, a2, d2, t int64) *big.Rat {
	num := new(big.Int).Mul(big.NewInt(t-a1), big.NewInt(d2-d1))
	r := new(big.Rat).SetFrac(num, big.NewInt(a2-a1))
	return r.Add(r, new(big.Rat).SetInt64(d1))
}

func suiteLin(R *runner, r *rng) {
	R.rule("linear correction: reference quadruples (a1,d1,a2,d2) with a1 != a2 in [0,24h], slopes 0.5..2 incl. 25/23.976, 23.976/25, 30/29.97, 1, random ones and slopes within a few 1e-9 of 1 (a drift of microseconds over hours), applied to lists of 0..12 cues with boundaries in [0,24h] (incl. a1, a2, 0, 24h); the model (Flocq binary64) must agree bit for bit; oracle: |result - exact rational| < 1 us, a1->d1, a2->d2, order preserved for positive slope, cue length scaled by the slope (2 us), text/style/order untouched; non-trivial = slope != 1 or offset != 0")
	N := 1500
	if R.tier == "thorough" {
		N = 20000
	}
	ratios := [][2]int64{{25000, 23976}, {23976, 25000}, {30000, 29970}, {29970, 30000}, {1, 1}, {2, 1}, {1, 2}, {24, 25}, {25, 24}}
	for c := 0; c < N; c++ {
		var a1, d1, a2, d2 int64
		a1 = r.i64n(day / 2)
		a2 = a1 + 1 + r.i64n(day-a1-1)
		if r.chance(1, 2) {
			a1, a2 = r.i64n(3600e9), 3600e9+r.i64n(day-3600e9)
		}
		switch r.intn(4) {
		case 3: // slope within a few 1e-9 of 1: a common offset plus a drift of microseconds over hours
			off := r.rangeI64(-5e9, 5e9)
			d1 = a1 + off
			if d1 < 0 {
				d1 = 0
			}
			span := (a2 - a1) / 250000000 // (a2-a1) * 4e-9
			if span < 2000 {
				span = 2000
			}
			d2 = a2 + (d1 - a1) + r.rangeI64(-span, span)
		case 0: // named ratio
			q := ratios[r.intn(len(ratios))]
			d1 = r.i64n(60e9)
			d2 = d1 + new(big.Int).Div(new(big.Int).Mul(big.NewInt(a2-a1), big.NewInt(q[0])), big.NewInt(q[1])).Int64()
		case 1: // random slope in [0.5, 2]
			d1 = r.i64n(day / 4)
			lo, hi := (a2-a1)/2, (a2-a1)*2
			d2 = d1 + lo + r.i64n(hi-lo+1)
		default: // small drift
			d1 = a1 + r.rangeI64(-5e9, 5e9)
			if d1 < 0 {
				d1 = 0
			}
			d2 = a2 + r.rangeI64(-5e9, 5e9)
		}
		if d2 > day {
			d2 = day
		}
		if r.chance(1, 10) { // swapped references (a1 > a2)
			a1, a2, d1, d2 = a2, a1, d2, d1
		}
		n := r.intn(13)
		var items []*astisub.Item
		for i := 0; i < n; i++ {
			var s int64
			switch r.intn(6) {
			case 0:
				s = a1
			case 1:
				s = a2
			case 2:
				s = 0
			default:
				s = r.i64n(day)
			}
			e := s + r.i64n(10e9)
			if e > day || r.chance(1, 12) {
				e = day
			}
			it := mkItem(s, e, fmt.Sprintf("t%d", i))
			items = append(items, it)
		}
		u := uidsOf(items)
		in := &enc{}
		in.i(a1).i(d1).i(a2).i(d2)
		encItems(in, items, u)
		before := snapItems(items)
		h := map[string]interface{}{"a1": a1, "d1": d1, "a2": a2, "d2": d2, "cues": humanItems(items, u)}
		s := &astisub.Subtitles{Items: items}
		o := &obs{Suite: "lincorr", Input: in.String(), Human: h, NT: !(a1 == d1 && a2 == d2)}
		p := safely(func() {
			s.ApplyLinearCorrection(time.Duration(a1), time.Duration(d1), time.Duration(a2), time.Duration(d2))
		})
		if p != "" {
			o.Impl, o.Oracle, o.Sig = "PANIC", "ApplyLinearCorrection panicked: "+p, "lin-panic"
			R.add(o)
			continue
		}
		o.Impl = itemsString(s.Items, u)
		// oracle
		tol := big.NewRat(1000, 1) // 1 us in ns
		slopePos := (d2-d1 > 0) == (a2-a1 > 0) && d2 != d1
		check := func(t, got int64) string {
			ex := exactLin(a1, d1, a2, d2, t)
			diff := new(big.Rat).Sub(new(big.Rat).SetInt64(got), ex)
			if diff.Abs(diff).Cmp(tol) >= 0 {
				return fmt.Sprintf("boundary %d maps to %d, exact value %s: off by more than 1 us", t, got, ex.FloatString(3))
			}
			return ""
		}
		if len(s.Items) != len(before) {
			o.Oracle = "cue count changed"
		}
		for i, b := range before {
			if o.Oracle != "" || i >= len(s.Items) {
				break
			}
			a := s.Items[i]
			if a != b.p || payload(a) != b.payload {
				o.Oracle = "cue text, style or list order changed"
				break
			}
			if m := check(b.s, int64(a.StartAt)); m != "" {
				o.Oracle = m
				break
			}
			if m := check(b.e, int64(a.EndAt)); m != "" {
				o.Oracle = m
				break
			}
			if slopePos && b.s <= b.e && a.StartAt > a.EndAt {
				o.Oracle = fmt.Sprintf("order of boundaries %d <= %d not preserved: %d > %d", b.s, b.e, int64(a.StartAt), int64(a.EndAt))
				break
			}
			// length scaled by the slope (tolerance 2 us)
			wantLen := new(big.Rat).SetFrac(new(big.Int).Mul(big.NewInt(b.e-b.s), big.NewInt(d2-d1)), big.NewInt(a2-a1))
			dl := new(big.Rat).Sub(new(big.Rat).SetInt64(int64(a.EndAt-a.StartAt)), wantLen)
			if dl.Abs(dl).Cmp(big.NewRat(2000, 1)) >= 0 {
				o.Oracle = fmt.Sprintf("cue length %d not scaled by the slope: got %d want %s", b.e-b.s, int64(a.EndAt-a.StartAt), wantLen.FloatString(3))
				break
			}
		}
		if o.Oracle == "" && slopePos {
			// monotone over all boundaries
			type pr struct{ t, v int64 }
			var ps []pr
			for i, b := range before {
				ps = append(ps, pr{b.s, int64(s.Items[i].StartAt)}, pr{b.e, int64(s.Items[i].EndAt)})
			}
			for i := range ps {
				for j := range ps {
					if ps[i].t <= ps[j].t && ps[i].v > ps[j].v {
						o.Oracle = fmt.Sprintf("order of boundaries not preserved: %d <= %d but %d > %d", ps[i].t, ps[j].t, ps[i].v, ps[j].v)
					}
				}
			}
		}
		if o.Oracle != "" {
			o.Sig = "lin-affine"
		}
		R.add(o)
	}
}

// the float path of formatDuration's fraction digits against the model's Flocq evaluation (C16)
func suiteFracFloat(R *runner, r *rng) {
	N := 3000
	if R.tier == "thorough" {
		N = 60000
	}
	for c := 0; c < N; c++ {
		k := 2 + c%2
		var n int64
		switch r.intn(3) {
		case 0:
			n = r.i64n(1e9)
		case 1:
			n = r.i64n(1000)*1e6 + r.rangeI64(-1, 1)
		default:
			n = r.i64n(100)*1e7 + r.rangeI64(-1, 1)
		}
		if n < 0 {
			n = 0
		}
		if n >= 1e9 {
			n = 1e9 - 1
		}
		s := astisub.VerifFormatDuration(time.Duration(n), ".", k)
		fr := s[strings.IndexByte(s, '.')+1:]
		v, _ := strconv.ParseInt(fr, 10, 64)
		R.add(&obs{Suite: "fracfloat", Input: (&enc{}).n(k).i(n).String(), Impl: (&enc{}).i(v).String(), NT: true, Human: map[string]interface{}{"n": n, "k": k, "rendered": s}})
	}
}
