package main

// C07 through the plain view: the SSA/ASS codec (Model/PlainSsa.v, Proofs/PlainSsaProofs.v: ssa_plain_faithful).
// Unit: the centisecond.  The library's reader and writer; the model side is registered by ocaml/drv_ssa.ml (code 2).

import (
	"bytes"

	astisub "github.com/asticode/go-astisub"
)

func init() {
	plainCodecs = append(plainCodecs, plainCodec{2, "ssa", 1e7,
		func(b []byte) (*astisub.Subtitles, error) { return astisub.ReadFromSSA(bytes.NewReader(b)) },
		func(s *astisub.Subtitles, w *bytes.Buffer) error { return s.WriteToSSA(w) }})
}
