package main

// Integer encoding shared with the OCaml driver (see ocaml/driver.ml).

import (
	"strconv"
	"strings"
)

type enc struct{ b strings.Builder }

func (e *enc) i(v int64) *enc {
	e.b.WriteString(strconv.FormatInt(v, 10))
	e.b.WriteByte(' ')
	return e
}
func (e *enc) n(v int) *enc { return e.i(int64(v)) }
func (e *enc) bool(v bool) *enc {
	if v {
		return e.i(1)
	}
	return e.i(0)
}
func (e *enc) opt(v int) *enc { // v < 0 = None
	if v < 0 {
		return e.i(0)
	}
	return e.i(int64(v) + 1)
}
func (e *enc) str(s string) *enc {
	e.n(len(s))
	for i := 0; i < len(s); i++ {
		e.n(int(s[i]))
	}
	return e
}
func (e *enc) bytes(s []byte) *enc {
	e.n(len(s))
	for i := 0; i < len(s); i++ {
		e.n(int(s[i]))
	}
	return e
}
func (e *enc) raw(s string) *enc { e.b.WriteString(s); e.b.WriteByte(' '); return e }
func (e *enc) String() string    { return strings.TrimSpace(e.b.String()) }

type dec struct {
	t []string
	p int
}

func newDec(s string) *dec { return &dec{t: strings.Fields(s)} }
func (d *dec) i() int64 {
	v, err := strconv.ParseInt(d.t[d.p], 10, 64)
	if err != nil {
		panic(err)
	}
	d.p++
	return v
}
func (d *dec) n() int     { return int(d.i()) }
func (d *dec) bool() bool { return d.i() != 0 }
func (d *dec) opt() int   { return int(d.i()) - 1 }
func (d *dec) str() string {
	k := d.n()
	b := make([]byte, k)
	for j := range b {
		b[j] = byte(d.n())
	}
	return string(b)
}
func (d *dec) done() bool { return d.p >= len(d.t) }
