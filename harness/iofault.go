package main

// C17 (delivery schedules) and C18 (I/O faults): harness-controlled io.Reader / io.Writer wrappers,
// documents of every format, schedule and fault enumeration.

import (
	"unicode/utf16"
	"bytes"
	"encoding/json"
	"errors"
	"fmt"
	"io"
	"os"
	"path/filepath"
	"strings"
	"time"

	astisub "github.com/asticode/go-astisub"
)

// ---- readers -----------------------------------------------------------------------------------

// schedReader delivers data according to a list of counts (0 = an empty read); when the counts are
// exhausted it delivers the rest; withEOF: the last bytes come together with io.EOF; failAt >= 0: after
// that many bytes Read returns errFault (together with the last bytes when failWithData)
type schedReader struct {
	data         []byte
	pos          int
	counts       []int
	ci           int
	withEOF      bool
	failAt       int
	failWithData bool
	reads        int
}

var errFault = errors.New("injected I/O fault")

func (s *schedReader) Read(p []byte) (int, error) {
	s.reads++
	limit := len(s.data)
	if s.failAt >= 0 && s.failAt < limit {
		limit = s.failAt
	}
	if s.pos >= limit {
		if s.failAt >= 0 && s.failAt <= len(s.data) && limit == s.failAt {
			return 0, errFault
		}
		return 0, io.EOF
	}
	want := limit - s.pos
	if s.ci < len(s.counts) {
		want = s.counts[s.ci]
		s.ci++
	}
	if want > len(p) {
		want = len(p)
	}
	if want > limit-s.pos {
		want = limit - s.pos
	}
	n := copy(p, s.data[s.pos:s.pos+want])
	s.pos += n
	if s.pos >= limit {
		if s.failAt >= 0 && limit == s.failAt {
			if s.failWithData {
				return n, errFault
			}
		} else if s.withEOF {
			return n, io.EOF
		}
	}
	return n, nil
}

type format struct {
	name  string
	ext   string
	read  func(io.Reader) (*astisub.Subtitles, error)
	write func(*astisub.Subtitles, io.Writer) error
}

var formats = []format{
	{"srt", ".srt", func(r io.Reader) (*astisub.Subtitles, error) { return astisub.ReadFromSRT(r) }, func(s *astisub.Subtitles, w io.Writer) error { return s.WriteToSRT(w) }},
	{"webvtt", ".vtt", func(r io.Reader) (*astisub.Subtitles, error) { return astisub.ReadFromWebVTT(r) }, func(s *astisub.Subtitles, w io.Writer) error { return s.WriteToWebVTT(w) }},
	{"ssa", ".ssa", func(r io.Reader) (*astisub.Subtitles, error) { return astisub.ReadFromSSA(r) }, func(s *astisub.Subtitles, w io.Writer) error { return s.WriteToSSA(w) }},
	{"ttml", ".ttml", func(r io.Reader) (*astisub.Subtitles, error) { return astisub.ReadFromTTML(r) }, func(s *astisub.Subtitles, w io.Writer) error { return s.WriteToTTML(w) }},
	{"stl", ".stl", func(r io.Reader) (*astisub.Subtitles, error) { return astisub.ReadFromSTL(r, astisub.STLOptions{}) }, func(s *astisub.Subtitles, w io.Writer) error { return s.WriteToSTL(w) }},
}

// teletext is read only: it joins the reader suites (schedules, read faults), not the writer loops over [formats].
// PID and page are auto-detected, so the reader makes two passes with a rewind in between: the scheduled reader it gets
// is seekable (schedSeeker), like the files and in-memory readers of the one-shot run.
var teletextFormat = format{"teletext", ".ts", func(r io.Reader) (*astisub.Subtitles, error) {
	return astisub.ReadFromTeletext(r, astisub.TeletextOptions{})
}, nil}

// schedSeeker: a scheduled reader that can be rewound; the delivery schedule simply goes on after a Seek
type schedSeeker struct{ *schedReader }

func (s schedSeeker) Seek(off int64, whence int) (int64, error) {
	if whence != io.SeekStart || off < 0 || off > int64(len(s.data)) {
		return 0, errors.New("schedSeeker: unsupported seek")
	}
	s.pos = int(off)
	return off, nil
}

func schedFor(format string, s *schedReader) io.Reader {
	if format == "teletext" {
		return schedSeeker{s}
	}
	return s
}

func formatByName(n string) format {
	if n == "teletext" {
		return teletextFormat
	}
	for _, f := range formats {
		if f.name == n {
			return f
		}
	}
	panic(n)
}

type sampleDoc struct {
	format string
	name   string
	data   []byte
}

// plain Latin cue lists every format can carry
func plainCues(r *rng, n int) []srtCue {
	var cues []srtCue
	var t int64
	words := []string{"hello", "world", "Good morning", "a-b", "x y z", "The quick brown fox", "ok", "1 2 3", "(music)", "What?", "No!"}
	for i := 0; i < n; i++ {
		t += (1 + r.i64n(3000)) * 1e6
		c := srtCue{Start: t}
		t += (500 + r.i64n(3000)) * 1e6
		c.End = t
		nl := 1 + r.intn(2)
		for l := 0; l < nl; l++ {
			c.Lines = append(c.Lines, []srtRun{{Text: words[r.intn(len(words))]}})
		}
		cues = append(cues, c)
	}
	return cues
}

func stlReady(s *astisub.Subtitles) *astisub.Subtitles {
	s.Metadata = &astisub.Metadata{Framerate: 25, STLDisplayStandardCode: "0", Title: "t", STLMaximumNumberOfDisplayableCharactersInAnyTextRow: intPtr(40), STLMaximumNumberOfDisplayableRows: intPtr(23)}
	return s
}
func intPtr(i int) *int { return &i }

// documents of every format: repository samples, library-written versions of generated cue lists,
// and (for SRT) rendered documents with CR / CRLF line ends
func sampleDocs(r *rng, perFormat int, big bool) []sampleDoc {
	var docs []sampleDoc
	for _, f := range []struct{ format, file string }{
		{"srt", "example-in.srt"}, {"srt", "example-in-carriage-return.srt"}, {"srt", "example-in-styled.srt"},
		{"webvtt", "example-in.vtt"}, {"webvtt", "example-in-carriage-return.vtt"}, {"ssa", "example-in.ssa"}, {"ssa", "example-in-carriage-return.ssa"},
		{"ttml", "example-in.ttml"}, {"ttml", "example-in-breaklines.ttml"}, {"stl", "example-in.stl"}, {"stl", "example-opn-in.stl"}, {"stl", "example-in-nonzero-offset.stl"},
	} {
		if b, err := readRepoFile("testdata/" + f.file); err == nil {
			docs = append(docs, sampleDoc{f.format, f.file, b})
		}
	}
	// documents in other encodings: UTF-16 (little and big endian, byte order mark) with characters outside the BMP, so
	// that a read boundary can fall inside a surrogate pair; whatever the readers make of them (today: an error for TTML,
	// garbage lines for the line-based formats) must not depend on the delivery schedule
	utf16doc := func(text string, bigEndian bool) []byte {
		u := utf16.Encode([]rune(text))
		out := []byte{0xff, 0xfe}
		if bigEndian {
			out = []byte{0xfe, 0xff}
		}
		for _, c := range u {
			if bigEndian {
				out = append(out, byte(c>>8), byte(c))
			} else {
				out = append(out, byte(c), byte(c>>8))
			}
		}
		return out
	}
	ttml16 := "<?xml version=\"1.0\" encoding=\"UTF-16\"?>\n<tt xmlns=\"http://www.w3.org/ns/ttml\"><body><div>\n<p begin=\"00:00:01.000\" end=\"00:00:02.000\">smile \U0001F600 and clef \U0001D11E</p>\n<p begin=\"00:00:03.000\" end=\"00:00:04.000\">plain</p>\n</div></body></tt>\n"
	srt16 := "1\n00:00:01,000 --> 00:00:02,000\nsmile \U0001F600 and clef \U0001D11E\n\n"
	docs = append(docs, sampleDoc{"ttml", "utf16le-astral", utf16doc(ttml16, false)}, sampleDoc{"ttml", "utf16be-astral", utf16doc(ttml16, true)},
		sampleDoc{"srt", "utf16le-astral", utf16doc(srt16, false)}, sampleDoc{"webvtt", "utf16le-astral", utf16doc("WEBVTT\n\n"+strings.ReplaceAll(srt16, ",", "."), false)})
	// teletext: transport streams of the C06 generator (page schedules muxed with astits), 188-byte packets
	for i := 0; i < perFormat; i++ {
		sch := randSchedule(r)
		mux := ttxMux{unitsPerPES: r.intn(4), distractors: r.chance(1, 2), stuffing: r.chance(1, 3)}
		if ts, _, err := buildTS(r, sch, mux); err == nil {
			docs = append(docs, sampleDoc{"teletext", fmt.Sprintf("stream-%d", i), ts})
		}
	}
	for i := 0; i < perFormat; i++ {
		cues := plainCues(r, 1+r.intn(5))
		for _, f := range formats {
			s := subsFromCues(cues)
			if f.name == "stl" {
				stlReady(s)
			}
			var buf bytes.Buffer
			if p := safely(func() { _ = f.write(s, &buf) }); p == "" && buf.Len() > 0 {
				docs = append(docs, sampleDoc{f.name, fmt.Sprintf("written-%d", i), buf.Bytes()})
			}
		}
		styled := randSrtCues(r, 4, true)
		doc, _ := renderSrt(r, styled)
		docs = append(docs, sampleDoc{"srt", fmt.Sprintf("rendered-%d", i), []byte(doc)})
		// the same text with every line end as CRLF / CR for the line-based formats
		for _, f := range []string{"srt", "webvtt", "ssa"} {
			s := subsFromCues(cues)
			var buf bytes.Buffer
			if p := safely(func() { _ = formatByName(f).write(s, &buf) }); p == "" && buf.Len() > 0 {
				eol := r.pick("\r\n", "\r")
				docs = append(docs, sampleDoc{f, fmt.Sprintf("written-%d-%q", i, eol), bytes.ReplaceAll(buf.Bytes(), []byte("\n"), []byte(eol))})
			}
		}
	}
	if big {
		cues := plainCues(r, 2500)
		for _, f := range formats {
			s := subsFromCues(cues)
			if f.name == "stl" {
				stlReady(s)
			}
			var buf bytes.Buffer
			if p := safely(func() { _ = f.write(s, &buf) }); p == "" && buf.Len() > 0 {
				b := buf.Bytes()
				if f.name == "srt" || f.name == "ssa" || f.name == "webvtt" {
					b = bytes.ReplaceAll(b, []byte("\n"), []byte("\r\n"))
				}
				docs = append(docs, sampleDoc{f.name, "big", b})
			}
		}
	}
	return docs
}

// deep, order-independent snapshot of a parse result
func snapshot(s *astisub.Subtitles, err error, panicMsg string) string {
	if panicMsg != "" {
		return "PANIC"
	}
	if err != nil {
		return "ERR"
	}
	b, e := json.Marshal(s)
	if e != nil {
		return "SNAPSHOT-ERROR " + e.Error()
	}
	return string(b)
}

func readWith(f format, rd io.Reader) string {
	var s *astisub.Subtitles
	var err error
	p := safely(func() { s, err = f.read(rd) })
	return snapshot(s, err, p)
}

func describeSchedule(counts []int, withEOF bool) string {
	if len(counts) > 12 {
		return fmt.Sprintf("%v... (%d reads) eof_with_data=%v", counts[:12], len(counts), withEOF)
	}
	return fmt.Sprintf("%v eof_with_data=%v", counts, withEOF)
}

func suiteSchedules(R *runner, r *rng) {
	R.rule("schedules: documents of every format incl. teletext transport streams (repository samples, generated teletext streams read with PID/page auto-detection through a seekable scheduled reader, library-written cue lists, rendered SRT, CR and CRLF variants, one 2500-cue document per format) x delivery schedules: every single split point (exhaustive for documents up to 1500 bytes, sampled beyond), one-byte reads, halves, random chunk sequences, empty reads interleaved, last bytes together with EOF, splits aligned on 4096/65536; oracle: the parse result (deep snapshot or the fact of failing) equals the one-shot result; the line scanner's tokens are also compared with the Coq model [scan] on the same schedule; non-trivial = the schedule splits the document")
	docs := sampleDocs(r, 3, true)
	quick := R.tier != "thorough"
	for _, d := range docs {
		f := formatByName(d.format)
		base := readWith(f, bytes.NewReader(d.data))
		try := func(counts []int, withEOF bool, group string) {
			got := readWith(f, schedFor(d.format, &schedReader{data: d.data, counts: counts, withEOF: withEOF, failAt: -1}))
			o := &obs{Suite: "sched", Group: group + "." + d.format, NoModel: true, NT: len(counts) > 0,
				Input: fmt.Sprintf("%s/%s %s", d.format, d.name, describeSchedule(counts, withEOF)),
				Human: map[string]interface{}{"format": d.format, "doc": d.name, "len": len(d.data), "schedule": describeSchedule(counts, withEOF)}}
			if got != base {
				o.Oracle = fmt.Sprintf("%s reader: result under schedule %s differs from the one-shot result (one-shot %s, scheduled %s)", d.format, describeSchedule(counts, withEOF), trunc(base, 160), trunc(got, 160))
				o.Sig = "sched-" + d.format
				o.Human.(map[string]interface{})["doc_bytes"] = string(d.data[:minInt(len(d.data), 4000)])
			}
			R.add(o)
		}
		n := len(d.data)
		if d.name == "big" {
			for _, a := range []int{4096, 8192, 65536, 4095, 4097, 65535, 1024, 128} {
				var cs []int
				for k := 0; k*a < n+a; k++ {
					cs = append(cs, a)
				}
				try(cs, false, "sched.aligned")
			}
			for k := 0; k < 6; k++ {
				var cs []int
				for tot := 0; tot < n; {
					c := 1 + r.intn(9000)
					cs = append(cs, c)
					tot += c
				}
				try(cs, r.chance(1, 2), "sched.random")
			}
			continue
		}
		step := 1
		if n > 1500 {
			step = n/1500 + 1
		}
		if quick && n > 400 {
			step = n/400 + 1
		}
		for k := 1; k < n; k += step {
			try([]int{k}, false, "sched.split")
		}
		if step == 1 {
			R.count("sched.docs_with_every_split_point")
		}
		ones := make([]int, n)
		for i := range ones {
			ones[i] = 1
		}
		try(ones, false, "sched.onebyte")
		try(ones, true, "sched.onebyte")
		try([]int{n / 2}, true, "sched.halves")
		try([]int{n}, true, "sched.eof_with_data")
		try([]int{0, n / 3, 0, 0, n / 3}, false, "sched.empty_reads")
		for k := 0; k < 4; k++ {
			var cs []int
			for tot := 0; tot < n; {
				c := r.intn(40)
				if r.chance(1, 6) {
					c = 0
				}
				cs = append(cs, c)
				tot += c
			}
			try(cs, r.chance(1, 2), "sched.random")
		}
	}

	// the scanner alone against the model, on small texts with every kind of line end
	N := 600
	if !quick {
		N = 12000
	}
	alphabet := []string{"a", "b", "\r", "\n", "\r\n", "\r", "\n", "x y", ""}
	for c := 0; c < N; c++ {
		var sb strings.Builder
		for k := 0; k < r.intn(8); k++ {
			sb.WriteString(alphabet[r.intn(len(alphabet))])
		}
		data := []byte(sb.String())
		var counts []int
		for tot := 0; tot < len(data) && r.chance(4, 5); {
			k := r.intn(3)
			counts = append(counts, k)
			tot += k
		}
		in := &enc{}
		in.bytes(data).n(len(counts))
		for _, k := range counts {
			in.n(k)
		}
		toks, err := astisub.VerifScanTokens(&schedReader{data: data, counts: counts, failAt: -1, withEOF: r.chance(1, 2)})
		e := &enc{}
		e.n(len(toks))
		for _, t := range toks {
			e.str(t)
		}
		o := &obs{Suite: "scan", Group: "scan.model", Input: in.String(), Impl: e.String(), NT: len(counts) > 0, Human: map[string]interface{}{"data": string(data), "counts": counts}}
		one, _ := astisub.VerifScanTokens(bytes.NewReader(data))
		if err != nil {
			o.Oracle = "scanner error without a fault: " + err.Error()
		} else if fmt.Sprintf("%q", one) != fmt.Sprintf("%q", toks) {
			o.Oracle, o.Sig = fmt.Sprintf("line tokens depend on the schedule: one-shot %q, scheduled %q", one, toks), "scan-schedule"
		}
		R.add(o)
	}
	// exhaustive: every text over {a, CR, LF} up to length 5 x every two-chunk split
	syms := []byte{'a', '\r', '\n'}
	for l := 0; l <= 5; l++ {
		idx := make([]int, l)
		for {
			data := make([]byte, l)
			for i, v := range idx {
				data[i] = syms[v]
			}
			one, _ := astisub.VerifScanTokens(bytes.NewReader(data))
			for k := 0; k <= l; k++ {
				toks, _ := astisub.VerifScanTokens(&schedReader{data: data, counts: []int{k}, failAt: -1})
				in := &enc{}
				in.bytes(data).n(1).n(k)
				e := &enc{}
				e.n(len(toks))
				for _, t := range toks {
					e.str(t)
				}
				o := &obs{Suite: "scan", Group: "scan.exhaustive", Input: in.String(), Impl: e.String(), NT: k > 0 && k < l, Human: map[string]interface{}{"data": string(data), "split_at": k}}
				if fmt.Sprintf("%q", one) != fmt.Sprintf("%q", toks) {
					o.Oracle, o.Sig = fmt.Sprintf("line tokens depend on the schedule: %q split at %d gives %q, one-shot %q", data, k, toks, one), "scan-schedule"
				}
				R.add(o)
			}
			j := l - 1
			for j >= 0 {
				idx[j]++
				if idx[j] < len(syms) {
					break
				}
				idx[j] = 0
				j--
			}
			if j < 0 {
				break
			}
		}
	}
	R.exhaustive("scan.exhaustive")

	// fixed-size block reads against the model
	for c := 0; c < N; c++ {
		n := 1 + r.intn(6)
		data := make([]byte, r.intn(3*n+2))
		for i := range data {
			data[i] = byte('a' + i%26)
		}
		var counts []int
		for tot := 0; tot < len(data) && r.chance(4, 5); {
			k := r.intn(4)
			counts = append(counts, k)
			tot += k
		}
		in := &enc{}
		in.n(n).bytes(data).n(len(counts))
		for _, k := range counts {
			in.n(k)
		}
		rd := &schedReader{data: data, counts: counts, failAt: -1, withEOF: r.chance(1, 2)}
		b, err := astisub.VerifReadNBytes(rd, n)
		o := &obs{Suite: "readn", Group: "readn.model", Input: in.String(), NT: len(counts) > 0, Human: map[string]interface{}{"n": n, "data": string(data), "counts": counts, "eof_with_data": rd.withEOF}}
		switch {
		case err == io.EOF:
			o.Impl = "1"
		case err != nil:
			o.Impl = "2"
		default:
			o.Impl = (&enc{}).n(0).bytes(b).String()
		}
		// oracle: a block that is completely present is returned whole
		if len(data) >= n && (err != nil || !bytes.Equal(b, data[:n])) {
			o.Oracle, o.Sig = fmt.Sprintf("a %d-byte block that is present in full is not returned under schedule %v (eof with data: %v): err=%v", n, counts, rd.withEOF, err), "readn-short"
		}
		R.add(o)
	}
}

func minInt(a, b int) int {
	if a < b {
		return a
	}
	return b
}

// ---- faults ------------------------------------------------------------------------------------

type failWriter struct {
	limit   int
	written int
	calls   int
}

func (w *failWriter) Write(p []byte) (int, error) {
	w.calls++
	if w.written+len(p) > w.limit {
		n := w.limit - w.written
		if n < 0 {
			n = 0
		}
		w.written += n
		return n, errFault
	}
	w.written += len(p)
	return len(p), nil
}

func suiteFaults(R *runner, r *rng) {
	R.rule("faults: for documents of every format incl. teletext transport streams, a read error (not EOF) injected at byte offset k, for every k up to 600 offsets per document (all offsets in the thorough tier), delivered alone or together with the last bytes; for TTML up to the end of the root element; lines of 2^16..2^20 bytes; for cue lists written to every format, a destination failing after k bytes for every k below the document length (sampled beyond 600); file helpers on missing / uncreatable paths, a destination that refuses every byte (/dev/full) and a source whose reads fail (a directory); oracle: a non-nil error is returned; without a fault the complete document reaches the destination; non-trivial = the fault hits before the end of the document")
	docs := sampleDocs(r, 2, false)
	quick := R.tier != "thorough"
	for _, d := range docs {
		f := formatByName(d.format)
		if readWith(f, bytes.NewReader(d.data)) == "ERR" {
			continue
		}
		n := len(d.data)
		limit := n
		if d.format == "ttml" {
			if i := bytes.LastIndex(d.data, []byte("</tt>")); i >= 0 {
				limit = i + len("</tt>") - 1
			}
		}
		step := 1
		if quick && limit > 600 {
			step = limit/600 + 1
		}
		for k := 0; k <= limit; k += step {
			for _, withData := range []bool{false, true} {
				if withData && k%3 != 0 {
					continue
				}
				var s *astisub.Subtitles
				var err error
				p := safely(func() {
					s, err = f.read(schedFor(d.format, &schedReader{data: d.data, failAt: k, failWithData: withData, counts: []int{r.intn(n + 1)}}))
				})
				o := &obs{Suite: "fault", Group: "fault.read." + d.format, NoModel: true, NT: k < n,
					Input: fmt.Sprintf("%s/%s fault at %d with_data=%v", d.format, d.name, k, withData),
					Human: map[string]interface{}{"format": d.format, "doc": d.name, "len": n, "fault_offset": k, "fault_with_last_bytes": withData}}
				if p != "" {
					o.Oracle, o.Sig = "reader panicked under a read fault: "+p, "fault-read-panic-"+d.format
				} else if err == nil {
					cues := 0
					if s != nil {
						cues = len(s.Items)
					}
					o.Oracle = fmt.Sprintf("%s reader: stream failed at offset %d of %d but no error was returned (%d cues)", d.format, k, n, cues)
					o.Sig = "fault-read-" + d.format
					o.Human.(map[string]interface{})["doc_bytes"] = string(d.data[:minInt(n, 3000)])
				}
				R.add(o)
			}
		}
	}
	// over-long lines
	for _, ln := range []int{1 << 16, 1<<16 + 1, 1 << 17, 1 << 20} {
		long := strings.Repeat("x", ln)
		for _, c := range []struct{ format, doc string }{
			{"srt", "1\n00:00:01,000 --> 00:00:02,000\n" + long + "\n\n2\n00:00:03,000 --> 00:00:04,000\nafter\n"},
			{"webvtt", "WEBVTT\n\n1\n00:00:01.000 --> 00:00:02.000\n" + long + "\n\n2\n00:00:03.000 --> 00:00:04.000\nafter\n"},
			{"ssa", "[Script Info]\nTitle: x\n\n[V4 Styles]\nFormat: Name, Fontname\nStyle: Default,Arial\n\n[Events]\nFormat: Marked, Start, End, Style, Name, MarginL, MarginR, MarginV, Effect, Text\nDialogue: Marked=0,0:00:01.00,0:00:02.00,Default,,0,0,0,," + long + "\nDialogue: Marked=0,0:00:03.00,0:00:04.00,Default,,0,0,0,,after\n"},
		} {
			f := formatByName(c.format)
			var err error
			var s *astisub.Subtitles
			p := safely(func() { s, err = f.read(strings.NewReader(c.doc)) })
			o := &obs{Suite: "fault", Group: "fault.longline." + c.format, NoModel: true, NT: true, Input: fmt.Sprintf("%s long line %d", c.format, ln),
				Human: map[string]interface{}{"format": c.format, "line_length": ln}}
			if p != "" {
				o.Oracle, o.Sig = "reader panicked on a long line: "+p, "fault-longline-panic"
			} else if err == nil {
				// acceptable only if the long line was read completely
				full := false
				if s != nil {
					for _, it := range s.Items {
						if strings.Contains(it.String(), long) {
							full = true
						}
					}
				}
				if !full {
					o.Oracle, o.Sig = fmt.Sprintf("%s reader: a line of %d bytes cannot be buffered, yet no error is returned and the text is lost", c.format, ln), "fault-longline-"+c.format
				}
			}
			R.add(o)
		}
	}
	// writers
	N := 12
	if !quick {
		N = 60
	}
	for c := 0; c < N; c++ {
		cues := plainCues(r, 1+r.intn(4))
		if c%2 == 1 {
			cues = randSrtCues(r, 3, true)
			if len(cues) == 0 {
				cues = plainCues(r, 1)
			}
		}
		for _, f := range formats {
			mk := func() *astisub.Subtitles {
				s := subsFromCues(cues)
				if f.name == "stl" {
					stlReady(s)
					if c%2 == 1 {
						return nil
					}
				}
				return s
			}
			if mk() == nil {
				continue
			}
			var full bytes.Buffer
			var err0 error
			if p := safely(func() { err0 = f.write(mk(), &full) }); p != "" || err0 != nil {
				continue
			}
			n := full.Len()
			step := 1
			if quick && n > 300 {
				step = n/300 + 1
			}
			for k := 0; k < n; k += step {
				w := &failWriter{limit: k}
				var err error
				p := safely(func() { err = f.write(mk(), w) })
				o := &obs{Suite: "fault", Group: "fault.write." + f.name, NoModel: true, NT: true, Input: fmt.Sprintf("%s write %d fail after %d of %d", f.name, c, k, n),
					Human: map[string]interface{}{"format": f.name, "document_length": n, "destination_fails_after": k, "write_calls": w.calls}}
				if p != "" {
					o.Oracle, o.Sig = "writer panicked under a write fault: "+p, "fault-write-panic-"+f.name
				} else if err == nil {
					o.Oracle, o.Sig = fmt.Sprintf("%s writer: destination failed after %d of %d bytes but no error was returned", f.name, k, n), "fault-write-"+f.name
				}
				R.add(o)
			}
			// no fault: everything handed over
			w := &failWriter{limit: n + 10}
			var err error
			safely(func() { err = f.write(mk(), w) })
			o := &obs{Suite: "fault", Group: "fault.write.complete", NoModel: true, NT: true, Input: fmt.Sprintf("%s write %d complete", f.name, c), Human: map[string]interface{}{"format": f.name, "document_length": n}}
			if err != nil || w.written != n {
				o.Oracle, o.Sig = fmt.Sprintf("%s writer: success reported but %d of %d bytes reached the destination (err=%v)", f.name, w.written, n, err), "fault-write-incomplete"
			}
			R.add(o)
		}
	}
	// file helpers
	dir, _ := os.MkdirTemp("", "verif-files")
	defer os.RemoveAll(dir)
	for _, f := range formats {
		_, err := astisub.OpenFile(filepath.Join(dir, "missing"+f.ext))
		o := &obs{Suite: "fault", Group: "fault.files", NoModel: true, NT: true, Input: "open missing " + f.ext, Human: map[string]interface{}{"op": "OpenFile", "path": "missing" + f.ext}}
		if err == nil {
			o.Oracle, o.Sig = "OpenFile on a missing file returns no error", "fault-open-missing"
		}
		R.add(o)
		s := subsFromCues(plainCues(r, 1))
		if f.name == "stl" {
			stlReady(s)
		}
		err = s.Write(filepath.Join(dir, "no-such-dir", "out"+f.ext))
		o2 := &obs{Suite: "fault", Group: "fault.files", NoModel: true, NT: true, Input: "write uncreatable " + f.ext, Human: map[string]interface{}{"op": "Write", "path": "no-such-dir/out" + f.ext}}
		if err == nil {
			o2.Oracle, o2.Sig = "Write to an uncreatable path returns no error", "fault-write-uncreatable"
		}
		R.add(o2)
		// a destination that can be created and closed but refuses every byte (device full)
		if _, e := os.Stat("/dev/full"); e == nil {
			full := filepath.Join(dir, "full"+f.ext)
			os.Remove(full)
			if e := os.Symlink("/dev/full", full); e == nil {
				var werr error
				safely(func() { werr = s.Write(full) })
				o3 := &obs{Suite: "fault", Group: "fault.files", NoModel: true, NT: true, Input: "write device-full " + f.ext, Human: map[string]interface{}{"op": "Write", "path": "full" + f.ext + " -> /dev/full"}}
				if werr == nil {
					o3.Oracle, o3.Sig = "Write to a destination that accepts no byte (ENOSPC) returns no error", "fault-write-devfull"
				}
				R.add(o3)
			}
		} else {
			R.note("/dev/full is not available: the file-level write fault is not exercised")
		}
		// a source that opens but cannot be read (a directory)
		dsrc := filepath.Join(dir, "dir"+f.ext)
		os.Mkdir(dsrc, 0o755)
		var rerr error
		safely(func() { _, rerr = astisub.OpenFile(dsrc) })
		o4 := &obs{Suite: "fault", Group: "fault.files", NoModel: true, NT: true, Input: "open directory " + f.ext, Human: map[string]interface{}{"op": "OpenFile", "path": "dir" + f.ext + "/"}}
		if rerr == nil {
			o4.Oracle, o4.Sig = "OpenFile on a path whose reads fail (a directory) returns no error", "fault-open-unreadable"
		}
		R.add(o4)
	}
	_ = time.Second
}
