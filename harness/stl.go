package main

// C05 EBU STL (Tech 3264): ground-truth model of a file, renderer with the format's freedoms, an
// independent GSI/TTI decoder with its own ISO 6937 table, and the projections shared with the Coq model
// (ocaml/drv_stl.ml).

import (
	"bytes"
	"encoding/hex"
	"fmt"
	"strings"
	"time"
	"unicode"

	astisub "github.com/asticode/go-astisub"
	"golang.org/x/text/unicode/norm"
)

// ---- the harness's own ISO 6937 / EBU Tech 3264 Latin table (appendix 2), typed from the standard ----

var iso6937 = map[byte]rune{
	0x24: 0xA4, // currency sign
	0xa0: 0xA0, 0xa1: 0xA1, 0xa2: 0xA2, 0xa3: 0xA3, 0xa4: '$', 0xa5: 0xA5, 0xa7: 0xA7, 0xa8: 0xA4,
	0xa9: 0x2018, 0xaa: 0x201C, 0xab: 0xAB, 0xac: 0x2190, 0xad: 0x2191, 0xae: 0x2192, 0xaf: 0x2193,
	0xb0: 0xB0, 0xb1: 0xB1, 0xb2: 0xB2, 0xb3: 0xB3, 0xb4: 0xD7, 0xb5: 0xB5, 0xb6: 0xB6, 0xb7: 0xB7,
	0xb8: 0xF7, 0xb9: 0x2019, 0xba: 0x201D, 0xbb: 0xBB, 0xbc: 0xBC, 0xbd: 0xBD, 0xbe: 0xBE, 0xbf: 0xBF,
	0xd0: 0x2015, 0xd1: 0xB9, 0xd2: 0xAE, 0xd3: 0xA9, 0xd4: 0x2122, 0xd5: 0x266A, 0xd6: 0xAC, 0xd7: 0xA6,
	0xdc: 0x215B, 0xdd: 0x215C, 0xde: 0x215D, 0xdf: 0x215E,
	0xe0: 0x2126, 0xe1: 0xC6, 0xe2: 0x110, 0xe3: 0xAA, 0xe4: 0x126, 0xe6: 0x132, 0xe7: 0x13F, 0xe8: 0x141,
	0xe9: 0xD8, 0xea: 0x152, 0xeb: 0xBA, 0xec: 0xDE, 0xed: 0x166, 0xee: 0x14A, 0xef: 0x149,
	0xf0: 0x138, 0xf1: 0xE6, 0xf2: 0x111, 0xf3: 0xF0, 0xf4: 0x127, 0xf5: 0x131, 0xf6: 0x133, 0xf7: 0x140,
	0xf8: 0x142, 0xf9: 0xF8, 0xfa: 0x153, 0xfb: 0xDF, 0xfc: 0xFE, 0xfd: 0x167, 0xfe: 0x14B, 0xff: 0xAD,
}

// floating (non-spacing) diacritics: byte -> combining mark
var iso6937Floating = map[byte]rune{
	0xc1: 0x300, 0xc2: 0x301, 0xc3: 0x302, 0xc4: 0x303, 0xc5: 0x304, 0xc6: 0x306, 0xc7: 0x307, 0xc8: 0x308,
	0xca: 0x30A, 0xcb: 0x327, 0xcd: 0x30B, 0xce: 0x328, 0xcf: 0x30C,
}

func init() {
	for b := 0x20; b <= 0x7e; b++ {
		if b != 0x24 {
			iso6937[byte(b)] = rune(b)
		}
	}
}

// spacing characters of the table, as (byte, rune), in byte order; and the inverse used by the renderer
var stlSpacingBytes []byte
var iso6937Inv = map[rune]byte{}
var iso6937FloatInv = map[rune]byte{}

func init() {
	for b := 0; b < 256; b++ {
		if r, ok := iso6937[byte(b)]; ok {
			stlSpacingBytes = append(stlSpacingBytes, byte(b))
			if _, dup := iso6937Inv[r]; !dup {
				iso6937Inv[r] = byte(b)
			}
		}
	}
	iso6937Inv[0xA4] = 0xa8 // the renderer picks among the two positions of the currency sign itself
	for b, r := range iso6937Floating {
		iso6937FloatInv[r] = b
	}
}

func isASCIILetter(r rune) bool { return r >= 'A' && r <= 'Z' || r >= 'a' && r <= 'z' }

// ---- ground truth ---------------------------------------------------------------------------------

type stlTC struct{ H, M, S, F int }

type stlRun struct {
	Text       string // NFC, no white space at its ends, not blank
	It, Un, Bx bool
}
type stlCue struct {
	In, Out  stlTC
	VP       int
	JC       byte // 0 unchanged, 1 left, 2 centred, 3 right
	Rows     [][]stlRun
	UserData bool // an EBN 0xFE block: denotes no cue
	CS, CF   byte
	SGN      byte
	EBN      byte        // extension block number of a subtitle block (0 = 0xFF)
	Elems    [][]stlElem // when set: the rows as element sequences (Rows = what they denote)
	Raw      []byte      // when set: the text field as given (padded with 0x8F)
}
type stlFile struct {
	FPS                                        int
	DSC                                        byte
	CPN, LC, Lang                              string
	OPT, OET, TPT, TET, TN, TCD, SLR           string
	CD, RD                                     string // yymmdd or "" (blank field)
	RN, TNB, TNS, TNG, MNC, MNR                int
	TCS                                        byte
	TCP, TCF                                   stlTC
	TND, DSN                                   int
	CO, PUB, EN, ECD                           string
	UDA                                        string
	Blocks                                     []stlCue
	Forms                                      *stlGSIForms // nil: the plain rendering
}

// exact instant of a timecode in units of 1/fps ns (i.e. ns * fps), so that no rounding is involved
func (t stlTC) scaled(fps int) int64 {
	return int64(t.H*3600+t.M*60+t.S)*1e9*int64(fps) + int64(t.F)*1e9
}
func (t stlTC) String() string { return fmt.Sprintf("%02d:%02d:%02d:%02d", t.H, t.M, t.S, t.F) }

// ---- renderer ---------------------------------------------------------------------------------------

// bytes of a text of the repertoire: table characters directly, precomposed letters as floating diacritic + base
func stlEncodeOwn(s string) ([]byte, bool) {
	var o []byte
	for _, r := range s {
		if b, ok := iso6937Inv[r]; ok {
			o = append(o, b)
			continue
		}
		d := []rune(norm.NFD.String(string(r)))
		if len(d) == 2 {
			if m, ok := iso6937FloatInv[d[1]]; ok {
				if b, ok := iso6937Inv[d[0]]; ok {
					o = append(o, m, b)
					continue
				}
			}
		}
		if b, ok := iso6937FloatInv[r]; ok && len(o) > 0 {
			// a combining mark after its base (no precomposed form): move it in front
			o = append(o[:len(o)-1], b, o[len(o)-1])
			continue
		}
		return nil, false
	}
	return o, true
}

type stlRendering struct {
	closeCodes, spacesAround, boxDouble, colour, doubleHeight bool
}

func renderSTLRow(r *rng, runs []stlRun, teletext bool, rd stlRendering) []byte {
	var o []byte
	// the start box may be omitted altogether (WriteToSTL never writes one; the reader takes a row without any start box
	// as boxed from its first column: C05_write_is_rendering)
	noBox := teletext && !rd.colour && !rd.doubleHeight && !rd.boxDouble && r.chance(1, 2)
	if noBox {
		stlCount("stl.free.start_box_omitted")
	}
	if teletext && !noBox {
		if rd.colour {
			o = append(o, byte(1+r.intn(7)))
		}
		if rd.doubleHeight {
			o = append(o, 0x0d)
		}
		o = append(o, 0x0b)
		if rd.boxDouble {
			o = append(o, 0x0b)
		}
	}
	var it, un, bx bool
	for i, ru := range runs {
		// codes that change the state, in random order
		var codes []byte
		if ru.It != it {
			codes = append(codes, map[bool]byte{true: 0x80, false: 0x81}[ru.It])
		}
		if ru.Un != un {
			codes = append(codes, map[bool]byte{true: 0x82, false: 0x83}[ru.Un])
		}
		if ru.Bx != bx {
			codes = append(codes, map[bool]byte{true: 0x84, false: 0x85}[ru.Bx])
		}
		for k := len(codes) - 1; k > 0; k-- {
			j := r.intn(k + 1)
			codes[k], codes[j] = codes[j], codes[k]
		}
		if i > 0 && rd.spacesAround && r.chance(1, 2) {
			o = append(o, ' ')
		}
		o = append(o, codes...)
		if i > 0 && rd.spacesAround && r.chance(1, 2) {
			o = append(o, ' ')
		}
		it, un, bx = ru.It, ru.Un, ru.Bx
		b, ok := stlEncodeOwn(ru.Text)
		if !ok {
			panic("harness: text outside the repertoire: " + ru.Text)
		}
		o = append(o, b...)
	}
	if rd.closeCodes {
		if it {
			o = append(o, 0x81)
		}
		if un {
			o = append(o, 0x83)
		}
		if bx {
			o = append(o, 0x85)
		}
	}
	if teletext && !(noBox && r.chance(1, 2)) {
		o = append(o, 0x0a)
		if rd.boxDouble {
			o = append(o, 0x0a)
		}
	}
	return o
}

func renderSTLText(r *rng, c stlCue, teletext bool) []byte {
	var tf []byte
	if c.Raw != nil {
		return append(tf, c.Raw...)
	}
	if c.Elems != nil {
		for i, row := range c.Elems {
			if i > 0 {
				tf = append(tf, 0x8a)
			}
			if teletext {
				if r.chance(1, 3) {
					tf = append(tf, byte(1+r.intn(7)))
					tf = append(tf, 0x0b)
				} else if r.chance(1, 3) && !bytes.Contains(stlElemBytes(row), []byte{0x0b}) {
					stlCount("stl.free.start_box_omitted")
				} else {
					tf = append(tf, 0x0b)
				}
			}
			tf = append(tf, stlElemBytes(row)...)
			if teletext && r.chance(1, 2) {
				tf = append(tf, 0x0a)
			}
		}
		return tf
	}
	rd := stlRendering{r.chance(1, 2), r.chance(1, 2), r.chance(2, 3), r.chance(1, 3), r.chance(1, 4)}
	for i, row := range c.Rows {
		if i > 0 {
			tf = append(tf, 0x8a)
		}
		tf = append(tf, renderSTLRow(r, row, teletext, rd)...)
	}
	return tf
}

func padField(s string, n int) []byte {
	b := []byte(s)
	for len(b) < n {
		b = append(b, ' ')
	}
	return b[:n]
}

func tcString(t stlTC) string { return fmt.Sprintf("%02d%02d%02d%02d", t.H, t.M, t.S, t.F) }

// GSI layout of EBU Tech 3264 section "General Subtitle Information block" (byte offsets)
func renderGSI(r *rng, f *stlFile) []byte {
	g := make([]byte, 1024)
	for i := range g {
		g[i] = ' '
	}
	put := func(off, n int, s string) {
		if f.Forms != nil && off >= 16 {
			s = f.Forms.text(n, s)
		}
		copy(g[off:off+n], padField(s, n))
	}
	ni := 0
	num := func(off, n, v int) {
		if f.Forms != nil {
			copy(g[off:off+n], padField(f.Forms.num(ni%8, n, v), n))
			ni++
			return
		}
		copy(g[off:off+n], padField(fmt.Sprintf("%0*d", n, v), n))
	}
	put(0, 3, f.CPN)
	put(3, 8, fmt.Sprintf("STL%02d.01", f.FPS))
	g[11] = f.DSC
	put(12, 2, "00")
	put(14, 2, f.LC)
	put(16, 32, f.OPT)
	put(48, 32, f.OET)
	put(80, 32, f.TPT)
	put(112, 32, f.TET)
	put(144, 32, f.TN)
	put(176, 32, f.TCD)
	put(208, 16, f.SLR)
	copy(g[224:230], padField(f.CD, 6))
	copy(g[230:236], padField(f.RD, 6))
	num(236, 2, f.RN)
	num(238, 5, f.TNB)
	num(243, 5, f.TNS)
	num(248, 3, f.TNG)
	num(251, 2, f.MNC)
	num(253, 2, f.MNR)
	g[255] = f.TCS
	copy(g[256:264], tcString(f.TCP))
	copy(g[264:272], tcString(f.TCF))
	if f.Forms != nil && f.Forms.TCPBl && f.TCP == (stlTC{}) {
		copy(g[256:264], "        ")
		stlCount("stl.free.gsi_blank_timecode")
	}
	if f.Forms != nil && f.Forms.Spare {
		for i := 373; i < 448; i++ {
			g[i] = byte(r.intn(256))
		}
		stlCount("stl.free.gsi_spare_bytes")
	}
	num(272, 1, f.TND)
	num(273, 1, f.DSN)
	put(274, 3, f.CO)
	put(277, 32, f.PUB)
	put(309, 32, f.EN)
	put(341, 32, f.ECD)
	put(448, 576, f.UDA)
	return g
}

func renderSTL(r *rng, f *stlFile) []byte {
	out := renderGSI(r, f)
	sn := 0
	for _, c := range f.Blocks {
		t := make([]byte, 128)
		t[0] = c.SGN
		t[1], t[2] = byte(sn), byte(sn>>8)
		t[4] = c.CS
		t[5], t[6], t[7], t[8] = byte(c.In.H), byte(c.In.M), byte(c.In.S), byte(c.In.F)
		t[9], t[10], t[11], t[12] = byte(c.Out.H), byte(c.Out.M), byte(c.Out.S), byte(c.Out.F)
		t[13] = byte(c.VP)
		t[14] = c.JC
		t[15] = c.CF
		var tf []byte
		if c.UserData {
			t[3] = 0xfe
			for k := 0; k < 112; k++ {
				tf = append(tf, byte(r.intn(256)))
			}
		} else {
			t[3] = 0xff
			if c.EBN != 0 {
				t[3] = c.EBN
			}
			tf = renderSTLText(r, c, f.DSC != '0')
			sn++
		}
		if len(tf) > 112 {
			panic("harness: text field too long")
		}
		for len(tf) < 112 {
			tf = append(tf, 0x8f)
		}
		copy(t[16:], tf)
		out = append(out, t...)
	}
	return out
}

// ---- generator ----------------------------------------------------------------------------------------

var stlBaseLetters = []rune("ABCDEFGHIJKLMNOPQRSTUVWXYZabcdefghijklmnopqrstuvwxyz")
var stlFloatBytes = []byte{0xc1, 0xc2, 0xc3, 0xc4, 0xc5, 0xc6, 0xc7, 0xc8, 0xca, 0xcb, 0xcd, 0xce, 0xcf}

// one character of the repertoire (as NFC text): a spacing table character or a letter carrying a floating diacritic
func randSTLChar(r *rng, dollar bool) string {
	switch r.intn(10) {
	case 0, 1, 2, 3, 4:
		return string(rune(0x21 + r.intn(0x7e-0x21+1))) // ASCII, may be '$' (0x24 is then rendered through 0xa4)
	case 5:
		return " "
	case 6, 7:
		b := stlSpacingBytes[r.intn(len(stlSpacingBytes))]
		return string(iso6937[b])
	default:
		l := stlBaseLetters[r.intn(len(stlBaseLetters))]
		d := iso6937Floating[stlFloatBytes[r.intn(len(stlFloatBytes))]]
		return norm.NFC.String(string([]rune{l, d}))
	}
}

func trimSTL(s string) string { return strings.TrimFunc(s, unicode.IsSpace) }

func randSTLText(r *rng, maxChars int, dollar bool) string {
	for {
		n := 1 + r.intn(maxChars)
		var b strings.Builder
		for i := 0; i < n; i++ {
			c := randSTLChar(r, dollar)
			if c == "$" && !dollar {
				c = "S"
			}
			b.WriteString(c)
		}
		t := trimSTL(b.String())
		if t != "" {
			return t
		}
	}
}

// rows that fit a 112-byte text field under any rendering
func randSTLRows(r *rng, styled, dollar bool) [][]stlRun {
	nrows := 1 + r.intn(3)
	budget := 112 - 8*nrows
	var rows [][]stlRun
	for i := 0; i < nrows; i++ {
		nruns := 1
		if styled {
			nruns = 1 + r.intn(3)
		}
		per := budget / nrows / nruns / 2
		if per < 2 {
			per = 2
		}
		if per > 14 {
			per = 14
		}
		var runs []stlRun
		for k := 0; k < nruns; k++ {
			ru := stlRun{Text: randSTLText(r, per-1, dollar)}
			if styled {
				ru.It, ru.Un, ru.Bx = r.chance(1, 3), r.chance(1, 3), r.chance(1, 3)
			}
			if k > 0 && runs[k-1].It == ru.It && runs[k-1].Un == ru.Un && runs[k-1].Bx == ru.Bx {
				ru.It = !ru.It
			}
			runs = append(runs, ru)
		}
		rows = append(rows, runs)
	}
	return rows
}

func stlRowsFit(rows [][]stlRun) bool {
	n := 0
	for _, row := range rows {
		n += 1 + 4 + 3 // separator, box codes, closing codes
		for _, ru := range row {
			b, ok := stlEncodeOwn(ru.Text)
			if !ok {
				return false
			}
			n += len(b) + 3 + 2
		}
	}
	return n <= 112
}

func randTC(r *rng, fps int) stlTC {
	switch r.intn(6) {
	case 0:
		return stlTC{r.intn(24), r.intn(60), r.intn(60), fps - 1}
	case 1:
		return stlTC{r.intn(3), 59, 59, r.intn(fps)}
	default:
		return stlTC{r.intn(24), r.intn(60), r.intn(60), r.intn(fps)}
	}
}

func tcLess(a, b stlTC) bool {
	return a.H*1000000+a.M*10000+a.S*100+a.F < b.H*1000000+b.M*10000+b.S*100+b.F
}

func randLatin1(r *rng, n int) string {
	// GSI text fields are not transcoded by the library: any bytes; here printable code page 850 / ASCII
	k := r.intn(n + 1)
	b := make([]byte, k)
	for i := range b {
		switch r.intn(8) {
		case 0:
			b[i] = byte(0x80 + r.intn(0x80))
		case 1:
			b[i] = ' '
		default:
			b[i] = byte(0x21 + r.intn(0x5e))
		}
	}
	return strings.TrimSpace(string(b))
}

var stlLanguages = map[string]string{"09": "english", "0F": "french", "1E": "norwegian", "69": "japanese", "75": "chinese"}

func randDate(r *rng) string {
	if r.chance(1, 5) {
		return ""
	}
	y, m := r.intn(100), 1+r.intn(12)
	dim := []int{31, 28, 31, 30, 31, 30, 31, 31, 30, 31, 30, 31}[m-1]
	if m == 2 && y%4 == 0 {
		dim = 29
	}
	d := 1 + r.intn(dim)
	if r.chance(1, 6) {
		d = dim
	}
	return fmt.Sprintf("%02d%02d%02d", y, m, d)
}

func randSTLFile(r *rng, maxCues int, styled, dollar bool) *stlFile {
	f := &stlFile{FPS: []int{25, 30}[r.intn(2)], DSC: []byte{'0', '1', '2'}[r.intn(3)]}
	f.CPN = r.pick("850", "437", "863", "865", "860")
	f.LC = r.pick("09", "0F", "1E", "69", "75", "0A", "21", "7F", "  ")
	f.Lang = stlLanguages[f.LC]
	f.OPT, f.OET, f.TPT, f.TET = randLatin1(r, 32), randLatin1(r, 32), randLatin1(r, 32), randLatin1(r, 32)
	f.TN, f.TCD, f.SLR = randLatin1(r, 32), randLatin1(r, 32), randLatin1(r, 16)
	f.CD, f.RD = randDate(r), randDate(r)
	f.RN, f.TNG, f.MNC, f.MNR = r.intn(100), r.intn(1000), r.intn(100), r.intn(100)
	if r.chance(1, 2) {
		f.MNR = 23
	}
	f.TCS = r.pick("0", "1")[0]
	if r.chance(1, 2) {
		f.TCP = stlTC{r.intn(11), r.intn(60), r.intn(60), r.intn(f.FPS)}
	}
	f.TND, f.DSN = 1+r.intn(9), 1+r.intn(9)
	f.CO = r.pick("FRA", "GBR", "NOR", "JPN", "CHN", "DEU", "   ")
	f.CO = strings.TrimSpace(f.CO)
	f.PUB, f.EN, f.ECD = randLatin1(r, 32), randLatin1(r, 32), randLatin1(r, 32)
	f.UDA = randLatin1(r, 40)
	n := r.intn(maxCues + 1)
	last := f.TCP
	for i := 0; i < n; i++ {
		if r.chance(1, 5) {
			f.Blocks = append(f.Blocks, stlCue{UserData: true, In: randTC(r, f.FPS), Out: randTC(r, f.FPS), SGN: byte(r.intn(4)), CS: byte(r.intn(4))})
		}
		var c stlCue
		a, b := randTC(r, f.FPS), randTC(r, f.FPS)
		a.H, b.H = 11+a.H%13, 11+b.H%13 // not before the programme start
		if tcLess(b, a) {
			a, b = b, a
		}
		_ = last
		c.In, c.Out = a, b
		if f.DSC == '0' {
			c.VP = r.intn(100)
		} else {
			c.VP = 1 + r.intn(23)
		}
		c.JC = byte(r.intn(4))
		c.CS = byte(r.intn(4))
		c.SGN = byte(r.intn(3))
		for {
			c.Rows = randSTLRows(r, styled, dollar)
			if stlRowsFit(c.Rows) {
				break
			}
		}
		if styled && r.chance(1, 3) {
			// rows as arbitrary element sequences; Rows = what they denote
			c.Elems = randSTLElemRows(r)
			c.Rows = nil
			for _, row := range c.Elems {
				if runs := stlDenoteElems(row); len(runs) > 0 {
					c.Rows = append(c.Rows, runs)
				}
			}
			stlCount("stl.free.element_rows")
		}
		if r.chance(1, 4) {
			c.CF = byte(r.intn(2))
			c.EBN = byte(r.intn(0xf0))
			if c.EBN != 0 {
				stlCount("stl.free.extension_block_number")
			}
		}
		if r.chance(1, 8) {
			c.JC = byte(4 + r.intn(252))
			stlCount("stl.free.justification_byte_above_3")
		}
		f.Blocks = append(f.Blocks, c)
	}
	if r.chance(1, 6) {
		f.Blocks = append(f.Blocks, stlCue{UserData: true})
	}
	if styled && r.chance(1, 2) {
		f.Forms = randSTLGSIForms(r)
	}
	f.TNB = len(f.Blocks)
	for _, c := range f.Blocks {
		if !c.UserData {
			f.TNS++
		}
	}
	if f.TNS > 0 {
		for _, c := range f.Blocks {
			if !c.UserData {
				f.TCF = c.In
				break
			}
		}
	}
	return f
}

// ---- the library's view ------------------------------------------------------------------------------------

func dateStr(t *time.Time) string {
	if t == nil || t.IsZero() {
		return ""
	}
	return fmt.Sprintf("%02d%02d%02d", t.Year()%100, int(t.Month()), t.Day())
}

var teletextColours = []*astisub.Color{astisub.ColorBlack, astisub.ColorRed, astisub.ColorGreen, astisub.ColorYellow, astisub.ColorBlue, astisub.ColorMagenta, astisub.ColorCyan, astisub.ColorWhite}

func encOptBool(e *enc, p *bool) {
	if p == nil {
		e.n(0)
	} else {
		e.n(1).bool(*p)
	}
}
func encOptIntStl(e *enc, p *int) {
	if p == nil {
		e.n(0)
	} else {
		e.n(*p + 1)
	}
}

func encSTLRun(e *enc, li astisub.LineItem) {
	e.str(li.Text)
	sa := li.InlineStyle
	if sa == nil {
		sa = &astisub.StyleAttributes{}
	}
	encOptBool(e, sa.STLItalics)
	encOptBool(e, sa.STLUnderline)
	encOptBool(e, sa.STLBoxing)
	col := -1
	for i, c := range teletextColours {
		if sa.TeletextColor == c {
			col = i
		}
	}
	e.opt(col)
	encOptBool(e, sa.TeletextDoubleHeight)
	encOptBool(e, sa.TeletextDoubleSize)
	encOptBool(e, sa.TeletextDoubleWidth)
	encOptIntStl(e, sa.TeletextSpacesBefore)
	encOptIntStl(e, sa.TeletextSpacesAfter)
}

func encSTLLines(e *enc, ls []astisub.Line) {
	e.n(len(ls))
	for _, l := range ls {
		e.n(len(l.Items))
		for _, li := range l.Items {
			encSTLRun(e, li)
		}
	}
}

// projection of ReadFromSTL's result, in the order of drv_stl.ml's prdoc
func encSTLDoc(e *enc, s *astisub.Subtitles) {
	m := s.Metadata
	if m == nil {
		m = &astisub.Metadata{}
	}
	pi := func(p *int) int64 {
		if p == nil {
			return 0
		}
		return int64(*p)
	}
	e.n(m.Framerate).str(m.STLCountryOfOrigin).str(dateStr(m.STLCreationDate)).str(m.STLDisplayStandardCode)
	e.str(m.STLEditorContactDetails).str(m.STLEditorName)
	e.i(pi(m.STLMaximumNumberOfDisplayableCharactersInAnyTextRow)).i(pi(m.STLMaximumNumberOfDisplayableRows))
	e.str(m.STLOriginalEpisodeTitle).str(m.STLPublisher).str(dateStr(m.STLRevisionDate)).n(m.STLRevisionNumber)
	e.str(m.STLSubtitleListReferenceCode).str(m.STLTranslatedEpisodeTitle).str(m.STLTranslatedProgramTitle)
	e.str(m.STLTranslatorContactDetails).str(m.STLTranslatorName).str(m.Title).i(int64(m.STLTimecodeStartOfProgramme)).str(m.Language)
	e.n(len(s.Items))
	for _, it := range s.Items {
		e.i(int64(it.StartAt)).i(int64(it.EndAt))
		sa := it.InlineStyle
		if sa == nil {
			sa = &astisub.StyleAttributes{}
		}
		j := 0
		if sa.STLJustification != nil {
			j = int(*sa.STLJustification)
		}
		p := astisub.STLPosition{}
		if sa.STLPosition != nil {
			p = *sa.STLPosition
		}
		e.n(j).n(p.VerticalPosition).n(p.MaxRows).n(p.Rows).str(sa.WebVTTAlign).str(sa.WebVTTLine)
		encSTLLines(e, it.Lines)
	}
}

// what the reader returned, as ground-truth cues (effective flags)
func stlCuesFromSubs(s *astisub.Subtitles) []stlCueView {
	var out []stlCueView
	for _, it := range s.Items {
		v := stlCueView{Start: int64(it.StartAt), End: int64(it.EndAt), VP: -1, JC: -1}
		if it.InlineStyle != nil {
			if it.InlineStyle.STLPosition != nil {
				v.VP = it.InlineStyle.STLPosition.VerticalPosition
			}
			if it.InlineStyle.STLJustification != nil {
				switch *it.InlineStyle.STLJustification {
				case astisub.JustificationUnchanged:
					v.JC = 0
				case astisub.JustificationLeft:
					v.JC = 1
				case astisub.JustificationCentered:
					v.JC = 2
				case astisub.JustificationRight:
					v.JC = 3
				}
			}
		}
		for _, l := range it.Lines {
			var runs []stlRun
			for _, li := range l.Items {
				ru := stlRun{Text: li.Text}
				if sa := li.InlineStyle; sa != nil {
					ru.It = sa.STLItalics != nil && *sa.STLItalics
					ru.Un = sa.STLUnderline != nil && *sa.STLUnderline
					ru.Bx = sa.STLBoxing != nil && *sa.STLBoxing
				}
				runs = append(runs, ru)
			}
			v.Rows = append(v.Rows, runs)
		}
		out = append(out, v)
	}
	return out
}

type stlCueView struct {
	Start, End int64 // ns
	VP, JC     int
	Rows       [][]stlRun
}

// compares rows of runs up to canonical equivalence of the text; returns "" or a description, and whether the only
// differing characters are '$' read back as the currency sign
func stlRowsDiff(got, want [][]stlRun) (string, bool) {
	flat := func(rows [][]stlRun, dollarAsCurrency bool) string {
		var b strings.Builder
		for _, row := range rows {
			for _, ru := range row {
				t := norm.NFC.String(ru.Text)
				if dollarAsCurrency {
					t = strings.ReplaceAll(t, "$", "¤")
				}
				fmt.Fprintf(&b, "[%s|%v%v%v]", t, ru.It, ru.Un, ru.Bx)
			}
			b.WriteString("/")
		}
		return b.String()
	}
	g, w := flat(got, false), flat(want, false)
	if g == w {
		return "", false
	}
	return fmt.Sprintf("text %s, want %s", g, w), g == flat(want, true) && strings.Contains(w, "$")
}

// ---- independent decoder ---------------------------------------------------------------------------------

type stlDecoded struct {
	GSI    map[string]string
	FPS    int
	Blocks []stlDecBlock
}
type stlDecBlock struct {
	SN       int
	EBN      byte
	In, Out  stlTC
	VP       int
	JC, CS   byte
	CF       byte
	Rows     [][]stlRun
	UserData bool
}

var gsiLayout = []struct {
	name     string
	off, len int
}{
	{"CPN", 0, 3}, {"DFC", 3, 8}, {"DSC", 11, 1}, {"CCT", 12, 2}, {"LC", 14, 2}, {"OPT", 16, 32}, {"OET", 48, 32}, {"TPT", 80, 32},
	{"TET", 112, 32}, {"TN", 144, 32}, {"TCD", 176, 32}, {"SLR", 208, 16}, {"CD", 224, 6}, {"RD", 230, 6}, {"RN", 236, 2},
	{"TNB", 238, 5}, {"TNS", 243, 5}, {"TNG", 248, 3}, {"MNC", 251, 2}, {"MNR", 253, 2}, {"TCS", 255, 1}, {"TCP", 256, 8},
	{"TCF", 264, 8}, {"TND", 272, 1}, {"DSN", 273, 1}, {"CO", 274, 3}, {"PUB", 277, 32}, {"EN", 309, 32}, {"ECD", 341, 32},
	{"SPARE", 373, 75}, {"UDA", 448, 576},
}

// decodes the text field with the harness's own table: rows at 0x8A, runs at changes of the italic/underline/boxing
// state, floating diacritics composed onto the following character, unused and control codes ignored
func decodeSTLText(tf []byte) ([][]stlRun, error) {
	var rows [][]stlRun
	var runs []stlRun
	var cur strings.Builder
	var it, un, bx bool
	var pending rune
	flush := func() {
		t := trimSTL(cur.String())
		if t != "" {
			runs = append(runs, stlRun{norm.NFC.String(t), it, un, bx})
		}
		cur.Reset()
	}
	endRow := func() {
		flush()
		if len(runs) > 0 {
			rows = append(rows, runs)
		}
		runs = nil
		it, un, bx = false, false, false
	}
	for _, b := range tf {
		switch {
		case b == 0x8f:
			// unused space
		case b == 0x8a:
			endRow()
		case b >= 0x80 && b <= 0x85:
			flush()
			switch b {
			case 0x80:
				it = true
			case 0x81:
				it = false
			case 0x82:
				un = true
			case 0x83:
				un = false
			case 0x84:
				bx = true
			case 0x85:
				bx = false
			}
		case b < 0x20:
			// teletext control codes occupy a character cell shown as a space
			cur.WriteByte(' ')
		default:
			if m, ok := iso6937Floating[b]; ok {
				pending = m
				continue
			}
			r, ok := iso6937[b]
			if !ok {
				if b >= 0x86 && b <= 0x9f {
					continue
				}
				return nil, fmt.Errorf("byte 0x%02x is not in the Latin table", b)
			}
			cur.WriteRune(r)
			if pending != 0 {
				cur.WriteRune(pending)
				pending = 0
			}
		}
	}
	endRow()
	return rows, nil
}

func decodeSTL(b []byte) (*stlDecoded, error) {
	if len(b) < 1024 {
		return nil, fmt.Errorf("%d bytes: no GSI block", len(b))
	}
	if (len(b)-1024)%128 != 0 {
		return nil, fmt.Errorf("%d bytes: not 1024 + 128*n", len(b))
	}
	d := &stlDecoded{GSI: map[string]string{}}
	for _, f := range gsiLayout {
		d.GSI[f.name] = string(b[f.off : f.off+f.len])
	}
	switch d.GSI["DFC"] {
	case "STL25.01":
		d.FPS = 25
	case "STL30.01":
		d.FPS = 30
	default:
		return nil, fmt.Errorf("disk format code %q", d.GSI["DFC"])
	}
	if d.GSI["CCT"] != "00" {
		return nil, fmt.Errorf("character code table %q", d.GSI["CCT"])
	}
	for off := 1024; off < len(b); off += 128 {
		t := b[off : off+128]
		blk := stlDecBlock{SN: int(t[1]) | int(t[2])<<8, EBN: t[3], CS: t[4], In: stlTC{int(t[5]), int(t[6]), int(t[7]), int(t[8])},
			Out: stlTC{int(t[9]), int(t[10]), int(t[11]), int(t[12])}, VP: int(t[13]), JC: t[14], CF: t[15]}
		if t[3] == 0xfe {
			blk.UserData = true
		} else {
			rows, err := decodeSTLText(t[16:])
			if err != nil {
				return nil, fmt.Errorf("TTI block %d: %v", (off-1024)/128, err)
			}
			blk.Rows = rows
		}
		d.Blocks = append(d.Blocks, blk)
	}
	return d, nil
}

func hexShort(b []byte) string {
	if len(b) > 3000 {
		return hex.EncodeToString(b[:3000]) + "..."
	}
	return hex.EncodeToString(b)
}
