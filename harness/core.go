package main

// Core of the correspondence harness: observations of the implementation are collected per
// suite, the extracted model is evaluated on the same inputs by the OCaml driver, the projected
// observables are compared textually, and the property oracles' verdicts are recorded.

import (
	"bufio"
	"crypto/sha1"
	"encoding/hex"
	"encoding/json"
	"fmt"
	"hash/fnv"
	"io"
	"os"
	"os/exec"
	"path/filepath"
	"sort"
	"strings"
)

type obs struct {
	Suite   string      `json:"suite"`
	Group   string      `json:"group,omitempty"`  // statistics bucket (default: the suite)
	Input   string      `json:"input"`            // encoded arguments (driver line minus the suite name)
	Impl    string      `json:"impl"`             // implementation's observation, driver encoding
	Model   string      `json:"model,omitempty"`  // model's result
	Oracle  string      `json:"oracle,omitempty"` // non-empty: the property oracle rejects, with reason
	Sig     string      `json:"sig,omitempty"`    // signature used to match known findings
	Human   interface{} `json:"human,omitempty"`  // readable form of the case for replays/samples
	NT      bool        `json:"-"`                // non-trivial by the suite's rule
	NoModel bool        `json:"-"`                // oracle-only observation (no model evaluation)
}

type violation struct {
	Kind   string `json:"kind"` // "oracle" (failing input of the property) | "correspondence"
	Suite  string `json:"suite"`
	Replay string `json:"replay"`
	What   string `json:"what"`
	Sig    string `json:"sig,omitempty"`
	Known  string `json:"known,omitempty"`
}

type suiteStat struct {
	Cases      int  `json:"cases"`
	Nontrivial int  `json:"nontrivial"`
	Mismatch   int  `json:"mismatch"`
	OracleFail int  `json:"oracle_fail"`
	Exhaustive bool `json:"exhaustive,omitempty"`
}

type knownFinding struct {
	Status   string `json:"status"` // "finding" | "fixed"
	Property string `json:"property"`
	ID       string `json:"id"`
	What     string `json:"what"`
	Match    string `json:"match"` // signature (exact, or prefix when ending in '*')
	Commit   string `json:"commit,omitempty"`
}

type runner struct {
	prop      string
	tier      string
	seed      uint64
	driver    string
	replayDir string
	buf       []*obs
	stats     map[string]*suiteStat
	distinct  map[uint64]struct{}
	samples   []interface{}
	sampleCnt map[string]int
	dist      map[string]int
	viol      []violation
	violSeen  map[string]int
	known     []knownFinding
	knownHit  map[string]string
	evals     int
	rules     []string
	notes     []string
	cmd       *exec.Cmd
	din       io.WriteCloser
	dout      *bufio.Reader
	maxViol   int
	onlySuite string
	onlyInput string
}

func newRunner(prop, tier string, seed uint64, driver, replayDir, knownFile string) *runner {
	r := &runner{prop: prop, tier: tier, seed: seed, driver: driver, replayDir: replayDir,
		stats: map[string]*suiteStat{}, distinct: map[uint64]struct{}{}, sampleCnt: map[string]int{},
		dist: map[string]int{}, violSeen: map[string]int{}, knownHit: map[string]string{}, maxViol: 2}
	if b, err := os.ReadFile(knownFile); err == nil {
		var all []knownFinding
		if err := json.Unmarshal(b, &all); err != nil {
			fatal("known findings file: %v", err)
		}
		for _, k := range all {
			if k.Property == prop && k.Status == "finding" {
				r.known = append(r.known, k)
			}
		}
	}
	return r
}

func fatal(f string, a ...interface{}) {
	fmt.Fprintf(os.Stderr, "harness: "+f+"\n", a...)
	os.Exit(2)
}

func (r *runner) stat(s string) *suiteStat {
	st := r.stats[s]
	if st == nil {
		st = &suiteStat{}
		r.stats[s] = st
	}
	return st
}

func (r *runner) rule(s string)           { r.rules = append(r.rules, s) }
func (r *runner) note(s string)           { r.notes = append(r.notes, s) }
func (r *runner) count(k string)          { r.dist[k]++ }
func (r *runner) countN(k string, n int)  { r.dist[k] += n }
func (r *runner) exhaustive(suite string) { r.stat(suite).Exhaustive = true }

func (r *runner) add(o *obs) {
	if r.onlySuite != "" && (o.Suite != r.onlySuite || o.Input != r.onlyInput) {
		return
	}
	r.buf = append(r.buf, o)
	if len(r.buf) >= 20000 {
		r.flush()
	}
}

func (r *runner) startDriver() {
	if r.cmd != nil {
		return
	}
	r.cmd = exec.Command(r.driver)
	var err error
	if r.din, err = r.cmd.StdinPipe(); err != nil {
		fatal("driver stdin: %v", err)
	}
	out, err := r.cmd.StdoutPipe()
	if err != nil {
		fatal("driver stdout: %v", err)
	}
	r.cmd.Stderr = os.Stderr
	r.dout = bufio.NewReaderSize(out, 1<<20)
	if err := r.cmd.Start(); err != nil {
		fatal("driver start: %v", err)
	}
}

func (r *runner) flush() {
	if len(r.buf) == 0 {
		return
	}
	var todo []*obs
	for _, o := range r.buf {
		if !o.NoModel {
			todo = append(todo, o)
		}
	}
	if len(todo) > 0 {
		r.startDriver()
		go func(todo []*obs) {
			w := bufio.NewWriterSize(r.din, 1<<20)
			for _, o := range todo {
				w.WriteString(o.Suite)
				w.WriteByte(' ')
				w.WriteString(o.Input)
				w.WriteByte('\n')
			}
			w.Flush()
		}(todo)
		for _, o := range todo {
			line, err := r.dout.ReadString('\n')
			if err != nil {
				fatal("driver died: %v", err)
			}
			o.Model = strings.TrimSpace(line)
			if strings.HasPrefix(o.Model, "DRIVER-ERROR") {
				fatal("driver error on suite %s input %.200s: %s", o.Suite, o.Input, o.Model)
			}
		}
	}
	for _, o := range r.buf {
		r.account(o)
	}
	r.buf = r.buf[:0]
}

func (r *runner) account(o *obs) {
	g := o.Group
	if g == "" {
		g = o.Suite
	}
	st := r.stat(g)
	st.Cases++
	r.evals++
	if o.NT {
		h := fnv.New64a()
		h.Write([]byte(o.Suite))
		h.Write([]byte{0})
		h.Write([]byte(o.Input))
		k := h.Sum64()
		if _, ok := r.distinct[k]; !ok {
			r.distinct[k] = struct{}{}
			st.Nontrivial++
		}
	}
	if r.sampleCnt[g] < 2 && o.NT && o.Human != nil {
		r.sampleCnt[g]++
		r.samples = append(r.samples, map[string]interface{}{"suite": g, "case": o.Human, "observed": trunc(o.Impl, 300)})
	}
	mismatch := !o.NoModel && o.Model != o.Impl
	if !o.NoModel && strings.HasPrefix(o.Model, "NS") {
		// outside the model's faithful domain the model's value and its Ok/Err distinction are not claimed: only whether
		// the call panics is compared (model class Panic vs implementation panic)
		r.dist[g+".outside_faithful_domain"]++
		cls := strings.Fields(o.Model)
		ic := strings.Fields(o.Impl)
		mismatch = len(cls) > 1 && len(ic) > 0 && (cls[1] == "2") != (ic[0] == "2" || ic[0] == "PANIC")
	}
	if mismatch {
		st.Mismatch++
	}
	if o.Oracle != "" {
		st.OracleFail++
	}
	if o.Oracle != "" {
		r.report("oracle", o, o.Oracle)
	} else if mismatch {
		r.report("correspondence", o, "model and implementation disagree")
	}
}

// bulk accounts for n oracle-only evaluations (nt of them distinct and non-trivial) that were not
// materialised as observations (large sweeps); failures among them are added individually.
func (r *runner) bulk(group string, n, nt int) {
	st := r.stat(group)
	st.Cases += n
	st.Nontrivial += nt
	r.evals += n
}

func trunc(s string, n int) string {
	if len(s) > n {
		return s[:n] + "..."
	}
	return s
}

func (r *runner) matchKnown(sig string) *knownFinding {
	if sig == "" {
		return nil
	}
	for i := range r.known {
		m := r.known[i].Match
		if m == sig || (strings.HasSuffix(m, "*") && strings.HasPrefix(sig, strings.TrimSuffix(m, "*"))) {
			return &r.known[i]
		}
	}
	return nil
}

func (r *runner) report(kind string, o *obs, what string) {
	if k := r.matchKnown(o.Sig); k != nil && kind == "oracle" {
		r.knownHit[k.ID] = k.What
		return
	}
	key := kind + "/" + o.Suite + "/" + o.Sig
	r.violSeen[key]++
	if r.violSeen[key] > r.maxViol {
		return
	}
	h := sha1.Sum([]byte(o.Suite + " " + o.Input))
	name := fmt.Sprintf("%s-%s-%s.json", r.prop, kind[:3], hex.EncodeToString(h[:6]))
	path := filepath.Join(r.replayDir, name)
	rep := map[string]interface{}{
		"property": r.prop, "kind": kind, "suite": o.Suite, "seed": r.seed, "tier": r.tier, "input": o.Input, "case": o.Human,
		"observed": o.Impl, "model": o.Model, "what": what, "sig": o.Sig,
		"how_to_rerun": fmt.Sprintf("bin/check %s quick --replay %s", r.prop, path),
	}
	if kind == "correspondence" {
		rep["correspondence"] = "suite " + o.Suite + ": extracted Coq model vs implementation (projected observables)"
	} else {
		rep["oracle"] = what
	}
	b, _ := json.MarshalIndent(rep, "", " ")
	os.MkdirAll(r.replayDir, 0o755)
	os.WriteFile(path, b, 0o644)
	r.viol = append(r.viol, violation{Kind: kind, Suite: o.Suite, Replay: path, What: what, Sig: o.Sig})
}

func (r *runner) finish(outFile string) {
	r.flush()
	if r.cmd != nil {
		r.din.Close()
		r.cmd.Wait()
	}
	nt := 0
	for _, st := range r.stats {
		nt += st.Nontrivial
	}
	// oracle violations first
	sort.SliceStable(r.viol, func(i, j int) bool { return r.viol[i].Kind == "oracle" && r.viol[j].Kind != "oracle" })
	exh := len(r.stats) > 0
	for _, st := range r.stats {
		if !st.Exhaustive {
			exh = false
		}
	}
	var kh []map[string]string
	for id, what := range r.knownHit {
		kh = append(kh, map[string]string{"id": id, "what": what})
	}
	sort.Slice(kh, func(i, j int) bool { return kh[i]["id"] < kh[j]["id"] })
	out := map[string]interface{}{
		"property": r.prop, "tier": r.tier, "seed": r.seed,
		"evaluations": r.evals, "distinct_nontrivial": nt, "rule": strings.Join(r.rules, " | "),
		"samples": r.samples, "suites": r.stats, "distribution": r.dist, "violations": r.viol,
		"known_hits": kh, "notes": r.notes, "exhaustive": exh,
	}
	b, _ := json.MarshalIndent(out, "", " ")
	if err := os.WriteFile(outFile, b, 0o644); err != nil {
		fatal("write %s: %v", outFile, err)
	}
}
