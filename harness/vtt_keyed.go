package main

// C02, WriteToWebVTT over keyed maps (second audit, N5).  Subtitles.Styles and Subtitles.Regions are public Go maps: a key
// need not be the ID of the value under it, a value may be nil, two keys may carry values with one ID.  The writer ranges
// over the KEYS with a non-nil value in sorted order, takes the value under the key, and writes one empty line after the
// region lines when the map has a key at all (webvtt.go:491-565).  This suite builds such maps on top of the ground-truth
// documents of suiteVtt and compares the writer's bytes with the extracted model (driver suite vttwritem, which receives
// the maps BY KEY, nil values included: encVdocIn).  The decoding oracles of suiteVtt (independent decoder, write then
// read) do not apply here: they are stated for maps whose keys are the identifiers and whose values are non-nil
// (vttMapsByID); what is decided here on the implementation is totality (no panic, no error when there is a cue).

import (
	"bytes"
	"fmt"
	"sort"
	"strings"

	astisub "github.com/asticode/go-astisub"
)

// vttMapsByID: every key of the two maps carries a non-nil value whose ID is the key (what the readers build)
func vttMapsByID(s *astisub.Subtitles) bool {
	for k, v := range s.Regions {
		if v == nil || v.ID != k {
			return false
		}
	}
	for k, v := range s.Styles {
		if v == nil || v.ID != k {
			return false
		}
	}
	return true
}

func vttKeyedRegion(r *rng, id string) *astisub.Region {
	rg := &astisub.Region{ID: id}
	if r.chance(3, 4) {
		rg.InlineStyle = &astisub.StyleAttributes{}
		if r.chance(1, 2) {
			rg.InlineStyle.WebVTTLines = 1 + r.intn(5)
		}
		if r.chance(1, 2) {
			rg.InlineStyle.WebVTTWidth = r.pick("40%", "100%", "7%")
		}
		if r.chance(1, 3) {
			rg.InlineStyle.WebVTTScroll = "up"
		}
	}
	if r.chance(1, 3) {
		rg.Style = &astisub.Style{ID: "fb"}
		if r.chance(3, 4) {
			rg.Style.InlineStyle = &astisub.StyleAttributes{WebVTTLines: r.intn(4), WebVTTRegionAnchor: r.pick("", "0%,100%"), WebVTTViewportAnchor: r.pick("", "10%,90%"), WebVTTWidth: r.pick("", "55%")}
		}
	}
	return rg
}

func vttKeyedStyle(r *rng, id string) *astisub.Style {
	st := &astisub.Style{ID: id}
	switch r.intn(5) {
	case 0: // InlineStyle nil
	case 1:
		st.InlineStyle = &astisub.StyleAttributes{} // no WebVTTStyles
	case 2:
		st.InlineStyle = &astisub.StyleAttributes{WebVTTStyles: []string{""}}
	default:
		st.InlineStyle = &astisub.StyleAttributes{WebVTTStyles: []string{"::cue(." + id + ") {", "color: " + r.pick("red", "lime", "papayawhip") + ";", "}"}}
	}
	return st
}

func sortedRegionKeys(m map[string]*astisub.Region) []string {
	var ks []string
	for k := range m {
		ks = append(ks, k)
	}
	sort.Strings(ks)
	return ks
}
func sortedStyleKeys(m map[string]*astisub.Style) []string {
	var ks []string
	for k := range m {
		ks = append(ks, k)
	}
	sort.Strings(ks)
	return ks
}

// vttKeyMaps rebuilds the two maps of s according to kind (the cues keep their pointers to the Region values)
func vttKeyMaps(r *rng, s *astisub.Subtitles, kind int) {
	regionKinds := func(kind int) {
		ks := sortedRegionKeys(s.Regions)
		switch kind {
		case 0: // every key differs from the ID of its value; the order of the keys reverses the order of the IDs
			if len(ks) < 2 {
				for i := len(ks); i < 2; i++ {
					id := fmt.Sprintf("x%d", i)
					s.Regions[id] = vttKeyedRegion(r, id)
				}
				ks = sortedRegionKeys(s.Regions)
			}
			m := map[string]*astisub.Region{}
			for i, k := range ks {
				m[fmt.Sprintf("key%d", 9-i)] = s.Regions[k]
			}
			s.Regions = m
		case 1: // nil values next to the others
			s.Regions[r.pick("", "a-nil", "r0x", "zz")] = nil
			if r.chance(1, 2) {
				s.Regions["r1-nil"] = nil
			}
		case 2: // nil values only
			for _, k := range ks {
				s.Regions[k] = nil
			}
			if len(ks) == 0 || r.chance(1, 3) {
				s.Regions[r.pick("", "n", "r9")] = nil
			}
		case 3: // two keys, one ID
			id := "dup"
			if len(ks) > 0 {
				id = s.Regions[ks[r.intn(len(ks))]].ID
			} else {
				s.Regions[id] = vttKeyedRegion(r, id)
			}
			s.Regions[r.pick("!", "dup-2", "zz")+id] = vttKeyedRegion(r, id)
		case 4: // the ID of one value is the key of the other
			s.Regions["ca"] = vttKeyedRegion(r, "cb")
			s.Regions["cb"] = vttKeyedRegion(r, "ca")
		}
	}
	styleKinds := func(kind int) {
		switch kind {
		case 5: // keys differing from the IDs, in the opposite order; two keys, one ID
			s.Styles["zz"] = vttKeyedStyle(r, "aa")
			s.Styles["aa"] = vttKeyedStyle(r, "zz")
			if r.chance(1, 2) {
				s.Styles["mm"] = vttKeyedStyle(r, "aa")
			}
		case 6: // nil values next to the others
			s.Styles[r.pick("", "a-nil", "st0", "zz")] = nil
			s.Styles["k1"] = vttKeyedStyle(r, "k1")
		case 7: // nil values only
			for _, k := range sortedStyleKeys(s.Styles) {
				s.Styles[k] = nil
			}
			s.Styles[r.pick("", "n")] = nil
		}
	}
	if kind < 5 {
		regionKinds(kind)
		if r.chance(1, 3) {
			styleKinds(5 + r.intn(3))
		}
	} else {
		styleKinds(kind)
		if r.chance(1, 3) {
			regionKinds(r.intn(5))
		}
	}
}

// vttCountKeyed records what the maps of s exercise
func vttCountKeyed(R *runner, s *astisub.Subtitles) {
	ne, nilv, dup := false, 0, false
	ids := map[string]bool{}
	for _, k := range sortedRegionKeys(s.Regions) {
		v := s.Regions[k]
		if v == nil {
			nilv++
			continue
		}
		if v.ID != k {
			ne = true
		}
		if ids[v.ID] {
			dup = true
		}
		ids[v.ID] = true
	}
	if ne {
		R.count("vtt.write.key_ne_id")
		R.count("vtt.write.key_ne_id.region")
	}
	if nilv > 0 {
		R.count("vtt.write.nil_region")
		if nilv == len(s.Regions) {
			R.count("vtt.write.nil_region.only")
		}
	}
	if dup {
		R.count("vtt.write.duplicate_id.region")
	}
	ne, nilv, dup = false, 0, false
	ids = map[string]bool{}
	for _, k := range sortedStyleKeys(s.Styles) {
		v := s.Styles[k]
		if v == nil {
			nilv++
			continue
		}
		if v.ID != k {
			ne = true
		}
		if ids[v.ID] {
			dup = true
		}
		ids[v.ID] = true
		if v.InlineStyle == nil {
			R.count("vtt.write.style_without_inline")
		}
	}
	if ne {
		R.count("vtt.write.key_ne_id")
		R.count("vtt.write.key_ne_id.style")
	}
	if nilv > 0 {
		R.count("vtt.write.nil_style")
		if nilv == len(s.Styles) {
			R.count("vtt.write.nil_style.only")
		}
	}
	if dup {
		R.count("vtt.write.duplicate_id.style")
	}
}

func describeKeyedMaps(s *astisub.Subtitles) map[string]interface{} {
	rg := []string{}
	for _, k := range sortedRegionKeys(s.Regions) {
		if v := s.Regions[k]; v == nil {
			rg = append(rg, fmt.Sprintf("%q: nil", k))
		} else {
			rg = append(rg, fmt.Sprintf("%q: {ID:%q inline_nil=%v style_nil=%v}", k, v.ID, v.InlineStyle == nil, v.Style == nil))
		}
	}
	st := []string{}
	for _, k := range sortedStyleKeys(s.Styles) {
		if v := s.Styles[k]; v == nil {
			st = append(st, fmt.Sprintf("%q: nil", k))
		} else if v.InlineStyle == nil {
			st = append(st, fmt.Sprintf("%q: {ID:%q inline nil}", k, v.ID))
		} else {
			st = append(st, fmt.Sprintf("%q: {ID:%q styles=%q}", k, v.ID, v.InlineStyle.WebVTTStyles))
		}
	}
	return map[string]interface{}{"regions": rg, "styles": st}
}

func suiteVttKeyed(R *runner, r *rng) {
	R.rule("webvtt writer over keyed maps (distribution keys vtt.write.key_ne_id[.region|.style], vtt.write.nil_region[.only], vtt.write.nil_style[.only], vtt.write.duplicate_id.*, vtt.write.style_without_inline): the ground-truth documents of the writer suite with their Regions / Styles maps rebuilt so that keys differ from the identifiers of the values (key order opposite to identifier order), values are nil (next to others, or all of them), two keys carry one identifier, the identifier of one value is the key of another; WriteToWebVTT vs the extracted model byte for byte (the maps are sent to the model by key, nil values included); on the implementation: no panic, no error when there is a cue; the decoding oracles (independent decoder, write then read) are stated only for maps keyed by identifier without nil values and are not applied here; non-trivial = at least one cue")
	N := 480
	if R.tier == "thorough" {
		N = 9600
	}
	for c := 0; c < N; c++ {
		d := randVttDoc(r, c%4 != 0)
		s := subsFromVttDoc(d)
		vttKeyMaps(r, s, c%8)
		vttCountKeyed(R, s)
		h := map[string]interface{}{"cues": len(d.Cues), "doc": d, "maps": describeKeyedMaps(s)}
		win := &enc{}
		encVdocIn(win, s)
		o := &obs{Suite: "vttwritem", Group: "vtt.write", NT: len(d.Cues) > 0, Input: win.String(), Human: h}
		var buf bytes.Buffer
		var err error
		p := safely(func() { err = s.WriteToWebVTT(&buf) })
		switch {
		case p != "":
			o.Impl, o.Oracle, o.Sig = "2", "WriteToWebVTT panicked: "+p, "vtt-write-panic"
		case err != nil:
			o.Impl = "1"
			if len(d.Cues) > 0 {
				o.Oracle, o.Sig = "WriteToWebVTT failed: "+err.Error(), "vtt-write-error"
			}
		default:
			o.Impl = (&enc{}).n(0).bytes(buf.Bytes()).String()
			h["written"] = buf.String()
			// the property's own clause, whatever the map keys are: a cue that references a region finds that region
			// defined earlier in the written document - when the cue's region is one of the map's values
			if m := vttRegionUseBeforeDefinition(buf.String(), s); m != "" {
				o.Oracle, o.Sig = m, "vtt-write-region-not-defined"
			}
		}
		R.add(o)
	}
}

// scans a written document: "Region: id=<id> ..." lines define, " region:<id>" on a timing line uses
func vttRegionUseBeforeDefinition(doc string, s *astisub.Subtitles) string {
	inMap := map[string]bool{}
	for _, rg := range s.Regions {
		if rg != nil {
			inMap[rg.ID] = true
		}
	}
	defined := map[string]bool{}
	for _, line := range strings.Split(doc, "\n") {
		if strings.HasPrefix(line, "Region: ") {
			for _, f := range strings.Fields(line[len("Region: "):]) {
				if strings.HasPrefix(f, "id=") {
					defined[f[3:]] = true
				}
			}
			continue
		}
		if !strings.Contains(line, " --> ") {
			continue
		}
		for _, f := range strings.Fields(line) {
			if strings.HasPrefix(f, "region:") {
				id := f[len("region:"):]
				if inMap[id] && !defined[id] {
					return "cue references region " + id + ", which the written document does not define before it"
				}
			}
		}
	}
	return ""
}
