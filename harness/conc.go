package main

// C20 independent calls are safe to run concurrently: the multiset of operations is run on 2..32
// goroutines by a race-detector build of this harness (child process); every result is compared with the
// sequential run.

import (
	"bytes"
	"encoding/json"
	"fmt"
	"os"
	"os/exec"
	"path/filepath"
	"runtime"
	"strings"
	"sync"
	"time"

	astisub "github.com/asticode/go-astisub"
)

type concTask struct {
	name string
	run  func() string // returns a digest of the result
}

func concTasks(seed uint64, n int) []concTask {
	r := newRng(seed ^ 0xc20)
	docs := sampleDocs(r, 2, false)
	docs = append(docs, tsSampleDocs(r)...)
	var tasks []concTask
	for i := 0; i < n; i++ {
		k := r.intn(4)
		sub := r.u64()
		switch k {
		case 0: // read
			d := docs[r.intn(len(docs))]
			tasks = append(tasks, concTask{"read " + d.format + "/" + d.name, func() string {
				if d.format == "ts" {
					s, err := astisub.ReadFromTeletext(bytes.NewReader(d.data), astisub.TeletextOptions{})
					return hashBytes([]byte(snapshot(s, err, "")))
				}
				return hashBytes([]byte(readWith(formatByName(d.format), bytes.NewReader(d.data))))
			}})
		case 1: // write
			f := formats[r.intn(len(formats))]
			tasks = append(tasks, concTask{"write " + f.name, func() string {
				s := richSubs(newRng(sub), richOpts{safe: true, maxStyles: 4, maxItems: 4})
				var buf bytes.Buffer
				if err := f.write(s, &buf); err != nil {
					return "ERR"
				}
				return hashBytes(buf.Bytes())
			}})
		case 2: // transformations
			op := r.intn(9)
			tasks = append(tasks, concTask{fmt.Sprintf("transform %d", op), func() string {
				rr := newRng(sub)
				s := richSubs(rr, richOpts{safe: true, maxStyles: 4, maxItems: 6})
				switch op {
				case 0:
					s.Add(time.Duration(rr.rangeI64(-5e9, 5e9)))
				case 1:
					s.Fragment(time.Duration(1+rr.i64n(3000)) * time.Millisecond)
				case 2:
					s.Unfragment()
				case 3:
					s.Merge(richSubs(rr, richOpts{safe: true, maxStyles: 3, maxItems: 3}))
				case 4:
					s.Optimize()
				case 5:
					s.ApplyLinearCorrection(time.Second, 2*time.Second, time.Minute, time.Minute+3*time.Second)
				case 6:
					s.Order()
				case 7:
					s.ForceDuration(time.Duration(1+rr.i64n(20000))*time.Millisecond, rr.chance(1, 2))
				default:
					s.RemoveStyling()
				}
				b, _ := json.Marshal(s)
				return hashBytes(b)
			}})
		default: // read then convert
			d := docs[r.intn(len(docs))]
			f := formats[r.intn(len(formats))]
			tasks = append(tasks, concTask{"convert " + d.format + "->" + f.name, func() string {
				var s *astisub.Subtitles
				var err error
				if d.format == "ts" {
					s, err = astisub.ReadFromTeletext(bytes.NewReader(d.data), astisub.TeletextOptions{})
				} else {
					s, err = formatByName(d.format).read(bytes.NewReader(d.data))
				}
				if err != nil || s == nil {
					return "ERR"
				}
				var buf bytes.Buffer
				if p := safely(func() { err = f.write(s, &buf) }); p != "" {
					return "PANIC"
				}
				if err != nil {
					return "ERR"
				}
				return hashBytes(buf.Bytes())
			}})
		}
	}
	return tasks
}

// child mode (race build): sequential run, then concurrent runs on g goroutines; prints mismatches
func c20Child(seed uint64, n, g int) {
	// the documented injectable clock: set once, before any goroutine starts, to a pure function
	astisub.Now = func() time.Time { return time.Date(2021, 3, 4, 5, 6, 7, 0, time.UTC) }
	tasks := concTasks(seed, n)
	seq := make([]string, len(tasks))
	for i, t := range tasks {
		seq[i] = t.run()
	}
	var mismatches []string
	for round := 0; round < 3; round++ {
		res := make([]string, len(tasks))
		order := newRng(seed + uint64(round) + 7)
		perm := make([]int, len(tasks))
		for i := range perm {
			perm[i] = i
		}
		for i := len(perm) - 1; i > 0; i-- {
			j := order.intn(i + 1)
			perm[i], perm[j] = perm[j], perm[i]
		}
		ch := make(chan int)
		var wg sync.WaitGroup
		for w := 0; w < g; w++ {
			wg.Add(1)
			go func() {
				defer wg.Done()
				for i := range ch {
					res[i] = tasks[i].run()
				}
			}()
		}
		for _, i := range perm {
			ch <- i
		}
		close(ch)
		wg.Wait()
		for i := range tasks {
			if res[i] != seq[i] {
				mismatches = append(mismatches, fmt.Sprintf("%s: concurrent %s sequential %s", tasks[i].name, res[i], seq[i]))
			}
		}
	}
	out, _ := json.Marshal(map[string]interface{}{"tasks": len(tasks), "goroutines": g, "gomaxprocs": runtime.GOMAXPROCS(0), "mismatches": mismatches})
	os.Stdout.Write(out)
}

func suiteConcurrency(R *runner, r *rng) {
	R.rule("concurrency: a multiset of independent operations (6 readers incl. teletext, 5 writers, all transformations, read-then-convert) on generated documents and cue lists, run sequentially and then 3 times with randomized start order on G goroutines by a race-detector build of the harness, for (G, GOMAXPROCS) in {(2,2),(8,4),(32,16)} (more in the thorough tier); oracle: no data race report, every result equal to the sequential one; non-trivial = every run (all mix formats)")
	race := filepath.Join(buildDir, "harness-race")
	if _, err := os.Stat(race); err != nil {
		fatal("race-detector build of the harness is missing: %v", err)
	}
	configs := [][2]int{{2, 2}, {8, 4}, {32, 16}}
	n := 120
	if R.tier == "thorough" {
		configs = [][2]int{{2, 2}, {3, 2}, {4, 4}, {8, 4}, {16, 16}, {32, 16}, {32, 4}, {16, 2}}
		n = 400
	}
	for ci, c := range configs {
		seed := R.seed*100 + uint64(ci)
		cmd := exec.Command(race, "-child", "c20", "-seed", fmt.Sprint(seed), "-n", fmt.Sprint(n), "-g", fmt.Sprint(c[0]), "-repo", repoDir)
		cmd.Env = append(os.Environ(), fmt.Sprintf("GOMAXPROCS=%d", c[1]), "GORACE=halt_on_error=0")
		var stdout, stderr bytes.Buffer
		cmd.Stdout, cmd.Stderr = &stdout, &stderr
		err := cmd.Run()
		o := &obs{Suite: "conc", Group: fmt.Sprintf("conc.g%d.p%d", c[0], c[1]), NoModel: true, NT: true, Input: fmt.Sprintf("conc seed %d g %d p %d", seed, c[0], c[1]),
			Human: map[string]interface{}{"tasks": n, "goroutines": c[0], "gomaxprocs": c[1], "seed": seed}}
		var res struct {
			Tasks      int      `json:"tasks"`
			Mismatches []string `json:"mismatches"`
		}
		se := stderr.String()
		switch {
		case strings.Contains(se, "DATA RACE"):
			i := strings.Index(se, "WARNING: DATA RACE")
			o.Oracle, o.Sig = "data race reported: "+trunc(se[i:], 1500), "conc-race"
		case err != nil:
			o.Oracle, o.Sig = fmt.Sprintf("concurrent run failed: %v %s", err, trunc(se, 600)), "conc-crash"
		default:
			if e := json.Unmarshal(stdout.Bytes(), &res); e != nil {
				o.Oracle, o.Sig = "concurrent run produced no result: "+e.Error(), "conc-crash"
			} else if len(res.Mismatches) > 0 {
				o.Oracle, o.Sig = "result differs from the sequential run: "+strings.Join(res.Mismatches[:minInt(3, len(res.Mismatches))], "; "), "conc-value"
			}
			R.bulk(o.Group+".tasks", res.Tasks*3, res.Tasks)
		}
		R.add(o)
	}
}
