package main

// C13 on TTML: the library's Optimize on documents read by ReadFromTTML (styles with parent chains, regions with
// styles) against the Coq definition (Model/TtmlOpt.v: ttml_optimize on the document value), an independent
// reachability computation on the ground truth, and the property's "can still be written and read back with the
// same cues" for the TTML codec.

import (
	"bytes"
	"fmt"
	"sort"
	"strings"

	astisub "github.com/asticode/go-astisub"
)

// reachable styles / used regions of a ground-truth document (worklist over cue, run, region and parent references)
func ttReachable(v tvDoc) (styles, regions []string) {
	usedR := map[string]bool{}
	usedS := map[string]bool{}
	var work []string
	push := func(p *string) {
		if p != nil && !usedS[*p] {
			usedS[*p] = true
			work = append(work, *p)
		}
	}
	for _, it := range v.Items {
		if it.Region != nil {
			usedR[*it.Region] = true
		}
		push(it.Style)
		for _, l := range it.Lines {
			for _, r := range l {
				push(r.Style)
			}
		}
	}
	for _, rg := range v.Regions {
		if usedR[rg.ID] {
			push(rg.Ref)
		}
	}
	parent := map[string]*string{}
	for _, st := range v.Styles {
		parent[st.ID] = st.Ref
	}
	for len(work) > 0 {
		id := work[len(work)-1]
		work = work[:len(work)-1]
		push(parent[id])
	}
	for _, st := range v.Styles {
		if usedS[st.ID] {
			styles = append(styles, st.ID)
		}
	}
	for _, rg := range v.Regions {
		if usedR[rg.ID] {
			regions = append(regions, rg.ID)
		}
	}
	sort.Strings(styles)
	sort.Strings(regions)
	return
}

func idsOf(l []tvStyle) []string {
	out := []string{}
	for _, s := range l {
		out = append(out, s.ID)
	}
	sort.Strings(out)
	return out
}

func suiteTtmlOptimize(R *runner, r *rng) {
	R.rule("optimize on TTML: ground-truth documents (1..4 cues; 0..8 styles with parent chains, shared parents and unused chains; 0..4 regions with style references, used and unused) rendered, read by ReadFromTTML, optimized by the library; the resulting value vs ttml_optimize (Coq) on the value read; oracle: surviving styles/regions = an independent reachability computation on the ground truth, cues untouched, the optimized value is written to TTML and read back with the same cues as the written un-optimized value; non-trivial = at least one definition is dropped")
	N := 300
	if R.tier == "thorough" {
		N = 5000
	}
	for c := 0; c < N; c++ {
		d := ttRandDoc(r, ttGenOpts{MaxCues: 4, MaxStyles: 8, MaxRegions: 4, MsOnly: true})
		doc := renderTTML(r, d, ttRendering{Indent: r.pick("", "  "), Prefix: r.intn(3), BrInside: true})
		s, err := astisub.ReadFromTTML(strings.NewReader(doc))
		o := &obs{Suite: "ttmlopt", Group: "ttml.optimize", Human: map[string]interface{}{"doc": doc}}
		if err != nil {
			o.NoModel, o.Impl = true, "1"
			o.Oracle, o.Sig = "ReadFromTTML rejects a well-formed document: "+err.Error(), "ttmlopt-read"
			R.add(o)
			continue
		}
		before, _ := projectSubs(s)
		var unopt bytes.Buffer
		_ = s.WriteToTTML(&unopt)
		o.Input = (&enc{}).tdoc(before).String()
		p := safely(func() { s.Optimize() })
		if p != "" {
			o.Impl, o.Oracle, o.Sig = "2", "Optimize panicked: "+p, "ttmlopt-panic"
			R.add(o)
			continue
		}
		after, problems := projectSubs(s)
		o.Impl = (&enc{}).n(0).tdoc(after).String()
		wantS, wantR := ttReachable(d.V)
		o.NT = len(after.Styles) < len(before.Styles) || len(after.Regions) < len(before.Regions)
		R.countN("ttmlopt.styles.dropped", len(before.Styles)-len(after.Styles))
		R.countN("ttmlopt.styles.kept", len(after.Styles))
		R.countN("ttmlopt.regions.dropped", len(before.Regions)-len(after.Regions))
		switch {
		case len(problems) > 0:
			o.Oracle, o.Sig = "after Optimize: "+problems[0], "ttmlopt-identity"
		case fmt.Sprint(idsOf(after.Styles)) != fmt.Sprint(wantS):
			o.Oracle, o.Sig = fmt.Sprintf("surviving styles %q, reachable %q", idsOf(after.Styles), wantS), "ttmlopt-styles"
		case fmt.Sprint(idsOf(after.Regions)) != fmt.Sprint(wantR):
			o.Oracle, o.Sig = fmt.Sprintf("surviving regions %q, used %q", idsOf(after.Regions), wantR), "ttmlopt-regions"
		default:
			bi, ai := before, after
			bi.Styles, bi.Regions, ai.Styles, ai.Regions = nil, nil, nil, nil
			if m, _ := diffDocs(ai, bi, true); m != "" {
				o.Oracle, o.Sig = "Optimize changed the cues: "+m, "ttmlopt-cues"
				break
			}
			// still writable, and read back with the same cues as before
			var buf bytes.Buffer
			if werr := s.WriteToTTML(&buf); werr != nil {
				o.Oracle, o.Sig = "the optimized list cannot be written: "+werr.Error(), "ttmlopt-write"
				break
			}
			back, rerr := astisub.ReadFromTTML(bytes.NewReader(buf.Bytes()))
			back0, rerr0 := astisub.ReadFromTTML(bytes.NewReader(unopt.Bytes()))
			if rerr != nil || rerr0 != nil {
				o.Oracle, o.Sig = fmt.Sprintf("the written optimized list cannot be read back: %v / %v", rerr, rerr0), "ttmlopt-read-back"
				break
			}
			bv, _ := projectSubs(back)
			bv0, _ := projectSubs(back0)
			bv.Styles, bv.Regions, bv0.Styles, bv0.Regions = nil, nil, nil, nil
			if m, _ := diffDocs(bv, bv0, true); m != "" {
				o.Oracle, o.Sig = "optimized, written and read back: "+m, "ttmlopt-roundtrip"
			} else if m := diffTimes(bv, bv0); m != "" {
				o.Oracle, o.Sig = "optimized, written and read back: "+m, "ttmlopt-roundtrip"
			}
		}
		R.add(o)
	}
}
