package main

// C06 teletext-in-TS: ground-truth page schedules, an independent teletext encoder (ETS 300 706 /
// EN 300 472: Hamming 8/4, odd parity, bit order), PES assembly, transport-stream muxing through the astits
// muxer, and the expected cues.

import (
	"bytes"
	"context"
	"fmt"
	"math/bits"
	"strings"

	astits "github.com/asticode/go-astits"

	astisub "github.com/asticode/go-astisub"
)

// ---- teletext coding (from the standards, independent of the library's tables) ------------------

// Hamming 8/4: transmission order P1 D1 P2 D2 P3 D3 P4 D4, first transmitted bit stored as MSB in the PES
func ham84(n uint8) byte {
	d1, d2, d3, d4 := n&1, n>>1&1, n>>2&1, n>>3&1
	p1 := 1 ^ d1 ^ d3 ^ d4
	p2 := 1 ^ d1 ^ d2 ^ d4
	p3 := 1 ^ d1 ^ d2 ^ d3
	p4 := 1 ^ p1 ^ d1 ^ p2 ^ d2 ^ p3 ^ d3 ^ d4
	return p1<<7 | d1<<6 | p2<<5 | d2<<4 | p3<<3 | d3<<2 | p4<<1 | d4
}

// 7-bit character with odd parity in bit 8, transmitted LSB first => bit-reversed in the PES
func parityByte(c uint8) byte {
	c &= 0x7f
	if bits.OnesCount8(c)%2 == 0 {
		c |= 0x80
	}
	return bits.Reverse8(c)
}

// one teletext packet as an EBU data unit: id, length 44, field/line byte, framing code, address, 40 bytes
func dataUnit(id byte, magazine, packet int, payload []byte) []byte {
	u := []byte{id, 0x2c, 0xe7, 0xe4}
	h := uint8(magazine&7) | uint8(packet&0x1f)<<3
	u = append(u, ham84(h&0xf), ham84(h>>4))
	p := make([]byte, 40)
	copy(p, payload)
	return append(u, p...)
}

type ttxHeaderOpts struct {
	subtitle bool
	serial   bool
	charset  int
	erase    bool
}

func headerPacket(magazine, page int, o ttxHeaderOpts) []byte {
	var p []byte
	p = append(p, ham84(uint8(page%10)), ham84(uint8(page/10%10)))
	s2 := uint8(0)
	if o.erase {
		s2 |= 8
	}
	p = append(p, ham84(0), ham84(s2), ham84(0))
	s4 := uint8(0)
	if o.subtitle {
		s4 |= 8
	}
	p = append(p, ham84(s4), ham84(0))
	c := uint8(o.charset&7) << 1
	if o.serial {
		c |= 1
	}
	p = append(p, ham84(c))
	for i := 0; i < 32; i++ {
		p = append(p, parityByte(' '))
	}
	return dataUnit(0x03, magazine, 0, p)
}

func rowPacket(magazine, row int, cells []byte) []byte {
	p := make([]byte, 40)
	for i := range p {
		c := byte(' ')
		if i < len(cells) {
			c = cells[i]
		}
		p[i] = parityByte(c)
	}
	return dataUnit(0x03, magazine, row, p)
}

// ---- ground truth ---------------------------------------------------------------------------------

type ttxRun struct {
	Text  string // over the G0 set, as Unicode after national option substitution
	Color int    // 0..7, -1 none
	Size  int    // 0xc..0xf, 0 none
}
type ttxRow struct {
	Row   int
	Runs  []ttxRun
	cells []byte // the 40 transmitted character codes
}
type ttxInstance struct {
	Charset int   // national option bits of this instance's header
	PTS     int64 // ms
	Rows    []ttxRow
	Erase   bool // header only: ends the previous instance, produces no cue
}
type ttxSchedule struct {
	Magazine, Page int
	Charset        int // 0 English, 1 French, 4 German
	Serial         bool
	Instances      []ttxInstance
	PID            uint16
	Events         []string
}

var g0National = map[int]map[byte]string{
	0: {0x23: "£", 0x24: "$", 0x40: "@", 0x5b: "←", 0x5c: "½", 0x5d: "→", 0x5e: "↑", 0x5f: "#", 0x60: "—", 0x7b: "¼", 0x7c: "‖", 0x7d: "¾", 0x7e: "÷"}, // ETS 300 706 Table 36, English
	1: {0x23: "é", 0x24: "ï", 0x40: "à", 0x5b: "ë", 0x5c: "ê", 0x5d: "ù", 0x5e: "î", 0x5f: "#", 0x60: "è", 0x7b: "â", 0x7c: "ô", 0x7d: "û", 0x7e: "ç"},
	7: {0x23: "£", 0x24: "$", 0x40: "@", 0x5c: "½", 0x5f: "#", 0x7b: "¼", 0x7d: "¾", 0x7e: "÷"}, // no national option: the Latin G0 table as it stands
	4: {0x23: "#", 0x24: "$", 0x40: "§", 0x5b: "Ä", 0x5c: "Ö", 0x5d: "Ü", 0x5e: "^", 0x5f: "_", 0x60: "°", 0x7b: "ä", 0x7c: "ö", 0x7d: "ü", 0x7e: "ß"},
}
var englishAmbiguous = map[byte]bool{0x5b: true, 0x5d: true, 0x5e: true, 0x60: true, 0x7c: true}

func g0Char(charset int, c byte) string {
	if s, ok := g0National[charset][c]; ok {
		return s
	}
	if c == 0x7f {
		return "■"
	}
	return string(rune(c))
}

// a row: optional leading junk outside the box, start box, runs separated by colour/size codes, end box
func randTtxRow(r *rng, row, charset int) ttxRow {
	tr := ttxRow{Row: row}
	var cells []byte
	for k := 0; k < r.intn(3); k++ {
		cells = append(cells, r.pick(" ", "x", "y", "\x0d")[0]) // unboxed: never shown
	}
	cells = append(cells, 0x0b)
	if r.chance(1, 2) {
		cells = append(cells, 0x0b)
	}
	nr := 1 + r.intn(3)
	curColor := -1
	for k := 0; k < nr; k++ {
		run := ttxRun{Color: -1}
		if k > 0 || r.chance(1, 2) {
			if r.chance(2, 3) {
				// a colour code that changes the colour (a repeated identical code does not start a new run)
				run.Color = r.intn(8)
				if run.Color == curColor {
					run.Color = (run.Color + 1) % 8
				}
				curColor = run.Color
				cells = append(cells, byte(run.Color))
			} else {
				run.Size = 0xc + r.intn(4)
				cells = append(cells, byte(run.Size))
			}
		}
		n := 1 + r.intn(7)
		var sb strings.Builder
		for i := 0; i < n && len(cells) < 36; i++ {
			var c byte
			switch r.intn(6) {
			case 0:
				c = ' '
			case 1: // a national option position
				pos := []byte{0x23, 0x24, 0x40, 0x5b, 0x5c, 0x5d, 0x5e, 0x5f, 0x60, 0x7b, 0x7c, 0x7d, 0x7e}
				c = pos[r.intn(len(pos))]
				if charset == 7 && englishAmbiguous[c] { // option-less code 7: the library's Latin table as it stands, not the standard's business
					c = 'e'
				}
			default:
				const alpha = "abcdefghijklmnopqrstuvwxyzABCDEFXYZ0123456789.,!?'-"
				c = alpha[r.intn(len(alpha))]
			}
			cells = append(cells, c)
			sb.WriteString(g0Char(charset, c))
		}
		run.Text = strings.TrimSpace(sb.String())
		if run.Text != "" {
			tr.Runs = append(tr.Runs, run)
		}
	}
	if r.chance(2, 3) {
		cells = append(cells, 0x0a)
		for k := 0; k < r.intn(3) && len(cells) < 40; k++ {
			cells = append(cells, 'z') // after the end-box code: never shown
		}
	}
	tr.cells = cells
	return tr
}

type ttxMux struct {
	x28            bool // X/28 and M/29 enhancement packets (format 1, all-zero triplet: default character set)
	unitsPerPES    int
	distractors    bool
	stuffing       bool
	enhancement    bool // X/26..X/30, M/29 packets
	otherPID       bool
	parityErrors   bool
	truncatedUnits bool
}

// builds the transport stream; returns the bytes and the expected cues (start, end in ns; lines of runs)
type ttxCue struct {
	Start, End int64
	Lines      [][]ttxRun
}

func buildTS(r *rng, sch *ttxSchedule, mux ttxMux) ([]byte, []ttxCue, error) {
	var out bytes.Buffer
	m := astits.NewMuxer(context.Background(), &out)
	pid := sch.PID
	desc := &astits.Descriptor{Tag: astits.DescriptorTagTeletext, Teletext: &astits.DescriptorTeletext{Items: []*astits.DescriptorTeletextItem{{Language: []byte("eng"), Type: 2, Magazine: uint8(sch.Magazine & 7), Page: uint8(sch.Page/10<<4 | sch.Page%10)}}}}
	desc.Length = 5
	if mux.otherPID {
		// a video-ish stream first, without teletext descriptor
		if err := m.AddElementaryStream(astits.PMTElementaryStream{ElementaryPID: pid + 10, StreamType: astits.StreamTypeMPEG2Audio}); err != nil {
			return nil, nil, err
		}
	}
	if err := m.AddElementaryStream(astits.PMTElementaryStream{ElementaryPID: pid, StreamType: astits.StreamTypePrivateData, ElementaryStreamDescriptors: []*astits.Descriptor{desc}}); err != nil {
		return nil, nil, err
	}
	m.SetPCRPID(pid)
	if _, err := m.WriteTables(); err != nil {
		return nil, nil, err
	}
	// one stream in three carries some PES packets without PTS: their presentation time is then the PCR of the
	// adaptation field of their first TS packet (same instant)
	pcrStream := r.chance(1, 3)
	writePES := func(p uint16, pts int64, data []byte) error {
		d := &astits.MuxerData{PID: p, PES: &astits.PESData{
			Header: &astits.PESHeader{StreamID: astits.StreamIDPrivateStream1, OptionalHeader: &astits.PESOptionalHeader{
				MarkerBits: 2, PTSDTSIndicator: astits.PTSDTSIndicatorOnlyPTS, PTS: &astits.ClockReference{Base: pts * 90}}},
			Data: data}}
		if pcrStream && p == pid && r.chance(1, 2) {
			d.PES.Header.OptionalHeader = &astits.PESOptionalHeader{MarkerBits: 2, PTSDTSIndicator: astits.PTSDTSIndicatorNoPTSOrDTS}
			d.AdaptationField = &astits.PacketAdaptationField{HasPCR: true, PCR: &astits.ClockReference{Base: pts * 90}}
		}
		_, err := m.WriteData(d)
		return err
	}
	hopts := ttxHeaderOpts{subtitle: true, serial: sch.Serial, charset: sch.Charset}
	var cues []ttxCue
	var firstPTS, lastPTS int64 = -1, 0
	type open struct {
		start int64
		rows  []ttxRow
	}
	var cur *open
	closeCur := func(end int64) {
		if cur != nil {
			if len(cur.rows) > 0 {
				c := ttxCue{Start: cur.start, End: end}
				// rows in row order
				rows := append([]ttxRow{}, cur.rows...)
				for i := range rows {
					for j := i + 1; j < len(rows); j++ {
						if rows[j].Row < rows[i].Row {
							rows[i], rows[j] = rows[j], rows[i]
						}
					}
				}
				for _, rw := range rows {
					if len(rw.Runs) > 0 {
						c.Lines = append(c.Lines, rw.Runs)
					}
				}
				cues = append(cues, c)
			}
			cur = nil
		}
	}
	for _, inst := range sch.Instances {
		if firstPTS < 0 {
			firstPTS = inst.PTS
		}
		lastPTS = inst.PTS
		var units [][]byte
		if mux.stuffing {
			units = append(units, append([]byte{0xff, 0x2c}, bytes.Repeat([]byte{0xff}, 44)...))
		}
		if mux.distractors && r.chance(1, 2) {
			// another page of another magazine, before our header (parallel mode: does not end reception;
			// in serial mode it is sent before our header so nothing of ours is open... unless an instance is)
			om := sch.Magazine%7 + 1
			if !sch.Serial {
				units = append(units, headerPacket(om, 11, ttxHeaderOpts{subtitle: false, serial: false}), rowPacket(om, 3, []byte("\x0bOTHER MAGAZINE\x0a")))
			}
		}
		o := hopts
		o.erase = inst.Erase
		o.charset = inst.Charset
		units = append(units, headerPacket(sch.Magazine, sch.Page, o))
		closeCur(inst.PTS)
		cur = &open{start: inst.PTS}
		for _, rw := range inst.Rows {
			cells := rw.cells
			if mux.parityErrors && r.chance(1, 4) && len(cells) > 3 {
				// handled below by corrupting the encoded byte; the expected text loses that character
			}
			units = append(units, rowPacket(sch.Magazine, rw.Row, cells))
			cur.rows = append(cur.rows, rw)
			if mux.enhancement && r.chance(1, 3) {
				units = append(units, dataUnit(0x03, sch.Magazine, 26, []byte{ham84(0)}))
			}
		}
		if mux.enhancement && r.chance(1, 2) {
			units = append(units, dataUnit(0x03, 8, 30, []byte{ham84(0)}))
		}
		if mux.x28 {
			// X/28/0 format 1 and M/29/0 whose first triplet (Hamming 24/18) designates the default G0 set
			def := append([]byte{ham84(0)}, tripletBytes(ham2418Word(0))...)
			units = append(units, dataUnit(0x03, sch.Magazine, 28, def), dataUnit(0x03, sch.Magazine, 29, def))
			if r.chance(1, 2) {
				units = append(units, dataUnit(0x03, sch.Magazine, 28, append([]byte{ham84(4)}, tripletBytes(ham2418Word(uint32(r.intn(8))<<7)^1<<uint(r.intn(24)))...)),
					dataUnit(0x03, sch.Magazine, 29, append([]byte{ham84(1)}, tripletBytes(ham2418Word(uint32(r.intn(1<<18))))...)))
			}
		}
		if mux.distractors && r.chance(1, 2) {
			// a non-subtitle data unit and a unit with a wrong framing code
			units = append(units, append([]byte{0x02, 0x2c}, bytes.Repeat([]byte{0x55}, 44)...))
			bad := rowPacket(sch.Magazine, 5, []byte("\x0bBAD FRAMING\x0a"))
			bad[3] = 0x27
			units = append(units, bad)
		}
		// pack units into PES packets of unitsPerPES units; all units of one instance share its PTS
		per := mux.unitsPerPES
		if per <= 0 {
			per = len(units)
		}
		for i := 0; i < len(units); i += per {
			j := i + per
			if j > len(units) {
				j = len(units)
			}
			data := []byte{0x10}
			for _, u := range units[i:j] {
				data = append(data, u...)
			}
			if err := writePES(pid, inst.PTS, data); err != nil {
				return nil, nil, err
			}
		}
		if mux.otherPID {
			junk := []byte{0x10}
			junk = append(junk, headerPacket(sch.Magazine, sch.Page, hopts)...)
			junk = append(junk, rowPacket(sch.Magazine, 2, []byte("\x0bOTHER PID\x0a"))...)
			if err := writePES(pid+10, inst.PTS, junk); err != nil {
				return nil, nil, err
			}
		}
		// a later page header of another page in the same magazine terminates reception: rows sent after it are dropped
		if mux.distractors && r.chance(1, 3) {
			data := []byte{0x10}
			data = append(data, headerPacket(sch.Magazine, (sch.Page+1)%100, ttxHeaderOpts{serial: sch.Serial})...)
			data = append(data, rowPacket(sch.Magazine, 7, []byte("\x0bNOT OURS\x0a"))...)
			if err := writePES(pid, inst.PTS, data); err != nil {
				return nil, nil, err
			}
		}
	}
	closeCur(lastPTS)
	for i := range cues {
		cues[i].Start = (cues[i].Start - firstPTS) * 1e6
		cues[i].End = (cues[i].End - firstPTS) * 1e6
	}
	return out.Bytes(), cues, nil
}

func randSchedule(r *rng) *ttxSchedule {
	sch := &ttxSchedule{Magazine: 1 + r.intn(8), Page: r.intn(100), Charset: []int{0, 1, 4, 7}[r.intn(4)], Serial: r.chance(1, 2), PID: uint16(256 + r.intn(20))}
	perInstance := r.chance(1, 3)
	if sch.Magazine == 8 {
		// magazine 8 is transmitted as 0
	}
	n := 1 + r.intn(5)
	pts := int64(1000 + r.intn(5000))
	for i := 0; i < n; i++ {
		inst := ttxInstance{PTS: pts, Charset: sch.Charset}
		if perInstance {
			inst.Charset = []int{0, 1, 4, 7}[r.intn(4)]
		}
		pts += int64(200 + r.intn(4000))
		if r.chance(1, 5) {
			inst.Erase = true
		} else {
			used := map[int]bool{}
			for k := 0; k < 1+r.intn(4); k++ {
				row := 1 + r.intn(24)
				if used[row] {
					continue
				}
				used[row] = true
				inst.Rows = append(inst.Rows, randTtxRow(r, row, inst.Charset))
			}
		}
		sch.Instances = append(sch.Instances, inst)
	}
	return sch
}

func ttxCuesFromSubs(s *astisub.Subtitles) []ttxCue {
	var out []ttxCue
	for _, it := range s.Items {
		c := ttxCue{Start: int64(it.StartAt), End: int64(it.EndAt)}
		for _, l := range it.Lines {
			var runs []ttxRun
			for _, li := range l.Items {
				runs = append(runs, ttxRun{Text: li.Text, Color: -1})
			}
			c.Lines = append(c.Lines, runs)
		}
		out = append(out, c)
	}
	return out
}

func ttxCuesEqual(got, want []ttxCue) string {
	if len(got) != len(want) {
		return fmt.Sprintf("%d cues, want %d", len(got), len(want))
	}
	for i := range want {
		if got[i].Start != want[i].Start || got[i].End != want[i].End {
			return fmt.Sprintf("cue %d: [%d,%d) ms, want [%d,%d) ms", i+1, got[i].Start/1e6, got[i].End/1e6, want[i].Start/1e6, want[i].End/1e6)
		}
		if len(got[i].Lines) != len(want[i].Lines) {
			return fmt.Sprintf("cue %d: %d lines, want %d", i+1, len(got[i].Lines), len(want[i].Lines))
		}
		for l := range want[i].Lines {
			var g, w []string
			for _, ru := range got[i].Lines[l] {
				g = append(g, ru.Text)
			}
			for _, ru := range want[i].Lines[l] {
				w = append(w, ru.Text)
			}
			if strings.Join(g, "|") != strings.Join(w, "|") {
				return fmt.Sprintf("cue %d line %d: runs %q, want %q", i+1, l+1, g, w)
			}
		}
	}
	return ""
}

func init() {
	tsSampleDocsFn = func(r *rng) []sampleDoc {
		var docs []sampleDoc
		for i := 0; i < 6; i++ {
			sch := randSchedule(r)
			ts, _, err := buildTS(r, sch, ttxMux{unitsPerPES: r.intn(4), distractors: i%2 == 0, stuffing: i%3 == 0, enhancement: false})
			if err == nil {
				docs = append(docs, sampleDoc{"ts", fmt.Sprintf("ts-%d", i), ts})
			}
		}
		return docs
	}
}

func suiteTeletext(R *runner, r *rng) {
	R.rule("teletext: ground-truth page schedules (1..5 instances of one page, 1..4 rows at rows 1..24, boxed text over G0 incl. the national option positions of the English/French/German sets and of the option-less code 7, the national option changing between instances and between successive reads of the same process, colour and size codes, unboxed junk, erase pages) x multiplexing (1..3 units per PES or one PES per instance, distractor pages in other magazines and a later page of the same magazine, stuffing / non-subtitle / wrong-framing units, X/26 and 8/30 packets, a second PID without teletext descriptor, PES packets without PTS timed by the PCR of their first TS packet) x reader options (page given or auto-detected, PID given or auto-detected), muxed with the astits muxer and the harness's own Hamming 8/4 / parity / bit-order encoder; oracle: cues (start = PTS of the instance's header, end = PTS of the next header / last PTS, relative to the first PTS; boxed text of the rows in row order split at colour/size codes); non-trivial = at least one cue expected")
	// self-test of the encoder against the library's decoding tables is implicit: a wrong code yields no text
	N := 300
	if R.tier == "thorough" {
		N = 6000
	}
	for c := 0; c < N; c++ {
		sch := randSchedule(r)
		mux := ttxMux{unitsPerPES: r.intn(4), distractors: r.chance(1, 2), stuffing: r.chance(1, 3), enhancement: r.chance(1, 3), otherPID: r.chance(1, 4), x28: r.chance(1, 4)}
		ts, want, err := buildTS(r, sch, mux)
		if err != nil {
			R.note("muxer error: " + err.Error())
			continue
		}
		opts := astisub.TeletextOptions{}
		if r.chance(1, 2) {
			opts.Page = sch.Magazine*100 + sch.Page
		}
		if r.chance(1, 2) {
			opts.PID = int(sch.PID)
		}
		var s *astisub.Subtitles
		var rerr error
		res := guarded(func() { s, rerr = astisub.ReadFromTeletext(bytes.NewReader(ts), opts) }, 10e9)
		h := map[string]interface{}{"magazine": sch.Magazine, "page": sch.Page, "charset": sch.Charset, "serial": sch.Serial, "instances": len(sch.Instances), "mux": fmt.Sprintf("%+v", mux), "options": fmt.Sprintf("%+v", opts), "ts_len": len(ts), "expected_cues": want}
		o := &obs{Suite: "ttx", Group: "ttx.stream", NoModel: true, NT: len(want) > 0, Input: fmt.Sprintf("ttx %d %s", c, hashBytes(ts)), Human: h}
		switch {
		case res != "":
			o.Oracle, o.Sig = "ReadFromTeletext: "+res, "ttx-panic"+siteOf(res)
		case rerr != nil:
			o.Oracle, o.Sig = "ReadFromTeletext failed on a well-formed stream: "+rerr.Error(), "ttx-error"
		default:
			if m := ttxCuesEqual(ttxCuesFromSubs(s), want); m != "" {
				o.Oracle, o.Sig = "teletext reader: "+m, "ttx-value"
			}
		}
		R.add(o)
	}
}

// transport streams whose packet/table layer is valid but whose PES payloads, data units and teletext
// packets are malformed (C08)
func hostileTS(r *rng) ([]byte, string) {
	var out bytes.Buffer
	m := astits.NewMuxer(context.Background(), &out)
	pid := uint16(256)
	desc := &astits.Descriptor{Tag: astits.DescriptorTagTeletext, Length: 5, Teletext: &astits.DescriptorTeletext{Items: []*astits.DescriptorTeletextItem{{Language: []byte("eng"), Type: 2, Magazine: 1, Page: 0}}}}
	if r.chance(1, 6) {
		desc = &astits.Descriptor{Tag: astits.DescriptorTagVBITeletext, Length: 5, VBITeletext: desc.Teletext}
	}
	m.AddElementaryStream(astits.PMTElementaryStream{ElementaryPID: pid, StreamType: astits.StreamTypePrivateData, ElementaryStreamDescriptors: []*astits.Descriptor{desc}})
	m.SetPCRPID(pid)
	m.WriteTables()
	var desc2 []string
	cut := func(u []byte) []byte {
		// shorten the unit and make the length byte agree (or not)
		n := 2 + r.intn(len(u)-1)
		v := append([]byte{}, u[:n]...)
		if r.chance(2, 3) && n >= 2 {
			v[1] = byte(n - 2)
		}
		return v
	}
	for i := 0; i < 1+r.intn(5); i++ {
		var data []byte
		kind := r.intn(9)
		desc2 = append(desc2, fmt.Sprint(kind))
		hdr := headerPacket(1, 0, ttxHeaderOpts{subtitle: true, serial: r.chance(1, 2)})
		row := rowPacket(1, 1+r.intn(24), []byte("\x0bhello\x0a"))
		switch kind {
		case 0:
			data = []byte{0x10}
		case 1:
			data = []byte{0x10, 0x03}
		case 2:
			data = append([]byte{0x10}, cut(hdr)...)
		case 3:
			data = append(append([]byte{0x10}, hdr...), cut(row)...)
		case 4:
			data = append(append([]byte{0x10}, hdr...), cut(dataUnit(0x03, 1, 28, []byte{ham84(0)}))...)
		case 5:
			data = append(append([]byte{0x10}, hdr...), cut(dataUnit(0x03, 1, 29, []byte{ham84(0)}))...)
		case 6:
			data = append(append([]byte{0x10}, hdr...), cut(dataUnit(0x03, 8, 30, []byte{ham84(2)}))...)
		case 7:
			data = append(append(append([]byte{0x10}, hdr...), row...), 0x03, 0xff, 0x00)
		default:
			data = append(append([]byte{byte(r.intn(256))}, hdr...), row...)
			for k := 0; k < 3; k++ {
				data[1+r.intn(len(data)-1)] = byte(r.intn(256))
			}
		}
		hdrPES := &astits.PESHeader{StreamID: astits.StreamIDPrivateStream1, OptionalHeader: &astits.PESOptionalHeader{MarkerBits: 2, PTSDTSIndicator: astits.PTSDTSIndicatorOnlyPTS, PTS: &astits.ClockReference{Base: int64(90000 * (i + 1))}}}
		if r.chance(1, 8) {
			hdrPES.OptionalHeader = &astits.PESOptionalHeader{MarkerBits: 2} // no PTS
		}
		safely(func() { m.WriteData(&astits.MuxerData{PID: pid, PES: &astits.PESData{Header: hdrPES, Data: data}}) })
	}
	return out.Bytes(), strings.Join(desc2, ",")
}
