package main

// C01 SubRip: ground-truth cue lists, renderings with every syntactic freedom the property lists,
// an independent SubRip decoder, and the correspondence with the Coq model (reader values, writer bytes,
// line-level text parser).

import (
	"bytes"
	"fmt"
	"regexp"
	"strconv"
	"strings"
	"time"
	"unicode"
	"unicode/utf8"

	astisub "github.com/asticode/go-astisub"
)

type srtStyle struct {
	B, I, U bool
	Color   string // "" = none
}
type srtRun struct {
	Text string
	St   srtStyle
}
type srtCue struct {
	Start, End int64 // ns, multiples of 1 ms
	Lines      [][]srtRun
}

// canonical styled text: per line the sequence of (rune, style)
type styledRune struct {
	R  rune
	St srtStyle
}

func canonSrt(c srtCue) [][]styledRune {
	var out [][]styledRune
	for _, l := range c.Lines {
		var ln []styledRune
		for _, r := range l {
			for _, ru := range r.Text {
				ln = append(ln, styledRune{ru, r.St})
			}
		}
		out = append(out, ln)
	}
	return out
}

func cuesEqual(a, b []srtCue) string {
	if len(a) != len(b) {
		return fmt.Sprintf("%d cues, want %d", len(a), len(b))
	}
	for i := range a {
		if a[i].Start != b[i].Start || a[i].End != b[i].End {
			return fmt.Sprintf("cue %d: times [%d,%d) ms, want [%d,%d) ms", i+1, a[i].Start/1e6, a[i].End/1e6, b[i].Start/1e6, b[i].End/1e6)
		}
		ca, cb := canonSrt(a[i]), canonSrt(b[i])
		if len(ca) != len(cb) {
			return fmt.Sprintf("cue %d: %d text lines, want %d", i+1, len(ca), len(cb))
		}
		for l := range ca {
			if len(ca[l]) != len(cb[l]) {
				return fmt.Sprintf("cue %d line %d: text %q, want %q", i+1, l+1, runesOf(ca[l]), runesOf(cb[l]))
			}
			for k := range ca[l] {
				if ca[l][k] != cb[l][k] {
					if ca[l][k].R != cb[l][k].R {
						return fmt.Sprintf("cue %d line %d: text %q, want %q", i+1, l+1, runesOf(ca[l]), runesOf(cb[l]))
					}
					return fmt.Sprintf("cue %d line %d: markup of %q at rune %d is %+v, want %+v", i+1, l+1, runesOf(ca[l]), k, ca[l][k].St, cb[l][k].St)
				}
			}
		}
	}
	return ""
}

func runesOf(l []styledRune) string {
	var b strings.Builder
	for _, r := range l {
		b.WriteRune(r.R)
	}
	return b.String()
}

// ---- text generation ---------------------------------------------------------------------------

var textPalette = []string{
	"a", "b", "e", "z", "A", "Q", "0", "7", " ", " ", " ", ".", ",", "!", "?", "'", "\"", "-", "&", "<", ">", ";", ":", "/", "#", "{", "}", "\\", "=",
	"é", "ü", "ß", "ñ", "Ω", "ж", "中", "文", "あ", "한", "ع", "😀", "𝄞", " ", "́", "​", "…", "–", "amp;", "&amp;", "lt;", "nbsp", "<3", "a<b", "->", "--",
}

func randText(r *rng, maxLen int) string {
	n := 1 + r.intn(maxLen)
	var b strings.Builder
	for i := 0; i < n; i++ {
		b.WriteString(textPalette[r.intn(len(textPalette))])
	}
	return b.String()
}

func isBlank(s string) bool { return strings.TrimSpace(s) == "" }

// a line of runs that the format can represent: no run blank, no white space at the line's ends,
// no "-->" anywhere, adjacent runs differ in style
func randSrtLine(r *rng, styled bool, colors []string) []srtRun {
	nr := 1 + r.intn(3)
	var runs []srtRun
	for k := 0; k < nr; k++ {
		var st srtStyle
		if styled {
			st = srtStyle{r.chance(1, 3), r.chance(1, 3), r.chance(1, 4), ""}
			if r.chance(1, 3) {
				st.Color = colors[r.intn(len(colors))]
			}
		}
		if k > 0 && runs[k-1].St == st {
			st.B = !st.B
		}
		t := randText(r, 6)
		for isBlank(t) || strings.Contains(t, "-->") {
			t = randText(r, 6) + "x"
		}
		runs = append(runs, srtRun{t, st})
	}
	// trim the ends of the line
	runs[0].Text = strings.TrimLeftFunc(runs[0].Text, unicode.IsSpace)
	runs[len(runs)-1].Text = strings.TrimRightFunc(runs[len(runs)-1].Text, unicode.IsSpace)
	var out []srtRun
	for _, ru := range runs {
		if !isBlank(ru.Text) {
			out = append(out, ru)
		}
	}
	if len(out) == 0 {
		out = []srtRun{{"x", runs[0].St}}
	}
	out[0].Text = strings.TrimLeftFunc(out[0].Text, unicode.IsSpace)
	out[len(out)-1].Text = strings.TrimRightFunc(out[len(out)-1].Text, unicode.IsSpace)
	// "-->" must not appear across run boundaries either
	joined := ""
	for _, ru := range out {
		joined += ru.Text
	}
	if strings.Contains(joined, "-->") || strings.Contains(joined, "--") && strings.Contains(joined, ">") {
		for i := range out {
			out[i].Text = strings.ReplaceAll(out[i].Text, "-", "~")
		}
	}
	return out
}

var srtColors = []string{"#ff0000", "red", "#00FF7f", "rgb(1, 2, 3)", "yellow"}

// colours on the boundary of the markup tokenizer model's faithful domain (Kit.Html.html_simple): the writer puts a
// colour between the quotes unescaped, the reader's HTML tokenizer unescapes character references inside attribute
// values ("&amp;" comes back as "&").  Such colours are not font-colour markup in the sense of the property's
// quantifier; the theorems exclude them (col_ok) and the suites use them only for the comparison of result classes.
var srtColorsAmp = []string{"&amp;", "a&b", "&lt;", "#ff&#48;000"}

func randSrtCues(r *rng, maxCues int, styled bool) []srtCue {
	return randSrtCuesWith(r, maxCues, styled, srtColors)
}

// used by the C01 suites only: for one cue list in eight, one colour in six is taken from srtColorsAmp
func randSrtCuesDomain(r *rng, maxCues int, styled bool) []srtCue {
	if !r.chance(1, 8) {
		return randSrtCuesWith(r, maxCues, styled, srtColors)
	}
	return randSrtCuesWith(r, maxCues, styled, append(append([]string{}, srtColors...), srtColorsAmp[r.intn(len(srtColorsAmp))]))
}

// a colour with '&' or a double quote: outside the faithful domain of the tokenizer model
func srtCuesColourAmp(cues []srtCue) bool {
	for _, c := range cues {
		for _, l := range c.Lines {
			for _, ru := range l {
				if strings.ContainsAny(ru.St.Color, "&\"") {
					return true
				}
			}
		}
	}
	return false
}

// raw-text elements of the HTML tokenizer (everything up to the matching end tag is text): never font-colour or
// emphasis markup of a SubRip cue; outside the faithful domain of the tokenizer model
var srtRawTextLines = []string{"<script>x<b>y", "<title>t", "<style>s</style>", "a<textarea>q<i>w", "<SCRIPT>1</script><u>2", "<xmp><b>", "<i>k<noscript>z</i>"}

// inserts one raw-text line as the first text line of a randomly chosen cue of a rendered document
func injectRawTextLine(r *rng, doc, eol string) (string, bool) {
	ls := strings.Split(doc, eol)
	var at []int
	for i, l := range ls {
		if strings.Contains(l, "-->") {
			at = append(at, i)
		}
	}
	if len(at) == 0 {
		return doc, false
	}
	k := at[r.intn(len(at))]
	out := append([]string{}, ls[:k+1]...)
	out = append(out, srtRawTextLines[r.intn(len(srtRawTextLines))])
	out = append(out, ls[k+1:]...)
	return strings.Join(out, eol), true
}

func randSrtCuesWith(r *rng, maxCues int, styled bool, colors []string) []srtCue {
	n := r.intn(maxCues + 1)
	var cues []srtCue
	var t int64
	for i := 0; i < n; i++ {
		var c srtCue
		switch r.intn(5) {
		case 0:
			c.Start = r.i64n(360_000_000) * 1e6
		default:
			t += r.i64n(5000) * 1e6
			c.Start = t
		}
		c.End = c.Start + r.i64n(8000)*1e6
		if c.End >= 360_000_000*1e6 {
			c.End = 360_000_000*1e6 - 1e6
		}
		if c.Start > c.End {
			c.Start = c.End
		}
		nl := 1 + r.intn(3)
		for l := 0; l < nl; l++ {
			c.Lines = append(c.Lines, randSrtLine(r, styled && r.chance(2, 3), colors))
		}
		cues = append(cues, c)
	}
	return cues
}

// ---- rendering ---------------------------------------------------------------------------------

type srtRendering struct {
	EOL       string
	BOM       bool
	EOFBlanks int
	desc      []string
}

func fmtStamp(r *rng, ns int64, sep string) string {
	ms := ns / 1e6
	h, m, s, f := ms/3600000, ms/60000%60, ms/1000%60, ms%1000
	frac := fmt.Sprintf("%03d", f)
	// 1-3 fraction digits when the value allows it
	if f%100 == 0 && r.chance(1, 2) {
		frac = fmt.Sprintf("%01d", f/100)
	} else if f%10 == 0 && r.chance(1, 2) {
		frac = fmt.Sprintf("%02d", f/10)
	}
	hs := fmt.Sprintf("%02d", h)
	if r.chance(1, 6) {
		hs = fmt.Sprintf("%d", h)
	}
	return fmt.Sprintf("%s:%02d:%02d%s%s", hs, m, s, sep, frac)
}

func escSrt(r *rng, s string, edge bool) string {
	var b strings.Builder
	rs := []rune(s)
	for i, ru := range rs {
		switch ru {
		case '&':
			b.WriteString("&amp;")
		case '<':
			b.WriteString("&lt;")
		case ' ':
			if (edge && (i == 0 || i == len(rs)-1)) || r.chance(1, 2) {
				b.WriteString("&nbsp;")
			} else {
				b.WriteRune(ru)
			}
		default:
			b.WriteRune(ru)
		}
	}
	return b.String()
}

func caseTag(r *rng, t string) string {
	if r.chance(1, 5) {
		return strings.ToUpper(t)
	}
	return t
}

func fontOpen(r *rng, color string) string {
	q := `"`
	if r.chance(1, 4) {
		q = "'"
	}
	if r.chance(1, 5) && !strings.ContainsAny(color, " (),") {
		q = ""
	}
	extra := ""
	if r.chance(1, 6) {
		extra = ` face="Arial"`
	}
	sp := ""
	if r.chance(1, 8) && q != "" {
		sp = " "
	}
	return "<" + caseTag(r, "font") + extra + " " + caseTag(r, "color") + sp + "=" + sp + q + color + q + ">"
}

// renders the text lines of one cue; the running markup state starts empty and may be left open
func renderSrtText(r *rng, lines [][]srtRun) []string {
	var cur srtStyle
	var out []string
	for li, l := range lines {
		var b strings.Builder
		for ri, run := range l {
			want := run.St
			// closers first, then openers; order varies
			if cur.Color != "" && cur.Color != want.Color {
				if want.Color == "" || r.chance(1, 2) {
					b.WriteString("</" + caseTag(r, "font") + ">")
				}
				cur.Color = ""
			}
			if cur.B && !want.B {
				b.WriteString("</" + caseTag(r, "b") + ">")
			}
			if cur.I && !want.I {
				b.WriteString("</i>")
			}
			if cur.U && !want.U {
				b.WriteString("</u>")
			}
			if want.Color != "" && cur.Color != want.Color {
				b.WriteString(fontOpen(r, want.Color))
			}
			if !cur.B && want.B {
				b.WriteString("<" + caseTag(r, "b") + ">")
			}
			if !cur.I && want.I {
				b.WriteString("<i>")
			}
			if !cur.U && want.U {
				b.WriteString("<u>")
			}
			cur = want
			edge := ri == 0 || ri == len(l)-1
			b.WriteString(escSrt(r, run.Text, edge))
			// optionally close everything right after the run
			if r.chance(1, 3) {
				if cur.U {
					b.WriteString("</u>")
				}
				if cur.I {
					b.WriteString("</i>")
				}
				if cur.B {
					b.WriteString("</b>")
				}
				if cur.Color != "" {
					b.WriteString("</font>")
				}
				cur = srtStyle{}
			}
		}
		if li == len(lines)-1 && r.chance(1, 2) {
			// close what is still open at the end of the cue (otherwise left unterminated)
			if cur.U {
				b.WriteString("</u>")
			}
			if cur.I {
				b.WriteString("</i>")
			}
			if cur.B {
				b.WriteString("</b>")
			}
			if cur.Color != "" {
				b.WriteString("</font>")
			}
		}
		out = append(out, b.String())
	}
	return out
}

func renderSrt(r *rng, cues []srtCue) (string, srtRendering) {
	rd := srtRendering{EOL: r.pick("\n", "\r\n", "\r"), BOM: r.chance(1, 3), EOFBlanks: r.intn(4)}
	var lines []string
	for i, c := range cues {
		if i > 0 {
			for k := 0; k < 1+r.intn(3); k++ {
				lines = append(lines, "")
			}
		}
		switch r.intn(4) {
		case 0: // absent
		case 1: // garbage
			lines = append(lines, r.pick("x", "#12", "one", "1a", "-"))
		default:
			lines = append(lines, strconv.Itoa(i+1))
		}
		sep := r.pick(",", ",", ".")
		arrow := r.pick(" --> ", " --> ", "-->", "  -->  ", " -->", "\t-->\t")
		trail := ""
		if r.chance(1, 5) {
			trail = r.pick(" X1:40 X2:600 Y1:20 Y2:50", "  position:50%", " x", "\talign:start")
		}
		lines = append(lines, fmtStamp(r, c.Start, sep)+arrow+fmtStamp(r, c.End, sep)+trail)
		lines = append(lines, renderSrtText(r, c.Lines)...)
	}
	doc := strings.Join(lines, rd.EOL)
	if len(cues) > 0 {
		// the last text line may or may not be terminated; then 0..3 blank lines
		if rd.EOFBlanks > 0 || r.chance(1, 2) {
			doc += rd.EOL
		}
		for k := 0; k < rd.EOFBlanks; k++ {
			doc += rd.EOL
		}
	}
	if rd.BOM {
		doc = "\xef\xbb\xbf" + doc
	}
	return doc, rd
}

// ---- the library's view, projected --------------------------------------------------------------

func cuesFromSubs(s *astisub.Subtitles) []srtCue {
	var out []srtCue
	for _, it := range s.Items {
		c := srtCue{Start: int64(it.StartAt), End: int64(it.EndAt)}
		for _, l := range it.Lines {
			var runs []srtRun
			for _, li := range l.Items {
				var st srtStyle
				if li.InlineStyle != nil {
					st = srtStyle{B: li.InlineStyle.SRTBold, I: li.InlineStyle.SRTItalics, U: li.InlineStyle.SRTUnderline}
					if li.InlineStyle.SRTColor != nil {
						st.Color = *li.InlineStyle.SRTColor
					}
				}
				runs = append(runs, srtRun{li.Text, st})
			}
			c.Lines = append(c.Lines, runs)
		}
		out = append(out, c)
	}
	return out
}

func subsFromCues(cues []srtCue) *astisub.Subtitles {
	s := astisub.NewSubtitles()
	for _, c := range cues {
		it := &astisub.Item{StartAt: time.Duration(c.Start), EndAt: time.Duration(c.End)}
		for _, l := range c.Lines {
			var ln astisub.Line
			for _, ru := range l {
				li := astisub.LineItem{Text: ru.Text}
				if ru.St != (srtStyle{}) {
					sa := &astisub.StyleAttributes{SRTBold: ru.St.B, SRTItalics: ru.St.I, SRTUnderline: ru.St.U}
					if ru.St.Color != "" {
						col := ru.St.Color
						sa.SRTColor = &col
					}
					li.InlineStyle = sa
				}
				ln.Items = append(ln.Items, li)
			}
			it.Lines = append(it.Lines, ln)
		}
		s.Items = append(s.Items, it)
	}
	return s
}

// encoding of reader results / writer inputs for the model: items = idx st en lines(runs(text sty pos))
func encSrtItems(e *enc, s *astisub.Subtitles) {
	e.n(len(s.Items))
	for _, it := range s.Items {
		e.i(int64(it.Index)).i(int64(it.StartAt)).i(int64(it.EndAt))
		e.n(len(it.Lines))
		for _, l := range it.Lines {
			e.n(len(l.Items))
			for _, li := range l.Items {
				e.str(li.Text)
				if li.InlineStyle == nil {
					e.n(0)
				} else {
					e.n(1).bool(li.InlineStyle.SRTBold).bool(li.InlineStyle.SRTItalics).bool(li.InlineStyle.SRTUnderline)
					if li.InlineStyle.SRTColor == nil {
						e.n(0)
					} else {
						e.n(1).str(*li.InlineStyle.SRTColor)
					}
				}
				if li.InlineStyle != nil {
					e.n(int(li.InlineStyle.SRTPosition))
				} else {
					e.n(0)
				}
			}
		}
	}
}

// ---- independent SubRip decoder -----------------------------------------------------------------

var reSrtTiming = regexp.MustCompile(`^\s*(\d+):(\d+):(\d+)[,.](\d{1,3})\s*-->\s*(\d+):(\d+):(\d+)[,.](\d{1,3})(\s.*)?$`)
var reSrtTag = regexp.MustCompile(`(?i)^<\s*(/?)\s*(b|i|u|font)\b([^>]*)>`)
var reSrtColor = regexp.MustCompile(`(?i)color\s*=\s*(?:"([^"]*)"|'([^']*)'|([^\s>]+))`)

func decodeSrt(doc []byte) ([]srtCue, error) {
	doc = bytes.TrimPrefix(doc, []byte("\xef\xbb\xbf"))
	text := strings.ReplaceAll(strings.ReplaceAll(string(doc), "\r\n", "\n"), "\r", "\n")
	raw := strings.Split(text, "\n")
	var cues []srtCue
	i := 0
	stamp := func(h, m, s, f string) int64 {
		hh, _ := strconv.ParseInt(h, 10, 64)
		mm, _ := strconv.ParseInt(m, 10, 64)
		ss, _ := strconv.ParseInt(s, 10, 64)
		for len(f) < 3 {
			f += "0"
		}
		ff, _ := strconv.ParseInt(f, 10, 64)
		return ((hh*60+mm)*60+ss)*1e9 + ff*1e6
	}
	for i < len(raw) {
		for i < len(raw) && strings.TrimSpace(raw[i]) == "" {
			i++
		}
		if i >= len(raw) {
			break
		}
		// optional index line
		if !strings.Contains(raw[i], "-->") {
			if i+1 < len(raw) && strings.Contains(raw[i+1], "-->") {
				i++
			} else {
				return nil, fmt.Errorf("line %d: expected a timing line", i+1)
			}
		}
		m := reSrtTiming.FindStringSubmatch(raw[i])
		if m == nil {
			return nil, fmt.Errorf("line %d: bad timing line %q", i+1, raw[i])
		}
		c := srtCue{Start: stamp(m[1], m[2], m[3], m[4]), End: stamp(m[5], m[6], m[7], m[8])}
		i++
		var st srtStyle
		for i < len(raw) && strings.TrimSpace(raw[i]) != "" {
			// a following block may start without a blank line only if this line is a timing line: not produced by writers
			line := strings.TrimSpace(raw[i])
			var runs []srtRun
			var cur strings.Builder
			flush := func() {
				if cur.Len() > 0 {
					runs = append(runs, srtRun{cur.String(), st})
					cur.Reset()
				}
			}
			for len(line) > 0 {
				if line[0] == '<' {
					if tm := reSrtTag.FindStringSubmatch(line); tm != nil {
						flush()
						closing := tm[1] == "/"
						switch strings.ToLower(tm[2]) {
						case "b":
							st.B = !closing
						case "i":
							st.I = !closing
						case "u":
							st.U = !closing
						case "font":
							if closing {
								st.Color = ""
							} else if cm := reSrtColor.FindStringSubmatch(tm[3]); cm != nil {
								st.Color = cm[1] + cm[2] + cm[3]
							}
						}
						line = line[len(tm[0]):]
						continue
					}
				}
				if strings.HasPrefix(line, "&amp;") {
					cur.WriteByte('&')
					line = line[5:]
					continue
				}
				if strings.HasPrefix(line, "&lt;") {
					cur.WriteByte('<')
					line = line[4:]
					continue
				}
				if strings.HasPrefix(line, "&nbsp;") {
					cur.WriteString(" ")
					line = line[6:]
					continue
				}
				_, sz := utf8.DecodeRuneInString(line)
				cur.WriteString(line[:sz])
				line = line[sz:]
			}
			flush()
			c.Lines = append(c.Lines, runs)
			i++
		}
		cues = append(cues, c)
	}
	return cues, nil
}

// ---- suites -------------------------------------------------------------------------------------

func srtReadObs(doc string, want []srtCue, group string, human map[string]interface{}) *obs {
	o := &obs{Suite: "srtread", Group: group, Input: (&enc{}).str(doc).String(), Human: human}
	var s *astisub.Subtitles
	var err error
	p := safely(func() { s, err = astisub.ReadFromSRT(strings.NewReader(doc)) })
	switch {
	case p != "":
		o.Impl, o.Oracle, o.Sig = "2", "ReadFromSRT panicked: "+p, "srt-read-panic"
	case err != nil:
		o.Impl = "1"
		if want != nil {
			o.Oracle, o.Sig = "ReadFromSRT rejects a well-formed document: "+err.Error(), "srt-read-reject"
		}
	default:
		e := &enc{}
		e.n(0)
		encSrtItems(e, s)
		o.Impl = e.String()
		if want != nil {
			if m := cuesEqual(cuesFromSubs(s), want); m != "" {
				o.Oracle = "reader: " + m
				o.Sig = "srt-read-value"
			}
		}
	}
	return o
}

func suiteSrt(R *runner, r *rng) {
	R.rule("srt: ground-truth cue lists (0..6 cues, times below 100 h at 1 ms, 1..3 lines, 1..3 styled runs over a Unicode palette incl. & < nbsp, combining marks, non-BMP) x renderings (EOL LF/CRLF/CR, BOM, index present/absent/garbage, 1..3 blank lines between cues, 0..3 at EOF, ',' or '.', 1-3 fraction digits, spacing around -->, trailing coordinates, tags closed per run / left open / spanning lines, upper-case tags, quoting styles); reader vs ground truth (oracle) and vs the Coq model; writer bytes vs the Coq model, decoded by the independent decoder and by the reader; line-level parseTextSrt vs the model on hostile markup; boundary of the tokenizer model's faithful domain (colours with '&', raw-text elements script/title/style/...: result class only, no ground-truth oracle; counters srt.domain.*); non-trivial = at least one cue")
	N := 1200
	if R.tier == "thorough" {
		N = 25000
	}
	// reader
	for c := 0; c < N; c++ {
		cues := randSrtCuesDomain(r, 6, c%3 != 0)
		doc, rd := renderSrt(r, cues)
		// Boundary of the faithful domain.  A colour with '&' and a raw-text element line are not markup the property
		// quantifies over (the ground truth of such a document is not defined by the property): no ground-truth oracle,
		// and the model comparison is by result class only (the driver answers NS because html_simple fails).
		want := cues
		if srtCuesColourAmp(cues) {
			want = nil
			R.count("srt.domain.colour_amp")
		}
		if r.chance(1, 20) {
			if d, ok := injectRawTextLine(r, doc, rd.EOL); ok {
				doc, want = d, nil
				R.count("srt.domain.raw_text_tag")
			}
		}
		h := map[string]interface{}{"doc": doc, "eol": rd.EOL, "bom": rd.BOM, "eof_blank_lines": rd.EOFBlanks, "cues": len(cues)}
		o := srtReadObs(doc, want, "srt.read", h)
		if o.Sig == "srt-read-value" && rd.EOFBlanks > 0 {
			// is the only difference the trailing blank lines of the last cue?
			o.Sig = "srt-read-value-eof-blanks"
		}
		o.NT = len(cues) > 0
		R.count("srt.eol." + strconv.Quote(rd.EOL))
		R.countN("srt.cues", len(cues))
		R.add(o)
	}
	// documents longer than the scanner's 4096-byte buffer, CRLF and CR line ends, with a line break
	// placed exactly on the buffer boundary (offsets 4095/4096) inside a cue and between cues
	for c := 0; c < 24; c++ {
		eol := "\r\n"
		if c%4 == 3 {
			eol = "\r"
		}
		var cues []srtCue
		var t int64
		for i := 0; i < 120; i++ {
			t += 2e9
			cues = append(cues, srtCue{Start: t, End: t + 1e9, Lines: [][]srtRun{{{Text: fmt.Sprintf("line one of cue %d", i)}}, {{Text: "second line"}}, {{Text: "third"}}}})
		}
		build := func() string {
			var b strings.Builder
			for i, cu := range cues {
				b.WriteString(strconv.Itoa(i+1) + eol + fmtStamp(newRng(1), cu.Start, ",") + " --> " + fmtStamp(newRng(1), cu.End, ",") + eol)
				for _, l := range cu.Lines {
					b.WriteString(l[0].Text + eol)
				}
				b.WriteString(eol)
			}
			return b.String()
		}
		// find the first line break at or after the target offset and pad the first cue so that it lands on it
		target := 4095 + (c%3 - 1) // 4094, 4095, 4096
		doc := build()
		k := strings.Index(doc[target-200:], eol) + target - 200
		for tries := 0; tries < c/3; tries++ { // successive breaks: inside a cue, after the last text line, the blank line
			k = strings.Index(doc[k+len(eol):], eol) + k + len(eol)
		}
		if k > target {
			k2 := strings.LastIndex(doc[:target], eol)
			_ = k2
		}
		pad := target - k
		for pad < 0 {
			pad += 1
			k--
		}
		if k != target {
			cues[0].Lines[0][0].Text += strings.Repeat("x", (target-k+4096)%4096)
			doc = build()
		}
		o := srtReadObs(doc, cues, "srt.read.bufboundary", map[string]interface{}{"eol": eol, "len": len(doc), "byte_at_4095": doc[4095], "note": "line break aligned on the 4096-byte buffer boundary"})
		o.NT = true
		R.add(o)
	}
	// repository samples
	for _, f := range []string{"example-in.srt", "example-in-styled.srt", "example-in-carriage-return.srt", "example-in-html-entities.srt", "missing-sequence-in.srt", "example-in-non-utf8.srt", "example-out.srt", "example-out-styled.srt"} {
		if b, err := readRepoFile("testdata/" + f); err == nil {
			o := srtReadObs(string(b), nil, "srt.read.testdata", map[string]interface{}{"file": f})
			o.NT = true
			R.add(o)
		}
	}
	// malformed / unusual documents: model comparison only (class, and values where accepted)
	for c := 0; c < N/2; c++ {
		cues := randSrtCues(r, 4, true)
		doc, _ := renderSrt(r, cues)
		b := []byte(doc)
		for k := 0; k < 1+r.intn(3) && len(b) > 0; k++ {
			i := r.intn(len(b))
			switch r.intn(7) {
			case 0:
				b = append(b[:i], b[i+1:]...)
			case 1:
				b[i] = byte(r.pick("<", ">", "-", "\n", " ", "&", ":", ",", "/", "\"", "=", "\x00", "\xff", "\xc2")[0])
			case 2:
				b = append(b[:i], append([]byte(r.pick("-->", "<b", "</", "<!--", "<font color=", "&amp", "\n\n", "<i/>", "</>", "<x y='>'>", "\r")), b[i:]...)...)
			case 3:
				b = b[:i]
			case 4:
				b = append(b[:i], append([]byte("00:00:01,000 --> "), b[i:]...)...)
			case 5:
				j := r.intn(len(b))
				if i > j {
					i, j = j, i
				}
				b = append(b[:i], b[j:]...)
			default:
				b = append(b, b[i:]...)
			}
		}
		o := srtReadObs(string(b), nil, "srt.read.mutated", map[string]interface{}{"doc": string(b)})
		o.NT = o.Impl != "1"
		R.add(o)
	}
	for _, d := range []string{"", "\n", "x", "00:00:01,000 -->", "00:00:01,000 --> \n", "1\n00:00:01,000 --> 00:00:02,000\nhello\n\n\n", "1\n00:00:01,000 --> 00:00:02,000\nhello\n\n2\n00:00:03,000 --> 00:00:04,000\nbye", "-->", "a --> b", "1\n00:00:01,000 --> 00:00:02,000 --> 00:00:03,000\nx\n", "\xef\xbb\xbf\xef\xbb\xbf1\n00:00:01,000 --> 00:00:02,000\nx\n", "99999999999999999999\n00:00:01,000 --> 00:00:02,000\nx\n\n-5\n00:00:03,000 --> 00:00:04,000\ny\n"} {
		o := srtReadObs(d, nil, "srt.read.corpus", map[string]interface{}{"doc": d})
		o.NT = true
		R.add(o)
	}

	// writer
	for c := 0; c < N; c++ {
		cues := randSrtCuesDomain(r, 6, c%3 != 0)
		s := subsFromCues(cues)
		withPos := r.chance(1, 10) && len(s.Items) > 0
		// a colour with '&': the bytes are still compared with the model (the writer model has no domain restriction), but
		// the decoding oracles are restricted to colours that are font-colour markup (no '&', no double quote): the
		// written attribute value is not escaped, so what such a document denotes is not defined by the property
		colourAmp := srtCuesColourAmp(cues)
		if colourAmp {
			R.count("srt.domain.colour_amp")
		}
		if withPos {
			for _, it := range s.Items {
				for li := range it.Lines {
					for k := range it.Lines[li].Items {
						if it.Lines[li].Items[k].InlineStyle != nil && r.chance(1, 2) {
							it.Lines[li].Items[k].InlineStyle.SRTPosition = byte(1 + r.intn(9))
						}
					}
				}
			}
		}
		in := &enc{}
		encSrtItems(in, s)
		o := &obs{Suite: "srtwrite", Group: "srt.write", Input: in.String(), Human: map[string]interface{}{"cues": cues}, NT: len(cues) > 0}
		if c%8 == 5 {
			s.Items = withNilItems(s.Items, c/8) // the model input above is the list without the nil elements
			R.count("srt.write.nil_item")
		}
		var buf bytes.Buffer
		var err error
		p := safely(func() { err = s.WriteToSRT(&buf) })
		switch {
		case p != "":
			o.Impl, o.Oracle, o.Sig = "2", "WriteToSRT panicked: "+p, "srt-write-panic"
		case err != nil:
			o.Impl = "1"
			if len(cues) > 0 {
				o.Oracle, o.Sig = "WriteToSRT failed: "+err.Error(), "srt-write-error"
			}
		default:
			o.Impl = (&enc{}).n(0).bytes(buf.Bytes()).String()
			o.Human.(map[string]interface{})["written"] = buf.String()
			if !withPos && !colourAmp {
				dec, derr := decodeSrt(buf.Bytes())
				if derr != nil {
					o.Oracle, o.Sig = "independent decoder rejects the writer's output: "+derr.Error(), "srt-write-decoder"
				} else if m := cuesEqual(dec, cues); m != "" {
					o.Oracle, o.Sig = "independent decoder: "+m, "srt-write-decoder"
				} else if back, rerr := astisub.ReadFromSRT(bytes.NewReader(buf.Bytes())); rerr != nil {
					o.Oracle, o.Sig = "the library's reader rejects the writer's output: "+rerr.Error(), "srt-write-read"
				} else if m := cuesEqual(cuesFromSubs(back), cues); m != "" {
					o.Oracle, o.Sig = "write then read: "+m, "srt-write-read"
				}
			}
		}
		R.add(o)
	}

	// line level: parseTextSrt on hostile markup, against the model
	frag := []string{"<b>", "</b>", "<i>", "</i>", "<u>", "</u>", "<B>", "<font color=\"#fff\">", "<font color='a b'>", "<font color=red>", "<FONT COLOR=\"x\">", "</font>", "<font>", "<font size=3 color=blue>", "text", " ", "a&amp;b", "&lt;", "&nbsp;", "&", "<", ">", "<3", "a<b", "</", "</>", "</ x>", "<!--c-->", "<?x?>", "<br/>", "<b/>", "<b", "<font color=", "<font color=\"", "<x y='>'>", "<a href=x>", " ", "é", "😀", "<i >", "< i>", "<i\t>", "<u/ >", "<b =>", "<b = >", "<b a=>", "<i a b=c d='e' f=\"g\">"}
	// boundary of the faithful domain (one line in six gets one of these): raw-text elements, character references and CR
	// inside attribute values
	fragDomain := []string{"<script>", "</script>", "<title>", "<style>", "</style>", "<textarea>", "<font color=\"&amp;\">", "<font color='a&b'>", "<font color=\"a\rb\">"}
	reRawText := regexp.MustCompile(`(?i)<(script|style|title|textarea|xmp|iframe|noembed|noframes|noscript|plaintext)\b`)
	for c := 0; c < N*2; c++ {
		n := 1 + r.intn(6)
		var b strings.Builder
		dom := -1
		if r.chance(1, 6) {
			dom = r.intn(n)
		}
		for k := 0; k < n; k++ {
			if k == dom {
				b.WriteString(fragDomain[r.intn(len(fragDomain))])
			}
			b.WriteString(frag[r.intn(len(frag))])
		}
		line := b.String()
		if reRawText.MatchString(line) {
			R.count("srt.domain.raw_text_tag")
		}
		if strings.Contains(line, "&amp;\">") || strings.Contains(line, "a&b'>") {
			R.count("srt.domain.colour_amp")
		}
		b0, i0, u0 := r.chance(1, 4), r.chance(1, 4), r.chance(1, 4)
		var col *string
		if r.chance(1, 4) {
			cc := "c0"
			col = &cc
		}
		in := &enc{}
		in.str(line).bool(b0).bool(i0).bool(u0)
		if col == nil {
			in.n(0)
		} else {
			in.n(1).str(*col)
		}
		o := &obs{Suite: "srttext", Group: "srt.text", Input: in.String(), Human: map[string]interface{}{"line": line}, NT: true}
		var l astisub.Line
		var b1, i1, u1 bool
		var c1 *string
		p := safely(func() { l, b1, i1, u1, c1 = astisub.VerifParseTextSRT(line, b0, i0, u0, col) })
		if p != "" {
			o.Impl, o.Oracle, o.Sig = "PANIC", "parseTextSrt panicked: "+p, "srt-text-panic"
		} else {
			e := &enc{}
			e.n(0)
			s := &astisub.Subtitles{Items: []*astisub.Item{{Lines: []astisub.Line{l}}}}
			encSrtItems(e, s)
			e.bool(b1).bool(i1).bool(u1)
			if c1 == nil {
				e.n(0)
			} else {
				e.n(1).str(*c1)
			}
			o.Impl = e.String()
		}
		R.add(o)
	}
	// escaping
	for c := 0; c < N; c++ {
		t := randText(r, 8)
		esc := astisub.VerifEscapeHTML(t)
		R.add(&obs{Suite: "htmlesc", Group: "srt.escape", Input: (&enc{}).str(t).String(), Impl: (&enc{}).str(esc).str(astisub.VerifUnescapeHTML(esc)).String(), NT: strings.ContainsAny(t, "&< "),
			Oracle: func() string {
				if astisub.VerifUnescapeHTML(esc) != t {
					return fmt.Sprintf("unescape(escape(%q)) = %q", t, astisub.VerifUnescapeHTML(esc))
				}
				return ""
			}()})
	}
}
