package main

// XML tree abstraction shared with the Coq model (coq/Kit/Xml.v): elements with a (space, local) name,
// attributes in document order, children = text | element.  Built from bytes with the harness's own
// encoding/xml token loop (this is the "xml layer contract" side of the tie: the extracted reader model
// is run on this tree, the implementation on the bytes).

import (
	"bytes"
	"encoding/xml"
	"fmt"
	"io"
	"regexp"
	"strconv"
	"strings"
	"unicode"
)

type xName struct{ Space, Local string }
type xAttr struct {
	Name  xName
	Value string
}
type xNode struct {
	Elem  bool
	Text  string
	Name  xName
	Attrs []xAttr
	Kids  []*xNode
}

// number of start tags with a line break inside, seen by parseXMLTree (moved into the distribution by the suites)
var xmlLineBreakInTag int

var reCharRef = regexp.MustCompile(`&#(x[0-9a-fA-F]+|[0-9]+);`)

// parseXMLTree reads the first element of doc (what xml.Decoder.Decode consumes).  simple reports
// whether the document lies in the faithful domain of the tree abstraction (xml_simple): no comment,
// processing instruction, directive or CDATA section inside the root element, no carriage return, no
// character reference to a white-space character, no line break inside a tag.
func parseXMLTree(doc []byte) (root *xNode, simple bool, err error) {
	simple = true
	if bytes.IndexByte(doc, '\r') >= 0 || bytes.Contains(doc, []byte("<![CDATA[")) {
		simple = false
	}
	for _, m := range reCharRef.FindAllSubmatch(doc, -1) {
		s := string(m[1])
		var v uint64
		if s[0] == 'x' {
			v, _ = strconv.ParseUint(s[1:], 16, 32)
		} else {
			v, _ = strconv.ParseUint(s, 10, 32)
		}
		if unicode.IsSpace(rune(v)) {
			simple = false
		}
	}
	dec := xml.NewDecoder(bytes.NewReader(doc))
	var stack []*xNode
	for {
		before := dec.InputOffset()
		tok, terr := dec.Token()
		if terr != nil {
			if terr == io.EOF && root == nil {
				return nil, simple, io.EOF
			}
			return nil, simple, terr
		}
		switch t := tok.(type) {
		case xml.StartElement:
			n := &xNode{Elem: true, Name: xName{t.Name.Space, t.Name.Local}}
			for _, a := range t.Attr {
				n.Attrs = append(n.Attrs, xAttr{xName{a.Name.Space, a.Name.Local}, a.Value})
			}
			after := dec.InputOffset()
			if before >= 0 && after <= int64(len(doc)) && bytes.IndexByte(doc[before:after], '\n') >= 0 {
				// a line break inside the tag: between attributes it is white space (the reader replaces it by a blank when it
				// strips the indentation of a paragraph's content); inside a quoted value the stripping changes the value,
				// which the tree does not show: only that is outside the faithful domain
				raw := doc[before:after]
				if i := bytes.LastIndexByte(raw, '<'); i >= 0 {
					var q byte
					for _, c := range raw[i:] {
						switch {
						case q != 0 && c == q:
							q = 0
						case q == 0 && (c == '"' || c == '\''):
							q = c
						case q != 0 && c == '\n':
							simple = false
						}
					}
				}
				xmlLineBreakInTag++
			}
			if len(stack) == 0 {
				if root != nil {
					return root, simple, nil
				}
				root = n
			} else {
				p := stack[len(stack)-1]
				p.Kids = append(p.Kids, n)
			}
			stack = append(stack, n)
		case xml.EndElement:
			if len(stack) == 0 {
				return nil, simple, fmt.Errorf("unexpected end element")
			}
			stack = stack[:len(stack)-1]
			if len(stack) == 0 {
				return root, simple, nil
			}
		case xml.CharData:
			if len(stack) > 0 {
				p := stack[len(stack)-1]
				if k := len(p.Kids); k > 0 && !p.Kids[k-1].Elem {
					p.Kids[k-1].Text += string(t)
				} else {
					p.Kids = append(p.Kids, &xNode{Text: string(t)})
				}
			}
		case xml.Comment, xml.ProcInst, xml.Directive:
			if len(stack) > 0 {
				simple = false
			}
		}
	}
}

func (e *enc) xnode(n *xNode) *enc {
	if !n.Elem {
		return e.n(0).str(n.Text)
	}
	e.n(1).str(n.Name.Space).str(n.Name.Local).n(len(n.Attrs))
	for _, a := range n.Attrs {
		e.str(a.Name.Space).str(a.Name.Local).str(a.Value)
	}
	e.n(len(n.Kids))
	for _, k := range n.Kids {
		e.xnode(k)
	}
	return e
}

func isXMLSpaceOnly(s string) bool {
	for i := 0; i < len(s); i++ {
		if c := s[i]; c != ' ' && c != '\t' && c != '\n' && c != '\r' {
			return false
		}
	}
	return true
}

// dropIndent removes the text nodes an indenting serialiser adds: white-space-only text that has an
// element sibling.  (Text that is the only child of its element is content, even when blank.)
func dropIndent(n *xNode) *xNode {
	if !n.Elem {
		return n
	}
	out := &xNode{Elem: true, Name: n.Name, Attrs: n.Attrs}
	hasElem := false
	for _, k := range n.Kids {
		if k.Elem {
			hasElem = true
		}
	}
	for _, k := range n.Kids {
		if !k.Elem && hasElem && isXMLSpaceOnly(k.Text) {
			continue
		}
		out.Kids = append(out.Kids, dropIndent(k))
	}
	return out
}

func (n *xNode) String() string {
	var b strings.Builder
	var w func(n *xNode)
	w = func(n *xNode) {
		if !n.Elem {
			b.WriteString(strconv.Quote(n.Text))
			return
		}
		b.WriteString("<" + n.Name.Space + "|" + n.Name.Local)
		for _, a := range n.Attrs {
			b.WriteString(" " + a.Name.Space + "|" + a.Name.Local + "=" + strconv.Quote(a.Value))
		}
		b.WriteString(">")
		for _, k := range n.Kids {
			w(k)
		}
		b.WriteString("</>")
	}
	w(n)
	return b.String()
}

func (n *xNode) attr(local string) (string, bool) {
	v, ok := "", false
	for _, a := range n.Attrs {
		if a.Name.Local == local && a.Name.Space != "xmlns" {
			v, ok = a.Value, true
		}
	}
	return v, ok
}

func (n *xNode) children(local string) []*xNode {
	var out []*xNode
	for _, k := range n.Kids {
		if k.Elem && k.Name.Local == local {
			out = append(out, k)
		}
	}
	return out
}
