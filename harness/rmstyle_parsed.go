package main

// C13 on PARSED documents: RemoveStyling and Optimize applied to what the readers return for generated WebVTT (tag
// stacks incl. lang/ruby/rt, voices, regions, settings, STYLE blocks), TTML (styles with parent chains, regions, inline
// attributes) and SSA/ASS (styles, override blocks) documents, with the property's own statement as oracle:
// RemoveStyling leaves no region, style or inline attribute anywhere and keeps timing, text, voice names and order;
// Optimize keeps cues untouched and every reference left resolves to a definition of the list.

import (
	"fmt"
	"strings"

	astisub "github.com/asticode/go-astisub"
)

type cueView struct {
	s, e  int64
	lines []string
	voice []string
}

func viewOf(s *astisub.Subtitles) []cueView {
	var out []cueView
	for _, it := range s.Items {
		v := cueView{s: int64(it.StartAt), e: int64(it.EndAt)}
		for _, l := range it.Lines {
			v.lines = append(v.lines, l.String())
			v.voice = append(v.voice, l.VoiceName)
		}
		out = append(out, v)
	}
	return out
}

func viewsEqual(a, b []cueView) string {
	if len(a) != len(b) {
		return fmt.Sprintf("%d cues, before %d", len(b), len(a))
	}
	for i := range a {
		if a[i].s != b[i].s || a[i].e != b[i].e {
			return fmt.Sprintf("cue %d: timing changed", i+1)
		}
		if strings.Join(a[i].lines, "\n") != strings.Join(b[i].lines, "\n") {
			return fmt.Sprintf("cue %d: text changed: %q, before %q", i+1, b[i].lines, a[i].lines)
		}
		if strings.Join(a[i].voice, "\n") != strings.Join(b[i].voice, "\n") {
			return fmt.Sprintf("cue %d: voice names changed: %q, before %q", i+1, b[i].voice, a[i].voice)
		}
	}
	return ""
}

// anything that is styling, anywhere in the list
func stylingLeft(s *astisub.Subtitles) string {
	if len(s.Regions) > 0 {
		return fmt.Sprintf("%d region definitions left", len(s.Regions))
	}
	if len(s.Styles) > 0 {
		return fmt.Sprintf("%d style definitions left", len(s.Styles))
	}
	for i, it := range s.Items {
		if it.Region != nil || it.Style != nil || it.InlineStyle != nil {
			return fmt.Sprintf("cue %d keeps a region, style or inline attributes", i+1)
		}
		for j, l := range it.Lines {
			for k, li := range l.Items {
				if li.Style != nil || li.InlineStyle != nil {
					return fmt.Sprintf("cue %d line %d run %d keeps a style or inline attributes (%+v)", i+1, j+1, k+1, li.InlineStyle)
				}
			}
		}
	}
	return ""
}

// every style / region reference of the list resolves to the map entry with that identifier
func referencesDangling(s *astisub.Subtitles) string {
	okS := func(st *astisub.Style) bool { return st == nil || s.Styles[st.ID] == st }
	for id, st := range s.Styles {
		for p, depth := st, 0; p != nil && depth < 50; p, depth = p.Style, depth+1 {
			if !okS(p) {
				return fmt.Sprintf("style %s inherits from %s, which is not defined", id, p.ID)
			}
		}
	}
	for id, rg := range s.Regions {
		if !okS(rg.Style) {
			return fmt.Sprintf("region %s references style %s, which is not defined", id, rg.Style.ID)
		}
	}
	for i, it := range s.Items {
		if !okS(it.Style) {
			return fmt.Sprintf("cue %d references style %s, which is not defined", i+1, it.Style.ID)
		}
		if it.Region != nil && s.Regions[it.Region.ID] != it.Region {
			return fmt.Sprintf("cue %d references region %s, which is not defined", i+1, it.Region.ID)
		}
		for _, l := range it.Lines {
			for _, li := range l.Items {
				if !okS(li.Style) {
					return fmt.Sprintf("cue %d: a run references style %s, which is not defined", i+1, li.Style.ID)
				}
			}
		}
	}
	return ""
}

func suiteStylingParsed(R *runner, r *rng) {
	R.rule("RemoveStyling / Optimize on parsed documents: generated WebVTT (tag stacks of depth 0..3 over b/i/u/c/lang/ruby/rt/custom tags, voices, regions, settings, STYLE), TTML (0..5 styles with parent chains up to depth 4, regions with styles, cue/span references, consecutive cues sharing region and style) and SSA/ASS documents read by the library; oracle RemoveStyling: no region, style or inline attribute anywhere, timing/text/voice names/order unchanged; oracle Optimize: cues unchanged, every reference left resolves")
	N := 60
	if R.tier == "thorough" {
		N = 1500
	}
	for c := 0; c < N; c++ {
		var doc []byte
		var s *astisub.Subtitles
		var err error
		kind := []string{"vtt", "ttml", "ssa"}[c%3]
		k := 0
		switch kind {
		case "vtt":
			d := randVttDoc(r, true)
			doc = []byte(renderVtt(r, d))
			s, err = astisub.ReadFromWebVTT(strings.NewReader(string(doc)))
		case "ttml":
			cues := randSrtCues(r, 5, false)
			for i := range cues {
				for j := range cues[i].Lines {
					for q := range cues[i].Lines[j] {
						cues[i].Lines[j][q].Text = richWord(r, &k)
					}
				}
			}
			doc = renderTTMLRich(r, cues)
			s, err = astisub.ReadFromTTML(strings.NewReader(string(doc)))
		default:
			d := randSsaDoc(r)
			t, _, _ := renderSsa(r, d)
			doc = []byte(t)
			s, err = astisub.ReadFromSSA(strings.NewReader(t))
		}
		if err != nil || len(s.Items) == 0 {
			continue
		}
		before := viewOf(s)
		R.count("styling.parsed." + kind)
		// Optimize
		o := &obs{Suite: "stylingparsed", Group: "styling.parsed.optimize", NoModel: true, NT: true, Input: fmt.Sprintf("opt %d %s", c, hashBytes(doc)),
			Human: map[string]interface{}{"format": kind, "document": string(doc)}}
		if p := safely(func() { s.Optimize() }); p != "" {
			o.Oracle, o.Sig = "Optimize panicked: "+p, "styling-parsed-panic"
		} else if m := viewsEqual(before, viewOf(s)); m != "" {
			o.Oracle, o.Sig = "Optimize changed the cues: "+m, "styling-parsed-optimize-cues"
		} else if m := referencesDangling(s); m != "" {
			o.Oracle, o.Sig = "after Optimize: "+m, "styling-parsed-optimize-dangling"
		}
		R.add(o)
		// RemoveStyling
		o2 := &obs{Suite: "stylingparsed", Group: "styling.parsed.remove", NoModel: true, NT: true, Input: fmt.Sprintf("rm %d %s", c, hashBytes(doc)),
			Human: map[string]interface{}{"format": kind, "document": string(doc)}}
		if p := safely(func() { s.RemoveStyling() }); p != "" {
			o2.Oracle, o2.Sig = "RemoveStyling panicked: "+p, "styling-parsed-panic"
		} else if m := viewsEqual(before, viewOf(s)); m != "" {
			o2.Oracle, o2.Sig = "RemoveStyling changed the cues: "+m, "styling-parsed-remove-cues"
		} else if m := stylingLeft(s); m != "" {
			o2.Oracle, o2.Sig = "after RemoveStyling: "+m, "styling-parsed-remove-left"
		}
		R.add(o2)
	}
}
