package main

import (
	"encoding/json"
	"flag"
	"fmt"
	"io"
	"log"
	"os"
)

var repoDir, buildDir string

var suitesByProp = map[string][]func(*runner, *rng){
	"C12": {suiteOrder, suiteMerge, suiteUnfragmentHuge},
	"C09": {suiteAdd, suiteAddHuge},
	"C14": {suiteForce, suiteForceHuge},
	"C10": {suiteFragment, suiteFragmentHuge},
	"C11": {suiteUnfragment, suiteUnfragmentHuge},
	"C13": {suiteOptimize, suiteOptimizeAlias, suiteTtmlOptimize, suiteStylingParsed},
	"C16": {suiteDur, suiteFracFloat},
	"C15": {suiteLin, suiteLinHuge},
	"C01": {suiteSrt, suiteLineBoundSrt},
	"C02": {suiteVtt, suiteVttNeeds, suiteVttKeyed, suiteLineBoundVtt},
	"C04": {suiteSsa, suiteSsaModel, suiteLineBoundSsa},
	"C17": {suiteSchedules, suiteStlIO, suiteTeletextFullReader, suiteTeletextSchedules},
	"C19": {suiteDeterminism},
	"C08": {suiteTotality, suiteTeletextHostile, suiteStlNilItems},
	"C06": {suiteTeletext, suiteTeletextModel, suiteTeletextHamming},
	"C07": {suiteConvert, suiteConvertModel, suiteConvertOps, suiteConvertCLI, suiteConvertRich, suiteConvertPlain, suiteConvertCLIModel, suiteConvertPlainStyled, suiteConvertStlStyledSrt, suiteConvTtmlSsa, suiteConvTtmlVtt, suiteConvertPlainTtx, suiteConvertStyledTtx, suiteConvertStlStyled, suiteConvertIllegalToTtml},
	"C20": {suiteConcurrency},
	"C18": {suiteFaults, suiteStlIO, suiteTeletextFullReader, suiteTeletextFaults},
	"C03": {suiteTtml},
	"C05": {suiteStl},
}

func readRepoFile(rel string) ([]byte, error) { return os.ReadFile(repoDir + "/" + rel) }

func main() {
	prop := flag.String("prop", "", "property id")
	tier := flag.String("tier", "quick", "quick|thorough")
	seed := flag.Uint64("seed", 1, "PRNG seed")
	driver := flag.String("driver", "", "path of the OCaml model driver")
	out := flag.String("out", "", "harness result file (json)")
	replayDir := flag.String("replays", "replays", "directory for replay files")
	known := flag.String("known", "known_findings.json", "known findings file")
	replay := flag.String("replay", "", "replay file: run only the recorded case")
	child := flag.String("child", "", "internal: child-process mode")
	childN := flag.Int("n", 0, "internal: number of lists in child mode")
	childG := flag.Int("g", 2, "internal: goroutines in child mode")
	flag.StringVar(&repoDir, "repo", "/repo", "repository under test")
	flag.StringVar(&buildDir, "build", ".build", "scratch build directory")
	flag.Parse()
	log.SetOutput(io.Discard) // the library logs through the standard logger
	if *child == "c19" {
		c19Child(*seed, *childN)
		return
	}
	if *child == "c20" {
		log.SetOutput(io.Discard)
		c20Child(*seed, *childN, *childG)
		return
	}
	suites, ok := suitesByProp[*prop]
	if !ok {
		fatal("no suites for property %q", *prop)
	}
	R := newRunner(*prop, *tier, *seed, *driver, *replayDir, *known)
	if *replay != "" {
		b, err := os.ReadFile(*replay)
		if err != nil {
			fatal("replay: %v", err)
		}
		var rep struct {
			Suite string `json:"suite"`
			Input string `json:"input"`
			Seed  uint64 `json:"seed"`
			Tier  string `json:"tier"`
		}
		if err := json.Unmarshal(b, &rep); err != nil {
			fatal("replay: %v", err)
		}
		R.seed = rep.Seed
		if rep.Tier != "" {
			R.tier = rep.Tier
		}
		R.onlySuite, R.onlyInput = rep.Suite, rep.Input
	}
	base := newRng(R.seed)
	// a suite that sees the implementation not returning (a runaway loop that keeps allocating) reports it and ends the run at
	// once through R.abort: the results gathered so far are written and the process exits before memory runs out
	R.abort = func() {
		R.note("run ended early: the implementation did not return from a call (reported as an oracle failure); later suites were not run")
		R.finish(*out)
		os.Exit(0)
	}
	for _, s := range suites {
		s(R, base.fork())
	}
	R.finish(*out)
	if *replay != "" {
		fmt.Printf("replayed %d matching case(s)\n", R.evals)
	}
}
