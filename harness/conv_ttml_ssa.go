package main

// C07, styled conversion TTML -> SSA/ASS (coq/Model/ConvTtmlSsa.v, theorem C07_ttml_to_ssa_styled).
//
// Correspondence: the library's destination bytes (ReadFromTTML, WriteToSSA) against the driver suite convttmlssa
// (convert_ttml_ssa) on every styled TTML document of suiteConvertPlainStyled (registration below) and on the documents
// of the generator of this file, which aims at what travels on this pair: a title (or no metadata element at all), a
// styling section with several styles (referenced by a cue, by a span only, by another style as its parent, by a region,
// or by nothing), regions, cues with and without style references, lines made of several spans, empty lines, empty
// paragraphs, times off the centisecond grid, and texts / identifiers / titles on both sides of SSA's representability
// conditions.  All documents stay inside the XML parser model's subset (Kit/XmlParse2.v): no CR byte, no DOCTYPE/CDATA.
//
// Oracle (on the implementation, independent of the model): when the source as read is representable in SSA
// (ttmlSsaRepresentable: the conditions of the theorem, written out in Go), the destination read back by the library has
// the same number of cues in the same order, times truncated to the centisecond, and per line the same Line.String().
// The Go predicate is itself compared with the model's ttml_ssa_okb (suite ttmlssaok).

import (
	"bytes"
	"fmt"
	"strings"

	astisub "github.com/asticode/go-astisub"
)

func init() {
	styledConvSuites["ttml->ssa"] = "convttmlssa"
	styledConvOracle["ttml->ssa"] = func(src *astisub.Subtitles, dst []byte) string {
		if ttmlSsaRepresentable(src) != "" {
			return ""
		}
		return ttmlSsaTextSurvives(src, dst)
	}
}

// the representability conditions of C07_ttml_to_ssa_styled on a Subtitles value read from TTML; "" or the first
// condition that fails
func ttmlSsaRepresentable(s *astisub.Subtitles) string {
	oneLine := func(t string) bool { return !strings.ContainsAny(t, "\r\n") }
	if len(s.Items) == 0 {
		return "no-cue"
	}
	if s.Metadata != nil && (!oneLine(s.Metadata.Title) || strings.TrimSpace(s.Metadata.Title) != s.Metadata.Title) {
		return "title"
	}
	for k, st := range s.Styles {
		if st == nil || st.ID != k {
			return "style-key"
		}
		if k == "" || strings.Contains(k, ",") || !oneLine(k) || strings.TrimSpace(k) != k {
			return "style-id"
		}
	}
	for _, it := range s.Items {
		if it.StartAt < 0 || it.EndAt < 0 {
			return "time"
		}
		if it.Style != nil && it.Style.ID == "*Default" {
			return "style-star-default"
		}
		if len(it.Lines) == 0 {
			return "no-line"
		}
		var ls []string
		for _, l := range it.Lines {
			t := ""
			for _, li := range l.Items {
				t += li.Text
			}
			if strings.ContainsAny(t, "{}") {
				return "brace"
			}
			if strings.Contains(t, "\\n") || strings.Contains(t, "\\N") {
				return "backslash-n"
			}
			if strings.TrimSpace(t) != t {
				return "line-blank-ends"
			}
			ls = append(ls, t)
		}
		text := strings.Join(ls, "\\n")
		if !oneLine(text) {
			return "line-terminator"
		}
		if strings.TrimSpace(text) != text {
			return "text-blank-ends"
		}
	}
	return ""
}

// the destination read back carries the cues of the source: count, order, times to the centisecond, text per line
func ttmlSsaTextSurvives(src *astisub.Subtitles, dst []byte) string {
	back, err := astisub.ReadFromSSA(bytes.NewReader(dst))
	if err != nil {
		return "the destination cannot be read back: " + err.Error()
	}
	if len(back.Items) != len(src.Items) {
		return fmt.Sprintf("%d cues in the source, %d in the destination", len(src.Items), len(back.Items))
	}
	for i, it := range src.Items {
		b := back.Items[i]
		cs := func(d int64) int64 { return d - d%1e7 }
		if int64(b.StartAt) != cs(int64(it.StartAt)) || int64(b.EndAt) != cs(int64(it.EndAt)) {
			return fmt.Sprintf("cue %d: times %v-%v read back as %v-%v", i, it.StartAt, it.EndAt, b.StartAt, b.EndAt)
		}
		if len(b.Lines) != len(it.Lines) {
			return fmt.Sprintf("cue %d: %d lines in the source, %d in the destination", i, len(it.Lines), len(b.Lines))
		}
		for j := range it.Lines {
			if it.Lines[j].String() != b.Lines[j].String() {
				return fmt.Sprintf("cue %d line %d: %q read back as %q", i, j, it.Lines[j].String(), b.Lines[j].String())
			}
		}
	}
	return ""
}

func tsaXMLEsc(s string) string {
	var b strings.Builder
	for _, c := range []byte(s) {
		switch c {
		case '&':
			b.WriteString("&amp;")
		case '<':
			b.WriteString("&lt;")
		case '>':
			b.WriteString("&gt;")
		case '"':
			b.WriteString("&quot;")
		case '\r':
			b.WriteString("&#13;")
		case '\n':
			b.WriteString("&#10;")
		case '\t':
			b.WriteString("&#9;")
		default:
			b.WriteByte(c)
		}
	}
	return b.String()
}

// one generated document; tags = which features / deviations it carries (for the counters)
func genTtmlSsaDoc(r *rng) (doc []byte, tags []string) {
	tag := func(t string) { tags = append(tags, t) }
	var b strings.Builder
	b.WriteString("<?xml version=\"1.0\" encoding=\"UTF-8\"?>\n<tt xmlns=\"http://www.w3.org/ns/ttml\" xmlns:tts=\"http://www.w3.org/ns/ttml#styling\" xmlns:ttm=\"http://www.w3.org/ns/ttml#metadata\"")
	if r.chance(2, 3) {
		b.WriteString(" xml:lang=\"" + r.pick("en", "fr", "zz") + "\"")
	}
	b.WriteString(">\n<head>\n")
	// metadata
	switch r.intn(8) {
	case 0:
		tag("title.none")
	case 1:
		tag("title.empty")
		b.WriteString("<metadata><ttm:title></ttm:title></metadata>\n")
	case 2:
		tag("title.nonrepr.blank_ends")
		b.WriteString("<metadata><ttm:title> padded title </ttm:title></metadata>\n")
	case 3:
		tag("title.nonrepr.two_lines")
		b.WriteString("<metadata><ttm:title>first&#10;second: x</ttm:title><ttm:copyright>c</ttm:copyright></metadata>\n")
	default:
		tag("title.plain")
		b.WriteString("<metadata><ttm:title>" + tsaXMLEsc(r.pick("A title", "T", "Title: with, punctuation; 1 < 2 & more", "Ünïcode títle", "[Events]", "Dialogue: x", "; comment")) + "</ttm:title>")
		if r.chance(1, 2) {
			b.WriteString("<ttm:copyright>(c) someone</ttm:copyright>")
		}
		b.WriteString("</metadata>\n")
	}
	// styles
	ns := r.intn(7)
	ids := make([]string, 0, ns)
	goodIDs := []string{"s0", "s1", "s2", "Main style", "b-1", "Default", "Zeta", "alpha", "é1", "S0", "10", "x:y", "semi;colon", "[br]"}
	badIDs := []string{"a,b", " pad", "pad ", "*Default", "", "tab\tend\t"}
	used := map[string]bool{}
	for i := 0; i < ns; i++ {
		id := goodIDs[r.intn(len(goodIDs))]
		if r.chance(1, 14) {
			id = badIDs[r.intn(len(badIDs))]
		}
		if used[id] {
			if r.chance(1, 4) {
				tag("style.duplicate_id")
			} else {
				id = fmt.Sprintf("%s_%d", id, i)
			}
		}
		used[id] = true
		ids = append(ids, id)
	}
	attrs := func(pool [][2]string) string {
		s := ""
		for _, a := range pool {
			if r.chance(1, 3) {
				s += fmt.Sprintf(" tts:%s=\"%s\"", a[0], a[1])
			}
		}
		return s
	}
	stylePool := [][2]string{{"color", r.pick("white", "#ff0000", "yellow")}, {"fontSize", "2"}, {"fontFamily", "sans"}, {"textAlign", r.pick("center", "left", "end")}, {"backgroundColor", "black"}, {"fontStyle", "italic"}, {"fontWeight", "bold"}, {"origin", "10% 80%"}, {"extent", "80% 10%"}}
	if ns > 0 || r.chance(1, 2) {
		b.WriteString("<styling>\n")
		for i, id := range ids {
			parent := ""
			if i > 0 && r.chance(1, 2) {
				parent = " style=\"" + tsaXMLEsc(ids[r.intn(i)]) + "\""
				tag("style.parent")
			}
			idAttr := " xml:id=\"" + tsaXMLEsc(id) + "\""
			if id == "" && r.chance(1, 2) {
				idAttr = ""
			}
			fmt.Fprintf(&b, "<style%s%s%s/>\n", idAttr, parent, attrs(stylePool))
		}
		b.WriteString("</styling>\n")
	}
	nr := r.intn(3)
	if nr > 0 {
		b.WriteString("<layout>\n")
		for i := 0; i < nr; i++ {
			st := ""
			if ns > 0 && r.chance(1, 2) {
				st = " style=\"" + tsaXMLEsc(ids[r.intn(ns)]) + "\""
			}
			fmt.Fprintf(&b, "<region xml:id=\"r%d\"%s%s/>\n", i, st, attrs(stylePool[6:]))
		}
		b.WriteString("</layout>\n")
	}
	b.WriteString("</head>\n<body><div>\n")
	// cues
	goodTexts := []string{"Hello", "world", "a, b, c", "x: y", "d\u00e9j\u00e0 vu", "1 < 2 & 3 > 2", "semi;colon", "back\\slash", "\\", "n", "N", "tab\there", "quote \"q\"", "it's", "[Events]", "Dialogue: Marked=0,0:00:00.00", "a  b", "-->", "\u00e9"}
	badTexts := []string{"a{b}c", "{\\i1}x", "{", "a}b", "a\\Nb", "a\\nb", "cr\rx", " lead", "trail ", "nbsp\u00a0", "\u3000wide"}
	nc := 1 + r.intn(5)
	t := int64(r.intn(5000)) * 1e6
	usedStyle := map[string]bool{}
	for ci := 0; ci < nc; ci++ {
		st := t + int64(r.intn(3000))*1e6
		en := st + int64(1+r.intn(4000))*1e6
		t = en
		stamp := func(v int64) string {
			ms := v / 1e6
			switch r.intn(4) {
			case 0:
				return fmt.Sprintf("%d.%03ds", ms/1000, ms%1000)
			case 1:
				return fmt.Sprintf("%dms", ms)
			default:
				return fmt.Sprintf("%02d:%02d:%02d.%03d", ms/3600000, ms/60000%60, ms/1000%60, ms%1000)
			}
		}
		if (st/1e6)%10 != 0 || (en/1e6)%10 != 0 {
			tag("cue.time_off_cs_grid")
		}
		ref := ""
		if ns > 0 && r.chance(1, 2) {
			id := ids[r.intn(ns)]
			usedStyle[id] = true
			ref += " style=\"" + tsaXMLEsc(id) + "\""
			tag("cue.style_ref")
		} else {
			tag("cue.no_style_ref")
		}
		if nr > 0 && r.chance(1, 2) {
			ref += fmt.Sprintf(" region=\"r%d\"", r.intn(nr))
		}
		fmt.Fprintf(&b, "<p begin=\"%s\" end=\"%s\"%s%s>", stamp(st), stamp(en), ref, attrs(stylePool[:3]))
		nl := r.intn(4) // 0 = empty paragraph
		if nl == 0 {
			tag("cue.empty_paragraph")
		}
		if nl > 1 {
			tag("cue.multi_line")
		}
		for li := 0; li < nl; li++ {
			if li > 0 {
				b.WriteString(r.pick("<br/>", "<br />", "<br></br>"))
			}
			nrun := r.intn(4)
			if nrun == 0 {
				tag("line.empty")
			}
			if nrun > 1 {
				tag("line.multi_span")
			}
			for q := 0; q < nrun; q++ {
				txt := goodTexts[r.intn(len(goodTexts))]
				if r.chance(1, 25) {
					txt = badTexts[r.intn(len(badTexts))]
					tag("text.deviation")
				}
				if r.chance(1, 12) {
					txt = ""
					tag("span.empty")
				}
				if q == 0 && nrun == 1 && r.chance(1, 3) && txt != "" && strings.TrimLeft(txt, " \t\n") == txt {
					// direct text of the paragraph (no span); the reader strips indentation from such text, so only texts
					// without leading blank
					b.WriteString(tsaXMLEsc(txt))
					tag("line.direct_text")
					continue
				}
				sp := ""
				if ns > 0 && r.chance(1, 3) {
					sp = " style=\"" + tsaXMLEsc(ids[r.intn(ns)]) + "\""
					tag("span.style_ref")
				}
				fmt.Fprintf(&b, "<span%s%s>%s</span>", sp, attrs(stylePool[:2]), tsaXMLEsc(txt))
			}
		}
		b.WriteString("</p>\n")
	}
	b.WriteString("</div></body>\n</tt>\n")
	if ns >= 3 {
		tag("styles.three_or_more")
	}
	for _, id := range ids {
		if !usedStyle[id] {
			tag("style.unreferenced_by_cues")
			break
		}
	}
	return []byte(b.String()), tags
}

func suiteConvTtmlSsa(R *runner, r *rng) {
	R.rule("styled conversion TTML -> SSA/ASS: generated TTML documents (title of several shapes or no metadata; 0..6 styles with parent links, identifiers incl. inner blanks, punctuation, non-ASCII letters and, rarely, identifiers SSA cannot carry: comma, blank ends, *Default, empty; 0..2 regions; 1..5 cues with/without style and region references, times as clock, seconds or milliseconds expressions off the centisecond grid; 0..3 lines of 0..3 spans or direct text, texts with commas, colons, entities, backslashes, section-like and Dialogue-like strings and, rarely, texts SSA cannot carry: braces, \\N, \\n, CR, blank ends, no-break / ideographic space at an end) converted by the library (ReadFromTTML, WriteToSSA): destination bytes vs convert_ttml_ssa (suite convttmlssa; the model ranges over the styles map in three different orders); the Go statement of the theorem's representability hypothesis vs the model's ttml_ssa_okb (suite ttmlssaok); oracle on representable sources: the destination read back by the library has the same cues, times to the centisecond, per line the same Line.String()")
	N := 150
	if R.tier == "thorough" {
		N = 2500
	}
	for c := 0; c < N; c++ {
		doc, tags := genTtmlSsaDoc(r)
		s0, err := astisub.ReadFromTTML(bytes.NewReader(doc))
		if err != nil {
			// e.g. an empty style reference next to an empty ID is fine, an unknown reference is not generated: count it
			R.count("conv.ttml->ssa.source_rejected")
			continue
		}
		seen := map[string]bool{}
		for _, t := range tags {
			if !seen[t] {
				seen[t] = true
				R.count("conv.ttml->ssa." + t)
			}
		}
		R.count("conv.ttml->ssa.documents")
		why := ttmlSsaRepresentable(s0)
		if why == "" {
			R.count("conv.ttml->ssa.representable")
		} else {
			R.count("conv.ttml->ssa.not_representable." + why)
		}
		h := map[string]interface{}{"source": "ttml", "destination": "ssa", "document": string(doc), "representable_in_ssa": why == "", "fails": why}
		// the representability predicate, Go vs model
		ok := &obs{Suite: "ttmlssaok", Group: "conv.ttml->ssa.representable", Input: (&enc{}).bytes(doc).String(), NT: true, Human: h}
		ok.Impl = (&enc{}).n(0).bool(why == "").String()
		R.add(ok)
		// the conversion
		s2, _ := astisub.ReadFromTTML(bytes.NewReader(doc))
		var out bytes.Buffer
		o := &obs{Suite: "convttmlssa", Group: "conv.ttml->ssa.bytes", Input: (&enc{}).bytes(doc).String(), NT: true, Human: h}
		var werr error
		p := safely(func() { werr = s2.WriteToSSA(&out) })
		switch {
		case p != "":
			o.Impl, o.Oracle, o.Sig = "2", "ttml -> ssa panicked: "+p, "convstyled-panic"
		case werr != nil:
			o.Impl = "1"
			R.count("conv.ttml->ssa.write_error")
		default:
			o.Impl = (&enc{}).n(0).bytes(out.Bytes()).String()
			if why == "" {
				if m := ttmlSsaTextSurvives(s0, out.Bytes()); m != "" {
					o.Oracle, o.Sig = "ttml->ssa: "+m, "convstyled-text-ttml->ssa"
				}
			} else if m := ttmlSsaTextSurvives(s0, out.Bytes()); m != "" {
				R.count("conv.ttml->ssa.not_representable.text_differs")
			} else {
				R.count("conv.ttml->ssa.not_representable.text_survives_anyway")
			}
		}
		R.add(o)
	}
}
