package main

// C17/C18 EBU STL: correspondence of the schedule-aware and fault-aware reader models (Model/StlIO.v: read_stl_sched,
// read_stl_fail_at) and of the writer as a sequence of Write calls (write_stl_to) with the implementation driven through
// a scheduled / failing io.Reader and a failing io.Writer; with the oracles of the two properties.

import (
	"bytes"
	"fmt"
	"io"

	astisub "github.com/asticode/go-astisub"
)

func suiteStlIO(R *runner, r *rng) {
	R.rule("stl i/o: ground-truth STL files (0..4 blocks, also cut inside a block and at block boundaries) read through a scheduled reader (0..12 read sizes from 0 to 1500 bytes incl. sizes around the block sizes, rest of the data together with or before io.EOF) and through a reader failing after k bytes (k anywhere incl. block boundaries, fault delivered alone or with the last bytes); value vs the Coq model of ReadFromSTL over read_n under the same schedule, oracle: same result as one-shot / an error; WriteToSTL into a destination failing after k bytes vs the model's sequence of Write calls, oracle: error iff k is below the document length; non-trivial = non-empty schedule / fault before the end")
	N := 150
	if R.tier == "thorough" {
		N = 2500
	}
	sizes := []int{0, 1, 2, 127, 128, 129, 512, 1023, 1024, 1025, 1152, 1500}
	for c := 0; c < N; c++ {
		f := randSTLFile(r, 4, true, true)
		data := renderSTL(r, f)
		switch r.intn(4) {
		case 0:
			data = data[:r.intn(len(data)+1)]
		case 1:
			if len(data) > 1024 {
				data = data[:1024+128*r.intn((len(data)-1024)/128+1)]
			}
		}
		ign := r.chance(1, 2)
		var counts []int
		for i := r.intn(13); i > 0; i-- {
			if r.chance(1, 2) {
				counts = append(counts, sizes[r.intn(len(sizes))])
			} else {
				counts = append(counts, r.intn(300))
			}
		}
		// schedule
		{
			in := (&enc{}).bool(ign).bytes(data).n(len(counts))
			for _, k := range counts {
				in.n(k)
			}
			rd := &schedReader{data: data, counts: counts, failAt: -1, withEOF: r.chance(1, 2)}
			o := &obs{Suite: "stlreadsched", Group: "stl.read_schedule", Input: in.String(), NT: len(counts) > 0,
				Human: map[string]interface{}{"file_hex": hexShort(data), "len": len(data), "schedule": describeSchedule(counts, rd.withEOF), "ignore_programme_start": ign}}
			var s, s0 *astisub.Subtitles
			var err, err0 error
			p := safely(func() {
				s, err = astisub.ReadFromSTL(rd, astisub.STLOptions{IgnoreTimecodeStartOfProgramme: ign})
				s0, err0 = astisub.ReadFromSTL(bytes.NewReader(data), astisub.STLOptions{IgnoreTimecodeStartOfProgramme: ign})
			})
			switch {
			case p != "":
				o.Impl, o.Oracle, o.Sig = "2", "ReadFromSTL panicked: "+p, "stl-sched-panic"
			case err != nil:
				o.Impl = "1"
				if err0 == nil {
					o.Oracle, o.Sig = "ReadFromSTL fails under the schedule but not in one shot: "+err.Error(), "stl-sched-differs"
				}
			default:
				e := (&enc{}).n(0)
				encSTLDoc(e, s)
				o.Impl = e.String()
				if err0 != nil {
					o.Oracle, o.Sig = "ReadFromSTL succeeds under the schedule but fails in one shot", "stl-sched-differs"
				} else {
					e0 := (&enc{}).n(0)
					encSTLDoc(e0, s0)
					if e0.String() != o.Impl {
						o.Oracle, o.Sig = "ReadFromSTL returns different values under the schedule and in one shot", "stl-sched-differs"
					}
				}
			}
			R.add(o)
		}
		// fault after k bytes
		{
			k := r.intn(len(data) + 1)
			if r.chance(1, 3) && len(data) >= 1024 {
				k = 1024 + 128*r.intn((len(data)-1024)/128+1)
				if k > len(data) {
					k = len(data)
				}
			}
			in := (&enc{}).bool(ign).bytes(data).n(k).n(len(counts))
			for _, c := range counts {
				in.n(c)
			}
			sr := &schedReader{data: data, counts: counts, failAt: k, failWithData: r.chance(1, 2)}
			// what the stream does after its failing Read: repeats the error (sticky), reports end-of-file, or goes on
			// delivering the rest (an io.Reader need not repeat an error; the reader must stop at the first one)
			then := r.intn(3)
			var rd io.Reader = sr
			if then > 0 {
				rd = &onceFaultReader{s: sr, then: then}
			}
			after := []string{"sticky", "eof", "resumes"}[then]
			R.count("stl.read_fault.after." + after)
			if sr.failWithData && k >= 1024 && (k-1024)%128 == 0 {
				R.count("stl.read_fault.with_last_bytes_of_block." + after)
			}
			suite := "stlreadfail"
			if sr.failWithData && k > 0 {
				suite = "stlreadfailwd" // read_stl_fail_at_wd: the error comes with the last bytes
			}
			o := &obs{Suite: suite, Group: "stl.read_fault", Input: in.String(), NT: k < len(data),
				Human: map[string]interface{}{"file_hex": hexShort(data), "len": len(data), "fault_after": k, "schedule": describeSchedule(counts, false),
					"error_with_data": sr.failWithData, "after_the_fault": after}}
			var err error
			p := safely(func() { _, err = astisub.ReadFromSTL(rd, astisub.STLOptions{IgnoreTimecodeStartOfProgramme: ign}) })
			switch {
			case p != "":
				o.Impl, o.Oracle, o.Sig = "2", "ReadFromSTL panicked: "+p, "stl-fault-panic"
			case err != nil:
				o.Impl = "1"
			default:
				o.Impl = "0"
				o.Oracle, o.Sig = fmt.Sprintf("ReadFromSTL returns no error although the stream failed after %d of %d bytes", k, len(data)), "stl-fault-swallowed"
			}
			R.add(o)
		}
		// writer into a failing destination
		{
			x := &stlWExpect{fps: 25, dsc: "1"}
			x.cues = randSTLWCues(r, r.intn(4), 25, true, true, false, true)
			s := stlSubsFromWCues(r, x.cues)
			if r.chance(1, 2) {
				s.Metadata = randSTLMetadata(r, randSTLFile(r, 0, false, false))
			}
			total := 0
			if len(x.cues) > 0 {
				total = 1024 + 128*len(x.cues)
			}
			k := r.intn(total + 200)
			if r.chance(1, 3) && total > 0 {
				k = 1024 + 128*r.intn(len(x.cues)+1) - r.intn(2)
			}
			in := &enc{}
			encSTLWriteInput(in, s)
			in.n(k)
			w := &failWriter{limit: k}
			o := &obs{Suite: "stlwriteto", Group: "stl.write_fault", Input: in.String(), NT: k < total,
				Human: map[string]interface{}{"cues": len(x.cues), "document_length": total, "destination_fails_after": k}}
			var err error
			p := safely(func() { err = s.WriteToSTL(w) })
			switch {
			case p != "":
				o.Impl, o.Oracle, o.Sig = "2", "WriteToSTL panicked: "+p, "stl-wfault-panic"
			case err != nil:
				o.Impl = "1"
				if total > 0 && k >= total {
					o.Oracle, o.Sig = "WriteToSTL fails although the destination accepts the whole document: "+err.Error(), "stl-wfault-spurious"
				}
			default:
				o.Impl = (&enc{}).n(0).n(w.written).String()
				if k < total {
					o.Oracle, o.Sig = fmt.Sprintf("WriteToSTL returns no error although the destination failed after %d of %d bytes", k, total), "stl-wfault-swallowed"
				} else if w.written != total {
					o.Oracle, o.Sig = fmt.Sprintf("%d bytes reached the destination, the document has %d", w.written, total), "stl-wfault-incomplete"
				}
			}
			R.add(o)
		}
	}
}

// onceFaultReader reports the scheduled reader's fault once; afterwards it reports end-of-file (then = 1) or goes on
// delivering the rest of the data (then = 2)
type onceFaultReader struct {
	s       *schedReader
	then    int
	faulted bool
}

func (o *onceFaultReader) Read(p []byte) (int, error) {
	if o.faulted && o.then == 1 {
		return 0, io.EOF
	}
	n, err := o.s.Read(p)
	if err == errFault {
		o.faulted = true
		o.s.failAt = -1
	}
	return n, err
}
