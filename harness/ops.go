package main

// Suites for the cue-list operations (C09-C14): conversions between the Go values and the
// model encoding, generators, property oracles written independently of the model.

import (
	"fmt"
	"os"
	"runtime/debug"
	"sort"
	"strconv"
	"strings"
	"time"

	astisub "github.com/asticode/go-astisub"
)

// ---- IDs: every generated identifier is "k<number>" -------------------------------------------
func idStr(n int) string { return "k" + strconv.Itoa(n) }
func idNum(s string) int {
	if !strings.HasPrefix(s, "k") {
		panic("unexpected id " + s)
	}
	n, err := strconv.Atoi(s[1:])
	if err != nil {
		panic("unexpected id " + s)
	}
	return n
}

type uidMap map[*astisub.Item]int

func uidsOf(items []*astisub.Item) uidMap {
	m := uidMap{}
	for i, it := range items {
		if _, ok := m[it]; !ok {
			m[it] = i + 1
		}
	}
	return m
}

func encStylePtr(e *enc, s *astisub.Style) {
	if s == nil {
		e.opt(-1)
	} else {
		e.opt(idNum(s.ID))
	}
}

func encItem(e *enc, it *astisub.Item, uid int) {
	e.n(uid).i(int64(it.StartAt)).i(int64(it.EndAt))
	e.n(len(it.Lines))
	for _, l := range it.Lines {
		e.n(len(l.Items))
		for _, li := range l.Items {
			e.str(li.Text)
			encStylePtr(e, li.Style)
			e.bool(li.InlineStyle != nil)
		}
		e.str(l.VoiceName)
	}
	if it.Region == nil {
		e.opt(-1)
	} else {
		e.opt(idNum(it.Region.ID))
	}
	encStylePtr(e, it.Style)
	e.bool(it.InlineStyle != nil)
}

func encItems(e *enc, items []*astisub.Item, u uidMap) {
	e.n(len(items))
	for _, it := range items {
		encItem(e, it, u[it])
	}
}

func encStyle(e *enc, s *astisub.Style) {
	e.n(idNum(s.ID))
	encStylePtr(e, s.Style)
	e.bool(s.InlineStyle != nil)
}
func encRegion(e *enc, r *astisub.Region) {
	e.n(idNum(r.ID))
	encStylePtr(e, r.Style)
	e.bool(r.InlineStyle != nil)
}

func encSubs(e *enc, s *astisub.Subtitles, u uidMap) { encSubsX(e, s, u, false) }

// result form: a nil map and an empty map are the same observable
func encSubsOut(e *enc, s *astisub.Subtitles, u uidMap) { encSubsX(e, s, u, true) }

func encSubsX(e *enc, s *astisub.Subtitles, u uidMap, out bool) {
	encItems(e, s.Items, u)
	if s.Regions == nil && out {
		e.n(1).n(0)
	} else if s.Regions == nil {
		e.n(0)
	} else {
		e.n(1)
		var ks []int
		for k := range s.Regions {
			ks = append(ks, idNum(k))
		}
		sort.Ints(ks)
		e.n(len(ks))
		for _, k := range ks {
			e.n(k)
			encRegion(e, s.Regions[idStr(k)])
		}
	}
	if s.Styles == nil && out {
		e.n(1).n(0)
	} else if s.Styles == nil {
		e.n(0)
	} else {
		e.n(1)
		var ks []int
		for k := range s.Styles {
			ks = append(ks, idNum(k))
		}
		sort.Ints(ks)
		e.n(len(ks))
		for _, k := range ks {
			e.n(k)
			encStyle(e, s.Styles[idStr(k)])
		}
	}
}

func itemsString(items []*astisub.Item, u uidMap) string {
	e := &enc{}
	encItems(e, items, u)
	return e.String()
}

// payload of a cue: everything but the times, for "content untouched" checks
func payload(it *astisub.Item) string {
	e := &enc{}
	c := *it
	c.StartAt, c.EndAt = 0, 0
	encItem(e, &c, 0)
	return e.String() + fmt.Sprintf("|%p|%p|%p|%d|%v", it.Region, it.Style, it.InlineStyle, it.Index, it.Comments)
}

type humanItem struct {
	UID   int    `json:"uid"`
	Start int64  `json:"start_ns"`
	End   int64  `json:"end_ns"`
	Text  string `json:"text,omitempty"`
}

func humanItems(items []*astisub.Item, u uidMap) []humanItem {
	var o []humanItem
	for _, it := range items {
		o = append(o, humanItem{u[it], int64(it.StartAt), int64(it.EndAt), it.String()})
	}
	return o
}

func mkItem(s, e int64, text string) *astisub.Item {
	it := &astisub.Item{StartAt: time.Duration(s), EndAt: time.Duration(e)}
	if text != "" {
		it.Lines = []astisub.Line{{Items: []astisub.LineItem{{Text: text}}}}
	}
	return it
}

// safely runs f, returning the panic message if any (with the innermost library frame)
func safely(f func()) (p string) {
	defer func() {
		if x := recover(); x != nil {
			p = fmt.Sprint(x)
			if p == "" {
				p = "panic"
			}
			p += " at " + panicSite()
		}
	}()
	f()
	return ""
}

// innermost stack frame inside the library under test: "function (file:line)"
func panicSite() string {
	st := string(debug.Stack())
	if os.Getenv("VERIF_DEBUG_STACK") != "" {
		fmt.Fprintln(os.Stderr, st)
	}
	lines := strings.Split(st, "\n")
	// does the panic originate inside the third-party demultiplexer?
	third := ""
	seenPanic := false
	for i := 0; i < len(lines); i++ {
		l := lines[i]
		if strings.HasPrefix(l, "panic(") {
			seenPanic = true
			continue
		}
		if !seenPanic || strings.HasPrefix(l, "\t") {
			continue
		}
		if strings.HasPrefix(l, "github.com/asticode/go-astisub.") {
			break
		}
		if strings.HasPrefix(l, "github.com/asticode/go-astits.") {
			third = " [inside the third-party demultiplexer]"
			break
		}
	}
	defer func() { _ = third }()
	for i := 0; i+1 < len(lines); i++ {
		l := lines[i]
		if strings.HasPrefix(l, "github.com/asticode/go-astisub.") {
			fn := l
			if k := strings.LastIndex(fn, "("); k > 0 {
				fn = fn[:k]
			}
			fn = strings.TrimPrefix(fn, "github.com/asticode/go-astisub.")
			loc := strings.TrimSpace(lines[i+1])
			if k := strings.Index(loc, " +0x"); k > 0 {
				loc = loc[:k]
			}
			if k := strings.LastIndex(loc, "/"); k >= 0 {
				loc = loc[k+1:]
			}
			return fn + " (" + loc + ")" + third
		}
	}
	return "unknown site" + third
}

// random cue list: n cues; grid: time unit; maxT: number of units
func randItems(r *rng, n int, unit int64, maxT int64, texts int, ordered bool) []*astisub.Item {
	var items []*astisub.Item
	for i := 0; i < n; i++ {
		s := r.i64n(maxT) * unit
		e := s + r.i64n(maxT/2+1)*unit
		if r.chance(1, 12) {
			e = s
		}
		it := mkItem(s, e, "")
		nl := 1 + r.intn(2)
		t := r.intn(texts)
		for l := 0; l < nl; l++ {
			var ln astisub.Line
			nr := 1 + r.intn(2)
			for k := 0; k < nr; k++ {
				ln.Items = append(ln.Items, astisub.LineItem{Text: fmt.Sprintf("t%d.%d.%d", t, l, k)})
			}
			it.Lines = append(it.Lines, ln)
		}
		items = append(items, it)
	}
	if ordered {
		sort.SliceStable(items, func(i, j int) bool { return items[i].StartAt < items[j].StartAt })
	}
	return items
}

// ================================================================================================
// C12 Order / Merge
// ================================================================================================

func oracleOrder(before []*astisub.Item, after []*astisub.Item, u uidMap) string {
	if len(before) != len(after) {
		return fmt.Sprintf("length changed %d -> %d", len(before), len(after))
	}
	seen := map[*astisub.Item]bool{}
	for _, it := range after {
		if _, ok := u[it]; !ok || seen[it] {
			return "result is not a rearrangement of the same cues"
		}
		seen[it] = true
	}
	for i := 1; i < len(after); i++ {
		if after[i-1].StartAt > after[i].StartAt {
			return fmt.Sprintf("starts decrease at position %d", i)
		}
		if after[i-1].StartAt == after[i].StartAt && u[after[i-1]] > u[after[i]] {
			return fmt.Sprintf("cues with equal start swapped at position %d", i)
		}
	}
	return ""
}

func suiteOrder(R *runner, r *rng) {
	R.rule("order: all lists of <=5 cues with starts on 0..3 (exhaustive), then random lists of <=40 cues (tie-heavy or ns-granular); non-trivial = not already sorted")
	run := func(items []*astisub.Item, snap []int64) {
		u := uidsOf(items)
		before := append([]*astisub.Item{}, items...)
		in := (&enc{})
		encItems(in, items, u)
		h := humanItems(items, u)
		s := &astisub.Subtitles{Items: items}
		p := safely(func() { s.Order() })
		o := &obs{Suite: "order", Input: in.String(), Human: h}
		if p != "" {
			o.Impl, o.Oracle, o.Sig = "PANIC", "Order panicked: "+p, "order-panic"
		} else {
			o.Impl = itemsString(s.Items, u)
			o.Oracle = oracleOrder(before, s.Items, u)
			for i, it := range before {
				if int64(it.StartAt) != snap[2*i] || int64(it.EndAt) != snap[2*i+1] {
					o.Oracle = "Order changed a cue's times"
				}
			}
		}
		o.NT = o.Input != o.Impl
		R.add(o)
	}
	maxN := 5
	for n := 0; n <= maxN; n++ {
		idx := make([]int, n)
		for {
			var items []*astisub.Item
			var snap []int64
			for _, v := range idx {
				items = append(items, mkItem(int64(v), int64(v)+1, "x"))
				snap = append(snap, int64(v), int64(v)+1)
			}
			run(items, snap)
			k := n - 1
			for k >= 0 {
				idx[k]++
				if idx[k] < 4 {
					break
				}
				idx[k] = 0
				k--
			}
			if k < 0 {
				break
			}
		}
	}
	R.count("order.exhaustive.lists")
	N := 1500
	if R.tier == "thorough" {
		N = 30000
	}
	for c := 0; c < N; c++ {
		n := r.intn(41)
		unit, maxT := int64(1), int64(6)
		if c%2 == 1 {
			unit, maxT = 1, 3600_000_000_000
		}
		items := randItems(r, n, unit, maxT, 3, false)
		var snap []int64
		for _, it := range items {
			snap = append(snap, int64(it.StartAt), int64(it.EndAt))
		}
		R.countN("order.random.cues", n)
		run(items, snap)
	}
}

type defs struct {
	regions map[string]*astisub.Region
	styles  map[string]*astisub.Style
}

// random definitions: keys and value IDs drawn from 0..idRange-1; when keyIsID the key is the ID
func randDefs(r *rng, idRange int, keyIsID bool, nilMaps bool, tag bool) defs {
	d := defs{}
	if !nilMaps || r.chance(1, 2) {
		d.styles = map[string]*astisub.Style{}
	}
	if !nilMaps || r.chance(1, 2) {
		d.regions = map[string]*astisub.Region{}
	}
	usedIDs := map[int]bool{}
	ns := r.intn(idRange + 1)
	var styleList []*astisub.Style
	for i := 0; i < ns && d.styles != nil; i++ {
		id := r.intn(idRange)
		if usedIDs[id] {
			continue
		}
		usedIDs[id] = true
		st := &astisub.Style{ID: idStr(id)}
		if tag {
			st.InlineStyle = &astisub.StyleAttributes{}
		}
		if len(styleList) > 0 && r.chance(1, 2) {
			st.Style = styleList[r.intn(len(styleList))]
		}
		styleList = append(styleList, st)
		key := id
		if !keyIsID && r.chance(1, 3) {
			key = id + 100
		}
		d.styles[idStr(key)] = st
	}
	usedIDs = map[int]bool{}
	nr := r.intn(idRange + 1)
	for i := 0; i < nr && d.regions != nil; i++ {
		id := r.intn(idRange)
		if usedIDs[id] {
			continue
		}
		usedIDs[id] = true
		rg := &astisub.Region{ID: idStr(id)}
		if tag {
			rg.InlineStyle = &astisub.StyleAttributes{}
		}
		if len(styleList) > 0 && r.chance(1, 2) {
			rg.Style = styleList[r.intn(len(styleList))]
		}
		key := id
		if !keyIsID && r.chance(1, 3) {
			key = id + 100
		}
		d.regions[idStr(key)] = rg
	}
	return d
}

func suiteMerge(R *runner, r *rng) {
	R.rule("merge: random pairs (receiver A, argument B) of lists of 0..8 cues on a tie-heavy grid, definition maps with overlapping identifiers, receivers with nil maps (built without the constructor), B's definitions tagged so that the winner of a clash is visible; non-trivial = B contributes a cue or a definition")
	N := 3000
	if R.tier == "thorough" {
		N = 60000
	}
	for c := 0; c < N; c++ {
		na, nb := r.intn(9), r.intn(9)
		ai := randItems(r, na, 1, 5, 2, r.chance(1, 2))
		bi := randItems(r, nb, 1, 5, 2, r.chance(1, 2))
		nilRecv := r.chance(1, 4)
		ad := randDefs(r, 5, r.chance(2, 3), nilRecv, false)
		bd := randDefs(r, 5, r.chance(2, 3), r.chance(1, 6), true)
		a := &astisub.Subtitles{Items: ai, Regions: ad.regions, Styles: ad.styles}
		b := &astisub.Subtitles{Items: bi, Regions: bd.regions, Styles: bd.styles}
		all := append(append([]*astisub.Item{}, ai...), bi...)
		u := uidsOf(all)
		in := &enc{}
		encSubs(in, a, u)
		encSubs(in, b, u)
		// B's definitions in a fixed order (IDs are distinct, so the order is immaterial: C12_merge_order_independent)
		var rk, sk []string
		for k := range b.Regions {
			rk = append(rk, k)
		}
		for k := range b.Styles {
			sk = append(sk, k)
		}
		sort.Strings(rk)
		sort.Strings(sk)
		in.n(len(rk))
		for _, k := range rk {
			encRegion(in, b.Regions[k])
		}
		in.n(len(sk))
		for _, k := range sk {
			encStyle(in, b.Styles[k])
		}
		// snapshots for the oracle
		aRegions := map[string]*astisub.Region{}
		for k, v := range a.Regions {
			aRegions[k] = v
		}
		aStyles := map[string]*astisub.Style{}
		for k, v := range a.Styles {
			aStyles[k] = v
		}
		bSnap := &enc{}
		encSubs(bSnap, b, u)
		bItems := append([]*astisub.Item{}, b.Items...)
		human := map[string]interface{}{"a_items": humanItems(ai, u), "b_items": humanItems(bi, u), "a_region_keys": keysOf(a.Regions), "a_style_keys": keysOfS(a.Styles), "b_region_ids": rk, "b_style_ids": sk, "a_nil_regions": a.Regions == nil, "a_nil_styles": a.Styles == nil}
		o := &obs{Suite: "merge", Input: in.String(), Human: human, NT: nb > 0 || len(rk) > 0 || len(sk) > 0}
		if nilRecv {
			R.count("merge.receiver_with_nil_map")
		}
		p := safely(func() { a.Merge(b) })
		if p != "" {
			o.Impl, o.Oracle, o.Sig = "PANIC", "Merge panicked: "+p, "merge-panic-nil-map"
			R.add(o)
			continue
		}
		out := &enc{}
		encSubsOut(out, a, u)
		o.Impl = out.String()
		// oracle
		o.Oracle = oracleOrder(all, a.Items, u)
		if o.Oracle == "" {
			for id, v := range aRegions {
				if a.Regions[id] != v {
					o.Oracle = "receiver's region " + id + " replaced"
				}
			}
			for id, v := range aStyles {
				if a.Styles[id] != v {
					o.Oracle = "receiver's style " + id + " replaced"
				}
			}
			for _, v := range b.Regions {
				if _, ok := aRegions[v.ID]; !ok && a.Regions[v.ID] != v {
					o.Oracle = "argument's region " + v.ID + " missing"
				}
			}
			for _, v := range b.Styles {
				if _, ok := aStyles[v.ID]; !ok && a.Styles[v.ID] != v {
					o.Oracle = "argument's style " + v.ID + " missing"
				}
			}
			for id := range a.Regions {
				_, inA := aRegions[id]
				inB := false
				for _, v := range b.Regions {
					if v.ID == id {
						inB = true
					}
				}
				if !inA && !inB {
					o.Oracle = "unexpected region " + id
				}
			}
			for id := range a.Styles {
				_, inA := aStyles[id]
				inB := false
				for _, v := range b.Styles {
					if v.ID == id {
						inB = true
					}
				}
				if !inA && !inB {
					o.Oracle = "unexpected style " + id
				}
			}
			bAfter := &enc{}
			encSubs(bAfter, b, u)
			if bAfter.String() != bSnap.String() || len(b.Items) != len(bItems) {
				o.Oracle = "argument B was modified"
			}
			for i := range bItems {
				if i < len(b.Items) && b.Items[i] != bItems[i] {
					o.Oracle = "argument B's cue list was rearranged"
				}
			}
		}
		R.add(o)
	}
}

func keysOf(m map[string]*astisub.Region) []string {
	var ks []string
	for k := range m {
		ks = append(ks, k)
	}
	sort.Strings(ks)
	return ks
}
func keysOfS(m map[string]*astisub.Style) []string {
	var ks []string
	for k := range m {
		ks = append(ks, k)
	}
	sort.Strings(ks)
	return ks
}
