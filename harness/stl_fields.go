package main

// C05 EBU STL: field-level correspondence suites (character codec, row parsers, GSI and TTI block codecs)
// between the implementation (through the verif hooks) and the Coq model.

import (
	"fmt"
	"strings"
	"time"

	astisub "github.com/asticode/go-astisub"
	"golang.org/x/text/unicode/norm"
)

var stlTextPalette = []string{
	"a", "e", "o", "u", "A", "Z", "q", " ", " ", "$", "¤", "Ω", "Ω", "é", "è", "ü", "ñ", "ç", "Å", "ő", "ą", "č", "ǖ", "Ǻ", "ẁ", "ạ", "ȩ", "ḝ",
	"́", "̀", "̧", "̨", "̣", "̈", "²", "µ", "½", "™", "ª", "ŉ", "ĸ", "ß", "Æ", "æ", "Ŀ", "ŀ", "♪", "―", "‘", "”", " ", "­", "←", "⅞", "¦",
	"\n", "\u0080", "\u0085", "\u008a", "¨", "¸", "Ð", "ÿ", "Ǆ", "ƒ", "ɏ", "€", "ж", "中", "😀", "ﬁ", "\xff", "\xc3", "ͅ", "가",
}

func suiteStlFields(R *runner, r *rng, N int) {
	// encodeTextSTL
	for c := 0; c < 2*N; c++ {
		var b strings.Builder
		n := r.intn(12)
		for i := 0; i < n; i++ {
			if r.chance(1, 4) {
				b.WriteString(randSTLChar(r, true))
			} else {
				b.WriteString(stlTextPalette[r.intn(len(stlTextPalette))])
			}
		}
		t := b.String()
		if c%6 == 0 {
			t = norm.NFD.String(t)
		}
		var out []byte
		p := safely(func() { out = astisub.VerifEncodeTextSTL(t) })
		o := &obs{Suite: "stlenc", Group: "stl.encode_text", Input: (&enc{}).str(t).String(), NT: t != "", Human: map[string]interface{}{"text": t}}
		if p != "" {
			o.Impl, o.Oracle, o.Sig = "2", "encodeTextSTL panicked: "+p, "stl-encode-panic"
		} else {
			o.Impl = (&enc{}).n(0).bytes(out).String()
		}
		R.add(o)
	}
	// every single known character and every pair, through the encoder
	for _, row := range stlRepertoireRows(1, true) {
		t := row[0].Text
		out := astisub.VerifEncodeTextSTL(t)
		R.add(&obs{Suite: "stlenc", Group: "stl.encode_text", Input: (&enc{}).str(t).String(), NT: true, Impl: (&enc{}).n(0).bytes(out).String(), Human: map[string]interface{}{"text": t}})
	}
	// stlCharacterHandler.decode over byte strings
	for c := 0; c < 2*N; c++ {
		n := r.intn(10)
		bs := make([]byte, n)
		for i := range bs {
			switch r.intn(4) {
			case 0:
				bs[i] = byte(0xc0 + r.intn(16))
			case 1:
				bs[i] = byte(r.intn(256))
			default:
				bs[i] = byte(0x20 + r.intn(0x5f))
			}
		}
		out, pending, err := astisub.VerifSTLDecode(12336, bs)
		if err != nil {
			fatal("harness: VerifSTLDecode: %v", err)
		}
		e := (&enc{}).bytes(out)
		e.opt(stlPendingByte(pending))
		R.add(&obs{Suite: "stldec", Group: "stl.decode_bytes", Input: (&enc{}).bytes(bs).String(), NT: n > 0, Impl: e.String(), Human: map[string]interface{}{"bytes": fmt.Sprintf("% x", bs)}})
	}
	// all byte pairs (accent, byte): the generated NFC table against the code
	for _, a := range stlFloatBytes {
		for b := 0; b < 256; b++ {
			bs := []byte{a, byte(b)}
			out, pending, _ := astisub.VerifSTLDecode(12336, bs)
			e := (&enc{}).bytes(out)
			e.opt(stlPendingByte(pending))
			R.add(&obs{Suite: "stldec", Group: "stl.decode_bytes", Input: (&enc{}).bytes(bs).String(), NT: true, Impl: e.String(), Human: map[string]interface{}{"bytes": fmt.Sprintf("% x", bs)}})
		}
	}
	// rows
	rowBytes := []byte{0x00, 0x01, 0x07, 0x08, 0x0a, 0x0b, 0x0b, 0x0c, 0x0d, 0x0e, 0x0f, 0x1f, 0x20, 0x20, 0x80, 0x81, 0x82, 0x83, 0x84, 0x85, 0x86, 0x8f, 0xa0, 0xc2, 0xc8, 0xcb, 'a', 'e', 'b', 'c', ' ', 0xe0, 0xa8, 0x24}
	for c := 0; c < 3*N; c++ {
		n := r.intn(16)
		row := make([]byte, n)
		for i := range row {
			if r.chance(1, 10) {
				row[i] = byte(r.intn(256))
			} else {
				row[i] = rowBytes[r.intn(len(rowBytes))]
			}
		}
		openRow := c%2 == 0
		if openRow && r.chance(2, 3) {
			for i := range row {
				if row[i] < 0x20 {
					row[i] = 0x80 + row[i]%6
				}
			}
		}
		var acc byte
		if r.chance(1, 5) {
			acc = stlFloatBytes[r.intn(len(stlFloatBytes))]
		}
		in := (&enc{}).bytes(row)
		if acc == 0 {
			in.n(0)
		} else {
			in.n(int(acc) + 1)
		}
		var lines []astisub.Line
		var pending string
		var err error
		suite, group := "stlttxrow", "stl.teletext_row"
		if openRow {
			suite, group = "stlopenrow", "stl.open_row"
		}
		p := safely(func() {
			if openRow {
				lines, pending, err = astisub.VerifSTLParseOpenRow(row, acc)
			} else {
				lines, pending, err = astisub.VerifSTLParseTeletextRow(row, acc)
			}
		})
		o := &obs{Suite: suite, Group: group, Input: in.String(), NT: n > 0, Human: map[string]interface{}{"row": fmt.Sprintf("% x", row), "pending_accent": acc}}
		switch {
		case p != "":
			o.Impl, o.Oracle, o.Sig = "2", "row parser panicked: "+p, "stl-row-panic"
		case err != nil:
			o.Impl = "1"
		default:
			e := (&enc{}).n(0)
			if len(lines) == 0 {
				e.n(0)
			} else {
				e.n(len(lines[0].Items))
				for _, li := range lines[0].Items {
					encSTLRun(e, li)
				}
			}
			e.opt(stlPendingByte(pending))
			o.Impl = e.String()
		}
		R.add(o)
	}
	// GSI blocks: parse
	for c := 0; c < N; c++ {
		f := randSTLFile(r, 0, false, false)
		blk := renderGSI(r, f)
		for k := 0; k < r.intn(6); k++ {
			if r.chance(1, 2) {
				off := []int{0, 3, 11, 12, 13, 14, 224, 230, 236, 238, 243, 248, 251, 253, 255, 256, 264, 272, 273, 274}[r.intn(20)] + r.intn(3)
				blk[off] = []byte{' ', '0', '9', '-', '+', 'x', 0xa0, 0x85, 0xc2, '1', '3'}[r.intn(11)]
			} else {
				blk[r.intn(1024)] = byte(r.intn(256))
			}
		}
		var g astisub.VerifGSI
		var err error
		p := safely(func() { g, err = astisub.VerifSTLParseGSIBlock(blk) })
		o := &obs{Suite: "stlgsi", Group: "stl.gsi_parse", Input: (&enc{}).bytes(blk).String(), NT: true, Human: map[string]interface{}{"block_hex": hexShort(blk)}}
		switch {
		case p != "":
			o.Impl, o.Oracle, o.Sig = "2", "parseGSIBlock panicked: "+p, "stl-gsi-panic"
		case err != nil:
			o.Impl = "1"
		default:
			e := (&enc{}).n(0)
			encVerifGSI(e, g)
			o.Impl = e.String()
		}
		R.add(o)
	}
	// GSI blocks: bytes
	for c := 0; c < N; c++ {
		f := randSTLFile(r, 0, false, false)
		g := astisub.VerifGSI{
			CharacterCodeTableNumber: uint16(r.intn(65536)), CodePageNumber: uint32(r.intn(1 << 24)), CountryOfOrigin: f.CO,
			DiskSequenceNumber: r.intn(12) - 1, DisplayStandardCode: r.pick("0", "1", "2", "", "12"), EditorContactDetails: f.ECD, EditorName: f.EN,
			Framerate: []int{25, 30, 0, 24}[r.intn(4)], LanguageCode: r.pick("09", "0F", "", "123"),
			MaximumNumberOfDisplayableCharactersInAnyTextRow: r.intn(140) - 20, MaximumNumberOfDisplayableRows: r.intn(140) - 20,
			OriginalEpisodeTitle: f.OET + strings.Repeat("x", r.intn(3)*20), OriginalProgramTitle: f.OPT, Publisher: f.PUB,
			RevisionNumber: r.intn(300) - 100, SubtitleListReferenceCode: f.SLR + strings.Repeat("y", r.intn(2)*20),
			TimecodeFirstInCue: time.Duration(r.i64n(30 * 3600 * 1e9)), TimecodeStartOfProgramme: time.Duration(r.i64n(120 * 3600 * 1e9)),
			TimecodeStatus: r.pick("0", "1", ""), TotalNumberOfDisks: r.intn(12), TotalNumberOfSubtitleGroups: r.intn(2000),
			TotalNumberOfSubtitles: r.intn(200000), TotalNumberOfTTIBlocks: r.intn(200000), TranslatedEpisodeTitle: f.TET, TranslatedProgramTitle: f.TPT,
			TranslatorContactDetails: f.TCD, TranslatorName: f.TN, UserDefinedArea: f.UDA,
		}
		if d := stlDatePtr(f.CD); d != nil {
			g.CreationDate = *d
		} else {
			g.CreationDate = stlNow
		}
		if d := stlDatePtr(f.RD); d != nil {
			g.RevisionDate = *d
		} else {
			g.RevisionDate = stlNow
		}
		var out []byte
		p := safely(func() { out = astisub.VerifSTLGSIBlockBytes(g) })
		e := &enc{}
		encVerifGSI(e, g)
		o := &obs{Suite: "stlgsiw", Group: "stl.gsi_bytes", Input: e.String(), NT: true, Human: map[string]interface{}{"gsi": fmt.Sprintf("%+v", g)}}
		if p != "" {
			o.Impl, o.Oracle, o.Sig = "2", "gsiBlock.bytes panicked: "+p, "stl-gsi-bytes-panic"
		} else {
			o.Impl = (&enc{}).n(0).bytes(out).String()
			if len(out) != 1024 {
				o.Oracle, o.Sig = fmt.Sprintf("GSI block of %d bytes", len(out)), "stl-gsi-length"
			}
		}
		R.add(o)
	}
	// TTI blocks: parse and bytes
	for c := 0; c < N; c++ {
		blk := make([]byte, 128)
		for i := range blk {
			blk[i] = byte(r.intn(256))
		}
		fps := []int{25, 30}[r.intn(2)]
		t := astisub.VerifSTLParseTTIBlock(blk, fps)
		e := &enc{}
		encVerifTTI(e, t)
		R.add(&obs{Suite: "stltti", Group: "stl.tti_parse", Input: (&enc{}).bytes(blk).n(fps).String(), NT: true, Impl: e.String(), Human: map[string]interface{}{"block_hex": hexShort(blk)}})

		var tb strings.Builder
		for i := 0; i < r.intn(30); i++ {
			tb.WriteString(randSTLChar(r, true))
		}
		if r.chance(1, 4) {
			tb.WriteString(strings.Repeat("ab", 60))
		}
		w := astisub.VerifTTI{CommentFlag: byte(r.intn(3)), CumulativeStatus: byte(r.intn(4)), ExtensionBlockNumber: r.intn(300), JustificationCode: byte(r.intn(5)),
			SubtitleGroupNumber: r.intn(300), SubtitleNumber: r.intn(70000), Text: []byte(tb.String()),
			TimecodeIn: time.Duration(r.i64n(24 * 3600 * 1e9)), TimecodeOut: time.Duration(r.i64n(300 * 3600 * 1e9)), VerticalPosition: r.intn(300) - 20}
		dsc := r.pick("0", "1", "2", "", "3")
		var out []byte
		p := safely(func() { out = astisub.VerifSTLTTIBlockBytes(w, fps, dsc) })
		in := &enc{}
		encVerifTTI(in, w)
		in.n(fps).str(dsc)
		o := &obs{Suite: "stlttiw", Group: "stl.tti_bytes", Input: in.String(), NT: true, Human: map[string]interface{}{"tti": fmt.Sprintf("%+v", w), "fps": fps, "dsc": dsc}}
		if p != "" {
			o.Impl, o.Oracle, o.Sig = "2", "ttiBlock.bytes panicked: "+p, "stl-tti-bytes-panic"
		} else {
			o.Impl = (&enc{}).n(0).bytes(out).String()
			if len(out) != 128 {
				o.Oracle, o.Sig = fmt.Sprintf("TTI block of %d bytes", len(out)), "stl-tti-length"
			}
		}
		R.add(o)
	}
}

// the pending accent as its table byte (the handler keeps the accent's string)
func stlPendingByte(pending string) int {
	if pending == "" {
		return -1
	}
	for b, m := range iso6937Floating {
		if string(m) == pending {
			return int(b)
		}
	}
	// an accent byte the harness's table does not know: look it up in the library's table
	for b := 0xc0; b <= 0xcf; b++ {
		if v, ok := astisub.VerifSTLTableGet(12336, b); ok && v == pending {
			return b
		}
	}
	return 0
}

func encVerifGSI(e *enc, g astisub.VerifGSI) {
	d := func(t time.Time) string {
		if t.IsZero() {
			return ""
		}
		return fmt.Sprintf("%02d%02d%02d", t.Year()%100, int(t.Month()), t.Day())
	}
	e.n(int(g.CharacterCodeTableNumber)).n(int(g.CodePageNumber)).str(g.CountryOfOrigin).str(d(g.CreationDate)).n(g.DiskSequenceNumber).str(g.DisplayStandardCode)
	e.str(g.EditorContactDetails).str(g.EditorName).n(g.Framerate).str(g.LanguageCode).n(g.MaximumNumberOfDisplayableCharactersInAnyTextRow).n(g.MaximumNumberOfDisplayableRows)
	e.str(g.OriginalEpisodeTitle).str(g.OriginalProgramTitle).str(g.Publisher).str(d(g.RevisionDate)).n(g.RevisionNumber).str(g.SubtitleListReferenceCode)
	e.i(int64(g.TimecodeFirstInCue)).i(int64(g.TimecodeStartOfProgramme)).str(g.TimecodeStatus).n(g.TotalNumberOfDisks).n(g.TotalNumberOfSubtitleGroups)
	e.n(g.TotalNumberOfSubtitles).n(g.TotalNumberOfTTIBlocks).str(g.TranslatedEpisodeTitle).str(g.TranslatedProgramTitle).str(g.TranslatorContactDetails)
	e.str(g.TranslatorName).str(g.UserDefinedArea)
}

func encVerifTTI(e *enc, t astisub.VerifTTI) {
	e.n(int(t.CommentFlag)).n(int(t.CumulativeStatus)).n(t.ExtensionBlockNumber).n(int(t.JustificationCode)).n(t.SubtitleGroupNumber).n(t.SubtitleNumber)
	e.bytes(t.Text).i(int64(t.TimecodeIn)).i(int64(t.TimecodeOut)).n(t.VerticalPosition)
}
