package main

// C04 SSA/ASS: ground-truth documents, Format-driven renderings, an independent Format-driven decoder.

import (
	"bytes"
	"fmt"
	"math"
	"sort"
	"strconv"
	"strings"
	"time"

	astisub "github.com/asticode/go-astisub"
)

type ssaVal struct {
	Kind byte // b bool, c colour, f float (x1000), i int, s string
	B    bool
	C    [4]uint8 // A B G R
	F    int64
	I    int
	S    string
}

func (v ssaVal) String() string {
	switch v.Kind {
	case 'b':
		return fmt.Sprint(v.B)
	case 'c':
		return fmt.Sprintf("&H%02X%02X%02X%02X", v.C[0], v.C[1], v.C[2], v.C[3])
	case 'f':
		return fmt.Sprintf("%d/1000", v.F)
	case 'i':
		return strconv.Itoa(v.I)
	}
	return v.S
}

var ssaStyleAttrs = []struct {
	name string
	kind byte
}{
	{"Alignment", 'i'}, {"AlphaLevel", 'f'}, {"Angle", 'f'}, {"BackColour", 'c'}, {"Bold", 'b'}, {"BorderStyle", 'i'}, {"Encoding", 'i'},
	{"Fontname", 's'}, {"Fontsize", 'f'}, {"Italic", 'b'}, {"MarginL", 'i'}, {"MarginR", 'i'}, {"MarginV", 'i'}, {"Outline", 'f'},
	{"OutlineColour", 'c'}, {"PrimaryColour", 'c'}, {"ScaleX", 'f'}, {"ScaleY", 'f'}, {"SecondaryColour", 'c'}, {"Shadow", 'f'},
	{"Spacing", 'f'}, {"Strikeout", 'b'}, {"Underline", 'b'},
}

type ssaStyleGT struct {
	Name  string
	Attrs map[string]ssaVal
}
type ssaRunGT struct{ Text, Effect string }
type ssaEventGT struct {
	Start, End                int64
	Style, Name, Effect       string
	MarginL, MarginR, MarginV *int
	Layer                     *int
	Marked                    *bool
	Lines                     [][]ssaRunGT
}
type ssaDocGT struct {
	Info     map[string]string // script info string fields + PlayResX/Y/PlayDepth (decimal) + Timer (x1000 as string)
	Comments []string
	Styles   []ssaStyleGT
	Events   []ssaEventGT
	V4plus   bool
}

var ssaInfoStrings = []string{"Collisions", "Original Editing", "Original Script", "Original Timing", "Original Translation", "ScriptType", "Script Updated By", "Synch Point", "Title", "Update Details", "WrapStyle"}

func randSsaDoc(r *rng) *ssaDocGT {
	d := &ssaDocGT{Info: map[string]string{}, V4plus: r.chance(1, 2)}
	for _, k := range ssaInfoStrings {
		if r.chance(1, 3) {
			d.Info[k] = r.pick("value", "a: b", "x,y", "Normal", "1.0")
		}
	}
	d.Info["ScriptType"] = "v4.00"
	if d.V4plus {
		d.Info["ScriptType"] = "v4.00+"
	}
	for _, k := range []string{"PlayResX", "PlayResY", "PlayDepth"} {
		if r.chance(1, 3) {
			d.Info[k] = strconv.Itoa(r.intn(2000))
		}
	}
	if r.chance(1, 3) {
		d.Info["Timer"] = strconv.Itoa(r.intn(200) * 500)
	}
	if r.chance(1, 3) {
		d.Comments = []string{"first comment", "second: one"}[:1+r.intn(2)]
	}
	ns := r.intn(4)
	for i := 0; i < ns; i++ {
		st := ssaStyleGT{Name: []string{"Default", "Alt", "Big one", "s3"}[i], Attrs: map[string]ssaVal{}}
		for _, a := range ssaStyleAttrs {
			if r.chance(1, 5) {
				continue
			}
			switch a.kind {
			case 'b':
				st.Attrs[a.name] = ssaVal{Kind: 'b', B: r.chance(1, 2)}
			case 'c':
				st.Attrs[a.name] = ssaVal{Kind: 'c', C: [4]uint8{uint8(r.intn(128)), uint8(r.intn(256)), uint8(r.intn(256)), uint8(r.intn(256))}}
			case 'f':
				st.Attrs[a.name] = ssaVal{Kind: 'f', F: int64(r.intn(200)) * 500}
			case 'i':
				st.Attrs[a.name] = ssaVal{Kind: 'i', I: r.intn(12)}
			default:
				st.Attrs[a.name] = ssaVal{Kind: 's', S: r.pick("Arial", "Tahoma", "DejaVu Sans")}
			}
		}
		d.Styles = append(d.Styles, st)
	}
	ne := r.intn(6)
	var t int64
	effects := []string{"{\\b1}", "{\\i1}", "{\\c&H00FF00&}", "{\\pos(10,20)}", "{\\b0\\i0}", "{\\an8}"}
	for i := 0; i < ne; i++ {
		e := ssaEventGT{}
		t += r.i64n(400) * 1e7
		e.Start = t
		t += (1 + r.i64n(400)) * 1e7
		e.End = t
		if len(d.Styles) > 0 && r.chance(2, 3) {
			e.Style = d.Styles[r.intn(len(d.Styles))].Name
		} else if r.chance(1, 4) {
			// a style name the styles section may not declare: the cue then has no style reference
			e.Style = r.pick("Ghost", "Default", "Alt", "undeclared one")
		}
		if r.chance(1, 3) {
			e.Name = r.pick("Bob", "Mary Ann")
		}
		if r.chance(1, 4) {
			e.Effect = r.pick("Scroll up;10;100", "Banner;5")
		}
		if r.chance(1, 2) {
			e.MarginL, e.MarginR, e.MarginV = intPtr(r.intn(30)), intPtr(r.intn(30)), intPtr(r.intn(30))
		}
		if d.V4plus {
			e.Layer = intPtr(r.intn(4))
		} else {
			b := r.chance(1, 3)
			e.Marked = &b
		}
		nl := 1 + r.intn(3)
		// what a text line can denote: the line's own leading/trailing white space is not representable (the
		// format strips it), an un-styled run can only be the first run of its line, a run opened by an
		// override block may have no text (two blocks back to back, or a block at the end of the line) and
		// its text may begin with a blank; any run that is followed by a block may end with a blank; a line
		// may be empty (no text, no block), the first line(s) of an event included
		lead := 0
		if r.chance(1, 6) {
			lead = 1 + r.intn(2) // the event starts with one or two empty lines
			nl += lead
		}
		for l := 0; l < nl; l++ {
			var runs []ssaRunGT
			if l < lead || (l > 0 && r.chance(1, 10)) {
				e.Lines = append(e.Lines, runs) // an empty line
				continue
			}
			nr := 1 + r.intn(3)
			if r.chance(1, 5) {
				nr++
			}
			for k := 0; k < nr; k++ {
				run := ssaRunGT{Text: r.pick("hello", "Hello, world", "a: b", "x", "c'est ça", "1,2,3", "wait...", "中文")}
				if k > 0 || r.chance(1, 2) {
					run.Effect = effects[r.intn(len(effects))]
				}
				if run.Effect != "" && r.chance(1, 4) {
					run.Text = "" // a block immediately followed by the next block (or ending the line)
				}
				if run.Effect != "" && run.Text != "" && r.chance(1, 6) {
					run.Text = " " + run.Text
				}
				if k < nr-1 && run.Text != "" && r.chance(1, 4) {
					run.Text += " "
				}
				runs = append(runs, run)
			}
			e.Lines = append(e.Lines, runs)
		}
		d.Events = append(d.Events, e)
	}
	return d
}

// ---- rendering ----------------------------------------------------------------------------------

func ssaStamp(r *rng, ns int64) string {
	if ssaCells != nil {
		return ssaStampAny(r, ns)
	}
	cs := ns / 1e7
	h, m, s, c := cs/360000, cs/6000%60, cs/100%60, cs%100
	if r.chance(1, 3) {
		return fmt.Sprintf("%02d:%02d:%02d.%02d", h, m, s, c)
	}
	return fmt.Sprintf("%d:%02d:%02d.%02d", h, m, s, c)
}

func ssaRenderVal(r *rng, v ssaVal) string {
	if ssaCells != nil {
		return ssaRenderValAny(r, v)
	}
	switch v.Kind {
	case 'b':
		if v.B {
			return "-1"
		}
		return "0"
	case 'c':
		n := uint32(v.C[0])<<24 | uint32(v.C[1])<<16 | uint32(v.C[2])<<8 | uint32(v.C[3])
		if r.chance(1, 2) {
			return strconv.FormatUint(uint64(n), 10)
		}
		return fmt.Sprintf("&H%08X", n)
	case 'f':
		if v.F%1000 == 0 && r.chance(1, 2) {
			return strconv.FormatInt(v.F/1000, 10)
		}
		return strings.TrimRight(fmt.Sprintf("%d.%03d", v.F/1000, v.F%1000), "0")
	case 'i':
		return strconv.Itoa(v.I)
	}
	return v.S
}

// the separator is chosen per line break: \N and \n may both occur in one event
func ssaEventText(lines [][]ssaRunGT, nl func() string) string {
	var b strings.Builder
	for i, l := range lines {
		if i > 0 {
			b.WriteString(nl())
		}
		for _, ru := range l {
			b.WriteString(ru.Effect + ru.Text)
		}
	}
	return b.String()
}

// returns the document and, per section, the columns that were included (the others are not observable)
func renderSsa(r *rng, d *ssaDocGT) (string, map[string]bool, map[string]bool) {
	doc, sc, ec, _ := renderSsaWith(r, d, nil)
	return doc, sc, ec
}

// ssaExtras: lines the format tolerates beyond the plain rendering - unknown script-info keys, comment lines in the
// styles / events sections and before the first section header, unintelligible and "key: value" lines before the
// first header, a second Format line inside a section.  Every choice is drawn from the private generator x (derived
// from the run seed and the case index), so the main generator is consumed exactly as without extras.
type ssaExtras struct {
	R *runner
	x *rng
}

func newSsaExtras(R *runner, c int, salt uint64) *ssaExtras {
	return &ssaExtras{R: R, x: newRng(R.seed*1000003 + uint64(c)*16 + salt)}
}

func (ex *ssaExtras) count(what string) { ex.R.count("ssa.render." + what) }

// a second Format line for a section whose columns in force are old (keepLast: the last column stays last): the new
// line's column list and the columns in force after it (the reader overwrites entries 0..k-1 and keeps the rest)
func (ex *ssaExtras) format2(old []string, keepLast bool, section string) (line []string, inForce []string) {
	n := len(old)
	movable := n
	if keepLast {
		movable = n - 1
	}
	perm := func(l []string) []string {
		o := append([]string{}, l...)
		for i := len(o) - 1; i > 0; i-- {
			j := ex.x.intn(i + 1)
			o[i], o[j] = o[j], o[i]
		}
		return o
	}
	kind := ex.x.pick("permuted", "shorter", "longer")
	if kind == "shorter" && n < 2 {
		kind = "permuted"
	}
	switch kind {
	case "shorter":
		k := 1 + ex.x.intn(n-1) // 1..n-1 columns: the last column in force is never overwritten
		line = perm(old[:k])
		inForce = append(append([]string{}, line...), old[k:]...)
	case "longer":
		extras := []string{ex.x.pick("Whatever", "Extra Column", old[ex.x.intn(movable)])}
		if ex.x.chance(1, 2) {
			extras = append(extras, ex.x.pick("Unknown2", old[ex.x.intn(movable)]))
		}
		line = perm(append(append([]string{}, old[:movable]...), extras...))
		line = append(line, old[movable:]...)
		inForce = line
	default:
		line = append(perm(old[:movable]), old[movable:]...)
		inForce = line
	}
	ex.count(section + "_format2_" + kind)
	return
}

// the cells of a row laid out for the columns in force: the cell rendered for the column of that name, an arbitrary
// comma-free cell under a name the first Format line did not have
func (ex *ssaExtras) layout(cols, vals, inForce []string) []string {
	m := map[string]string{}
	for i, c := range cols {
		m[c] = vals[i]
	}
	var out []string
	for _, c := range inForce {
		if v, ok := m[c]; ok {
			out = append(out, v)
		} else {
			out = append(out, ex.x.pick("", "zz", "12", "&H00FF00FF", "not a number"))
		}
	}
	return out
}

// renderSsaWith: as renderSsa; with ex != nil the extra lines above; the fourth result lists the comment lines of
// the whole document in order (they all count as script-info comments, wherever they stand outside unknown sections)
func renderSsaWith(r *rng, d *ssaDocGT, ex *ssaExtras) (string, map[string]bool, map[string]bool, []string) {
	eol := r.pick("\n", "\r\n", "\r")
	var L []string
	var comments []string
	comment := func(where, text string) {
		L = append(L, ex.x.pick("; ", ";", ";  ")+text+ex.x.pick("", "", " "))
		comments = append(comments, text)
		ex.count(where + "_comment")
	}
	if ex != nil { // before the first section header
		for k := ex.x.intn(4); k > 0 && ex.x.chance(1, 3); k-- {
			switch ex.x.intn(3) {
			case 0:
				comment("pre", ex.x.pick("made by hand", "pre: amble", "0"))
			case 1:
				L = append(L, ex.x.pick("stray line before any section", "]not a header[", ":colon first"))
				ex.count("pre_junk")
			default:
				L = append(L, ex.x.pick("Title: ignored before any section", "Format: Name, Fontname", "Style: x,y", "Dialogue: 0,0:00:00.00,0:00:01.00,,ignored", "PlayResX: not a number"))
				ex.count("pre_keyvalue")
			}
		}
	}
	sec := func(s string) string {
		switch r.intn(3) {
		case 0:
			return strings.ToUpper(s)
		case 1:
			return strings.ToLower(s)
		}
		return s
	}
	junk := func() {
		if r.chance(1, 4) {
			L = append(L, r.pick("Not understood line", "", "  ", "garbage without colon"))
		}
	}
	L = append(L, sec("[Script Info]"))
	for _, c := range d.Comments {
		L = append(L, "; "+c)
		comments = append(comments, c)
	}
	unknownKey := func() {
		if ex == nil || !ex.x.chance(1, 6) {
			return
		}
		switch ex.x.intn(4) {
		case 0:
			L = append(L, ex.x.pick("Audio URI: http://host:8080/a.wav", "Video File: C:\\clips\\a: b.avi", "Last Style Storage: a:b:c", "Export Encoding : x:y"))
			ex.count("unknown_key_colons")
		case 1:
			L = append(L, ex.x.pick("Video Zoom:", "Collisions2:", "Scroll Position :"))
			ex.count("unknown_key_novalue")
		default:
			L = append(L, ex.x.pick("ScaledBorderAndShadow: yes", "YCbCr Matrix: TV.601", "Video Aspect Ratio: 0", "title: lower case is another key", "PlayResZ: 12", "Timer2: abc"))
			ex.count("unknown_key")
		}
	}
	unknownKey()
	var keys []string
	for k := range d.Info {
		keys = append(keys, k)
	}
	sort.Strings(keys)
	for i := len(keys) - 1; i > 0; i-- {
		j := r.intn(i + 1)
		keys[i], keys[j] = keys[j], keys[i]
	}
	for _, k := range keys {
		v := d.Info[k]
		if k == "Timer" {
			n, _ := strconv.ParseInt(v, 10, 64)
			if ssaCells != nil {
				v = ssaTimerAny(r, n)
			} else {
				v = fmt.Sprintf("%d,%04d", n/1000, n%1000*10)
			}
		}
		L = append(L, k+": "+v)
		junk()
		unknownKey()
	}
	L = append(L, "")
	if r.chance(1, 3) {
		L = append(L, "[Fonts]", "fontname: x.ttf", "M1234", "")
		if ex != nil && ex.x.chance(1, 3) { // inside an unknown section a ';' line is not a comment
			L = append(L[:len(L)-1], "; inside an unknown section", "")
			ex.count("unknown_section_semicolon_line")
		}
	}
	sectionComment := func(where string) {
		if ex != nil && ex.x.chance(1, 8) {
			comment(where, ex.x.pick("note", "a: b, c", "Style: not a row", "[not a header"))
		}
	}
	styleCols := map[string]bool{}
	if len(d.Styles) > 0 {
		if d.V4plus {
			L = append(L, sec("[V4+ Styles]"))
		} else {
			L = append(L, sec(r.pick("[V4 Styles]", "[V4 Styles+]")))
		}
		cols := []string{"Name"}
		for _, a := range ssaStyleAttrs {
			if r.chance(4, 5) {
				name := a.name
				if name == "OutlineColour" && !d.V4plus && r.chance(1, 2) {
					name = "TertiaryColour"
				}
				cols = append(cols, name)
				styleCols[a.name] = true
			}
		}
		for i := len(cols) - 1; i > 0; i-- {
			j := r.intn(i + 1)
			cols[i], cols[j] = cols[j], cols[i]
		}
		sectionComment("styles")
		L = append(L, "Format: "+strings.Join(cols, r.pick(", ", ",", " , ")))
		inForce := cols
		at := -1 // the second Format line stands before row number at (len(d.Styles): after the last row)
		if ex != nil && ex.x.chance(1, 3) {
			at = ex.x.intn(len(d.Styles) + 1)
		}
		second := func(i int) {
			if i == at {
				var line []string
				line, inForce = ex.format2(inForce, false, "styles")
				L = append(L, "Format: "+strings.Join(line, ex.x.pick(", ", ",", " ,  ")))
			}
		}
		for i, st := range d.Styles {
			second(i)
			sectionComment("styles")
			var vals []string
			for _, c := range cols {
				key := c
				if c == "TertiaryColour" {
					key = "OutlineColour"
				}
				if c == "Name" {
					vals = append(vals, st.Name)
				} else if v, ok := st.Attrs[key]; ok {
					vals = append(vals, ssaRenderVal(r, v))
				} else {
					// the column is in the Format but this style leaves it at a neutral value
					switch attrKind(key) {
					case 'c', 's':
						vals = append(vals, "")
					default:
						vals = append(vals, "0")
					}
				}
			}
			if at >= 0 && i >= at {
				vals = ex.layout(cols, vals, inForce)
				ex.count("styles_row_after_format2")
			}
			L = append(L, "Style: "+strings.Join(vals, ","))
			junk()
		}
		second(len(d.Styles))
		sectionComment("styles")
		L = append(L, "")
	}
	L = append(L, sec("[Events]"))
	ecolsAll := []string{"Start", "End", "Style", "Name", "MarginL", "MarginR", "MarginV", "Effect"}
	if d.V4plus {
		ecolsAll = append(ecolsAll, "Layer")
	} else {
		ecolsAll = append(ecolsAll, "Marked")
	}
	eventCols := map[string]bool{}
	var ecols []string
	for _, c := range ecolsAll {
		if c == "Start" || c == "End" || r.chance(4, 5) {
			ecols = append(ecols, c)
			eventCols[c] = true
		}
	}
	for i := len(ecols) - 1; i > 0; i-- {
		j := r.intn(i + 1)
		ecols[i], ecols[j] = ecols[j], ecols[i]
	}
	ecols = append(ecols, "Text") // the text column is last: it takes the remaining commas
	sectionComment("events")
	L = append(L, "Format: "+strings.Join(ecols, ", "))
	eInForce := ecols
	eAt := -1
	if ex != nil && ex.x.chance(1, 3) {
		eAt = ex.x.intn(len(d.Events) + 1)
	}
	eSecond := func(i int) {
		if i == eAt {
			var line []string
			line, eInForce = ex.format2(eInForce, true, "events")
			L = append(L, "Format: "+strings.Join(line, ex.x.pick(", ", ",", " ,  ")))
		}
	}
	nlMode := r.intn(4) // 0: \N everywhere, 1: \n everywhere, 2 and 3: chosen per line break
	nl := func() string {
		switch nlMode {
		case 0:
			return "\\N"
		case 1:
			return "\\n"
		}
		return r.pick("\\N", "\\n")
	}
	for i, e := range d.Events {
		eSecond(i)
		sectionComment("events")
		var vals []string
		ip := func(p *int) string {
			if ssaCells != nil {
				n := 0
				if p != nil {
					n = *p
				}
				return ssaIntAny(r, n)
			}
			if p == nil {
				return "0"
			}
			return strconv.Itoa(*p)
		}
		for _, c := range ecols {
			switch c {
			case "Start":
				vals = append(vals, ssaStamp(r, e.Start))
			case "End":
				vals = append(vals, ssaStamp(r, e.End))
			case "Style":
				s := e.Style
				if s == "Default" && r.chance(1, 2) {
					s = "*Default"
				}
				vals = append(vals, s)
			case "Name":
				vals = append(vals, e.Name)
			case "MarginL":
				vals = append(vals, ip(e.MarginL))
			case "MarginR":
				vals = append(vals, ip(e.MarginR))
			case "MarginV":
				vals = append(vals, ip(e.MarginV))
			case "Effect":
				vals = append(vals, e.Effect)
			case "Layer":
				vals = append(vals, ip(e.Layer))
			case "Marked":
				if e.Marked != nil && *e.Marked {
					vals = append(vals, "Marked=1")
				} else {
					vals = append(vals, "Marked=0")
				}
			case "Text":
				vals = append(vals, ssaEventText(e.Lines, nl))
			}
		}
		if eAt >= 0 && i >= eAt {
			vals = ex.layout(ecols, vals, eInForce)
			ex.count("events_row_after_format2")
		}
		if r.chance(1, 5) {
			L = append(L, r.pick("Comment", "Picture", "Command")+": "+strings.Join(vals, ","))
		}
		L = append(L, "Dialogue: "+strings.Join(vals, ","))
	}
	eSecond(len(d.Events))
	sectionComment("events")
	doc := strings.Join(L, eol) + eol
	if r.chance(1, 3) {
		doc = "\xef\xbb\xbf" + doc
	}
	return doc, styleCols, eventCols, comments
}

func attrKind(name string) byte {
	for _, a := range ssaStyleAttrs {
		if a.name == name {
			return a.kind
		}
	}
	return 's'
}

// ---- cell spellings (C04, audit items c, d, f) -------------------------------------------------------
// Every spelling below denotes, by the characterisation of coq/Proofs/SsaCells.v and SsaCellsTime.v (int_spelling,
// bool_spelling, colour_spelling, float_spelling, time_spelling), exactly the ground-truth value it is rendered from.
// ssaCells is nil outside the C04 suites: the other properties' suites keep their renderings and random streams.
var ssaCells map[string]int

func ssaCellsOn() { ssaCells = map[string]int{} }
func ssaCellsFlush(R *runner) {
	keys := make([]string, 0, len(ssaCells))
	for k := range ssaCells {
		keys = append(keys, k)
	}
	sort.Strings(keys)
	for _, k := range keys {
		R.countN("ssa.cell."+k, ssaCells[k])
	}
	ssaCells = nil
}
func ssaTally(k string) { ssaCells[k]++ }

// ssaVary moves a ground-truth document into the regions the cell spellings need: hours of two and three (four)
// digits, numbers with one, two and three fraction digits (negative ones too), colours without alpha byte, negative
// and larger integers.  Attributes are visited in the fixed order of ssaStyleAttrs (map order is not deterministic).
func ssaVary(r *rng, d *ssaDocGT) {
	var shift int64
	switch r.intn(4) {
	case 0:
		shift = int64(10 + r.intn(90))
	case 1:
		shift = int64(100 + r.intn(1100))
	}
	for i := range d.Events {
		d.Events[i].Start += shift * 3600e9
		d.Events[i].End += shift * 3600e9
		if r.chance(1, 6) { // whole seconds: the forms without fraction, with one fraction digit
			d.Events[i].Start -= d.Events[i].Start % 1e9
			d.Events[i].End += (1e9 - d.Events[i].End%1e9) % 1e9
		}
	}
	for i := range d.Styles {
		for _, a := range ssaStyleAttrs {
			v, ok := d.Styles[i].Attrs[a.name]
			if !ok {
				continue
			}
			switch v.Kind {
			case 'f':
				if r.chance(1, 2) {
					v.F = int64(r.intn(300000))
					if r.chance(1, 5) {
						v.F = int64(r.intn(1000)) // below one: the forms without integer digits
					}
					if r.chance(1, 6) {
						v.F = -v.F
					}
				}
			case 'c':
				if r.chance(1, 3) {
					v.C[0] = 0
				}
			case 'i':
				if r.chance(1, 4) {
					v.I = r.intn(2000) - 1000
				}
			}
			d.Styles[i].Attrs[a.name] = v
		}
	}
}

func ssaZeros(n int) string { return strings.Repeat("0", n) }

// H:MM:SS.cc in every spelling parseDuration(_, ".", 3) reads as ns (a multiple of 10 ms, not negative)
func ssaStampAny(r *rng, ns int64) string {
	cs := ns / 1e7
	h, m, s, c := cs/360000, cs/6000%60, cs/100%60, cs%100
	switch {
	case h >= 100:
		ssaTally("time.hours_ge_100")
	case h >= 10:
		ssaTally("time.hours_10_to_99")
	default:
		ssaTally("time.hours_lt_10")
	}
	var hs string
	switch k := r.intn(8); {
	case k == 0:
		hs = fmt.Sprintf("%02d:", h)
		ssaTally("time.hours_padded_to_2")
	case k == 1:
		hs = fmt.Sprintf("%03d:", h)
		ssaTally("time.hours_padded_to_3")
	case k == 2 && h == 0:
		hs = ""
		ssaTally("time.two_fields_MM_SS")
	case k == 3 && h == 0:
		hs = ":"
		ssaTally("time.empty_hours_field")
	default:
		hs = fmt.Sprintf("%d:", h)
		ssaTally("time.hours_unpadded")
	}
	ms := fmt.Sprintf("%02d:%02d", m, s)
	if r.chance(1, 10) {
		ms = fmt.Sprintf("%d:%d", m, s)
		ssaTally("time.minutes_seconds_unpadded")
	}
	fr := fmt.Sprintf(".%02d", c)
	switch k := r.intn(8); {
	case k == 0 && c%10 == 0:
		fr = fmt.Sprintf(".%d", c/10)
		ssaTally("time.fraction_1_digit")
	case k == 1:
		fr = fmt.Sprintf(".%03d", c*10)
		ssaTally("time.fraction_3_digits")
	case k == 2 && c == 0:
		fr = ""
		ssaTally("time.no_fraction")
	default:
		ssaTally("time.fraction_2_digits")
	}
	out := hs + ms + fr
	if r.chance(1, 12) {
		out = " " + out + r.pick(" ", "\t", "")
		ssaTally("time.white_space_around")
	}
	return out
}

// an integer: optional sign, leading zeros (the four-figure margins of the specification)
func ssaIntAny(r *rng, n int) string {
	sign, a := "", n
	if n < 0 {
		sign, a = "-", -n
	}
	switch k := r.intn(6); {
	case k == 0 && n >= 0:
		ssaTally("int.plus_sign")
		return "+" + strconv.Itoa(a)
	case k == 1:
		ssaTally("int.leading_zeros")
		return sign + fmt.Sprintf("%04d", a)
	case k == 2 && n >= 0:
		ssaTally("int.plus_sign_and_leading_zeros")
		return "+" + ssaZeros(1+r.intn(2)) + strconv.Itoa(a)
	case k == 3 && n == 0:
		ssaTally("int.minus_zero")
		return "-0"
	}
	if n < 0 {
		ssaTally("int.negative")
	} else {
		ssaTally("int.plain")
	}
	return sign + strconv.Itoa(a)
}

func ssaBoolAny(r *rng, b bool) string {
	if b {
		switch r.intn(4) {
		case 0:
			ssaTally("bool.true_minus_1")
			return "-1"
		case 1:
			ssaTally("bool.true_1")
			return "1"
		}
		ssaTally("bool.true_other_integer")
		return r.pick("2", "+1", "01", "-7", "255", "9223372036854775807", "-9223372036854775808")
	}
	switch r.intn(6) {
	case 0:
		ssaTally("bool.false_zero_respelt")
		return r.pick("-0", "+0", "00", "0000")
	case 1:
		ssaTally("bool.false_not_an_integer")
		return r.pick("no", "false", "x", "1.0", "9223372036854775808", "1 1") // no spelling that a trim of the row would turn into an integer
	}
	ssaTally("bool.false_0")
	return "0"
}

func ssaHexCase(r *rng, digits string) (string, string) {
	b := []byte(strings.ToLower(digits))
	up, lo := false, false
	for i, c := range b {
		if c >= 'a' && c <= 'f' {
			if r.chance(1, 2) {
				b[i] = c - 32
				up = true
			} else {
				lo = true
			}
		}
	}
	switch {
	case up && lo:
		return string(b), "mixed_case"
	case up:
		return string(b), "upper_case"
	case lo:
		return string(b), "lower_case"
	}
	return string(b), "no_letter"
}

// a colour: decimal or &H hexadecimal, every sign / case / width that denotes the 32-bit value n
func ssaColourAny(r *rng, n uint32) string {
	dec := strconv.FormatUint(uint64(n), 10)
	switch k := r.intn(14); {
	case k == 0:
		ssaTally("colour.dec_plus_sign")
		return "+" + dec
	case k == 1:
		ssaTally("colour.dec_leading_zeros")
		return ssaZeros(1+r.intn(3)) + dec
	case k == 2:
		ssaTally("colour.dec_negative_same_low_32_bits")
		return strconv.FormatInt(int64(n)-(1<<32), 10)
	case k == 3:
		ssaTally("colour.dec_above_32_bits")
		return strconv.FormatInt(int64(n)+int64(1+r.intn(1000))<<32, 10)
	case k == 4 || k == 5:
		ssaTally("colour.dec")
		return dec
	case k == 6:
		ssaTally("colour.hex_8_digits_upper_case")
		return fmt.Sprintf("&H%08X", n)
	case k == 7:
		ssaTally("colour.hex_8_digits_lower_case")
		return fmt.Sprintf("&H%08x", n)
	case k == 8:
		d, what := ssaHexCase(r, fmt.Sprintf("%08x", n))
		ssaTally("colour.hex_8_digits_" + what)
		return "&H" + d
	case k == 9:
		d, what := ssaHexCase(r, fmt.Sprintf("%x", n))
		ssaTally(fmt.Sprintf("colour.hex_short_%d_digits", len(d)))
		ssaTally("colour.hex_short_" + what)
		return "&H" + d
	case (k == 10 || k == 11) && n < 1<<24:
		d, what := ssaHexCase(r, fmt.Sprintf("%06x", n))
		ssaTally("colour.hex_6_digits_" + what)
		return "&H" + d
	case k == 12:
		d, _ := ssaHexCase(r, fmt.Sprintf("%x", n))
		ssaTally("colour.hex_plus_sign")
		return "&H+" + d
	case k == 13:
		d, _ := ssaHexCase(r, fmt.Sprintf("%x%08x", 1+r.intn(255), n))
		ssaTally("colour.hex_above_32_bits")
		return "&H" + d
	}
	d, _ := ssaHexCase(r, fmt.Sprintf("%08x", n))
	ssaTally("colour.hex_leading_zeros_beyond_8")
	return "&H" + ssaZeros(1+r.intn(8)) + d
}

// k thousandths as a plain decimal inside the float model's domain: [+-]digits[.digits], [+-].digits
func ssaFloatAny(r *rng, k int64) string {
	sign := ""
	if k < 0 {
		sign, k = "-", -k
		ssaTally("float.negative")
	} else if r.chance(1, 8) {
		sign = "+"
		ssaTally("float.plus_sign")
	}
	ip := strconv.FormatInt(k/1000, 10)
	fp := strings.TrimRight(fmt.Sprintf("%03d", k%1000), "0")
	switch r.intn(5) {
	case 0:
		if len(fp) < 3 {
			fp += ssaZeros(3 - len(fp))
		}
	case 1:
		fp += ssaZeros(3 - len(fp) + 1 + r.intn(3))
	}
	if r.chance(1, 6) {
		ip = ssaZeros(1+r.intn(2)) + ip
		ssaTally("float.leading_zeros")
	}
	if ip == "0" && fp != "" && r.chance(1, 3) {
		ip = ""
		ssaTally("float.no_integer_digits")
	}
	switch {
	case fp == "" && r.chance(1, 5):
		ssaTally("float.trailing_dot")
		return sign + ip + "."
	case fp == "":
		ssaTally("float.integer_only")
		return sign + ip
	case len(fp) > 3:
		ssaTally("float.fraction_zeros_beyond_3_digits")
	default:
		ssaTally(fmt.Sprintf("float.fraction_%d_digits", len(fp)))
	}
	return sign + ip + "." + fp
}

// the script info timer: the same number with a decimal comma (or a dot: the reader replaces commas only)
func ssaTimerAny(r *rng, n int64) string {
	switch r.intn(4) {
	case 0:
		ssaTally("timer.writer_form_comma_4_digits")
		return fmt.Sprintf("%d,%04d", n/1000, n%1000*10)
	case 1:
		ssaTally("timer.decimal_dot")
		return fmt.Sprintf("%d.%04d", n/1000, n%1000*10)
	case 2:
		if n%1000 == 0 {
			ssaTally("timer.integer_only")
			return strconv.FormatInt(n/1000, 10)
		}
	}
	ssaTally("timer.comma_shortest")
	fp := strings.TrimRight(fmt.Sprintf("%03d", n%1000), "0")
	if fp == "" {
		return strconv.FormatInt(n/1000, 10) + ",0"
	}
	return strconv.FormatInt(n/1000, 10) + "," + fp
}

func ssaRenderValAny(r *rng, v ssaVal) string {
	switch v.Kind {
	case 'b':
		return ssaBoolAny(r, v.B)
	case 'c':
		return ssaColourAny(r, uint32(v.C[0])<<24|uint32(v.C[1])<<16|uint32(v.C[2])<<8|uint32(v.C[3]))
	case 'f':
		return ssaFloatAny(r, v.F)
	case 'i':
		return ssaIntAny(r, v.I)
	}
	return v.S
}

// ---- projection of the library's values ------------------------------------------------------------

func f1000(f *float64) (ssaVal, bool) {
	if f == nil {
		return ssaVal{}, false
	}
	return ssaVal{Kind: 'f', F: int64(math.Round(*f * 1000))}, true
}

func ssaAttrsOf(sa *astisub.StyleAttributes) map[string]ssaVal {
	m := map[string]ssaVal{}
	if sa == nil {
		return m
	}
	pi := func(n string, p *int) {
		if p != nil {
			m[n] = ssaVal{Kind: 'i', I: *p}
		}
	}
	pb := func(n string, p *bool) {
		if p != nil {
			m[n] = ssaVal{Kind: 'b', B: *p}
		}
	}
	pc := func(n string, p *astisub.Color) {
		if p != nil {
			m[n] = ssaVal{Kind: 'c', C: [4]uint8{p.Alpha, p.Blue, p.Green, p.Red}}
		}
	}
	pf := func(n string, p *float64) {
		if v, ok := f1000(p); ok {
			m[n] = v
		}
	}
	pi("Alignment", sa.SSAAlignment)
	pf("AlphaLevel", sa.SSAAlphaLevel)
	pf("Angle", sa.SSAAngle)
	pc("BackColour", sa.SSABackColour)
	pb("Bold", sa.SSABold)
	pi("BorderStyle", sa.SSABorderStyle)
	pi("Encoding", sa.SSAEncoding)
	if sa.SSAFontName != "" {
		m["Fontname"] = ssaVal{Kind: 's', S: sa.SSAFontName}
	}
	pf("Fontsize", sa.SSAFontSize)
	pb("Italic", sa.SSAItalic)
	pi("MarginL", sa.SSAMarginLeft)
	pi("MarginR", sa.SSAMarginRight)
	pi("MarginV", sa.SSAMarginVertical)
	pf("Outline", sa.SSAOutline)
	pc("OutlineColour", sa.SSAOutlineColour)
	pc("PrimaryColour", sa.SSAPrimaryColour)
	pf("ScaleX", sa.SSAScaleX)
	pf("ScaleY", sa.SSAScaleY)
	pc("SecondaryColour", sa.SSASecondaryColour)
	pf("Shadow", sa.SSAShadow)
	pf("Spacing", sa.SSASpacing)
	pb("Strikeout", sa.SSAStrikeout)
	pb("Underline", sa.SSAUnderline)
	return m
}

func ssaDocFromSubs(s *astisub.Subtitles) *ssaDocGT {
	d := &ssaDocGT{Info: map[string]string{}}
	if m := s.Metadata; m != nil {
		for k, v := range map[string]string{"Collisions": m.SSACollisions, "Original Editing": m.SSAOriginalEditing, "Original Script": m.SSAOriginalScript, "Original Timing": m.SSAOriginalTiming, "Original Translation": m.SSAOriginalTranslation, "ScriptType": m.SSAScriptType, "Script Updated By": m.SSAScriptUpdatedBy, "Synch Point": m.SSASynchPoint, "Title": m.Title, "Update Details": m.SSAUpdateDetails, "WrapStyle": m.SSAWrapStyle} {
			if v != "" {
				d.Info[k] = v
			}
		}
		if m.SSAPlayResX != nil {
			d.Info["PlayResX"] = strconv.Itoa(*m.SSAPlayResX)
		}
		if m.SSAPlayResY != nil {
			d.Info["PlayResY"] = strconv.Itoa(*m.SSAPlayResY)
		}
		if m.SSAPlayDepth != nil {
			d.Info["PlayDepth"] = strconv.Itoa(*m.SSAPlayDepth)
		}
		if m.SSATimer != nil {
			d.Info["Timer"] = strconv.FormatInt(int64(*m.SSATimer*1000+0.5), 10)
		}
		d.Comments = m.Comments
		d.V4plus = m.SSAScriptType == "v4.00+"
	}
	var ids []string
	for id := range s.Styles {
		ids = append(ids, id)
	}
	sort.Strings(ids)
	for _, id := range ids {
		d.Styles = append(d.Styles, ssaStyleGT{Name: s.Styles[id].ID, Attrs: ssaAttrsOf(s.Styles[id].InlineStyle)})
	}
	for _, it := range s.Items {
		e := ssaEventGT{Start: int64(it.StartAt), End: int64(it.EndAt)}
		if it.Style != nil {
			e.Style = it.Style.ID
		}
		if it.InlineStyle != nil {
			e.Effect, e.MarginL, e.MarginR, e.MarginV, e.Layer, e.Marked = it.InlineStyle.SSAEffect, it.InlineStyle.SSAMarginLeft, it.InlineStyle.SSAMarginRight, it.InlineStyle.SSAMarginVertical, it.InlineStyle.SSALayer, it.InlineStyle.SSAMarked
		}
		for _, l := range it.Lines {
			if l.VoiceName != "" {
				e.Name = l.VoiceName
			}
			var runs []ssaRunGT
			for _, li := range l.Items {
				run := ssaRunGT{Text: li.Text}
				if li.InlineStyle != nil {
					run.Effect = li.InlineStyle.SSAEffect
				}
				runs = append(runs, run)
			}
			e.Lines = append(e.Lines, runs)
		}
		d.Events = append(d.Events, e)
	}
	return d
}

func subsFromSsaDoc(d *ssaDocGT) *astisub.Subtitles {
	s := astisub.NewSubtitles()
	m := &astisub.Metadata{Comments: d.Comments, SSACollisions: d.Info["Collisions"], SSAOriginalEditing: d.Info["Original Editing"], SSAOriginalScript: d.Info["Original Script"], SSAOriginalTiming: d.Info["Original Timing"], SSAOriginalTranslation: d.Info["Original Translation"], SSAScriptType: d.Info["ScriptType"], SSAScriptUpdatedBy: d.Info["Script Updated By"], SSASynchPoint: d.Info["Synch Point"], Title: d.Info["Title"], SSAUpdateDetails: d.Info["Update Details"], SSAWrapStyle: d.Info["WrapStyle"]}
	if v, ok := d.Info["PlayResX"]; ok {
		n, _ := strconv.Atoi(v)
		m.SSAPlayResX = &n
	}
	if v, ok := d.Info["PlayResY"]; ok {
		n, _ := strconv.Atoi(v)
		m.SSAPlayResY = &n
	}
	if v, ok := d.Info["PlayDepth"]; ok {
		n, _ := strconv.Atoi(v)
		m.SSAPlayDepth = &n
	}
	if v, ok := d.Info["Timer"]; ok {
		n, _ := strconv.ParseInt(v, 10, 64)
		f := float64(n) / 1000
		m.SSATimer = &f
	}
	s.Metadata = m
	for _, st := range d.Styles {
		sa := &astisub.StyleAttributes{}
		for name, v := range st.Attrs {
			v := v
			fp := func() *float64 { f := float64(v.F) / 1000; return &f }
			cp := func() *astisub.Color {
				return &astisub.Color{Alpha: v.C[0], Blue: v.C[1], Green: v.C[2], Red: v.C[3]}
			}
			switch name {
			case "Alignment":
				sa.SSAAlignment = &v.I
			case "AlphaLevel":
				sa.SSAAlphaLevel = fp()
			case "Angle":
				sa.SSAAngle = fp()
			case "BackColour":
				sa.SSABackColour = cp()
			case "Bold":
				sa.SSABold = &v.B
			case "BorderStyle":
				sa.SSABorderStyle = &v.I
			case "Encoding":
				sa.SSAEncoding = &v.I
			case "Fontname":
				sa.SSAFontName = v.S
			case "Fontsize":
				sa.SSAFontSize = fp()
			case "Italic":
				sa.SSAItalic = &v.B
			case "MarginL":
				sa.SSAMarginLeft = &v.I
			case "MarginR":
				sa.SSAMarginRight = &v.I
			case "MarginV":
				sa.SSAMarginVertical = &v.I
			case "Outline":
				sa.SSAOutline = fp()
			case "OutlineColour":
				sa.SSAOutlineColour = cp()
			case "PrimaryColour":
				sa.SSAPrimaryColour = cp()
			case "ScaleX":
				sa.SSAScaleX = fp()
			case "ScaleY":
				sa.SSAScaleY = fp()
			case "SecondaryColour":
				sa.SSASecondaryColour = cp()
			case "Shadow":
				sa.SSAShadow = fp()
			case "Spacing":
				sa.SSASpacing = fp()
			case "Strikeout":
				sa.SSAStrikeout = &v.B
			case "Underline":
				sa.SSAUnderline = &v.B
			}
		}
		s.Styles[st.Name] = &astisub.Style{ID: st.Name, InlineStyle: sa}
	}
	for _, e := range d.Events {
		it := &astisub.Item{StartAt: time.Duration(e.Start), EndAt: time.Duration(e.End), InlineStyle: &astisub.StyleAttributes{SSAEffect: e.Effect, SSAMarginLeft: e.MarginL, SSAMarginRight: e.MarginR, SSAMarginVertical: e.MarginV, SSALayer: e.Layer, SSAMarked: e.Marked}}
		if e.Style != "" {
			it.Style = s.Styles[e.Style]
		}
		for _, l := range e.Lines {
			ln := astisub.Line{VoiceName: e.Name}
			for _, ru := range l {
				li := astisub.LineItem{Text: ru.Text}
				if ru.Effect != "" {
					li.InlineStyle = &astisub.StyleAttributes{SSAEffect: ru.Effect}
				}
				ln.Items = append(ln.Items, li)
			}
			it.Lines = append(it.Lines, ln)
		}
		s.Items = append(s.Items, it)
	}
	return s
}

// comparison restricted to the observable columns (nil = all)
func ssaDocsEqual(got, want *ssaDocGT, styleCols, eventCols map[string]bool) string {
	for _, k := range append(append([]string{}, ssaInfoStrings...), "PlayResX", "PlayResY", "PlayDepth", "Timer") {
		if got.Info[k] != want.Info[k] {
			return fmt.Sprintf("script info %q: %q, want %q", k, got.Info[k], want.Info[k])
		}
	}
	if strings.Join(got.Comments, "\n") != strings.Join(want.Comments, "\n") {
		return fmt.Sprintf("comments %q, want %q", got.Comments, want.Comments)
	}
	if len(got.Styles) != len(want.Styles) {
		return fmt.Sprintf("%d styles, want %d", len(got.Styles), len(want.Styles))
	}
	ws := append([]ssaStyleGT{}, want.Styles...)
	sort.Slice(ws, func(i, j int) bool { return ws[i].Name < ws[j].Name })
	for i, w := range ws {
		g := got.Styles[i]
		if g.Name != w.Name {
			return fmt.Sprintf("style %d is %q, want %q", i, g.Name, w.Name)
		}
		for _, a := range ssaStyleAttrs {
			if styleCols != nil && !styleCols[a.name] {
				continue
			}
			gv, gok := g.Attrs[a.name]
			wv, wok := w.Attrs[a.name]
			if !wok && styleCols != nil {
				continue // column present but neutral value written: not compared
			}
			if gok != wok || gv != wv {
				return fmt.Sprintf("style %q attribute %s: %v (set=%v), want %v (set=%v)", w.Name, a.name, gv, gok, wv, wok)
			}
		}
	}
	if len(got.Events) != len(want.Events) {
		return fmt.Sprintf("%d events, want %d", len(got.Events), len(want.Events))
	}
	has := func(c string) bool { return eventCols == nil || eventCols[c] }
	pi := func(p *int) int {
		if p == nil {
			return 0
		}
		return *p
	}
	for i, w := range want.Events {
		g := got.Events[i]
		if g.Start != w.Start || g.End != w.End {
			return fmt.Sprintf("event %d: [%d,%d) cs, want [%d,%d) cs", i+1, g.Start/1e7, g.End/1e7, w.Start/1e7, w.End/1e7)
		}
		// the style reference of a cue is a reference to a definition of the styles section: a name that section does
		// not declare gives a cue without style reference
		wStyle := ""
		for _, st := range want.Styles {
			if st.Name == w.Style {
				wStyle = w.Style
			}
		}
		if has("Style") && g.Style != wStyle {
			return fmt.Sprintf("event %d: style %q, want %q", i+1, g.Style, wStyle)
		}
		if has("Name") && g.Name != w.Name {
			return fmt.Sprintf("event %d: speaker %q, want %q", i+1, g.Name, w.Name)
		}
		if has("Effect") && g.Effect != w.Effect {
			return fmt.Sprintf("event %d: effect %q, want %q", i+1, g.Effect, w.Effect)
		}
		if has("MarginL") && pi(g.MarginL) != pi(w.MarginL) || has("MarginR") && pi(g.MarginR) != pi(w.MarginR) || has("MarginV") && pi(g.MarginV) != pi(w.MarginV) {
			return fmt.Sprintf("event %d: margins differ", i+1)
		}
		if has("Layer") && pi(g.Layer) != pi(w.Layer) {
			return fmt.Sprintf("event %d: layer %d, want %d", i+1, pi(g.Layer), pi(w.Layer))
		}
		if has("Marked") && (g.Marked != nil && *g.Marked) != (w.Marked != nil && *w.Marked) {
			return fmt.Sprintf("event %d: marked flag differs", i+1)
		}
		if len(g.Lines) != len(w.Lines) {
			return fmt.Sprintf("event %d: %d lines, want %d", i+1, len(g.Lines), len(w.Lines))
		}
		for l := range w.Lines {
			// canonical: per line the sequence of runs (override block that opens the run, text up to the next
			// block); a run without a block and without text denotes nothing (an empty line has no run)
			canon := func(rs []ssaRunGT) string {
				var b strings.Builder
				for _, ru := range rs {
					if ru.Effect == "" && ru.Text == "" {
						continue
					}
					fmt.Fprintf(&b, "%q%q;", ru.Effect, ru.Text)
				}
				return b.String()
			}
			if canon(g.Lines[l]) != canon(w.Lines[l]) {
				return fmt.Sprintf("event %d line %d: runs %q, want %q", i+1, l+1, g.Lines[l], w.Lines[l])
			}
		}
	}
	return ""
}

// ---- independent Format-driven decoder ---------------------------------------------------------------

func decodeSsa(doc []byte) (*ssaDocGT, error) {
	doc = bytes.TrimPrefix(doc, []byte("\xef\xbb\xbf"))
	text := strings.ReplaceAll(strings.ReplaceAll(string(doc), "\r\n", "\n"), "\r", "\n")
	d := &ssaDocGT{Info: map[string]string{}}
	section := ""
	var cols []string
	for _, raw := range strings.Split(text, "\n") {
		line := strings.TrimSpace(raw)
		if line == "" {
			continue
		}
		if strings.HasPrefix(line, "[") && strings.HasSuffix(line, "]") {
			section = strings.ToLower(strings.Trim(line, "[]"))
			cols = nil
			continue
		}
		if strings.HasPrefix(line, ";") {
			if section == "script info" {
				d.Comments = append(d.Comments, strings.TrimSpace(line[1:]))
			}
			continue
		}
		i := strings.Index(line, ":")
		if i <= 0 {
			continue
		}
		key, val := strings.TrimSpace(line[:i]), strings.TrimSpace(line[i+1:])
		switch {
		case section == "script info":
			if key == "Timer" {
				f, err := strconv.ParseFloat(strings.ReplaceAll(val, ",", "."), 64)
				if err != nil {
					return nil, err
				}
				val = strconv.FormatInt(int64(f*1000+0.5), 10)
			}
			d.Info[key] = val
			if key == "ScriptType" {
				d.V4plus = val == "v4.00+"
			}
		case section == "v4 styles" || section == "v4+ styles" || section == "v4 styles+" || section == "events":
			if key == "Format" {
				cols = nil
				for _, c := range strings.Split(val, ",") {
					cols = append(cols, strings.TrimSpace(c))
				}
				continue
			}
			if cols == nil {
				return nil, fmt.Errorf("row before Format in [%s]", section)
			}
			if section == "events" {
				if key != "Dialogue" {
					continue
				}
				parts := strings.SplitN(val, ",", len(cols))
				if len(parts) < len(cols) {
					return nil, fmt.Errorf("event row with %d columns, Format has %d", len(parts), len(cols))
				}
				e := ssaEventGT{}
				for k, c := range cols {
					v := parts[k]
					switch c {
					case "Start", "End":
						var h, m, s, cs int64
						if _, err := fmt.Sscanf(strings.TrimSpace(v), "%d:%d:%d.%d", &h, &m, &s, &cs); err != nil {
							return nil, fmt.Errorf("bad time %q", v)
						}
						t := ((h*60+m)*60+s)*1e9 + cs*1e7
						if c == "Start" {
							e.Start = t
						} else {
							e.End = t
						}
					case "Style":
						e.Style = strings.TrimPrefix(v, "*")
					case "Name":
						e.Name = v
					case "Effect":
						e.Effect = v
					case "MarginL", "MarginR", "MarginV", "Layer":
						n, err := strconv.Atoi(strings.TrimSpace(v))
						if err != nil {
							return nil, fmt.Errorf("bad int %q in column %s", v, c)
						}
						switch c {
						case "MarginL":
							e.MarginL = &n
						case "MarginR":
							e.MarginR = &n
						case "MarginV":
							e.MarginV = &n
						default:
							e.Layer = &n
						}
					case "Marked":
						b := strings.TrimSpace(v) == "Marked=1"
						e.Marked = &b
					case "Text":
						t := strings.ReplaceAll(strings.TrimSpace(v), "\\N", "\\n")
						for _, l := range strings.Split(t, "\\n") {
							l = strings.TrimSpace(l)
							var runs []ssaRunGT
							cur := ssaRunGT{}
							for len(l) > 0 {
								if l[0] == '{' {
									if j := strings.Index(l, "}"); j > 0 {
										if cur.Text != "" || cur.Effect != "" {
											runs = append(runs, cur)
										}
										cur = ssaRunGT{Effect: l[:j+1]}
										l = l[j+1:]
										continue
									}
								}
								cur.Text += l[:1]
								l = l[1:]
							}
							runs = append(runs, cur)
							e.Lines = append(e.Lines, runs)
						}
					}
				}
				d.Events = append(d.Events, e)
			} else {
				if key != "Style" {
					continue
				}
				parts := strings.Split(val, ",")
				if len(parts) != len(cols) {
					return nil, fmt.Errorf("style row with %d columns, Format has %d", len(parts), len(cols))
				}
				st := ssaStyleGT{Attrs: map[string]ssaVal{}}
				for k, c := range cols {
					v := strings.TrimSpace(parts[k])
					if c == "TertiaryColour" {
						c = "OutlineColour"
					}
					if c == "Name" {
						st.Name = v
						continue
					}
					if v == "" {
						continue // no value: the attribute is not set
					}
					switch attrKind(c) {
					case 'b':
						n, err := strconv.Atoi(v)
						if err != nil {
							return nil, fmt.Errorf("bad boolean %q in column %s", v, c)
						}
						st.Attrs[c] = ssaVal{Kind: 'b', B: n != 0}
					case 'c':
						if v == "" {
							continue
						}
						var n uint64
						var err error
						if strings.HasPrefix(v, "&H") {
							n, err = strconv.ParseUint(strings.TrimSuffix(v[2:], "&"), 16, 64)
						} else {
							var sn int64
							sn, err = strconv.ParseInt(v, 10, 64)
							n = uint64(uint32(sn))
						}
						if err != nil {
							return nil, fmt.Errorf("bad colour %q", v)
						}
						st.Attrs[c] = ssaVal{Kind: 'c', C: [4]uint8{uint8(n >> 24), uint8(n >> 16), uint8(n >> 8), uint8(n)}}
					case 'f':
						f, err := strconv.ParseFloat(v, 64)
						if err != nil {
							return nil, fmt.Errorf("bad number %q in column %s", v, c)
						}
						st.Attrs[c] = ssaVal{Kind: 'f', F: int64(math.Round(f * 1000))}
					case 'i':
						n, err := strconv.Atoi(v)
						if err != nil {
							return nil, fmt.Errorf("bad int %q in column %s", v, c)
						}
						st.Attrs[c] = ssaVal{Kind: 'i', I: n}
					default:
						if v != "" {
							st.Attrs[c] = ssaVal{Kind: 's', S: v}
						}
					}
				}
				d.Styles = append(d.Styles, st)
			}
		}
	}
	sort.Slice(d.Styles, func(i, j int) bool { return d.Styles[i].Name < d.Styles[j].Name })
	return d, nil
}

// ---- suite ----------------------------------------------------------------------------------------

func suiteSsa(R *runner, r *rng) {
	R.rule("ssa: ground-truth documents (script info subsets, comments, 0..3 styles over the 23 attributes, 0..5 dialogue events with all columns, text of 1..5 lines and 1..4 runs with override blocks, commas and colons in text, empty lines incl. the first line(s) of an event, override blocks back to back (runs without text), blanks at run boundaries next to a block) x renderings (column permutations and subsets in both Format lines, section-name case, v4 / v4+ / 'V4 Styles+', every cell spelling of the characterisation in coq/Proofs/SsaCells*.v counted as ssa.cell.* (times: hours below 10 / 10..99 / 100 and above, unpadded or padded to 2 or 3 digits, MM:SS and :MM:SS forms, fraction of 0..3 digits, unpadded minutes and seconds, white space around; colours: decimal with sign / leading zeros / negative / above 32 bits, &H with 8 digits in upper, lower and mixed case, short forms incl. 6 digits, plus sign, above 32 bits; booleans: -1, 1, other integers, 0 respelt, non-integers; integers: plus sign, leading zeros, -0, negative; numbers: sign, leading zeros, no integer digits, trailing dot, fraction of 1..3 digits and zeros beyond; timer: comma or dot); unknown script-info keys with and without value and with extra colons, comment lines before the first section header and inside the styles / events sections - all expected as script-info comments in document order -, unintelligible and key: value lines before the first header, a ';' line inside an unknown section, a second Format line inside the styles / events section - same columns permuted, shorter, longer with unknown or repeated names - with the rows after it laid out for the columns then in force, TertiaryColour alias, *Default, \\N and \\n mixed inside one event, EOL kinds, BOM, junk lines, unknown sections, Comment events); reader vs ground truth on the observable columns, and what was read written, read and written again (second write byte-equal to the first); writer output decoded by the independent Format-driven decoder and by the reader; read-then-write byte-equal to the first write; non-trivial = at least one event")
	N := 800
	if R.tier == "thorough" {
		N = 16000
	}
	ssaCellsOn() // every cell spelling of the characterisation; counted as ssa.cell.*
	defer ssaCellsFlush(R)
	for c := 0; c < N; c++ {
		d := randSsaDoc(r)
		ssaVary(r, d)
		doc, sc, ec, comments := renderSsaWith(r, d, newSsaExtras(R, c, 1))
		want := *d
		want.Comments = comments // every comment line of the document, in order
		h := map[string]interface{}{"doc": doc}
		o := &obs{Suite: "ssaread", Group: "ssa.read", NoModel: true, NT: len(d.Events) > 0, Input: "ssa read " + hashBytes([]byte(doc)), Human: h}
		var s *astisub.Subtitles
		var err error
		p := safely(func() { s, err = astisub.ReadFromSSA(strings.NewReader(doc)) })
		switch {
		case p != "":
			o.Oracle, o.Sig = "ReadFromSSA panicked: "+p, "ssa-read-panic"
		case err != nil:
			o.Oracle, o.Sig = "ReadFromSSA rejects a well-formed document: "+err.Error(), "ssa-read-reject"
		default:
			if m := ssaDocsEqual(ssaDocFromSubs(s), &want, sc, ec); m != "" {
				o.Oracle, o.Sig = "reader: "+m, "ssa-read-value"
				if strings.Contains(m, "attribute Bold") || strings.Contains(m, "attribute Italic") || strings.Contains(m, "attribute Strikeout") || strings.Contains(m, "attribute Underline") {
					o.Sig = "ssa-read-boolean"
				}
			} else if len(s.Items) > 0 {
				// C04_rewrite_rendered: write what was read from the rendering, read that, write again: the same bytes
				R.count("ssa.rewrite_rendered")
				var w1, w2 bytes.Buffer
				if err := s.WriteToSSA(&w1); err != nil {
					o.Oracle, o.Sig = "writing what was read from a rendered document failed: "+err.Error(), "ssa-rewrite-rendered"
				} else if back, rerr := astisub.ReadFromSSA(bytes.NewReader(w1.Bytes())); rerr != nil {
					o.Oracle, o.Sig = "the reader rejects what the writer made of a rendered document: "+rerr.Error(), "ssa-rewrite-rendered"
				} else if err := back.WriteToSSA(&w2); err != nil || !bytes.Equal(w1.Bytes(), w2.Bytes()) {
					o.Oracle, o.Sig = "rendered document: read, write, read, write again does not yield the bytes of the first write", "ssa-rewrite-rendered"
					h["first_write"], h["second_write"] = w1.String(), w2.String()
				}
			}
		}
		R.add(o)
	}
	for c := 0; c < N; c++ {
		d := randSsaDoc(r)
		ssaVary(r, d)
		s := subsFromSsaDoc(d)
		h := map[string]interface{}{"doc": d}
		o := &obs{Suite: "ssawrite", Group: "ssa.write", NoModel: true, NT: len(d.Events) > 0, Input: fmt.Sprintf("ssa write %d", c), Human: h}
		var buf bytes.Buffer
		var err error
		p := safely(func() { err = s.WriteToSSA(&buf) })
		switch {
		case p != "":
			o.Oracle, o.Sig = "WriteToSSA panicked: "+p, "ssa-write-panic"
		case err != nil:
			if len(d.Events) > 0 {
				o.Oracle, o.Sig = "WriteToSSA failed: "+err.Error(), "ssa-write-error"
			}
		default:
			h["written"] = buf.String()
			dec, derr := decodeSsa(buf.Bytes())
			if derr != nil {
				o.Oracle, o.Sig = "independent decoder rejects the writer's output: "+derr.Error(), "ssa-write-decoder"
			} else if m := ssaDocsEqual(dec, d, nil, nil); m != "" {
				o.Oracle, o.Sig = "independent decoder: "+m, "ssa-write-decoder-value"
			} else if back, rerr := astisub.ReadFromSSA(bytes.NewReader(buf.Bytes())); rerr != nil {
				o.Oracle, o.Sig = "the library's reader rejects the writer's output: "+rerr.Error(), "ssa-write-read"
			} else if m := ssaDocsEqual(ssaDocFromSubs(back), d, nil, nil); m != "" {
				o.Oracle, o.Sig = "write then read: "+m, "ssa-write-read-value"
				if strings.Contains(m, "attribute Bold") || strings.Contains(m, "attribute Italic") || strings.Contains(m, "attribute Strikeout") || strings.Contains(m, "attribute Underline") {
					o.Sig = "ssa-write-read-boolean"
				}
			} else {
				var buf2 bytes.Buffer
				if err := back.WriteToSSA(&buf2); err != nil || !bytes.Equal(buf.Bytes(), buf2.Bytes()) {
					o.Oracle, o.Sig = "reading what was written and writing again does not yield the same bytes", "ssa-rewrite"
					h["rewritten"] = buf2.String()
				}
			}
		}
		R.add(o)
	}
}
