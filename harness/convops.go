package main

// C07, operations in between: SubRip source -> reader -> 0..4 operations (sync, fragment, unfragment, order,
// optimize, linear correction, merge with a second SubRip document) -> SubRip / WebVTT writer.  The bytes the
// library produces are compared with the composed model (Model/ConvOps.v: codec models + operation models), and the
// destination is re-read and compared with the specification of the operations composed (oracle).

import (
	"bytes"
	"fmt"
	"sort"
	"strings"
	"time"

	astisub "github.com/asticode/go-astisub"
)

func randConvOps(r *rng, n int) []convOp {
	var ops []convOp
	for k := 0; k < n; k++ {
		switch r.intn(8) {
		case 0:
			ops = append(ops, convOp{name: "sync", d: r.rangeI64(-4000, 6000) * 1e6})
		case 1:
			ops = append(ops, convOp{name: "sync", d: r.rangeI64(-3e9, 3e9)}) // off the millisecond grid
		case 2:
			ops = append(ops, convOp{name: "fragment", f: (40 + r.i64n(4000)) * 1e6})
		case 3:
			ops = append(ops, convOp{name: "unfragment"})
		case 4:
			ops = append(ops, convOp{name: "order"})
		case 5:
			ops = append(ops, convOp{name: "optimize"})
		case 6:
			a1 := r.i64n(10) * 1e9
			a2 := a1 + (1+r.i64n(3000))*1e9
			ops = append(ops, convOp{name: "linear", a1: a1, d1: a1 + r.i64n(3)*1e9, a2: a2, d2: a2 + r.i64n(20)*1e9})
		default:
			mc := randSrtCues(r, 3, r.intn(2) == 0)
			if len(mc) == 0 {
				mc = randSrtCues(r, 3, false)
			}
			md, _ := renderSrt(r, mc)
			ops = append(ops, convOp{name: "merge", mergeWith: mc, mergeBytes: []byte(md)})
		}
	}
	// keep the number of pieces small: at most one linear correction per sequence (slopes up to ~20 would compound), and
	// fragments of at least half a second once the times have been stretched
	lin := false
	for k := range ops {
		if ops[k].name == "linear" {
			if lin {
				ops[k] = convOp{name: "order"}
			}
			lin = true
		}
	}
	if lin {
		for k := range ops {
			if ops[k].name == "fragment" && ops[k].f < 5e8 {
				ops[k].f += 5e8
			}
		}
	}
	return ops
}

func encConvOps(e *enc, ops []convOp) {
	e.n(len(ops))
	for _, op := range ops {
		switch op.name {
		case "sync":
			e.n(0).i(op.d)
		case "fragment":
			e.n(1).i(op.f)
		case "unfragment":
			e.n(2)
		case "order":
			e.n(3)
		case "optimize":
			e.n(4)
		case "linear":
			e.n(5).i(op.a1).i(op.d1).i(op.a2).i(op.d2)
		case "merge":
			e.n(6).bytes(op.mergeBytes)
		}
	}
}

func describeOpsExact(ops []convOp) []string {
	var out []string
	for _, op := range ops {
		switch op.name {
		case "sync":
			out = append(out, fmt.Sprintf("sync %dns", op.d))
		case "fragment":
			out = append(out, fmt.Sprintf("fragment %dns", op.f))
		case "linear":
			out = append(out, fmt.Sprintf("linear a1=%d d1=%d a2=%d d2=%d", op.a1, op.d1, op.a2, op.d2))
		case "merge":
			out = append(out, "merge "+string(op.mergeBytes))
		default:
			out = append(out, op.name)
		}
	}
	return out
}

func suiteConvertOps(R *runner, r *rng) {
	R.rule("conversion with operations (model): styled SubRip documents in every tolerated rendering -> ReadFromSRT -> 0..4 operations (sync on and off the millisecond grid, fragment, unfragment, order, optimize, linear correction, merge with a second rendered SubRip document) -> WriteToSRT / WriteToWebVTT; the bytes are compared with the composed model (Model/ConvOps.v); the destination is re-read and compared with the operations' specifications composed (cue count, order, times truncated to the millisecond, text without white space); crafted lists: a cue starting on a fragment boundary of a longer cue listed after it (fragment + unfragment), 14..24 cues sharing few start instants in shuffled order")
	N := 250
	if R.tier == "thorough" {
		N = 5000
	}
	for c := 0; c < N; c++ {
		cues := randSrtCues(r, 5, c%3 != 0)
		var ops []convOp
		switch {
		case c%7 == 3:
			// a cue with another text starting exactly on a fragment boundary of a longer cue listed after it
			cues = randSrtCues(r, 2, false)
			for len(cues) < 2 {
				cues = randSrtCues(r, 2, false)
			}
			f := (1 + r.i64n(20)) * 4e7
			m := int64(2 + r.intn(4))
			k := 1 + r.i64n(m-1)
			cues[0].Start, cues[0].End = k*f, k*f+(1+r.i64n(3))*4e7
			cues[1].Start, cues[1].End = 0, m*f
			ops = []convOp{{name: "fragment", f: f}, {name: "unfragment"}}
		case c%7 == 5:
			n := 14 + r.intn(11)
			cues = nil
			for len(cues) < n {
				cues = append(cues, randSrtCues(r, 5, false)...)
			}
			cues = cues[:n]
			for i := range cues {
				slot := int64(r.intn(5))
				cues[i].Start = (10 + slot*3) * 1e9
				cues[i].End = cues[i].Start + (1+r.i64n(2))*1e9
			}
			ops = [][]convOp{{{name: "order"}}, {{name: "fragment", f: 2e9}}, {{name: "order"}, {name: "unfragment"}}}[r.intn(3)]
		default:
			ops = randConvOps(r, r.intn(5))
		}
		doc, _ := renderSrt(r, cues)
		dst := c % 2
		e := (&enc{}).n(dst).str(doc)
		encConvOps(e, ops)
		group := []string{"convops.srt->ops->srt", "convops.srt->ops->vtt"}[dst]
		o := &obs{Suite: "convops", Group: group, Input: e.String(), NT: len(cues) > 0 && len(ops) > 0,
			Human: map[string]interface{}{"source": doc, "operations": describeOpsExact(ops), "destination": []string{"srt", "vtt"}[dst]}}
		for _, op := range ops {
			R.count("convops.op." + op.name)
		}
		R.count(fmt.Sprintf("convops.ops=%d", len(ops)))
		var buf bytes.Buffer
		var s *astisub.Subtitles
		var err error
		var before []plainCue
		var merged [][]plainCue
		p := safely(func() {
			if s, err = astisub.ReadFromSRT(strings.NewReader(doc)); err != nil {
				return
			}
			before = rawPlainOf(s)
			if err = applyOpsLib(s, ops, func(b []byte, _ string) (*astisub.Subtitles, error) {
				m, e := astisub.ReadFromSRT(bytes.NewReader(b))
				if e == nil {
					merged = append(merged, rawPlainOf(m))
				}
				return m, e
			}); err != nil {
				return
			}
			if dst == 0 {
				err = s.WriteToSRT(&buf)
			} else {
				err = s.WriteToWebVTT(&buf)
			}
		})
		switch {
		case p != "":
			o.Impl, o.Oracle, o.Sig = "2", "conversion with operations panicked: "+p, "convops-panic"
		case err != nil:
			o.Impl = "1"
		default:
			o.Impl = (&enc{}).n(0).bytes(buf.Bytes()).String()
			// oracle: the destination read back = the operations' specifications composed, applied to what was read
			want := applyOpsSpecRaw(before, ops, merged)
			nonneg := true
			for _, w := range want {
				if w.Start < 0 || w.End < 0 || w.End >= int64(100*time.Hour) {
					nonneg = false // outside the property's proviso (non-negative times)
				}
			}
			hasLinear := false
			for _, op := range ops {
				if op.name == "linear" {
					hasLinear = true
				}
			}
			if nonneg {
				var back *astisub.Subtitles
				var rerr error
				if dst == 0 {
					back, rerr = astisub.ReadFromSRT(bytes.NewReader(buf.Bytes()))
				} else {
					back, rerr = astisub.ReadFromWebVTT(bytes.NewReader(buf.Bytes()))
				}
				if rerr != nil {
					o.Oracle, o.Sig = "destination cannot be read back: "+rerr.Error(), "convops-reread"
				} else {
					tol := int64(0)
					if hasLinear {
						tol = 1e6 // binary64 evaluation of the affine map (C15) may move a boundary across a millisecond
					}
					if d := comparePlain(plainOf(back), want, truncTo(1e6), tol); d != "" {
						o.Oracle, o.Sig = "destination differs from the composed specification: "+d, "convops-spec"
					}
				}
			}
		}
		R.add(o)
	}
}

// cues with the text of each line as Item.String() sees it (white space kept)
func rawPlainOf(s *astisub.Subtitles) []plainCue {
	var out []plainCue
	for _, it := range s.Items {
		c := plainCue{Start: int64(it.StartAt), End: int64(it.EndAt)}
		for _, l := range it.Lines {
			c.Lines = append(c.Lines, l.String())
		}
		out = append(out, c)
	}
	return out
}

// the operations' specifications composed, on raw text (Unfragment compares Item.String(): lines joined by " - ");
// merged[k] = the cues of the k-th merge operation's document.  White space is removed from the result's lines at the end.
func applyOpsSpecRaw(cues []plainCue, ops []convOp, merged [][]plainCue) []plainCue {
	mi := 0
	for _, op := range ops {
		switch op.name {
		case "unfragment":
			o := append([]plainCue{}, cues...)
			sort.SliceStable(o, func(i, j int) bool { return o[i].Start < o[j].Start })
			for i := 0; i < len(o); i++ {
				for j := i + 1; j < len(o); j++ {
					if strings.Join(o[i].Lines, " - ") == strings.Join(o[j].Lines, " - ") && o[i].End >= o[j].Start {
						if o[j].End > o[i].End {
							o[i].End = o[j].End
						}
						o = append(o[:j], o[j+1:]...)
						j--
					}
				}
			}
			cues = o
		case "merge":
			o := append([]plainCue{}, cues...)
			if mi < len(merged) {
				o = append(o, merged[mi]...)
			}
			mi++
			sort.SliceStable(o, func(i, j int) bool { return o[i].Start < o[j].Start })
			cues = o
		default:
			cues = applyOpsSpec(cues, []convOp{op})
		}
	}
	out := make([]plainCue, len(cues))
	for i, c := range cues {
		out[i] = plainCue{Start: c.Start, End: c.End}
		for _, l := range c.Lines {
			out[i].Lines = append(out[i].Lines, nows(l))
		}
	}
	return out
}
