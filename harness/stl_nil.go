package main

// C08 / C05, WriteToSTL on the Go-shaped cue list (coq/Model/StlCW.v: write_stl_items_c): []*Item WITH its nil elements,
// Item.InlineStyle / STLJustification / STLPosition and LineItem.InlineStyle / the three *bool as the pointers they are.
// The model input is the list as handed to the library (nil elements encoded as such): the model's own filter
// (Kit.Chk.somes, stl.go 943 nonNilItems) is what is compared, not a filter of the harness.

import (
	"bytes"
	"strings"
	"time"

	astisub "github.com/asticode/go-astisub"
)

func encSTLGoItems(e *enc, s *astisub.Subtitles) {
	ob := func(p *bool) {
		if p == nil {
			e.n(0)
		} else {
			e.n(1).bool(*p)
		}
	}
	style := func(sa *astisub.StyleAttributes) {
		if sa == nil {
			e.n(0)
			return
		}
		e.n(1)
		if sa.STLJustification == nil {
			e.n(0)
		} else {
			e.n(int(*sa.STLJustification) + 1)
		}
		if sa.STLPosition == nil {
			e.n(0)
		} else {
			e.n(1).i(int64(sa.STLPosition.VerticalPosition))
		}
		ob(sa.STLItalics)
		ob(sa.STLUnderline)
		ob(sa.STLBoxing)
	}
	e.n(len(s.Items))
	for _, it := range s.Items {
		if it == nil {
			e.n(0)
			continue
		}
		e.n(1).i(int64(it.StartAt)).i(int64(it.EndAt))
		style(it.InlineStyle)
		e.n(len(it.Lines))
		for _, l := range it.Lines {
			e.n(len(l.Items))
			for _, li := range l.Items {
				e.str(li.Text)
				style(li.InlineStyle)
			}
		}
	}
}

// the write case of stlWriteObs on the same subtitles with nil elements put into the cue list (k decides where; all = a
// list of nil elements only): suite stlwritem, same oracle (the expectation does not know about nil elements)
func stlWriteNilObs(s *astisub.Subtitles, x *stlWExpect, group string, human map[string]interface{}, k int, all bool) *obs {
	cp := *s
	if all {
		cp.Items = []*astisub.Item{nil, nil, nil}[:1+k%3]
		x = &stlWExpect{}
	} else {
		cp.Items = withNilItems(s.Items, k)
	}
	e := &enc{}
	e.str(stlNowStr)
	encSTLMetadataOnly(e, s)
	encSTLGoItems(e, &cp)
	h := map[string]interface{}{"nil_items": len(cp.Items) - len(s.Items), "items": len(cp.Items)}
	for kk, v := range human {
		h[kk] = v
	}
	o := &obs{Suite: "stlwritem", Group: group, Input: e.String(), Human: h, NT: !all && len(s.Items) > 0}
	var buf bytes.Buffer
	var err error
	p := safely(func() { err = cp.WriteToSTL(&buf) })
	switch {
	case p != "":
		o.Impl, o.Oracle, o.Sig = "2", "WriteToSTL panicked on a cue list with nil elements: "+p, "stl-write-panic"
	case err != nil:
		o.Impl = "1"
		if x != nil && len(x.cues) > 0 {
			o.Oracle, o.Sig = "WriteToSTL fails on a cue list with nil elements: "+err.Error(), "stl-write-fails"
		}
	default:
		o.Impl = (&enc{}).n(0).bytes(buf.Bytes()).String()
		h["written_hex"] = hexShort(buf.Bytes())
		if all {
			o.Oracle, o.Sig = "a cue list of nil elements only is written as a file", "stl-write-nil-only"
		} else if x != nil {
			o.Oracle, o.Sig = stlWriteOracle(buf.Bytes(), *x)
		}
		// the property of nil elements: same bytes as the list without them
		var want bytes.Buffer
		if werr := s.WriteToSTL(&want); !all && (werr != nil || !bytes.Equal(want.Bytes(), buf.Bytes())) && o.Oracle == "" {
			o.Oracle, o.Sig = "a cue list with nil elements is not written like the list without them", "stl-write-nil-differs"
		}
	}
	return o
}

// C08: WriteToSTL on cue lists with nil elements, compared byte for byte with write_stl_items_c
func suiteStlNilItems(R *runner, r *rng) {
	R.rule("WriteToSTL on Go-shaped cue lists (nil elements anywhere in Items, only nil elements, nil / set InlineStyle, STLJustification, STLPosition, *bool flags; metadata present / absent; texts inside and outside the repertoire) vs write_stl_items_c (coq/Model/StlCW.v: the list goes through somes as stl.go 943 filters it through nonNilItems); oracle: no panic, same bytes as the list without its nil elements, a list of nil elements only is ErrNoSubtitlesToWrite")
	saved := astisub.Now
	astisub.Now = func() time.Time { return stlNow } // the clock the model input names (stlNowStr)
	defer func() { astisub.Now = saved }()
	N := 40
	if R.tier == "thorough" {
		N = 600
	}
	for c := 0; c < N; c++ {
		x := &stlWExpect{fps: 25, dsc: "1", checkVP: true}
		f := randSTLFile(r, 0, false, false)
		if c%3 != 2 {
			x.fps, x.dsc = f.FPS, string(f.DSC)
		}
		x.cues = randSTLWCues(r, r.intn(5), x.fps, x.dsc != "0", c%5 != 0, false, c%2 == 0)
		s := stlSubsFromWCues(r, x.cues)
		if c%3 != 2 {
			s.Metadata = randSTLMetadata(r, f)
			x.md = s.Metadata
		} else {
			s.Metadata = nil
		}
		if c%7 == 3 && len(s.Items) > 0 && len(s.Items[0].Lines) > 0 && len(s.Items[0].Lines[0].Items) > 0 {
			s.Items[0].Lines[0].Items[0].Text += r.pick("ж", "😀", "€", strings.Repeat("x", 130))
			x = nil
		}
		all := c%10 == 9
		R.count("stl.write.nil_item")
		if all {
			R.count("stl.write.nil_item.only_nil")
		}
		R.add(stlWriteNilObs(s, x, "stl.write.nil_item", map[string]interface{}{"dsc": x2dsc(x), "metadata": s.Metadata != nil}, c, all))
	}
}

func x2dsc(x *stlWExpect) string {
	if x == nil {
		return "outside the oracle's proviso"
	}
	return x.dsc
}
