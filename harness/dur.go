package main

// C16 timestamp codec

import (
	"fmt"
	"regexp"
	"runtime"
	"strconv"
	"sync"
	"time"

	astisub "github.com/asticode/go-astisub"
)

type durFmt struct {
	name string
	sep  string
	k    int
	unit int64
}

var durFmts = []durFmt{
	{"srt", ",", 3, 1_000_000},
	{"vtt/ttml", ".", 3, 1_000_000},
	{"ssa", ".", 2, 10_000_000},
}

var reStamp = regexp.MustCompile(`^(\d{2,}):(\d{2}):(\d{2})([,.])(\d+)$`)

// independent integer reading of a rendered timestamp; returns (value ns, error text)
func stampValue(s string, f durFmt) (int64, string) {
	m := reStamp.FindStringSubmatch(s)
	if m == nil {
		return 0, "rendering " + strconv.Quote(s) + " does not match hh:mm:ss" + f.sep + "fraction"
	}
	if m[4] != f.sep {
		return 0, "wrong fraction separator in " + strconv.Quote(s)
	}
	if len(m[5]) != f.k {
		return 0, fmt.Sprintf("fraction of %q has %d digits, want %d", s, len(m[5]), f.k)
	}
	h, _ := strconv.ParseInt(m[1], 10, 64)
	mi, _ := strconv.ParseInt(m[2], 10, 64)
	se, _ := strconv.ParseInt(m[3], 10, 64)
	fr, _ := strconv.ParseInt(m[5], 10, 64)
	if mi >= 60 || se >= 60 {
		return 0, "minutes or seconds field of " + strconv.Quote(s) + " is not below 60"
	}
	if len(m[1]) > 2 && m[1][0] == '0' {
		return 0, "hours field of " + strconv.Quote(s) + " has a superfluous leading zero"
	}
	return h*3600e9 + mi*60e9 + se*1e9 + fr*f.unit, ""
}

// oracle of C16 for one instant of one text format (implementation observations only)
func oracleStamp(t int64, f durFmt) (rendered string, bad string) {
	rendered = astisub.VerifFormatDuration(time.Duration(t), f.sep, f.k)
	v, e := stampValue(rendered, f)
	if e != "" {
		return rendered, e
	}
	want := t - t%f.unit
	if v != want {
		return rendered, fmt.Sprintf("instant %d ns renders as %q = %d ns, want the latest representable instant %d ns", t, rendered, v, want)
	}
	back, err := astisub.VerifParseDuration(rendered, f.sep, 3)
	if err != nil {
		return rendered, fmt.Sprintf("the reader rejects the writer's rendering %q: %v", rendered, err)
	}
	if int64(back) != want {
		return rendered, fmt.Sprintf("reader maps %q to %d ns, want %d ns", rendered, int64(back), want)
	}
	if again := astisub.VerifFormatDuration(back, f.sep, f.k); again != rendered {
		return rendered, fmt.Sprintf("second write %q differs from the first %q", again, rendered)
	}
	return rendered, ""
}

// STL oracle: frame-quantised rendering, reader within 1 ns, second write identical
func oracleSTL(t int64, fps int) (string, string) {
	s := astisub.VerifFormatDurationSTL(time.Duration(t), fps)
	if len(s) != 8 {
		return s, fmt.Sprintf("STL timecode %q is not 8 digits", s)
	}
	var v [4]int64
	for i := 0; i < 4; i++ {
		n, err := strconv.ParseInt(s[2*i:2*i+2], 10, 64)
		if err != nil || s[2*i] < '0' || s[2*i] > '9' {
			return s, fmt.Sprintf("STL timecode %q has a non-numeric field", s)
		}
		v[i] = n
	}
	if v[1] >= 60 || v[2] >= 60 || v[3] >= int64(fps) {
		return s, fmt.Sprintf("STL timecode %q has a field out of range (fps %d)", s, fps)
	}
	// latest frame instant not after t: frame number floor(rem*fps/1e9)
	sec := t / 1e9
	rem := t % 1e9
	wantF := rem * int64(fps) / 1e9
	if v[0] != sec/3600 || v[1] != sec/60%60 || v[2] != sec%60 || v[3] != wantF {
		return s, fmt.Sprintf("instant %d ns renders as %q, want %02d%02d%02d%02d", t, s, sec/3600, sec/60%60, sec%60, wantF)
	}
	b := astisub.VerifFormatDurationSTLBytes(time.Duration(t), fps)
	if len(b) != 4 || int64(b[0]) != v[0] || int64(b[1]) != v[1] || int64(b[2]) != v[2] || int64(b[3]) != v[3] {
		return s, fmt.Sprintf("binary timecode %v differs from the decimal one %q", b, s)
	}
	back, err := astisub.VerifParseDurationSTL(s, fps)
	if err != nil {
		return s, "reader rejects " + s
	}
	// exact instant of the frame: sec*1e9 + F*1e9/fps ; |back - exact| < 1 ns  <=>  |back*fps - exact*fps| < fps
	exactTimesFps := (sec*1_000_000_000)*int64(fps) + wantF*1_000_000_000
	diff := int64(back)*int64(fps) - exactTimesFps
	if diff < 0 {
		diff = -diff
	}
	if diff >= int64(fps) {
		return s, fmt.Sprintf("reader maps %q to %d ns, more than 1 ns away from the frame instant", s, int64(back))
	}
	if bb := astisub.VerifParseDurationSTLBytes(b, fps); bb != back {
		return s, "binary and decimal readers disagree"
	}
	if again := astisub.VerifFormatDurationSTL(back, fps); again != s {
		return s, fmt.Sprintf("reading %q (%d fps) and writing again gives %q", s, fps, again)
	}
	return s, ""
}

func suiteDur(R *runner, r *rng) {
	R.rule("timestamps: for each text format (SRT ',' 3 digits; WebVTT/TTML '.' 3; SSA '.' 2): unit boundaries k*unit-1, k*unit, k*unit+1 ns around minute/hour carries for hours in {0,1,9,10,23,24,99}, 20000 (quick) / 400000 (thorough) random ns instants below 100 h, consecutive pairs for monotonicity; negative and >=100 h instants for the model comparison only; parser: renderings with 1-3 fraction digits, optional hours, blanks, both separators and mutated strings; STL: every frame boundary +-1 ns of sampled seconds at 25 and 30 fps below 24 h; thorough additionally sweeps every millisecond of [0,24h) and every STL (h,m,s,frame) on the implementation against the integer oracle; non-trivial = instant not a multiple of the unit / string accepted by the parser")
	addFmt := func(t int64, f durFmt, oracle bool, group string) {
		in := &enc{}
		in.i(t).str(f.sep).n(f.k)
		o := &obs{Suite: "fmtdur", Group: group, Input: in.String(), Human: map[string]interface{}{"t_ns": t, "format": f.name}}
		var s string
		p := safely(func() {
			if oracle {
				s, o.Oracle = oracleStamp(t, f)
			} else {
				s = astisub.VerifFormatDuration(time.Duration(t), f.sep, f.k)
			}
		})
		if p != "" {
			o.Impl, o.Oracle, o.Sig = "PANIC", "formatDuration panicked: "+p, "fmtdur-panic"
		} else {
			o.Impl = (&enc{}).str(s).String()
			o.Human.(map[string]interface{})["rendered"] = s
		}
		o.NT = t%f.unit != 0
		if o.Oracle != "" {
			o.Sig = "stamp-" + f.name
		}
		R.add(o)
	}
	hoursSet := []int64{0, 1, 9, 10, 23, 24, 99}
	for _, f := range durFmts {
		for _, h := range hoursSet {
			for _, base := range []int64{0, 59_000_000_000, 60_000_000_000, 3599_000_000_000, 3599_990_000_000, 1_000_000_000, 999_000_000, 990_000_000, 10_000_000, 9_000_000} {
				for k := int64(-2); k <= 2; k++ {
					for _, d := range []int64{-1, 0, 1} {
						t := h*3600_000_000_000 + base + k*f.unit + d
						if t >= 0 {
							addFmt(t, f, true, "fmtdur.boundaries")
						}
					}
				}
			}
		}
	}
	N := 20000
	if R.tier == "thorough" {
		N = 400000
	}
	for c := 0; c < N; c++ {
		f := durFmts[c%3]
		var t int64
		switch r.intn(4) {
		case 0:
			t = r.i64n(360_000_000_000_000)
		case 1:
			t = r.i64n(360_000_000) * 1_000_000
		case 2:
			t = r.i64n(36_000_000)*10_000_000 + r.rangeI64(-1, 1)
		default:
			t = r.i64n(86_400_000_000_000)
		}
		if t < 0 {
			t = 0
		}
		addFmt(t, f, true, "fmtdur.random")
		// monotonicity on a close pair
		t2 := t + r.i64n(3*f.unit)
		if t2 < 360_000_000_000_000 {
			a := astisub.VerifFormatDuration(time.Duration(t), f.sep, f.k)
			b := astisub.VerifFormatDuration(time.Duration(t2), f.sep, f.k)
			va, ea := stampValue(a, f)
			vb, eb := stampValue(b, f)
			if ea == "" && eb == "" && va > vb {
				R.add(&obs{Suite: "fmtdur", Group: "fmtdur.monotone", NoModel: true, Input: fmt.Sprint(t, t2), Oracle: fmt.Sprintf("later instant %d renders as an earlier timestamp %q than %d (%q)", t2, b, t, a), Sig: "stamp-monotone", Human: map[string]interface{}{"t1": t, "t2": t2}})
			}
		}
	}
	// outside the property's domain: model comparison only
	for c := 0; c < N/10; c++ {
		f := durFmts[c%3]
		t := r.rangeI64(-400_000_000_000_000, 4_000_000_000_000_000)
		if c%2 == 0 {
			t = -r.i64n(5_000_000_000)
		}
		addFmt(t, f, false, "fmtdur.outside")
	}

	// ---- parser ----
	addParse := func(s string, sep byte, k int, group string) {
		in := &enc{}
		in.str(s).n(int(sep)).n(k)
		o := &obs{Suite: "parsedur", Group: group, Input: in.String(), Human: map[string]interface{}{"s": s, "sep": string(sep), "digits": k}}
		var d time.Duration
		var err error
		p := safely(func() { d, err = astisub.VerifParseDuration(s, string(sep), k) })
		switch {
		case p != "":
			o.Impl, o.Oracle, o.Sig = "PANIC", "parseDuration panicked: "+p, "parsedur-panic"
		case err != nil:
			o.Impl = "0"
		default:
			o.Impl = (&enc{}).n(1).i(int64(d)).String()
			o.NT = true
		}
		R.add(o)
	}
	digits := func(n int) string {
		b := make([]byte, n)
		for i := range b {
			b[i] = byte('0' + r.intn(10))
		}
		return string(b)
	}
	for c := 0; c < N/2; c++ {
		sep := byte(',')
		if r.chance(1, 2) {
			sep = '.'
		}
		var s string
		if r.chance(3, 4) {
			s = digits(1+r.intn(3)) + ":" + digits(1+r.intn(2)) + ":" + digits(1+r.intn(2))
		} else {
			s = digits(1+r.intn(2)) + ":" + digits(1+r.intn(2))
		}
		if r.chance(1, 8) {
			s = " " + s
		}
		if r.chance(5, 6) {
			s += string(sep) + digits(1+r.intn(3))
		}
		if r.chance(1, 8) {
			s += r.pick(" ", "\t", " ", "x", ":", "-1")
		}
		// mutations
		if r.chance(1, 5) && len(s) > 0 {
			b := []byte(s)
			i := r.intn(len(b))
			switch r.intn(4) {
			case 0:
				b[i] = byte(r.pick(":", ",", ".", " ", "-", "+", "a", "9")[0])
			case 1:
				b = append(b[:i], b[i+1:]...)
			case 2:
				b = append(b[:i], append([]byte(r.pick(":", ",", ".", " ", "00", "\xc2\xa0")), b[i:]...)...)
			default:
				b = append(b, b[i:]...)
			}
			s = string(b)
		}
		addParse(s, sep, 3, "parsedur.random")
	}
	for _, s := range []string{"", ":", "::", "1:2", "1:2:3", "01:02:03,4", "01:02:03,45", "01:02:03,456", "01:02:03,4567", "01:02:03.4", " 01:02:03,004 ", "00:99:99,999", "-1:00:00,000", "+1:00:00,000", "1:00:00,-10", ":01:02,003", "1:2:3:4", "100:00:00,000", "99999999999999999999:00:00,000", "00:00:00,", "00:00:00, 1", "00:00:00,1 ", "00:00:01, 5", "1,2,3", "00:00,500,600"} {
		addParse(s, ',', 3, "parsedur.corpus")
		addParse(s, '.', 3, "parsedur.corpus")
		// SRT wrapper
		in := &enc{}
		in.str(s)
		o := &obs{Suite: "parsesrt", Group: "parsedur.corpus", Input: in.String(), Human: map[string]interface{}{"s": s}}
		d, err := astisub.VerifParseDurationSRT(s)
		if err != nil {
			o.Impl = "0"
		} else {
			o.Impl = (&enc{}).n(1).i(int64(d)).String()
			o.NT = true
		}
		R.add(o)
	}

	// ---- STL ----
	addSTL := func(t int64, fps int, group string) {
		in := &enc{}
		in.i(t).n(fps)
		o := &obs{Suite: "fmtstl", Group: group, Input: in.String(), Human: map[string]interface{}{"t_ns": t, "fps": fps}}
		var s string
		p := safely(func() { s, o.Oracle = oracleSTL(t, fps) })
		if p != "" {
			o.Impl, o.Oracle, o.Sig = "PANIC", "STL timecode functions panicked: "+p, "stl-dur-panic"
			R.add(o)
			return
		}
		if o.Oracle != "" {
			o.Sig = fmt.Sprintf("stl-timecode-fps%d", fps)
		}
		o.Impl = (&enc{}).str(s).String()
		o.Human.(map[string]interface{})["rendered"] = s
		o.NT = t%1_000_000_000 != 0
		R.add(o)
		// the binary form and both readers against the model
		b := astisub.VerifFormatDurationSTLBytes(time.Duration(t), fps)
		R.add(&obs{Suite: "fmtstlb", Group: group, Input: in.String(), Impl: (&enc{}).bytes(b).String(), NT: o.NT})
		if back, err := astisub.VerifParseDurationSTL(s, fps); err == nil {
			R.add(&obs{Suite: "parsestl", Group: group, Input: (&enc{}).str(s).n(fps).String(), Impl: (&enc{}).n(1).i(int64(back)).String(), NT: o.NT})
		}
		R.add(&obs{Suite: "parsestlb", Group: group, Input: (&enc{}).bytes(b).n(fps).String(), Impl: (&enc{}).i(int64(astisub.VerifParseDurationSTLBytes(b, fps))).String(), NT: o.NT})
	}
	for _, fps := range []int{25, 30} {
		secs := []int64{0, 1, 59, 60, 3599, 3600, 35999, 36000, 86399}
		for c := 0; c < 20; c++ {
			secs = append(secs, r.i64n(86400))
		}
		for _, sec := range secs {
			for f := int64(0); f < int64(fps); f++ {
				// frame boundary: smallest ns with frame number f
				b := (f*1_000_000_000 + int64(fps) - 1) / int64(fps)
				for _, d := range []int64{-1, 0, 1} {
					t := sec*1_000_000_000 + b + d
					if t >= 0 && t < 86_400_000_000_000 {
						addSTL(t, fps, "stl.boundaries")
					}
				}
			}
		}
		for c := 0; c < N/10; c++ {
			addSTL(r.i64n(86_400_000_000_000), fps, "stl.random")
		}
	}

	if R.tier == "thorough" {
		// implementation-only sweeps against the integer oracle
		sweep := func(group string, n int64, f func(i int64) (string, string), sig func(i int64) string) {
			workers := runtime.NumCPU()
			var mu sync.Mutex
			var wg sync.WaitGroup
			fails := 0
			for w := 0; w < workers; w++ {
				wg.Add(1)
				go func(w int) {
					defer wg.Done()
					for i := int64(w); i < n; i += int64(workers) {
						if desc, bad := f(i); bad != "" {
							mu.Lock()
							fails++
							if fails <= 3 {
								R.add(&obs{Suite: "sweep", Group: group, NoModel: true, Input: fmt.Sprint(i), Oracle: bad, Sig: sig(i), Human: map[string]interface{}{"index": i, "rendered": desc}})
							}
							mu.Unlock()
						}
					}
				}(w)
			}
			wg.Wait()
			R.bulk(group, int(n), int(n))
			R.exhaustive(group)
		}
		for _, f := range durFmts {
			f := f
			sweep("sweep.everyms."+f.name, 86_400_000, func(i int64) (string, string) { return oracleStamp(i*1_000_000+(i%3)*333_333, f) }, func(int64) string { return "stamp-" + f.name })
		}
		for _, fps := range []int{25, 30} {
			fps := fps
			sweep(fmt.Sprintf("sweep.stl.fps%d", fps), 86400*int64(fps), func(i int64) (string, string) {
				sec, fr := i/int64(fps), i%int64(fps)
				return oracleSTL(sec*1_000_000_000+(fr*1_000_000_000+int64(fps)-1)/int64(fps), fps)
			}, func(int64) string { return fmt.Sprintf("stl-timecode-fps%d", fps) })
		}
	}
}
