package main

// C07 plain view, teletext as the source of conversions (Model/PlainTtx.v, Proofs/PlainTtxProofs.v).  For generated plain
// cue lists inside ttx_plain_ok the harness writes the delivered (time, PES payload) list exactly as ttx_enc does (its own
// Hamming/parity/packet encoder; the list is compared with the extracted ttx_enc), muxes it into a transport stream
// with the astits muxer, lets the LIBRARY convert the .ts file (astisub.OpenFile, then each of the five writers) and
// compares the destination bytes with the model's convert_plain ttx_dec F_enc evaluated on the delivered list; what the
// reader returns is compared with ttx_dec.

import (
	"bytes"
	"fmt"
	"os"
	"path/filepath"
	"strings"

	astisub "github.com/asticode/go-astisub"
)

// destinations excluded from the byte comparison for a teletext source, with the exact reason
var plainTtxSkip = map[string]string{}

// bytes that are G0 cells decoding to themselves under national option 0 (English): everything in 0x20..0x7e except
// # [ \ ] ^ _ ` { | } ~ (national option positions and the positions the Latin G0 table itself maps elsewhere)
func ttxIdent(b byte) bool {
	if b < 0x20 || b > 0x7e {
		return false
	}
	return !strings.ContainsRune("#[\\]^_`{|}~", rune(b))
}

func ttxPlainCues(r *rng) []srtCue {
	words := []string{"hello", "world", "Good morning", "a-b", "x y z", "The quick brown fox", "ok", "1 + 1 = 2", "(music)", "What?", "No!",
		"50% off: $9.99", "<i>not a tag</i>", "a & b", "\"quoted\"", "semi;colon, comma", "WEBVTT", "-->", "00:00:01,000"}
	var cues []srtCue
	var t int64
	n := 1 + r.intn(5)
	for i := 0; i < n; i++ {
		if i > 0 && r.chance(2, 3) {
			t += (1 + r.i64n(3000)) * 1e6 // a gap: an erase page in between; otherwise the next cue replaces this one
		}
		c := srtCue{Start: t}
		t += (r.i64n(3000)) * 1e6
		c.End = t
		for l := 1 + r.intn(3); l > 0; l-- {
			txt := words[r.intn(len(words))]
			if r.chance(1, 3) {
				txt += " " + words[r.intn(len(words))]
			}
			if len(txt) > 37 {
				txt = strings.TrimSpace(txt[:37])
			}
			c.Lines = append(c.Lines, []srtRun{{Text: txt}})
		}
		cues = append(cues, c)
	}
	return cues
}

// the delivered list ttx_enc writes for the cues (Model/PlainTtx.v)
func ttxPlainDeliveries(cues []srtCue) []tmDelivery {
	var ds []tmDelivery
	hdr := func() []byte { return headerPacket(8, 88, ttxHeaderOpts{subtitle: true}) }
	for i, c := range cues {
		d := append([]byte{0x10}, hdr()...)
		for k, l := range c.Lines {
			d = append(d, rowPacket(8, k+1, append(append([]byte{0x0b, 0x0b}, []byte(l[0].Text)...), 0x0a))...)
		}
		ds = append(ds, tmDelivery{T: c.Start / 1e6, Data: d})
		if i+1 == len(cues) || cues[i+1].Start != c.End {
			ds = append(ds, tmDelivery{T: c.End / 1e6, Data: append([]byte{0x10}, hdr()...)})
		}
	}
	return ds
}

func encPlainCues(e *enc, cues []srtCue) *enc {
	e.n(len(cues))
	for _, c := range cues {
		e.i(c.Start).i(c.End).n(len(c.Lines))
		for _, l := range c.Lines {
			e.str(l[0].Text)
		}
	}
	return e
}

func encDeliveries(e *enc, ds []tmDelivery) *enc {
	e.n(len(ds))
	for _, d := range ds {
		if d.T < 0 {
			e.n(0)
		} else {
			e.n(1).i(d.T * 1e6)
		}
		e.bytes(d.Data)
	}
	return e
}

func suiteConvertPlainTtx(R *runner, r *rng) {
	R.rule("teletext as the source of conversions, plain view: unstyled cue lists inside ttx_plain_ok (1..5 cues, the first at 0, on the millisecond grid, touching or separated by a gap, 1..3 lines of 1..37 bytes that decode to themselves under national option 0, incl. markup-like text for the destination writers to escape) written as the delivered list of ttx_enc by the harness's own teletext encoder (compared byte for byte with the extracted ttx_enc), muxed with the astits muxer into a .ts file, opened with astisub.OpenFile and written by each of the five writers: destination bytes vs the model's convert_plain ttx_dec F_enc on the delivered list; the reader's cues vs ttx_dec")
	N := 60
	if R.tier == "thorough" {
		N = 800
	}
	dir := filepath.Join(buildDir, fmt.Sprintf("plainttx-%d", os.Getpid()))
	os.MkdirAll(dir, 0o755)
	defer os.RemoveAll(dir)
	for c := 0; c < N; c++ {
		cues := ttxPlainCues(r)
		ok := true
		for _, cu := range cues {
			for _, l := range cu.Lines {
				for i := 0; i < len(l[0].Text); i++ {
					ok = ok && ttxIdent(l[0].Text[i])
				}
			}
		}
		if !ok {
			fatal("plain_ttx generator left ttx_plain_ok")
		}
		ds := ttxPlainDeliveries(cues)
		h := map[string]interface{}{"cues": cues, "deliveries": len(ds)}
		// the encoder: harness vs ttx_enc
		R.add(&obs{Suite: "ttxenc", Group: "plain.ttx.enc", Input: encPlainCues(&enc{}, cues).String(),
			Impl: encDeliveries((&enc{}).n(0), ds).String(), NT: true, Human: h})
		ts, err := tmTS(uint16(256+r.intn(20)), ds)
		if err != nil {
			R.note("muxer error: " + err.Error())
			continue
		}
		path := filepath.Join(dir, fmt.Sprintf("c%d.ts", c))
		if err := os.WriteFile(path, ts, 0o644); err != nil {
			fatal("write %s: %v", path, err)
		}
		in := encDeliveries(&enc{}, ds).String()
		// reading
		s, err := astisub.OpenFile(path)
		ro := &obs{Suite: "plainreadttx", Group: "plain.read.ts", Input: in, NT: true, Human: h}
		if err != nil {
			ro.Impl = "1"
		} else {
			ro.Impl = encPlainOf(s)
		}
		R.add(ro)
		if err != nil {
			continue
		}
		for _, dst := range plainCodecs {
			if _, skip := plainTtxSkip[dst.name]; skip {
				R.count("plain.restricted.ts->" + dst.name)
				continue
			}
			s2, err := astisub.OpenFile(path)
			if err != nil {
				continue
			}
			var out bytes.Buffer
			o := &obs{Suite: "convplainttx", Group: "plain.ts->" + dst.name, Input: (&enc{}).n(dst.code).raw(in).String(), NT: true,
				Human: map[string]interface{}{"destination": dst.name, "cues": cues}}
			R.count("plain.ts->" + dst.name)
			var werr error
			p := safely(func() { werr = dst.write(s2, &out) })
			switch {
			case p != "":
				o.Impl, o.Oracle, o.Sig = "2", fmt.Sprintf("ts -> %s panicked: %s", dst.name, p), "convplainttx-panic"
			case werr != nil:
				o.Impl = "1"
				R.count("plain.ts->" + dst.name + ".writer_error")
			default:
				o.Impl = (&enc{}).n(0).bytes(out.Bytes()).String()
			}
			R.add(o)
		}
		os.Remove(path)
	}
}

// ---- styled teletext sources (Model/ConvTtx.v) ----

// a row: start box twice, runs separated by colour / size codes (also one in front of the first run, sometimes two codes in a
// row), spaces at the ends of runs (trimmed by the reader), end box
func ttxStyledRow(r *rng) []byte {
	words := []string{"hello", "world", "a-b", "x  y", "ok", "1+1=2", "(music)", "What?", "No!", "<i>", "a & b", "-->", "50%", "fox"}
	cells := []byte{0x0b, 0x0b}
	code := func() {
		if r.chance(3, 4) {
			cells = append(cells, byte(r.intn(8)))
		} else {
			cells = append(cells, byte(0xc+r.intn(4)))
		}
	}
	if r.chance(1, 3) {
		code()
	}
	for k := 1 + r.intn(4); k > 0 && len(cells) < 30; k-- {
		txt := words[r.intn(len(words))]
		if r.chance(1, 4) {
			txt = " " + txt
		}
		if r.chance(1, 4) {
			txt += strings.Repeat(" ", 1+r.intn(2))
		}
		if len(cells)+len(txt) > 36 {
			break
		}
		cells = append(cells, txt...)
		if k > 1 {
			code()
			if r.chance(1, 5) {
				code()
			}
		}
	}
	return append(cells, 0x0a)
}

func suiteConvertStyledTtx(R *runner, r *rng) {
	R.rule("styled teletext sources: 1..4 cues (the first at 0, millisecond grid, touching or separated), 1..3 rows of 1..4 runs separated by colour and size codes (also in front of the first run, doubled, repeating the colour in force), spaces at the ends of runs, text that decodes to itself under national option 0 incl. markup-like text; delivered list built by the harness's teletext encoder, muxed with astits into a .ts file, astisub.OpenFile, each of the five writers: destination bytes vs the model's convert_ttx_F (Model/ConvTtx.v) on the delivered list")
	N := 60
	if R.tier == "thorough" {
		N = 800
	}
	dir := filepath.Join(buildDir, fmt.Sprintf("styledttx-%d", os.Getpid()))
	os.MkdirAll(dir, 0o755)
	defer os.RemoveAll(dir)
	hdr := func() []byte { return headerPacket(8, 88, ttxHeaderOpts{subtitle: true}) }
	for c := 0; c < N; c++ {
		var ds []tmDelivery
		var t int64
		var human []string
		n := 1 + r.intn(4)
		for i := 0; i < n; i++ {
			d := append([]byte{0x10}, hdr()...)
			for k, nr := 0, 1+r.intn(3); k < nr; k++ {
				cells := ttxStyledRow(r)
				if c == 0 && i == 0 && k == 0 {
					// the row of the Coq example (Proofs/ConvTtxExamples.v): words separated by attribute cells only
					cells = []byte("\x0b\x0bHello\x01red\x07 white  \x0a")
				}
				human = append(human, fmt.Sprintf("%q", cells))
				d = append(d, rowPacket(8, k+1, cells)...)
			}
			ds = append(ds, tmDelivery{T: t, Data: d})
			t += int64(r.intn(3000))
			if i+1 == n || r.chance(2, 3) {
				ds = append(ds, tmDelivery{T: t, Data: append([]byte{0x10}, hdr()...)})
				t += int64(1 + r.intn(3000))
			}
		}
		ts, err := tmTS(uint16(256+r.intn(20)), ds)
		if err != nil {
			R.note("muxer error: " + err.Error())
			continue
		}
		path := filepath.Join(dir, fmt.Sprintf("c%d.ts", c))
		if err := os.WriteFile(path, ts, 0o644); err != nil {
			fatal("write %s: %v", path, err)
		}
		in := encDeliveries(&enc{}, ds).String()
		for _, dst := range plainCodecs {
			s2, err := astisub.OpenFile(path)
			if err != nil {
				continue
			}
			var out bytes.Buffer
			o := &obs{Suite: "convttx", Group: "styled.ts->" + dst.name, Input: (&enc{}).n(dst.code).raw(in).String(), NT: true,
				Human: map[string]interface{}{"destination": dst.name, "rows": human}}
			R.count("styled.ts->" + dst.name)
			var werr error
			p := safely(func() { werr = dst.write(s2, &out) })
			switch {
			case p != "":
				o.Impl, o.Oracle, o.Sig = "2", fmt.Sprintf("styled ts -> %s panicked: %s", dst.name, p), "convttx-panic"
			case werr != nil:
				o.Impl = "1"
				R.count("styled.ts->" + dst.name + ".writer_error")
			default:
				o.Impl = (&enc{}).n(0).bytes(out.Bytes()).String()
				if ls := strings.Split(out.String(), "\n"); c == 0 && dst.name == "srt" && len(ls) > 2 {
					R.note(fmt.Sprintf("observation (inside C07's inter-run white-space tolerance): page row %q through OpenFile + WriteToSRT gives the text line %q (the reader trims run texts, the writer puts runs side by side)", "\x0b\x0bHello\x01red\x07 white  \x0a", ls[2]))
				}
			}
			R.add(o)
		}
		os.Remove(path)
	}
}
