package main

// C07, styled EBU STL sources into SubRip.  The STL reader sets STL attributes only (italics, underline, boxing, colours as
// Teletext colours, justification, vertical position; propagateSTLAttributes derives WebVTTAlign / WebVTTLine); the SubRip
// writer looks at SRTColor / SRTBold / SRTItalics / SRTUnderline / SRTPosition, which no STL path sets.  So the conversion
// of a styled STL file into SubRip is the conversion through the plain view (Model/Plain.v: convert_plain stl_dec srt_enc),
// and C07_any_source applies to the styled document.  The styled loop of suiteConvertPlainStyled has no STL source; this
// suite adds it for the destination SubRip: styled STL files of the C05 generator (open subtitles and teletext, in-row
// style changes, colours, boxing, justification, positions), destination bytes compared with the model.

import (
	"bytes"
	"fmt"
)

func suiteConvertStlStyledSrt(R *runner, r *rng) {
	R.rule("conversion of styled EBU STL sources into SubRip through the plain view: STL files of the C05 generator with styled rows (italics, underline, boxing, colour changes, justification, vertical positions, open and teletext display standards), read by the library and written as SubRip; destination bytes against convert_plain stl_dec srt_enc (the SubRip writer looks at nothing the STL reader sets besides times and text); outside the STL model's faithful domain the result class only")
	var stl, srt *plainCodec
	for i := range plainCodecs {
		switch plainCodecs[i].name {
		case "stl":
			stl = &plainCodecs[i]
		case "srt":
			srt = &plainCodecs[i]
		}
	}
	if stl == nil || srt == nil {
		return
	}
	N := 60
	if R.tier == "thorough" {
		N = 1000
	}
	for c := 0; c < N; c++ {
		f := randSTLFile(r, 5, true, false)
		doc := renderSTL(r, f)
		s0, err := stl.read(doc)
		if err != nil || len(s0.Items) == 0 {
			continue
		}
		styled := false
		for _, it := range s0.Items {
			for _, l := range it.Lines {
				if len(l.Items) > 1 {
					styled = true
				}
				for _, li := range l.Items {
					if li.InlineStyle != nil && (li.InlineStyle.STLItalics != nil || li.InlineStyle.STLUnderline != nil || li.InlineStyle.STLBoxing != nil || li.InlineStyle.TeletextColor != nil) {
						styled = true
					}
				}
			}
		}
		if styled {
			R.count("plain.styled.stl->srt.styled_source")
		}
		var out bytes.Buffer
		o := &obs{Suite: "convplain", Group: "plain.styled.stl->srt", Input: (&enc{}).n(stl.code).n(srt.code).bytes(doc).String(), NT: true,
			Human: map[string]interface{}{"source": "stl", "destination": "srt", "cues": len(s0.Items), "document_hex": hexShort(doc)}}
		R.count("plain.styled.stl->srt")
		var werr error
		p := safely(func() { werr = srt.write(s0, &out) })
		switch {
		case p != "":
			o.Impl, o.Oracle, o.Sig = "2", fmt.Sprintf("stl -> srt panicked: %s", p), "convplain-panic"
		case werr != nil:
			o.Impl = "1"
		default:
			o.Impl = (&enc{}).n(0).bytes(out.Bytes()).String()
		}
		R.add(o)
	}
}
