package main

// C04 SSA/ASS: correspondence between the extracted Coq model (coq/Model/Ssa.v through ocaml/drv_ssa.ml) and the
// implementation.  Every suite of this file evaluates the library and the model on the same input and compares
// the projected observables textually; the encodings are those of the header comment of ocaml/drv_ssa.ml.

import (
	"bytes"
	"fmt"
	"math"
	"regexp"
	"strconv"
	"strings"
	"time"

	astisub "github.com/asticode/go-astisub"
)

// ---- encoders (one projection of the library's values, used for results and for inputs) ---------------------

func encStrList(e *enc, l []string) {
	e.n(len(l))
	for _, s := range l {
		e.str(s)
	}
}

func encOptInt(e *enc, p *int) {
	if p == nil {
		e.n(0)
	} else {
		e.n(1).i(int64(*p))
	}
}

func encOptBoolP(e *enc, p *bool) {
	if p == nil {
		e.n(0)
	} else {
		e.n(1).bool(*p)
	}
}

func encOptColor(e *enc, c *astisub.Color) {
	if c == nil {
		e.n(0)
	} else {
		e.n(1).n(int(c.Alpha)).n(int(c.Blue)).n(int(c.Green)).n(int(c.Red))
	}
}

// ssaThousandths: the floats the model represents are exactly the k/1000 with |k| < 10^15, the negative zero excluded
func ssaThousandths(f float64) (int64, bool) {
	if math.IsNaN(f) || math.IsInf(f, 0) || math.Abs(f) > 1e13 {
		return 0, false
	}
	k := int64(math.Round(f * 1000))
	if float64(k)/1000 != f || k >= 1e15 || k <= -1e15 || (f == 0 && math.Signbit(f)) {
		return 0, false
	}
	return k, true
}

// a float outside the model's domain is the token NaF (the model has answered NS on the input that produced it)
func encOptFloat(e *enc, p *float64) {
	if p == nil {
		e.n(0)
		return
	}
	e.n(1)
	if k, ok := ssaThousandths(*p); ok {
		e.i(k)
	} else {
		e.raw("NaF")
	}
}

func encSsaStyle(e *enc, name string, sa *astisub.StyleAttributes) {
	if sa == nil {
		sa = &astisub.StyleAttributes{}
	}
	e.str(name).str(sa.SSAFontName)
	encOptBoolP(e, sa.SSABold)
	encOptBoolP(e, sa.SSAItalic)
	encOptBoolP(e, sa.SSAStrikeout)
	encOptBoolP(e, sa.SSAUnderline)
	encOptColor(e, sa.SSABackColour)
	encOptColor(e, sa.SSAOutlineColour)
	encOptColor(e, sa.SSAPrimaryColour)
	encOptColor(e, sa.SSASecondaryColour)
	encOptFloat(e, sa.SSAAlphaLevel)
	encOptFloat(e, sa.SSAAngle)
	encOptFloat(e, sa.SSAFontSize)
	encOptFloat(e, sa.SSAOutline)
	encOptFloat(e, sa.SSAScaleX)
	encOptFloat(e, sa.SSAScaleY)
	encOptFloat(e, sa.SSAShadow)
	encOptFloat(e, sa.SSASpacing)
	encOptInt(e, sa.SSAAlignment)
	encOptInt(e, sa.SSABorderStyle)
	encOptInt(e, sa.SSAEncoding)
	encOptInt(e, sa.SSAMarginLeft)
	encOptInt(e, sa.SSAMarginRight)
	encOptInt(e, sa.SSAMarginVertical)
}

func encSsaInfo(e *enc, m *astisub.Metadata) {
	encStrList(e, m.Comments)
	e.str(m.SSACollisions).str(m.SSAOriginalEditing).str(m.SSAOriginalScript).str(m.SSAOriginalTiming).str(m.SSAOriginalTranslation)
	e.str(m.SSAScriptType).str(m.SSAScriptUpdatedBy).str(m.SSASynchPoint).str(m.Title).str(m.SSAUpdateDetails).str(m.SSAWrapStyle)
	encOptInt(e, m.SSAPlayDepth)
	encOptInt(e, m.SSAPlayResX)
	encOptInt(e, m.SSAPlayResY)
	encOptFloat(e, m.SSATimer)
}

func encSsaLines(e *enc, ls []astisub.Line) {
	e.n(len(ls))
	for _, l := range ls {
		e.str(l.VoiceName)
		e.n(len(l.Items))
		for _, li := range l.Items {
			e.str(li.Text)
			if li.InlineStyle == nil {
				e.n(0)
			} else {
				e.n(1).str(li.InlineStyle.SSAEffect)
			}
		}
	}
}

func encSsaItem(e *enc, it *astisub.Item) {
	e.i(int64(it.StartAt)).i(int64(it.EndAt))
	if it.Style == nil {
		e.n(0)
	} else {
		e.n(1).str(it.Style.ID)
	}
	if a := it.InlineStyle; a == nil {
		e.n(0)
	} else {
		e.n(1).str(a.SSAEffect)
		encOptInt(e, a.SSALayer)
		encOptInt(e, a.SSAMarginLeft)
		encOptInt(e, a.SSAMarginRight)
		encOptInt(e, a.SSAMarginVertical)
		encOptBoolP(e, a.SSAMarked)
	}
	encSsaLines(e, it.Lines)
}

// encSsaSubs: the doc encoding of a Subtitles value (styles in bytewise key order, as the driver prints them)
func encSsaSubs(s *astisub.Subtitles) string {
	e := &enc{}
	if s.Metadata == nil {
		e.n(0)
	} else {
		e.n(1)
		encSsaInfo(e, s.Metadata)
	}
	e.n(len(s.Styles))
	for _, k := range keysOfS(s.Styles) {
		e.str(k)
		if st := s.Styles[k]; st == nil {
			e.n(0)
		} else {
			e.n(1)
			encSsaStyle(e, st.ID, st.InlineStyle)
		}
	}
	e.n(len(s.Items))
	for _, it := range s.Items {
		encSsaItem(e, it)
	}
	return e.String()
}

func encSsaEvent(e *enc, v *astisub.VerifSSAEvent) {
	e.str(v.Category).str(v.Effect).i(int64(v.End))
	encOptInt(e, v.Layer)
	encOptBoolP(e, v.Marked)
	encOptInt(e, v.MarginLeft)
	encOptInt(e, v.MarginRight)
	encOptInt(e, v.MarginVertical)
	e.str(v.Name).i(int64(v.Start)).str(v.Style).str(v.Text)
}

func fmtMap(names []string) map[int]string {
	m := map[int]string{}
	for i, n := range names {
		m[i] = n
	}
	return m
}

// ---- generators: cells, formats, rows ------------------------------------------------------------------------

func shuffleStrings(r *rng, l []string) {
	for i := len(l) - 1; i > 0; i-- {
		j := r.intn(i + 1)
		l[i], l[j] = l[j], l[i]
	}
}

// random bytes of an alphabet
func randFrom(r *rng, alphabet []string, maxLen int) string {
	var b strings.Builder
	for n := r.intn(maxLen + 1); n > 0; n-- {
		b.WriteString(alphabet[r.intn(len(alphabet))])
	}
	return b.String()
}

var ssaHostile = []string{",", ":", ";", "[", "]", "{", "}", "\\", "*", "&", "H", "N", "n", " ", "\t", "\u00a0", "\u2028", "0", "1", "9", "-", "+", ".", "a", "Z", "é", "=", "\xc2", "\xa0"}

// 0..2 byte-level edits: insertion, deletion, replacement
func mutBytes(r *rng, s string, alphabet []string) string {
	for n := r.intn(3); n > 0; n-- {
		p := r.intn(len(s) + 1)
		switch r.intn(3) {
		case 0:
			s = s[:p] + alphabet[r.intn(len(alphabet))] + s[p:]
		case 1:
			if p < len(s) {
				s = s[:p] + s[p+1:]
			}
		default:
			if p < len(s) {
				s = s[:p] + alphabet[r.intn(len(alphabet))] + s[p+1:]
			}
		}
	}
	return s
}

var ssaStyleNamesAll = []string{"Name", "Alignment", "AlphaLevel", "Angle", "BackColour", "Bold", "BorderStyle", "Encoding", "Fontname", "Fontsize", "Italic",
	"MarginL", "MarginR", "MarginV", "Outline", "OutlineColour", "PrimaryColour", "ScaleX", "ScaleY", "SecondaryColour", "Shadow", "Spacing", "Strikeout", "Underline"}
var ssaEventNamesAll = []string{"Effect", "End", "Layer", "MarginL", "MarginR", "MarginV", "Marked", "Name", "Start", "Style", "Text"}
var ssaUnknownNames = []string{"Foo", "", "name", "bold", "Bold ", "TertiaryColor", "Colour", "Actor", "Text2", "\u00a0", "Fontname\u00a0"}

var ssaBoolCells = []string{"-1", "1", "0", "2", "-0", "+1", "x", "", "00", "01", " 1", "1 ", "true", "9223372036854775807", "9223372036854775808", "-9223372036854775809", "1.0", "--1"}
var ssaColorCells = []string{"", "0", "255", "65280", "16711680", "4294967295", "4294967296", "2147483648", "-1", "-256", "-2147483649", "+255", "007",
	"&H00FF00FF", "&H00ff00ff", "&Hff", "&HFF", "&H0", "&H", "&H-ff", "&H+ff", "&Hzz", "&H1G", "&h00ff00", "&H 1", "&H1 ", "&H0x10", "0x10", "&H_1", "1_000",
	"&H7FFFFFFFFFFFFFFF", "&H8000000000000000", "&H-8000000000000000", "&HFFFFFFFFFFFFFFFF", "&H000000000000000000001", "&H123456789",
	"99999999999999999999", "-99999999999999999999", "9223372036854775807", "-9223372036854775808", "9223372036854775808", "x", " 1", "1 ", "&", "H", "&H00FF00FF&", "1.0", "1e3"}
var ssaFloatCells = []string{"", "0", "1", "1.5", "0.001", "-2.25", "100", "18", "20.000", "00012.500", "+1.5", "-0.5", ".5", "5.", "-.5", "+.125",
	"999999999999.999", "-999999999999.999", "1000000000000", "999999999999999", "123456789012.125", "0.1", "0.10", "0.100", "0.1000", "0.1001", "1.2345", "1e3", "1E3", "1e-3",
	"-0", "-0.000", "+0", "0.0", "1_0", "x", ".", "-", "+", "1..2", "1.2.3", "inf", "-Inf", "NaN", "Infinity", "0x10", "0x1p4", " 1", "1 ", "1\u00a0", "--1", "1f",
	"100000000000", "99999999999.999", "4.9e-324", "1e400", "0.0005", "00000000000000000000000001.5", "1.50000000000000000000000000000000", "1.50000000000000000000000000000001", "0.30000000000000004"}
var ssaIntCells = []string{"", "0", "1", "2", "10", "-1", "+5", "007", "-0", " 3", "3 ", "x", "1.0", "1_0", "1e1", "9223372036854775807", "9223372036854775808", "-9223372036854775808",
	"-9223372036854775809", "99999999999999999999", "0x1", "--1", "+-1", "+", "-", "1\u00a0", "３"}
var ssaNameCells = []string{"", "Default", "*Default", "Alt", "Big one", "*x", "x", "**x", "X", "*X", "Arial", "DejaVu Sans", "c'est ça", "中文", " padded ", "\u00a0nb\u00a0", "a:b", "a;b", "[x]", "{x}", "Name", "*"}
var ssaTimeCells = []string{"0:00:01.00", "0:00:00.00", "1:02:03.45", "00:00:01.00", "0:00:01", "1:02:03.4", "0:0:1.234", "-1:00:00.00", "99999999999:00:00.00", "1:00", "1", "", "0:00:01.0000",
	"0:00:01.5.25", " 0:00:01.00 ", "0:00: 01.00", "0 :00:01.00", "0:-1:00.00", "0:00:-1.00", "0:00:60.99", "0:99:99.99", "2562047:47:16.85", "2562048:00:00.00", "5124095:00:00.00", "+1:+2:+3.+4", "0:00:01.-5", "0:00:01.+5",
	"0:00:01.-50", "a:b:c.d", "0:00:01,00", "1:2:3:4.5", "0:00:01.", ".5", "0:00.5", "1:02.50", "0:00:01. 5", "0:00:01.5 ", "0:00:01.\u00a05", "9223372036854775807:00:00.00", "9223372036854775808:00:00.00",
	"0:9223372036854775807:00.00", "0:00:9223372036854775807.00", "100:00:00.00", "0:00:01.999", "0:00:01.9", "0:00:01.09", "0:00:01.009", "0x1:00:00.00", "1_0:00:00.00", "0:00:01.00.", "..", ":", "::", "0::0.0", ":0:0.0"}
var ssaMarkedCells = []string{"Marked=1", "Marked=0", "Marked=2", "marked=1", "Marked=1 ", " Marked=1", "1", "0", "", "junk", "Marked=", "Marked=11"}
var ssaStyleRefCells = []string{"", "Default", "*Default", "**Default", "Alt", "*Alt", "X", "*X", "**X", "x", "*x", "*", "Big one", " Default", "Default ", "default"}
var ssaTextCells = []string{"", "hello", "Hello, world", "a, b, c", ",", ",,", "a: b", "x\\Ny", "x\\ny", "a\\Nb\\nc", "{\\a}{\\b}x", "{}", "{{x}", "a}b{c}d}e", "{open", "close}", "\\Nlead", "trail\\N", "   ", " padded ",
	"\u00a0nbsp\u00a0", "a\\N \\N b", "{\\i1}it{\\i0} no", "Hello {\\i1}big{\\i0} world", "\\N\\N", "{\\an8}", "x{\\an8}", "\\", "\\\\N", "c'est ça, non", "中文", "{\\a}\\N{\\b}", "{\\a},{\\b}", "a{b,c}d", "\ttab\t", "x\u2028"}

// the cells of the pools above that the row parsers accept (classified with strconv, not with the library); the
// floats moreover inside the model's domain
var ssaGoodColor, ssaGoodFloat, ssaGoodInt []string
var ssaGoodTime = []string{"0:00:01.00", "0:00:00.00", "1:02:03.45", "00:00:01.00", "0:00:01", "1:02:03.4", "0:0:1.234", "-1:00:00.00", "99999999999:00:00.00", "1:00", " 0:00:01.00 ", "0:00: 01.00",
	"0 :00:01.00", "0:-1:00.00", "0:00:60.99", "2562047:47:16.85", "2562048:00:00.00", "+1:+2:+3.+4", "0:00:01.-5", "0:00.5", "1:02.50", "100:00:00.00", "0:00:01.999", "0:00:01.9", "0:00:01.09"}

func init() {
	for _, s := range ssaColorCells {
		var err error
		if strings.HasPrefix(s, "&H") {
			_, err = strconv.ParseInt(s[2:], 16, 64)
		} else if s != "" {
			_, err = strconv.ParseInt(s, 10, 64)
		}
		if err == nil {
			ssaGoodColor = append(ssaGoodColor, s)
		}
	}
	for _, s := range ssaFloatCells {
		if s == "" {
			ssaGoodFloat = append(ssaGoodFloat, s)
		} else if f, err := strconv.ParseFloat(s, 64); err == nil && ssaPlainDecimal(s) && ssaAtMost3Decimals(s) {
			if _, ok := ssaThousandths(f); ok {
				ssaGoodFloat = append(ssaGoodFloat, s)
			}
		}
	}
	for _, s := range ssaIntCells {
		if _, err := strconv.Atoi(s); err == nil || s == "" {
			ssaGoodInt = append(ssaGoodInt, s)
		}
	}
}

// a cell the parsers accept, in every encoding
func ssaGoodCell(r *rng, kind byte) string {
	switch kind {
	case 'c':
		if r.chance(1, 2) {
			return ssaGoodColor[r.intn(len(ssaGoodColor))]
		}
		n := uint32(r.u64())
		switch r.intn(4) {
		case 0:
			return strconv.FormatUint(uint64(n), 10)
		case 1:
			return fmt.Sprintf("&H%08X", n)
		case 2:
			return strconv.FormatInt(int64(int32(n)), 10)
		}
		return fmt.Sprintf("&H%x", n)
	case 'f':
		if r.chance(1, 2) {
			return ssaGoodFloat[r.intn(len(ssaGoodFloat))]
		}
		k := r.i64n(2000000) - 500000
		if r.chance(1, 6) {
			k = r.i64n(2e14) - 1e14
		}
		return ssaFloatText(r, k)
	case 'i':
		if r.chance(1, 2) {
			return ssaGoodInt[r.intn(len(ssaGoodInt))]
		}
		return strconv.Itoa(r.intn(300) - 50)
	case 't':
		if r.chance(1, 2) {
			return ssaGoodTime[r.intn(len(ssaGoodTime))]
		}
		return ssaStamp(r, r.i64n(400000)*1e7)
	}
	return ssaCellOfKind(r, kind) // booleans and strings: every cell is accepted
}

// the integer columns of an event row have no "no value" spelling
func ssaGoodEventInt(r *rng) string {
	for {
		if s := ssaGoodCell(r, 'i'); s != "" {
			return s
		}
	}
}

func ssaCellOfKind(r *rng, kind byte) string {
	switch kind {
	case 'b':
		return ssaBoolCells[r.intn(len(ssaBoolCells))]
	case 'c':
		if r.chance(1, 3) {
			n := uint32(r.u64())
			switch r.intn(3) {
			case 0:
				return strconv.FormatUint(uint64(n), 10)
			case 1:
				return fmt.Sprintf("&H%08X", n)
			}
			return fmt.Sprintf("&H%x", n)
		}
		return ssaColorCells[r.intn(len(ssaColorCells))]
	case 'f':
		if r.chance(1, 3) {
			k := r.i64n(2000000) - 500000
			if r.chance(1, 6) {
				k = r.i64n(2e14) - 1e14
			}
			return ssaFloatText(r, k)
		}
		return ssaFloatCells[r.intn(len(ssaFloatCells))]
	case 'i':
		if r.chance(1, 3) {
			return strconv.Itoa(r.intn(300) - 50)
		}
		return ssaIntCells[r.intn(len(ssaIntCells))]
	case 't':
		if r.chance(1, 3) {
			return ssaStamp(r, r.i64n(400000)*1e7)
		}
		return ssaTimeCells[r.intn(len(ssaTimeCells))]
	}
	return ssaNameCells[r.intn(len(ssaNameCells))]
}

// a decimal spelling of k/1000 (inside the model's float domain)
func ssaFloatText(r *rng, k int64) string {
	sign := ""
	if k < 0 {
		sign, k = "-", -k
	} else if r.chance(1, 10) {
		sign = "+"
	}
	ip, fp := strconv.FormatInt(k/1000, 10), fmt.Sprintf("%03d", k%1000)
	switch r.intn(4) {
	case 0:
		fp = strings.TrimRight(fp, "0")
	case 1:
		fp += strings.Repeat("0", r.intn(4))
	case 2:
		ip = strings.Repeat("0", r.intn(3)) + ip
	}
	if ip == "0" && fp != "" && r.chance(1, 6) {
		ip = ""
	}
	if fp == "" && r.chance(1, 2) {
		return sign + ip
	}
	return sign + ip + "." + fp
}

func ssaStyleColKind(name string) byte {
	switch name {
	case "Name":
		return 's'
	case "TertiaryColour":
		return 'c'
	}
	for _, a := range ssaStyleAttrs {
		if a.name == name {
			return a.kind
		}
	}
	return '?'
}

func ssaEventColKind(name string) byte {
	switch name {
	case "Start", "End":
		return 't'
	case "Layer", "MarginL", "MarginR", "MarginV":
		return 'i'
	case "Marked":
		return 'm'
	case "Style":
		return 'r'
	case "Text":
		return 'x'
	case "Effect", "Name":
		return 's'
	}
	return '?'
}

// a Format: permutation / subset of the known names, aliases, unknown names, duplicates
func randSsaFormat(r *rng, known []string, extra []string) []string {
	cols := append([]string{}, known...)
	shuffleStrings(r, cols)
	switch r.intn(6) {
	case 0: // every column once
	case 1, 2:
		cols = cols[:r.intn(len(cols)+1)]
	case 3:
		cols = cols[:r.intn(6)]
	default:
		cols = cols[:r.intn(len(cols)+1)]
		for n := r.intn(4); n > 0; n-- {
			var c string
			switch r.intn(3) {
			case 0:
				c = known[r.intn(len(known))] // a duplicate, most of the time
			case 1:
				c = extra[r.intn(len(extra))]
			default:
				c = ssaUnknownNames[r.intn(len(ssaUnknownNames))]
			}
			p := r.intn(len(cols) + 1)
			cols = append(cols[:p], append([]string{c}, cols[p:]...)...)
		}
	}
	return cols
}

func randSsaStyleRow(r *rng) (string, []string) {
	cols := randSsaFormat(r, ssaStyleNamesAll, []string{"TertiaryColour"})
	var cells []string
	wild := r.chance(1, 10)
	level := r.intn(4) // 0, 1: every cell acceptable; 2: one or two hostile cells; 3: hostile cells everywhere
	for _, c := range cols {
		k := ssaStyleColKind(c)
		if wild || k == '?' {
			k = "bcfis"[r.intn(5)]
		}
		if level == 3 {
			cells = append(cells, ssaCellOfKind(r, k))
		} else {
			cells = append(cells, ssaGoodCell(r, k))
		}
	}
	if level == 2 && len(cols) > 0 {
		for n := 1 + r.intn(2); n > 0; n-- {
			p := r.intn(len(cols))
			if k := ssaStyleColKind(cols[p]); k != '?' {
				cells[p] = ssaCellOfKind(r, k)
			}
		}
	}
	switch r.intn(14) {
	case 0:
		cells = append(cells, ssaCellOfKind(r, "bcfis"[r.intn(5)]))
	case 1:
		if len(cells) > 0 {
			cells = cells[:len(cells)-1]
		}
	case 2:
		cells = append(cells, "", "")
	}
	content := strings.Join(cells, ",")
	if r.chance(1, 10) {
		content = mutBytes(r, content, ssaHostile)
	}
	return content, cols
}

func ssaEventCell(r *rng, kind byte) string {
	switch kind {
	case 'm':
		return ssaMarkedCells[r.intn(len(ssaMarkedCells))]
	case 'r':
		return ssaStyleRefCells[r.intn(len(ssaStyleRefCells))]
	case 'x':
		if r.chance(1, 3) {
			return randSsaText(r)
		}
		return ssaTextCells[r.intn(len(ssaTextCells))]
	case 'i':
		if r.chance(2, 3) {
			return strconv.Itoa(r.intn(40) - 5)
		}
	case 't':
		if r.chance(2, 3) {
			return ssaStamp(r, r.i64n(400000)*1e7)
		}
	}
	return ssaCellOfKind(r, kind)
}

func randSsaEventRow(r *rng) (string, string, []string) {
	cols := randSsaFormat(r, ssaEventNamesAll, []string{"Text", "Style", "Start"})
	if r.chance(1, 2) { // the usual shape: Text last
		var c2 []string
		for _, c := range cols {
			if c != "Text" {
				c2 = append(c2, c)
			}
		}
		cols = append(c2, "Text")
	}
	var cells []string
	wild := r.chance(1, 12)
	level := r.intn(4)
	for _, c := range cols {
		k := ssaEventColKind(c)
		if wild || k == '?' {
			k = "timrxs"[r.intn(6)]
		}
		if level == 3 || (level == 2 && r.chance(1, 6)) {
			cells = append(cells, ssaEventCell(r, k))
		} else if k == 'i' {
			cells = append(cells, ssaGoodEventInt(r))
		} else if k == 't' {
			cells = append(cells, ssaGoodCell(r, k))
		} else {
			cells = append(cells, ssaEventCell(r, k))
		}
	}
	switch r.intn(14) {
	case 0:
		cells = append(cells, "surplus", "cells")
	case 1:
		if len(cells) > 0 {
			cells = cells[:len(cells)-1]
		}
	case 2:
		cells = append(cells, "")
	}
	content := strings.Join(cells, ",")
	if r.chance(1, 8) {
		content = mutBytes(r, content, ssaHostile)
	}
	header := r.pick("Dialogue", "Dialogue", "Dialogue", "Comment", "Picture", "dialogue", "", "Sound", "Dialogue ")
	return header, content, cols
}

var ssaTextAlphabet = []string{"{", "}", "\\", "N", "n", ",", ":", " ", "\u00a0", "a", "b", "{", "}", "\\N", "\\n", "{\\i1}", "é", "\t", "\u2028", "\xc2", "\xa0"}

// event texts: random over an alphabet rich in the characters the splitting looks at, or structured
func randSsaText(r *rng) string {
	if r.chance(1, 2) {
		return randFrom(r, ssaTextAlphabet, 14)
	}
	var b strings.Builder
	nl := 1 + r.intn(4)
	for l := 0; l < nl; l++ {
		if l > 0 {
			b.WriteString(r.pick("\\N", "\\n"))
		}
		if r.chance(1, 5) {
			continue // an empty line (leading ones included)
		}
		if r.chance(1, 6) {
			b.WriteString(r.pick(" ", "\u00a0", "  ", "\t"))
		}
		for k := r.intn(4); k >= 0; k-- {
			if r.chance(2, 3) {
				b.WriteString(r.pick("{\\b1}", "{\\i1}", "{\\c&H00FF00&}", "{\\pos(10,20)}", "{x}", "{}", "{{\\a}", "{\\a}}", "{ }"))
			}
			if r.chance(3, 4) {
				b.WriteString(r.pick("hello", "Hello, world", "a: b", " x ", "x ", " x", "c'est ça", "}", "{", "\\", "N", "中文"))
			}
		}
		if r.chance(1, 6) {
			b.WriteString(r.pick(" ", "\u00a0", "  "))
		}
	}
	return b.String()
}

func randSsaLines(r *rng) []astisub.Line {
	var ls []astisub.Line
	for n := r.intn(5); n > 0; n-- {
		l := astisub.Line{VoiceName: r.pick("", "", "Bob", "Mary Ann", "a,b", "*x")}
		for k := r.intn(4); k > 0; k-- {
			li := astisub.LineItem{Text: r.pick("", "hello", "Hello, world", " x", "x ", "{", "}", "\\N", "\\n", "a\\Nb", "中文", " ")}
			switch r.intn(4) {
			case 0:
				li.InlineStyle = &astisub.StyleAttributes{SSAEffect: r.pick("{\\b1}", "{\\i1}", "{\\an8}", "raw", "{", "{}")}
			case 1:
				li.InlineStyle = &astisub.StyleAttributes{} // a style without an effect
			case 2:
				li.InlineStyle = &astisub.StyleAttributes{SSAEffect: "{\\c&H0000FF&}", SSABold: boolPtr(true)}
			}
			l.Items = append(l.Items, li)
		}
		ls = append(ls, l)
	}
	return ls
}

func randSsaInt(r *rng) *int {
	switch r.intn(8) {
	case 0:
		return nil
	case 1:
		return intPtr(-r.intn(1000))
	case 2:
		return intPtr(int(r.i64n(math.MaxInt64)))
	case 3:
		return intPtr(math.MinInt64 + r.intn(3))
	case 4:
		return intPtr(0)
	}
	return intPtr(r.intn(2000))
}

func randSsaThousandth(r *rng) *float64 {
	var k int64
	switch r.intn(8) {
	case 0:
		return nil
	case 1:
		k = 0
	case 2:
		k = -r.i64n(1e6)
	case 3:
		k = r.i64n(2e14) - 1e14
	case 4:
		k = r.i64n(100) * 1000
	default:
		k = r.i64n(200000)
	}
	f := float64(k) / 1000
	return &f
}

func randSsaColor(r *rng) *astisub.Color {
	if r.chance(1, 5) {
		return nil
	}
	return &astisub.Color{Alpha: uint8(r.intn(256)), Blue: uint8(r.intn(256)), Green: uint8(r.intn(256)), Red: uint8(r.intn(256))}
}

func randSsaBool(r *rng) *bool {
	if r.chance(1, 4) {
		return nil
	}
	return boolPtr(r.chance(1, 2))
}

func randSsaStyleValue(r *rng) *astisub.Style {
	st := &astisub.Style{ID: ssaNameCells[r.intn(len(ssaNameCells))]}
	if r.chance(1, 8) {
		return st // nil InlineStyle
	}
	st.InlineStyle = &astisub.StyleAttributes{
		SSAAlignment: randSsaInt(r), SSAAlphaLevel: randSsaThousandth(r), SSAAngle: randSsaThousandth(r), SSABackColour: randSsaColor(r), SSABold: randSsaBool(r),
		SSABorderStyle: randSsaInt(r), SSAEncoding: randSsaInt(r), SSAFontName: r.pick("", "Arial", "DejaVu Sans", "a,b", "中文"), SSAFontSize: randSsaThousandth(r),
		SSAItalic: randSsaBool(r), SSAMarginLeft: randSsaInt(r), SSAMarginRight: randSsaInt(r), SSAMarginVertical: randSsaInt(r), SSAOutline: randSsaThousandth(r),
		SSAOutlineColour: randSsaColor(r), SSAPrimaryColour: randSsaColor(r), SSAScaleX: randSsaThousandth(r), SSAScaleY: randSsaThousandth(r),
		SSASecondaryColour: randSsaColor(r), SSAShadow: randSsaThousandth(r), SSASpacing: randSsaThousandth(r), SSAStrikeout: randSsaBool(r), SSAUnderline: randSsaBool(r)}
	if r.chance(1, 3) { // sparse
		sa := st.InlineStyle
		for _, z := range []func(){func() { sa.SSAAlignment = nil }, func() { sa.SSAAlphaLevel = nil }, func() { sa.SSAAngle = nil }, func() { sa.SSABackColour = nil },
			func() { sa.SSABold = nil }, func() { sa.SSABorderStyle = nil }, func() { sa.SSAEncoding = nil }, func() { sa.SSAFontName = "" }, func() { sa.SSAFontSize = nil },
			func() { sa.SSAItalic = nil }, func() { sa.SSAMarginLeft = nil }, func() { sa.SSAMarginRight = nil }, func() { sa.SSAMarginVertical = nil }, func() { sa.SSAOutline = nil },
			func() { sa.SSAOutlineColour = nil }, func() { sa.SSAPrimaryColour = nil }, func() { sa.SSAScaleX = nil }, func() { sa.SSAScaleY = nil }, func() { sa.SSASecondaryColour = nil },
			func() { sa.SSAShadow = nil }, func() { sa.SSASpacing = nil }, func() { sa.SSAStrikeout = nil }, func() { sa.SSAUnderline = nil }} {
			if r.chance(3, 4) {
				z()
			}
		}
	}
	return st
}

func randSsaDuration(r *rng) time.Duration {
	switch r.intn(8) {
	case 0:
		return -time.Duration(r.i64n(4e12))
	case 1:
		return time.Duration(360000e9 + r.i64n(1e15)) // beyond 100 h
	case 2:
		return time.Duration(r.i64n(math.MaxInt64))
	case 3:
		return time.Duration(math.MinInt64 + r.i64n(5))
	case 4:
		return time.Duration(r.i64n(1e10)) // not a multiple of the centisecond
	}
	return time.Duration(r.i64n(400000) * 1e7)
}

func randSsaMetadata(r *rng) *astisub.Metadata {
	sv := func() string {
		if r.chance(1, 2) {
			return ""
		}
		return r.pick("value", "a: b", "x,y", "Normal", "1.0", "v4.00", "v4.00+", "V4.00+", " padded ", "中文", "two\nlines", ";x", "[x]")
	}
	m := &astisub.Metadata{SSACollisions: sv(), SSAOriginalEditing: sv(), SSAOriginalScript: sv(), SSAOriginalTiming: sv(), SSAOriginalTranslation: sv(), SSAScriptType: sv(),
		SSAScriptUpdatedBy: sv(), SSASynchPoint: sv(), Title: sv(), SSAUpdateDetails: sv(), SSAWrapStyle: sv(), SSAPlayDepth: randSsaInt(r), SSAPlayResX: randSsaInt(r),
		SSAPlayResY: randSsaInt(r), SSATimer: randSsaThousandth(r)}
	for n := r.intn(3); n > 0; n-- {
		m.Comments = append(m.Comments, r.pick("", "first comment", "second: one", " padded", "; double", "中文"))
	}
	return m
}

// ---- documents -------------------------------------------------------------------------------------------------

var ssaReNumber = regexp.MustCompile(`[0-9]+(\.[0-9]+)?`)
var ssaReTime = regexp.MustCompile(`[0-9]+:[0-9]{2}:[0-9]{2}\.[0-9]{2}`)
var ssaReColour = regexp.MustCompile(`&H[0-9A-Fa-f]+`)
var ssaReEOL = regexp.MustCompile(`\r\n|\r|\n`)

var ssaBadNumbers = []string{"99999999999999999999", "-1", "-0", "1e3", "1.2345", ".5", "5.", "1_0", "0x10", "+7", "007", "", " 12 ", "9223372036854775808", "1.5", "-3", "x", "1,5", "0.0005"}
var ssaSectionLines = []string{"[Events]", "[V4+ Styles]", "[V4 Styles]", "[V4 Styles+]", "[Unknown]", "[Script Info]", "[Scrİpt Info]", "[EVENTS]", "[events]", "[events ]", "[ Events]", "[]", "[", "]",
	"[Fonts]", "[Graphics]", "[Kevents]", "[Events", "Events]", "[Events];", "[v4+ styles]", "[V4+  Styles]", "[Script\u00a0Info]", "[scrıpt info]", "[SCRIPT INFO]", "[[Events]]", "[Events]]"}
var ssaColonLines = []string{"Foo: bar", ": nothing", "a:b:c", ":", "Title:", "Title: second title", "PlayResX: x", "PlayResX: 12", "PlayResY: +7", "PlayDepth: -5", "PlayDepth: 99999999999999999999", "Timer: 1e2",
	"Timer: 100,0000", "Timer: 1.5.5", "Timer: 1,5,5", "Timer: -0", "Timer: ", "Timer: 100.0000", "Timer: 12,3456", "Timer : 50", "timer: x", "ScriptType: v4.00+", "ScriptType: v4.00", "Format: Name", "Format:", "Format: ,",
	"Format: Text", "Style: a,b", "Dialogue: 0,0:00:00.00", "Dialogue: x", "Comment: whatever, it is", "Collisions:Normal", "format: Name, Bold", "FORMAT: Text", "Format : Start, End, Text", "\u00a0Title\u00a0:\u00a0nb\u00a0", "WrapStyle: 0", "Synch Point:1", "Original Script: me: myself"}

// mutateSsaDoc applies 1..3 line- or byte-level mutations to a rendered document
func mutateSsaDoc(R *runner, r *rng, doc string) string {
	bom := strings.HasPrefix(doc, "\xef\xbb\xbf")
	doc = strings.TrimPrefix(doc, "\xef\xbb\xbf")
	eol := "\n"
	if m := ssaReEOL.FindString(doc); m != "" {
		eol = m
	}
	L := ssaReEOL.Split(doc, -1)
	if len(L) > 0 && L[len(L)-1] == "" {
		L = L[:len(L)-1]
	}
	insertAt := func(p int, lines ...string) {
		L = append(L[:p], append(append([]string{}, lines...), L[p:]...)...)
	}
	pickLine := func(pred func(string) bool) int {
		var idx []int
		for i, l := range L {
			if pred(l) {
				idx = append(idx, i)
			}
		}
		if len(idx) == 0 {
			return -1
		}
		return idx[r.intn(len(idx))]
	}
	isRow := func(l string) bool {
		return strings.HasPrefix(l, "Style:") || strings.HasPrefix(l, "Dialogue:") || strings.HasPrefix(l, "Comment:")
	}
	isFormat := func(l string) bool { return strings.HasPrefix(l, "Format:") }
	replaceMatch := func(re *regexp.Regexp, pool []string, pred func(string) bool) bool {
		i := pickLine(func(l string) bool { return (pred == nil || pred(l)) && re.MatchString(l) })
		if i < 0 {
			return false
		}
		ms := re.FindAllStringIndex(L[i], -1)
		m := ms[r.intn(len(ms))]
		L[i] = L[i][:m[0]] + pool[r.intn(len(pool))] + L[i][m[1]:]
		return true
	}
	byteLevel := ""
	for n := 1 + r.intn(3); n > 0; n-- {
		what := ""
		switch r.intn(22) {
		case 0:
			if len(L) > 0 {
				p := r.intn(len(L))
				L = append(L[:p], L[p+1:]...)
				what = "delete_line"
			}
		case 1:
			if len(L) > 0 {
				p := r.intn(len(L))
				insertAt(r.intn(len(L)+1), L[p])
				what = "duplicate_line"
			}
		case 2:
			if len(L) > 1 {
				i, j := r.intn(len(L)), r.intn(len(L))
				L[i], L[j] = L[j], L[i]
				what = "swap_lines"
			}
		case 3:
			byteLevel, what = "truncate", "truncate"
		case 4:
			byteLevel, what = "insert", "insert_bytes"
		case 5:
			if replaceMatch(ssaReNumber, ssaBadNumbers, nil) {
				what = "replace_number"
			}
		case 6:
			if i := pickLine(func(l string) bool { return isRow(l) && strings.Contains(l, ",") }); i >= 0 {
				var ps []int
				for k := range L[i] {
					if L[i][k] == ',' {
						ps = append(ps, k)
					}
				}
				p := ps[r.intn(len(ps))]
				if r.chance(1, 2) {
					L[i] = L[i][:p] + L[i][p+1:]
					what = "drop_comma"
				} else {
					L[i] = L[i][:p] + "," + L[i][p:]
					what = "add_comma"
				}
			}
		case 7:
			if i := pickLine(isFormat); i >= 0 {
				cols := strings.Split(strings.TrimSpace(strings.TrimPrefix(L[i], "Format:")), ",")
				for k := range cols {
					cols[k] = strings.TrimSpace(cols[k])
				}
				switch r.intn(6) {
				case 0:
					if len(cols) > 0 {
						p := r.intn(len(cols))
						cols = append(cols[:p], cols[p+1:]...)
					}
				case 1:
					p := r.intn(len(cols) + 1)
					c := r.pick("Foo", "", "Text", "Name", "Bold", "Start", "TertiaryColour", "Marked", "Layer", "Style")
					cols = append(cols[:p], append([]string{c}, cols[p:]...)...)
				case 2:
					shuffleStrings(r, cols)
				case 3:
					for k := range cols {
						if r.chance(1, 3) {
							cols[k] = ""
						}
					}
				case 4:
					if len(cols) > 0 {
						cols[r.intn(len(cols))] = cols[r.intn(len(cols))] // a duplicate column name
					}
				default:
					if len(cols) > 0 {
						k := r.intn(len(cols))
						cols[k] = r.pick(strings.ToLower(cols[k]), "\u00a0"+cols[k]+"\u00a0", cols[k]+" x")
					}
				}
				L[i] = r.pick("Format: ", "Format:", "Format :", "Format:\u00a0") + strings.Join(cols, r.pick(", ", ",", " ,"))
				what = "change_format"
			}
		case 8:
			if i := pickLine(isFormat); i >= 0 {
				cols := strings.Split(strings.TrimSpace(strings.TrimPrefix(L[i], "Format:")), ",")
				if r.chance(1, 2) && len(cols) > 1 {
					cols = cols[:1+r.intn(len(cols)-1)]
				} else {
					cols = append(cols, r.pick(" Extra", " Text", " Name", " Bold", ""))
				}
				if r.chance(1, 3) {
					shuffleStrings(r, cols)
				}
				// somewhere below the first Format line, before the next section
				end := i + 1
				for end < len(L) && !strings.HasPrefix(L[end], "[") {
					end++
				}
				insertAt(i+1+r.intn(end-i), "Format:"+strings.Join(cols, ","))
				what = "second_format"
			}
		case 9:
			insertAt(r.intn(len(L)+1), ssaSectionLines[r.intn(len(ssaSectionLines))])
			what = "insert_section"
		case 10:
			if i := pickLine(isFormat); i >= 0 {
				insertAt(i, r.pick("Style: a,b", "Style: Default,Arial,20", "Dialogue: 0,0:00:00.00,0:00:01.00,Default,,0,0,0,,early", "Dialogue: x", "Comment: y"))
				what = "row_before_format"
			}
		case 11:
			if i := pickLine(func(l string) bool { return strings.HasPrefix(l, "Style:") }); i >= 0 {
				if k := strings.LastIndex(L[i], ","); k >= 0 && r.chance(1, 2) {
					L[i] = L[i][:k]
				} else {
					L[i] += r.pick(",x", ",", ",1,2")
				}
				what = "style_cells"
			}
		case 12:
			if replaceMatch(ssaReColour, ssaColorCells, nil) || replaceMatch(ssaReNumber, ssaColorCells, func(l string) bool { return strings.HasPrefix(l, "Style:") }) {
				what = "replace_colour"
			}
		case 13:
			if replaceMatch(ssaReNumber, ssaFloatCells, func(l string) bool { return strings.HasPrefix(l, "Style:") || strings.HasPrefix(l, "Timer") }) {
				what = "replace_float"
			}
		case 14:
			if replaceMatch(ssaReTime, ssaTimeCells, nil) {
				what = "replace_time"
			}
		case 15:
			if len(L) > 0 && r.chance(1, 2) {
				p := r.intn(len(L))
				L[p] = "\xef\xbb\xbf" + L[p]
			} else {
				insertAt(r.intn(len(L)+1), "\xef\xbb\xbf")
			}
			what = "bom_line"
		case 16:
			if i := pickLine(func(l string) bool { return strings.Contains(l, ":") }); i >= 0 {
				sp := r.pick("\u00a0", "\u2028", "\u3000", "\t", "\u0085", "\u00a0 ")
				switch r.intn(4) {
				case 0:
					L[i] = sp + L[i] + sp
				case 1:
					k := strings.Index(L[i], ":")
					L[i] = L[i][:k] + sp + ":" + sp + L[i][k+1:]
				default:
					cells := strings.Split(L[i], ",")
					k := r.intn(len(cells))
					cells[k] = sp + cells[k] + sp
					L[i] = strings.Join(cells, ",")
				}
				what = "unicode_space"
			}
		case 17:
			insertAt(r.intn(len(L)+1), r.pick("; a comment", ";", ";;", "; Format: Name", " ;indented", ";\u00a0nb", "; [Events]"))
			what = "comment_line"
		case 18:
			insertAt(r.intn(len(L)+1), ssaColonLines[r.intn(len(ssaColonLines))])
			what = "colon_line"
		case 19:
			insertAt(0, r.pick("Title: early", "; early comment", "Dialogue: 0,0:00:00.00,0:00:01.00,Default,,0,0,0,,no section", "Format: Name", "PlayResX: x", "no colon"))
			what = "line_in_no_section"
		case 20:
			if i := pickLine(func(l string) bool { return strings.HasPrefix(l, "Dialogue:") }); i >= 0 {
				k := strings.LastIndex(L[i], ",")
				L[i] = L[i][:k+1] + ssaTextCells[r.intn(len(ssaTextCells))]
				what = "replace_text"
			}
		default:
			if i := pickLine(func(l string) bool { return strings.HasPrefix(l, "Dialogue:") }); i >= 0 {
				cells := strings.Split(L[i], ",")
				k := r.intn(len(cells))
				cells[k] = r.pick(ssaStyleRefCells[r.intn(len(ssaStyleRefCells))], ssaMarkedCells[r.intn(len(ssaMarkedCells))], ssaIntCells[r.intn(len(ssaIntCells))])
				L[i] = strings.Join(cells, ",")
				what = "replace_event_cell"
			}
		}
		if what != "" {
			R.count("ssa.mutation." + what)
		}
	}
	out := strings.Join(L, eol) + eol
	switch byteLevel {
	case "truncate":
		out = out[:r.intn(len(out)+1)]
	case "insert":
		p := r.intn(len(out) + 1)
		out = out[:p] + randFrom(r, ssaHostile, 4) + out[p:]
	}
	if bom {
		out = "\xef\xbb\xbf" + out
	}
	return out
}

// line soup: sections, Format lines and rows in random order (rows follow the last Format most of the time)
func randSsaSoup(r *rng) string {
	var L []string
	var cols []string
	sect := ""
	for n := 3 + r.intn(24); n > 0; n-- {
		switch r.intn(12) {
		case 0, 1:
			h := r.pick("[Events]", "[V4+ Styles]", "[V4 Styles]", "[Script Info]", "[Events]", "[V4 Styles+]", ssaSectionLines[r.intn(len(ssaSectionLines))])
			L = append(L, h)
			switch strings.ToLower(h) {
			case "[events]":
				sect, cols = "e", nil
			case "[v4+ styles]", "[v4 styles]", "[v4 styles+]":
				sect, cols = "s", nil
			case "[script info]":
				sect = "i"
			default:
				if strings.HasPrefix(h, "[") && strings.HasSuffix(h, "]") {
					sect = "u"
				}
			}
			if (sect == "e" || sect == "s") && cols == nil && r.chance(5, 6) {
				if sect == "s" {
					cols = randSsaFormat(r, ssaStyleNamesAll, []string{"TertiaryColour"})
				} else {
					cols = randSsaFormat(r, ssaEventNamesAll, []string{"Text", "Style", "Start"})
				}
				L = append(L, "Format: "+strings.Join(cols, ", "))
			}
		case 2, 3:
			var nc []string
			if sect == "s" || (sect != "e" && r.chance(1, 2)) {
				nc = randSsaFormat(r, ssaStyleNamesAll, []string{"TertiaryColour"})
			} else {
				nc = randSsaFormat(r, ssaEventNamesAll, []string{"Text", "Style", "Start"})
			}
			L = append(L, r.pick("Format: ", "Format:", "Format : ")+strings.Join(nc, r.pick(", ", ",", " , ")))
			if sect == "e" || sect == "s" {
				cols = append(nc, cols[min(len(nc), len(cols)):]...) // a Format line overlays the previous one
			}
		case 4, 5, 6, 7, 8:
			if (sect == "e" || sect == "s") && len(cols) == 0 && r.chance(7, 8) {
				continue // a row before any Format is an error: rarely
			}
			var cells []string
			level := r.intn(6) // 5: a hostile cell somewhere
			for _, c := range cols {
				k := ssaStyleColKind(c)
				if sect == "e" {
					k = ssaEventColKind(c)
				}
				switch {
				case k == '?':
					cells = append(cells, r.pick("", "x", "1", "a b"))
				case level == 5 && r.chance(1, 4):
					cells = append(cells, ssaEventCell(r, k))
				case k == 'i' && sect == "e":
					cells = append(cells, ssaGoodEventInt(r))
				case k == 'i' || k == 't' || k == 'c' || k == 'f':
					cells = append(cells, ssaGoodCell(r, k))
				default:
					cells = append(cells, ssaEventCell(r, k))
				}
			}
			switch r.intn(16) {
			case 0:
				cells = append(cells, "more")
			case 1:
				if len(cells) > 0 {
					cells = cells[:len(cells)-1]
				}
			}
			h := "Style"
			if sect == "e" || (sect != "s" && r.chance(1, 2)) {
				h = r.pick("Dialogue", "Dialogue", "Dialogue", "Comment", "Movie", "dialogue")
			}
			L = append(L, h+r.pick(": ", ":", " : ")+strings.Join(cells, ","))
		case 9:
			if (sect == "e" || sect == "s") && r.chance(7, 8) {
				continue // any "header: content" line of these sections is a row
			}
			L = append(L, ssaColonLines[r.intn(len(ssaColonLines))])
		case 10:
			L = append(L, r.pick("; a comment", ";", "; Format: Name", "", "  ", "no colon here", "\xef\xbb\xbf", "\u00a0", "garbage"))
		default:
			if (sect == "e" || sect == "s") && r.chance(7, 8) {
				continue
			}
			k := ssaInfoStrings[r.intn(len(ssaInfoStrings))]
			L = append(L, k+r.pick(": ", ":", " : ")+r.pick("value", "a: b", "v4.00+", "v4.00", "", "x,y"))
		}
	}
	eol := r.pick("\n", "\r\n", "\r")
	doc := strings.Join(L, eol)
	if r.chance(3, 4) {
		doc += eol
	}
	if r.chance(1, 5) {
		doc = "\xef\xbb\xbf" + doc
	}
	return doc
}

func ssaCornerDocs() []string {
	head := "[Script Info]\nScriptType: v4.00+\n\n[V4+ Styles]\nFormat: Name, Fontname, Bold\nStyle: Default,Arial,-1\nStyle: *x,Tahoma,0\nStyle: Name,Arial,1\n\n[Events]\nFormat: Layer, Start, End, Style, Name, MarginL, MarginR, MarginV, Effect, Text\n"
	ev := func(style, text string) string {
		return "Dialogue: 0,0:00:01.00,0:00:02.00," + style + ",,0,0,0,," + text + "\n"
	}
	docs := []string{
		"", "\xef\xbb\xbf", "\xef\xbb\xbf\n", "\n\n\n", "\xef\xbb\xbf[Script Info]", "\xef\xbb\xbf\xef\xbb\xbf[Script Info]\nTitle: x\n", " \xef\xbb\xbf[Script Info]\nTitle: x\n", "\n\xef\xbb\xbf[Script Info]\nTitle: x\n",
		"Title: no section\n; comment in no section\nDialogue: 0,0:00:01.00,0:00:02.00,,,0,0,0,,x\n",
		"[Events]\nDialogue: 0,0:00:01.00,0:00:02.00,,,0,0,0,,row before format\n",
		"[V4 Styles]\nStyle: Default,Arial\n",
		"[Events]\nFormat: Start, End, Text\n",
		"[Events]\nFormat:\nDialogue: x\n",
		"[Events]\nFormat: ,\nDialogue: x\n",
		"[Events]\nFormat: ,\nDialogue: x,y\nDialogue: x,y,z\n",
		"[Events]\nFormat: , ,Text\nDialogue: x,y,the text, with comma\n",
		"[V4 Styles]\nFormat:\nStyle: x\nStyle: x,y\nStyle:\n",
		"[V4 Styles]\nFormat: Name,,Bold\nStyle: a,b,1\n",
		"[V4 Styles]\nFormat: Name, Name, Bold, Bold\nStyle: a,b,1,0\nStyle: a,c,0,\n",
		"[V4 Styles]\nFormat: Name, Bold\nStyle: dup,1\nStyle: other,0\nStyle: dup,0\n\n[Events]\nFormat: Start, End, Style, Text\nDialogue: 0:00:01.00,0:00:02.00,dup,x\nDialogue: 0:00:01.00,0:00:02.00,*other,x\n",
		"[Events]\nFormat: Start, End, Start, Text, Text\nDialogue: 0:00:01.00,0:00:02.00,0:00:03.00,first,second, third\n",
		"[Events]\nFormat: Text, Start, End\nDialogue: the text,0:00:01.00,0:00:02.00\nDialogue: the text,0:00:01.00,0:00:02.00,surplus,commas\n",
		"[Events]\nFormat: Start, Text, End, Name\nDialogue: 0:00:01.00,text in the middle,0:00:02.00,Bob, and more\n",
		"[Events]\nFormat: Start, End, Text\nDialogue: 0:00:01.00,0:00:02.00\n",
		"[Events]\nFormat: Start, End, Text\nDialogue: 0:00:01.00,0:00:02.00,\nDialogue: 0:00:01.00,0:00:02.00,,,,\n",
		"[Events]\nFormat: Start, End, Text\nFormat: Start\nDialogue: 0:00:01.00,0:00:02.00,x\n",
		"[Events]\nFormat: Start\nFormat: Start, End, Text\nDialogue: 0:00:01.00,0:00:02.00,x\n",
		"[Events]\nFormat: Start, End, Text\n[Events]\nDialogue: 0:00:01.00,0:00:02.00,x\n",
		"[Events]\nFormat: Start, End, Text\n[Script Info]\nTitle: t\nDialogue: 0:00:01.00,0:00:02.00,in script info\n[Unknown]\nDialogue: y\n[Events]\nFormat: Start, End, Text\nDialogue: 0:00:01.00,0:00:02.00,x\n",
		"[V4 Styles]\nFormat: Name, Bold\n[Script Info]\nTitle: t\n[Unknown]\nfoo: bar\nStyle: a,1\n",
		"[V4 Styles]\nFormat: Name, Bold\n[Events]\nDialogue: a,1\n",
		"[Script Info]\nFormat: Name\nStyle: x\nDialogue: y\nTimer: 100,0000\nPlayResX: 640\nPlayResX: 320\n;c1\n; c2 \n;\n",
		"[V4 Styles]\nFormat: Name, Bold\nStyle: a,1\n[V4+ Styles]\nStyle: b,0\n",
		"[V4 Styles]\nFormat: Name, Bold\nStyle: a,1\n[V4+ Styles]\nFormat: Bold, Name, Italic\nStyle: 0,a,1\nStyle: 1,b,\n[Events]\nFormat: Style, Style, Start, End, Text\nDialogue: a,b,0:00:01.00,0:00:02.00,x\n",
		// longer than the scanner's 4096-byte buffer (lines of moderate length: the model is quadratic in the line length)
		"[Events]\nFormat: Start, End, Text\n" + strings.Repeat("Dialogue: 0:00:01.00,0:00:02.00,"+strings.Repeat("long text ", 45)+"\n", 10) + "Dialogue: 0:00:03.00,0:00:04.00,after\n",
		"[Events]\nFormat: Start, End, Text\n" + strings.Repeat("Dialogue: 0:00:01.00,0:00:02.00,"+strings.Repeat("{\\b1}x", 60)+"\\N"+strings.Repeat(" ", 100)+"\n", 9),
		"[Script Info]\nTitle: " + strings.Repeat("t", 1353) + "\nCollisions: " + strings.Repeat("c", 1353) + "\nWrapStyle: " + strings.Repeat("w", 1337) + "\n; comment right after the 4096-byte buffer\nPlayResX: 12\n",
		"[Script Info]\nTimer: 1e2\n", "[Script Info]\nTimer: x\n", "[Script Info]\nTimer:\n", "[Script Info]\nPlayResX:\n", "[Script Info]\nPlayResY: 1.5\n", "[Script Info]\nTimer: 0,001\n", "[Script Info]\nTimer: -12,5\n",
		"[Scrİpt Info]\nTitle: dotted I\n", "[Kevents]\nFormat: Text\n", "[EVENTS]\nFormat: Text\nDialogue: x\n", "[eKents]\nTitle: y\n", "[scrıpt info]\nTitle: dotless i\n",
		"[V4 Styles+]\nFormat: Name, TertiaryColour, OutlineColour\nStyle: a,&H11223344,\nStyle: b,,&H11223344\nStyle: c,1,2\n",
		"[V4+ Styles]\nFormat: Name, PrimaryColour\nStyle: a,&Hzz\n", "[V4+ Styles]\nFormat: Name, PrimaryColour\nStyle: a,-1\n", "[V4+ Styles]\nFormat: Name, PrimaryColour\nStyle: a,&H-ff\n",
		"[V4+ Styles]\nFormat: Name, PrimaryColour\nStyle: a,99999999999999999999\n", "[V4+ Styles]\nFormat: Name, Fontsize\nStyle: a,1e3\nStyle: b,1.2345\n", "[V4+ Styles]\nFormat: Name, Fontsize\nStyle: a,-0\n",
		"[V4+ Styles]\nFormat: Name, Fontsize, Angle, ScaleX\nStyle: a,.5,5.,1_0\n", "[V4+ Styles]\nFormat: Name, Fontsize, Angle\nStyle: a,.5,5.\n",
		"[Events]\nFormat: Start, End, Text\nDialogue: 0:00:01,1:02:03.4,x\nDialogue: 0:0:1.234,-1:00:00.00,y\nDialogue: 99999999999:00:00.00,0:00:00.00,z\n",
		"[Events]\nFormat: Marked, Start, End, Text\nDialogue: Marked=1,0:00:01.00,0:00:02.00,a\nDialogue: Marked=0,0:00:01.00,0:00:02.00,b\nDialogue: 1,0:00:01.00,0:00:02.00,c\nDialogue: ,0:00:01.00,0:00:02.00,d\n",
		"[Events]\nFormat: Layer, Text\nDialogue: ,no layer\n", "[Events]\nFormat: Layer, Text\nDialogue: 1,layer\nDialogue: x,bad layer\n",
		"[Events]\nFormat: Text\n: no header\nDialogue x\nDialogue: a:b:c\nDialogue:: d\n Dialogue : spaced header\nDialogue\u00a0: nbsp header\n",
	}
	for _, t := range []string{"a\\Nb\\nc", "a\\nb\\Nc\\Nd", "{\\a}{\\b}x", "{\\a}{\\b}", "x{\\a}{\\b}{\\c}y{\\d}", "{}", "{{x}", "a}b{c}d}e", "{unbalanced", "unbalanced}", "}{", "{}}", "{{}}", "{a}{", "\\Nlead", "\\N\\Nlead twice",
		"trail\\N", "trail\\n\\n", "", "   ", "\u00a0nbsp padded\u00a0", "\u00a0\\N\u00a0x\u00a0\\N\u00a0", "\\N", "\\n", "\\", "\\\\N", "\\\\n\\N", "{\\a}\\N{\\b}", "{\\a\\N}", "a, b, c", ",,,", "a\\N \\N b", "Hello {\\i1}big{\\i0} world",
		" {\\i1} x ", "{\\i1} \\N {\\i0}", "x{\\i1}", "{\\i1}x", "\\Nx{\\N}", "\t\\N\t", "a\\Nb\\Nc\\Nd\\Ne\\Nf"} {
		docs = append(docs, head+ev("Default", t))
	}
	for _, s := range []string{"", "Default", "*Default", "**Default", "x", "*x", "**x", "Name", "*Name", "**Name", "Unknown", "*Unknown", "*", " Default", "default"} {
		docs = append(docs, head+ev(s, "styled by "+s))
	}
	// the '*' prefix against maps that hold X, *X, both, none
	for _, styles := range [][]string{{}, {"X"}, {"*X"}, {"X", "*X"}, {"**X"}} {
		d := "[V4 Styles]\nFormat: Name, Bold\n"
		for _, s := range styles {
			d += "Style: " + s + ",1\n"
		}
		d += "[Events]\nFormat: Start, End, Style, Text\n"
		for _, ref := range []string{"X", "*X", "**X"} {
			d += "Dialogue: 0:00:01.00,0:00:02.00," + ref + ",t\n"
		}
		docs = append(docs, d)
	}
	return docs
}

// ---- observations ------------------------------------------------------------------------------------------------

var ssaOptsCases [4]int // reader-model cases per callback combination (reported as ssa.readm.callbacks.<k>)

func ssaReadModelObs(doc string, group string, human map[string]interface{}) (*obs, *astisub.Subtitles) {
	if human == nil {
		human = map[string]interface{}{}
	}
	human["doc"] = doc
	o := &obs{Suite: "ssareadm", Group: group, Input: (&enc{}).str(doc).String(), Human: human}
	var s *astisub.Subtitles
	var err error
	// the same choice of callbacks as the driver (ocaml/drv_ssa.ml opts_of: by the length of the document in bytes), so that
	// all four nil / non-nil combinations of OnUnknownSectionName / OnInvalidLine are run on BOTH sides
	var opts astisub.SSAOptions
	if len(doc)&1 == 0 {
		opts.OnUnknownSectionName = func(string) {}
	}
	if len(doc)&2 == 0 {
		opts.OnInvalidLine = func(string) {}
	}
	ssaOptsCases[len(doc)&3]++
	p := safely(func() { s, err = astisub.ReadFromSSAWithOptions(strings.NewReader(doc), opts) })
	switch {
	case p != "":
		o.Impl = "2"
		human["panic"] = p
		s = nil
	case err != nil:
		o.Impl = "1"
		human["error"] = err.Error()
		s = nil
	default:
		o.Impl = "0 " + encSsaSubs(s)
		o.NT = len(s.Items) > 0 || len(s.Styles) > 0
	}
	return o, s
}

var ssaNilItemCases int // writer-model cases run on a list with nil elements (reported as ssa.writem.nil_item)

func ssaWriteModelObs(r *rng, s *astisub.Subtitles, group string, human map[string]interface{}) *obs {
	doc := encSsaSubs(s)
	if strings.Contains(doc, "NaF") {
		return nil // a float outside the model's domain: not an input of the writer's model
	}
	keys := keysOfS(s.Styles)
	shuffleStrings(r, keys)
	e := &enc{}
	e.raw(doc)
	encStrList(e, keys)
	if human == nil {
		human = map[string]interface{}{}
	}
	o := &obs{Suite: "ssawritem", Group: group, Input: e.String(), Human: human, NT: len(s.Items) > 0}
	if len(doc)%8 == 5 {
		// nil elements inside Items: the writer skips them; the model input above is the list without them
		cp := *s
		cp.Items = withNilItems(s.Items, len(doc)/8)
		s = &cp
		human["nil_items"] = true
		ssaNilItemCases++
	}
	var buf bytes.Buffer
	var err error
	p := safely(func() { err = s.WriteToSSA(&buf) })
	switch {
	case p != "":
		o.Impl = "2"
		human["panic"] = p
	case err != nil:
		o.Impl = "1"
		human["error"] = err.Error()
	default:
		o.Impl = (&enc{}).n(0).bytes(buf.Bytes()).String()
		human["written"] = buf.String()
	}
	return o
}

// variations of a Subtitles value that exercise the writer's corners
func ssaWriterVariation(R *runner, r *rng, s *astisub.Subtitles) {
	for n := 1 + r.intn(3); n > 0; n-- {
		what := ""
		switch r.intn(18) {
		case 0:
			s.Metadata, what = nil, "nil_metadata"
		case 1:
			s.Metadata, what = randSsaMetadata(r), "random_metadata"
		case 2:
			s.Styles[r.pick("nil1", "Default", "zz", "")] = nil
			what = "nil_style_entry"
		case 3:
			st := randSsaStyleValue(r)
			s.Styles[r.pick("k1", "k2", "Default", "Alt", st.ID)] = st
			what = "key_differs_from_id"
		case 4:
			st := randSsaStyleValue(r)
			st2 := randSsaStyleValue(r)
			st2.ID = st.ID
			s.Styles["dup-a"], s.Styles["dup-b"] = st, st2
			what = "two_entries_same_id"
		case 5:
			for _, k := range keysOfS(s.Styles) {
				if s.Styles[k] != nil && r.chance(1, 2) {
					s.Styles[k].InlineStyle = nil
				}
			}
			what = "nil_style_attributes"
		case 6:
			for _, it := range s.Items {
				if r.chance(1, 2) {
					it.InlineStyle = nil
				}
			}
			what = "nil_item_attributes"
		case 7:
			for _, it := range s.Items {
				if r.chance(1, 2) {
					it.Style = nil
				}
			}
			what = "nil_item_style"
		case 8:
			for _, it := range s.Items {
				if r.chance(1, 2) {
					it.Style = &astisub.Style{ID: r.pick("ghost", "Default", "", "*x", "a,b")}
				}
			}
			what = "style_not_in_map"
		case 9:
			for _, it := range s.Items {
				for l := range it.Lines {
					if r.chance(1, 3) {
						it.Lines[l].Items = nil
					}
				}
			}
			what = "line_without_runs"
		case 10:
			for _, it := range s.Items {
				if r.chance(1, 3) {
					it.Lines = nil
				}
			}
			what = "item_without_lines"
		case 11:
			for _, it := range s.Items {
				for l := range it.Lines {
					for k := range it.Lines[l].Items {
						if r.chance(1, 3) {
							it.Lines[l].Items[k].InlineStyle = &astisub.StyleAttributes{SSABold: boolPtr(true)}
						}
					}
				}
			}
			what = "run_style_without_effect"
		case 12:
			for _, it := range s.Items {
				for l := range it.Lines {
					it.Lines[l].VoiceName = r.pick("", "", "Bob", "Mary Ann", "Zed")
				}
			}
			what = "voice_per_line"
		case 13:
			for _, it := range s.Items {
				if r.chance(1, 2) {
					it.StartAt, it.EndAt = randSsaDuration(r), randSsaDuration(r)
				}
			}
			what = "odd_durations"
		case 14:
			for _, it := range s.Items {
				if it.InlineStyle != nil && r.chance(1, 2) {
					it.InlineStyle.SSALayer, it.InlineStyle.SSAMarginLeft, it.InlineStyle.SSAMarginRight, it.InlineStyle.SSAMarginVertical = randSsaInt(r), randSsaInt(r), randSsaInt(r), randSsaInt(r)
					it.InlineStyle.SSAMarked = randSsaBool(r)
					it.InlineStyle.SSAEffect = r.pick("", "Banner;5", "a,b", "x\ny")
				}
			}
			what = "odd_event_attributes"
		case 15:
			k := r.pick("Default", "Alt", "Big one", "s3", "new", "*x")
			s.Styles[k] = randSsaStyleValue(r)
			if r.chance(1, 2) {
				s.Styles[k].ID = k
			}
			what = "random_style"
		case 16:
			s.Items, what = nil, "zero_items"
		default:
			for _, it := range s.Items {
				if r.chance(1, 2) {
					it.Lines = randSsaLines(r)
				}
			}
			what = "random_lines"
		}
		R.count("ssa.writer_variation." + what)
	}
}

func suiteSsaModel(R *runner, r *rng) {
	R.rule("ssa model: the extracted Coq model against the implementation on the same inputs - ssareadm (rendered ground-truth documents with the extra lines of the ssa suite (unknown script-info keys, comments in every section and before the first header, second Format lines), documents written by the library, 1..3 line/byte mutations of rendered documents, hand-written corner documents; result class and projected value, class only outside the model's float domain), ssawritem (written bytes for ground-truth models, for variations exercising nil metadata/styles/attributes, keys differing from identifiers, duplicate identifiers, nil elements inside Items (model input: the list without them), lines without runs, items without lines, odd durations and integers, thousandth floats, and for every value returned by the reader), row level through the hooks: style rows and event rows against random Formats (permutations, subsets, aliases, unknown and duplicate names, every cell encoding), their string forms, colours, times, text splitting, item text, style references with '*', script info bytes, float spelling; non-trivial = accepted input with content")
	defer func() {
		R.countN("ssa.writem.nil_item", ssaNilItemCases)
		ssaNilItemCases = 0
		for k, n := range ssaOptsCases {
			R.countN(fmt.Sprintf("ssa.readm.callbacks.unknown_%v.invalid_%v", k&1 == 0, k&2 == 0), n)
			ssaOptsCases[k] = 0
		}
	}()
	ssaCellsOn() // every cell spelling of the characterisation in the rendered documents; counted as ssa.cell.*
	defer ssaCellsFlush(R)
	N := 800
	if R.tier == "thorough" {
		N = 12800
	}
	// 1. reader
	for c := 0; c < N; c++ { // (a) rendered ground truth, and the read -> write correspondence
		d := randSsaDoc(r)
		ssaVary(r, d)
		doc, _, _, _ := renderSsaWith(r, d, newSsaExtras(R, c, 2))
		o, s := ssaReadModelObs(doc, "ssa.readm", map[string]interface{}{"kind": "rendered"})
		R.count("ssa.readm.rendered")
		R.add(o)
		if s != nil {
			if w := ssaWriteModelObs(r, s, "ssa.writem", map[string]interface{}{"kind": "value returned by the reader", "doc": doc}); w != nil {
				R.count("ssa.writem.from_reader")
				R.add(w)
			}
		}
	}
	for c := 0; c < N/2; c++ { // (b) written by the library
		d := randSsaDoc(r)
		ssaVary(r, d)
		var buf bytes.Buffer
		if err := subsFromSsaDoc(d).WriteToSSA(&buf); err != nil {
			continue
		}
		o, _ := ssaReadModelObs(buf.String(), "ssa.readm", map[string]interface{}{"kind": "written by the library"})
		R.count("ssa.readm.written")
		R.add(o)
	}
	for c := 0; c < 2*N; c++ { // (c) mutated
		d := randSsaDoc(r)
		ssaVary(r, d)
		doc, _, _, _ := renderSsaWith(r, d, newSsaExtras(R, c, 3))
		doc = mutateSsaDoc(R, r, doc)
		o, s := ssaReadModelObs(doc, "ssa.readm.mutated", map[string]interface{}{"kind": "mutated"})
		R.count("ssa.readm.mutated")
		if o.Impl == "1" {
			R.count("ssa.readm.mutated.rejected")
		}
		R.add(o)
		if s != nil && c%4 == 0 {
			if w := ssaWriteModelObs(r, s, "ssa.writem", map[string]interface{}{"kind": "value returned by the reader (mutated document)", "doc": doc}); w != nil {
				R.count("ssa.writem.from_reader")
				R.add(w)
			}
		}
	}
	for c := 0; c < N; c++ { // (c') line soup
		doc := randSsaSoup(r)
		o, s := ssaReadModelObs(doc, "ssa.readm.soup", map[string]interface{}{"kind": "line soup"})
		R.count("ssa.readm.soup")
		if o.Impl == "1" {
			R.count("ssa.readm.soup.rejected")
		}
		R.add(o)
		if s != nil && c%4 == 0 {
			if w := ssaWriteModelObs(r, s, "ssa.writem", map[string]interface{}{"kind": "value returned by the reader (line soup)", "doc": doc}); w != nil {
				R.count("ssa.writem.from_reader")
				R.add(w)
			}
		}
	}
	for _, doc := range ssaCornerDocs() { // (d) corners
		for _, eol := range []string{"\n", "\r\n", "\r"} {
			o, s := ssaReadModelObs(strings.ReplaceAll(doc, "\n", eol), "ssa.readm.corner", map[string]interface{}{"kind": "corner"})
			R.count("ssa.readm.corner")
			R.add(o)
			if s != nil && eol == "\n" {
				if w := ssaWriteModelObs(r, s, "ssa.writem", map[string]interface{}{"kind": "value returned by the reader (corner document)", "doc": doc}); w != nil {
					R.add(w)
				}
			}
		}
	}
	for _, f := range []string{"example-in.ssa", "example-out.ssa", "example-in.ass", "example-out.ass", "example-in-v4plus.ssa", "example-out-v4plus.ssa"} {
		if b, err := readRepoFile("testdata/" + f); err == nil {
			o, s := ssaReadModelObs(string(b), "ssa.readm.testdata", map[string]interface{}{"file": f})
			R.add(o)
			if s != nil {
				if w := ssaWriteModelObs(r, s, "ssa.writem", map[string]interface{}{"file": f}); w != nil {
					R.add(w)
				}
			}
		}
	}
	// 2. writer
	for c := 0; c < N; c++ {
		d := randSsaDoc(r)
		s := subsFromSsaDoc(d)
		kind := "ground truth"
		if c%2 == 1 {
			ssaWriterVariation(R, r, s)
			kind = "variation"
		}
		R.count("ssa.writem." + strings.ReplaceAll(kind, " ", "_"))
		if w := ssaWriteModelObs(r, s, "ssa.writem", map[string]interface{}{"kind": kind}); w != nil {
			R.add(w)
		}
	}
	// 3. rows
	M := 3000
	if R.tier == "thorough" {
		M = 48000
	}
	for c := 0; c < M; c++ { // ssastyle
		content, cols := randSsaStyleRow(r)
		o := &obs{Suite: "ssastyle", Group: "ssa.style", Human: map[string]interface{}{"content": content, "format": cols}}
		e := (&enc{}).str(content)
		encStrList(e, cols)
		o.Input = e.String()
		var st *astisub.Style
		var err error
		p := safely(func() { st, err = astisub.VerifSSAStyleFromString(content, fmtMap(cols)) })
		switch {
		case p != "":
			o.Impl = "2"
		case err != nil:
			o.Impl = "1"
			R.count("ssa.style.rejected")
		default:
			x := (&enc{}).n(0)
			encSsaStyle(x, st.ID, st.InlineStyle)
			o.Impl, o.NT = x.String(), true
		}
		R.add(o)
	}
	for c := 0; c < M/2; c++ { // ssastylestr
		st := randSsaStyleValue(r)
		names := randSsaFormat(r, ssaStyleNamesAll, []string{"TertiaryColour"})
		o := &obs{Suite: "ssastylestr", Group: "ssa.stylestr", NT: true, Human: map[string]interface{}{"style": st, "format": names}}
		e := &enc{}
		encSsaStyle(e, st.ID, st.InlineStyle)
		encStrList(e, names)
		o.Input = e.String()
		var out string
		if p := safely(func() { out = astisub.VerifSSAStyleString(*st, names) }); p != "" {
			o.Impl = "2"
		} else {
			o.Impl = (&enc{}).str(out).String()
			o.Human.(map[string]interface{})["string"] = out
		}
		R.add(o)
	}
	for c := 0; c < M; c++ { // ssaevent
		header, content, cols := randSsaEventRow(r)
		o := &obs{Suite: "ssaevent", Group: "ssa.event", Human: map[string]interface{}{"header": header, "content": content, "format": cols}}
		e := (&enc{}).str(header).str(content)
		encStrList(e, cols)
		o.Input = e.String()
		var ev *astisub.VerifSSAEvent
		var err error
		p := safely(func() { ev, err = astisub.VerifSSAEventFromString(header, content, fmtMap(cols)) })
		switch {
		case p != "":
			o.Impl = "2"
			R.count("ssa.event.panic")
		case err != nil:
			o.Impl = "1"
			R.count("ssa.event.rejected")
		default:
			x := (&enc{}).n(0)
			encSsaEvent(x, ev)
			o.Impl, o.NT = x.String(), true
		}
		R.add(o)
	}
	randEvent := func() *astisub.VerifSSAEvent {
		return &astisub.VerifSSAEvent{Category: r.pick("Dialogue", "Comment", ""), Effect: r.pick("", "Banner;5", "a,b"), End: randSsaDuration(r), Layer: randSsaInt(r), Marked: randSsaBool(r),
			MarginLeft: randSsaInt(r), MarginRight: randSsaInt(r), MarginVertical: randSsaInt(r), Name: r.pick("", "Bob", "Mary Ann", "a,b"), Start: randSsaDuration(r),
			Style: ssaStyleRefCells[r.intn(len(ssaStyleRefCells))], Text: ssaEventCell(r, 'x')}
	}
	for c := 0; c < M/2; c++ { // ssaeventstr
		ev := randEvent()
		names := randSsaFormat(r, ssaEventNamesAll, []string{"Text", "Start"})
		o := &obs{Suite: "ssaeventstr", Group: "ssa.eventstr", NT: true, Human: map[string]interface{}{"event": ev, "format": names}}
		e := &enc{}
		encSsaEvent(e, ev)
		encStrList(e, names)
		o.Input = e.String()
		var out string
		if p := safely(func() { out = astisub.VerifSSAEventString(*ev, names) }); p != "" {
			o.Impl = "2"
		} else {
			o.Impl = (&enc{}).str(out).String()
			o.Human.(map[string]interface{})["string"] = out
		}
		R.add(o)
	}
	for c := 0; c < M; c++ { // ssacolor
		s := ssaCellOfKind(r, 'c')
		if r.chance(1, 5) {
			s = mutBytes(r, s, ssaHostile)
		}
		o := &obs{Suite: "ssacolor", Group: "ssa.color", Input: (&enc{}).str(s).String(), Human: map[string]interface{}{"colour": s}}
		var col *astisub.Color
		var err error
		p := safely(func() { col, err = astisub.VerifNewColorFromSSAColor(s) })
		switch {
		case p != "":
			o.Impl = "2"
		case err != nil:
			o.Impl = "1"
		default:
			x := (&enc{}).n(0)
			encOptColor(x, col)
			o.Impl, o.NT = x.String(), col != nil
		}
		R.add(o)
	}
	for c := 0; c < M/2; c++ { // ssacolorstr
		col := &astisub.Color{Alpha: uint8(r.intn(256)), Blue: uint8(r.intn(256)), Green: uint8(r.intn(256)), Red: uint8(r.intn(256))}
		if r.chance(1, 4) {
			col.Alpha = 0
		}
		o := &obs{Suite: "ssacolorstr", Group: "ssa.colorstr", NT: true, Input: (&enc{}).n(int(col.Alpha)).n(int(col.Blue)).n(int(col.Green)).n(int(col.Red)).String(), Human: map[string]interface{}{"colour": col}}
		var out string
		if p := safely(func() { out = astisub.VerifSSAColorString(col) }); p != "" {
			o.Impl = "2"
		} else {
			o.Impl = (&enc{}).str(out).String()
		}
		R.add(o)
	}
	for c := 0; c < M; c++ { // ssatime
		s := ssaCellOfKind(r, 't')
		if r.chance(1, 4) {
			s = mutBytes(r, s, []string{":", ".", " ", "-", "+", "0", "9", "\u00a0", "x", ","})
		}
		o := &obs{Suite: "ssatime", Group: "ssa.time", Input: (&enc{}).str(s).String(), Human: map[string]interface{}{"time": s}}
		var d time.Duration
		var err error
		p := safely(func() { d, err = astisub.VerifParseDuration(s, ".", 3) })
		switch {
		case p != "":
			o.Impl = "2"
		case err != nil:
			o.Impl = "0"
		default:
			o.Impl, o.NT = (&enc{}).n(1).i(int64(d)).String(), true
		}
		R.add(o)
	}
	for c := 0; c < M; c++ { // ssatext
		name := r.pick("", "Bob", "Mary Ann")
		text := ssaEventCell(r, 'x')
		if r.chance(1, 4) {
			text = mutBytes(r, text, ssaTextAlphabet)
		}
		o := &obs{Suite: "ssatext", Group: "ssa.text", Input: (&enc{}).str(name).str(text).String(), Human: map[string]interface{}{"name": name, "text": text}}
		var it *astisub.Item
		var err error
		p := safely(func() {
			it, err = astisub.VerifSSAEventItem(astisub.VerifSSAEvent{Name: name, Text: text}, map[string]*astisub.Style{})
		})
		switch {
		case p != "":
			o.Impl = "2"
		case err != nil:
			o.Impl = "1"
		default:
			x := &enc{}
			encSsaLines(x, it.Lines)
			o.Impl, o.NT = x.String(), strings.ContainsAny(text, "{\\")
		}
		R.add(o)
	}
	for c := 0; c < M/2; c++ { // ssaitemtext
		ls := randSsaLines(r)
		x := &enc{}
		encSsaLines(x, ls)
		o := &obs{Suite: "ssaitemtext", Group: "ssa.itemtext", NT: len(ls) > 0, Input: x.String(), Human: map[string]interface{}{"lines": ls}}
		var ev *astisub.VerifSSAEvent
		if p := safely(func() { ev = astisub.VerifSSAEventFromItem(astisub.Item{Lines: ls}) }); p != "" {
			o.Impl = "2"
		} else {
			o.Impl = (&enc{}).str(ev.Name).str(ev.Text).String()
		}
		R.add(o)
	}
	for c := 0; c < M/2; c++ { // ssaitem
		ev := randEvent()
		var names []string
		base := r.pick("X", "Default", "x", "Alt")
		switch c % 5 {
		case 0:
			names = []string{base}
		case 1:
			names = []string{"*" + base}
		case 2:
			names = []string{base, "*" + base}
		case 3:
		default:
			for _, n := range ssaStyleRefCells {
				if r.chance(1, 4) {
					names = append(names, n)
				}
			}
		}
		if c%5 < 4 {
			ev.Style = r.pick(base, "*"+base, "**"+base, "")
		}
		shuffleStrings(r, names)
		styles := map[string]*astisub.Style{}
		for _, n := range names {
			styles[n] = &astisub.Style{ID: n}
		}
		e := &enc{}
		encSsaEvent(e, ev)
		encStrList(e, names)
		o := &obs{Suite: "ssaitem", Group: "ssa.item", NT: true, Input: e.String(), Human: map[string]interface{}{"event": ev, "styles": names}}
		var it *astisub.Item
		var err error
		p := safely(func() { it, err = astisub.VerifSSAEventItem(*ev, styles) })
		switch {
		case p != "":
			o.Impl = "2"
		case err != nil:
			o.Impl = "1"
		default:
			x := &enc{}
			encSsaItem(x, it)
			o.Impl = x.String()
			if it.Style != nil {
				R.count("ssa.item.style_resolved")
			} else if ev.Style != "" {
				R.count("ssa.item.style_unresolved")
			}
		}
		R.add(o)
	}
	for c := 0; c < M/2; c++ { // ssainfo
		m := randSsaMetadata(r)
		e := &enc{}
		encSsaInfo(e, m)
		o := &obs{Suite: "ssainfo", Group: "ssa.info", NT: true, Input: e.String(), Human: map[string]interface{}{"metadata": m}}
		var out []byte
		if p := safely(func() { out = astisub.VerifSSAScriptInfoBytes(m) }); p != "" {
			o.Impl = "2"
		} else {
			o.Impl = (&enc{}).bytes(out).String()
			o.Human.(map[string]interface{})["bytes"] = string(out)
		}
		R.add(o)
	}
	// the strconv contract of the model's float domain: plain decimals only (the other spellings are outside the
	// domain and covered by the class comparison of ssastyle / ssareadm)
	for c := 0; c < M/2; c++ { // ssafloat
		var s string
		if r.chance(2, 3) {
			k := r.i64n(2000000) - 500000
			if r.chance(1, 4) {
				k = r.i64n(2e15) - 1e15
			}
			s = ssaFloatText(r, k)
		} else {
			s = ssaFloatCells[r.intn(len(ssaFloatCells))]
		}
		if !ssaPlainDecimal(s) {
			if _, err := strconv.ParseFloat(s, 64); err == nil {
				continue // accepted by strconv but outside the plain decimals: not compared here
			}
		}
		o := &obs{Suite: "ssafloat", Group: "ssa.float", Input: (&enc{}).str(s).String(), Human: map[string]interface{}{"float": s}}
		o.Impl = "0"
		if f, err := strconv.ParseFloat(s, 64); err == nil {
			if k, ok := ssaThousandths(f); ok && ssaAtMost3Decimals(s) {
				o.Impl, o.NT = (&enc{}).n(1).i(k).String(), true
			}
		}
		R.add(o)
	}
	for c := 0; c < M/2; c++ { // ssafloatstr
		k := r.i64n(2000000) - 500000
		if r.chance(1, 3) {
			k = r.i64n(2e15-2) - (1e15 - 1)
		}
		f := float64(k) / 1000
		o := &obs{Suite: "ssafloatstr", Group: "ssa.floatstr", NT: true, Input: (&enc{}).i(k).String(), Human: map[string]interface{}{"thousandths": k}}
		o.Impl = (&enc{}).str(strconv.FormatFloat(f, 'f', 3, 64)).str(strconv.FormatFloat(f, 'f', -1, 64)).String()
		R.add(o)
	}
}

var ssaRePlainDecimal = regexp.MustCompile(`^[+-]?([0-9]+(\.[0-9]*)?|\.[0-9]+)$`)

func ssaPlainDecimal(s string) bool { return ssaRePlainDecimal.MatchString(s) }

// no significant digit beyond the third decimal
func ssaAtMost3Decimals(s string) bool {
	i := strings.IndexByte(s, '.')
	if i < 0 || len(s)-i-1 <= 3 {
		return true
	}
	return strings.Trim(s[i+4:], "0") == ""
}
