package main

// C06 teletext, feeder level: the extracted Coq model of the reader (coq/Model/Ttx.v, ttx_feed) against the
// implementation driven through the hook VerifTeletextFeed on the same delivered (time, PES payload) lists,
// plus the schedule oracle on the implementation's result (times, lines, run texts, colour and size
// attributes) through the hook and, for a share of the cases, through the astits muxer and ReadFromTeletext.
//
// Generator: a ground-truth page schedule is the primary object; the multiplexer inserts, at places where by
// construction they cannot matter, units of the kinds the property lists; the expected cues are computed from
// the schedule alone.

import (
	"bytes"
	"context"
	"fmt"
	"math/bits"
	"strings"
	"time"

	astits "github.com/asticode/go-astits"

	astisub "github.com/asticode/go-astisub"
)

type tmRun struct {
	Text       string
	Color      int // 0..7, -1 none
	DH, DS, DW int // -1 unset, 0 false, 1 true
	SB, SA     int // spaces before / after (correspondence only)
}
type tmCue struct {
	Start, End int64 // ns
	Lines      [][]tmRun
}
type tmDelivery struct {
	T    int64 // ms; < 0: no time (the zero time.Time)
	Data []byte
}

// ---- rows -----------------------------------------------------------------------------------------------

// 40 cells and the runs they denote: junk outside the box, start box (once or twice), runs introduced by colour
// and size codes, end box or padding
// the structure of a generated row, as the Coq specification (Model/TtxSpec.v, rowspec) has it
type tmSeg struct{ Codes, Cells []byte }
type tmRowSpec struct {
	Pre    []byte
	Boxes  int
	Segs   []tmSeg
	HasEnd bool
	End    []byte
}

func tmRow(r *rng, charset int) ([]byte, []tmRun, *tmRowSpec) {
	var cells []byte
	sp := &tmRowSpec{}
	color, dh, ds, dw := -1, -1, -1, -1
	code := func() {
		if r.chance(2, 3) {
			c := r.intn(8)
			if c == color {
				c = (c + 1) % 8 // a repeated identical colour code is not a colour change
			}
			color = c
			cells = append(cells, byte(c))
		} else {
			s := 0xc + r.intn(4)
			switch s {
			case 0xc:
				dh, ds, dw = 0, 0, 0
			case 0xd:
				dh = 1
			case 0xe:
				dw = 1
			case 0xf:
				ds = 1
			}
			cells = append(cells, byte(s))
		}
	}
	for k := r.intn(4); k > 0; k-- {
		switch r.intn(4) {
		case 0:
			code() // a code in front of the box applies to the boxed text, but shows nothing
		default:
			cells = append(cells, r.pick(" ", "x", "y", "Q")[0])
		}
	}
	sp.Pre = append([]byte{}, cells...)
	cells = append(cells, 0x0b)
	if r.chance(1, 2) {
		cells = append(cells, 0x0b)
		sp.Boxes = 1
	}
	var runs []tmRun
	var raw []byte
	flush := func(pad int) {
		var sb strings.Builder
		for _, c := range raw {
			sb.WriteString(g0Char(charset, c))
		}
		txt := sb.String() + strings.Repeat(" ", pad)
		if t := strings.TrimSpace(txt); t != "" {
			runs = append(runs, tmRun{Text: t, Color: color, DH: dh, DS: ds, DW: dw,
				SB: len(txt) - len(strings.TrimLeft(txt, " ")), SA: len(txt) - len(strings.TrimRight(txt, " "))})
		}
		raw = nil
	}
	nr := 1 + r.intn(3)
	for k := 0; k < nr && len(cells) < 34; k++ {
		mark := len(cells)
		if k > 0 || r.chance(1, 2) {
			flush(0)
			code()
			if r.chance(1, 5) {
				code()
			}
		}
		sp.Segs = append(sp.Segs, tmSeg{Codes: append([]byte{}, cells[mark:]...)})
		n := 1 + r.intn(8)
		for i := 0; i < n && len(cells) < 37; i++ {
			var c byte
			switch r.intn(6) {
			case 0:
				c = ' '
			case 1:
				pos := []byte{0x23, 0x24, 0x40, 0x5b, 0x5c, 0x5d, 0x5e, 0x5f, 0x60, 0x7b, 0x7c, 0x7d, 0x7e}
				c = pos[r.intn(len(pos))]
				if charset == 7 && englishAmbiguous[c] {
					c = 'e'
				}
			default:
				const alpha = "abcdefghijklmnopqrstuvwxyzABCDEFXYZ0123456789.,!?'-:;()*+/<=>%&\""
				c = alpha[r.intn(len(alpha))]
			}
			cells = append(cells, c)
			raw = append(raw, c)
			sp.Segs[len(sp.Segs)-1].Cells = append(sp.Segs[len(sp.Segs)-1].Cells, c)
		}
	}
	if r.chance(2, 3) {
		flush(0)
		sp.HasEnd = true
		mark := len(cells) + 1
		defer func() { sp.End = append([]byte{}, cells[mark:]...) }()
		cells = append(cells, 0x0a)
		for len(cells) < 40 {
			if r.chance(1, 3) {
				cells = append(cells, r.pick("z", "!", "Q", "\x08")[0]) // after the end box: never shown
			} else {
				cells = append(cells, ' ')
			}
		}
	} else {
		flush(40 - len(cells)) // the padding is boxed too: trailing spaces of the last run
		for len(cells) < 40 {
			cells = append(cells, ' ')
			sp.Segs[len(sp.Segs)-1].Cells = append(sp.Segs[len(sp.Segs)-1].Cells, ' ')
		}
	}
	return cells, runs, sp
}

// the structure of a row of stored cells: cells in front of the first start box, groups of attributes and of other
// cells up to the end box, junk behind it (nil: no start box, or an attribute / start box behind the end box)
func tmTokenize(cells []byte) *tmRowSpec {
	attr := func(c byte) bool { return c < 8 || (c >= 0xc && c <= 0xf) }
	i := bytes.IndexByte(cells, 0x0b)
	if i < 0 {
		return nil
	}
	sp := &tmRowSpec{Pre: append([]byte{}, cells[:i]...)}
	rest := cells[i+1:]
	if j := bytes.IndexByte(rest, 0x0a); j >= 0 {
		sp.HasEnd = true
		sp.End = append([]byte{}, rest[j+1:]...)
		for _, c := range sp.End {
			if attr(c) || c == 0x0b {
				return nil
			}
		}
		rest = rest[:j]
	}
	for k := 0; k < len(rest); {
		var g tmSeg
		for k < len(rest) && attr(rest[k]) {
			g.Codes = append(g.Codes, rest[k])
			k++
		}
		for k < len(rest) && !attr(rest[k]) {
			g.Cells = append(g.Cells, rest[k])
			k++
		}
		sp.Segs = append(sp.Segs, g)
	}
	return sp
}

// Hamming 24/18 (ETS 300 706, 8.3), the harness's own encoder: 18 data bits -> the 24-bit word (bit i = position i+1),
// parity bits at the positions 1, 2, 4, 8, 16 and 24, every parity odd
func ham2418Word(d uint32) uint32 {
	pos := []uint{3, 5, 6, 7, 9, 10, 11, 12, 13, 14, 15, 17, 18, 19, 20, 21, 22, 23}
	var w uint32
	for k, p := range pos {
		w |= (d >> uint(k) & 1) << (p - 1)
	}
	for i := uint(0); i < 5; i++ {
		par := uint32(1)
		for p := uint(1); p <= 23; p++ {
			if p>>i&1 == 1 {
				par ^= w >> (p - 1) & 1
			}
		}
		w |= par << (1<<i - 1)
	}
	par := uint32(1)
	for p := uint(1); p <= 23; p++ {
		par ^= w >> (p - 1) & 1
	}
	return w | par<<23
}

// the three bytes of a triplet as they travel in the PES payload: first transmitted bit most significant
func tripletBytes(w uint32) []byte {
	return []byte{bits.Reverse8(byte(w)), bits.Reverse8(byte(w >> 8)), bits.Reverse8(byte(w >> 16))}
}

// the first triplet of an X/28 / M/29 packet as an encoder emits it: page function (X/28 format 1: 0) and coding, the
// character set designation in the data bits 8..14, the rest; sometimes with one bit inverted on the way (corrected) or
// two (rejected: the packet is then ignored)
func designationTriplet(r *rng, key int, format1 bool, kinds map[string]int) []byte {
	d := uint32(r.intn(1<<18)) &^ 0x3f8f
	d |= uint32(key&15)<<10 | uint32(r.intn(8))<<7
	if !format1 {
		d |= uint32(1 + r.intn(15))
	}
	w := ham2418Word(d)
	switch r.intn(6) {
	case 0:
		kinds["triplet-single-error"]++
		w ^= 1 << uint(r.intn(24))
	case 1:
		kinds["triplet-double-error"]++
		p := r.intn(24)
		q := (p + 1 + r.intn(23)) % 24
		w ^= 1<<uint(p) | 1<<uint(q)
	}
	return tripletBytes(w)
}

// ---- units ------------------------------------------------------------------------------------------------

func flipBit(r *rng, b byte) byte { return b ^ (1 << uint(r.intn(8))) }

// every Hamming 8/4 byte of a unit may carry one corrected bit error
func hamNoise(r *rng, u []byte, idx ...int) []byte {
	for _, i := range idx {
		if i < len(u) && r.chance(1, 12) {
			u[i] = flipBit(r, u[i])
		}
	}
	return u
}

type tmHeader struct {
	mag, tens, units int
	subtitle, serial bool
	charset          int
	junk             uint32
}

func tmHeaderUnit(r *rng, h tmHeader) []byte {
	var p []byte
	p = append(p, ham84(uint8(h.units)), ham84(uint8(h.tens)))
	p = append(p, ham84(uint8(h.junk&0xf)), ham84(uint8(h.junk>>4&0xf)), ham84(uint8(h.junk>>8&0xf)))
	s4 := uint8(h.junk >> 12 & 0x7)
	if h.subtitle {
		s4 |= 8
	}
	p = append(p, ham84(s4), ham84(uint8(h.junk>>16&0xf)))
	c := uint8(h.charset&7) << 1
	if h.serial {
		c |= 1
	}
	p = append(p, ham84(c))
	for i := 0; i < 32; i++ {
		p = append(p, parityByte("ABC 12:34 header text Mon 01 Jan  "[i]))
	}
	u := dataUnit(0x03, h.mag, 0, p)
	if r == nil {
		return u
	}
	return hamNoise(r, u, 4, 5, 6, 7, 8, 9, 10, 11, 12, 13)
}

func tmRowUnit(r *rng, mag, row int, cells []byte) []byte {
	return hamNoise(r, rowPacket(mag, row, cells), 4, 5)
}

func otherMag(r *rng, mag int) int {
	m := 1 + r.intn(8)
	if m == mag {
		m = mag%8 + 1
	}
	return m
}

// set per case: designation packets that change the character set (the Go ground truth then cannot tell the text: oracle off)
var tmDesignations bool

var tmTexts = []string{"\x0bNOT OURS\x0a", "\x0b\x0bDISTRACTOR \x01TEXT", "\x0b\x0d other page", "   \x0b index 100 \x0a"}

// units that cannot matter wherever they stand: non-subtitle and stuffing units (even when they carry what
// would be a row of the selected page), wrong framing code, units too short for an address, uncorrectable
// address bytes, rows of other magazines, X/26, X/27, X/30, X/31 of any magazine, X/28 and M/29 that keep the
// default character set designation, time-filling headers, headers with uncorrectable page digits
func tmBenign(r *rng, mag int, kinds map[string]int) []byte {
	row := func(m int) []byte { return rowPacket(m, 1+r.intn(25), []byte(tmTexts[r.intn(len(tmTexts))])) }
	k := r.intn(12)
	if tmDesignations && r.chance(1, 4) {
		k = 8
	}
	switch k {
	case 0:
		kinds["stuffing"]++
		return append([]byte{0xff, 0x2c}, bytes.Repeat([]byte{0xff}, 44)...)
	case 1:
		kinds["non-subtitle-unit"]++
		u := row(mag)
		u[0] = []byte{0x02, 0xc0, 0xc3, 0x00, 0x04}[r.intn(5)]
		return u
	case 2:
		kinds["wrong-framing"]++
		u := row(mag)
		u[3] = []byte{0x27, 0xe5, 0x00}[r.intn(3)]
		return u
	case 3:
		kinds["short-unit"]++
		u := row(mag)
		n := r.intn(4)
		u = u[:2+n]
		u[1] = byte(n)
		return u
	case 4:
		kinds["bad-address"]++
		u := row(mag)
		u[4+r.intn(2)] ^= 0x03 // two bit errors: not correctable
		return u
	case 5:
		kinds["row-other-magazine"]++
		return tmRowUnit(r, otherMag(r, mag), 1+r.intn(25), []byte(tmTexts[r.intn(len(tmTexts))]))
	case 6:
		kinds["X/26"]++
		m := mag
		if r.chance(1, 3) {
			m = otherMag(r, mag)
		}
		return dataUnit(0x03, m, 26, []byte{ham84(uint8(r.intn(16))), byte(r.intn(256)), byte(r.intn(256)), byte(r.intn(256))})
	case 7:
		kinds["X/27,X/30,X/31"]++
		pk := []int{27, 30, 31}[r.intn(3)]
		m := 1 + r.intn(8)
		return dataUnit(0x03, m, pk, []byte{ham84(uint8(r.intn(16))), byte(r.intn(256)), byte(r.intn(256))})
	case 8:
		kinds["X/28,M/29 default designation"]++
		pk := 28 + r.intn(2)
		dc := uint8(r.intn(16))
		if tmDesignations && r.chance(2, 3) {
			dc = []uint8{0, 4}[r.intn(2)]
		}
		key := 0 // the default character set designation
		if (dc == 0 || dc == 4) && tmDesignations && r.chance(1, 2) {
			// a real designation: the last one of the stream decides the character set of every page
			kinds["X/28,M/29 designation"]++
			key = []int{1, 2, 3, 4, 6, 8, 10, 5}[r.intn(8)]
		}
		// X/28: format 1 only is looked at at all; other formats may designate what they like
		format1 := !(pk == 28 && r.chance(1, 3))
		if !format1 {
			key = r.intn(16)
		}
		t := designationTriplet(r, key, format1, kinds)
		if dc != 0 && dc != 4 && r.chance(1, 2) {
			t = []byte{byte(r.intn(256)), byte(r.intn(256)), byte(r.intn(256))}
		}
		m := mag
		if r.chance(1, 4) {
			m = otherMag(r, mag)
			t = designationTriplet(r, r.intn(16), true, kinds)
		}
		return dataUnit(0x03, m, pk, append([]byte{ham84(dc)}, t...))
	case 9:
		kinds["time-filling-header"]++
		return tmHeaderUnit(r, tmHeader{mag: 1 + r.intn(8), tens: 0xf, units: 0xf, serial: r.chance(1, 2), junk: uint32(r.u64())})
	case 10:
		kinds["header-bad-digits"]++
		u := tmHeaderUnit(nil, tmHeader{mag: mag, tens: r.intn(10), units: r.intn(10), serial: true, junk: uint32(r.u64())})
		u[6+r.intn(2)] ^= 0x30 // two bit errors in a page digit
		return u
	default:
		kinds["short-packet"]++
		pk := []int{0, 1 + r.intn(25), 28, 29}[r.intn(4)]
		u := dataUnit(0x03, mag, pk, nil)
		n := 4 + r.intn(8)
		if pk >= 1 && pk <= 25 {
			n = 4 + r.intn(40)
		}
		if pk >= 28 {
			n = 4 + r.intn(4)
			u[6] = ham84(0)
		}
		u = u[:2+n]
		u[1] = byte(n)
		return u
	}
}

// ---- schedule and multiplexing -------------------------------------------------------------------------------

type tmEv struct {
	T    int64
	Kind int // 0 before the first instance, 1 header, 2 row, 3 cannot-matter unit while receiving, 4 terminating header, 5 after it
	U    []byte
}

// a delivery as the Coq specification has it: 0 PUnits (time, identifier, N events, truncated trailing unit),
// 1 PNoTime (payload), 2 PInert (time, payload)
type tmPES struct {
	Kind  int
	T     int64
	Ident byte
	N     int
	Raw   []byte
}
type tmInstSpec struct {
	T    int64
	CS   int
	Rows []struct {
		Row int
		Sp  *tmRowSpec
	}
}

type tmCase struct {
	Evs      []tmEv
	PESs     []tmPES
	Insts    []tmInstSpec
	Mag, PN  int
	SpecOK   bool // the case can be expressed as schedule x multiplexing x PES grouping of the Coq specification
	Page     int  // option handed to the reader (0: auto-detect)
	Ds       []tmDelivery
	Want     []tmCue
	Human    map[string]interface{}
	Oracle   bool // false: correspondence only (the stream leaves the property's quantifier)
	Monotone bool
}

func genTmCase(r *rng, wild bool) *tmCase {
	kinds := map[string]int{}
	mag, page := 1+r.intn(8), r.intn(100)
	serial := r.chance(1, 2)
	auto := r.chance(1, 3)
	charsets := []int{0, 1, 4, 7}
	charset := charsets[r.intn(4)]
	perInstance := r.chance(1, 3)
	parityCase := r.chance(1, 5)
	pesNoise := r.chance(1, 3) // deliveries without time, with another data identifier, empty or truncated
	tmDesignations = r.chance(1, 4)
	tc := &tmCase{Oracle: true, Monotone: true, SpecOK: true, Mag: mag, PN: page}
	if !auto {
		tc.Page = mag*100 + page
	}
	// PES assembly
	var cur []byte
	t := int64(r.intn(5000))
	ident := func() byte { return byte(0x10 + r.intn(16)) }
	sect, pending := 0, 0 // section of the multiplexing being generated (event kind of a plain emit); events in the open PES
	flush := func() {
		if cur != nil {
			id := ident()
			var trail []byte
			if pesNoise && r.chance(1, 8) {
				// the last unit of the payload is cut short
				kinds["pes-truncated-unit"]++
				u := rowPacket(mag, 4, []byte("\x0bTRUNCATED\x0a"))
				trail = u[:r.intn(len(u))]
			}
			tc.Ds = append(tc.Ds, tmDelivery{T: t, Data: append(append([]byte{id}, cur...), trail...)})
			tc.PESs = append(tc.PESs, tmPES{T: t, Ident: id, N: pending, Raw: trail})
			cur, pending = nil, 0
		}
	}
	record := func(kind int, u []byte) {
		tc.Evs = append(tc.Evs, tmEv{T: t, Kind: kind, U: append([]byte{}, u...)})
		pending++
	}
	maybeSplit := func() {
		if r.chance(1, 3) {
			flush()
			if r.chance(2, 3) {
				t += int64(r.intn(400))
			}
			// deliveries that are dropped or carry no units at all
			if !pesNoise {
				return
			}
			if r.chance(1, 8) {
				kinds["pes-without-time"]++
				d := []byte{ident()}
				d = append(d, tmHeaderUnit(r, tmHeader{mag: mag, tens: page / 10, units: page % 10, subtitle: true, serial: serial})...)
				d = append(d, rowPacket(mag, 3, []byte("\x0bNO TIME\x0a"))...)
				tc.Ds = append(tc.Ds, tmDelivery{T: -1, Data: d})
				tc.PESs = append(tc.PESs, tmPES{Kind: 1, Raw: d})
			}
			if r.chance(1, 8) {
				kinds["pes-other-identifier"]++
				d := []byte{[]byte{0x00, 0x0f, 0x20, 0x99, 0xff}[r.intn(5)]}
				d = append(d, tmHeaderUnit(r, tmHeader{mag: mag, tens: page / 10, units: page % 10, subtitle: true, serial: serial})...)
				d = append(d, rowPacket(mag, 3, []byte("\x0bNOT EBU\x0a"))...)
				tc.Ds = append(tc.Ds, tmDelivery{T: t, Data: d})
				tc.PESs = append(tc.PESs, tmPES{Kind: 2, T: t, Raw: d})
			}
			if r.chance(1, 12) {
				kinds["pes-empty"]++
				tc.Ds = append(tc.Ds, tmDelivery{T: t, Data: nil})
				tc.PESs = append(tc.PESs, tmPES{Kind: 2, T: t})
			}
			if r.chance(1, 12) {
				kinds["pes-truncated-unit"]++
				u := rowPacket(mag, 4, []byte("\x0bTRUNCATED\x0a"))
				id := ident()
				tr := u[:r.intn(len(u))]
				tc.Ds = append(tc.Ds, tmDelivery{T: t, Data: append([]byte{id}, tr...)})
				tc.PESs = append(tc.PESs, tmPES{T: t, Ident: id, Raw: tr})
			}
		}
	}
	emit := func(u []byte) {
		if u != nil {
			record(sect, u)
		}
		cur = append(cur, u...)
		maybeSplit()
	}
	noise := func(p int) {
		for r.chance(p, 10) {
			emit(tmBenign(r, mag, kinds))
		}
	}
	// headers of other pages.  While the selection is pending (auto-detection) none of them carries the
	// subtitle flag.
	selected := !auto
	otherHeader := func(sameMag bool, ser bool, differ bool) []byte {
		h := tmHeader{serial: ser, charset: r.intn(8), junk: uint32(r.u64()), subtitle: selected && r.chance(1, 2)}
		if sameMag {
			h.mag = mag
			p := r.intn(100)
			if p == page {
				p = (p + 1 + r.intn(98)) % 100
			}
			h.tens, h.units = p/10, p%10
			if r.chance(1, 4) {
				// a page with hexadecimal digits (not displayable: data pages) is another page all the same
				kinds["header-hex-page"]++
				h.tens, h.units = r.intn(16), 10+r.intn(6)
				if r.chance(1, 2) {
					h.tens, h.units = 10+r.intn(6), r.intn(16)
				}
				if h.tens == 15 && h.units == 15 {
					h.units = 14
				}
				if page >= 10 && page%10 <= 5 && r.chance(1, 2) {
					h.tens, h.units = page/10-1, page%10+10 // tens*10+units equals our page number
				}
			}
		} else {
			h.mag = otherMag(r, mag)
			p := r.intn(100) // may equal the selected page number: another magazine's page all the same
			if differ && p == page {
				p = (p + 1 + r.intn(98)) % 100
			}
			h.tens, h.units = p/10, p%10
		}
		return tmHeaderUnit(r, h)
	}
	// a stretch during which nothing is being received for the selected page: anything but its header
	dead := func() {
		for r.chance(6, 10) {
			switch r.intn(4) {
			case 0:
				kinds["dead-row-selected-magazine"]++
				emit(tmRowUnit(r, mag, 1+r.intn(25), []byte(tmTexts[r.intn(len(tmTexts))])))
			case 1:
				kinds["dead-header-other-page"]++
				emit(otherHeader(r.chance(1, 2), serial, false))
			default:
				emit(tmBenign(r, mag, kinds))
			}
		}
	}
	type open struct {
		start int64
		rows  map[int][]tmRun
	}
	var op *open
	closeOpen := func(end int64) {
		if op == nil {
			return
		}
		if len(op.rows) > 0 {
			c := tmCue{Start: op.start, End: end}
			for row := 1; row <= 25; row++ {
				if runs, ok := op.rows[row]; ok && len(runs) > 0 {
					c.Lines = append(c.Lines, runs)
				}
			}
			tc.Want = append(tc.Want, c)
		}
		op = nil
	}
	dead() // before the first instance
	n := 1 + r.intn(5)
	for i := 0; i < n; i++ {
		cs := charset
		if perInstance {
			cs = charsets[r.intn(4)]
		}
		// the header of the selected page begins an instance
		emit(nil) // possibly a new PES first
		closeOpen(t)
		op = &open{start: t, rows: map[int][]tmRun{}}
		kinds["instance"]++
		hu := tmHeaderUnit(r, tmHeader{mag: mag, tens: page / 10, units: page % 10, subtitle: !selected || r.chance(2, 3), serial: serial, charset: cs, junk: uint32(r.u64())})
		record(1, hu)
		sect = 3
		tc.Insts = append(tc.Insts, tmInstSpec{T: t, CS: cs})
		cur = append(cur, hu...)
		selected = true
		maybeSplit()
		if r.chance(1, 6) {
			kinds["erase-page"]++
		} else {
			used := map[int]bool{}
			for k := 1 + r.intn(4); k > 0; k-- {
				noise(3)
				if !serial && r.chance(1, 3) {
					// parallel mode: pages of other magazines are interleaved with ours
					kinds["parallel-header-other-magazine"]++
					emit(otherHeader(false, false, false))
					noise(2)
				}
				if r.chance(1, 10) {
					// a page of another magazine with our page number does not end reception in either mode
					kinds["header-same-number-other-magazine"]++
					h := tmHeader{mag: otherMag(r, mag), tens: page / 10, units: page % 10, serial: serial, subtitle: r.chance(1, 2), charset: r.intn(8), junk: uint32(r.u64())}
					emit(tmHeaderUnit(r, h))
				}
				row := 1 + r.intn(24)
				if used[row] {
					continue
				}
				used[row] = true
				cells, runs, rsp := tmRow(r, cs)
				u := tmRowUnit(r, mag, row, cells)
				if parityCase && r.chance(1, 2) {
					// a cell failing parity: it reaches the row parser as 0x00
					limit := 40
					if j := bytes.IndexByte(cells, 0x0a); j >= 0 {
						limit = j + 1 // up to and including the end box
					}
					stored := append([]byte{}, cells...)
					hit := map[int]bool{}
					for n := 1 + r.intn(3); n > 0; n-- {
						k := r.intn(limit)
						if hit[k] {
							continue // already damaged: a second flipped bit would pass the parity check
						}
						hit[k] = true
						kinds["parity-error"]++
						u[6+k] = flipBit(r, u[6+k])
						stored[k] = 0
					}
					tc.Oracle = false // the expected runs of the Go ground truth are computed for intact cells
					// for the Coq specification the row is what its stored cells say
					if rsp = tmTokenize(stored); rsp == nil {
						tc.SpecOK = false
						rsp = &tmRowSpec{}
					}
				}
				kinds["row"]++
				op.rows[row] = runs
				in := &tc.Insts[len(tc.Insts)-1]
				in.Rows = append(in.Rows, struct {
					Row int
					Sp  *tmRowSpec
				}{row, rsp})
				sect = 2
				emit(u)
				sect = 3
			}
			noise(3)
		}
		// the instance may be cut short by the header of another page; what follows is not ours
		if r.chance(1, 3) {
			kinds["terminator"]++
			sect = 4
			if serial && r.chance(1, 2) {
				emit(otherHeader(false, true, true)) // serial mode: any other page
			} else {
				emit(otherHeader(true, serial, true))
			}
			sect = 5
			dead()
		}
		flush()
		t += int64(1 + r.intn(4000))
	}
	flush()
	if r.chance(1, 4) {
		// trailing deliveries move the last presentation time
		t += int64(1 + r.intn(3000))
		kinds["trailing-pes"]++
		cur = nil
		emitTrail := tmBenign(r, mag, kinds)
		record(sect, emitTrail)
		cur = append(cur, emitTrail...)
		flush()
	}
	var first, last int64 = -1, -1
	for _, d := range tc.Ds {
		if d.T < 0 {
			continue
		}
		if first < 0 || d.T < first {
			first = d.T
		}
		if d.T > last {
			last = d.T
		}
	}
	closeOpen(last)
	for i := range tc.Want {
		tc.Want[i].Start = (tc.Want[i].Start - first) * 1e6
		tc.Want[i].End = (tc.Want[i].End - first) * 1e6
	}
	if kinds["X/28,M/29 designation"] > 0 {
		tc.Oracle = false // the harness's own national tables cover the default designation only
	}
	tmDesignations = false
	tc.Human = map[string]interface{}{"magazine": mag, "page": page, "serial": serial, "auto_detect": auto, "charset": charset,
		"charset_per_instance": perInstance, "deliveries": len(tc.Ds), "kinds": kinds, "expected_cues": tc.Want}
	if wild {
		// leave the property's quantifier: character set designations through X/28 and M/29, duplicated rows,
		// control codes inside the box, several boxes per row, non-monotone times, hex page digits: the model
		// must still agree with the implementation
		tc.Oracle = false
		tc.Monotone = false
		for k := 1 + r.intn(4); k > 0 && len(tc.Ds) > 0; k-- {
			i := r.intn(len(tc.Ds))
			d := &tc.Ds[i]
			switch r.intn(6) {
			case 0:
				pk := 28 + r.intn(2)
				dc := []uint8{0, 4, 0, 4, 1}[r.intn(5)]
				u := dataUnit(0x03, mag, pk, append([]byte{ham84(dc)}, designationTriplet(r, r.intn(16), r.chance(3, 4), map[string]int{})...))
				if r.chance(1, 6) {
					u = dataUnit(0x03, mag, pk, []byte{ham84(dc), byte(r.intn(256)), byte(r.intn(256)), byte(r.intn(256))})
				}
				if len(d.Data) == 0 {
					d.Data = []byte{0x10}
				}
				if r.chance(1, 2) {
					d.Data = append(d.Data, u...)
				} else {
					d.Data = append(append([]byte{d.Data[0]}, u...), d.Data[1:]...)
				}
			case 1:
				var cells []byte
				for j := 0; j < 40; j++ {
					if r.chance(1, 3) {
						cells = append(cells, byte(r.intn(0x20)))
					} else {
						cells = append(cells, byte(0x20+r.intn(0x60)))
					}
				}
				if len(d.Data) == 0 {
					d.Data = []byte{0x10}
				}
				d.Data = append(d.Data, rowPacket(mag, 1+r.intn(25), cells)...)
			case 2:
				d.T = int64(r.intn(9000))
			case 3:
				if len(d.Data) > 1 {
					j := 1 + r.intn(len(d.Data)-1)
					d.Data[j] = byte(r.intn(256))
				}
			case 4:
				h := tmHeader{mag: mag, tens: r.intn(16), units: r.intn(16), serial: r.chance(1, 2), subtitle: r.chance(1, 2), charset: r.intn(8)}
				if len(d.Data) == 0 {
					d.Data = []byte{0x10}
				}
				d.Data = append(d.Data, tmHeaderUnit(r, h)...)
			default:
				if len(d.Data) > 2 {
					d.Data = d.Data[:1+r.intn(len(d.Data)-1)]
				}
			}
		}
		tc.Human["wild"] = true
	}
	return tc
}

// the case as schedule x multiplexing x PES grouping, for the extracted specification (suite ttxspec)
func (tc *tmCase) specInput() (string, bool) {
	e := &enc{}
	ok := tc.SpecOK
	unit := func(u []byte) {
		if len(u) < 2 || int(u[1]) != len(u)-2 {
			ok = false
			e.n(0).n(0)
			return
		}
		e.n(int(u[0])).bytes(u[2:])
	}
	e.bool(tc.Page == 0).n(tc.Mag).n(tc.PN)
	e.n(len(tc.Insts))
	for _, in := range tc.Insts {
		e.i(in.T * 1e6).n(in.CS).n(len(in.Rows))
		for _, rw := range in.Rows {
			e.n(rw.Row).bytes(rw.Sp.Pre).n(rw.Sp.Boxes).n(len(rw.Sp.Segs))
			for _, g := range rw.Sp.Segs {
				e.bytes(g.Codes).bytes(g.Cells)
			}
			e.bool(rw.Sp.HasEnd)
			if rw.Sp.HasEnd {
				e.bytes(rw.Sp.End)
			}
		}
	}
	i := 0
	var pre []tmEv
	for i < len(tc.Evs) && tc.Evs[i].Kind == 0 {
		pre = append(pre, tc.Evs[i])
		i++
	}
	e.n(len(pre))
	for _, ev := range pre {
		e.i(ev.T * 1e6)
		unit(ev.U)
	}
	e.n(len(tc.Insts))
	for range tc.Insts {
		if i >= len(tc.Evs) || tc.Evs[i].Kind != 1 {
			return "", false
		}
		unit(tc.Evs[i].U)
		i++
		j := i
		for j < len(tc.Evs) && (tc.Evs[j].Kind == 2 || tc.Evs[j].Kind == 3) {
			j++
		}
		e.n(j - i)
		for ; i < j; i++ {
			e.i(tc.Evs[i].T * 1e6).bool(tc.Evs[i].Kind == 2)
			unit(tc.Evs[i].U)
		}
		if i < len(tc.Evs) && tc.Evs[i].Kind == 4 {
			e.n(1).i(tc.Evs[i].T * 1e6)
			unit(tc.Evs[i].U)
			i++
			j = i
			for j < len(tc.Evs) && tc.Evs[j].Kind == 5 {
				j++
			}
			e.n(j - i)
			for ; i < j; i++ {
				e.i(tc.Evs[i].T * 1e6)
				unit(tc.Evs[i].U)
			}
		} else {
			e.n(0)
		}
	}
	if i != len(tc.Evs) {
		return "", false
	}
	e.n(len(tc.PESs))
	for _, p := range tc.PESs {
		switch p.Kind {
		case 0:
			e.n(0).i(p.T * 1e6).n(int(p.Ident)).n(p.N).bytes(p.Raw)
		case 1:
			e.n(1).bytes(p.Raw)
		default:
			e.n(2).i(p.T * 1e6).bytes(p.Raw)
		}
	}
	return e.String(), ok
}

// ---- observation ------------------------------------------------------------------------------------------------

func tmTime(ms int64) time.Time {
	if ms < 0 {
		return time.Time{}
	}
	return time.Unix(0, ms*1e6)
}

func tmInput(page int, ds []tmDelivery) string {
	e := &enc{}
	e.n(page)
	e.n(len(ds))
	for _, d := range ds {
		if d.T < 0 {
			e.n(0)
		} else {
			e.n(1).i(d.T * 1e6)
		}
		e.bytes(d.Data)
	}
	return e.String()
}

var tmColors = []*astisub.Color{astisub.ColorBlack, astisub.ColorRed, astisub.ColorGreen, astisub.ColorYellow, astisub.ColorBlue, astisub.ColorMagenta, astisub.ColorCyan, astisub.ColorWhite}

func tmCuesFromSubs(s *astisub.Subtitles) []tmCue {
	b3 := func(p *bool) int {
		if p == nil {
			return -1
		}
		if *p {
			return 1
		}
		return 0
	}
	var out []tmCue
	for _, it := range s.Items {
		c := tmCue{Start: int64(it.StartAt), End: int64(it.EndAt)}
		for _, l := range it.Lines {
			var runs []tmRun
			for _, li := range l.Items {
				ru := tmRun{Text: li.Text, Color: -1, DH: -1, DS: -1, DW: -1, SB: -1, SA: -1}
				if sa := li.InlineStyle; sa != nil {
					if sa.TeletextColor != nil {
						ru.Color = 99
						for k, c := range tmColors {
							if c == sa.TeletextColor {
								ru.Color = k
							}
						}
					}
					ru.DH, ru.DS, ru.DW = b3(sa.TeletextDoubleHeight), b3(sa.TeletextDoubleSize), b3(sa.TeletextDoubleWidth)
					if sa.TeletextSpacesBefore != nil {
						ru.SB = *sa.TeletextSpacesBefore
					}
					if sa.TeletextSpacesAfter != nil {
						ru.SA = *sa.TeletextSpacesAfter
					}
				}
				runs = append(runs, ru)
			}
			c.Lines = append(c.Lines, runs)
		}
		out = append(out, c)
	}
	return out
}

func tmEncode(cs []tmCue) string {
	e := &enc{}
	e.n(0)
	e.n(len(cs))
	for _, c := range cs {
		e.i(c.Start).i(c.End)
		e.n(len(c.Lines))
		for _, l := range c.Lines {
			e.n(len(l))
			for _, ru := range l {
				e.str(ru.Text).opt(ru.Color).n(ru.DH + 1).n(ru.DS + 1).n(ru.DW + 1).n(ru.SB).n(ru.SA)
			}
		}
	}
	return e.String()
}

// the property's observables: times, lines, run texts, colour and size attributes
func tmCuesEqual(got, want []tmCue) string {
	if len(got) != len(want) {
		return fmt.Sprintf("%d cues, want %d", len(got), len(want))
	}
	for i := range want {
		if got[i].Start != want[i].Start || got[i].End != want[i].End {
			return fmt.Sprintf("cue %d: [%d,%d) ms, want [%d,%d) ms", i+1, got[i].Start/1e6, got[i].End/1e6, want[i].Start/1e6, want[i].End/1e6)
		}
		if len(got[i].Lines) != len(want[i].Lines) {
			return fmt.Sprintf("cue %d: %d lines, want %d", i+1, len(got[i].Lines), len(want[i].Lines))
		}
		for l := range want[i].Lines {
			g, w := got[i].Lines[l], want[i].Lines[l]
			if len(g) != len(w) {
				return fmt.Sprintf("cue %d line %d: %d runs, want %d", i+1, l+1, len(g), len(w))
			}
			for k := range w {
				if g[k].Text != w[k].Text {
					return fmt.Sprintf("cue %d line %d run %d: text %q, want %q", i+1, l+1, k+1, g[k].Text, w[k].Text)
				}
				if g[k].Color != w[k].Color || g[k].DH != w[k].DH || g[k].DS != w[k].DS || g[k].DW != w[k].DW {
					return fmt.Sprintf("cue %d line %d run %d (%q): colour/double height/size/width %d/%d/%d/%d, want %d/%d/%d/%d", i+1, l+1, k+1, w[k].Text,
						g[k].Color, g[k].DH, g[k].DS, g[k].DW, w[k].Color, w[k].DH, w[k].DS, w[k].DW)
				}
			}
		}
	}
	return ""
}

func tmFeedObs(group string, page int, ds []tmDelivery, want []tmCue, oracle bool, human map[string]interface{}) *obs {
	o := &obs{Suite: "ttxfeed", Group: group, Input: tmInput(page, ds), Human: human}
	var vs []astisub.VerifTeletextDelivery
	for _, d := range ds {
		vs = append(vs, astisub.VerifTeletextDelivery{Payload: d.Data, Time: tmTime(d.T)})
	}
	var s *astisub.Subtitles
	res := guarded(func() { s = astisub.VerifTeletextFeed(page, vs) }, 10e9)
	switch {
	case res != "":
		o.Impl, o.Oracle, o.Sig = "2", "teletext page buffer: "+res, "ttx-feed-panic"+siteOf(res)
	default:
		got := tmCuesFromSubs(s)
		o.Impl = tmEncode(got)
		if oracle {
			if m := tmCuesEqual(got, want); m != "" {
				o.Oracle, o.Sig = "teletext page buffer: "+m, "ttx-feed-value"
			}
		}
	}
	return o
}

// the same deliveries through the astits muxer and the public reader
func tmTS(pid uint16, ds []tmDelivery) ([]byte, error) {
	var out bytes.Buffer
	m := astits.NewMuxer(context.Background(), &out)
	desc := &astits.Descriptor{Tag: astits.DescriptorTagTeletext, Length: 5, Teletext: &astits.DescriptorTeletext{Items: []*astits.DescriptorTeletextItem{{Language: []byte("eng"), Type: 2, Magazine: 1, Page: 0}}}}
	if err := m.AddElementaryStream(astits.PMTElementaryStream{ElementaryPID: pid, StreamType: astits.StreamTypePrivateData, ElementaryStreamDescriptors: []*astits.Descriptor{desc}}); err != nil {
		return nil, err
	}
	m.SetPCRPID(pid)
	if _, err := m.WriteTables(); err != nil {
		return nil, err
	}
	for _, d := range ds {
		if d.T < 0 {
			continue // cannot be expressed as a PES packet with a PTS; dropped by the reader anyway (a PES packet without
			// payload is not delivered by the demuxer at all: such cases are not muxed)
		}
		_, err := m.WriteData(&astits.MuxerData{PID: pid, PES: &astits.PESData{
			Header: &astits.PESHeader{StreamID: astits.StreamIDPrivateStream1, OptionalHeader: &astits.PESOptionalHeader{
				MarkerBits: 2, PTSDTSIndicator: astits.PTSDTSIndicatorOnlyPTS, PTS: &astits.ClockReference{Base: d.T * 90}}},
			Data: d.Data}})
		if err != nil {
			return nil, err
		}
	}
	return out.Bytes(), nil
}

// the reader's Hamming 24/18 decoder (hook) against the Coq one (Model/TtxHam.v), and the harness's encoder against
// the Coq encoder: code words, every single and double error of sampled code words, random 24-bit words
func suiteTeletextHamming(R *runner, r *rng) {
	R.rule("Hamming 24/18: teletextHamming2418Decode (hook) vs the Coq decoder on code words of random data, on all 24 single and sampled double errors of them and on random 24-bit words; the harness's encoder vs the Coq encoder; non-trivial = the word decodes")
	N := 40
	if R.tier == "thorough" {
		N = 600
	}
	one := func(w uint32, group string) {
		v := astisub.VerifTeletextHamming2418(byte(w), byte(w>>8), byte(w>>16))
		R.add(&obs{Suite: "ttxham", Group: group, Input: (&enc{}).i(int64(w)).String(), Impl: (&enc{}).opt(v).String(), NT: v >= 0})
	}
	for c := 0; c < N; c++ {
		d := uint32(r.intn(1 << 18))
		w := ham2418Word(d)
		R.add(&obs{Suite: "ttxhamenc", Group: "ttx.ham.enc", Input: (&enc{}).i(int64(d)).String(), Impl: (&enc{}).i(int64(w)).String(), NT: true})
		one(w, "ttx.ham.codeword")
		for p := uint(0); p < 24; p++ {
			one(w^1<<p, "ttx.ham.single")
			q := (p + 1 + uint(r.intn(23))) % 24
			one(w^1<<p^1<<q, "ttx.ham.double")
		}
		for k := 0; k < 20; k++ {
			one(uint32(r.intn(1<<24)), "ttx.ham.random")
		}
	}
}

func suiteTeletextModel(R *runner, r *rng) {
	R.rule("teletext feeder: ground-truth schedules (1..5 instances of one page in magazines 1..8, 1..4 distinct rows at 1..24, boxed text over G0 incl. the national option positions of the English/French/German sets and of option code 7, option changing between instances, colour and size codes in front of and inside the box, unboxed junk, erase pages, presentation times) x multiplexing (PES boundaries anywhere, data identifiers 0x10..0x1f, in serial and parallel mode: headers of other magazines between our rows (parallel), same page number in another magazine, terminating headers of other pages of the same magazine / of any magazine (serial) followed by rows of our magazine, pages with hexadecimal digits incl. those whose weighted sum equals our page number, stuffing / non-subtitle / wrong-framing / short units, uncorrectable and corrected Hamming bytes, rows of other magazines, X/26 X/27 X/28 M/29 X/30 X/31, time-filling headers, PES without time / with another data identifier / empty / truncated, trailing PES) x reader option (page given or auto-detected); the Coq model ttx_feed vs the hook VerifTeletextFeed on the same delivered list (all observables incl. spaces before/after), the schedule oracle on the hook's result and, for a third of the cases, on ReadFromTeletext over the astits-muxed stream; the same case re-expressed as schedule x multiplexing x PES grouping of the Coq specification: incl. the PES-level noise (packets without time, foreign data identifier, empty payload, truncated last unit) and rows with 1..3 parity-damaged cells (the row's specification is then read off its stored cells); the extracted mux_ok / mux_ok_auto decides membership in the class of the stream theorems (outside it: counted, class comparison only; not submitted: a row whose only start box was destroyed) and the extracted cues_of must equal the implementation's result; 'wild' cases (character set designations, duplicated rows, control codes, hex page digits, non-monotone times, byte noise, truncation) and hostile payloads: model vs implementation only; non-trivial = at least one cue expected (generated) / at least one delivery (hostile)")
	N, H := 900, 1500
	if R.tier == "thorough" {
		N, H = 12000, 20000
	}
	for c := 0; c < N; c++ {
		tc := genTmCase(r, c%4 == 3)
		group := "ttx.feed"
		if !tc.Oracle {
			group = "ttx.feed.modelonly"
		}
		o := tmFeedObs(group, tc.Page, tc.Ds, tc.Want, tc.Oracle, tc.Human)
		o.NT = len(tc.Want) > 0
		for k, v := range tc.Human["kinds"].(map[string]int) {
			R.countN("ttx.feed.kind."+k, v)
		}
		R.countN("ttx.feed.cues", len(tc.Want))
		R.add(o)
		if in, ok := tc.specInput(); ok && c%4 != 3 {
			// the same case as a ground-truth schedule and a multiplexing of the Coq specification: is it in the class
			// mux_ok of the stream theorems, and does cues_of (extracted) say what the implementation returned?
			R.count("ttx.spec.submitted")
			R.add(&obs{Suite: "ttxspec", Group: "ttx.spec", Input: in, Impl: o.Impl, NT: len(tc.Want) > 0, Human: tc.Human})
		}
		if tc.Oracle && c%3 == 0 && tc.Human["kinds"].(map[string]int)["pes-empty"] == 0 {
			// the whole path: muxer, demuxer, PID detection, ReadFromTeletext
			pid := uint16(256 + r.intn(20))
			ts, err := tmTS(pid, tc.Ds)
			if err != nil {
				R.note("muxer error: " + err.Error())
				continue
			}
			opts := astisub.TeletextOptions{Page: tc.Page}
			if r.chance(1, 2) {
				opts.PID = int(pid)
			}
			var s *astisub.Subtitles
			var rerr error
			res := guarded(func() { s, rerr = astisub.ReadFromTeletext(bytes.NewReader(ts), opts) }, 10e9)
			o2 := &obs{Suite: "ttx", Group: "ttx.feed.stream", NoModel: true, NT: len(tc.Want) > 0, Input: fmt.Sprintf("ttxfeed-ts %d %s", c, hashBytes(ts)), Human: tc.Human}
			switch {
			case res != "":
				o2.Oracle, o2.Sig = "ReadFromTeletext: "+res, "ttx-panic"+siteOf(res)
			case rerr != nil:
				o2.Oracle, o2.Sig = "ReadFromTeletext failed on a well-formed stream: "+rerr.Error(), "ttx-error"
			default:
				if m := tmCuesEqual(tmCuesFromSubs(s), tc.Want); m != "" {
					o2.Oracle, o2.Sig = "teletext reader: "+m, "ttx-value"
				}
			}
			R.add(o2)
		}
	}
	ttxHostile(R, r, H)
}

// hostile payloads: arbitrary bytes, mutated valid payloads, splices (model vs the library's page-buffer loop; also run
// under C08, whose teletext totality theorem is about this model)
func suiteTeletextHostile(R *runner, r *rng) {
	R.rule("teletext feeder on hostile delivered lists (random bytes, random units with plausible framing/addresses, benign units, mutated/truncated valid payloads, odd page options): the Coq model ttx_feed vs VerifTeletextFeed, value-compared; a panic of the library is an oracle failure")
	H := 1500
	if R.tier == "thorough" {
		H = 20000
	}
	ttxHostile(R, r, H)
}

func ttxHostile(R *runner, r *rng, H int) {
	for c := 0; c < H; c++ {
		var ds []tmDelivery
		page := 0
		if r.chance(1, 2) {
			page = []int{100, 888, 199, 801, 25600, -101, 1, 99, 12345}[r.intn(9)]
		}
		base := genTmCase(r, true)
		if r.chance(1, 2) {
			page = base.Page
		}
		t := int64(r.intn(3000))
		for k := 1 + r.intn(5); k > 0; k-- {
			var data []byte
			switch r.intn(5) {
			case 0:
				data = make([]byte, r.intn(120))
				for i := range data {
					data[i] = byte(r.intn(256))
				}
				if len(data) > 0 && r.chance(3, 4) {
					data[0] = 0x10
				}
			case 1:
				data = []byte{0x10}
				for u := r.intn(4); u >= 0; u-- {
					n := r.intn(60)
					data = append(data, []byte{0x03, 0x02, 0xff}[r.intn(3)], byte(n))
					for i := 0; i < n; i++ {
						switch {
						case i == 1 && r.chance(3, 4):
							data = append(data, 0xe4)
						case (i == 2 || i == 3) && r.chance(3, 4):
							data = append(data, ham84(uint8(r.intn(16))))
						default:
							data = append(data, byte(r.intn(256)))
						}
					}
				}
			case 2:
				data = append([]byte{0x10}, tmBenign(r, 1+r.intn(8), map[string]int{})...)
			default:
				if len(base.Ds) > 0 {
					d := base.Ds[r.intn(len(base.Ds))]
					data = append([]byte{}, d.Data...)
					for m := r.intn(4); m > 0 && len(data) > 0; m-- {
						i := r.intn(len(data))
						switch r.intn(3) {
						case 0:
							data[i] = byte(r.intn(256))
						case 1:
							data = data[:i]
						default:
							data = append(data[:i], data[i+1:]...)
						}
					}
				}
			}
			tt := t
			if r.chance(1, 10) {
				tt = -1
			}
			ds = append(ds, tmDelivery{T: tt, Data: data})
			t += int64(r.intn(2000)) - 300
			if t < 0 {
				t = 0
			}
		}
		o := tmFeedObs("ttx.feed.hostile", page, ds, nil, false, map[string]interface{}{"page": page, "deliveries": len(ds)})
		o.NT = len(ds) > 0
		R.add(o)
	}
}
