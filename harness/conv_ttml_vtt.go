package main

// C07, styled sources, TTML -> WebVTT (coq/Model/ConvTtmlVtt.v, theorem C07_ttml_to_vtt_styled): the library's WebVTT
// bytes for a TTML source against the model's convert_ttml_vtt (driver suite convttmlvtt), on the styled TTML documents
// of suiteConvertPlainStyled and on documents of a generator of its own (genTtmlForVtt) that exercises everything
// propagateTTMLAttributes looks at: tts:origin / tts:extent in every shape the code distinguishes (two components, one,
// three, several blanks, blanks at the ends, per-cent and other units, signs, fractions, values beyond int64, the
// per-cent sign anywhere), tts:writingMode (tb... and others), tts:textAlign, on regions, styles and paragraphs, with the
// one-level fall-back region -> style and paragraph -> style, spans with tts:color among and outside the five colours of
// cssColor (any letter case), spans referencing styles, bare text, line breaks.  Oracle: the destination read back by
// the library has the source's cues (count, order, times to the millisecond, per line Line.String()).

import (
	"bytes"
	"fmt"
	"strings"

	astisub "github.com/asticode/go-astisub"
)

func init() {
	styledConvSuites["ttml->vtt"] = "convttmlvtt"
	styledConvOracle["ttml->vtt"] = oracleTtmlVttText
}

// the text survives: cue count, times (ms) and per line the run texts put together
func oracleTtmlVttText(src *astisub.Subtitles, dst []byte) string {
	back, err := astisub.ReadFromWebVTT(bytes.NewReader(dst))
	if err != nil {
		return "the destination cannot be read back: " + err.Error()
	}
	if len(back.Items) != len(src.Items) {
		return fmt.Sprintf("%d cues read back, %d in the source", len(back.Items), len(src.Items))
	}
	for i, it := range src.Items {
		b := back.Items[i]
		if int64(b.StartAt) != int64(it.StartAt)-int64(it.StartAt)%1e6 || int64(b.EndAt) != int64(it.EndAt)-int64(it.EndAt)%1e6 {
			return fmt.Sprintf("cue %d: times %v-%v read back as %v-%v", i+1, it.StartAt, it.EndAt, b.StartAt, b.EndAt)
		}
		if len(b.Lines) != len(it.Lines) {
			return fmt.Sprintf("cue %d: %d lines read back, %d in the source", i+1, len(b.Lines), len(it.Lines))
		}
		for j := range it.Lines {
			if b.Lines[j].String() != it.Lines[j].String() {
				return fmt.Sprintf("cue %d line %d: %q read back as %q", i+1, j+1, it.Lines[j].String(), b.Lines[j].String())
			}
		}
	}
	return ""
}

var tvColours = []string{"#00ffff", "#FFFF00", "#ff0000", "#Ff00fF", "#00FF00", "#00ffff", "#ff0000", "white", "#ffffff", "red", "#ff000", "", "#0000ff"}
var tvOrigins = []string{"10% 80%", "0% 85%", "12.5% 7%", "10%", "10% 20% 30%", "10%  20%", " 10% 20%", "10% 20% ", "", " ", "5px 7px", "auto", "10%,20%"}
var tvExtents = []string{"80% 10%", "100% 15%", "80% 12%", "80% 10.5%", "80% +12%", "80% -12%", "80% 0%", "80% 4%", "80% 5%", "80%  12%", "80%", "", "1 2 3", "640px 48px", "80% 1%2%", "80% %", "80% 99999999999999999999%", "80% 9223372036854775807", "auto auto", "80% 0x10", "80% 1_0"}
var tvModes = []string{"lrtb", "tb", "tbrl", "tblr", "rltb", "TB", "t", ""}
var tvAligns = []string{"center", "left", "right", "start", "end", ""}
var tvWords = []string{"alpha", "beta gamma", "Hello", "World", "a &amp; b", "1 &lt; 2", "déjà vu", "x&#233;y", "quick fox", "No", "it's", "3 > 2", "say &quot;hi&quot;", "é"}

// a TTML document inside the faithful domain of the XML parser model (no comment, no CR, no character reference to white
// space, no line break inside a tag), every text line non-empty without white space at its ends
func genTtmlForVtt(r *rng, R *runner) []byte {
	var b strings.Builder
	q := func(v string) string {
		if !strings.ContainsAny(v, "'") && r.chance(1, 6) {
			return "'" + v + "'"
		}
		return "\"" + v + "\""
	}
	b.WriteString("<?xml version=\"1.0\" encoding=\"UTF-8\"?>\n<tt xmlns=\"http://www.w3.org/ns/ttml\" xmlns:tts=\"http://www.w3.org/ns/ttml#styling\"" + r.pick("", " xml:lang=\"en\"", " xml:lang=\"fr-FR\"") + ">\n<head>\n")
	// the attributes propagateTTMLAttributes reads, each with probability p/6, plus bystanders
	layoutAttrs := func(p int, what string) string {
		s := ""
		if r.chance(p, 6) {
			v := tvOrigins[r.intn(len(tvOrigins))]
			s += " tts:origin=" + q(v)
			R.count("conv.ttml->vtt." + what + ".origin." + fmt.Sprint(len(strings.Split(v, " "))) + "_components")
		}
		if r.chance(p, 6) {
			v := tvExtents[r.intn(len(tvExtents))]
			s += " tts:extent=" + q(v)
			R.count("conv.ttml->vtt." + what + ".extent." + fmt.Sprint(len(strings.Split(v, " "))) + "_components")
		}
		if r.chance(p, 8) {
			v := tvModes[r.intn(len(tvModes))]
			s += " tts:writingMode=" + q(v)
			if strings.HasPrefix(v, "tb") {
				R.count("conv.ttml->vtt." + what + ".writingMode.tb")
			} else {
				R.count("conv.ttml->vtt." + what + ".writingMode.other")
			}
		}
		if r.chance(p, 8) {
			s += " tts:textAlign=" + q(tvAligns[r.intn(len(tvAligns))])
			R.count("conv.ttml->vtt." + what + ".textAlign")
		}
		if r.chance(1, 5) {
			s += " tts:displayAlign=\"after\""
		}
		if r.chance(1, 8) {
			s += " tts:zIndex=\"" + r.pick("1", "-3", " 2 ") + "\""
		}
		return s
	}
	ns := r.intn(5)
	nr := r.intn(5)
	regionIDs := make([]string, nr)
	b.WriteString("<styling>")
	for i := 0; i < ns; i++ {
		parent := ""
		if i > 0 && r.chance(1, 3) {
			parent = fmt.Sprintf(" style=\"s%d\"", r.intn(i))
		}
		id := fmt.Sprintf("s%d", i)
		if i > 0 && r.chance(1, 12) {
			id = fmt.Sprintf("s%d", r.intn(i)) // a duplicate identifier: the later element replaces the earlier one
			R.count("conv.ttml->vtt.style.duplicate_id")
		}
		col := ""
		if r.chance(1, 3) {
			col = " tts:color=" + q(tvColours[r.intn(len(tvColours))])
		}
		fmt.Fprintf(&b, "<style xml:id=\"%s\"%s%s%s/>%s", id, parent, col, layoutAttrs(3, "style"), r.pick("", "\n"))
	}
	b.WriteString("</styling>\n<layout>")
	for i := 0; i < nr; i++ {
		st := ""
		if ns > 0 && r.chance(1, 2) {
			st = fmt.Sprintf(" style=\"s%d\"", r.intn(ns))
			R.count("conv.ttml->vtt.region.with_style")
		}
		id := fmt.Sprintf("r%d", i)
		if r.chance(1, 8) {
			id = r.pick("b", "Z9", "r10", "ré", "a.b", "_x")
		}
		if i > 0 && r.chance(1, 12) {
			id = "r0"
			R.count("conv.ttml->vtt.region.duplicate_id")
		}
		regionIDs[i] = id
		idAttr := fmt.Sprintf(" xml:id=\"%s\"", id)
		if r.chance(1, 15) {
			// no identifier: the region is stored under the empty key and written as "Region: id="; no paragraph can name it
			idAttr, regionIDs[i] = "", "r0"
			if i == 0 {
				regionIDs[i] = ""
			}
			R.count("conv.ttml->vtt.region.without_id")
		} else if r.chance(1, 10) {
			idAttr = fmt.Sprintf(" id=\"%s\"", id) // matched by local name
		}
		fmt.Fprintf(&b, "<region%s%s%s/>%s", idAttr, st, layoutAttrs(4, "region"), r.pick("", "\n"))
		R.count("conv.ttml->vtt.region")
	}
	b.WriteString("</layout>\n</head>\n<body" + r.pick("", " tts:textAlign=\"center\"", " region=\"r0\"") + "><div" + r.pick("", " tts:textAlign=\"right\"", " tts:origin=\"1% 2%\"") + ">\n")
	stamp := func(t int64) string {
		ms := t / 1e6
		return fmt.Sprintf("%02d:%02d:%02d.%03d", ms/3600000, ms/60000%60, ms/1000%60, ms%1000)
	}
	var t int64
	n := 1 + r.intn(4)
	for ci := 0; ci < n; ci++ {
		t += (1 + r.i64n(3000)) * 1e6
		st := t
		t += (500 + r.i64n(3000)) * 1e6
		ref := ""
		if nr > 0 && r.chance(2, 3) {
			if id := regionIDs[r.intn(nr)]; id != "" {
				ref += " region=" + q(id)
				R.count("conv.ttml->vtt.p.with_region")
			}
		}
		if ns > 0 && r.chance(1, 2) {
			ref += fmt.Sprintf(" style=\"s%d\"", r.intn(ns))
			R.count("conv.ttml->vtt.p.with_style")
		}
		own := ""
		if r.chance(1, 2) {
			own = layoutAttrs(2, "p")
		}
		if own == "" && ref == "" {
			R.count("conv.ttml->vtt.p.bare")
		}
		begin, end := stamp(st), stamp(t)
		if r.chance(1, 6) {
			begin, end = fmt.Sprintf("%dms", st/1e6), fmt.Sprintf("%d.%03ds", t/1e9, t/1e6%1000)
		}
		fmt.Fprintf(&b, "<p begin=\"%s\" end=\"%s\"%s%s>", begin, end, ref, own)
		nl := 1 + r.intn(3)
		for li := 0; li < nl; li++ {
			if li > 0 {
				b.WriteString(r.pick("<br/>", "<br />", "<br></br>", "<br/>\n    "))
			}
			nru := 1 + r.intn(3)
			for q0 := 0; q0 < nru; q0++ {
				w := tvWords[r.intn(len(tvWords))]
				if q0 > 0 && r.chance(1, 2) {
					w = " " + w
				}
				switch r.intn(6) {
				case 0:
					b.WriteString(w) // bare text
					R.count("conv.ttml->vtt.run.bare_text")
				default:
					sp := ""
					if ns > 0 && r.chance(1, 4) {
						sp = fmt.Sprintf(" style=\"s%d\"", r.intn(ns))
						R.count("conv.ttml->vtt.span.with_style")
					}
					if r.chance(1, 2) {
						c := tvColours[r.intn(len(tvColours))]
						sp += " tts:color=" + q(c)
						switch strings.ToLower(c) {
						case "#00ffff", "#ffff00", "#ff0000", "#ff00ff", "#00ff00":
							R.count("conv.ttml->vtt.span.colour.one_of_the_five")
						default:
							R.count("conv.ttml->vtt.span.colour.other")
						}
					}
					if r.chance(1, 8) {
						sp += " tts:fontStyle=\"italic\""
					}
					fmt.Fprintf(&b, "<span%s>%s</span>", sp, w)
				}
			}
		}
		b.WriteString("</p>\n")
	}
	b.WriteString("</div></body>\n</tt>\n")
	return []byte(b.String())
}

func suiteConvTtmlVtt(R *runner, r *rng) {
	R.rule("styled TTML -> WebVTT against the model (convert_ttml_vtt): 0..4 styles and 0..4 regions (duplicate identifiers included) with tts:origin / tts:extent in every shape propagateTTMLAttributes distinguishes (0..3 components, several blanks, per-cent / px / signed / fractional / beyond-int64 heights), tts:writingMode (tb..., others), tts:textAlign, region -> style and paragraph -> style fall-back, paragraphs with and without attributes of their own, attributes on body and div (not inherited), spans with tts:color among and outside the five named colours in any letter case, spans naming styles, bare text, 1..3 lines of 1..3 runs; destination bytes of the library vs the model; oracle: destination read back by the library = source cues (count, times to the ms, text per line)")
	N := 60
	if R.tier == "thorough" {
		N = 1500
	}
	for c := 0; c < N; c++ {
		doc := genTtmlForVtt(r, R)
		s0, err := astisub.ReadFromTTML(bytes.NewReader(doc))
		o := &obs{Suite: "convttmlvtt", Group: "conv.ttml->vtt", Input: (&enc{}).bytes(doc).String(), NT: true,
			Human: map[string]interface{}{"source": "ttml", "destination": "vtt", "document": string(doc)}}
		R.count("conv.ttml->vtt.documents")
		if err != nil {
			o.Impl = "1"
			R.count("conv.ttml->vtt.read_error")
			R.add(o)
			continue
		}
		var out bytes.Buffer
		var werr error
		p := safely(func() { werr = s0.WriteToWebVTT(&out) })
		switch {
		case p != "":
			o.Impl, o.Oracle, o.Sig = "2", "ttml -> vtt panicked: "+p, "convstyled-panic"
		case werr != nil:
			o.Impl = "1"
		default:
			o.Impl = (&enc{}).n(0).bytes(out.Bytes()).String()
			s1, _ := astisub.ReadFromTTML(bytes.NewReader(doc))
			if m := oracleTtmlVttText(s1, out.Bytes()); m != "" {
				o.Oracle, o.Sig = "ttml->vtt: "+m, "convstyled-text-ttml->vtt"
			}
		}
		R.add(o)
	}
}
