package main

// C13 Optimize / RemoveStyling

import (
	"fmt"
	"sort"

	astisub "github.com/asticode/go-astisub"
)

// random cue list with a reference graph over the definitions (all pointers are map entries)
func randGraph(r *rng, nStyles, nRegions, nItems int, cycles bool) *astisub.Subtitles {
	s := astisub.NewSubtitles()
	var styles []*astisub.Style
	for i := 0; i < nStyles; i++ {
		st := &astisub.Style{ID: idStr(i)}
		if r.chance(1, 2) {
			st.InlineStyle = &astisub.StyleAttributes{}
		}
		if i > 0 && r.chance(3, 5) {
			st.Style = styles[r.intn(i)] // parent among earlier ones: forest, chains of depth 0..n
		}
		styles = append(styles, st)
		s.Styles[st.ID] = st
	}
	if cycles && nStyles > 1 && r.chance(1, 2) {
		a, b := r.intn(nStyles), r.intn(nStyles)
		styles[a].Style = styles[b]
		styles[b].Style = styles[a]
	}
	var regions []*astisub.Region
	for i := 0; i < nRegions; i++ {
		rg := &astisub.Region{ID: idStr(i)}
		if nStyles > 0 && r.chance(1, 2) {
			rg.Style = styles[r.intn(nStyles)]
		}
		if r.chance(1, 2) {
			rg.InlineStyle = &astisub.StyleAttributes{}
		}
		regions = append(regions, rg)
		s.Regions[rg.ID] = rg
	}
	for i := 0; i < nItems; i++ {
		it := mkItem(int64(i)*10, int64(i)*10+5, "")
		if nStyles > 0 && r.chance(1, 3) {
			it.Style = styles[r.intn(nStyles)]
		}
		if nRegions > 0 && r.chance(1, 2) {
			it.Region = regions[r.intn(nRegions)]
		}
		if r.chance(1, 3) {
			it.InlineStyle = &astisub.StyleAttributes{}
		}
		nl := 1 + r.intn(2)
		for l := 0; l < nl; l++ {
			ln := astisub.Line{VoiceName: r.pick("", "", "v")}
			nr := 1 + r.intn(2)
			for k := 0; k < nr; k++ {
				li := astisub.LineItem{Text: fmt.Sprintf("t%d.%d.%d", i, l, k)}
				if nStyles > 0 && r.chance(1, 4) {
					li.Style = styles[r.intn(nStyles)]
				}
				if r.chance(1, 4) {
					li.InlineStyle = &astisub.StyleAttributes{}
				}
				ln.Items = append(ln.Items, li)
			}
			it.Lines = append(it.Lines, ln)
		}
		s.Items = append(s.Items, it)
	}
	return s
}

// reachability by identifiers, independent of the model
func reachable(s *astisub.Subtitles) (regs, stys map[string]bool) {
	regs, stys = map[string]bool{}, map[string]bool{}
	var work []*astisub.Style
	for _, it := range s.Items {
		if it.Region != nil {
			regs[it.Region.ID] = true
		}
		if it.Style != nil {
			work = append(work, it.Style)
		}
		for _, l := range it.Lines {
			for _, li := range l.Items {
				if li.Style != nil {
					work = append(work, li.Style)
				}
			}
		}
	}
	for id := range regs {
		if rg, ok := s.Regions[id]; ok && rg.Style != nil {
			work = append(work, rg.Style)
		}
	}
	for len(work) > 0 {
		st := work[len(work)-1]
		work = work[:len(work)-1]
		if stys[st.ID] {
			continue
		}
		stys[st.ID] = true
		if st.Style != nil {
			work = append(work, st.Style)
		}
	}
	return
}

func suiteOptimize(R *runner, r *rng) {
	R.rule("optimize: random reference graphs (0..6 styles with parent links forming a forest of depth 0..4 or containing a cycle, 0..4 regions with optional style, 0..6 cues referring to region/style, runs referring to styles, unused and shared definitions); observables: remaining definition identifiers, cues; oracle: independent reachability computation, references resolve, cues untouched, idempotence; non-trivial = at least one definition is deleted and one is kept")
	N := 4000
	if R.tier == "thorough" {
		N = 80000
	}
	for c := 0; c < N; c++ {
		s := randGraph(r, r.intn(7), r.intn(5), r.intn(7), c%5 == 0)
		u := uidsOf(s.Items)
		in := &enc{}
		encSubs(in, s, u)
		wantR, wantS := reachable(s)
		before := snapItems(s.Items)
		origR, origS := keysOf(s.Regions), keysOfS(s.Styles)
		h := map[string]interface{}{"styles": describeStyles(s), "regions": describeRegions(s), "cues": describeRefs(s)}
		o := &obs{Suite: "optimize", Input: in.String(), Human: h}
		p := safely(func() { s.Optimize() })
		if p != "" {
			o.Impl, o.Oracle, o.Sig = "PANIC", "Optimize panicked: "+p, "optimize-panic"
			R.add(o)
			continue
		}
		out := &enc{}
		encSubsOut(out, s, u)
		o.Impl = out.String()
		// oracle
		if len(before) == 0 {
			if fmt.Sprint(keysOf(s.Regions)) != fmt.Sprint(origR) || fmt.Sprint(keysOfS(s.Styles)) != fmt.Sprint(origS) {
				o.Oracle = "a list without cues was changed"
			}
		} else {
			for _, id := range origS {
				_, have := s.Styles[id]
				if wantS[id] && !have {
					o.Oracle, o.Sig = "style "+id+" is reachable from a cue but was deleted", "optimize-reachable-style-deleted"
				}
				if !wantS[id] && have {
					o.Oracle = "style " + id + " is unreachable but was kept"
				}
			}
			for _, id := range origR {
				_, have := s.Regions[id]
				if wantR[id] && !have {
					o.Oracle = "region " + id + " is referenced by a cue but was deleted"
				}
				if !wantR[id] && have {
					o.Oracle = "region " + id + " is unreferenced but was kept"
				}
			}
			if len(s.Styles) > len(origS) || len(s.Regions) > len(origR) {
				o.Oracle = "definitions were added"
			}
		}
		if o.Oracle == "" {
			// closed: every reference left resolves
			chk := func(st *astisub.Style) {
				for n := 0; st != nil && n < 20; n++ {
					if s.Styles[st.ID] != st {
						o.Oracle, o.Sig = "reference to style "+st.ID+" no longer resolves", "optimize-dangling-style"
					}
					st = st.Style
				}
			}
			for _, it := range s.Items {
				chk(it.Style)
				if it.Region != nil {
					if s.Regions[it.Region.ID] != it.Region {
						o.Oracle = "reference to region " + it.Region.ID + " no longer resolves"
					}
					chk(it.Region.Style)
				}
				for _, l := range it.Lines {
					for _, li := range l.Items {
						chk(li.Style)
					}
				}
			}
			after := snapItems(s.Items)
			if len(after) != len(before) {
				o.Oracle = "cue count changed"
			}
			for i := range before {
				if i < len(after) && before[i] != after[i] {
					o.Oracle = "a cue was modified"
				}
			}
			// idempotent
			k1, k2 := fmt.Sprint(keysOf(s.Regions)), fmt.Sprint(keysOfS(s.Styles))
			s.Optimize()
			if k1 != fmt.Sprint(keysOf(s.Regions)) || k2 != fmt.Sprint(keysOfS(s.Styles)) {
				o.Oracle = "optimizing twice deletes more than once"
			}
		}
		o.NT = len(before) > 0 && (len(s.Styles) < len(origS) || len(s.Regions) < len(origR)) && len(s.Styles)+len(s.Regions) > 0
		R.add(o)
	}
	// RemoveStyling
	for c := 0; c < N/2; c++ {
		s := randGraph(r, r.intn(5), r.intn(4), r.intn(7), false)
		if r.chance(1, 6) {
			s.Regions, s.Styles = nil, nil
			for _, it := range s.Items {
				it.Region, it.Style = nil, nil
				for li := range it.Lines {
					for k := range it.Lines[li].Items {
						it.Lines[li].Items[k].Style = nil
					}
				}
			}
		}
		u := uidsOf(s.Items)
		in := &enc{}
		encSubs(in, s, u)
		type cueText struct {
			s, e   int64
			text   string
			voices string
		}
		var before []cueText
		for _, it := range s.Items {
			v := ""
			for _, l := range it.Lines {
				v += l.VoiceName + "|"
			}
			before = append(before, cueText{int64(it.StartAt), int64(it.EndAt), fmt.Sprintf("%q", itemTexts(it)), v})
		}
		o := &obs{Suite: "rmstyle", Input: in.String(), Human: map[string]interface{}{"styles": describeStyles(s), "regions": describeRegions(s), "cues": describeRefs(s)}, NT: len(s.Items) > 0}
		p := safely(func() { s.RemoveStyling() })
		if p != "" {
			o.Impl, o.Oracle, o.Sig = "PANIC", "RemoveStyling panicked: "+p, "rmstyle-panic"
			R.add(o)
			continue
		}
		out := &enc{}
		encSubsOut(out, s, u)
		o.Impl = out.String()
		if len(s.Regions) != 0 || len(s.Styles) != 0 {
			o.Oracle = "regions or styles left"
		}
		if len(s.Items) != len(before) {
			o.Oracle = "cue count changed"
		}
		for i, it := range s.Items {
			if it.Region != nil || it.Style != nil || it.InlineStyle != nil {
				o.Oracle = "cue keeps a region, style or inline attributes"
			}
			v := ""
			for _, l := range it.Lines {
				v += l.VoiceName + "|"
				for _, li := range l.Items {
					if li.Style != nil || li.InlineStyle != nil {
						o.Oracle = "run keeps a style or inline attributes"
					}
				}
			}
			if i < len(before) && (before[i] != cueText{int64(it.StartAt), int64(it.EndAt), fmt.Sprintf("%q", itemTexts(it)), v}) {
				o.Oracle = "timing, text, voice names or order changed"
			}
		}
		R.add(o)
	}
}

func itemTexts(it *astisub.Item) [][]string {
	var o [][]string
	for _, l := range it.Lines {
		var t []string
		for _, li := range l.Items {
			t = append(t, li.Text)
		}
		o = append(o, t)
	}
	return o
}

func describeStyles(s *astisub.Subtitles) []string {
	var o []string
	for _, k := range keysOfS(s.Styles) {
		st := s.Styles[k]
		d := k + ":" + st.ID
		if st.Style != nil {
			d += "->" + st.Style.ID
		}
		o = append(o, d)
	}
	sort.Strings(o)
	return o
}
func describeRegions(s *astisub.Subtitles) []string {
	var o []string
	for _, k := range keysOf(s.Regions) {
		rg := s.Regions[k]
		d := k + ":" + rg.ID
		if rg.Style != nil {
			d += " style=" + rg.Style.ID
		}
		o = append(o, d)
	}
	return o
}
func describeRefs(s *astisub.Subtitles) []string {
	var o []string
	for i, it := range s.Items {
		d := fmt.Sprintf("cue%d", i)
		if it.Region != nil {
			d += " region=" + it.Region.ID
		}
		if it.Style != nil {
			d += " style=" + it.Style.ID
		}
		for _, l := range it.Lines {
			for _, li := range l.Items {
				if li.Style != nil {
					d += " run-style=" + li.Style.ID
				}
			}
		}
		o = append(o, d)
	}
	return o
}
