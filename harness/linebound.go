package main

// The scanner's line limit, replayed on the library (second audit, item N3; Coq: Proofs/LineBound*.v, the
// ..._within_limit / ..._exact_limit / ..._line_bound theorems appended to Properties/C01.v, C02.v, C04.v).
//
// For each line-based format a cue list with ONE long text line is written WITH THE LIBRARY so that the longest written
// line has exactly 65533 .. 65537 bytes (the line's own overhead -- nothing for SubRip and WebVTT text lines, the
// "Dialogue: ...," prefix for SSA -- is measured on a short document first and checked afterwards), in two layouts: the
// long line is the last line of the document ("last": one cue) or is followed by more lines ("mid": two cues).  The
// written bytes (LF line ends) and their CR LF, lone CR and unterminated-last-line variants are read back with the library
// under several delivery schedules.
//
// Oracle (what the theorems say at max = 65536; L = length of the long line):
//   LF                      read back iff L + 1 <= 65536   (C0x_write_read_exact_limit; C17_boundary_lf)
//   CR LF, CR + more bytes  read back iff L + 2 <= 65536   (C0x_eol_within_limit is the sufficient half; C17_boundary_crlf/_cr)
//   CR at end of data       L + 1 < 65536 read back, L + 1 > 65536 refused, L + 1 = 65536: read back iff end-of-file is
//                           reported together with the last bytes (C17_boundary_last_cr, _last_cr_exact)
//   unterminated last line  L < 65536 read back, L > 65536 refused, L = 65536: iff end-of-file comes with the last bytes
//                           (C17_boundary_last, _last_exact)
// "read back" = the cues that were written (times, text); "refused" = an error -- never a shorter or different document.
//
// Correspondence: the library's line scanner (VerifScanTokens) on the same bytes and the same schedule against the Coq
// scanner with the buffer limit, scan_lim 65536 (driver suite scanlim), fed the sizes of the Reads the scanner really
// issued (recorded by traceReader).

import (
	"bytes"
	"fmt"
	"io"
	"strings"
	"time"

	astisub "github.com/asticode/go-astisub"
)

const lbMax = 65536

type traceRec struct {
	n   int
	eof bool
}

// traceReader records what every Read returned
type traceReader struct {
	in  io.Reader
	rec []traceRec
}

func (t *traceReader) Read(p []byte) (int, error) {
	n, err := t.in.Read(p)
	t.rec = append(t.rec, traceRec{n, err == io.EOF})
	return n, err
}

// the schedule of the Coq scanner that a recorded run is: the sizes of the Reads; a final Read that returned the last bytes
// together with io.EOF is the model's "counts exhausted" case, a separate end-of-file Read is a final count 0
func traceCounts(rec []traceRec) []int {
	var cs []int
	for _, t := range rec {
		if t.eof {
			if t.n == 0 {
				cs = append(cs, 0)
			}
			break
		}
		cs = append(cs, t.n)
	}
	return cs
}

// run-length chunks (count, bytes) of data: runs of one byte of 32 or more, literals otherwise
func rleChunks(data []byte) *enc {
	type chunk struct {
		k int
		s []byte
	}
	var cs []chunk
	lit := func(b []byte) {
		if len(b) > 0 {
			cs = append(cs, chunk{1, b})
		}
	}
	start := 0
	for i := 0; i < len(data); {
		j := i
		for j < len(data) && data[j] == data[i] {
			j++
		}
		if j-i >= 32 {
			lit(data[start:i])
			cs = append(cs, chunk{j - i, data[i : i+1]})
			start = j
		}
		i = j
	}
	lit(data[start:])
	e := &enc{}
	e.n(len(cs))
	for _, c := range cs {
		e.n(c.k).bytes(c.s)
	}
	return e
}

func lbHash(s string) int {
	h := 7
	for i := 0; i < len(s); i++ {
		h = (h*31 + int(s[i])) % 1000000007
	}
	return h
}

type lbStream struct {
	name    string
	chunk   int // 0: everything the scanner asks for
	withEOF bool
	plain   bool // bytes.Reader
	model   int  // 0: never compared with the model (too slow there), 1: at the two boundary sizes only, 2: always
}

var lbStreams = []lbStream{
	{"bytes.Reader", 0, false, true, 2},
	{"eof_with_data", 0, true, false, 2},
	{"chunks4093_eof_with_data", 4093, true, false, 1},
	{"chunks1000", 1000, false, false, 1},
	{"chunks7", 7, false, false, 0},
}

func (s lbStream) reader(data []byte) io.Reader {
	if s.plain {
		return bytes.NewReader(data)
	}
	var counts []int
	if s.chunk > 0 {
		for tot := 0; tot < len(data); tot += s.chunk {
			counts = append(counts, s.chunk)
		}
	}
	return &schedReader{data: data, counts: counts, withEOF: s.withEOF, failAt: -1}
}

func lbDoc(n int, mid bool) *astisub.Subtitles {
	s := astisub.NewSubtitles()
	s.Items = append(s.Items, &astisub.Item{StartAt: time.Second, EndAt: 2 * time.Second,
		Lines: []astisub.Line{{Items: []astisub.LineItem{{Text: strings.Repeat("a", n)}}}}})
	if mid {
		s.Items = append(s.Items, &astisub.Item{StartAt: 3 * time.Second, EndAt: 4 * time.Second,
			Lines: []astisub.Line{{Items: []astisub.LineItem{{Text: "b"}}}}})
	}
	return s
}

// what the property compares: per cue the times and the text of each line
func lbProj(s *astisub.Subtitles) string {
	var sb strings.Builder
	for _, it := range s.Items {
		if it == nil {
			sb.WriteString("nil;")
			continue
		}
		fmt.Fprintf(&sb, "%d-%d:", it.StartAt, it.EndAt)
		for _, l := range it.Lines {
			t := ""
			for _, li := range l.Items {
				t += li.Text
			}
			fmt.Fprintf(&sb, "[%d %x]", len(t), lbHash(t))
		}
		sb.WriteByte(';')
	}
	return sb.String()
}

func lbLongest(data []byte) int {
	m := 0
	for _, l := range bytes.Split(data, []byte("\n")) {
		if len(l) > m {
			m = len(l)
		}
	}
	return m
}

func lbWrite(f format, s *astisub.Subtitles) ([]byte, error) {
	var buf bytes.Buffer
	err := f.write(s, &buf)
	return buf.Bytes(), err
}

// 1 read back, 0 refused
func lbExpect(variant string, mid bool, L int, withEOF bool) int {
	accept := func(b bool) int {
		if b {
			return 1
		}
		return 0
	}
	switch variant {
	case "lf":
		return accept(L+1 <= lbMax)
	case "crlf":
		return accept(L+2 <= lbMax)
	case "cr":
		if mid {
			return accept(L+2 <= lbMax)
		}
		if L+1 == lbMax {
			return accept(withEOF)
		}
		return accept(L+1 < lbMax)
	default: // "none": the last line is not terminated
		if L == lbMax {
			return accept(withEOF)
		}
		return accept(L < lbMax)
	}
}

func suiteLineBound(R *runner, fname, short string) {
	f := formatByName(fname)
	suite := short + ".linebound"
	R.rule(suite + ": the scanner's line limit on the library: one cue whose text makes the longest written line exactly 65533..65537 bytes, written with the library (LF), as last line of the document or followed by a second cue; variants CR LF, lone CR, unterminated last line; streams bytes.Reader, end-of-file with the last bytes, chunks of 4093 / 1000 / 7 bytes; oracle: read back (times and text of the written cues) exactly below the bound the theorems state per line end, an error at and above it, never another document; the library's line scanner is also compared with the Coq scanner with the buffer limit (scan_lim 65536) on the schedule of Reads it really issued; non-trivial = every case")
	// the overhead of the long line, measured
	d0, err := lbWrite(f, lbDoc(100, false))
	if err != nil {
		fatal("%s: cannot write the probe document: %v", suite, err)
	}
	over := lbLongest(d0) - 100
	if over < 0 {
		fatal("%s: the long line is not the longest line of the probe document", suite)
	}
	R.countN(suite+".line_overhead_bytes", over)
	for _, mid := range []bool{false, true} {
		layout := "last"
		variants := []string{"lf", "crlf", "cr", "none"}
		if mid {
			layout, variants = "mid", []string{"lf", "crlf", "cr"}
		}
		for L := lbMax - 3; L <= lbMax+1; L++ {
			doc := lbDoc(L-over, mid)
			want := lbProj(doc)
			written, err := lbWrite(f, doc)
			if err != nil {
				fatal("%s: cannot write: %v", suite, err)
			}
			if lbLongest(written) != L || !bytes.HasSuffix(written, []byte("\n")) || bytes.Contains(written, []byte("\r")) {
				fatal("%s: the written document does not have the expected shape (longest line %d, wanted %d)", suite, lbLongest(written), L)
			}
			for _, v := range variants {
				data := written
				switch v {
				case "crlf":
					data = bytes.ReplaceAll(written, []byte("\n"), []byte("\r\n"))
				case "cr":
					data = bytes.ReplaceAll(written, []byte("\n"), []byte("\r"))
				case "none":
					data = written[:len(written)-1]
				}
				for _, st := range lbStreams {
					R.count(fmt.Sprintf("%s.%d", suite, L))
					withEOF := st.withEOF
					exp := lbExpect(v, mid, L, withEOF)
					var got *astisub.Subtitles
					var rerr error
					p := safely(func() { got, rerr = f.read(st.reader(data)) })
					human := map[string]interface{}{"format": fname, "layout": layout, "line_end": v, "longest_line": L, "stream": st.name, "text_letters": L - over}
					o := &obs{Suite: suite, NoModel: true, NT: true, Input: fmt.Sprintf("%s %s %d %s", layout, v, L, st.name), Human: human}
					outcome := "refused"
					switch {
					case p != "":
						o.Oracle, o.Sig = "panic: "+p, suite+"-panic"
						outcome = "panic"
					case rerr == nil && exp == 0:
						o.Oracle = fmt.Sprintf("%s layout, line end %s, longest line %d bytes, stream %s: the theorems say the reader refuses (line limit %d), the library returned a document: %s", layout, v, L, st.name, lbMax, trunc(lbProj(got), 200))
						o.Sig = suite + "-accepted-beyond"
						outcome = "read"
					case rerr == nil && lbProj(got) != want:
						o.Oracle = fmt.Sprintf("%s layout, line end %s, longest line %d bytes, stream %s: read back as another document: wrote %s, read %s", layout, v, L, st.name, trunc(want, 200), trunc(lbProj(got), 200))
						o.Sig = suite + "-other-document"
						outcome = "other"
					case rerr == nil:
						outcome = "read"
					case exp == 1:
						o.Oracle = fmt.Sprintf("%s layout, line end %s, longest line %d bytes, stream %s: within the bound of the theorems but the library fails: %v", layout, v, L, st.name, rerr)
						o.Sig = suite + "-refused-within"
					default:
						if strings.Contains(rerr.Error(), "token too long") {
							R.count(suite + ".error_is_token_too_long")
						} else {
							R.count(suite + ".error_other")
						}
					}
					eofKind := "eof_separate"
					if withEOF {
						eofKind = "eof_with_data"
					}
					R.count(fmt.Sprintf("%s.boundary.%s.%s.%s.%d.%s", suite, layout, v, eofKind, L, outcome))
					R.add(o)

					// the scanner alone against the Coq scanner with the limit, on the schedule really issued
					if st.model == 0 || (st.model == 1 && L != lbMax-1 && L != lbMax) {
						continue
					}
					tr := &traceReader{in: st.reader(data)}
					toks, serr := astisub.VerifScanTokens(tr)
					counts := traceCounts(tr.rec)
					in := &enc{}
					in.n(lbMax).raw(rleChunks(data).String()).n(len(counts))
					for _, k := range counts {
						in.n(k)
					}
					e := &enc{}
					e.bool(serr != nil).n(len(toks))
					for _, t := range toks {
						e.n(len(t)).n(lbHash(t))
					}
					so := &obs{Suite: "scanlim", Group: suite + ".scan", Input: in.String(), Impl: e.String(), NT: true,
						Human: map[string]interface{}{"format": fname, "layout": layout, "line_end": v, "longest_line": L, "stream": st.name, "reads": describeSchedule(counts, withEOF)}}
					if serr != nil && !strings.Contains(serr.Error(), "token too long") {
						so.Oracle, so.Sig = "scanner error other than ErrTooLong without a fault: "+serr.Error(), suite+"-scan-error"
					}
					R.add(so)
				}
			}
		}
	}
}

func suiteLineBoundSrt(R *runner, r *rng) { suiteLineBound(R, "srt", "srt") }
func suiteLineBoundVtt(R *runner, r *rng) { suiteLineBound(R, "webvtt", "vtt") }
func suiteLineBoundSsa(R *runner, r *rng) { suiteLineBound(R, "ssa", "ssa") }
