package main

// C10 Fragment, C11 Unfragment

import (
	"fmt"
	"sort"
	"time"

	astisub "github.com/asticode/go-astisub"
)

type piece struct {
	s, e    int64
	payload string
}

func piecesSpec(s, e, f int64, payload string) []piece {
	var out []piece
	// first multiple of f strictly greater than s
	b := s - s%f
	if s%f < 0 {
		b -= f
	}
	b += f // b = (floor(s/f)+1)*f
	cur := s
	for ; b < e; b += f {
		out = append(out, piece{cur, b, payload})
		cur = b
	}
	out = append(out, piece{cur, e, payload})
	return out
}

func oracleFragment(before []cueSnap, f int64, after []*astisub.Item) string {
	var want []piece
	for _, b := range before {
		want = append(want, piecesSpec(b.s, b.e, f, b.payload)...)
	}
	var got []piece
	for i, a := range after {
		if i > 0 && after[i-1].StartAt > a.StartAt {
			return fmt.Sprintf("result not ordered by start at position %d", i)
		}
		got = append(got, piece{int64(a.StartAt), int64(a.EndAt), payload(a)})
	}
	less := func(p []piece) func(i, j int) bool {
		return func(i, j int) bool {
			if p[i].s != p[j].s {
				return p[i].s < p[j].s
			}
			if p[i].e != p[j].e {
				return p[i].e < p[j].e
			}
			return p[i].payload < p[j].payload
		}
	}
	sort.Slice(want, less(want))
	sort.Slice(got, less(got))
	for i := 0; i < len(want) || i < len(got); i++ {
		if i >= len(got) {
			return fmt.Sprintf("piece [%d,%d) is missing from the result", want[i].s, want[i].e)
		}
		if i >= len(want) {
			return fmt.Sprintf("unexpected cue [%d,%d) in the result", got[i].s, got[i].e)
		}
		if want[i] != got[i] {
			if want[i].s == got[i].s && want[i].e == got[i].e {
				return fmt.Sprintf("piece [%d,%d) does not carry its original's text/style/region", got[i].s, got[i].e)
			}
			return fmt.Sprintf("timeline differs: result has [%d,%d) where the per-cue cutting gives [%d,%d)", got[i].s, got[i].e, want[i].s, want[i].e)
		}
	}
	return ""
}

func withSpareCap(items []*astisub.Item, spare int) []*astisub.Item {
	o := make([]*astisub.Item, len(items), len(items)+spare)
	copy(o, items)
	return o
}

func suiteFragment(R *runner, r *rng) {
	R.rule("fragment: all start-ordered lists (overlap, nesting, duplicates, zero gaps) of <=2 cues on 0..9 and 3 cues on 0..5 (quick) / <=3 cues on 0..9 and 4 cues on 0..6 (thorough), two texts, f in 1..5, slices with and without spare capacity (exhaustive); random ms-granular start-ordered lists of <=60 cues; non-trivial = some cue strictly contains a multiple of f")
	run := func(items []*astisub.Item, f int64, group string) {
		u := uidsOf(items)
		in := &enc{}
		in.i(f)
		encItems(in, items, u)
		before := snapItems(items)
		h := map[string]interface{}{"f_ns": f, "cues": humanItems(items, u), "cap_minus_len": cap(items) - len(items)}
		s := &astisub.Subtitles{Items: items}
		o := &obs{Suite: "fragment", Group: group, Input: in.String(), Human: h}
		p := safely(func() { s.Fragment(time.Duration(f)) })
		if p != "" {
			o.Impl, o.Oracle, o.Sig = "PANIC", "Fragment panicked: "+p, "fragment-panic"
			R.add(o)
			return
		}
		o.Impl = itemsString(s.Items, u)
		o.Oracle = oracleFragment(before, f, s.Items)
		for _, b := range before {
			if len(piecesSpec(b.s, b.e, f, "")) > 1 {
				o.NT = true
			}
		}
		R.add(o)
	}
	type iv struct{ s, e int64 }
	grid := func(maxT int64, n int, group string) {
		var ivs []iv
		for s := int64(0); s <= maxT; s++ {
			for e := s + 1; e <= maxT; e++ {
				ivs = append(ivs, iv{s, e})
			}
		}
		idx := make([]int, n)
		var rec func(k int)
		rec = func(k int) {
			if k == n {
				for texts := 0; texts < 1<<uint(n); texts++ {
					if n > 0 && texts&1 == 1 {
						continue // symmetry: first cue always text a
					}
					for f := int64(1); f <= 5; f++ {
						var items []*astisub.Item
						for j, v := range idx {
							t := "a"
							if texts>>uint(j)&1 == 1 {
								t = "b"
							}
							items = append(items, mkItem(ivs[v].s, ivs[v].e, t))
						}
						spare := 0
						if (texts+int(f))%2 == 1 {
							spare = 8
						}
						run(withSpareCap(items, spare), f, group)
					}
				}
				return
			}
			start := 0
			if k > 0 {
				start = idx[k-1]
			}
			for v := start; v < len(ivs); v++ {
				// start-ordered: ivs is sorted by (s,e); allow equal and any e for same/later s
				if k > 0 && ivs[v].s < ivs[idx[k-1]].s {
					continue
				}
				idx[k] = v
				rec(k + 1)
			}
		}
		// generic enumeration: choose each cue with s >= previous s (ends free)
		var gen func(k int)
		gen = func(k int) {
			if k == n {
				rec(n)
				return
			}
			for v := 0; v < len(ivs); v++ {
				if k > 0 && ivs[v].s < ivs[idx[k-1]].s {
					continue
				}
				idx[k] = v
				gen(k + 1)
			}
		}
		gen(0)
	}
	if R.tier == "thorough" {
		for n := 0; n <= 3; n++ {
			grid(9, n, "fragment.grid")
		}
		grid(6, 4, "fragment.grid")
	} else {
		for n := 0; n <= 2; n++ {
			grid(9, n, "fragment.grid")
		}
		grid(5, 3, "fragment.grid")
	}
	R.exhaustive("fragment.grid")
	N := 1500
	if R.tier == "thorough" {
		N = 30000
	}
	ms := int64(time.Millisecond)
	for c := 0; c < N; c++ {
		n := r.intn(61)
		items := randItems(r, n, ms, 20000, 3, true)
		for _, it := range items {
			if it.EndAt == it.StartAt && r.chance(2, 3) {
				it.EndAt += time.Duration(1+r.intn(3000)) * time.Millisecond
			}
		}
		// keep the number of pieces moderate (the model's insertion sort is quadratic)
		var total int64
		for _, it := range items {
			total += int64(it.EndAt - it.StartAt)
		}
		minF := total/600/ms*ms + ms
		f := minF + r.i64n(5000)*ms
		if r.chance(1, 4) {
			f = (minF/(1000*ms) + 1 + r.i64n(5)) * 1000 * ms
		}
		R.countN("fragment.random.cues", n)
		run(withSpareCap(items, r.intn(3)*r.intn(20)), f, "fragment.random")
	}
}

// ================================================================================================
// C11 Unfragment
// ================================================================================================

// connected components of same-text touching/overlapping intervals (independent specification)
type comp struct {
	text string
	s, e int64
}

func componentsSpec(before []cueSnap, texts []string) []comp {
	idx := make([]int, len(before))
	for i := range idx {
		idx[i] = i
	}
	sort.SliceStable(idx, func(a, b int) bool { return before[idx[a]].s < before[idx[b]].s })
	var out []comp
	used := make([]bool, len(before))
	for _, i := range idx {
		if used[i] {
			continue
		}
		c := comp{texts[i], before[i].s, before[i].e}
		used[i] = true
		changed := true
		for changed {
			changed = false
			for _, j := range idx {
				if !used[j] && texts[j] == c.text && before[j].s >= c.s && before[j].s <= c.e {
					used[j] = true
					changed = true
					if before[j].e > c.e {
						c.e = before[j].e
					}
				}
			}
		}
		out = append(out, c)
	}
	return out
}

func oracleUnfragment(before []cueSnap, texts []string, after []*astisub.Item) string {
	want := componentsSpec(before, texts)
	var got []comp
	for i, a := range after {
		if i > 0 && after[i-1].StartAt > a.StartAt {
			return fmt.Sprintf("result not ordered by start at position %d", i)
		}
		got = append(got, comp{a.String(), int64(a.StartAt), int64(a.EndAt)})
	}
	for i := 0; i < len(after); i++ {
		for j := i + 1; j < len(after); j++ {
			if after[i].String() == after[j].String() && after[i].EndAt >= after[j].StartAt {
				return fmt.Sprintf("cues %d and %d have the same text and still touch or overlap", i, j)
			}
		}
	}
	key := func(c comp) string { return fmt.Sprintf("%020d|%020d|%s", c.s, c.e, c.text) }
	sort.Slice(want, func(i, j int) bool { return key(want[i]) < key(want[j]) })
	sort.Slice(got, func(i, j int) bool { return key(got[i]) < key(got[j]) })
	for i := 0; i < len(want) || i < len(got); i++ {
		if i >= len(got) || i >= len(want) || want[i] != got[i] {
			return fmt.Sprintf("result differs from the merged same-text components: want %v got %v", want, got)
		}
	}
	// every result cue is one of the input cues (identity, content kept)
	orig := map[*astisub.Item]cueSnap{}
	for _, b := range before {
		orig[b.p] = b
	}
	for _, a := range after {
		b, ok := orig[a]
		if !ok {
			return "result contains a cue that is not one of the input cues"
		}
		if int64(a.StartAt) != b.s || payload(a) != b.payload {
			return "a kept cue's start or content changed"
		}
	}
	return ""
}

func suiteUnfragment(R *runner, r *rng) {
	R.rule("unfragment: all lists (any order) of <=3 cues on 0..5 (quick) / <=3 on 0..6 and 4 on 0..4 (thorough) with start<=end over 1..3 texts (exhaustive); random lists of <=40 cues over 1..3 texts; lists of 2..7 cues whose texts have the same Item.String() under different segmentations into lines and line items (incl. no line / an empty line / an empty item); inverse law: start-ordered lists free of touching same-text cues x f in 1..5, Fragment then Unfragment compared with the original (times, text, order up to equal starts); non-trivial = at least one merge happens / at least one cue is cut")
	run := func(items []*astisub.Item, group string) {
		u := uidsOf(items)
		in := &enc{}
		encItems(in, items, u)
		before := snapItems(items)
		var texts []string
		for _, it := range items {
			texts = append(texts, it.String())
		}
		h := map[string]interface{}{"cues": humanItems(items, u)}
		s := &astisub.Subtitles{Items: items}
		o := &obs{Suite: "unfragment", Group: group, Input: in.String(), Human: h}
		p := safely(func() { s.Unfragment() })
		if p != "" {
			o.Impl, o.Oracle, o.Sig = "PANIC", "Unfragment panicked: "+p, "unfragment-panic"
			R.add(o)
			return
		}
		o.Impl = itemsString(s.Items, u)
		o.Oracle = oracleUnfragment(before, texts, s.Items)
		o.NT = len(s.Items) < len(before)
		R.add(o)
	}
	type cell struct {
		s, e int64
		t    int
	}
	grid := func(maxT int64, n int) {
		var cells []cell
		for s := int64(0); s <= maxT; s++ {
			for e := s; e <= maxT; e++ {
				for t := 0; t < 3; t++ {
					cells = append(cells, cell{s, e, t})
				}
			}
		}
		idx := make([]int, n)
		for {
			ok := true
			// symmetry: texts appear in order of first use
			mx := -1
			for _, v := range idx {
				if cells[v].t > mx+1 {
					ok = false
				}
				if cells[v].t > mx {
					mx = cells[v].t
				}
			}
			if ok {
				var items []*astisub.Item
				for _, v := range idx {
					items = append(items, mkItem(cells[v].s, cells[v].e, string(rune('a'+cells[v].t))))
				}
				run(items, "unfragment.grid")
			}
			k := n - 1
			for k >= 0 {
				idx[k]++
				if idx[k] < len(cells) {
					break
				}
				idx[k] = 0
				k--
			}
			if k < 0 {
				break
			}
		}
	}
	if R.tier == "thorough" {
		for n := 0; n <= 3; n++ {
			grid(6, n)
		}
		grid(4, 4)
	} else {
		for n := 0; n <= 2; n++ {
			grid(6, n)
		}
		grid(4, 3)
	}
	R.exhaustive("unfragment.grid")
	N := 2000
	if R.tier == "thorough" {
		N = 40000
	}
	for c := 0; c < N; c++ {
		n := r.intn(41)
		unit, maxT := int64(1), int64(12)
		if c%3 == 0 {
			unit, maxT = int64(time.Millisecond), 100000
		}
		items := randItems(r, n, unit, maxT, 1+r.intn(3), r.chance(1, 3))
		// single-run single-line texts so that distinct cues often share a text
		for _, it := range items {
			it.Lines = []astisub.Line{{Items: []astisub.LineItem{{Text: it.Lines[0].Items[0].Text[:2]}}}}
		}
		R.countN("unfragment.random.cues", n)
		run(items, "unfragment.random")
	}

	// same Item.String(), different segmentation into lines and line items (the comparison is on the string)
	segs := func(cls, variant int) []astisub.Line {
		li := func(ts ...string) astisub.Line {
			var l astisub.Line
			for _, t := range ts {
				l.Items = append(l.Items, astisub.LineItem{Text: t})
			}
			return l
		}
		switch cls {
		case 0: // "ab - cd"
			switch variant % 4 {
			case 0:
				return []astisub.Line{li("ab - cd")}
			case 1:
				return []astisub.Line{li("ab"), li("cd")}
			case 2:
				return []astisub.Line{li("ab - ", "cd")}
			default:
				return []astisub.Line{li("a", "b"), li("cd")}
			}
		case 1: // "Hello world"
			switch variant % 3 {
			case 0:
				return []astisub.Line{li("Hello world")}
			case 1:
				return []astisub.Line{li("Hello ", "world")}
			default:
				return []astisub.Line{li("Hel", "lo", " world")}
			}
		default: // ""
			switch variant % 3 {
			case 0:
				return nil
			case 1:
				return []astisub.Line{{}}
			default:
				return []astisub.Line{li("")}
			}
		}
	}
	NS := 600
	if R.tier == "thorough" {
		NS = 12000
	}
	for c := 0; c < NS; c++ {
		n := 2 + r.intn(6)
		items := randItems(r, n, 1, 10, 1, r.chance(1, 3))
		for _, it := range items {
			it.Lines = segs(r.intn(3), r.intn(12))
		}
		R.countN("unfragment.segmentation.cues", n)
		run(items, "unfragment.segmentation")
	}

	// inverse law
	inverse := func(items []*astisub.Item, f int64, group string) {
		u := uidsOf(items)
		in := &enc{}
		in.i(f)
		encItems(in, items, u)
		before := snapItems(items)
		var texts []string
		for _, it := range items {
			texts = append(texts, it.String())
		}
		h := map[string]interface{}{"f_ns": f, "cues": humanItems(items, u)}
		s := &astisub.Subtitles{Items: items}
		o := &obs{Suite: "fragunfrag", Group: group, Input: in.String(), Human: h}
		cut := false
		p := safely(func() {
			s.Fragment(time.Duration(f))
			cut = len(s.Items) > len(before)
			s.Unfragment()
		})
		if p != "" {
			o.Impl, o.Oracle, o.Sig = "PANIC", "Fragment/Unfragment panicked: "+p, "fragunfrag-panic"
			R.add(o)
			return
		}
		o.Impl = itemsString(s.Items, u)
		o.NT = cut
		if len(s.Items) != len(before) {
			o.Oracle = fmt.Sprintf("unfragment(fragment(l)) has %d cues, l has %d", len(s.Items), len(before))
		} else {
			// equal as multisets of (start, end, text) and start-ordered
			var w, g []string
			for i, b := range before {
				w = append(w, fmt.Sprintf("%020d|%020d|%s", b.s, b.e, texts[i]))
				a := s.Items[i]
				g = append(g, fmt.Sprintf("%020d|%020d|%s", int64(a.StartAt), int64(a.EndAt), a.String()))
				if i > 0 && s.Items[i-1].StartAt > a.StartAt {
					o.Oracle = "result not ordered by start"
				}
			}
			sort.Strings(w)
			sort.Strings(g)
			for i := range w {
				if w[i] != g[i] && o.Oracle == "" {
					o.Oracle = "unfragment(fragment(l)) does not restore l: want " + w[i] + " got " + g[i]
				}
			}
		}
		R.add(o)
	}
	noTouch := func(items []*astisub.Item) bool {
		for i := 0; i < len(items); i++ {
			for j := i + 1; j < len(items); j++ {
				if items[i].String() == items[j].String() && items[i].EndAt >= items[j].StartAt {
					return false
				}
			}
		}
		return true
	}
	// exhaustive: start-ordered lists of <=3 cues on 0..7 with start<end, 2 texts
	{
		type iv struct{ s, e int64 }
		var ivs []iv
		maxT := int64(7)
		if R.tier == "thorough" {
			maxT = 9
		}
		for s := int64(0); s <= maxT; s++ {
			for e := s + 1; e <= maxT; e++ {
				ivs = append(ivs, iv{s, e})
			}
		}
		var gen func(k, n int, idx []int)
		gen = func(k, n int, idx []int) {
			if k == n {
				for texts := 0; texts < 1<<uint(n); texts++ {
					if n > 0 && texts&1 == 1 {
						continue
					}
					mk := func() []*astisub.Item {
						var items []*astisub.Item
						for j, v := range idx {
							t := "a"
							if texts>>uint(j)&1 == 1 {
								t = "b"
							}
							items = append(items, mkItem(ivs[v].s, ivs[v].e, t))
						}
						return items
					}
					if !noTouch(mk()) {
						continue
					}
					for f := int64(1); f <= 5; f++ {
						inverse(mk(), f, "fragunfrag.grid")
					}
				}
				return
			}
			for v := 0; v < len(ivs); v++ {
				if k > 0 && ivs[v].s < ivs[idx[k-1]].s {
					continue
				}
				idx[k] = v
				gen(k+1, n, idx)
			}
		}
		for n := 0; n <= 3; n++ {
			gen(0, n, make([]int, n))
		}
		R.exhaustive("fragunfrag.grid")
	}
	for c := 0; c < N/2; c++ {
		n := r.intn(25)
		ms := int64(time.Millisecond)
		items := randItems(r, n, ms, 20000, 3, true)
		for _, it := range items {
			if it.EndAt <= it.StartAt {
				it.EndAt = it.StartAt + time.Duration(1+r.intn(2000))*time.Millisecond
			}
			it.Lines = []astisub.Line{{Items: []astisub.LineItem{{Text: it.Lines[0].Items[0].Text[:2]}}}}
		}
		// drop cues until no same-text pair touches
		var keep []*astisub.Item
		for _, it := range items {
			if noTouch(append(append([]*astisub.Item{}, keep...), it)) {
				keep = append(keep, it)
			}
		}
		var total int64
		for _, it := range keep {
			total += int64(it.EndAt - it.StartAt)
		}
		f := total/400/ms*ms + ms + r.i64n(4000)*ms
		inverse(keep, f, "fragunfrag.random")
	}
}
