package main

// C07, command-line entry point on lists that are not "nice": cue lists in arbitrary order with overlaps, operation
// parameters spanning the whole time range of the list (fragment durations below, inside and beyond the cues' ends,
// shifts that remove or clamp cues), every sub-command, SubRip/WebVTT sources, every destination format.  The oracle is
// the one of the matrix: the destination read back = the operation's specification applied to the source cues.

import (
	"fmt"
	"os"
	"os/exec"
	"path/filepath"
	"strings"
	"time"

	astisub "github.com/asticode/go-astisub"
)

func suiteConvertCLI(R *runner, r *rng) {
	R.rule("CLI on unordered / overlapping lists: 2..6 cues with starts in 0..20 s in arbitrary order, durations 0.2..10 s (overlaps, a long cue listed before short ones); sub-commands convert, sync (shifts in -25..25 s), fragment (durations 0.2..30 s, i.e. below, inside and beyond the end of the last-listed cue), unfragment, optimize, merge; sources srt/vtt, destinations srt/vtt/ttml/ssa/stl; oracle: destination read back = the operation's specification applied to the source cues (times at the destination's resolution, text without white space)")
	cli := filepath.Join(buildDir, "astisub-cli")
	if _, err := os.Stat(cli); err != nil {
		R.note("CLI binary not built: " + err.Error())
		return
	}
	dir, _ := os.MkdirTemp("", "verif-cli")
	defer os.RemoveAll(dir)
	N := 60
	if R.tier == "thorough" {
		N = 1500
	}
	dsts := []string{"srt", "vtt", "ttml", "ssa", "stl"}
	for c := 0; c < N; c++ {
		n := 2 + r.intn(5)
		cues := plainCues(r, n)
		for i := range cues {
			cues[i].Start = r.i64n(500) * 4e7
			cues[i].End = cues[i].Start + (5+r.i64n(245))*4e7
			cues[i].Lines = cues[i].Lines[:1]
			cues[i].Lines[0][0].Text = fmt.Sprintf("c%d %s", i, cues[i].Lines[0][0].Text)
		}
		if c%3 == 0 {
			// a long cue listed first, short ones after it
			cues[0].Start, cues[0].End = (1+r.i64n(50))*4e7, (200+r.i64n(300))*4e7
			for i := 1; i < len(cues); i++ {
				cues[i].Start = cues[0].Start + (1+r.i64n(100))*4e7
				cues[i].End = cues[i].Start + (5+r.i64n(40))*4e7
			}
		}
		if c%4 == 1 {
			cues[1].Lines = cues[0].Lines // same text: unfragment has something to put together
		}
		var want []plainCue
		for _, cu := range cues {
			var ls []string
			for _, l := range plainLines(cu) {
				ls = append(ls, nows(l))
			}
			want = append(want, plainCue{cu.Start, cu.End, ls})
		}
		sf := []string{"srt", "vtt"}[c%2]
		df := dsts[r.intn(len(dsts))]
		var src []byte
		if sf == "srt" {
			d, _ := renderSrt(r, cues)
			src = []byte(d)
		} else {
			src = renderVTTPlain(cues)
		}
		sp := filepath.Join(dir, fmt.Sprintf("in-%d.%s", c, sf))
		dp := filepath.Join(dir, fmt.Sprintf("out-%d%s", c, dstFormats[df].ext))
		os.WriteFile(sp, src, 0o644)
		var args []string
		var ops []convOp
		switch r.intn(7) {
		case 0:
			args = []string{"convert", "-i", sp, "-o", dp}
		case 1:
			op := convOp{name: "sync", d: r.rangeI64(-625, 625) * 4e7}
			if op.d == 0 {
				op.d = 4e7
			}
			args = []string{"sync", "-i", sp, "-o", dp, "-s", time.Duration(op.d).String()}
			ops = []convOp{op}
		case 2, 3:
			op := convOp{name: "fragment", f: (5 + r.i64n(745)) * 4e7}
			if c%3 == 0 && r.chance(1, 2) {
				// at or beyond the end of the last-listed cue, inside the long first cue
				last := cues[len(cues)-1].End
				op.f = last + r.i64n(10)*4e7
			}
			args = []string{"fragment", "-i", sp, "-o", dp, "-f", time.Duration(op.f).String()}
			ops = []convOp{op}
		case 4:
			args = []string{"unfragment", "-i", sp, "-o", dp}
			ops = []convOp{{name: "unfragment"}}
		case 5:
			args = []string{"optimize", "-i", sp, "-o", dp}
			ops = []convOp{{name: "optimize"}}
		default:
			mc := plainCues(r, 1+r.intn(3))
			for i := range mc {
				mc[i].Start = r.i64n(500) * 4e7
				mc[i].End = mc[i].Start + (5+r.i64n(100))*4e7
				mc[i].Lines = mc[i].Lines[:1]
				mc[i].Lines[0][0].Text = fmt.Sprintf("m%d %s", i, mc[i].Lines[0][0].Text)
			}
			md, _ := renderSrt(r, mc)
			mp := filepath.Join(dir, fmt.Sprintf("merge-%d.srt", c))
			os.WriteFile(mp, []byte(md), 0o644)
			defer os.Remove(mp)
			args = []string{"merge", "-i", sp, "-i", mp, "-o", dp}
			ops = []convOp{{name: "merge", mergeWith: mc, mergeBytes: []byte(md)}}
		}
		R.count("cli." + args[0])
		wantCLI := applyOpsSpec(want, ops)
		h := map[string]interface{}{"source": sf, "destination": df, "cues": want, "entry": "cli", "args": strings.Join(args, " "), "source_bytes": string(src)}
		o := &obs{Suite: "convert", Group: "convert.cli.unordered", NoModel: true, NT: true, Input: fmt.Sprintf("cliu %d %s %s %s %s", c, sf, df, args[0], hashBytes(src)), Human: h}
		cmd := exec.Command(cli, args...)
		outb, cerr := cmd.CombinedOutput()
		nonneg := true
		for _, w := range wantCLI {
			if w.Start < 0 || w.End < 0 {
				nonneg = false
			}
		}
		switch {
		case len(wantCLI) == 0 || !nonneg:
		case cerr != nil:
			o.Oracle, o.Sig = fmt.Sprintf("%s -> %s via CLI %s failed: %v %s", sf, df, args[0], cerr, trunc(string(outb), 200)), "convert-cli-fail-"+sf+"->"+df
		default:
			back, rerr := astisub.OpenFile(dp)
			if rerr != nil {
				o.Oracle, o.Sig = fmt.Sprintf("%s -> %s via CLI: re-reading failed: %v", sf, df, rerr), "convert-reread-"+df
			} else if m := comparePlain(plainOf(back), wantCLI, dstFormats[df].unit, 0); m != "" {
				o.Oracle, o.Sig = fmt.Sprintf("%s -> %s via CLI %s: %s", sf, df, args[0], m), "convert-value-"+sf+"->"+df
			}
		}
		os.Remove(sp)
		os.Remove(dp)
		R.add(o)
	}
}
