package main

// C07, command-line entry point on lists that are not "nice": cue lists in arbitrary order with overlaps, operation
// parameters spanning the whole time range of the list (fragment durations below, inside and beyond the cues' ends,
// shifts that remove or clamp cues), every sub-command, SubRip/WebVTT sources, every destination format.  The oracle is
// the one of the matrix: the destination read back = the operation's specification applied to the source cues.

import (
	"bytes"
	"fmt"
	"os"
	"os/exec"
	"path/filepath"
	"strings"
	"time"

	astisub "github.com/asticode/go-astisub"
)

func suiteConvertCLI(R *runner, r *rng) {
	R.rule("CLI on unordered / overlapping lists: 2..6 cues with starts in 0..20 s in arbitrary order, durations 0.2..10 s (overlaps, a long cue listed before short ones); sub-commands convert, sync (shifts in -25..25 s), fragment (durations 0.2..30 s, i.e. below, inside and beyond the end of the last-listed cue), unfragment, optimize, merge; sources srt/vtt, destinations srt/vtt/ttml/ssa/stl; oracle: destination read back = the operation's specification applied to the source cues (times at the destination's resolution, text without white space)")
	cli := filepath.Join(buildDir, "astisub-cli")
	if _, err := os.Stat(cli); err != nil {
		R.note("CLI binary not built: " + err.Error())
		return
	}
	dir, _ := os.MkdirTemp("", "verif-cli")
	defer os.RemoveAll(dir)
	N := 60
	if R.tier == "thorough" {
		N = 1500
	}
	dsts := []string{"srt", "vtt", "ttml", "ssa", "stl"}
	for c := 0; c < N; c++ {
		n := 2 + r.intn(5)
		cues := plainCues(r, n)
		for i := range cues {
			cues[i].Start = r.i64n(500) * 4e7
			cues[i].End = cues[i].Start + (5+r.i64n(245))*4e7
			cues[i].Lines = cues[i].Lines[:1]
			cues[i].Lines[0][0].Text = fmt.Sprintf("c%d %s", i, cues[i].Lines[0][0].Text)
		}
		if c%3 == 0 {
			// a long cue listed first, short ones after it
			cues[0].Start, cues[0].End = (1+r.i64n(50))*4e7, (200+r.i64n(300))*4e7
			for i := 1; i < len(cues); i++ {
				cues[i].Start = cues[0].Start + (1+r.i64n(100))*4e7
				cues[i].End = cues[i].Start + (5+r.i64n(40))*4e7
			}
		}
		if c%4 == 1 {
			cues[1].Lines = cues[0].Lines // same text: unfragment has something to put together
		}
		var want []plainCue
		for _, cu := range cues {
			var ls []string
			for _, l := range plainLines(cu) {
				ls = append(ls, nows(l))
			}
			want = append(want, plainCue{cu.Start, cu.End, ls})
		}
		sf := []string{"srt", "vtt"}[c%2]
		df := dsts[r.intn(len(dsts))]
		var src []byte
		if sf == "srt" {
			d, _ := renderSrt(r, cues)
			src = []byte(d)
		} else {
			src = renderVTTPlain(cues)
		}
		sp := filepath.Join(dir, fmt.Sprintf("in-%d.%s", c, sf))
		dp := filepath.Join(dir, fmt.Sprintf("out-%d%s", c, dstFormats[df].ext))
		os.WriteFile(sp, src, 0o644)
		var args []string
		var ops []convOp
		switch r.intn(7) {
		case 0:
			args = []string{"convert", "-i", sp, "-o", dp}
		case 1:
			op := convOp{name: "sync", d: r.rangeI64(-625, 625) * 4e7}
			if op.d == 0 {
				op.d = 4e7
			}
			args = []string{"sync", "-i", sp, "-o", dp, "-s", time.Duration(op.d).String()}
			ops = []convOp{op}
		case 2, 3:
			op := convOp{name: "fragment", f: (5 + r.i64n(745)) * 4e7}
			if c%3 == 0 && r.chance(1, 2) {
				// at or beyond the end of the last-listed cue, inside the long first cue
				last := cues[len(cues)-1].End
				op.f = last + r.i64n(10)*4e7
			}
			args = []string{"fragment", "-i", sp, "-o", dp, "-f", time.Duration(op.f).String()}
			ops = []convOp{op}
		case 4:
			args = []string{"unfragment", "-i", sp, "-o", dp}
			ops = []convOp{{name: "unfragment"}}
		case 5:
			args = []string{"optimize", "-i", sp, "-o", dp}
			ops = []convOp{{name: "optimize"}}
		default:
			mc := plainCues(r, 1+r.intn(3))
			for i := range mc {
				mc[i].Start = r.i64n(500) * 4e7
				mc[i].End = mc[i].Start + (5+r.i64n(100))*4e7
				mc[i].Lines = mc[i].Lines[:1]
				mc[i].Lines[0][0].Text = fmt.Sprintf("m%d %s", i, mc[i].Lines[0][0].Text)
			}
			md, _ := renderSrt(r, mc)
			mp := filepath.Join(dir, fmt.Sprintf("merge-%d.srt", c))
			os.WriteFile(mp, []byte(md), 0o644)
			defer os.Remove(mp)
			args = []string{"merge", "-i", sp, "-i", mp, "-o", dp}
			ops = []convOp{{name: "merge", mergeWith: mc, mergeBytes: []byte(md)}}
		}
		R.count("cli." + args[0])
		wantCLI := applyOpsSpec(want, ops)
		h := map[string]interface{}{"source": sf, "destination": df, "cues": want, "entry": "cli", "args": strings.Join(args, " "), "source_bytes": string(src)}
		o := &obs{Suite: "convert", Group: "convert.cli.unordered", NoModel: true, NT: true, Input: fmt.Sprintf("cliu %d %s %s %s %s", c, sf, df, args[0], hashBytes(src)), Human: h}
		cmd := exec.Command(cli, args...)
		outb, cerr := cmd.CombinedOutput()
		nonneg := true
		for _, w := range wantCLI {
			if w.Start < 0 || w.End < 0 {
				nonneg = false
			}
		}
		switch {
		case len(wantCLI) == 0 || !nonneg:
		case cerr != nil:
			o.Oracle, o.Sig = fmt.Sprintf("%s -> %s via CLI %s failed: %v %s", sf, df, args[0], cerr, trunc(string(outb), 200)), "convert-cli-fail-"+sf+"->"+df
		default:
			back, rerr := astisub.OpenFile(dp)
			if rerr != nil {
				o.Oracle, o.Sig = fmt.Sprintf("%s -> %s via CLI: re-reading failed: %v", sf, df, rerr), "convert-reread-"+df
			} else if m := comparePlain(plainOf(back), wantCLI, dstFormats[df].unit, 0); m != "" {
				o.Oracle, o.Sig = fmt.Sprintf("%s -> %s via CLI %s: %s", sf, df, args[0], m), "convert-value-"+sf+"->"+df
			}
		}
		os.Remove(sp)
		os.Remove(dp)
		R.add(o)
	}
}

// The CLI binary against the model (Model/Cli.v cli_run): every sub-command, valid and invalid flag values, every pair
// of the codecs registered for the plain view; output file bytes (STL destinations: the two date fields, which come from
// the real clock, masked) or the refusal (non-zero exit) compared with the model.
func suiteConvertCLIModel(R *runner, r *rng) {
	R.rule("CLI vs model: sub-commands apply-linear-correction / convert / fragment / merge / optimize / sync / unfragment / an invalid one, flags valid and invalid (zero or negative durations, missing second input), unstyled cue lists in arbitrary order with overlaps written by the library in the source format, every (source, destination) pair of the modelled codecs; the CLI's output bytes (or its refusal) vs cli_run")
	cli := filepath.Join(buildDir, "astisub-cli")
	if _, err := os.Stat(cli); err != nil {
		R.note("CLI binary not built: " + err.Error())
		return
	}
	dir, _ := os.MkdirTemp("", "verif-clim")
	defer os.RemoveAll(dir)
	N := 80
	if R.tier == "thorough" {
		N = 2000
	}
	ext := map[string]string{"srt": ".srt", "vtt": ".vtt", "ssa": ".ssa", "stl": ".stl", "ttml": ".ttml"}
	for c := 0; c < N; c++ {
		src := plainCodecs[r.intn(len(plainCodecs))]
		dst := plainCodecs[r.intn(len(plainCodecs))]
		if _, skip := plainSkipPairs[src.name+"->"+dst.name]; skip {
			continue
		}
		n := 1 + r.intn(5)
		cues := plainCues(r, n)
		for i := range cues {
			cues[i].Start = r.i64n(500) * 4e7
			cues[i].End = cues[i].Start + (5+r.i64n(245))*4e7
		}
		if c%3 != 0 {
			sortCuesByStart(cues)
		}
		var buf bytes.Buffer
		if err := src.write(subsFromCues(cues), &buf); err != nil {
			continue
		}
		doc := buf.Bytes()
		sp := filepath.Join(dir, fmt.Sprintf("in-%d%s", c, ext[src.name]))
		dp := filepath.Join(dir, fmt.Sprintf("out-%d%s", c, ext[dst.name]))
		os.WriteFile(sp, doc, 0o644)
		var a1, d1, a2, d2, f, sy int64
		cmd := r.intn(8)
		args := []string{}
		var second []byte
		dur := func(v int64) string { return time.Duration(v).String() }
		switch cmd {
		case 0:
			a1 = r.i64n(10) * 1e9
			if r.chance(1, 6) {
				a1 = 0 // refused
			} else if a1 == 0 {
				a1 = 1e9
			}
			a2 = a1 + (1+r.i64n(3000))*1e9
			d1 = a1 + r.i64n(3)*1e9
			d2 = a2 + r.i64n(20)*1e9
			if r.chance(1, 8) {
				d1 = -d1 // refused
			}
			args = []string{"apply-linear-correction", "-i", sp, "-o", dp, "-a1", dur(a1), "-d1", dur(d1), "-a2", dur(a2), "-d2", dur(d2)}
		case 1:
			args = []string{"convert", "-i", sp, "-o", dp}
		case 2:
			f = (r.i64n(750) - 20) * 4e7 // zero and negative values are refused
			args = []string{"fragment", "-i", sp, "-o", dp, "-f", dur(f)}
		case 3:
			args = []string{"merge", "-i", sp}
			if r.chance(5, 6) {
				mc := plainCues(r, 1+r.intn(3))
				md, _ := renderSrt(r, mc)
				second = []byte(md)
				mp := filepath.Join(dir, fmt.Sprintf("second-%d.srt", c))
				os.WriteFile(mp, second, 0o644)
				defer os.Remove(mp)
				args = append(args, "-i", mp)
			}
			args = append(args, "-o", dp)
		case 4:
			args = []string{"optimize", "-i", sp, "-o", dp}
		case 5:
			sy = r.rangeI64(-300, 625) * 4e7
			if r.chance(1, 6) {
				sy = 0 // refused
			}
			args = []string{"sync", "-i", sp, "-o", dp, "-s", dur(sy)}
		case 6:
			args = []string{"unfragment", "-i", sp, "-o", dp}
		default:
			args = []string{"frobnicate", "-i", sp, "-o", dp}
		}
		// the property's proviso: non-negative times (decided with the operation's specification)
		if cmd == 5 || cmd == 0 {
			neg := false
			s0, _ := src.read(doc)
			var ops []convOp
			if cmd == 5 {
				ops = []convOp{{name: "sync", d: sy}}
			} else if a1 > 0 && d1 > 0 {
				ops = []convOp{{name: "linear", a1: a1, d1: d1, a2: a2, d2: d2}}
			}
			if s0 != nil {
				for _, w := range applyOpsSpecRaw(rawPlainOf(s0), ops, nil) {
					if w.Start < 0 || w.End < 0 {
						neg = true
					}
				}
			}
			if neg {
				R.count("cli.model.skipped.negative_times")
				os.Remove(sp)
				continue
			}
		}
		e := (&enc{}).n(src.code).n(dst.code).bytes(doc).n(cmd).i(a1).i(d1).i(a2).i(d2).i(f).i(sy)
		if second != nil {
			e.n(1).bytes(second)
		} else {
			e.n(0)
		}
		R.count("cli.model." + args[0])
		o := &obs{Suite: "cliplain", Group: "cli.model", Input: e.String(), NT: true,
			Human: map[string]interface{}{"source": src.name, "destination": dst.name, "args": strings.Join(args, " "), "document": string(doc)}}
		out, cerr := exec.Command(cli, args...).CombinedOutput()
		if cerr != nil {
			o.Impl = "1"
			o.Human.(map[string]interface{})["cli_output"] = trunc(string(out), 200)
		} else if b, rerr := os.ReadFile(dp); rerr != nil {
			o.Impl = "1"
		} else {
			if dst.name == "stl" && len(b) >= 236 {
				for i := 224; i <= 235; i++ {
					b[i] = '0'
				}
			}
			o.Impl = (&enc{}).n(0).bytes(b).String()
		}
		os.Remove(sp)
		os.Remove(dp)
		R.add(o)
	}
}

func sortCuesByStart(cues []srtCue) {
	for i := 1; i < len(cues); i++ {
		for j := i; j > 0 && cues[j-1].Start > cues[j].Start; j-- {
			cues[j-1], cues[j] = cues[j], cues[j-1]
		}
	}
}
