package main

import (
	"bufio"
	"bytes"
	"fmt"
	"io"

	astisub "github.com/asticode/go-astisub"
)

// C17 / C18 for teletext on the implementation, widened (second audit, N1): a stream of more than 70 kB for the
// 4096/65536-aligned splits, explicit PID / explicit page variants, and non-seekable scheduled readers compared with the
// one-shot result of the same non-seekable kind of reader.

type ttxStream struct {
	name      string
	data      []byte
	pid, page int
}

// bigTeletextStream: page 888 on PID 300, one PES packet per instance and per erase page: > 70 kB of 188-byte packets
func bigTeletextStream(r *rng) (ttxStream, error) {
	var ds []tmDelivery
	var t int64
	for i := 0; i < 210; i++ {
		d := append([]byte{0x10}, headerPacket(8, 88, ttxHeaderOpts{subtitle: true})...)
		for k, nr := 0, 1+r.intn(2); k < nr; k++ {
			d = append(d, rowPacket(8, k+1, []byte(fmt.Sprintf("\x0b\x0bcue %d row %d\x0a", i, k)))...)
		}
		ds = append(ds, tmDelivery{T: t, Data: d})
		t += int64(500 + r.intn(2000))
		ds = append(ds, tmDelivery{T: t, Data: append([]byte{0x10}, headerPacket(8, 88, ttxHeaderOpts{subtitle: true})...)})
		t += int64(1 + r.intn(500))
	}
	ts, err := tmTS(300, ds)
	return ttxStream{"big", ts, 300, 888}, err
}

func teletextStreams(r *rng, n int, big bool) []ttxStream {
	var out []ttxStream
	for i := 0; i < n; i++ {
		sch := randSchedule(r)
		mux := ttxMux{unitsPerPES: r.intn(4), distractors: r.chance(1, 2), stuffing: r.chance(1, 3), otherPID: r.chance(1, 3)}
		if ts, _, err := buildTS(r, sch, mux); err == nil {
			out = append(out, ttxStream{fmt.Sprintf("stream-%d", i), ts, int(sch.PID), sch.Magazine*100 + sch.Page})
		}
	}
	if big {
		if s, err := bigTeletextStream(r); err == nil {
			out = append(out, s)
		}
	}
	return out
}

// the kinds of reader ReadFromTeletext distinguishes: seekable (rewound after the packet size / PID detection), plain
// (re-synchronised with a Read), *bufio.Reader (peeked into).  one-shot reader and scheduled reader of each kind
var ttxKinds = []struct {
	name    string
	oneshot func(data []byte) io.Reader
	sched   func(s *schedReader) io.Reader
}{
	{"seekable", func(d []byte) io.Reader { return bytes.NewReader(d) }, func(s *schedReader) io.Reader { return schedSeeker{s} }},
	{"nonseekable", func(d []byte) io.Reader { return io.MultiReader(bytes.NewReader(d)) }, func(s *schedReader) io.Reader { return s }},
	{"bufio", func(d []byte) io.Reader { return bufio.NewReader(io.MultiReader(bytes.NewReader(d))) }, func(s *schedReader) io.Reader { return bufio.NewReader(s) }},
}

type ttxVariant struct {
	name string
	opts func(s ttxStream) astisub.TeletextOptions
}

var ttxVariants = []ttxVariant{
	{"auto", func(s ttxStream) astisub.TeletextOptions { return astisub.TeletextOptions{} }},
	{"pid", func(s ttxStream) astisub.TeletextOptions { return astisub.TeletextOptions{PID: s.pid} }},
	{"page", func(s ttxStream) astisub.TeletextOptions { return astisub.TeletextOptions{Page: s.page} }},
	{"pid+page", func(s ttxStream) astisub.TeletextOptions { return astisub.TeletextOptions{PID: s.pid, Page: s.page} }},
}

func readTeletextSnapshot(rd io.Reader, o astisub.TeletextOptions) (string, int) {
	var s *astisub.Subtitles
	var err error
	p := safely(func() { s, err = astisub.ReadFromTeletext(rd, o) })
	n := 0
	if s != nil && err == nil && p == "" {
		n = len(s.Items)
	}
	return snapshot(s, err, p), n
}

func suiteTeletextSchedules(R *runner, r *rng) {
	R.rule("teletext schedules, widened: generated transport streams (C06 generator, with and without a second elementary stream) and one stream of more than 70 kB x reader options (PID and page auto-detected, PID given, page given, both given) x reader kind (seekable scheduled reader against a one-shot bytes.Reader; NON-seekable scheduled reader against a one-shot non-seekable reader = io.MultiReader around a bytes.Reader; *bufio.Reader around the non-seekable scheduled reader against one around the one-shot reader) x delivery schedules (first read of 1, 2, 187, 188, 189, 192, 193, 194, 376 bytes and half the stream; one-byte reads; empty reads interleaved; random chunk sequences; last bytes with EOF; on the big stream chunks of 128, 188, 193, 1024, 4095, 4096, 4097, 8192, 65535, 65536 and random chunks up to 9000); oracle: the parse result (deep snapshot or the fact of failing) equals the one-shot result of the same kind of reader with the same options; counted: how many one-shot results have cues; non-trivial = the schedule splits the stream")
	streams := teletextStreams(r, 3, true)
	for _, st := range streams {
		n := len(st.data)
		if st.name == "big" {
			R.note(fmt.Sprintf("teletext schedules: the big stream has %d bytes (%d packets of 188)", n, n/188))
			if n < 70000 {
				fatal("teletext big stream too small: %d bytes", n)
			}
		}
		for _, v := range ttxVariants {
			o := v.opts(st)
			for _, kd := range ttxKinds {
				kd := kd
				kind := kd.name
				base, cues := readTeletextSnapshot(kd.oneshot(st.data), o)
				R.count("sched.teletext.oneshot." + kind + "." + v.name)
				if cues > 0 {
					R.count("sched.teletext.oneshot_with_cues." + kind + "." + v.name)
				}
				if base == "ERR" {
					R.count("sched.teletext.oneshot_fails." + kind + "." + v.name)
				}
				try := func(counts []int, withEOF bool, group string) {
					sr := &schedReader{data: st.data, counts: counts, withEOF: withEOF, failAt: -1}
					got, _ := readTeletextSnapshot(kd.sched(sr), o)
					ob := &obs{Suite: "sched", Group: group + ".teletext." + kind + "." + v.name, NoModel: true, NT: len(counts) > 0,
						Input: fmt.Sprintf("teletext/%s %s %s %s", st.name, kind, v.name, describeSchedule(counts, withEOF)),
						Human: map[string]interface{}{"doc": st.name, "len": n, "reader": kind, "options": fmt.Sprintf("%+v", o), "schedule": describeSchedule(counts, withEOF)}}
					if got != base {
						ob.Oracle = fmt.Sprintf("teletext reader (%s, options %+v): result under schedule %s differs from the one-shot result of the same kind of reader (one-shot %s, scheduled %s)", kind, o, describeSchedule(counts, withEOF), trunc(base, 160), trunc(got, 160))
						ob.Sig = "sched-teletext-" + kind
					}
					R.add(ob)
				}
				chunks := func(a int) []int {
					var cs []int
					for k := 0; k*a < n+a; k++ {
						cs = append(cs, a)
					}
					return cs
				}
				if st.name == "big" {
					for _, a := range []int{128, 188, 193, 1024, 4095, 4096, 4097, 8192, 65535, 65536} {
						try(chunks(a), false, "sched.aligned")
						try(chunks(a), true, "sched.aligned")
					}
					try(chunks(1), false, "sched.onebyte")
					for k := 0; k < 4; k++ {
						var cs []int
						for tot := 0; tot < n; {
							c := 1 + r.intn(9000)
							cs = append(cs, c)
							tot += c
						}
						try(cs, r.chance(1, 2), "sched.random")
					}
					continue
				}
				for _, k := range []int{1, 2, 187, 188, 189, 192, 193, 194, 376, n / 2} {
					try([]int{k}, false, "sched.split")
					try([]int{k, 1, 182, 183, 184, 5}, true, "sched.split")
				}
				try(chunks(1), false, "sched.onebyte")
				try(chunks(1), true, "sched.onebyte")
				try(chunks(187), false, "sched.aligned")
				try(chunks(189), true, "sched.aligned")
				try([]int{0, n / 3, 0, 0, n / 3}, false, "sched.empty_reads")
				try([]int{n}, true, "sched.eof_with_data")
				for k := 0; k < 4; k++ {
					var cs []int
					for tot := 0; tot < n; {
						c := r.intn(400)
						if r.chance(1, 6) {
							c = 0
						}
						cs = append(cs, c)
						tot += c
					}
					try(cs, r.chance(1, 2), "sched.random")
				}
			}
		}
	}
}

func suiteTeletextFaults(R *runner, r *rng) {
	R.rule("teletext read faults, widened: generated transport streams and one of more than 70 kB x reader options (auto, PID, page, both) x reader kind (seekable / non-seekable scheduled reader / *bufio.Reader around it) whose one-shot read succeeds x a read error (not EOF) at byte offset k (every k up to 188*3, then sampled: 300 offsets per case quick, 3000 thorough), alone or with the last bytes, under a random first chunk; oracle: a non-nil error is returned and no panic; non-trivial = the fault hits before the end of the stream")
	per := 300
	if R.tier == "thorough" {
		per = 3000
	}
	for _, st := range teletextStreams(r, 2, true) {
		n := len(st.data)
		for _, v := range ttxVariants {
			o := v.opts(st)
			for _, kd := range ttxKinds {
				kind := kd.name
				base, _ := readTeletextSnapshot(kd.oneshot(st.data), o)
				if base == "ERR" || base == "PANIC" {
					R.count("fault.read.teletext.oneshot_fails." + kind + "." + v.name)
					continue
				}
				step := 1
				if n > per {
					step = n/per + 1
				}
				for k := 0; k < n; {
					withData := r.chance(1, 3)
					sr := &schedReader{data: st.data, failAt: k, failWithData: withData, counts: []int{r.intn(n + 1), r.intn(400)}}
					rd := kd.sched(sr)
					var s *astisub.Subtitles
					var err error
					p := safely(func() { s, err = astisub.ReadFromTeletext(rd, o) })
					ob := &obs{Suite: "fault", Group: "fault.read.teletext." + kind + "." + v.name, NoModel: true, NT: true,
						Input: fmt.Sprintf("teletext/%s %s %s fault at %d with_data=%v", st.name, kind, v.name, k, withData),
						Human: map[string]interface{}{"doc": st.name, "len": n, "reader": kind, "options": fmt.Sprintf("%+v", o), "fault_offset": k, "fault_with_last_bytes": withData}}
					if p != "" {
						ob.Oracle, ob.Sig = "teletext reader panicked under a read fault: "+p, "fault-read-panic-teletext"
					} else if err == nil {
						cues := 0
						if s != nil {
							cues = len(s.Items)
						}
						ob.Oracle = fmt.Sprintf("teletext reader (%s, options %+v): stream failed at offset %d of %d but no error was returned (%d cues)", kind, o, k, n, cues)
						ob.Sig = "fault-read-teletext-" + kind
					}
					R.add(ob)
					if k < 188*3 {
						k++
					} else {
						k += step
					}
				}
			}
		}
	}
}
