package main

// C02 WebVTT: ground-truth documents, renderings, an independent decoder of the dialect, suites.

import (
	"bytes"
	"fmt"
	"regexp"
	"sort"
	"strconv"
	"strings"
	"time"
	"unicode"

	astisub "github.com/asticode/go-astisub"
)

type vttTag struct {
	Name       string
	Classes    []string
	Annotation string
}
type vttRun struct {
	Text string
	Tags []vttTag
	Time int64 // inline timestamp, ns (0 = none)
}
type vttLine struct {
	Voice string
	Runs  []vttRun
}
type vttCue struct {
	Start, End int64
	ID         int
	Comments   []string
	Region     string
	Settings   map[string]string // align line position size vertical
	Lines      []vttLine
}
type vttRegion struct {
	ID                                          string
	Lines                                       int
	Width, RegionAnchor, ViewportAnchor, Scroll string
}
type vttDoc struct {
	Cues    []vttCue
	Regions []vttRegion
	Styles  []string // lines of the STYLE blocks, in order
	TSMap   *[2]int64
}

func tagString(t vttTag) string {
	s := t.Name
	if len(t.Classes) > 0 {
		s += "." + strings.Join(t.Classes, ".")
	}
	if t.Annotation != "" {
		s += " " + t.Annotation
	}
	return s
}
func tagsString(ts []vttTag) string {
	var p []string
	for _, t := range ts {
		p = append(p, tagString(t))
	}
	return strings.Join(p, ">")
}

type vttStyledRune struct {
	R    rune
	Tags string
	Time int64
}

func canonVttLine(l vttLine) []vttStyledRune {
	var out []vttStyledRune
	for _, r := range l.Runs {
		for _, ru := range r.Text {
			out = append(out, vttStyledRune{ru, tagsString(r.Tags), r.Time})
		}
	}
	return out
}

func vttDocsEqual(got, want *vttDoc) string {
	if len(got.Cues) != len(want.Cues) {
		return fmt.Sprintf("%d cues, want %d", len(got.Cues), len(want.Cues))
	}
	for i := range want.Cues {
		g, w := got.Cues[i], want.Cues[i]
		if g.Start != w.Start || g.End != w.End {
			return fmt.Sprintf("cue %d: [%d,%d) ms, want [%d,%d) ms", i+1, g.Start/1e6, g.End/1e6, w.Start/1e6, w.End/1e6)
		}
		if g.ID != w.ID {
			return fmt.Sprintf("cue %d: identifier %d, want %d", i+1, g.ID, w.ID)
		}
		if strings.Join(g.Comments, "\n") != strings.Join(w.Comments, "\n") {
			return fmt.Sprintf("cue %d: comments %q, want %q", i+1, g.Comments, w.Comments)
		}
		if g.Region != w.Region {
			return fmt.Sprintf("cue %d: region %q, want %q", i+1, g.Region, w.Region)
		}
		for _, k := range []string{"align", "line", "position", "size", "vertical"} {
			if g.Settings[k] != w.Settings[k] {
				return fmt.Sprintf("cue %d: setting %s=%q, want %q", i+1, k, g.Settings[k], w.Settings[k])
			}
		}
		if len(g.Lines) != len(w.Lines) {
			return fmt.Sprintf("cue %d: %d lines, want %d", i+1, len(g.Lines), len(w.Lines))
		}
		for l := range w.Lines {
			if g.Lines[l].Voice != w.Lines[l].Voice {
				return fmt.Sprintf("cue %d line %d: voice %q, want %q", i+1, l+1, g.Lines[l].Voice, w.Lines[l].Voice)
			}
			cg, cw := canonVttLine(g.Lines[l]), canonVttLine(w.Lines[l])
			if len(cg) != len(cw) {
				return fmt.Sprintf("cue %d line %d: text %q, want %q", i+1, l+1, runesOfVtt(cg), runesOfVtt(cw))
			}
			for k := range cw {
				if cg[k] != cw[k] {
					return fmt.Sprintf("cue %d line %d: rune %d of %q is %+v, want %+v", i+1, l+1, k, runesOfVtt(cw), cg[k], cw[k])
				}
			}
		}
	}
	if len(got.Regions) != len(want.Regions) {
		return fmt.Sprintf("%d regions, want %d", len(got.Regions), len(want.Regions))
	}
	for i := range want.Regions {
		if got.Regions[i] != want.Regions[i] {
			return fmt.Sprintf("region %d: %+v, want %+v", i, got.Regions[i], want.Regions[i])
		}
	}
	if strings.Join(got.Styles, "\n") != strings.Join(want.Styles, "\n") {
		return fmt.Sprintf("STYLE lines %q, want %q", got.Styles, want.Styles)
	}
	if (got.TSMap == nil) != (want.TSMap == nil) || (want.TSMap != nil && *got.TSMap != *want.TSMap) {
		return fmt.Sprintf("timestamp map %v, want %v", got.TSMap, want.TSMap)
	}
	return ""
}

func runesOfVtt(l []vttStyledRune) string {
	var b strings.Builder
	for _, r := range l {
		b.WriteRune(r.R)
	}
	return b.String()
}

// ---- generation ---------------------------------------------------------------------------------

var vttWords = []string{"hello", "world", " ", "a&b", "1<2", "é", "中文", "😀", "x y", "don't", "...", "-", " ", "ok?", "q"}

func vttText(r *rng, n int) string {
	var b strings.Builder
	for i := 0; i < 1+r.intn(n); i++ {
		b.WriteString(vttWords[r.intn(len(vttWords))])
	}
	return b.String()
}

func randVttTag(r *rng) vttTag {
	t := vttTag{Name: r.pick("b", "i", "u", "c", "lang", "ruby", "rt", "customtag")}
	if t.Name == "c" || r.chance(1, 4) {
		for k := 0; k < 1+r.intn(2); k++ {
			t.Classes = append(t.Classes, r.pick("yellow", "bg_blue", "loud", "x1"))
		}
	}
	if t.Name == "lang" {
		t.Annotation = r.pick("en", "fr-FR")
	} else if r.chance(1, 8) {
		t.Annotation = r.pick("note", "a b")
	}
	return t
}

func randVttDoc(r *rng, nested bool) *vttDoc {
	d := &vttDoc{}
	nr := r.intn(3)
	for i := 0; i < nr; i++ {
		rg := vttRegion{ID: fmt.Sprintf("r%d", i)}
		if r.chance(1, 2) {
			rg.Lines = 1 + r.intn(5)
		}
		if r.chance(1, 2) {
			rg.Width = r.pick("40%", "100%")
		}
		if r.chance(1, 2) {
			rg.RegionAnchor = r.pick("0%,100%", "50%,50%")
		}
		if r.chance(1, 2) {
			rg.ViewportAnchor = r.pick("10%,90%", "0%,0%")
		}
		if r.chance(1, 2) {
			rg.Scroll = "up"
		}
		d.Regions = append(d.Regions, rg)
	}
	if r.chance(1, 3) {
		d.Styles = []string{"::cue(b) {", "color: peachpuff;", "}"}
		if r.chance(1, 2) {
			d.Styles = append(d.Styles, "::cue(c) { color: white; }")
		}
	}
	if r.chance(1, 4) {
		d.TSMap = &[2]int64{r.i64n(100) * 1e6, r.i64n(1000000)}
	}
	n := r.intn(6)
	var t int64
	for i := 0; i < n; i++ {
		c := vttCue{Settings: map[string]string{}}
		t += r.i64n(4000) * 1e6
		c.Start = t
		t += (1 + r.i64n(4000)) * 1e6
		c.End = t
		if r.chance(1, 8) {
			c.Start += 3600e9 * r.i64n(30)
			c.End = c.Start + 1e9
			t = c.End
		}
		if r.chance(1, 2) {
			c.ID = 1 + r.intn(500)
		}
		if r.chance(1, 4) {
			c.Comments = []string{r.pick("a comment", "NOTE-like", "second: thing")}
			if r.chance(1, 2) {
				c.Comments = append(c.Comments, "more")
			}
		}
		if len(d.Regions) > 0 && r.chance(1, 3) {
			c.Region = d.Regions[r.intn(len(d.Regions))].ID
		}
		for _, k := range []string{"align", "line", "position", "size", "vertical"} {
			if r.chance(1, 4) {
				c.Settings[k] = map[string][]string{"align": {"start", "center", "end"}, "line": {"0", "-1", "50%"}, "position": {"10%", "50%,line-left"}, "size": {"40%", "100%"}, "vertical": {"rl", "lr"}}[k][r.intn(2)]
			}
		}
		nl := 1 + r.intn(3)
		var stack []vttTag
		for l := 0; l < nl; l++ {
			ln := vttLine{}
			if r.chance(1, 4) {
				ln.Voice = r.pick("Bob", "Mary Ann", "Dr. X")
			}
			nk := 1 + r.intn(3)
			for k := 0; k < nk; k++ {
				// change the stack: pop some, push some (properly nested sequence of states)
				if nested {
					for len(stack) > 0 && r.chance(1, 2) {
						stack = stack[:len(stack)-1]
					}
					for len(stack) < 3 && r.chance(1, 2) {
						stack = append(stack, randVttTag(r))
					}
				}
				run := vttRun{Text: vttText(r, 3), Tags: append([]vttTag{}, stack...)}
				// karaoke style: once a run of the line carries an inline timestamp, every later run does too
				prevTimed := k > 0 && ln.Runs[k-1].Time != 0
				if prevTimed || r.chance(1, 6) {
					if strings.TrimSpace(run.Text) == "" {
						run.Text = "w" + run.Text
					}
					run.Time = c.Start + r.i64n(c.End-c.Start+1)
					if prevTimed && run.Time <= ln.Runs[k-1].Time {
						run.Time = ln.Runs[k-1].Time + 1e6
					}
					run.Time -= run.Time % 1e6
					if run.Time == 0 {
						run.Time = 1e6
					}
				}
				ln.Runs = append(ln.Runs, run)
			}
			// a blank run directly before a timestamped one is dropped by the format's readers: not representable
			for k := 0; k+1 < len(ln.Runs); k++ {
				if ln.Runs[k+1].Time != 0 && strings.TrimSpace(ln.Runs[k].Text) == "" {
					ln.Runs[k].Text = "w" + ln.Runs[k].Text
				}
			}
			// the line must not be blank, must not start/end with white space, must not look like a block start
			first, last := &ln.Runs[0], &ln.Runs[len(ln.Runs)-1]
			first.Text = strings.TrimLeftFunc(first.Text, unicode.IsSpace)
			last.Text = strings.TrimRightFunc(last.Text, unicode.IsSpace)
			if first.Text == "" {
				first.Text = "x"
			}
			if last.Text == "" {
				last.Text = "y"
			}
			c.Lines = append(c.Lines, ln)
		}
		d.Cues = append(d.Cues, c)
	}
	return d
}

// ---- rendering ----------------------------------------------------------------------------------

func vttStamp(r *rng, ns int64) string {
	ms := ns / 1e6
	h, m, s, f := ms/3600000, ms/60000%60, ms/1000%60, ms%1000
	if h == 0 && r.chance(1, 2) {
		return fmt.Sprintf("%02d:%02d.%03d", m, s, f)
	}
	return fmt.Sprintf("%02d:%02d:%02d.%03d", h, m, s, f)
}

func vttEsc(s string) string {
	return strings.NewReplacer("&", "&amp;", "<", "&lt;", "\u00a0", "&nbsp;").Replace(s)
}

// renderVtt renders a ground-truth document with every syntactic freedom of the C02 quantifier (the freedoms of the
// theorem C02_read_rendered), all choices drawn from r.  It is renderVttC without statistics.
func renderVtt(r *rng, d *vttDoc) string { return renderVttC(nil, r, d) }

// vttWs is a run of lo..hi characters, each a space or a TAB.
func vttWs(r *rng, lo, hi int) string {
	n := lo + r.intn(hi-lo+1)
	b := make([]byte, n)
	for i := range b {
		b[i] = " \t"[r.intn(2)]
	}
	return string(b)
}

// vttStampFree renders a cue time of a timing line: mm:ss.ttt (only when the hour part is 0) or h..h:mm:ss.ttt with an
// hour field of any width >= 1 (the natural width, or zero-padded to 2, 3, 4 or 20..24 digits).  The second result names
// the form for the statistics.
func vttStampFree(r *rng, ns int64) (string, string) {
	ms := ns / 1e6
	h, m, s, f := ms/3600000, ms/60000%60, ms/1000%60, ms%1000
	if h == 0 && r.chance(1, 3) {
		return fmt.Sprintf("%02d:%02d.%03d", m, s, f), "mmss"
	}
	hs := strconv.FormatInt(h, 10)
	w := []int{1, 1, 2, 2, 2, 3, 4, 20 + r.intn(5)}[r.intn(8)]
	for len(hs) < w {
		hs = "0" + hs
	}
	form := "hwidth.wide"
	if len(hs) <= 4 {
		form = "hwidth." + strconv.Itoa(len(hs))
	}
	return fmt.Sprintf("%s:%02d:%02d.%03d", hs, m, s, f), form
}

// identifier lines that are not numbers: the reader's identifier of the cue is 0, as when the line is absent
var vttGarbageIDs = []string{"cue-1", "intro", "12abc", "1.5", "a b", "#7", "0x10", "é1", "NOTES", "Style", "Regions:", "x-timestamp-map", "- ->", "--"}

var vttSettingPool = map[string][]string{"align": {"start", "center", "end", "left"}, "line": {"0", "-1", "50%", "5"}, "position": {"10%", "50%,line-left", "90%"}, "size": {"40%", "100%", "75%"}, "vertical": {"rl", "lr"}}

// renderVttC is renderVtt recording, in R's distribution (keys vtt.render.*), which freedoms each document used.
// Keys counted once per document: bom, header.*, tsmap, style, regions, eol.*, blank.after_header.*, blank.after_style.*,
// blank.after_regions.*, blank.at_end.*, blank.whitespace_only; the others once per cue (stamp.* once per time).
func renderVttC(R *runner, r *rng, d *vttDoc) string {
	used := map[string]int{}
	once := func(k string) { used[k] = 1 }
	each := func(k string) { used[k]++ }
	var L []string
	// F4: what directly follows a block that was followed by no blank line at all
	pendingZero := ""
	next := func(kind string) {
		if pendingZero != "" {
			each("blank." + pendingZero + ".0.before_" + kind)
			pendingZero = ""
		}
	}
	blanks := func(where string, lo, hi int) {
		n := lo + r.intn(hi-lo+1)
		each(fmt.Sprintf("blank.%s.%d", where, n))
		for i := 0; i < n; i++ {
			if r.chance(1, 4) {
				L = append(L, r.pick(" ", "\t", "  ", " \t", "\t \t"))
				once("blank.whitespace_only")
				each("blank.lines.whitespace")
			} else {
				L = append(L, "")
				each("blank.lines.empty")
			}
		}
		if n == 0 && lo == 0 && where != "at_end" {
			pendingZero = where
		}
	}
	// F12
	eol := r.pick("\n", "\r\n", "\r")
	once("eol." + map[string]string{"\n": "lf", "\r\n": "crlf", "\r": "cr"}[eol])
	// F2
	hdr := "WEBVTT"
	switch r.intn(4) {
	case 0, 1:
		once("header.bare")
	case 2:
		hdr += " " + r.pick("- some title", "", "Kind: captions", "- a --> b", vttText(r, 3))
		once("header.space_text")
	case 3:
		hdr += "\t" + r.pick("File", "", "- some title", "NOTE x", vttText(r, 3))
		once("header.tab_text")
	}
	L = append(L, hdr)
	// F3
	if d.TSMap != nil {
		L = append(L, fmt.Sprintf("X-TIMESTAMP-MAP=LOCAL:%s,MPEGTS:%d", stamp(d.TSMap[0], ".", 3, false), d.TSMap[1]))
		once("tsmap")
	}
	blanks("after_header", 0, 3)
	// F5
	if len(d.Styles) > 0 {
		next("style")
		once("style")
		L = append(L, "STYLE")
		L = append(L, d.Styles...)
		blanks("after_style", 1, 3)
	}
	// F6
	for _, rg := range d.Regions {
		next("region")
		parts := []string{"id=" + rg.ID}
		if rg.Lines != 0 {
			parts = append(parts, "lines="+strconv.Itoa(rg.Lines))
		}
		if rg.RegionAnchor != "" {
			parts = append(parts, "regionanchor="+rg.RegionAnchor)
		}
		if rg.Scroll != "" {
			parts = append(parts, "scroll="+rg.Scroll)
		}
		if rg.ViewportAnchor != "" {
			parts = append(parts, "viewportanchor="+rg.ViewportAnchor)
		}
		if rg.Width != "" {
			parts = append(parts, "width="+rg.Width)
		}
		// any order after the id
		rest := parts[1:]
		for i := len(rest) - 1; i > 0; i-- {
			j := r.intn(i + 1)
			rest[i], rest[j] = rest[j], rest[i]
		}
		L = append(L, "Region: "+strings.Join(parts, " "))
	}
	if len(d.Regions) > 0 {
		once("regions")
		blanks("after_regions", 0, 3)
	}
	for ci, c := range d.Cues {
		each("cues")
		// F7
		if len(c.Comments) > 0 {
			next("note")
			each("note")
			if len(c.Comments) > 1 {
				each("note.multiline")
			}
			L = append(L, "NOTE "+c.Comments[0])
			L = append(L, c.Comments[1:]...)
			blanks("after_note", 1, 3)
		}
		// F8
		switch {
		case c.ID != 0:
			next("id")
			each("id.numeric")
			L = append(L, strconv.Itoa(c.ID))
		case r.chance(1, 3):
			next("garbage_id")
			each("id.garbage")
			L = append(L, vttGarbageIDs[r.intn(len(vttGarbageIDs))])
		default:
			each("id.absent")
		}
		next("timing")
		// F9, F10
		s1, f1 := vttStampFree(r, c.Start)
		s2, f2 := vttStampFree(r, c.End)
		each("stamp." + f1)
		each("stamp." + f2)
		if f1 != f2 {
			each("stamp.start_end_differ")
		}
		if c.Start >= 100*3600e9 {
			each("stamp.hours_ge_100")
		}
		if c.End >= 100*3600e9 {
			each("stamp.hours_ge_100")
		}
		w1, w2 := vttWs(r, 0, 2), vttWs(r, 0, 2)
		each(fmt.Sprintf("arrow.before.%d", len(w1)))
		each(fmt.Sprintf("arrow.after.%d", len(w2)))
		if w1 == "" && w2 == "" {
			each("arrow.tight")
		}
		if strings.Contains(w1+w2, "\t") {
			each("arrow.tab")
		}
		tl := s1 + w1 + "-->" + w2 + s2
		// F11: the settings present, in any order; a repeated key is rendered with another value first (the reader keeps
		// the last occurrence, which is the ground truth's)
		var kv [][2]string
		for _, k := range []string{"align", "line", "position", "region", "size", "vertical"} {
			v := c.Settings[k]
			if k == "region" {
				v = c.Region
			}
			if v != "" {
				kv = append(kv, [2]string{k, v})
			}
		}
		for i := len(kv) - 1; i > 0; i-- {
			j := r.intn(i + 1)
			kv[i], kv[j] = kv[j], kv[i]
		}
		for i := 0; i+1 < len(kv); i++ {
			if kv[i][0] > kv[i+1][0] {
				each("settings.shuffled")
				break
			}
		}
		if len(kv) > 0 && r.chance(1, 5) {
			i := r.intn(len(kv))
			k, v := kv[i][0], ""
			if k == "region" {
				v = d.Regions[r.intn(len(d.Regions))].ID // must be defined, as any region a cue refers to
			} else {
				pool := vttSettingPool[k]
				v = pool[r.intn(len(pool))]
				if v == kv[i][1] {
					v = pool[(r.intn(len(pool)-1)+1+indexOfStr(pool, v))%len(pool)]
				}
			}
			at := r.intn(i + 1)
			kv = append(kv[:at], append([][2]string{{k, v}}, kv[at:]...)...)
			each("settings.repeated_key")
			if v != kv[i+1][1] {
				each("settings.repeated_key.other_value")
			}
		}
		each(fmt.Sprintf("settings.n.%d", len(kv)))
		for _, p := range kv {
			sep := vttWs(r, 1, 2)
			if strings.Contains(sep, "\t") {
				each("settings.sep.tab")
			}
			if len(sep) == 2 {
				each("settings.sep.double")
			}
			each("settings." + p[0])
			tl += sep + p[0] + ":" + p[1]
		}
		L = append(L, tl)
		var stack []vttTag
		for _, ln := range c.Lines {
			var b strings.Builder
			if ln.Voice != "" {
				b.WriteString("<v " + ln.Voice + ">")
			}
			for _, run := range ln.Runs {
				// common prefix with the current stack
				k := 0
				for k < len(stack) && k < len(run.Tags) && tagString(stack[k]) == tagString(run.Tags[k]) {
					k++
				}
				for i := len(stack) - 1; i >= k; i-- {
					b.WriteString("</" + stack[i].Name + ">")
				}
				stack = stack[:k]
				for _, t := range run.Tags[k:] {
					b.WriteString("<" + tagString(t) + ">")
					stack = append(stack, t)
				}
				if run.Time != 0 {
					b.WriteString("<" + vttStamp(r, run.Time) + ">") // mm:ss.ttt or hh:mm:ss.ttt
				}
				b.WriteString(vttEsc(run.Text))
			}
			L = append(L, b.String())
		}
		// close what is open at the end of the cue or leave it to the blank line (which clears the stack)
		if len(stack) > 0 && r.chance(1, 2) {
			last := L[len(L)-1]
			for i := len(stack) - 1; i >= 0; i-- {
				last += "</" + stack[i].Name + ">"
			}
			L[len(L)-1] = last
		}
		if ci+1 < len(d.Cues) {
			blanks("after_cue", 1, 3)
		} else {
			blanks("at_end", 0, 3)
		}
	}
	next("eof")
	// every line, the last one included, is followed by the line terminator
	doc := strings.Join(L, eol) + eol
	// F1
	if r.chance(1, 3) {
		doc = "\xef\xbb\xbf" + doc
		once("bom")
	}
	if R != nil {
		R.count("vtt.render.documents")
		for k, n := range used {
			R.countN("vtt.render."+k, n)
		}
	}
	return doc
}

func indexOfStr(l []string, s string) int {
	for i, x := range l {
		if x == s {
			return i
		}
	}
	return 0
}

// vttExtendGT widens a ground-truth document for the reading suites: some documents get cue times of 100 hours and more
// (inline timestamps moved along), some comment blocks get further lines.
func vttExtendGT(r *rng, d *vttDoc) {
	if len(d.Cues) > 0 && r.chance(1, 5) {
		from := r.intn(len(d.Cues))
		shift := (100 + r.i64n(9900)) * 3600e9
		if r.chance(1, 4) {
			shift = (100 + r.i64n(3)) * 3600e9
		}
		for i := from; i < len(d.Cues); i++ {
			c := &d.Cues[i]
			c.Start += shift
			c.End += shift
			for l := range c.Lines {
				for k := range c.Lines[l].Runs {
					if c.Lines[l].Runs[k].Time != 0 {
						c.Lines[l].Runs[k].Time += shift
					}
				}
			}
		}
	}
	for i := range d.Cues {
		if len(d.Cues[i].Comments) > 0 && r.chance(1, 3) {
			for k := 0; k < 1+r.intn(2); k++ {
				d.Cues[i].Comments = append(d.Cues[i].Comments, r.pick("and: more", "a third line", "note to self", "1", "0:01"))
			}
		}
	}
}

// ---- the library's view, projected ----------------------------------------------------------------

func vttDocFromSubs(s *astisub.Subtitles) *vttDoc {
	d := &vttDoc{}
	for _, it := range s.Items {
		c := vttCue{Start: int64(it.StartAt), End: int64(it.EndAt), ID: it.Index, Comments: it.Comments, Settings: map[string]string{}}
		if it.Region != nil {
			c.Region = it.Region.ID
		}
		if it.InlineStyle != nil {
			c.Settings["align"], c.Settings["line"], c.Settings["position"], c.Settings["size"], c.Settings["vertical"] = it.InlineStyle.WebVTTAlign, it.InlineStyle.WebVTTLine, it.InlineStyle.WebVTTPosition, it.InlineStyle.WebVTTSize, it.InlineStyle.WebVTTVertical
		}
		for _, l := range it.Lines {
			ln := vttLine{Voice: l.VoiceName}
			for _, li := range l.Items {
				run := vttRun{Text: li.Text, Time: int64(li.StartAt)}
				if li.InlineStyle != nil {
					for _, t := range li.InlineStyle.WebVTTTags {
						run.Tags = append(run.Tags, vttTag{t.Name, t.Classes, t.Annotation})
					}
				}
				ln.Runs = append(ln.Runs, run)
			}
			c.Lines = append(c.Lines, ln)
		}
		d.Cues = append(d.Cues, c)
	}
	var ids []string
	for id := range s.Regions {
		ids = append(ids, id)
	}
	sort.Strings(ids)
	for _, id := range ids {
		rg := s.Regions[id]
		v := vttRegion{ID: rg.ID}
		if rg.InlineStyle != nil {
			v.Lines, v.Width, v.RegionAnchor, v.ViewportAnchor, v.Scroll = rg.InlineStyle.WebVTTLines, rg.InlineStyle.WebVTTWidth, rg.InlineStyle.WebVTTRegionAnchor, rg.InlineStyle.WebVTTViewportAnchor, rg.InlineStyle.WebVTTScroll
		}
		d.Regions = append(d.Regions, v)
	}
	var sids []string
	for id := range s.Styles {
		sids = append(sids, id)
	}
	sort.Strings(sids)
	for _, id := range sids {
		if s.Styles[id].InlineStyle != nil {
			d.Styles = append(d.Styles, s.Styles[id].InlineStyle.WebVTTStyles...)
		}
	}
	if s.Metadata != nil && s.Metadata.WebVTTTimestampMap != nil {
		d.TSMap = &[2]int64{int64(s.Metadata.WebVTTTimestampMap.Local), s.Metadata.WebVTTTimestampMap.MpegTS}
	}
	return d
}

func subsFromVttDoc(d *vttDoc) *astisub.Subtitles {
	s := astisub.NewSubtitles()
	for _, rg := range d.Regions {
		s.Regions[rg.ID] = &astisub.Region{ID: rg.ID, InlineStyle: &astisub.StyleAttributes{WebVTTLines: rg.Lines, WebVTTWidth: rg.Width, WebVTTRegionAnchor: rg.RegionAnchor, WebVTTViewportAnchor: rg.ViewportAnchor, WebVTTScroll: rg.Scroll}}
	}
	if len(d.Styles) > 0 {
		s.Styles["st"] = &astisub.Style{ID: "st", InlineStyle: &astisub.StyleAttributes{WebVTTStyles: d.Styles}}
	}
	if d.TSMap != nil {
		s.Metadata = &astisub.Metadata{WebVTTTimestampMap: &astisub.WebVTTTimestampMap{Local: time.Duration(d.TSMap[0]), MpegTS: d.TSMap[1]}}
	}
	for _, c := range d.Cues {
		it := &astisub.Item{StartAt: time.Duration(c.Start), EndAt: time.Duration(c.End), Comments: c.Comments, Index: c.ID,
			InlineStyle: &astisub.StyleAttributes{WebVTTAlign: c.Settings["align"], WebVTTLine: c.Settings["line"], WebVTTPosition: c.Settings["position"], WebVTTSize: c.Settings["size"], WebVTTVertical: c.Settings["vertical"]}}
		if c.Region != "" {
			it.Region = s.Regions[c.Region]
		}
		for _, l := range c.Lines {
			ln := astisub.Line{VoiceName: l.Voice}
			for _, run := range l.Runs {
				li := astisub.LineItem{Text: run.Text, StartAt: time.Duration(run.Time)}
				if len(run.Tags) > 0 {
					sa := &astisub.StyleAttributes{}
					for _, t := range run.Tags {
						sa.WebVTTTags = append(sa.WebVTTTags, astisub.WebVTTTag{Name: t.Name, Classes: t.Classes, Annotation: t.Annotation})
					}
					li.InlineStyle = sa
				}
				ln.Items = append(ln.Items, li)
			}
			it.Lines = append(it.Lines, ln)
		}
		s.Items = append(s.Items, it)
	}
	return s
}

// ---- independent decoder of the dialect -------------------------------------------------------------

var reVttTiming = regexp.MustCompile(`^(?:(\d+):)?(\d{2}):(\d{2})\.(\d{3})\s+-->\s+(?:(\d+):)?(\d{2}):(\d{2})\.(\d{3})(.*)$`)
var reVttInline = regexp.MustCompile(`^<(?:(\d+):)?(\d{2}):(\d{2})\.(\d{3})>`)
var reVttOpen = regexp.MustCompile(`^<([A-Za-z][^\s.>]*)((?:\.[^\s.>]+)*)(?:[ \t]+([^>]*))?>`)
var reVttClose = regexp.MustCompile(`^</([^>]*)>`)

func vttTime(h, m, s, f string) int64 {
	hh, _ := strconv.ParseInt("0"+h, 10, 64)
	mm, _ := strconv.ParseInt(m, 10, 64)
	ss, _ := strconv.ParseInt(s, 10, 64)
	ff, _ := strconv.ParseInt(f, 10, 64)
	return ((hh*60+mm)*60+ss)*1e9 + ff*1e6
}

func decodeVtt(doc []byte) (*vttDoc, error) {
	doc = bytes.TrimPrefix(doc, []byte("\xef\xbb\xbf"))
	text := strings.ReplaceAll(strings.ReplaceAll(string(doc), "\r\n", "\n"), "\r", "\n")
	lines := strings.Split(text, "\n")
	if len(lines) == 0 || !strings.HasPrefix(lines[0], "WEBVTT") {
		return nil, fmt.Errorf("no WEBVTT header")
	}
	d := &vttDoc{}
	i := 1
	for i < len(lines) && strings.TrimSpace(lines[i]) != "" {
		if strings.HasPrefix(lines[i], "X-TIMESTAMP-MAP=") {
			var local, mp int64
			for _, p := range strings.Split(strings.TrimPrefix(lines[i], "X-TIMESTAMP-MAP="), ",") {
				kv := strings.SplitN(p, ":", 2)
				if len(kv) == 2 && strings.EqualFold(kv[0], "LOCAL") {
					m := regexp.MustCompile(`^(?:(\d+):)?(\d{2}):(\d{2})\.(\d{3})$`).FindStringSubmatch(kv[1])
					if m == nil {
						return nil, fmt.Errorf("bad LOCAL")
					}
					local = vttTime(m[1], m[2], m[3], m[4])
				} else if len(kv) == 2 && strings.EqualFold(kv[0], "MPEGTS") {
					mp, _ = strconv.ParseInt(kv[1], 10, 64)
				}
			}
			d.TSMap = &[2]int64{local, mp}
		}
		i++
	}
	var pendingComments []string
	var stack []vttTag
	for i < len(lines) {
		if strings.TrimSpace(lines[i]) == "" {
			i++
			stack = nil
			continue
		}
		// a block: lines up to the next blank line
		j := i
		for j < len(lines) && strings.TrimSpace(lines[j]) != "" {
			j++
		}
		block := lines[i:j]
		i = j
		switch {
		case strings.HasPrefix(block[0], "NOTE"):
			pendingComments = append(pendingComments, strings.TrimPrefix(strings.TrimPrefix(block[0], "NOTE"), " "))
			pendingComments = append(pendingComments, block[1:]...)
		case strings.HasPrefix(block[0], "STYLE"):
			d.Styles = append(d.Styles, block[1:]...)
		case strings.HasPrefix(block[0], "Region: "):
			for _, l := range block {
				rg := vttRegion{}
				for _, p := range strings.Fields(strings.TrimPrefix(l, "Region: ")) {
					kv := strings.SplitN(p, "=", 2)
					if len(kv) != 2 {
						return nil, fmt.Errorf("bad region setting %q", p)
					}
					switch kv[0] {
					case "id":
						rg.ID = kv[1]
					case "lines":
						rg.Lines, _ = strconv.Atoi(kv[1])
					case "width":
						rg.Width = kv[1]
					case "regionanchor":
						rg.RegionAnchor = kv[1]
					case "viewportanchor":
						rg.ViewportAnchor = kv[1]
					case "scroll":
						rg.Scroll = kv[1]
					}
				}
				d.Regions = append(d.Regions, rg)
			}
		default:
			c := vttCue{Settings: map[string]string{}, Comments: pendingComments}
			pendingComments = nil
			k := 0
			if !strings.Contains(block[0], "-->") {
				c.ID, _ = strconv.Atoi(strings.TrimSpace(block[0]))
				k = 1
			}
			if k >= len(block) {
				return nil, fmt.Errorf("cue block without timing line: %q", block)
			}
			m := reVttTiming.FindStringSubmatch(strings.TrimSpace(block[k]))
			if m == nil {
				return nil, fmt.Errorf("bad timing line %q", block[k])
			}
			c.Start, c.End = vttTime(m[1], m[2], m[3], m[4]), vttTime(m[5], m[6], m[7], m[8])
			for _, p := range strings.Fields(m[9]) {
				kv := strings.SplitN(p, ":", 2)
				if len(kv) != 2 {
					return nil, fmt.Errorf("bad cue setting %q", p)
				}
				if kv[0] == "region" {
					c.Region = kv[1]
					found := false
					for _, rg := range d.Regions {
						if rg.ID == kv[1] {
							found = true
						}
					}
					if !found {
						return nil, fmt.Errorf("cue refers to region %q which is not defined earlier in the file", kv[1])
					}
				} else {
					c.Settings[kv[0]] = kv[1]
				}
			}
			for _, raw := range block[k+1:] {
				ln := vttLine{}
				var cur strings.Builder
				var curTime int64
				flush := func() {
					if cur.Len() > 0 {
						ln.Runs = append(ln.Runs, vttRun{Text: cur.String(), Tags: append([]vttTag{}, stack...), Time: curTime})
						cur.Reset()
					}
				}
				s := raw
				for len(s) > 0 {
					if s[0] == '<' {
						if m := reVttInline.FindStringSubmatch(s); m != nil {
							flush()
							curTime = vttTime(m[1], m[2], m[3], m[4])
							s = s[len(m[0]):]
							continue
						}
						if m := reVttClose.FindStringSubmatch(s); m != nil {
							flush()
							if m[1] != "v" && len(stack) > 0 {
								stack = stack[:len(stack)-1]
							}
							s = s[len(m[0]):]
							continue
						}
						if m := reVttOpen.FindStringSubmatch(s); m != nil {
							flush()
							t := vttTag{Name: m[1], Annotation: strings.TrimSpace(m[3])}
							if m[2] != "" {
								t.Classes = strings.Split(strings.TrimPrefix(m[2], "."), ".")
							}
							if t.Name == "v" {
								if ln.Voice == "" {
									ln.Voice = t.Annotation
								}
							} else {
								stack = append(stack, t)
							}
							s = s[len(m[0]):]
							continue
						}
					}
					if strings.HasPrefix(s, "&amp;") {
						cur.WriteByte('&')
						s = s[5:]
					} else if strings.HasPrefix(s, "&lt;") {
						cur.WriteByte('<')
						s = s[4:]
					} else if strings.HasPrefix(s, "&gt;") {
						cur.WriteByte('>')
						s = s[4:]
					} else if strings.HasPrefix(s, "&nbsp;") {
						cur.WriteString("\u00a0")
						s = s[6:]
					} else {
						cur.WriteByte(s[0])
						s = s[1:]
					}
				}
				flush()
				c.Lines = append(c.Lines, ln)
			}
			d.Cues = append(d.Cues, c)
		}
	}
	sort.Slice(d.Regions, func(a, b int) bool { return d.Regions[a].ID < d.Regions[b].ID })
	return d, nil
}

// ---- suite ----------------------------------------------------------------------------------------

func suiteVtt(R *runner, r *rng) {
	R.rule("webvtt: ground-truth documents (0..5 cues, 0..2 regions, optional STYLE block and timestamp map, NOTE comments, cue setting subsets, tag stacks of depth 0..3 with classes/annotations evolving by push/pop from run to run, inline timestamps, voices, Unicode text with & < nbsp) x renderings (EOL kinds LF/CRLF/CR, BOM, header alone or followed by space/TAB and text, timestamp map line, 0..3 blank lines after the header block and after the region lines and at the end, 1..3 after STYLE/NOTE blocks and cue texts, blank lines empty or made of spaces/tabs, identifier line absent/numeric/not a number, each cue time as mm:ss.ttt or with an hour field of any width incl. hours >= 100, 0..2 spaces/tabs on either side of the arrow, cue settings in any order each after 1..2 spaces/tabs with an optional repeated key whose last occurrence counts, tags closed or left to the blank line; distribution keys vtt.render.*); reader vs ground truth; writer output decoded by the independent decoder and by the reader, cues numbered 1..n, regions defined before use; non-trivial = at least one cue")
	N := 800
	if R.tier == "thorough" {
		N = 16000
	}
	for c := 0; c < 3*N; c++ { // three times the other suites' share: the rendering freedoms multiply (see vtt.render.* counters)
		d := randVttDoc(r, c%4 != 0)
		vttExtendGT(r, d)
		doc := renderVttC(R, r, d)
		h := map[string]interface{}{"doc": doc, "cues": len(d.Cues)}
		o := vttReadObs(doc, "vtt.read", h)
		o.NT = len(d.Cues) > 0
		if o.Impl == "2" {
			o.Sig = "vtt-read-panic"
		} else if o.Impl == "1" {
			o.Oracle, o.Sig = "ReadFromWebVTT rejects a well-formed document", "vtt-read-reject"
		} else if s, err := astisub.ReadFromWebVTT(strings.NewReader(doc)); err == nil {
			if m := vttDocsEqual(vttDocFromSubs(s), d); m != "" {
				o.Oracle, o.Sig = "reader: "+m, "vtt-read-value"
			}
		}
		R.add(o)
	}
	// mutated documents: model comparison only
	for c := 0; c < N/2; c++ {
		d := randVttDoc(r, true)
		vttExtendGT(r, d)
		b := mutate(r, "webvtt", []byte(renderVtt(r, d)), nil)
		o := vttReadObs(string(b), "vtt.read.mutated", map[string]interface{}{"doc": string(b)})
		o.NT = o.Impl != "1"
		if o.Impl == "2" {
			o.Sig = "vtt-read-panic"
		}
		R.add(o)
	}
	for _, dd := range []string{"", "WEBVTT", "WEBVTT\n\nNOTE\nx\n\n1\n00:01.000 --> 00:02.000\nhi\n", "x\nWEBVTT\n\n00:01.000 --> 00:02.000\nhi\n", "WEBVTT\n\nSTYLE\n::cue {\n\ncolor: red\n}\n\n00:01.000 --> 00:02.000\n<b>hi\n\n00:03.000 --> 00:04.000\nthere</b>\n", "WEBVTT\n\n00:01.000 --> 00:02.000\nSTYLE of a cue\nmore\n", "WEBVTT\n\n00:01.000 --> 00:02.000\nNOTE in a cue\n", "WEBVTT\nX-TIMESTAMP-MAP=MPEGTS:900000,LOCAL:00:00:00.000\n\n00:01.000 --> 00:02.000\nx\nX-TIMESTAMP-MAP=LOCAL:00:00:00.000\n", "WEBVTT\n\nRegion: id=a  width=1\n", "WEBVTT\n\nRegion: id=a lines=x\n", "WEBVTT\n\n00:01.000 --> 00:02.000 region:zz\nx\n", "WEBVTT\n\n00:01.000 --> 00:02.000 align\nx\n", "WEBVTT\n\n5\n6\n00:01.000 --> 00:02.000\n<v A><v B>x</v>y<00:00:01.500>z<1:2:3.000>w\n"} {
		o := vttReadObs(dd, "vtt.read.corpus", map[string]interface{}{"doc": dd})
		o.NT = true
		R.add(o)
	}
	// line level against the model
	vfrag := []string{"<b>", "</b>", "<i>", "</i>", "<c.yellow>", "<c.a.b>", "</c>", "<v Bob>", "<v>", "</v>", "<lang en>", "<ruby>", "<rt>", "text", " ", "a&amp;b", "&lt;", "&nbsp;", "<00:00:01.000>", "<01:02.345>", "<1:02.345>", "<100:00:00.000>", "<00:00:01.00>", "<", ">", "<3", "</", "</>", "<b.>", "<b..x>", "<b .x>", "<x y z>", "<b\t c>", "<a/b>", "<b/>", "<!--c-->", "é", "😀", "<b", "<i.loud note>"}
	for c := 0; c < N*2; c++ {
		n := 1 + r.intn(6)
		var sb strings.Builder
		for k := 0; k < n; k++ {
			sb.WriteString(vfrag[r.intn(len(vfrag))])
		}
		line := sb.String()
		var tags []astisub.WebVTTTag
		for k := 0; k < r.intn(3); k++ {
			t := randVttTag(r)
			tags = append(tags, astisub.WebVTTTag{Name: t.Name, Classes: t.Classes, Annotation: t.Annotation})
		}
		in := &enc{}
		in.str(line).n(len(tags))
		for _, t := range tags {
			encVtag(in, t)
		}
		o := &obs{Suite: "vtttext", Group: "vtt.text", Input: in.String(), Human: map[string]interface{}{"line": line}, NT: true}
		var l astisub.Line
		var out []astisub.WebVTTTag
		tcopy := append([]astisub.WebVTTTag{}, tags...)
		p := safely(func() { l, out = astisub.VerifParseTextWebVTT(line, tcopy) })
		if p != "" {
			o.Impl, o.Oracle, o.Sig = "PANIC", "parseTextWebVTT panicked: "+p, "vtt-text-panic"
		} else {
			e := &enc{}
			e.n(0)
			encVline(e, l)
			e.n(len(out))
			for _, t := range out {
				encVtag(e, t)
			}
			o.Impl = e.String()
		}
		R.add(o)
	}
	for _, f := range []string{"example-in.vtt", "example-in-carriage-return.vtt", "example-in-html-entities.vtt", "example-out.vtt", "example-out-styled.vtt"} {
		if b, err := readRepoFile("testdata/" + f); err == nil {
			// the independent decoder and the reader must agree on the repository's samples
			o := &obs{Suite: "vttread", Group: "vtt.read.testdata", NoModel: true, NT: true, Input: "vtt testdata " + f, Human: map[string]interface{}{"file": f}}
			s, err := astisub.ReadFromWebVTT(bytes.NewReader(b))
			dec, derr := decodeVtt(b)
			if err == nil && derr == nil {
				got := vttDocFromSubs(s)
				got.Styles, dec.Styles = nil, nil
				if m := vttDocsEqual(got, dec); m != "" {
					o.Human.(map[string]interface{})["decoder_vs_reader"] = m
				}
			}
			R.add(o)
		}
	}
	// writer
	for c := 0; c < N; c++ {
		d := randVttDoc(r, c%4 != 0)
		s := subsFromVttDoc(d)
		h := map[string]interface{}{"cues": len(d.Cues), "doc": d}
		win := &enc{}
		encVdocIn(win, s)
		o := &obs{Suite: "vttwritem", Group: "vtt.write", NT: len(d.Cues) > 0, Input: win.String(), Human: h}
		if c%8 == 5 {
			s.Items = withNilItems(s.Items, c/8) // the model input above is the list without the nil elements
			R.count("vtt.write.nil_item")
		}
		var buf bytes.Buffer
		var err error
		p := safely(func() { err = s.WriteToWebVTT(&buf) })
		want := *d
		want.Cues = append([]vttCue{}, d.Cues...)
		for i := range want.Cues {
			want.Cues[i].ID = i + 1 // cues are numbered consecutively
		}
		switch {
		case p != "":
			o.Impl, o.Oracle, o.Sig = "2", "WriteToWebVTT panicked: "+p, "vtt-write-panic"
		case err != nil:
			o.Impl = "1"
			if len(d.Cues) > 0 {
				o.Oracle, o.Sig = "WriteToWebVTT failed: "+err.Error(), "vtt-write-error"
			}
		default:
			o.Impl = (&enc{}).n(0).bytes(buf.Bytes()).String()
			h["written"] = buf.String()
			// the decoding oracles are stated for maps keyed by identifier without nil values (what subsFromVttDoc builds);
			// maps with other keys / nil values go to the model comparison only (suiteVttKeyed, harness/vtt_keyed.go)
			if !vttMapsByID(s) {
				R.count("vtt.write.not_keyed_by_id")
				break
			}
			R.count("vtt.write.decoding_oracles")
			dec, derr := decodeVtt(buf.Bytes())
			if derr != nil {
				o.Oracle, o.Sig = "independent decoder rejects the writer's output: "+derr.Error(), "vtt-write-decoder"
			} else if m := vttDocsEqual(dec, &want); m != "" {
				o.Oracle, o.Sig = "independent decoder: "+m, "vtt-write-decoder-value"
			} else if back, rerr := astisub.ReadFromWebVTT(bytes.NewReader(buf.Bytes())); rerr != nil {
				o.Oracle, o.Sig = "the library's reader rejects the writer's output: "+rerr.Error(), "vtt-write-read"
			} else if m := vttDocsEqual(vttDocFromSubs(back), &want); m != "" {
				o.Oracle, o.Sig = "write then read: "+m, "vtt-write-read-value"
			}
		}
		R.add(o)
	}
	suiteVttDomain(R, r, vfrag)
}

// ---- outside the tokenizer model's faithful domain: raw-text element names ---------------------------

// The names golang.org/x/net/html treats as raw-text (RCDATA / RAWTEXT / PLAINTEXT) elements: after such a start tag the
// tokenizer returns everything up to the matching end tag (for plaintext: the rest of the input) as ONE text token, so
// "<title>x<b>z</b></title>y" reads as the runs "x<b>z</b>" and "y", and "<plaintext>x</plaintext>y" as the single run
// "x</plaintext>y".  They are not WebVTT cue span tags (c i b u v lang ruby rt): the property's quantifier ("tag stacks
// ... with classes/annotations") does not reach them, the Coq model does not model them (vtt_line_simple is false on such
// lines, and repr_vline / rendering_okb exclude them: C02_needs_no_raw_text_tag), so:
//   - they are kept OUT of the ground truth of the oracle suites above (reader vs ground truth, writer vs independent
//     decoder and re-read): an oracle there would state more than the property does;
//   - here they go to the model comparison only: the reader and the line parser are compared by result class (the driver
//     answers "NS" when a line is outside vtt_line_simple; counter <group>.outside_faithful_domain), the writer -- which
//     does not tokenize -- byte for byte.
var vttRawTextNames = []string{"title", "script", "style", "textarea", "xmp", "iframe", "noembed", "noframes", "noscript", "plaintext"}

// vttRawTextify renames every occurrence of one or more tag names of the document to raw-text element names (sometimes
// upper-cased: the tokenizer compares lower-cased); a document without tags gets one on its first run.
func vttRawTextify(r *rng, d *vttDoc) bool {
	if len(d.Cues) == 0 {
		return false
	}
	names := map[string]bool{}
	var order []string
	for _, c := range d.Cues {
		for _, l := range c.Lines {
			for _, run := range l.Runs {
				for _, t := range run.Tags {
					if !names[t.Name] {
						names[t.Name] = true
						order = append(order, t.Name)
					}
				}
			}
		}
	}
	if len(order) == 0 {
		run := &d.Cues[0].Lines[0].Runs[0]
		run.Tags = []vttTag{{Name: "b"}}
		order = []string{"b"}
	}
	ren := map[string]string{}
	first := order[r.intn(len(order))]
	for _, n := range order {
		if n == first || r.chance(1, 3) {
			nn := vttRawTextNames[r.intn(len(vttRawTextNames))]
			if r.chance(1, 6) {
				nn = strings.ToUpper(nn)
			}
			ren[n] = nn
		}
	}
	for ci := range d.Cues {
		for li := range d.Cues[ci].Lines {
			for ki := range d.Cues[ci].Lines[li].Runs {
				tags := d.Cues[ci].Lines[li].Runs[ki].Tags
				for ti := range tags {
					if nn, ok := ren[tags[ti].Name]; ok {
						tags[ti].Name = nn
					}
				}
			}
		}
	}
	return true
}

// vttTextObs runs the library's cue-text parser on one line with an initial tag stack (model suite vtttext).
func vttTextObs(line string, tags []astisub.WebVTTTag, group string) *obs {
	in := &enc{}
	in.str(line).n(len(tags))
	for _, t := range tags {
		encVtag(in, t)
	}
	o := &obs{Suite: "vtttext", Group: group, Input: in.String(), Human: map[string]interface{}{"line": line}, NT: true}
	var l astisub.Line
	var out []astisub.WebVTTTag
	tcopy := append([]astisub.WebVTTTag{}, tags...)
	p := safely(func() { l, out = astisub.VerifParseTextWebVTT(line, tcopy) })
	if p != "" {
		o.Impl, o.Oracle, o.Sig = "PANIC", "parseTextWebVTT panicked: "+p, "vtt-text-panic"
		return o
	}
	e := &enc{}
	e.n(0)
	encVline(e, l)
	e.n(len(out))
	for _, t := range out {
		encVtag(e, t)
	}
	o.Impl = e.String()
	var runs []string
	for _, it := range l.Items {
		runs = append(runs, it.Text)
	}
	o.Human.(map[string]interface{})["library_runs"] = runs
	return o
}

func suiteVttDomain(R *runner, r *rng, vfrag []string) {
	R.rule("webvtt, outside the tokenizer model's faithful domain (distribution key vtt.domain.raw_text_tag): ground-truth documents whose tag names are HTML raw-text elements (title script style textarea xmp iframe noembed noframes noscript plaintext, either case), rendered and read (reader vs extracted model: result class only where a line is outside vtt_line_simple), written (writer vs extracted model, byte for byte); raw cue lines built from such start/end tags mixed with ordinary fragments (line parser vs model: result class only); no ground-truth / decoder oracle: these names are outside the property's quantifier")
	N := 200
	if R.tier == "thorough" {
		N = 4000
	}
	for c := 0; c < N; c++ {
		d := randVttDoc(r, true)
		if !vttRawTextify(r, d) {
			continue
		}
		R.count("vtt.domain.raw_text_tag")
		R.count("vtt.domain.raw_text_tag.document")
		// reader: rendered document, model comparison (class only outside the domain)
		doc := renderVtt(r, d)
		o := vttReadObs(doc, "vtt.read.domain", map[string]interface{}{"doc": doc, "cues": len(d.Cues)})
		o.NT = true
		if o.Impl == "2" {
			o.Sig = "vtt-read-panic"
		}
		R.add(o)
		// writer: the model's bytes
		s := subsFromVttDoc(d)
		win := &enc{}
		encVdocIn(win, s)
		w := &obs{Suite: "vttwritem", Group: "vtt.write.domain", NT: true, Input: win.String(), Human: map[string]interface{}{"cues": len(d.Cues), "doc": d}}
		var buf bytes.Buffer
		var err error
		p := safely(func() { err = s.WriteToWebVTT(&buf) })
		switch {
		case p != "":
			w.Impl, w.Oracle, w.Sig = "2", "WriteToWebVTT panicked: "+p, "vtt-write-panic"
		case err != nil:
			w.Impl = "1"
		default:
			w.Impl = (&enc{}).n(0).bytes(buf.Bytes()).String()
			w.Human.(map[string]interface{})["written"] = buf.String()
		}
		R.add(w)
	}
	// raw cue lines
	var rawfrag []string
	for _, n := range vttRawTextNames {
		rawfrag = append(rawfrag, "<"+n+">", "</"+n+">")
	}
	rawfrag = append(rawfrag, "<TITLE>", "</Title>", "<script x>", "<title.k>", "<style.a note>", "<textarea\t>", "<plaintext/>", "</ script>")
	for c := 0; c < 3*N; c++ {
		n := 1 + r.intn(6)
		at := r.intn(n)
		var sb strings.Builder
		for k := 0; k < n; k++ {
			if k == at || r.chance(1, 3) {
				sb.WriteString(rawfrag[r.intn(len(rawfrag))])
			} else {
				sb.WriteString(vfrag[r.intn(len(vfrag))])
			}
		}
		var tags []astisub.WebVTTTag
		for k := 0; k < r.intn(3); k++ {
			t := randVttTag(r)
			if r.chance(1, 3) {
				t.Name = vttRawTextNames[r.intn(len(vttRawTextNames))]
			}
			tags = append(tags, astisub.WebVTTTag{Name: t.Name, Classes: t.Classes, Annotation: t.Annotation})
		}
		R.count("vtt.domain.raw_text_tag")
		R.count("vtt.domain.raw_text_tag.line")
		R.add(vttTextObs(sb.String(), tags, "vtt.text.domain"))
	}
	// the lines of the Coq counter-examples (C02_needs_no_raw_text_tag*), replayed on the library; what the library returns
	// is recorded (case.library_runs in the samples, counters vtt.domain.witness.*), not judged
	for _, wl := range []struct{ name, line string }{
		{"title", "<title>x</title>y"}, {"plaintext", "<plaintext>x</plaintext>y"}, {"title_nested", "<title>x<b>z</b></title>y"}, {"script_open", "<script>x<b>y"},
		{"title_class", "<title.k>x</title.k>y"}, {"b", "<b>x</b>y"},
	} {
		o := vttTextObs(wl.line, nil, "vtt.text.domain")
		if runs, ok := o.Human.(map[string]interface{})["library_runs"].([]string); ok {
			R.count(fmt.Sprintf("vtt.domain.witness.%s.library_runs=%d", wl.name, len(runs)))
		}
		R.count("vtt.domain.raw_text_tag")
		R.add(o)
	}
}

// ---- encodings for the Coq model -------------------------------------------------------------------

func encVtag(e *enc, t astisub.WebVTTTag) {
	e.str(t.Name).str(t.Annotation).n(len(t.Classes))
	for _, c := range t.Classes {
		e.str(c)
	}
}
func encVline(e *enc, l astisub.Line) {
	e.n(len(l.Items))
	for _, li := range l.Items {
		e.str(li.Text)
		if li.InlineStyle == nil {
			e.n(0)
		} else {
			e.n(1).n(len(li.InlineStyle.WebVTTTags))
			for _, t := range li.InlineStyle.WebVTTTags {
				encVtag(e, t)
			}
		}
		e.i(int64(li.StartAt))
	}
	e.str(l.VoiceName)
}

// reader result form (matches pvdoc in the driver)
func encVdocOut(e *enc, s *astisub.Subtitles) {
	e.n(len(s.Items))
	for _, it := range s.Items {
		e.i(int64(it.Index)).i(int64(it.StartAt)).i(int64(it.EndAt))
		e.n(len(it.Comments))
		for _, c := range it.Comments {
			e.str(c)
		}
		if it.Region == nil {
			e.n(0)
		} else {
			e.n(1).str(it.Region.ID)
		}
		if it.InlineStyle == nil {
			e.n(0)
		} else {
			e.n(1).str(it.InlineStyle.WebVTTAlign).str(it.InlineStyle.WebVTTLine).str(it.InlineStyle.WebVTTPosition).str(it.InlineStyle.WebVTTSize).str(it.InlineStyle.WebVTTVertical)
		}
		e.n(len(it.Lines))
		for _, l := range it.Lines {
			encVline(e, l)
		}
	}
	var rk []string
	for k := range s.Regions {
		rk = append(rk, k)
	}
	sort.Strings(rk)
	e.n(len(rk))
	for _, k := range rk {
		rg := s.Regions[k]
		e.str(k).str(rg.ID)
		if rg.InlineStyle == nil {
			e.n(0)
		} else {
			e.n(1).i(int64(rg.InlineStyle.WebVTTLines)).str(rg.InlineStyle.WebVTTRegionAnchor).str(rg.InlineStyle.WebVTTScroll).str(rg.InlineStyle.WebVTTViewportAnchor).str(rg.InlineStyle.WebVTTWidth)
		}
	}
	var sk []string
	for k := range s.Styles {
		sk = append(sk, k)
	}
	sort.Strings(sk)
	e.n(len(sk))
	for _, k := range sk {
		e.str(k)
		if s.Styles[k].InlineStyle == nil {
			e.n(0)
		} else {
			e.n(1).n(len(s.Styles[k].InlineStyle.WebVTTStyles))
			for _, l := range s.Styles[k].InlineStyle.WebVTTStyles {
				e.str(l)
			}
		}
	}
	if s.Metadata == nil || s.Metadata.WebVTTTimestampMap == nil {
		e.n(0)
	} else {
		e.n(1).i(int64(s.Metadata.WebVTTTimestampMap.Local)).i(s.Metadata.WebVTTTimestampMap.MpegTS)
	}
}

// writer input form (matches rvdoc in the driver)
func encVdocIn(e *enc, s *astisub.Subtitles) {
	e.n(len(s.Items))
	for _, it := range s.Items {
		e.i(int64(it.Index)).i(int64(it.StartAt)).i(int64(it.EndAt))
		e.n(len(it.Comments))
		for _, c := range it.Comments {
			e.str(c)
		}
		if it.Region == nil {
			e.n(0)
		} else {
			e.n(1).str(it.Region.ID)
		}
		encSet := func(sa *astisub.StyleAttributes) {
			if sa == nil {
				e.n(0)
			} else {
				e.n(1).str(sa.WebVTTAlign).str(sa.WebVTTLine).str(sa.WebVTTPosition).str(sa.WebVTTSize).str(sa.WebVTTVertical)
			}
		}
		encSet(it.InlineStyle)
		if it.Style != nil {
			encSet(it.Style.InlineStyle)
		} else {
			e.n(0)
		}
		e.n(len(it.Lines))
		for _, l := range it.Lines {
			e.n(len(l.Items))
			for _, li := range l.Items {
				e.str(li.Text)
				if li.InlineStyle == nil {
					e.n(0)
				} else {
					e.n(1).n(len(li.InlineStyle.WebVTTTags))
					for _, t := range li.InlineStyle.WebVTTTags {
						encVtag(e, t)
					}
				}
				e.i(int64(li.StartAt))
				if li.InlineStyle != nil && li.InlineStyle.TTMLColor != nil {
					e.n(1).str(*li.InlineStyle.TTMLColor)
				} else {
					e.n(0)
				}
			}
			e.str(l.VoiceName)
		}
	}
	var rk []string
	for k := range s.Regions {
		rk = append(rk, k)
	}
	sort.Strings(rk)
	e.n(len(rk))
	encRa := func(sa *astisub.StyleAttributes) {
		if sa == nil {
			e.n(0)
		} else {
			e.n(1).i(int64(sa.WebVTTLines)).str(sa.WebVTTRegionAnchor).str(sa.WebVTTScroll).str(sa.WebVTTViewportAnchor).str(sa.WebVTTWidth)
		}
	}
	// the maps are sent BY KEY: a key, then 0 for a nil value or 1 and the value (whose ID need not be the key)
	for _, k := range rk {
		rg := s.Regions[k]
		e.str(k)
		if rg == nil {
			e.n(0)
			continue
		}
		e.n(1).str(rg.ID)
		encRa(rg.InlineStyle)
		if rg.Style != nil {
			encRa(rg.Style.InlineStyle)
		} else {
			e.n(0)
		}
	}
	var sk []string
	for k := range s.Styles {
		sk = append(sk, k)
	}
	sort.Strings(sk)
	e.n(len(sk))
	for _, k := range sk {
		e.str(k)
		if s.Styles[k] == nil {
			e.n(0)
			continue
		}
		e.n(1)
		if s.Styles[k].InlineStyle == nil {
			e.n(0)
		} else {
			e.n(1).n(len(s.Styles[k].InlineStyle.WebVTTStyles))
			for _, l := range s.Styles[k].InlineStyle.WebVTTStyles {
				e.str(l)
			}
		}
	}
	if s.Metadata == nil || s.Metadata.WebVTTTimestampMap == nil {
		e.n(0)
	} else {
		e.n(1).i(int64(s.Metadata.WebVTTTimestampMap.Local)).i(s.Metadata.WebVTTTimestampMap.MpegTS)
	}
}

func vttReadObs(doc string, group string, human map[string]interface{}) *obs {
	o := &obs{Suite: "vttreadm", Group: group, Input: (&enc{}).str(doc).String(), Human: human}
	var s *astisub.Subtitles
	var err error
	p := safely(func() { s, err = astisub.ReadFromWebVTT(strings.NewReader(doc)) })
	switch {
	case p != "":
		o.Impl, o.Oracle = "2", "ReadFromWebVTT panicked: "+p
	case err != nil:
		o.Impl = "1"
	default:
		e := &enc{}
		e.n(0)
		encVdocOut(e, s)
		o.Impl = e.String()
	}
	return o
}
