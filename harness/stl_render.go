package main

// C05 reading half for all renderings (coq/Proofs/StlRead*.v): the generator's counterpart of the rendering record.
// A row is generated as a sequence of elements - style codes anywhere (redundant, repeated, unclosed, at the row's ends),
// characters, undefined bytes - and what it denotes is computed here by the harness's own rule (a code ends the run in
// front of it and sets its flag; runs are trimmed, blank ones dropped; undefined bytes mean nothing); the GSI block is
// rendered with the forms the parser accepts (numbers zero-padded / blank-padded on either side / blank when zero, leading
// blanks in text fields, blank timecodes, arbitrary spare bytes).  Every freedom is counted (stl.free.*).

import (
	"fmt"
	"strings"
)

// the runner that counts the freedoms used (set by the suite)
var stlCountR *runner

func stlCount(k string) {
	if stlCountR != nil {
		stlCountR.count(k)
	}
}

type stlElem struct {
	Code  byte   // 0x80..0x85, or 0
	Text  string // one character (NFC), or ""
	Bytes []byte // its bytes (for a character) or the undefined byte
}

var stlUndefinedBytes = []byte{0x8f, 0x8f, 0x8f, 0x86, 0x87, 0x88, 0x89, 0x8b, 0x8e, 0x90, 0x9f, 0xa6, 0xc0, 0xc9, 0xcc, 0xd8, 0xdb, 0xe5, 0x7f}

// a row of elements of at most maxBytes bytes; counts the freedoms it uses
func randSTLElemRow(r *rng, maxBytes int) []stlElem {
	var row []stlElem
	n := 0
	var on [3]bool
	add := func(e stlElem, k int) bool {
		if n+k > maxBytes {
			return false
		}
		row = append(row, e)
		n += k
		return true
	}
	code := func(c byte) {
		i, v := (c-0x80)/2, c%2 == 0
		if on[i] == v {
			stlCount("stl.free.redundant_code")
		}
		if add(stlElem{Code: c}, 1) {
			on[i] = v
		}
	}
	if r.chance(1, 2) {
		code(byte(0x80 + r.intn(6)))
		stlCount("stl.free.code_at_row_start")
	}
	steps := 2 + r.intn(10)
	for s := 0; s < steps; s++ {
		switch r.intn(8) {
		case 0, 1:
			c := byte(0x80 + r.intn(6))
			code(c)
			if r.chance(1, 4) {
				code(c)
				stlCount("stl.free.repeated_code")
			}
		case 2:
			if add(stlElem{Bytes: []byte{stlUndefinedBytes[r.intn(len(stlUndefinedBytes))]}}, 1) {
				stlCount("stl.free.undefined_byte_in_row")
			}
		default:
			for k := 1 + r.intn(4); k > 0; k-- {
				t := randSTLChar(r, true)
				b, ok := stlEncodeOwn(t)
				if !ok {
					continue
				}
				if t == "¤" {
					if r.chance(1, 2) {
						b = []byte{0x24}
						stlCount("stl.free.currency_at_0x24")
					} else {
						stlCount("stl.free.currency_at_0xa8")
					}
				}
				if len(b) == 2 {
					stlCount("stl.free.diacritic_pair")
				}
				add(stlElem{Text: t, Bytes: b}, len(b))
			}
		}
	}
	if r.chance(1, 3) {
		for k := 1 + r.intn(2); k > 0; k-- {
			add(stlElem{Text: " ", Bytes: []byte{' '}}, 1)
		}
		stlCount("stl.free.trailing_blanks")
	}
	if r.chance(1, 3) {
		code(byte(0x81 + 2*r.intn(3)))
		stlCount("stl.free.code_at_row_end")
	}
	if on[0] || on[1] || on[2] {
		stlCount("stl.free.unclosed_code")
	}
	return row
}

func stlElemBytes(row []stlElem) []byte {
	var o []byte
	for _, e := range row {
		if e.Code != 0 {
			o = append(o, e.Code)
		} else {
			o = append(o, e.Bytes...)
		}
	}
	return o
}

// what a row of elements denotes: runs with effective flags
func stlDenoteElems(row []stlElem) []stlRun {
	var runs []stlRun
	var cur strings.Builder
	var it, un, bx bool
	flush := func() {
		if t := trimSTL(cur.String()); t != "" {
			runs = append(runs, stlRun{t, it, un, bx})
		}
		cur.Reset()
	}
	for _, e := range row {
		switch {
		case e.Code != 0:
			flush()
			switch e.Code {
			case 0x80:
				it = true
			case 0x81:
				it = false
			case 0x82:
				un = true
			case 0x83:
				un = false
			case 0x84:
				bx = true
			case 0x85:
				bx = false
			}
		case e.Text != "":
			cur.WriteString(e.Text)
		}
	}
	flush()
	return runs
}

// rows of elements for one cue; total rendered size (with separators and, under teletext standards, box codes) <= 112
func randSTLElemRows(r *rng) [][]stlElem {
	nrows := 1 + r.intn(3)
	var rows [][]stlElem
	for i := 0; i < nrows; i++ {
		rows = append(rows, randSTLElemRow(r, (112-8*nrows)/nrows))
	}
	if r.chance(1, 6) {
		rows[r.intn(nrows)] = []stlElem{{Bytes: []byte{0x8f}}, {Bytes: []byte{0x86}}}
		stlCount("stl.free.row_without_text")
	}
	return rows
}

// ---- GSI forms --------------------------------------------------------------------------------------------

type stlGSIForms struct {
	Num   [8]int // per number field: 0 zero-padded, 1 blanks left, 2 blanks right, 3 blank when zero
	Lead  int    // leading blanks in text fields when they fit
	Spare bool   // non-blank spare bytes
	TCPBl bool   // blank programme start when zero
}

func randSTLGSIForms(r *rng) *stlGSIForms {
	f := &stlGSIForms{Lead: r.intn(3), Spare: r.chance(1, 2), TCPBl: r.chance(1, 2)}
	for i := range f.Num {
		f.Num[i] = r.intn(4)
	}
	return f
}

func (f *stlGSIForms) num(idx, width, v int) string {
	switch f.Num[idx] {
	case 1:
		stlCount("stl.free.gsi_number_blanks_left")
		return fmt.Sprintf("%*d", width, v)
	case 2:
		stlCount("stl.free.gsi_number_blanks_right")
		return fmt.Sprintf("%-*d", width, v)
	case 3:
		if v == 0 {
			stlCount("stl.free.gsi_number_blank_zero")
			return strings.Repeat(" ", width)
		}
	}
	stlCount("stl.free.gsi_number_zero_padded")
	return fmt.Sprintf("%0*d", width, v)
}

func (f *stlGSIForms) text(width int, s string) string {
	if f.Lead > 0 && len(s) > 0 && len(s)+f.Lead <= width {
		stlCount("stl.free.gsi_text_leading_blanks")
		return strings.Repeat(" ", f.Lead) + s
	}
	return s
}
