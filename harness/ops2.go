package main

// C09 Add, C14 ForceDuration

import (
	"fmt"
	"time"

	astisub "github.com/asticode/go-astisub"
)

// ================================================================================================
// C09 Add
// ================================================================================================

type cueSnap struct {
	p       *astisub.Item
	s, e    int64
	payload string
}

func snapItems(items []*astisub.Item) []cueSnap {
	var o []cueSnap
	for _, it := range items {
		o = append(o, cueSnap{it, int64(it.StartAt), int64(it.EndAt), payload(it)})
	}
	return o
}

// independent statement of C09 on the implementation's result (only for lists with start <= end)
func oracleAdd(before []cueSnap, d int64, after []*astisub.Item) string {
	j := 0
	for _, b := range before {
		if b.e+d <= 0 {
			continue // must be removed
		}
		if j >= len(after) {
			return fmt.Sprintf("cue [%d,%d) should survive a shift by %d but is missing", b.s, b.e, d)
		}
		a := after[j]
		j++
		if a != b.p {
			return fmt.Sprintf("survivors are not the original cues in their original order (position %d)", j-1)
		}
		ws := b.s + d
		if ws < 0 {
			ws = 0
		}
		if int64(a.StartAt) != ws || int64(a.EndAt) != b.e+d {
			return fmt.Sprintf("cue [%d,%d) shifted by %d became [%d,%d), want [%d,%d)", b.s, b.e, d, int64(a.StartAt), int64(a.EndAt), ws, b.e+d)
		}
		if payload(a) != b.payload {
			return "content/style of a surviving cue changed"
		}
	}
	if j != len(after) {
		return fmt.Sprintf("%d cue(s) survive that should have been removed", len(after)-j)
	}
	return ""
}

func suiteAdd(R *runner, r *rng) {
	R.rule("add: all lists of <=3 cues with start,end on 0..4 (any order, start>end included for the model comparison only) x d in -6..6 (exhaustive), random lists of <=40 cues at ns granularity with d in [-max end-1, +24h], and d followed by -d; non-trivial = at least one cue is removed or clamped")
	group := "add.grid"
	run := func(items []*astisub.Item, d int64, back bool) {
		u := uidsOf(items)
		in := &enc{}
		in.i(d)
		encItems(in, items, u)
		before := snapItems(items)
		wf := true
		for _, b := range before {
			if b.s > b.e {
				wf = false
			}
		}
		h := map[string]interface{}{"d_ns": d, "cues": humanItems(items, u)}
		s := &astisub.Subtitles{Items: items}
		o := &obs{Suite: "add", Group: group, Input: in.String(), Human: h}
		p := safely(func() { s.Add(time.Duration(d)) })
		if p != "" {
			o.Impl, o.Oracle, o.Sig = "PANIC", "Add panicked: "+p, "add-panic"
			R.add(o)
			return
		}
		o.Impl = itemsString(s.Items, u)
		if wf {
			o.Oracle = oracleAdd(before, d, s.Items)
			if o.Oracle == "" {
				// C09_preserves_order on the implementation: a start-ordered list stays start-ordered
				sortedIn := true
				for i := 1; i < len(before); i++ {
					if before[i-1].s > before[i].s {
						sortedIn = false
					}
				}
				if sortedIn {
					for i := 1; i < len(s.Items); i++ {
						if s.Items[i-1].StartAt > s.Items[i].StartAt {
							o.Oracle = fmt.Sprintf("start-ordered input, but after Add(%d) cue %d starts after cue %d", d, i-1, i)
						}
					}
				}
			}
		}
		for _, b := range before {
			if b.e+d <= 0 || b.s+d < 0 {
				o.NT = true
			}
		}
		R.add(o)
		if back && wf && o.Oracle == "" {
			// d then -d restores every cue that was neither clamped nor removed
			mid := snapItems(s.Items)
			in2 := &enc{}
			in2.i(-d)
			encItems(in2, s.Items, u)
			o2 := &obs{Suite: "add", Group: group + ".back", Input: in2.String(), Human: map[string]interface{}{"d_ns": -d, "cues": humanItems(s.Items, u), "note": "second half of d then -d"}}
			p := safely(func() { s.Add(time.Duration(-d)) })
			if p != "" {
				o2.Impl, o2.Oracle, o2.Sig = "PANIC", "Add panicked: "+p, "add-panic"
				R.add(o2)
				return
			}
			o2.Impl = itemsString(s.Items, u)
			o2.Oracle = oracleAdd(mid, -d, s.Items)
			if o2.Oracle == "" {
				pos := map[*astisub.Item]*astisub.Item{}
				for _, it := range s.Items {
					pos[it] = it
				}
				for _, b := range before {
					if b.s >= 0 && b.e > 0 && b.s+d > 0 {
						it := pos[b.p]
						if it == nil || int64(it.StartAt) != b.s || int64(it.EndAt) != b.e {
							o2.Oracle = fmt.Sprintf("shifting by %d then by %d did not restore cue [%d,%d)", d, -d, b.s, b.e)
						}
					}
				}
			}
			o2.NT = true
			R.add(o2)
		}
	}
	// exhaustive grid
	type se struct{ s, e int64 }
	var cells []se
	for s := int64(0); s <= 4; s++ {
		for e := int64(0); e <= 4; e++ {
			cells = append(cells, se{s, e})
		}
	}
	maxN := 3
	if R.tier == "quick" {
		maxN = 2
	}
	for n := 0; n <= maxN; n++ {
		idx := make([]int, n)
		for {
			for d := int64(-6); d <= 6; d++ {
				var items []*astisub.Item
				for _, v := range idx {
					items = append(items, mkItem(cells[v].s, cells[v].e, "x"))
				}
				run(items, d, n <= 2)
			}
			k := n - 1
			for k >= 0 {
				idx[k]++
				if idx[k] < len(cells) {
					break
				}
				idx[k] = 0
				k--
			}
			if k < 0 {
				break
			}
		}
	}
	R.exhaustive("add.grid")
	R.exhaustive("add.grid.back")
	group = "add.random"
	N := 2000
	if R.tier == "thorough" {
		N = 40000
	}
	for c := 0; c < N; c++ {
		n := r.intn(41)
		items := randItems(r, n, 1, 7200_000_000_000, 3, r.chance(1, 2))
		var maxEnd int64
		for _, it := range items {
			if int64(it.EndAt) > maxEnd {
				maxEnd = int64(it.EndAt)
			}
		}
		var d int64
		switch r.intn(4) {
		case 0:
			d = r.rangeI64(-maxEnd-1, 0)
		case 1:
			d = r.rangeI64(0, 24*3600_000_000_000)
		case 2: // exactly minus some boundary
			if n > 0 {
				it := items[r.intn(n)]
				if r.chance(1, 2) {
					d = -int64(it.EndAt)
				} else {
					d = -int64(it.StartAt)
				}
			}
		default:
			d = r.rangeI64(-maxEnd-1, maxEnd+1)
		}
		R.countN("add.random.cues", n)
		run(items, d, true)
	}
}

// ================================================================================================
// C14 ForceDuration
// ================================================================================================

func oracleForce(before []cueSnap, d int64, filler bool, after []*astisub.Item) string {
	// specification from the property text (well-formed timelines only)
	var want []cueSnap
	for _, b := range before {
		if b.s >= d {
			continue
		}
		w := b
		if w.e > d {
			w.e = d
		}
		want = append(want, w)
	}
	needFill := filler && (len(want) == 0 || want[len(want)-1].e < d)
	n := len(want)
	if needFill {
		n++
	}
	if len(after) != n {
		return fmt.Sprintf("result has %d cues, want %d (filler expected: %v)", len(after), n, needFill)
	}
	for i, w := range want {
		a := after[i]
		if a != w.p {
			return fmt.Sprintf("cue at position %d is not the original cue", i)
		}
		if int64(a.StartAt) != w.s || int64(a.EndAt) != w.e {
			return fmt.Sprintf("cue [%d,%d) became [%d,%d), want [%d,%d)", before[i].s, before[i].e, int64(a.StartAt), int64(a.EndAt), w.s, w.e)
		}
		if payload(a) != w.payload {
			return "content of a kept cue changed"
		}
	}
	if needFill {
		f := after[len(after)-1]
		if int64(f.EndAt) != d || int64(f.StartAt) != d-int64(time.Millisecond) {
			return fmt.Sprintf("filler is [%d,%d), want [%d,%d)", int64(f.StartAt), int64(f.EndAt), d-int64(time.Millisecond), d)
		}
		if f.String() == "" {
			return "filler has no placeholder text"
		}
		for _, b := range before {
			if b.p == f {
				return "the filler is not a new cue: it is a cue that was already in the list"
			}
		}
		s := astisub.Subtitles{Items: after}
		if int64(s.Duration()) != d {
			return "duration after forcing with a filler is not d"
		}
	}
	return ""
}

func suiteForce(R *runner, r *rng) {
	R.rule("force: all well-formed timelines (start-ordered, non-decreasing ends, start<end) of <=3 (quick) / <=4 (thorough) cues on a 0..8 grid of 2 ms units x every d on the 1 ms half-grid 1..18 ms x filler in {true,false} (exhaustive); random well-formed timelines of <=30 cues at ns granularity with d before/inside/between/on a boundary/after; random ill-formed lists for the model comparison only; 2..4 successive calls on the same value (growing and shrinking d, filler relabelled in between), each judged against the list before that call, the filler required to be a new cue; non-trivial = the call changes the list")
	var runOn func(s *astisub.Subtitles, d int64, filler bool, wf bool, group string)
	run := func(items []*astisub.Item, d int64, filler bool, wf bool, group string) {
		runOn(&astisub.Subtitles{Items: items}, d, filler, wf, group)
	}
	runOn = func(s *astisub.Subtitles, d int64, filler bool, wf bool, group string) {
		items := s.Items
		u := uidsOf(items)
		in := &enc{}
		in.i(d).bool(filler).n(0)
		encItems(in, items, u)
		before := snapItems(items)
		h := map[string]interface{}{"d_ns": d, "filler": filler, "cues": humanItems(items, u)}
		o := &obs{Suite: "force", Group: group, Input: in.String(), Human: h}
		p := safely(func() { s.ForceDuration(time.Duration(d), filler) })
		if p != "" {
			o.Impl, o.Oracle, o.Sig = "PANIC", "ForceDuration panicked: "+p, "force-panic"
			R.add(o)
			return
		}
		o.Impl = itemsString(s.Items, u)
		if wf {
			o.Oracle = oracleForce(before, d, filler, s.Items)
		}
		// non-trivial: something changed
		changed := len(s.Items) != len(before)
		for i := range before {
			if i < len(s.Items) && (s.Items[i] != before[i].p || int64(s.Items[i].EndAt) != before[i].e) {
				changed = true
			}
		}
		o.NT = changed
		R.add(o)
	}
	unit := int64(2 * time.Millisecond)
	maxN := 3
	if R.tier == "thorough" {
		maxN = 4
	}
	var rec func(prefix [][2]int64, n int)
	emit := func(tl [][2]int64) {
		for dk := int64(1); dk <= 18; dk++ {
			for _, filler := range []bool{false, true} {
				var items []*astisub.Item
				for _, c := range tl {
					items = append(items, mkItem(c[0]*unit, c[1]*unit, "x"))
				}
				run(items, dk*int64(time.Millisecond), filler, true, "force.grid")
			}
		}
	}
	rec = func(prefix [][2]int64, n int) {
		emit(prefix)
		if len(prefix) == n {
			return
		}
		var ls, le int64
		if len(prefix) > 0 {
			ls, le = prefix[len(prefix)-1][0], prefix[len(prefix)-1][1]
		}
		for s := ls; s <= 8; s++ {
			for e := s + 1; e <= 8; e++ {
				if e < le {
					continue
				}
				rec(append(append([][2]int64{}, prefix...), [2]int64{s, e}), n)
			}
		}
	}
	rec(nil, maxN)
	R.exhaustive("force.grid")
	N := 2000
	if R.tier == "thorough" {
		N = 40000
	}
	for c := 0; c < N; c++ {
		n := r.intn(31)
		var items []*astisub.Item
		var s, e int64
		for i := 0; i < n; i++ {
			s += r.i64n(3) * r.i64n(2_000_000_000)
			ne := s + 1 + r.i64n(3_000_000_000)
			if ne < e {
				ne = e
			}
			e = ne
			items = append(items, mkItem(s, e, fmt.Sprintf("t%d", i)))
		}
		var d int64
		switch r.intn(6) {
		case 0:
			d = int64(time.Millisecond) + r.i64n(e+2_000_000_000)
		case 1:
			if n > 0 {
				d = int64(items[r.intn(n)].StartAt)
			}
		case 2:
			if n > 0 {
				d = int64(items[r.intn(n)].EndAt)
			}
		case 3:
			d = e
		case 4:
			d = e + 1 + r.i64n(5_000_000_000)
		default:
			if n > 0 {
				it := items[r.intn(n)]
				d = int64(it.StartAt) + r.i64n(int64(it.EndAt-it.StartAt)+1)
			}
		}
		if d < int64(time.Millisecond) {
			d = int64(time.Millisecond)
		}
		R.countN("force.random.cues", n)
		run(items, d, r.chance(1, 2), true, "force.random")
	}
	// ill-formed lists: model comparison only
	for c := 0; c < N/2; c++ {
		n := r.intn(8)
		items := randItems(r, n, int64(time.Millisecond), 10, 2, false)
		d := r.i64n(12) * int64(time.Millisecond)
		run(items, d, r.chance(1, 2), false, "force.illformed")
	}
	// successive calls on the SAME value (2..4 calls, mostly with filler, the filler sometimes relabelled in between as a
	// caller may do): every call is judged against the list as it stood before that call - the cues already there,
	// earlier fillers included, are "the other cues" of the property - whenever that list is a well-formed timeline
	wellFormed := func(items []*astisub.Item) bool {
		for i, it := range items {
			if it.StartAt >= it.EndAt || (i > 0 && (it.StartAt < items[i-1].StartAt || it.EndAt < items[i-1].EndAt)) {
				return false
			}
		}
		return true
	}
	for c := 0; c < N/4; c++ {
		n := r.intn(5)
		var items []*astisub.Item
		var st, e int64
		for i := 0; i < n; i++ {
			st += r.i64n(3) * r.i64n(2_000_000_000)
			ne := st + 1 + r.i64n(3_000_000_000)
			if ne < e {
				ne = e
			}
			e = ne
			items = append(items, mkItem(st, e, fmt.Sprintf("t%d", i)))
		}
		s := &astisub.Subtitles{Items: items}
		d := e
		for k := 0; k < 2+r.intn(3); k++ {
			switch r.intn(4) {
			case 0:
				d = d/2 + int64(time.Millisecond)
			default:
				d += int64(time.Millisecond) * (2 + r.i64n(9000))
			}
			runOn(s, d, r.chance(4, 5), wellFormed(s.Items), "force.successive")
			if len(s.Items) > 0 && r.chance(1, 2) {
				last := s.Items[len(s.Items)-1]
				last.Lines = []astisub.Line{{Items: []astisub.LineItem{{Text: fmt.Sprintf("relabelled %d", k)}}}}
			}
		}
	}
}
