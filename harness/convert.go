package main

// C07 any-to-any conversion through the file API and the CLI

import (
	"bytes"
	"encoding/binary"
	"errors"
	"fmt"
	"math/big"
	"os"
	"os/exec"
	"path/filepath"
	"sort"
	"strings"
	"time"
	"unicode"

	astisub "github.com/asticode/go-astisub"
)

// ---- minimal independent renderers of plain cue lists --------------------------------------------

func stamp(ns int64, sep string, digits int, shortHours bool) string {
	ms := ns / 1e6
	h, m, s, f := ms/3600000, ms/60000%60, ms/1000%60, ms%1000
	fr := fmt.Sprintf("%03d", f)[:digits]
	if shortHours {
		return fmt.Sprintf("%d:%02d:%02d%s%s", h, m, s, sep, fr)
	}
	return fmt.Sprintf("%02d:%02d:%02d%s%s", h, m, s, sep, fr)
}

func plainLines(c srtCue) []string {
	var ls []string
	for _, l := range c.Lines {
		t := ""
		for _, r := range l {
			t += r.Text
		}
		ls = append(ls, t)
	}
	return ls
}

func renderVTTPlain(cues []srtCue) []byte {
	var b strings.Builder
	b.WriteString("WEBVTT\n\n")
	for i, c := range cues {
		if i%2 == 0 {
			fmt.Fprintf(&b, "%d\n", i+1)
		}
		fmt.Fprintf(&b, "%s --> %s\n%s\n\n", stamp(c.Start, ".", 3, false), stamp(c.End, ".", 3, false), strings.Join(plainLines(c), "\n"))
	}
	return []byte(b.String())
}

// programme title of the plain SSA and TTML sources of the conversion matrix ("" = the default); set by suiteConvert only
var convTitle string

func renderSSAPlain(cues []srtCue) []byte {
	var b strings.Builder
	title := "generated"
	if convTitle != "" {
		title = convTitle
	}
	b.WriteString("[Script Info]\nTitle: " + title + "\nScriptType: v4.00\n\n[V4 Styles]\nFormat: Name, Fontname, Fontsize, Bold\nStyle: Default,Arial,20,0\n\n[Events]\nFormat: Marked, Start, End, Style, Name, MarginL, MarginR, MarginV, Effect, Text\n")
	for _, c := range cues {
		fmt.Fprintf(&b, "Dialogue: Marked=0,%s,%s,Default,,0,0,0,,%s\n", stamp(c.Start, ".", 2, true), stamp(c.End, ".", 2, true), strings.Join(plainLines(c), "\\N"))
	}
	return []byte(b.String())
}

func ttmlPlainMeta() string {
	if convTitle == "" {
		return "<metadata/>"
	}
	return `<metadata xmlns:ttm="http://www.w3.org/ns/ttml#metadata"><ttm:title>` + xmlEsc(convTitle) + `</ttm:title></metadata>`
}

func xmlEsc(s string) string {
	return strings.NewReplacer("&", "&amp;", "<", "&lt;", ">", "&gt;").Replace(s)
}

func renderTTMLPlain(cues []srtCue, frameRate int) []byte {
	var b strings.Builder
	fr := ""
	if frameRate > 0 {
		fr = fmt.Sprintf(` xmlns:ttp="http://www.w3.org/ns/ttml#parameter" ttp:frameRate="%d"`, frameRate)
	}
	b.WriteString(`<?xml version="1.0" encoding="UTF-8"?>` + "\n" + `<tt xmlns="http://www.w3.org/ns/ttml"` + fr + ` xml:lang="en"><head>` + ttmlPlainMeta() + `</head><body><div>` + "\n")
	for _, c := range cues {
		var ls []string
		for _, l := range plainLines(c) {
			ls = append(ls, xmlEsc(l))
		}
		fmt.Fprintf(&b, `<p begin="%s" end="%s">%s</p>`+"\n", stamp(c.Start, ".", 3, false), stamp(c.End, ".", 3, false), strings.Join(ls, "<br/>"))
	}
	b.WriteString("</div></body></tt>\n")
	return []byte(b.String())
}

// ISO 6937: floating diacritic before the base letter
var iso6937Diacritic = map[rune][2]byte{'é': {0xc2, 'e'}, 'è': {0xc1, 'e'}, 'ê': {0xc3, 'e'}, 'ï': {0xc8, 'i'}, 'ü': {0xc8, 'u'}, 'ñ': {0xc4, 'n'}, 'ç': {0xcb, 'c'}, 'à': {0xc1, 'a'}, 'ö': {0xc8, 'o'}, 'É': {0xc2, 'E'}}

func stlText(s string) []byte {
	var o []byte
	for _, r := range s {
		if d, ok := iso6937Diacritic[r]; ok {
			o = append(o, d[0], d[1])
		} else if r < 0x7f && r >= 0x20 && r != '$' {
			o = append(o, byte(r))
		} else {
			o = append(o, '?')
		}
	}
	return o
}

func stlTimecode(ns int64, fps int64) []byte {
	s := ns / 1e9
	f := (ns % 1e9) * fps / 1e9
	return []byte{byte(s / 3600), byte(s / 60 % 60), byte(s % 60), byte(f)}
}

// EBU Tech 3264 file: one GSI block, one TTI block per cue (dsc: '0' open subtitling, '1'/'2' teletext)
func renderSTLPlain(cues []srtCue, dsc byte, fps int64, tcpSeconds int64) []byte {
	g := bytes.Repeat([]byte{' '}, 1024)
	put := func(off int, s string) { copy(g[off:], s) }
	put(0, "850")
	put(3, fmt.Sprintf("STL%d.01", fps))
	g[11] = dsc
	put(12, "00")
	put(14, "09")
	put(16, "Programme title")
	put(224, "200102200102")
	put(236, "00")
	put(238, fmt.Sprintf("%05d%05d001", len(cues), len(cues)))
	put(251, "4023")
	g[255] = '1'
	put(256, fmt.Sprintf("%02d%02d%02d00", tcpSeconds/3600, tcpSeconds/60%60, tcpSeconds%60))
	put(264, "00000000")
	g[272], g[273] = '1', '1'
	put(274, "FRA")
	out := append([]byte{}, g...)
	for i, c := range cues {
		t := make([]byte, 128)
		t[0] = 0
		binary.LittleEndian.PutUint16(t[1:], uint16(i+1))
		t[3] = 0xff
		t[4] = 0
		copy(t[5:], stlTimecode(c.Start+tcpSeconds*1e9, fps))
		copy(t[9:], stlTimecode(c.End+tcpSeconds*1e9, fps))
		// vertical position and justification vary with the cue (top, middle and bottom rows; unchanged/left/centred/right)
		t[13] = []byte{20, 1, 3, 7, 11, 12, 16, 22, 23, 20}[(i+len(cues)+int(c.Start/4e7))%10]
		t[14] = []byte{2, 0, 1, 3}[(i+int(c.End/4e7))%4]
		t[15] = 0
		var tf []byte
		for li, l := range plainLines(c) {
			if li > 0 {
				tf = append(tf, 0x8a)
			}
			if dsc != '0' {
				tf = append(tf, 0x0b, 0x0b)
			}
			tf = append(tf, stlText(l)...)
			if dsc != '0' {
				tf = append(tf, 0x0a, 0x0a)
			}
		}
		for len(tf) < 112 {
			tf = append(tf, 0x8f)
		}
		copy(t[16:], tf[:112])
		out = append(out, t...)
	}
	return out
}

// transport stream carrying the cues as teletext page instances (text restricted to G0 ASCII)
func renderTSPlain(r *rng, cues []srtCue) ([]byte, error) {
	sch := &ttxSchedule{Magazine: 8, Page: 88, Charset: 4, Serial: true, PID: 300}
	for i, c := range cues {
		inst := ttxInstance{PTS: 10000 + c.Start/1e6, Charset: 4}
		for li, l := range plainLines(c) {
			cells := append([]byte{0x0b, 0x0b}, []byte(l)...)
			cells = append(cells, 0x0a)
			inst.Rows = append(inst.Rows, ttxRow{Row: 18 + li, Runs: []ttxRun{{Text: l, Color: -1}}, cells: cells})
		}
		sch.Instances = append(sch.Instances, inst)
		if i == len(cues)-1 || cues[i+1].Start > c.End {
			sch.Instances = append(sch.Instances, ttxInstance{PTS: 10000 + c.End/1e6, Erase: true, Charset: 4})
		}
	}
	ts, _, err := buildTS(r, sch, ttxMux{})
	return ts, err
}

// ---- formats and expectations --------------------------------------------------------------------

type convFormat struct {
	ext  string
	unit func(ns int64) int64 // truncation to the format's time resolution
	ns   int64
}

func truncTo(u int64) func(int64) int64 { return func(ns int64) int64 { return ns - ns%u } }

var dstFormats = map[string]convFormat{
	"srt":  {".srt", truncTo(1e6), 1e6},
	"vtt":  {".vtt", truncTo(1e6), 1e6},
	"ttml": {".ttml", truncTo(1e6), 1e6},
	"ssa":  {".ssa", truncTo(1e7), 1e7},
	"ass":  {".ass", truncTo(1e7), 1e7},
	"stl":  {".stl", truncTo(4e7), 4e7},
}

type plainCue struct {
	Start, End int64
	Lines      []string // white space removed
}

func nows(s string) string {
	return strings.Map(func(r rune) rune {
		if unicode.IsSpace(r) {
			return -1
		}
		return r
	}, s)
}

func plainOf(s *astisub.Subtitles) []plainCue {
	var out []plainCue
	for _, it := range s.Items {
		c := plainCue{Start: int64(it.StartAt), End: int64(it.EndAt)}
		for _, l := range it.Lines {
			c.Lines = append(c.Lines, nows(l.String()))
		}
		out = append(out, c)
	}
	return out
}

// reference implementations of the operations on plain cues (specification level)
type convOp struct {
	name       string
	d, f       int64
	a1, d1     int64
	a2, d2     int64
	mergeWith  []srtCue
	mergeBytes []byte
}

func applyOpsSpec(cues []plainCue, ops []convOp) []plainCue {
	for _, op := range ops {
		switch op.name {
		case "sync":
			var o []plainCue
			for _, c := range cues {
				c.Start += op.d
				c.End += op.d
				if c.End <= 0 {
					continue
				}
				if c.Start < 0 {
					c.Start = 0
				}
				o = append(o, c)
			}
			cues = o
		case "fragment":
			var o []plainCue
			for _, c := range cues {
				cur := c.Start
				// first multiple of f strictly after the start (floor division: intermediate times may be negative)
				q := c.Start / op.f
				if c.Start%op.f < 0 {
					q--
				}
				for b := (q + 1) * op.f; b < c.End; b += op.f {
					o = append(o, plainCue{cur, b, c.Lines})
					cur = b
				}
				o = append(o, plainCue{cur, c.End, c.Lines})
			}
			sort.SliceStable(o, func(i, j int) bool { return o[i].Start < o[j].Start })
			cues = o
		case "unfragment":
			o := append([]plainCue{}, cues...)
			sort.SliceStable(o, func(i, j int) bool { return o[i].Start < o[j].Start })
			for i := 0; i < len(o); i++ {
				for j := i + 1; j < len(o); j++ {
					if strings.Join(o[i].Lines, "-") == strings.Join(o[j].Lines, "-") && o[i].End >= o[j].Start {
						if o[j].End > o[i].End {
							o[i].End = o[j].End
						}
						o = append(o[:j], o[j+1:]...)
						j--
					}
				}
			}
			cues = o
		case "merge":
			o := append([]plainCue{}, cues...)
			for _, c := range op.mergeWith {
				var ls []string
				for _, l := range plainLines(c) {
					ls = append(ls, nows(l))
				}
				o = append(o, plainCue{c.Start, c.End, ls})
			}
			sort.SliceStable(o, func(i, j int) bool { return o[i].Start < o[j].Start })
			cues = o
		case "order":
			o := append([]plainCue{}, cues...)
			sort.SliceStable(o, func(i, j int) bool { return o[i].Start < o[j].Start })
			cues = o
		case "optimize":
		case "linear":
			var o []plainCue
			for _, c := range cues {
				m := func(t int64) int64 {
					n := new(big.Int).Mul(big.NewInt(t-op.a1), big.NewInt(op.d2-op.d1))
					n.Quo(n, big.NewInt(op.a2-op.a1))
					return op.d1 + n.Int64()
				}
				o = append(o, plainCue{m(c.Start), m(c.End), c.Lines})
			}
			cues = o
		}
	}
	return cues
}

func applyOpsLib(s *astisub.Subtitles, ops []convOp, open func([]byte, string) (*astisub.Subtitles, error)) error {
	for _, op := range ops {
		switch op.name {
		case "sync":
			s.Add(time.Duration(op.d))
		case "fragment":
			s.Fragment(time.Duration(op.f))
		case "unfragment":
			s.Unfragment()
		case "merge":
			o, err := open(op.mergeBytes, ".srt")
			if err != nil {
				return err
			}
			s.Merge(o)
		case "order":
			s.Order()
		case "optimize":
			s.Optimize()
		case "linear":
			s.ApplyLinearCorrection(time.Duration(op.a1), time.Duration(op.d1), time.Duration(op.a2), time.Duration(op.d2))
		}
	}
	return nil
}

func comparePlain(got, want []plainCue, unit func(int64) int64, tolerance int64) string {
	if len(got) != len(want) {
		return fmt.Sprintf("%d cues, want %d", len(got), len(want))
	}
	near := func(a, b int64) bool {
		d := a - b
		if d < 0 {
			d = -d
		}
		return d <= tolerance
	}
	for i := range want {
		ws, we := unit(want[i].Start), unit(want[i].End)
		if !near(unit(got[i].Start), ws) || !near(unit(got[i].End), we) {
			return fmt.Sprintf("cue %d: [%d,%d) ms, want [%d,%d) ms (source [%d,%d) ms truncated to the destination's resolution)", i+1, got[i].Start/1e6, got[i].End/1e6, ws/1e6, we/1e6, want[i].Start/1e6, want[i].End/1e6)
		}
		if strings.Join(got[i].Lines, "\n") != strings.Join(want[i].Lines, "\n") {
			return fmt.Sprintf("cue %d: text %q, want %q", i+1, got[i].Lines, want[i].Lines)
		}
	}
	return ""
}

// conversion model (Model/Conv.v): the bytes the library produces for SubRip -> WebVTT and WebVTT -> SubRip are compared
// with the composition read model ; conversion ; write model
func suiteConvertModel(R *runner, r *rng) {
	N := 150
	if R.tier == "thorough" {
		N = 3000
	}
	for c := 0; c < N; c++ {
		cues := randSrtCues(r, 5, c%3 != 0)
		doc, _ := renderSrt(r, cues)
		o := &obs{Suite: "convsv", Group: "convert.model.srt->vtt", Input: (&enc{}).str(doc).String(), NT: len(cues) > 0, Human: map[string]interface{}{"source": doc}}
		var buf bytes.Buffer
		var s *astisub.Subtitles
		var err error
		p := safely(func() {
			if s, err = astisub.ReadFromSRT(strings.NewReader(doc)); err == nil {
				err = s.WriteToWebVTT(&buf)
			}
		})
		switch {
		case p != "":
			o.Impl, o.Oracle, o.Sig = "2", "SubRip -> WebVTT panicked: "+p, "convert-model-panic"
		case err != nil:
			o.Impl = "1"
		default:
			o.Impl = (&enc{}).n(0).bytes(buf.Bytes()).String()
		}
		R.add(o)
	}
	for c := 0; c < N; c++ {
		d := randVttDoc(r, c%2 == 0)
		doc := renderVtt(r, d)
		o := &obs{Suite: "convvs", Group: "convert.model.vtt->srt", Input: (&enc{}).str(doc).String(), NT: len(d.Cues) > 0, Human: map[string]interface{}{"source": doc}}
		var buf bytes.Buffer
		var s *astisub.Subtitles
		var err error
		p := safely(func() {
			if s, err = astisub.ReadFromWebVTT(strings.NewReader(doc)); err == nil {
				err = s.WriteToSRT(&buf)
			}
		})
		switch {
		case p != "":
			o.Impl, o.Oracle, o.Sig = "2", "WebVTT -> SubRip panicked: "+p, "convert-model-panic"
		case err != nil:
			o.Impl = "1"
		default:
			o.Impl = (&enc{}).n(0).bytes(buf.Bytes()).String()
		}
		R.add(o)
	}
}

func suiteConvert(R *runner, r *rng) {
	R.rule("conversion: all (source, destination) pairs in {srt,ssa,ass,stl,ttml,vtt,ts} x {srt,ssa,ass,stl,ttml,vtt}; sources rendered by the harness's own encoders from ground-truth cue lists (1..5 cues, 1..2 lines, Latin text incl. accented letters; times at the source's resolution; TTML and SSA/ASS sources half of the time with a programme title, of up to 70 bytes with multi-byte characters) plus styled SRT documents and repository samples; extension in mixed case; every third repetition a crafted list in which a cue with another text starts on a fragment boundary of a longer cue listed after it (then fragment + unfragment), every third a list of 14..24 cues sharing few start instants in shuffled order (then order / fragment / unfragment); 0..4 operations (sync, fragment, unfragment, merge, optimize, order, linear correction) with random parameters through the library, 0..1 operation through the built CLI; the destination file is re-read through the library; oracle: same cues in the same order, times truncated to the destination's unit, same text without white space; unsupported extension -> ErrInvalidExtension, empty list -> ErrNoSubtitlesToWrite; non-trivial = destination format differs from the source format or an operation is applied")
	dir, _ := os.MkdirTemp("", "verif-conv")
	defer os.RemoveAll(dir)
	cli := filepath.Join(buildDir, "astisub-cli")
	if _, err := os.Stat(cli); err != nil {
		R.note("CLI binary not built: " + err.Error())
		cli = ""
	}
	srcs := []string{"srt", "ssa", "ass", "stl", "ttml", "vtt", "ts"}
	dsts := []string{"srt", "ssa", "ass", "stl", "ttml", "vtt"}
	N := 3
	if R.tier == "thorough" {
		N = 40
	}
	open := func(data []byte, ext string) (*astisub.Subtitles, error) {
		p := filepath.Join(dir, "in-"+hashBytes(data)+ext)
		if err := os.WriteFile(p, data, 0o644); err != nil {
			return nil, err
		}
		defer os.Remove(p)
		return astisub.OpenFile(p)
	}
	caseExt := func(ext string) string {
		switch r.intn(4) {
		case 0:
			return strings.ToUpper(ext)
		case 1:
			return strings.ToUpper(ext[:2]) + ext[2:]
		}
		return ext
	}
	count := 0
	for rep := 0; rep < N; rep++ {
		for _, sf := range srcs {
			for _, df := range dsts {
				count++
				// ground truth at the source's resolution
				n := 1 + r.intn(5)
				cues := plainCues(r, n)
				unitSrc := int64(1e6)
				switch sf {
				case "ssa", "ass":
					unitSrc = 1e7
				case "stl":
					unitSrc = 4e7
				}
				for i := range cues {
					cues[i].Start -= cues[i].Start % unitSrc
					cues[i].End -= cues[i].End % unitSrc
					if cues[i].End <= cues[i].Start {
						cues[i].End = cues[i].Start + unitSrc
					}
					if sf == "ts" || df == "stl" && sf == "ts" {
						for li := range cues[i].Lines {
							cues[i].Lines[li][0].Text = strings.Map(func(ru rune) rune {
								if ru > 0x7e {
									return 'e'
								}
								return ru
							}, cues[i].Lines[li][0].Text)
						}
					}
				}
				// every third repetition: a cue list not in start order in which a cue with another text starts exactly on a
				// fragment boundary of a longer cue and is listed before it, then fragment + unfragment
				var crafted []convOp
				if rep%3 == 1 && sf != "ts" {
					cues = plainCues(r, 2)
					f := (1 + r.i64n(20)) * 4e7
					m := int64(2 + r.intn(4))
					k := 1 + r.i64n(m-1)
					cues[0].Lines[0][0].Text = "b" + cues[0].Lines[0][0].Text
					cues[1].Lines[0][0].Text = "a" + cues[1].Lines[0][0].Text
					cues[0].Start, cues[0].End = k*f, k*f+(1+r.i64n(3))*4e7
					cues[1].Start, cues[1].End = 0, m*f
					crafted = []convOp{{name: "fragment", f: f}, {name: "unfragment"}}
				}
				// every third repetition (other phase): 14..24 cues of which many share their start instant exactly, listed in
				// shuffled order, then order / merge / fragment (stability of the ordering on lists longer than 12)
				if rep%3 == 2 && sf != "ts" {
					n := 14 + r.intn(11)
					cues = plainCues(r, n)
					for i := range cues {
						slot := int64(r.intn(5))
						cues[i].Start = (10 + slot*3) * 1e9
						cues[i].End = cues[i].Start + (1+r.i64n(2))*1e9
						cues[i].Lines = cues[i].Lines[:1]
						cues[i].Lines[0][0].Text = fmt.Sprintf("c%d %s", i, cues[i].Lines[0][0].Text)
						if sf == "ts" || df == "stl" || sf == "stl" {
							cues[i].Lines[0][0].Text = strings.Map(func(ru rune) rune {
								if ru > 0x7e {
									return 'e'
								}
								return ru
							}, cues[i].Lines[0][0].Text)
						}
					}
					switch r.intn(3) {
					case 0:
						crafted = []convOp{{name: "order"}}
					case 1:
						crafted = []convOp{{name: "fragment", f: 2e9}}
					default:
						crafted = []convOp{{name: "order"}, {name: "unfragment"}}
					}
				}
				var src []byte
				var err error
				dstUnit := dstFormats[df].unit
				// metadata-bearing sources: a programme title, sometimes longer than the 32 bytes an STL header field holds,
				// with multi-byte characters before and at the cut
				convTitle = ""
				if (sf == "ttml" || sf == "ssa" || sf == "ass") && r.chance(1, 2) {
					convTitle = r.pick("Short title", "Les enfants du paradis - édition restaurée en été", "Ünïcödé títlé thät ïs lönger than thirty-two bytes", "Exactly thirty-two bytes long !!", "Trente et un octets et un accent é", "日本語のタイトルはとても長いです、三十二バイトより")
				}
				switch sf {
				case "srt":
					d, _ := renderSrt(r, cues)
					src = []byte(d)
				case "vtt":
					src = renderVTTPlain(cues)
				case "ssa", "ass":
					src = renderSSAPlain(cues)
				case "ttml":
					rate := []int{24, 0, 50, 25, 30, 0}[rep%6] // frame rates the other formats have no code for included
					src = renderTTMLPlain(cues, rate)
					if rate == 30 && df == "stl" {
						// the frame rate travels with the cues: the destination is a 30 frames/s STL file, its unit is 1/30 s
						dstUnit = func(t int64) int64 { return (t * 30 / 1e9) * 1e9 / 30 }
					}
				case "stl":
					src = renderSTLPlain(cues, []byte{'0', '1', '2'}[r.intn(3)], 25, 0)
				case "ts":
					src, err = renderTSPlain(r, cues)
					if err != nil {
						continue
					}
					// teletext times are relative to the first presentation time
					base := cues[0].Start
					for i := range cues {
						cues[i].Start -= base
						cues[i].End -= base
					}
				}
				convTitle = ""
				var want []plainCue
				for _, c := range cues {
					var ls []string
					for _, l := range plainLines(c) {
						ls = append(ls, nows(l))
					}
					want = append(want, plainCue{c.Start, c.End, ls})
				}
				// operations
				var ops []convOp
				nops := r.intn(5)
				if rep%2 == 0 {
					nops = 0
				}
				tol := int64(0)
				for k := 0; k < nops; k++ {
					switch r.intn(7) {
					case 0:
						ops = append(ops, convOp{name: "sync", d: r.rangeI64(-3000, 5000) * 4e7})
					case 1:
						ops = append(ops, convOp{name: "fragment", f: (1 + r.i64n(50)) * 4e7})
					case 2:
						ops = append(ops, convOp{name: "unfragment"})
					case 3:
						mc := plainCues(r, 1+r.intn(3))
						for i := range mc {
							mc[i].Start -= mc[i].Start % 4e7
							mc[i].End -= mc[i].End % 4e7
							if mc[i].End <= mc[i].Start {
								mc[i].End = mc[i].Start + 4e7
							}
							for li := range mc[i].Lines {
								mc[i].Lines[li][0].Text = "m" + fmt.Sprint(k) + " " + strings.Map(func(ru rune) rune {
									if ru > 0x7e {
										return 'e'
									}
									return ru
								}, mc[i].Lines[li][0].Text)
							}
						}
						md, _ := renderSrt(r, mc)
						ops = append(ops, convOp{name: "merge", mergeWith: mc, mergeBytes: []byte(md)})
					case 4:
						ops = append(ops, convOp{name: "optimize"})
					case 5:
						ops = append(ops, convOp{name: "order"})
					default:
						a1 := r.i64n(10) * 1e9
						a2 := a1 + (60+r.i64n(600))*1e9
						ops = append(ops, convOp{name: "linear", a1: a1, d1: a1 + r.i64n(3)*1e9, a2: a2, d2: a2 + r.i64n(20)*1e9})
						tol = dstFormats[df].ns // one destination unit: float/truncation slack of the linear correction
					}
				}
				ops = append(crafted, ops...)
				wantOps := applyOpsSpec(want, ops)
				nonneg := true
				for _, c := range wantOps {
					if c.Start < 0 || c.End < 0 {
						nonneg = false
					}
				}
				srcExt := "." + sf
				dstExt := dstFormats[df].ext
				h := map[string]interface{}{"source": sf, "destination": df, "cues": want, "ops": describeOps(ops), "entry": "library"}
				o := &obs{Suite: "convert", Group: "convert." + sf + "->" + df, NoModel: true, NT: sf != df || len(ops) > 0, Input: fmt.Sprintf("convert %d %s %s %s", count, sf, df, hashBytes(src)), Human: h}
				fail := func(msg, sig string) {
					if o.Oracle == "" {
						o.Oracle, o.Sig = fmt.Sprintf("%s -> %s: %s", sf, df, msg), sig
						h["source_bytes"] = fmt.Sprintf("%q", string(src[:minInt(len(src), 1500)]))
					}
				}
				res := guarded(func() {
					s, err := open(src, caseExt(srcExt))
					if err != nil {
						fail("reading the source failed: "+err.Error(), "convert-read-"+sf)
						return
					}
					if err := applyOpsLib(s, ops, open); err != nil {
						fail("merge source unreadable: "+err.Error(), "convert-merge")
						return
					}
					dp := filepath.Join(dir, fmt.Sprintf("out-%d%s", count, caseExt(dstExt)))
					defer os.Remove(dp)
					werr := s.Write(dp)
					if len(wantOps) == 0 {
						if !errors.Is(werr, astisub.ErrNoSubtitlesToWrite) {
							fail(fmt.Sprintf("writing an empty cue list returned %v, want ErrNoSubtitlesToWrite", werr), "convert-empty")
						}
						return
					}
					if !nonneg {
						return // outside the property's proviso (negative times): only "no panic" is checked
					}
					if werr != nil {
						fail("writing the destination failed: "+werr.Error(), "convert-write-"+df)
						return
					}
					back, rerr := astisub.OpenFile(dp)
					if rerr != nil {
						fail("re-reading the destination failed: "+rerr.Error(), "convert-reread-"+df)
						return
					}
					t := tol
					if m := comparePlain(plainOf(back), wantOps, dstUnit, t); m != "" {
						fail(m, "convert-value-"+sf+"->"+df)
					}
				}, 20*time.Second)
				if res != "" {
					fail(res, "convert-panic"+siteOf(res))
				}
				R.add(o)

				// the CLI (one operation at most)
				if cli != "" && rep%2 == 1 && len(wantOps) > 0 {
					sp := filepath.Join(dir, fmt.Sprintf("cli-in-%d%s", count, srcExt))
					dp := filepath.Join(dir, fmt.Sprintf("cli-out-%d%s", count, dstExt))
					os.WriteFile(sp, src, 0o644)
					args := []string{"convert", "-i", sp, "-o", dp}
					var cops []convOp
					if len(ops) > 0 {
						op := ops[0]
						switch op.name {
						case "sync":
							if op.d != 0 {
								args = []string{"sync", "-i", sp, "-o", dp, "-s", time.Duration(op.d).String()}
								cops = []convOp{op}
							}
						case "fragment":
							args = []string{"fragment", "-i", sp, "-o", dp, "-f", time.Duration(op.f).String()}
							cops = []convOp{op}
						case "unfragment":
							args = []string{"unfragment", "-i", sp, "-o", dp}
							cops = []convOp{op}
						case "optimize":
							args = []string{"optimize", "-i", sp, "-o", dp}
							cops = []convOp{op}
						case "merge":
							mp := filepath.Join(dir, fmt.Sprintf("cli-merge-%d.srt", count))
							os.WriteFile(mp, op.mergeBytes, 0o644)
							defer os.Remove(mp)
							args = []string{"merge", "-i", sp, "-i", mp, "-o", dp}
							cops = []convOp{op}
						}
					}
					wantCLI := applyOpsSpec(want, cops)
					h2 := map[string]interface{}{"source": sf, "destination": df, "cues": want, "entry": "cli", "args": strings.Join(args[:1], " ") + " ..."}
					o2 := &obs{Suite: "convert", Group: "convert.cli", NoModel: true, NT: true, Input: fmt.Sprintf("cli %d %s %s %s", count, sf, df, hashBytes(src)), Human: h2}
					cmd := exec.Command(cli, args...)
					outb, cerr := cmd.CombinedOutput()
					nonnegCLI := true
					for _, c := range wantCLI {
						if c.Start < 0 || c.End < 0 {
							nonnegCLI = false
						}
					}
					switch {
					case len(wantCLI) == 0:
					case cerr != nil:
						o2.Oracle, o2.Sig = fmt.Sprintf("%s -> %s via CLI %s failed: %v %s", sf, df, args[0], cerr, trunc(string(outb), 200)), "convert-cli-fail-"+sf+"->"+df
					default:
						back, rerr := astisub.OpenFile(dp)
						if rerr != nil {
							o2.Oracle, o2.Sig = fmt.Sprintf("%s -> %s via CLI: re-reading failed: %v", sf, df, rerr), "convert-reread-"+df
						} else if nonnegCLI {
							if m := comparePlain(plainOf(back), wantCLI, dstUnit, 0); m != "" {
								o2.Oracle, o2.Sig = fmt.Sprintf("%s -> %s via CLI %s: %s", sf, df, args[0], m), "convert-value-"+sf+"->"+df
							}
						}
					}
					os.Remove(sp)
					os.Remove(dp)
					R.add(o2)
				}
			}
		}
	}
	// extension dispatch against the model: invalid-extension or not, for reading and for writing
	exts := []string{".srt", ".SRT", ".Srt", ".ssa", ".ass", ".ASS", ".stl", ".ts", ".TS", ".ttml", ".vtt", ".VtT", ".txt", "", ".srt.bak", ".", ".srtx", ".sr", ".tt", ".webvtt", ".vtt ", ".t s"}
	for c := 0; c < 60; c++ {
		name := r.pick("a", "file", "x.y", "UP", "é") + exts[r.intn(len(exts))]
		if r.chance(1, 4) {
			name = r.pick("d.srt", "sub.vtt", "D") + "/" + name
		}
		full := filepath.Join(dir, "disp", name)
		os.MkdirAll(filepath.Dir(full), 0o755)
		os.WriteFile(full, []byte("1\n00:00:01,000 --> 00:00:02,000\nx\n"), 0o644)
		_, rerr := astisub.OpenFile(full)
		werr := subsFromCues(plainCues(r, 1)).Write(full)
		bit := func(err error) int {
			if errors.Is(err, astisub.ErrInvalidExtension) {
				return 1
			}
			return 0
		}
		R.add(&obs{Suite: "dispatch", Group: "convert.dispatch", Input: (&enc{}).str(full).String(), Impl: (&enc{}).n(bit(rerr)).n(bit(werr)).String(), NT: true, Human: map[string]interface{}{"name": name}})
		os.Remove(full)
	}
	// unsupported extensions
	s := subsFromCues(plainCues(r, 2))
	for _, ext := range []string{".txt", "", ".sub", ".ts", ".srt.bak"} {
		p := filepath.Join(dir, "x"+ext)
		err := s.Write(p)
		o := &obs{Suite: "convert", Group: "convert.ext", NoModel: true, NT: true, Input: "write ext " + ext, Human: map[string]interface{}{"op": "Write", "ext": ext}}
		if !errors.Is(err, astisub.ErrInvalidExtension) {
			o.Oracle, o.Sig = fmt.Sprintf("Write with extension %q returned %v, want ErrInvalidExtension", ext, err), "convert-ext"
		}
		R.add(o)
		os.WriteFile(p, []byte("1\n00:00:01,000 --> 00:00:02,000\nx\n"), 0o644)
		if ext != ".ts" {
			_, err = astisub.OpenFile(p)
			o2 := &obs{Suite: "convert", Group: "convert.ext", NoModel: true, NT: true, Input: "open ext " + ext, Human: map[string]interface{}{"op": "OpenFile", "ext": ext}}
			if !errors.Is(err, astisub.ErrInvalidExtension) {
				o2.Oracle, o2.Sig = fmt.Sprintf("OpenFile with extension %q returned %v, want ErrInvalidExtension", ext, err), "convert-ext"
			}
			R.add(o2)
		}
		os.Remove(p)
	}
}

func describeOps(ops []convOp) []string {
	var o []string
	for _, op := range ops {
		switch op.name {
		case "sync":
			o = append(o, fmt.Sprintf("sync %v", time.Duration(op.d)))
		case "fragment":
			o = append(o, fmt.Sprintf("fragment %v", time.Duration(op.f)))
		case "merge":
			o = append(o, fmt.Sprintf("merge %d cues", len(op.mergeWith)))
		case "linear":
			o = append(o, fmt.Sprintf("linear %v->%v %v->%v", time.Duration(op.a1), time.Duration(op.d1), time.Duration(op.a2), time.Duration(op.d2)))
		default:
			o = append(o, op.name)
		}
	}
	return o
}
