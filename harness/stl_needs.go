package main

// C05: the worked instances of C05_read_rendered (coq/Proofs/StlRead.v, bytes in stl_examples.go / Proofs/StlReadBytes.v)
// and the documents of the computed counter-examples C05_read_rendered_needs_* are replayed on the library: extracted
// reader model vs ReadFromSTL (correspondence) and the meaning stated in the Coq examples (oracle).

import (
	"bytes"
	"encoding/hex"
	"fmt"

	astisub "github.com/asticode/go-astisub"
)

type stlNeedsDoc struct {
	name    string
	data    []byte
	wantErr bool
	want    []stlCueView // checked when !wantErr (times for ignore=false; VP/JC -1 = not checked)
}

func stlNeedsDocs(r *rng) []stlNeedsDoc {
	x, _ := hex.DecodeString(stlExampleX)
	y, _ := hex.DecodeString(stlExampleY)
	z, _ := hex.DecodeString(stlExampleZ)
	raw := func(dsc byte, text []byte, cct string) []byte {
		f := &stlFile{FPS: 25, DSC: dsc, CPN: "850", LC: "09", Lang: "english", MNC: 40, MNR: 23, TCS: '1', TND: 1, DSN: 1, CO: "GBR", TNB: 1, TNS: 1}
		f.Blocks = []stlCue{{In: stlTC{0, 0, 1, 0}, Out: stlTC{0, 0, 2, 0}, VP: 20, JC: 2, Raw: text}}
		d := renderSTL(r, f)
		copy(d[12:14], cct)
		return d
	}
	run := func(t string, it, un, bx bool) stlRun { return stlRun{t, it, un, bx} }
	return []stlNeedsDoc{
		{name: "worked_instance_open", data: x, want: []stlCueView{
			{Start: 1966666667, End: 3000000000, VP: 200, JC: 2, Rows: [][]stlRun{{run("Hi", true, false, false), run("¤é", true, false, false)}, {run("x", false, true, false), run("¤", false, false, false)}}},
			{Start: 3599233333334, End: 3600000000000, VP: 0, JC: 0, Rows: [][]stlRun{{run("Ok", false, false, false)}}}}},
		{name: "worked_instance_teletext", data: y, want: []stlCueView{
			{Start: 1000000000, End: 2480000000, VP: 22, JC: 1, Rows: [][]stlRun{{run("Hi", false, false, false), run("é", true, false, false), run("!", false, false, false)}, {run("Ok", false, false, false)}}}}},
		// rows without start box (the writer's form), one with: z_denotes
		{name: "worked_instance_teletext_no_start_box", data: z, want: []stlCueView{
			{Start: 1000000000, End: 2480000000, VP: 22, JC: 1, Rows: [][]stlRun{{run("Hi", true, false, false), run("é", false, false, false)}, {run("Ok", false, false, false)}, {run("!", false, false, false)}}}}},
		// a floating diacritic left at the end of a row lands on the first character of the next row
		{name: "needs_pair_open", data: raw('0', []byte{'a', 0xc2, 0x8a, 'e'}, "00"), want: []stlCueView{
			{Start: 1e9, End: 2e9, VP: 20, JC: 2, Rows: [][]stlRun{{run("a", false, false, false)}, {run("é", false, false, false)}}}}},
		{name: "needs_pair_teletext", data: raw('1', []byte{0x0b, 'a', 0xc2, 0x8a, 0x0b, 'e'}, "00"), want: []stlCueView{
			{Start: 1e9, End: 2e9, VP: 20, JC: 2, Rows: [][]stlRun{{run("a", false, false, false)}, {run("é", false, false, false)}}}}},
		// a byte below 0x20 in an open-subtitling row: the file is rejected
		{name: "needs_no_control", data: raw('0', []byte{'a', 0x0b, 'b'}, "00"), wantErr: true},
		// a character code table other than the Latin one: rejected
		{name: "needs_latin", data: raw('0', []byte{'a'}, "01"), wantErr: true},
	}
}

func suiteStlNeeds(R *runner, r *rng) {
	for _, d := range stlNeedsDocs(r) {
		for _, ign := range []bool{false, true} {
			R.count("stl.needs." + d.name)
			o := stlReadObs(d.data, nil, ign, "stl.needs", map[string]interface{}{"name": d.name})
			o.NT = true
			if o.Oracle == "" {
				s, err := astisub.ReadFromSTL(bytes.NewReader(d.data), astisub.STLOptions{IgnoreTimecodeStartOfProgramme: ign})
				switch {
				case d.wantErr && err == nil:
					o.Oracle, o.Sig = d.name+": the reader accepts the file; the Coq example says it is rejected", "stl-needs"
				case !d.wantErr && err != nil:
					o.Oracle, o.Sig = d.name+": the reader rejects the file: "+err.Error(), "stl-needs"
				case !d.wantErr:
					got := stlCuesFromSubs(s)
					if len(got) != len(d.want) {
						o.Oracle, o.Sig = fmt.Sprintf("%s: %d cues, the Coq example has %d", d.name, len(got), len(d.want)), "stl-needs"
						break
					}
					tcp := int64(s.Metadata.STLTimecodeStartOfProgramme)
					for i, w := range d.want {
						g := got[i]
						if df, _ := stlRowsDiff(g.Rows, w.Rows); df != "" {
							o.Oracle, o.Sig = fmt.Sprintf("%s: cue %d: %s", d.name, i+1, df), "stl-needs"
						} else if g.VP != w.VP || g.JC != w.JC {
							o.Oracle, o.Sig = fmt.Sprintf("%s: cue %d: position %d justification %d, the Coq example has %d and %d", d.name, i+1, g.VP, g.JC, w.VP, w.JC), "stl-needs"
						} else if !ign && (g.Start != w.Start || g.End != w.End) {
							o.Oracle, o.Sig = fmt.Sprintf("%s: cue %d: [%d,%d) ns, the Coq example has [%d,%d) ns (programme start %d)", d.name, i+1, g.Start, g.End, w.Start, w.End, tcp), "stl-needs"
						}
					}
				}
			}
			R.add(o)
		}
	}
}
