package main

// C07 on styled and metadata-bearing sources: the documents of the C01/C02/C04 generators (styled SubRip; WebVTT with
// regions, STYLE blocks, cue settings, voices, tag stacks, comments, timestamp map; SSA/ASS with script info, styles over
// all attributes, events with every column) and TTML documents with regions and styles carrying random attribute subsets
// (the empty subset included), converted to every destination through the file API, with and without Optimize in
// between.  The text of every run is replaced by a short Latin word so that it is representable everywhere; what is
// exercised is the structure that travels with the cues (attribute propagation between formats, region/style maps,
// metadata).  Oracle: the destination read back has the same cues in the same order, times truncated to the
// destination's unit, the same text without white space.

import (
	"fmt"
	"os"
	"path/filepath"
	"strings"
	"time"

	astisub "github.com/asticode/go-astisub"
)

var richWords = []string{"alpha", "beta", "gamma", "delta", "omega", "Hello", "World", "quick", "fox", "No", "Yes", "ok", "x1", "y2"}

func richWord(r *rng, k *int) string {
	*k++
	return fmt.Sprintf("%s%d", richWords[r.intn(len(richWords))], *k%10)
}

// TTML with regions and styles carrying random subsets of attributes (possibly none), cues referencing them
func renderTTMLRich(r *rng, cues []srtCue) []byte {
	var b strings.Builder
	b.WriteString("<?xml version=\"1.0\" encoding=\"UTF-8\"?>\n<tt xmlns=\"http://www.w3.org/ns/ttml\" xmlns:tts=\"http://www.w3.org/ns/ttml#styling\" xmlns:ttm=\"http://www.w3.org/ns/ttml#metadata\" xml:lang=\"" + r.pick("en", "fr", "ja") + "\">\n<head>\n")
	if r.chance(1, 2) {
		b.WriteString("<metadata><ttm:title>" + r.pick("A title", "T") + "</ttm:title><ttm:copyright>c</ttm:copyright></metadata>\n")
	}
	attrs := func(pool [][2]string) string {
		s := ""
		for _, a := range pool {
			if r.chance(1, 3) {
				s += fmt.Sprintf(" tts:%s=\"%s\"", a[0], a[1])
			}
		}
		return s
	}
	stylePool := [][2]string{{"color", r.pick("white", "#ff0000", "yellow")}, {"fontSize", "2"}, {"fontFamily", "sans"}, {"textAlign", r.pick("center", "left", "right", "start", "end")}, {"backgroundColor", "black"}, {"displayAlign", r.pick("after", "before", "center")}, {"fontStyle", "italic"}, {"fontWeight", "bold"}, {"textDecoration", "underline"}, {"origin", "10% 80%"}, {"extent", "80% 10%"}}
	regionPool := [][2]string{{"origin", r.pick("10% 10%", "0% 85%")}, {"extent", r.pick("80% 10%", "100% 15%")}, {"displayAlign", "after"}, {"backgroundColor", "transparent"}, {"textAlign", "center"}, {"writingMode", "lrtb"}}
	ns := r.intn(6)
	nr := r.intn(4)
	b.WriteString("<styling>\n")
	for i := 0; i < ns; i++ {
		parent := ""
		if i > 0 && r.chance(2, 3) {
			// mostly chains (s4 -> s3 -> s2 ...), sometimes a shared or distant parent
			pi := i - 1
			if r.chance(1, 3) {
				pi = r.intn(i)
			}
			parent = fmt.Sprintf(" style=\"s%d\"", pi)
		}
		fmt.Fprintf(&b, "<style xml:id=\"s%d\"%s%s/>\n", i, parent, attrs(stylePool))
	}
	b.WriteString("</styling>\n<layout>\n")
	for i := 0; i < nr; i++ {
		st := ""
		if ns > 0 && r.chance(1, 3) {
			st = fmt.Sprintf(" style=\"s%d\"", r.intn(ns))
		}
		fmt.Fprintf(&b, "<region xml:id=\"r%d\"%s%s/>\n", i, st, attrs(regionPool))
	}
	b.WriteString("</layout>\n</head>\n<body><div>\n")
	stamp := func(t int64) string {
		ms := t / 1e6
		return fmt.Sprintf("%02d:%02d:%02d.%03d", ms/3600000, ms/60000%60, ms/1000%60, ms%1000)
	}
	prevRef := ""
	for ci, c := range cues {
		ref := ""
		if nr > 0 && r.chance(2, 3) {
			ref += fmt.Sprintf(" region=\"r%d\"", r.intn(nr))
		}
		if ns > 0 && r.chance(1, 2) {
			// the end of a chain more often than not
			si := ns - 1
			if r.chance(1, 3) {
				si = r.intn(ns)
			}
			ref += fmt.Sprintf(" style=\"s%d\"", si)
		}
		if ci > 0 && r.chance(1, 3) {
			ref = prevRef // consecutive cues sharing region and style
		}
		prevRef = ref
		fmt.Fprintf(&b, "<p begin=\"%s\" end=\"%s\"%s%s>", stamp(c.Start), stamp(c.End), ref, attrs(stylePool[:3]))
		for li, l := range c.Lines {
			if li > 0 {
				b.WriteString("<br/>")
			}
			for _, ru := range l {
				sp := ""
				if ns > 0 && r.chance(1, 3) {
					sp = fmt.Sprintf(" style=\"s%d\"", r.intn(ns))
				}
				fmt.Fprintf(&b, "<span%s%s>%s</span>", sp, attrs(stylePool[:2]), ru.Text)
			}
		}
		b.WriteString("</p>\n")
	}
	b.WriteString("</div></body>\n</tt>\n")
	return []byte(b.String())
}

func suiteConvertRich(R *runner, r *rng) {
	R.rule("conversion of styled / metadata-bearing sources: documents of the C01, C02 and C04 generators and TTML documents with 0..3 styles (parent links) and 0..3 regions carrying random attribute subsets (possibly none) referenced by cues, paragraphs and spans; run texts replaced by short Latin words; every destination format through OpenFile/Write, every second case with Optimize in between; oracle: destination re-read = source cues (count, order, times truncated to the destination unit, text without white space)")
	dir, _ := os.MkdirTemp("", "verif-rich")
	defer os.RemoveAll(dir)
	N := 20
	if R.tier == "thorough" {
		N = 150
	}
	dsts := []string{"srt", "ssa", "ass", "stl", "ttml", "vtt"}
	count := 0
	for rep := -2; rep < N; rep++ {
		for _, sf := range []string{"srt", "vtt", "ssa", "ttml"} {
			if rep < 0 && sf != "ttml" {
				continue
			}
			var src []byte
			var want []plainCue
			k := 0
			switch sf {
			case "srt":
				cues := randSrtCues(r, 5, true)
				for i := range cues {
					for j := range cues[i].Lines {
						for q := range cues[i].Lines[j] {
							cues[i].Lines[j][q].Text = richWord(r, &k)
						}
					}
				}
				d, _ := renderSrt(r, cues)
				src = []byte(d)
				for _, c := range cues {
					want = append(want, plainCue{c.Start, c.End, plainLines(c)})
				}
			case "vtt":
				d := randVttDoc(r, rep%2 == 0)
				for i := range d.Cues {
					var ls []string
					for j := range d.Cues[i].Lines {
						t := ""
						for q := range d.Cues[i].Lines[j].Runs {
							w := richWord(r, &k)
							d.Cues[i].Lines[j].Runs[q].Text = w
							t += w
						}
						ls = append(ls, t)
					}
					want = append(want, plainCue{d.Cues[i].Start, d.Cues[i].End, ls})
				}
				src = []byte(renderVtt(r, d))
			case "ssa":
				d := randSsaDoc(r)
				for i := range d.Events {
					// empty lines are not representable in every destination (a blank line ends a SubRip/WebVTT cue): keep the
					// lines that have runs
					var kept [][]ssaRunGT
					for _, l := range d.Events[i].Lines {
						if len(l) > 0 {
							kept = append(kept, l)
						}
					}
					if len(kept) == 0 {
						kept = [][]ssaRunGT{{{Text: "x"}}}
					}
					d.Events[i].Lines = kept
					var ls []string
					for j := range d.Events[i].Lines {
						t := ""
						for q := range d.Events[i].Lines[j] {
							w := richWord(r, &k)
							d.Events[i].Lines[j][q].Text = w
							t += w
						}
						ls = append(ls, t)
					}
					want = append(want, plainCue{d.Events[i].Start, d.Events[i].End, ls})
				}
				doc, _, _ := renderSsa(r, d)
				src = []byte(doc)
			case "ttml":
				if rep < 0 {
					// crafted: inheritance chains of depth 4 whose ancestors are reachable only through the chain (from a cue's
					// style, from a span, from a region's style)
					src = []byte(craftedTTMLChains[rep+2])
					want = []plainCue{{1e9, 2e9, []string{"leaf"}}, {3e9, 4e9, []string{"viaspan"}}, {5e9, 6e9, []string{"viaregion"}}}
					break
				}
				cues := randSrtCues(r, 5, false)
				for i := range cues {
					for j := range cues[i].Lines {
						for q := range cues[i].Lines[j] {
							cues[i].Lines[j][q].Text = richWord(r, &k)
						}
					}
					want = append(want, plainCue{cues[i].Start, cues[i].End, plainLines(cues[i])})
				}
				src = renderTTMLRich(r, cues)
			}
			if len(want) == 0 {
				continue
			}
			textLen, maxT := 0, int64(0)
			for _, w := range want {
				n := 0
				for _, l := range w.Lines {
					n += len(l) + 1
				}
				if n > textLen {
					textLen = n
				}
				if w.End > maxT {
					maxT = w.End
				}
			}
			for _, df := range dsts {
				if df == "stl" && (textLen > 100 || maxT >= int64(24*time.Hour)) {
					continue // does not fit a TTI block / an STL timecode
				}
				count++
				// styled TTML back to TTML always goes through Optimize as well: inheritance chains must survive it
				optimize := count%2 == 0 || (sf == "ttml" && df == "ttml")
				R.count("rich." + sf + "->" + df)
				h := map[string]interface{}{"source": sf, "destination": df, "cues": want, "optimize": optimize, "entry": "library", "source_bytes": string(src)}
				o := &obs{Suite: "convert", Group: "convert.rich." + sf, NoModel: true, NT: true, Input: fmt.Sprintf("rich %d %s %s %v %s", count, sf, df, optimize, hashBytes(src)), Human: h}
				fail := func(msg, sig string) {
					if o.Oracle == "" {
						o.Oracle, o.Sig = fmt.Sprintf("%s -> %s (styled source): %s", sf, df, msg), sig
					}
				}
				res := guarded(func() {
					sp := filepath.Join(dir, fmt.Sprintf("in-%d.%s", count, sf))
					dp := filepath.Join(dir, fmt.Sprintf("out-%d%s", count, dstFormats[df].ext))
					os.WriteFile(sp, src, 0o644)
					defer os.Remove(sp)
					defer os.Remove(dp)
					s, err := astisub.OpenFile(sp)
					if err != nil {
						fail("reading the source failed: "+err.Error(), "convert-read-"+sf)
						return
					}
					if optimize {
						s.Optimize()
					}
					if err := s.Write(dp); err != nil {
						fail("writing the destination failed: "+err.Error(), "convert-write-"+df)
						return
					}
					back, err := astisub.OpenFile(dp)
					if err != nil {
						fail("re-reading the destination failed: "+err.Error(), "convert-reread-"+df)
						return
					}
					wantN := make([]plainCue, len(want))
					for i, w := range want {
						wantN[i] = plainCue{w.Start, w.End, nil}
						for _, l := range w.Lines {
							wantN[i].Lines = append(wantN[i].Lines, nows(l))
						}
					}
					if m := comparePlain(plainOf(back), wantN, dstFormats[df].unit, 0); m != "" {
						fail(m, "convert-value-"+sf+"->"+df)
					}
				}, 20*time.Second)
				if res != "" {
					fail(res, "convert-panic"+siteOf(res))
				}
				R.add(o)
			}
		}
	}
}

var craftedTTMLChains = []string{
	`<?xml version="1.0" encoding="UTF-8"?>
<tt xmlns="http://www.w3.org/ns/ttml" xmlns:tts="http://www.w3.org/ns/ttml#styling"><head><styling>
<style xml:id="a0" tts:color="white"/><style xml:id="a1" style="a0"/><style xml:id="a2" style="a1"/><style xml:id="a3" style="a2"/>
<style xml:id="b0" tts:fontSize="2"/><style xml:id="b1" style="b0"/><style xml:id="b2" style="b1"/>
<style xml:id="c0" tts:fontFamily="sans"/><style xml:id="c1" style="c0"/><style xml:id="c2" style="c1"/>
<style xml:id="unused"/>
</styling><layout><region xml:id="r0" style="c2" tts:origin="10% 10%"/><region xml:id="r1"/></layout></head><body><div>
<p begin="00:00:01.000" end="00:00:02.000" style="a3">leaf</p>
<p begin="00:00:03.000" end="00:00:04.000"><span style="b2">viaspan</span></p>
<p begin="00:00:05.000" end="00:00:06.000" region="r0">viaregion</p>
</div></body></tt>
`,
	`<?xml version="1.0" encoding="UTF-8"?>
<tt xmlns="http://www.w3.org/ns/ttml" xmlns:tts="http://www.w3.org/ns/ttml#styling"><head><styling>
<style xml:id="a3" style="a2"/><style xml:id="a2" style="a1"/><style xml:id="a1" style="a0"/><style xml:id="a0" tts:color="white"/>
<style xml:id="b2" style="b1"/><style xml:id="b1" style="b0"/><style xml:id="b0" tts:fontSize="2"/>
<style xml:id="c2" style="c1"/><style xml:id="c1" style="c0"/><style xml:id="c0" tts:fontFamily="sans"/>
</styling><layout><region xml:id="r0" style="c2"/></layout></head><body><div>
<p begin="00:00:01.000" end="00:00:02.000" style="a3" region="r0">leaf</p>
<p begin="00:00:03.000" end="00:00:04.000" style="a3" region="r0"><span style="b2">viaspan</span></p>
<p begin="00:00:05.000" end="00:00:06.000" region="r0">viaregion</p>
</div></body></tt>
`,
}
