package main

// C07 through the plain view (Model/Plain.v, Proofs/PlainProofs.v): unstyled cue lists, every (source, destination)
// pair among the codecs that have a Gallina model registered here.  The source document is written by the library from
// the plain cue list (and, for SubRip/WebVTT, also rendered by the harness), converted by the library (reader of the
// source, writer of the destination); the destination bytes are compared with the model's conversion through the plain
// view (convert_plain), and what each reader returns is compared with the model's reader + to_plain.

import (
	"bytes"
	"fmt"
	"strings"

	astisub "github.com/asticode/go-astisub"
)

type plainCodec struct {
	code  int
	name  string
	unit  int64
	read  func([]byte) (*astisub.Subtitles, error)
	write func(*astisub.Subtitles, *bytes.Buffer) error
}

var plainCodecs = []plainCodec{
	{0, "srt", 1e6, func(b []byte) (*astisub.Subtitles, error) { return astisub.ReadFromSRT(bytes.NewReader(b)) },
		func(s *astisub.Subtitles, w *bytes.Buffer) error { return s.WriteToSRT(w) }},
	{1, "vtt", 1e6, func(b []byte) (*astisub.Subtitles, error) { return astisub.ReadFromWebVTT(bytes.NewReader(b)) },
		func(s *astisub.Subtitles, w *bytes.Buffer) error { return s.WriteToWebVTT(w) }},
}

// pairs (source->destination) excluded from the byte comparison, with the exact reason (set next to the codec that
// causes it, in harness/plain_<fmt>.go)
var plainSkipPairs = map[string]string{}

func encPlainOf(s *astisub.Subtitles) string {
	e := (&enc{}).n(0).n(len(s.Items))
	for _, it := range s.Items {
		e.i(int64(it.StartAt)).i(int64(it.EndAt)).n(len(it.Lines))
		for _, l := range it.Lines {
			e.str(l.String())
		}
	}
	return e.String()
}

func suiteConvertPlain(R *runner, r *rng) {
	R.rule("conversion through the plain view: unstyled cue lists (1..5 cues, 1..3 lines of Latin words incl. accented letters and inner spaces, times on the source's grid) for every (source, destination) pair among the modelled codecs; the source is written by the library (and rendered by the harness for SubRip/WebVTT), converted by the library; destination bytes vs the model's convert_plain; the source reader's cues vs the model's reader + to_plain; every second case additionally with 1..3 operations in between (sync, fragment, unfragment, order, optimize, linear correction, merge with an unstyled SubRip document): destination bytes vs the model's convert_plain_ops")
	N := 40
	if R.tier == "thorough" {
		N = 600
	}
	for c := 0; c < N; c++ {
		for _, src := range plainCodecs {
			cues := plainCues(r, 1+r.intn(5))
			for i := range cues {
				cues[i].Start -= cues[i].Start % src.unit
				cues[i].End -= cues[i].End % src.unit
				if cues[i].End <= cues[i].Start {
					cues[i].End = cues[i].Start + src.unit
				}
				if r.chance(1, 3) {
					cues[i].Lines = append(cues[i].Lines, []srtRun{{Text: r.pick("déjà vu", "Ünïcode", "naïve café")}})
				}
			}
			var doc []byte
			switch {
			case src.name == "srt" && c%2 == 0:
				d, _ := renderSrt(r, cues)
				doc = []byte(d)
			case src.name == "vtt" && c%2 == 0:
				doc = renderVTTPlain(cues)
			default:
				var buf bytes.Buffer
				if err := src.write(subsFromCues(cues), &buf); err != nil {
					continue
				}
				doc = buf.Bytes()
			}
			// reading: library vs model reader + to_plain
			s, err := src.read(doc)
			ro := &obs{Suite: "plainread", Group: "plain.read." + src.name, Input: (&enc{}).n(src.code).bytes(doc).String(), NT: true,
				Human: map[string]interface{}{"format": src.name, "document": string(doc)}}
			if err != nil {
				ro.Impl = "1"
			} else {
				ro.Impl = encPlainOf(s)
			}
			R.add(ro)
			if err != nil {
				continue
			}
			for _, dst := range plainCodecs {
				if _, skip := plainSkipPairs[src.name+"->"+dst.name]; skip {
					if suite, ok := plainStyledModels[src.name+"->"+dst.name]; ok {
						// the pair is not the plain-view conversion, but a model of what the destination writer sees exists
						s2, _ := src.read(doc)
						var out bytes.Buffer
						o := &obs{Suite: suite, Group: "styled." + src.name + "->" + dst.name, Input: (&enc{}).n(src.code).bytes(doc).String(), NT: true,
							Human: map[string]interface{}{"source": src.name, "destination": dst.name, "document": string(doc)}}
						R.count("styled." + src.name + "->" + dst.name)
						if werr := dst.write(s2, &out); werr != nil {
							o.Impl = "1"
						} else {
							o.Impl = (&enc{}).n(0).bytes(out.Bytes()).String()
						}
						R.add(o)
						continue
					}
					R.count("plain.restricted." + src.name + "->" + dst.name)
					continue
				}
				s2, _ := src.read(doc)
				var out bytes.Buffer
				o := &obs{Suite: "convplain", Group: "plain." + src.name + "->" + dst.name, Input: (&enc{}).n(src.code).n(dst.code).bytes(doc).String(), NT: true,
					Human: map[string]interface{}{"source": src.name, "destination": dst.name, "document": string(doc)}}
				R.count("plain." + src.name + "->" + dst.name)
				var werr error
				p := safely(func() { werr = dst.write(s2, &out) })
				switch {
				case p != "":
					o.Impl, o.Oracle, o.Sig = "2", fmt.Sprintf("%s -> %s panicked: %s", src.name, dst.name, p), "convplain-panic"
				case werr != nil:
					o.Impl = "1"
				default:
					o.Impl = (&enc{}).n(0).bytes(out.Bytes()).String()
				}
				R.add(o)
				// the same pair with 1..3 operations in between (merge documents: unstyled SubRip)
				if c%2 == 1 {
					ops := randConvOps(r, 1+r.intn(3))
					for k := range ops {
						if ops[k].name == "merge" {
							mc := plainCues(r, 1+r.intn(3))
							md, _ := renderSrt(r, mc)
							ops[k].mergeWith, ops[k].mergeBytes = mc, []byte(md)
						}
					}
					// the property's proviso: non-negative times (a writer's output for negative times is garbage that the models
					// do not all reproduce) - decided with the operations' specifications on the source cues
					if s0, err := src.read(doc); err == nil {
						var merged [][]plainCue
						for _, op := range ops {
							if op.name == "merge" {
								if m, e := astisub.ReadFromSRT(bytes.NewReader(op.mergeBytes)); e == nil {
									merged = append(merged, rawPlainOf(m))
								}
							}
						}
						neg := false
						for _, w := range applyOpsSpecRaw(rawPlainOf(s0), ops, merged) {
							if w.Start < 0 || w.End < 0 {
								neg = true
							}
						}
						if neg {
							R.count("plainops.skipped.negative_times")
							continue
						}
					}
					e := (&enc{}).n(src.code).n(dst.code).bytes(doc)
					encConvOps(e, ops)
					o2 := &obs{Suite: "convplainops", Group: "plainops." + src.name + "->" + dst.name, Input: e.String(), NT: true,
						Human: map[string]interface{}{"source": src.name, "destination": dst.name, "document": string(doc), "operations": describeOpsExact(ops)}}
					R.count("plainops." + src.name + "->" + dst.name)
					s3, _ := src.read(doc)
					var out2 bytes.Buffer
					var werr2 error
					p2 := safely(func() {
						if werr2 = applyOpsLib(s3, ops, func(b []byte, _ string) (*astisub.Subtitles, error) {
							return astisub.ReadFromSRT(bytes.NewReader(b))
						}); werr2 == nil {
							werr2 = dst.write(s3, &out2)
						}
					})
					switch {
					case p2 != "":
						o2.Impl, o2.Oracle, o2.Sig = "2", fmt.Sprintf("%s -> ops -> %s panicked: %s", src.name, dst.name, p2), "convplainops-panic"
					case werr2 != nil:
						o2.Impl = "1"
					default:
						o2.Impl = (&enc{}).n(0).bytes(out2.Bytes()).String()
					}
					R.add(o2)
				}
			}
		}
	}
	_ = strings.TrimSpace
}

// pairs for which the library's conversion of STYLED sources is not the conversion through the plain view, with the
// reason (what the source reader sets that the destination writer emits)

// Pairs whose conversion of STYLED sources is modelled exactly (coq/Model/Conv<S><F>.v, theorem C07_S_to_F_styled) by the
// SubRip / WebVTT / SSA slice: the driver suite named here maps the source document (one byte string) to the destination
// bytes (class 0 + bytes, class 1 = error, NS outside the faithful domain of the source reader's model).  Entries are added
// by init() functions (harness/conv_ssa_vtt.go, conv_ttml_vtt.go, conv_ttml_ssa.go); an entry takes precedence over
// plainStyledModels and plainStyledSkipPairs.  (plainStyledModels is the same idea with the source code in the input.)
var styledConvSuites = map[string]string{}

// optional oracle for such a pair: the destination bytes, read back by the library, must carry the text of the source
// cues (returns "" or a description); C07: a conversion must not lose or alter text
var styledConvOracle = map[string]func(src *astisub.Subtitles, dst []byte) string{}

var plainStyledSkipPairs = map[string]string{
	"srt->srt": "same format: the markup is kept (C01)",
	"vtt->vtt": "same format: tags, settings, regions are kept (C02)",
	"ssa->ssa": "same format: styles, override blocks, script info are kept (C04)",
	"srt->vtt": "bold/italic/underline travel as tags and the font colour as a class (modelled by Model/Conv.v, suites convsv/convops)",
	"srt->stl": "the STL writer joins the runs of a line with a space; the plain view puts run texts together",
	"vtt->stl": "the STL writer joins the runs of a line with a space",
	"ssa->stl": "the STL writer joins the runs of a line with a space",
	// ssa->vtt, vtt->ssa, ttml->vtt, ttml->ssa are modelled exactly (styledConvSuites: Model/ConvSsaVtt.v, ConvVttSsa.v,
	// ConvTtmlVtt.v, ConvTtmlSsa.v; C07_*_styled).  TTML sources are decoded through the XML parser model for hand-written
	// documents (Kit/XmlParse2.v); ttml->srt is compared; the pairs below legitimately differ from the plain view:
	"ttml->stl":  "the STL writer joins the runs of a line with a space, and the mapped language goes to the GSI block",
	"ttml->ttml": "same format: styles, regions, references and inline attributes are kept (C03)",
}

// Styled and metadata-bearing sources (documents of the C01/C02/C04 generators, TTML with styles and regions; run texts
// replaced by Latin words) converted by the library, destination bytes compared with the conversion through the plain
// view: for these pairs the destination writer ignores everything the source reader sets besides times and text
// (C07_any_source then applies to the styled document).
// pairs of plainStyledSkipPairs whose styled conversion has its own Gallina model (coq/Model/Conv<S><F>.v): pair -> driver
// suite taking (document) and returning the destination bytes; the library's bytes are compared with it
var plainStyledModels = map[string]string{}

func suiteConvertPlainStyled(R *runner, r *rng) {
	R.rule("conversion of styled sources through the plain view: styled SubRip, WebVTT with regions/settings/tags/voices, SSA/ASS with styles/script info/override blocks, TTML with styles/regions (run texts = Latin words), every destination among the modelled codecs except the pairs listed with their reason in plainStyledSkipPairs; destination bytes of the library vs convert_plain; pairs with a model of their own (plainStyledModels: srt/vtt/ssa/stl -> ttml, Model/ConvTtml.v) vs that model's convert_S_F")
	N := 12
	if R.tier == "thorough" {
		N = 200
	}
	byName := map[string]plainCodec{}
	for _, c := range plainCodecs {
		byName[c.name] = c
	}
	for c := 0; c < N; c++ {
		for _, sf := range []string{"srt", "vtt", "ssa", "ttml"} {
			src, ok := byName[sf]
			if !ok {
				continue
			}
			k := 0
			var doc []byte
			switch sf {
			case "srt":
				cues := randSrtCues(r, 5, true)
				for i := range cues {
					for j := range cues[i].Lines {
						for q := range cues[i].Lines[j] {
							cues[i].Lines[j][q].Text = richWord(r, &k)
						}
					}
				}
				d, _ := renderSrt(r, cues)
				doc = []byte(d)
			case "vtt":
				d := randVttDoc(r, c%2 == 0)
				for i := range d.Cues {
					for j := range d.Cues[i].Lines {
						for q := range d.Cues[i].Lines[j].Runs {
							d.Cues[i].Lines[j].Runs[q].Text = richWord(r, &k)
						}
					}
				}
				doc = []byte(renderVtt(r, d))
			case "ssa":
				d := randSsaDoc(r)
				for i := range d.Events {
					var kept [][]ssaRunGT
					for _, l := range d.Events[i].Lines {
						if len(l) > 0 {
							kept = append(kept, l)
						}
					}
					if len(kept) == 0 {
						kept = [][]ssaRunGT{{{Text: "x"}}}
					}
					d.Events[i].Lines = kept
					for j := range d.Events[i].Lines {
						for q := range d.Events[i].Lines[j] {
							d.Events[i].Lines[j][q].Text = richWord(r, &k)
						}
					}
				}
				s, _, _ := renderSsa(r, d)
				doc = []byte(s)
			case "ttml":
				cues := randSrtCues(r, 5, false)
				for i := range cues {
					for j := range cues[i].Lines {
						for q := range cues[i].Lines[j] {
							cues[i].Lines[j][q].Text = richWord(r, &k)
						}
					}
				}
				doc = renderTTMLRich(r, cues)
			}
			s0, err := src.read(doc)
			if err != nil || len(s0.Items) == 0 {
				continue
			}
			for _, dst := range plainCodecs {
				pair := src.name + "->" + dst.name
				if suite, ok := styledConvSuites[pair]; ok {
					// the pair is modelled exactly (coq/Model/Conv<S><F>.v): destination bytes against convert_S_F
					s2, _ := src.read(doc)
					var out bytes.Buffer
					o := &obs{Suite: suite, Group: "conv.styled." + pair, Input: (&enc{}).bytes(doc).String(), NT: true,
						Human: map[string]interface{}{"source": src.name, "destination": dst.name, "document": string(doc)}}
					R.count("conv.styled." + pair)
					var werr error
					p := safely(func() { werr = dst.write(s2, &out) })
					switch {
					case p != "":
						o.Impl, o.Oracle, o.Sig = "2", fmt.Sprintf("%s -> %s panicked: %s", src.name, dst.name, p), "convstyled-panic"
					case werr != nil:
						o.Impl = "1"
					default:
						o.Impl = (&enc{}).n(0).bytes(out.Bytes()).String()
						if styledConvOracle[pair] != nil {
							if m := styledConvOracle[pair](s0, out.Bytes()); m != "" {
								o.Oracle, o.Sig = pair+": "+m, "convstyled-text-"+pair
							}
						}
					}
					R.add(o)
					continue
				}
				if suite, ok := plainStyledModels[pair]; ok {
					// a model of what the destination writer sees of this source's cues exists: compare the bytes with it
					s2, _ := src.read(doc)
					var out bytes.Buffer
					o := &obs{Suite: suite, Group: "styled." + pair, Input: (&enc{}).n(src.code).bytes(doc).String(), NT: true,
						Human: map[string]interface{}{"source": src.name, "destination": dst.name, "document": string(doc)}}
					R.count("styled." + pair)
					var werr error
					p := safely(func() { werr = dst.write(s2, &out) })
					switch {
					case p != "":
						o.Impl, o.Oracle, o.Sig = "2", fmt.Sprintf("%s -> %s panicked: %s", src.name, dst.name, p), "convstyled-panic"
					case werr != nil:
						o.Impl = "1"
					default:
						o.Impl = (&enc{}).n(0).bytes(out.Bytes()).String()
					}
					R.add(o)
					continue
				}
				if _, skip := plainStyledSkipPairs[pair]; skip {
					R.count("plain.styled.restricted." + pair)
					continue
				}
				if _, skip := plainSkipPairs[pair]; skip {
					continue
				}
				s2, _ := src.read(doc)
				var out bytes.Buffer
				o := &obs{Suite: "convplain", Group: "plain.styled." + pair, Input: (&enc{}).n(src.code).n(dst.code).bytes(doc).String(), NT: true,
					Human: map[string]interface{}{"source": src.name, "destination": dst.name, "document": string(doc)}}
				R.count("plain.styled." + pair)
				var werr error
				p := safely(func() { werr = dst.write(s2, &out) })
				switch {
				case p != "":
					o.Impl, o.Oracle, o.Sig = "2", fmt.Sprintf("%s -> %s panicked: %s", src.name, dst.name, p), "convplain-panic"
				case werr != nil:
					o.Impl = "1"
				default:
					o.Impl = (&enc{}).n(0).bytes(out.Bytes()).String()
				}
				R.add(o)
			}
		}
	}
}
