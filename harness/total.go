package main

// C08 totality: no reader or writer ever panics or hangs

import (
	"bytes"
	"fmt"
	"os"
	"path/filepath"
	"strings"
	"time"

	astisub "github.com/asticode/go-astisub"
)

type readerEntry struct {
	name string
	ext  string
	read func([]byte) error
}

func allReaders() []readerEntry {
	rs := []readerEntry{}
	for _, f := range formats {
		f := f
		rs = append(rs, readerEntry{f.name, f.ext, func(b []byte) error { _, err := f.read(bytes.NewReader(b)); return err }})
	}
	rs = append(rs, readerEntry{"stl-ignore-tcp", ".stl", func(b []byte) error {
		_, err := astisub.ReadFromSTL(bytes.NewReader(b), astisub.STLOptions{IgnoreTimecodeStartOfProgramme: true})
		return err
	}})
	for i, o := range []astisub.SSAOptions{{}, {OnUnknownSectionName: func(string) {}}, {OnInvalidLine: func(string) {}}} {
		o := o
		rs = append(rs, readerEntry{fmt.Sprintf("ssa-options-%d", i), ".ssa", func(b []byte) error {
			_, err := astisub.ReadFromSSAWithOptions(bytes.NewReader(b), o)
			return err
		}})
	}
	for _, o := range []astisub.TeletextOptions{{}, {Page: 888}, {Page: 100, PID: 256}, {PID: 1}} {
		o := o
		rs = append(rs, readerEntry{fmt.Sprintf("teletext(page=%d,pid=%d)", o.Page, o.PID), ".ts", func(b []byte) error {
			_, err := astisub.ReadFromTeletext(bytes.NewReader(b), o)
			return err
		}})
	}
	return rs
}

// runs f under recover and a watchdog; returns "", "PANIC: ..." or "HANG"
func guarded(f func(), limit time.Duration) string {
	done := make(chan string, 1)
	go func() {
		done <- safely(f)
	}()
	select {
	case p := <-done:
		if p != "" {
			return "PANIC: " + p
		}
		return ""
	case <-time.After(limit):
		return "HANG"
	}
}

var mutTokens = map[string][]string{
	"srt":    {"-->", "\n\n", "00:00:01,000 --> ", "<b>", "</", "<font color=", "\r", ",", ":", "\xff"},
	"webvtt": {"-->", "WEBVTT", "\n\n", "NOTE ", "STYLE", "Region: ", "Region: id", "region:", "align:", "X-TIMESTAMP-MAP=", "LOCAL:", "MPEGTS:", "<v ", "<c.", "<00:00:01.000>", "00:01.000 --> ", "\t", "::cue", "}", "id=", "="},
	"ssa":    {"[Events]", "[V4 Styles]", "[V4+ Styles]", "[Script Info]", "Format: ", "Style: ", "Dialogue: ", "Comment: ", ",", "\\N", "{\\", "}", "&H", ":", "Marked=", "-1", "Name", "Text", "Start", "End", ";", "\nNote: not an event\n", "\nPicture: 1,2\n", "\n[Unknown Section]\n", "\nno colon here\n", "\n!: bang\n"},
	"ttml":   {"<p", "</p>", "<br/>", "<span", "begin=\"", "end=\"", "style=\"", "region=\"", "<tt", "</tt>", "<div>", "<body>", "<head>", "<styling>", "<layout>", "xml:id=\"", "00:00:01", "1.5s", "10f", "100t", "&amp;", "<!--", "<![CDATA[", "\"", "ttp:frameRate=\"25\"", "ttp:tickRate=\"0\""},
	"stl":    {"STL25.01", "STL30.01", "STL99.01", "        ", "00000000", "\x8a", "\x8f", "\x0b", "\x0a", "\xc1", "\xfe", "\xff", "\x00", "850"},
}

func mutate(r *rng, f string, doc []byte, other []byte) []byte {
	b := append([]byte{}, doc...)
	toks := mutTokens[f]
	n := 1 + r.intn(4)
	for k := 0; k < n; k++ {
		if len(b) == 0 {
			b = append(b, byte(r.intn(256)))
			continue
		}
		i := r.intn(len(b))
		switch r.intn(9) {
		case 0:
			b[i] = byte(r.intn(256))
		case 1:
			b = append(b[:i], b[i+1:]...)
		case 2:
			if len(toks) > 0 {
				b = append(b[:i], append([]byte(toks[r.intn(len(toks))]), b[i:]...)...)
			}
		case 3:
			b = b[:i]
		case 4:
			j := r.intn(len(b))
			if i > j {
				i, j = j, i
			}
			b = append(b[:i], b[j:]...)
		case 5:
			b = append(b, b[i:]...)
		case 6:
			if len(other) > 0 {
				j := r.intn(len(other))
				b = append(b[:i], other[j:]...)
			}
		case 7:
			// delete a whole line
			s := bytes.LastIndexByte(b[:i], '\n') + 1
			e := bytes.IndexByte(b[i:], '\n')
			if e < 0 {
				e = len(b)
			} else {
				e += i
			}
			b = append(b[:s], b[e:]...)
		default:
			// overwrite a field-sized window (fixed-width formats)
			w := 1 + r.intn(8)
			for j := i; j < i+w && j < len(b); j++ {
				b[j] = byte(r.pick(" ", "0", "9", "\x00", "\xff", ":", "A")[0])
			}
		}
	}
	return b
}

func suiteTotality(R *runner, r *rng) {
	R.rule("totality: every reader (6 readers x option values incl. SSA callbacks nil / partly set, and the extension-dispatching opener) on valid documents of every format, on structure-aware mutations / truncations / splices of them (format keywords inserted, lines deleted, fixed-width fields overwritten), on documents of the wrong format and on arbitrary bytes, under recover() and a 15 s watchdog; every writer on cue lists assembled from the public types with every optional part (metadata, maps, styles, regions, inline attributes, lines, runs) possibly absent, map keys differing from the element identifiers, nil map elements, nil elements inside Items (same bytes as without them) and hostile text (leading combining marks, control characters, non-BMP, invalid UTF-8); oracle: no panic, no hang; non-trivial = the call returned a value rather than an error")
	docs := sampleDocs(r, 3, false)
	docs = append(docs, tsSampleDocs(r)...)
	readers := allReaders()
	byFormat := map[string][]sampleDoc{}
	for _, d := range docs {
		byFormat[d.format] = append(byFormat[d.format], d)
	}
	N := 2500
	if R.tier == "thorough" {
		N = 60000
	}
	// a reader that did not return keeps its goroutine spinning: after two hangs of one reader no more input is fed to it
	// in this run (the hangs are reported; piling up spinning goroutines would only slow everything else down)
	hangs := map[string]int{}
	run := func(rd readerEntry, data []byte, group, desc string) {
		if hangs[rd.name] >= 2 {
			R.count("total.skipped_after_hang." + rd.name)
			return
		}
		var err error
		res := guarded(func() { err = rd.read(data) }, 15*time.Second)
		if res == "HANG" {
			hangs[rd.name]++
		}
		o := &obs{Suite: "total", Group: group, NoModel: true, NT: res == "" && err == nil, Input: fmt.Sprintf("%s %s %s", rd.name, desc, hashBytes(data)),
			Human: map[string]interface{}{"reader": rd.name, "input": desc, "len": len(data)}}
		if res != "" && strings.Contains(res, "[inside the third-party demultiplexer]") {
			// the property covers the streams the demultiplexer gets through without itself crashing
			R.count("total.third_party_demuxer_crashed")
			res = ""
		}
		if res != "" {
			o.Oracle = rd.name + " reader: " + res
			o.Sig = "total-read-" + strings.SplitN(rd.name, "(", 2)[0] + siteOf(res)
			o.Human.(map[string]interface{})["bytes"] = fmt.Sprintf("%q", string(data[:minInt(len(data), 2500)]))
		}
		R.add(o)
	}
	fmtOf := func(name string) string {
		switch {
		case strings.HasPrefix(name, "stl"):
			return "stl"
		case strings.HasPrefix(name, "teletext"):
			return "ts"
		case strings.HasPrefix(name, "ssa"):
			return "ssa"
		}
		return name
	}
	for c := 0; c < N; c++ {
		rd := readers[r.intn(len(readers))]
		own := byFormat[fmtOf(rd.name)]
		switch r.intn(10) {
		case 0: // arbitrary bytes
			b := make([]byte, r.intn(400))
			for i := range b {
				b[i] = byte(r.intn(256))
			}
			run(rd, b, "total.read.random", "random bytes")
		case 1: // wrong format
			d := docs[r.intn(len(docs))]
			run(rd, d.data, "total.read.crossformat", "document of format "+d.format)
		case 2:
			if len(own) > 0 {
				d := own[r.intn(len(own))]
				run(rd, d.data, "total.read.valid", d.name)
			}
		default:
			if len(own) > 0 {
				d := own[r.intn(len(own))]
				o2 := own[r.intn(len(own))]
				run(rd, mutate(r, fmtOf(rd.name), d.data, o2.data), "total.read.mutated", "mutation of "+d.name)
			}
		}
	}
	// corpus of inputs known to have been fatal at some point
	gsi := func(dfc, tcp, tcf string) []byte {
		b := bytes.Repeat([]byte{' '}, 1024)
		copy(b[0:], "850")
		copy(b[3:], dfc)
		copy(b[11:], "1")
		copy(b[12:], "00")
		copy(b[224:], "200101200101")
		copy(b[238:], "0000100001001")
		copy(b[251:], "4023")
		copy(b[255:], "1")
		copy(b[256:], tcp)
		copy(b[264:], tcf)
		tti := make([]byte, 128)
		tti[3] = 0xff
		copy(tti[16:], bytes.Repeat([]byte{0x8f}, 112))
		copy(tti[16:], "hi")
		return append(b, tti...)
	}
	for _, c := range []struct {
		reader string
		data   []byte
	}{
		{"srt", []byte("00:00:01,000 -->")}, {"srt", []byte("1\n00:00:01,000 --> \nx\n")},
		{"webvtt", []byte("WEBVTT\n\n00:01.000 -->\nx\n")}, {"webvtt", []byte("WEBVTT\n\n00:01.000 --> \n")},
		{"webvtt", []byte("WEBVTT\n\nRegion: id\n")}, {"webvtt", []byte("WEBVTT\n\n1\n00:01.000 --> 00:02.000 region:nope\nx\n")},
		{"ttml", []byte(`<tt xmlns="http://www.w3.org/ns/ttml"><body><div><p>no times</p></div></body></tt>`)},
		{"ttml", []byte(`<tt xmlns="http://www.w3.org/ns/ttml"><body><div><p begin="00:00:01.000">no end</p></div></body></tt>`)},
		{"ttml", []byte(`<tt xmlns="http://www.w3.org/ns/ttml"><body><div><p begin="1s" end="2s" style="nope">x</p></div></body></tt>`)},
		{"ssa", []byte("[Events]\nDialogue: x\n")}, {"ssa", []byte("[V4 Styles]\nFormat: Name\nStyle:\n")},
		{"ssa", []byte("[Events]\nFormat: Start, End, Text\nDialogue: 0:00:01.00\n")},
		{"ssa", []byte("[Events]\nFormat: Start, End, Text\nNote: not an event\nDialogue: 0:00:01.00,0:00:02.00,x\n")},
		{"ssa", []byte("[Nope]\nx\n[Events]\nno colon\nFormat: Start, End, Text\nno colon\n")},
		{"ssa", []byte("[V4 Styles]\nno colon\nFormat: Name\nOther: x\n")},
		{"stl", gsi("STL99.01", "00000000", "00000000")}, {"stl", gsi("        ", "00000000", "00000000")},
		{"stl", gsi("STL25.01", "0000    ", "00000000")}, {"stl", gsi("STL25.01", "00000000", "0       ")},
		{"stl", gsi("STL25.01", "        ", "        ")}, {"stl", gsi("STL25.01", "00000000", "00000000")[:1024+60]},
	} {
		for _, rd := range readers {
			if rd.name == c.reader || (c.reader == "stl" && rd.name == "stl-ignore-tcp") || (c.reader == "ssa" && strings.HasPrefix(rd.name, "ssa-options")) {
				run(rd, c.data, "total.read.corpus", "corpus")
			}
		}
	}

	// TTML style inheritance: every parent assignment over three styles (none / a / b / c each: self references, cycles,
	// chains leading into a cycle, forests) in every declaration order, referenced from a cue
	{
		ids := []string{"a", "b", "c"}
		perms := [][]int{{0, 1, 2}, {0, 2, 1}, {1, 0, 2}, {1, 2, 0}, {2, 0, 1}, {2, 1, 0}}
		for g := 0; g < 64; g++ {
			par := []int{g % 4, g / 4 % 4, g / 16 % 4} // 3 = no parent
			for _, pm := range perms {
				var b strings.Builder
				b.WriteString(`<tt xmlns="http://www.w3.org/ns/ttml"><head><styling>`)
				for _, i := range pm {
					if par[i] == 3 {
						fmt.Fprintf(&b, `<style xml:id="%s"/>`, ids[i])
					} else {
						fmt.Fprintf(&b, `<style xml:id="%s" style="%s"/>`, ids[i], ids[par[i]])
					}
				}
				fmt.Fprintf(&b, `</styling><layout><region xml:id="r" style="%s"/></layout></head><body><div><p begin="1s" end="2s" style="%s" region="r">x</p></div></body></tt>`, ids[pm[0]], ids[pm[2]])
				for _, rd := range readers {
					if rd.name == "ttml" {
						run(rd, []byte(b.String()), "total.read.ttml_style_graphs", "style graph")
					}
				}
			}
		}
	}

	// transport streams with malformed PES payloads / data units / teletext packets inside a valid packet layer
	for c := 0; c < N/4; c++ {
		ts, kinds := hostileTS(r)
		for _, rd := range readers {
			if strings.HasPrefix(rd.name, "teletext") && r.chance(1, 2) {
				run(rd, ts, "total.read.ts-hostile", "malformed PES payloads "+kinds)
			}
		}
	}

	// the opener
	dir, _ := os.MkdirTemp("", "verif-total")
	defer os.RemoveAll(dir)
	for c := 0; c < N/10; c++ {
		d := docs[r.intn(len(docs))]
		ext := r.pick(".srt", ".SRT", ".ssa", ".ass", ".stl", ".ttml", ".vtt", ".ts", ".Vtt", ".txt", "")
		data := d.data
		if r.chance(1, 2) {
			data = mutate(r, d.format, d.data, nil)
		}
		path := filepath.Join(dir, fmt.Sprintf("f%d%s", c, ext))
		os.WriteFile(path, data, 0o644)
		var err error
		res := guarded(func() { _, err = astisub.OpenFile(path) }, 15*time.Second)
		o := &obs{Suite: "total", Group: "total.open", NoModel: true, NT: res == "" && err == nil, Input: fmt.Sprintf("open %s %s", ext, hashBytes(data)), Human: map[string]interface{}{"ext": ext, "source_format": d.format, "len": len(data)}}
		if res != "" {
			o.Oracle, o.Sig = "OpenFile("+ext+"): "+res, "total-open"+siteOf(res)
			o.Human.(map[string]interface{})["bytes"] = fmt.Sprintf("%q", string(data[:minInt(len(data), 2500)]))
		}
		os.Remove(path)
		R.add(o)
	}

	// writers
	for c := 0; c < N; c++ {
		seed := r.u64()
		mk := func() *astisub.Subtitles {
			return richSubs(newRng(seed), richOpts{safe: false, hostile: c%2 == 0, maxStyles: 4, maxItems: 4})
		}
		f := formats[c%len(formats)]
		s := mk()
		var buf bytes.Buffer
		var err error
		res := guarded(func() { err = f.write(s, &buf) }, 15*time.Second)
		o := &obs{Suite: "total", Group: "total.write." + f.name, NoModel: true, NT: res == "" && err == nil, Input: fmt.Sprintf("write %s seed %d", f.name, seed),
			Human: map[string]interface{}{"writer": f.name, "metadata_nil": s.Metadata == nil, "styles_nil": s.Styles == nil, "regions_nil": s.Regions == nil, "cues": len(s.Items), "list": describeRich(s)}}
		if res != "" {
			o.Oracle, o.Sig = f.name+" writer: "+res, "total-write-"+f.name+siteOf(res)
		}
		R.add(o)
	}

	// nil elements inside Items (a value of the public type []*Item): every writer skips them - no panic, and the same
	// bytes / the same error as for the list without them (metamorphic, no model involved)
	for c := 0; c < N/4; c++ {
		seed := r.u64()
		mk := func() *astisub.Subtitles {
			return richSubs(newRng(seed), richOpts{safe: false, hostile: c%2 == 0, maxStyles: 4, maxItems: 4})
		}
		f := formats[c%len(formats)]
		s := mk()
		cl := *s // the same value (maps, metadata, item pointers) without the nil items
		cl.Items = append([]*astisub.Item{}, s.Items...)
		clean := &cl
		pr := newRng(seed ^ 0x9e3779b97f4a7c15)
		var pos []int
		if c%9 == 0 {
			clean.Items = nil // nothing but nil items
			s.Items = make([]*astisub.Item, 1+pr.intn(3))
		} else {
			for k := 1 + pr.intn(3); k > 0; k-- {
				p := pr.intn(len(s.Items) + 1)
				pos = append(pos, p)
				s.Items = append(s.Items[:p:p], append([]*astisub.Item{nil}, s.Items[p:]...)...)
			}
		}
		R.count("total.write.nil_item")
		var buf, want bytes.Buffer
		var err, wantErr error
		res := guarded(func() { err = f.write(s, &buf) }, 5*time.Second)
		o := &obs{Suite: "total", Group: "total.write.nil-item." + f.name, NoModel: true, NT: res == "" && err == nil, Input: fmt.Sprintf("write %s seed %d with nil items", f.name, seed),
			Human: map[string]interface{}{"writer": f.name, "items": len(s.Items), "nil_inserted_at": pos, "list_without_nil": describeRich(clean)}}
		if res != "" {
			o.Oracle, o.Sig = f.name+" writer on a cue list with a nil item: "+res, "total-write-nil-item-"+f.name
		} else if res2 := guarded(func() { wantErr = f.write(clean, &want) }, 5*time.Second); res2 == "" {
			if (err == nil) != (wantErr == nil) || !bytes.Equal(buf.Bytes(), want.Bytes()) {
				o.Oracle, o.Sig = fmt.Sprintf("%s writer: a cue list with nil items is not written like the list without them (err %v / %v, %d / %d bytes)", f.name, err, wantErr, buf.Len(), want.Len()), "total-write-nil-item-differs-"+f.name
			}
		}
		R.add(o)
	}
}

func describeRich(s *astisub.Subtitles) []string {
	var o []string
	for id, st := range s.Styles {
		if st == nil {
			o = append(o, fmt.Sprintf("style key %s -> nil", id))
			continue
		}
		o = append(o, fmt.Sprintf("style key %s id %s inline_nil=%v parent=%v", id, st.ID, st.InlineStyle == nil, st.Style != nil))
	}
	for id, rg := range s.Regions {
		if rg == nil {
			o = append(o, fmt.Sprintf("region key %s -> nil", id))
			continue
		}
		o = append(o, fmt.Sprintf("region key %s id %s inline_nil=%v style=%v", id, rg.ID, rg.InlineStyle == nil, rg.Style != nil))
	}
	for i, it := range s.Items {
		d := fmt.Sprintf("cue %d [%v,%v) lines=%d inline_nil=%v region=%v style=%v", i, it.StartAt, it.EndAt, len(it.Lines), it.InlineStyle == nil, it.Region != nil, it.Style != nil)
		for _, l := range it.Lines {
			for _, li := range l.Items {
				d += fmt.Sprintf(" %q", li.Text)
			}
		}
		o = append(o, d)
	}
	return o
}

// transport-stream samples (filled in by the teletext generator)
var tsSampleDocsFn func(r *rng) []sampleDoc

func tsSampleDocs(r *rng) []sampleDoc {
	if tsSampleDocsFn != nil {
		return tsSampleDocsFn(r)
	}
	return nil
}

// "@function" of the innermost library frame named in a guarded() result
func siteOf(res string) string {
	if i := strings.LastIndex(res, " at "); i >= 0 {
		fn := res[i+4:]
		if k := strings.Index(fn, " ("); k > 0 {
			fn = fn[:k]
		}
		return "@" + fn
	}
	return ""
}
