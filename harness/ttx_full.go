package main

import (
	"bytes"
	"fmt"
	"io"

	astisub "github.com/asticode/go-astisub"
)

// C17 / C18, model side for teletext: the reader is delegated to the astits demuxer, what the library adds is the wrapper
// teletextFullReader (teletext.go) that fills every Read of the demuxer.  The real wrapper (hook VerifTeletextFullReader)
// over a scheduled stream against the Coq model tf_reads (Model/TtxFull.v), plus the two oracles the properties state.

type tfRead struct {
	b    []byte
	code int // 0 nil, 1 io.EOF, 2 the injected fault, 3 anything else
}

func tfRun(r io.Reader, ns []int) []tfRead {
	var out []tfRead
	for _, n := range ns {
		p := make([]byte, n)
		m, err := r.Read(p)
		c := 0
		switch {
		case err == nil:
		case err == io.EOF:
			c = 1
		case err == errFault:
			c = 2
		default:
			c = 3
		}
		out = append(out, tfRead{append([]byte{}, p[:m]...), c})
	}
	return out
}

func tfEnc(l []tfRead) string {
	e := (&enc{}).n(1).n(len(l))
	for _, x := range l {
		e.bytes(x.b).n(x.code)
	}
	return e.String()
}

func suiteTeletextFullReader(R *runner, r *rng) {
	R.rule("teletextFullReader (the wrapper between the caller's reader and the transport stream demuxer): random data of 0..700 bytes x delivery schedule (0..14 counts among 0, 1, 2, 7, 187..193, random; then the rest) x end signal with the last bytes or on its own x end-of-file or an injected failure at offset k in 0..len (sometimes beyond) x request sizes (1..9 requests among 0, 1, 188, 192, 193, 4096, random; enough of them to reach the end in most cases) x plain or seekable underlying reader; the real wrapper (hook VerifTeletextFullReader) vs the Coq model tf_reads on the same case; oracle C17 (no failure): the sequence of (bytes, error) equals that of the same requests over a one-shot reader; oracle C18 (failure at k <= len): the bytes returned are exactly data[:k] cut at the requested total, the Read that would cross offset k returns the injected error, no Read before it returns an error and no Read returns io.EOF; non-trivial = the schedule has a count")
	N := 800
	if R.tier == "thorough" {
		N = 12000
	}
	sizes := []int{0, 1, 2, 7, 187, 188, 189, 192, 193}
	reqs := []int{0, 1, 188, 192, 193, 4096}
	for c := 0; c < N; c++ {
		n := r.intn(700)
		if r.chance(1, 10) {
			n = 0
		} else if r.chance(1, 6) {
			n = 188 * r.intn(4)
		}
		data := make([]byte, n)
		for i := range data {
			data[i] = byte(r.intn(256))
		}
		var counts []int
		for k := r.intn(15); k > 0; k-- {
			if r.chance(2, 3) {
				counts = append(counts, sizes[r.intn(len(sizes))])
			} else {
				counts = append(counts, r.intn(300))
			}
		}
		w := r.chance(1, 2)
		failAt := -1
		if r.chance(1, 2) {
			failAt = r.intn(n + 1)
			if r.chance(1, 12) {
				failAt = n + 1 + r.intn(5)
			}
		}
		var ns []int
		tot := 0
		for k := 1 + r.intn(9); k > 0; k-- {
			q := reqs[r.intn(len(reqs))]
			if r.chance(1, 3) {
				q = r.intn(400)
			}
			ns = append(ns, q)
			tot += q
		}
		e := (&enc{}).bytes(data).n(failAt + 1).n(len(counts))
		for _, k := range counts {
			e.n(k)
		}
		e.bool(w).n(len(ns))
		for _, k := range ns {
			e.n(k)
		}
		in := e.String()
		for _, seekable := range []bool{c%2 == 1} {
			sr := &schedReader{data: data, counts: counts, withEOF: w, failAt: failAt, failWithData: w}
			var under io.Reader = sr
			kind := "plain"
			if seekable {
				under, kind = schedSeeker{sr}, "seekable"
			}
			got := tfRun(astisub.VerifTeletextFullReader(under), ns)
			group := "ttx.full.eof"
			if failAt >= 0 && failAt <= n {
				group = "ttx.full.fault"
			}
			human := map[string]interface{}{"len": n, "counts": counts, "signal_with_last_bytes": w, "fail_at": failAt, "requests": ns, "reader": kind}
			R.add(&obs{Suite: "ttxfull", Group: group + "." + kind, Input: in, Impl: tfEnc(got), NT: len(counts) > 0, Human: human})
			// the model's closed form (tf_oneshot) against the implementation as well: the theorems are stated with it
			R.add(&obs{Suite: "ttxfullspec", Group: group + ".closed_form", Input: in, Impl: tfEnc(got), NT: len(counts) > 0, Human: human})
			o := &obs{Suite: "ttxfull.oracle", Group: group + ".oracle", NoModel: true, Input: in, NT: len(counts) > 0, Human: human}
			if failAt < 0 || failAt > n {
				base := tfRun(astisub.VerifTeletextFullReader(bytes.NewReader(data)), ns)
				if tfEnc(base) != tfEnc(got) {
					o.Oracle, o.Sig = fmt.Sprintf("teletextFullReader over a %s reader: the demuxer's reads under schedule %v differ from the one-shot reads (requests %v)", kind, counts, ns), "ttx-full-schedule"
				}
			} else {
				var all []byte
				first := -1
				cum := 0
				for i, x := range got {
					all = append(all, x.b...)
					if x.code != 0 && first < 0 {
						first = i
					}
					if x.code == 1 || x.code == 3 {
						o.Oracle, o.Sig = fmt.Sprintf("teletextFullReader: read %d over a stream failing at offset %d returned error code %d instead of the injected failure", i, failAt, x.code), "ttx-full-fault"
					}
				}
				cross := -1
				for i, q := range ns {
					cum += q
					if cum > failAt {
						cross = i
						break
					}
				}
				want := data[:minInt(failAt, tot)]
				switch {
				case o.Oracle != "":
				case !bytes.Equal(all, want):
					o.Oracle, o.Sig = fmt.Sprintf("teletextFullReader: %d bytes returned over a stream failing at offset %d for %d requested, want the first %d", len(all), failAt, tot, len(want)), "ttx-full-fault"
				case first != cross:
					o.Oracle, o.Sig = fmt.Sprintf("teletextFullReader: failure at offset %d surfaced at read %d, the read crossing the offset is %d (requests %v)", failAt, first, cross, ns), "ttx-full-fault"
				}
			}
			R.add(o)
		}
	}
}
