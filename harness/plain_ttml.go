package main

// TTML in the plain view of C07 (Model/PlainTtml.v): byte-level writer model, XML parser model + tree reader.

import (
	"bytes"

	astisub "github.com/asticode/go-astisub"
)

func init() {
	// styled sources into TTML: Model/ConvTtml.v (suite convstyledttml)
	for _, src := range []string{"srt", "vtt", "ssa", "stl"} {
		plainStyledModels[src+"->ttml"] = "convstyledttml"
	}
	plainCodecs = append(plainCodecs, plainCodec{4, "ttml", 1e6,
		func(b []byte) (*astisub.Subtitles, error) { return astisub.ReadFromTTML(bytes.NewReader(b)) },
		func(s *astisub.Subtitles, w *bytes.Buffer) error { return s.WriteToTTML(w) }})
}
