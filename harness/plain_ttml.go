package main

// TTML in the plain view of C07 (Model/PlainTtml.v): byte-level writer model, XML parser model + tree reader.

import (
	"bytes"

	astisub "github.com/asticode/go-astisub"
)

func init() {
	plainCodecs = append(plainCodecs, plainCodec{4, "ttml", 1e6,
		func(b []byte) (*astisub.Subtitles, error) { return astisub.ReadFromTTML(bytes.NewReader(b)) },
		func(s *astisub.Subtitles, w *bytes.Buffer) error { return s.WriteToTTML(w) }})
}
