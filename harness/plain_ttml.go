package main

// TTML in the plain view of C07 (Model/PlainTtml.v): byte-level writer model, XML parser model + tree reader.

import (
	"bytes"

	astisub "github.com/asticode/go-astisub"
)

func init() {
	// styled sources into TTML: Model/ConvTtml.v (suite convstyledttml)
	for _, src := range []string{"srt", "vtt", "ssa", "stl"} {
		plainStyledModels[src+"->ttml"] = "convstyledttml"
	}
	plainCodecs = append(plainCodecs, plainCodec{4, "ttml", 1e6,
		func(b []byte) (*astisub.Subtitles, error) { return astisub.ReadFromTTML(bytes.NewReader(b)) },
		func(s *astisub.Subtitles, w *bytes.Buffer) error { return s.WriteToTTML(w) }})
}

// Text that is not XML-legal carried into a TTML destination (second audit, N4): the sources are SubRip, WebVTT and SSA
// documents written by the library from cue lists whose words contain control characters, NUL, U+FFFE / U+FFFF and bytes
// that are not UTF-8; the library's TTML bytes (U+FFFD substitution by xml.EscapeText) vs the model's conversion through
// the plain view with the Go-exact TTML encoder (ttml_enc over write_ttml_bytes_go); outside a source reader's
// faithful domain only the class is compared.
func suiteConvertIllegalToTtml(R *runner, r *rng) {
	R.rule("conversion into TTML of text that is not XML-legal: plain cue lists whose words carry 0x01, 0x0B, 0x1F, NUL, U+FFFE, U+FFFF and non-UTF-8 bytes, written by the library as SubRip / WebVTT / SSA, read back and written as TTML; destination bytes vs convert_plain with the Go-exact TTML encoder")
	N := 30
	if R.tier == "thorough" {
		N = 400
	}
	var ttml plainCodec
	for _, c := range plainCodecs {
		if c.name == "ttml" {
			ttml = c
		}
	}
	bad := []string{"\x01", "\x0b", "\x1f", "\x00", "\xef\xbf\xbe", "\xef\xbf\xbf", "\xff", "\xc0\x80", "\x7f", "\u0085"}
	for c := 0; c < N; c++ {
		for _, src := range plainCodecs {
			if src.name != "srt" && src.name != "vtt" && src.name != "ssa" {
				continue
			}
			cues := plainCues(r, 1+r.intn(3))
			for i := range cues {
				for j := range cues[i].Lines {
					cues[i].Lines[j][0].Text = "a" + bad[r.intn(len(bad))] + "b" + cues[i].Lines[j][0].Text
				}
				cues[i].Start -= cues[i].Start % src.unit
				cues[i].End -= cues[i].End % src.unit
				if cues[i].End <= cues[i].Start {
					cues[i].End = cues[i].Start + src.unit
				}
			}
			var buf bytes.Buffer
			if err := src.write(subsFromCues(cues), &buf); err != nil {
				continue
			}
			doc := buf.Bytes()
			s, err := src.read(doc)
			if err != nil || len(s.Items) == 0 {
				R.count("plain.illegal." + src.name + ".source_rejected")
				continue
			}
			var out bytes.Buffer
			o := &obs{Suite: "convplain", Group: "plain.illegal." + src.name + "->ttml", Input: (&enc{}).n(src.code).n(ttml.code).bytes(doc).String(), NT: true,
				Human: map[string]interface{}{"source": src.name, "document": string(doc)}}
			if werr := ttml.write(s, &out); werr != nil {
				o.Impl = "1"
			} else {
				o.Impl = (&enc{}).n(0).bytes(out.Bytes()).String()
				if bytes.Contains(out.Bytes(), []byte("\xef\xbf\xbd")) {
					R.count("plain.illegal." + src.name + "->ttml.substituted")
				}
			}
			R.add(o)
		}
	}
}
