package main

// C05 EBU STL: suites (oracles on the implementation and correspondence with the Coq model).

import (
	"bytes"
	"fmt"
	"strings"
	"time"

	astisub "github.com/asticode/go-astisub"
	"golang.org/x/text/unicode/norm"
)

const sigDollar = "stl-dollar-read-back-as-currency-sign"

var stlNow = time.Date(2024, 2, 29, 13, 14, 15, 0, time.UTC)

const stlNowStr = "240229"

// ---- reader ------------------------------------------------------------------------------------------------

func absI64(a int64) int64 {
	if a < 0 {
		return -a
	}
	return a
}

// compares the reader's result with what the file denotes; returns "" or a description, and the known-finding signature
func stlReadOracle(s *astisub.Subtitles, f *stlFile, ignore bool) (string, string) {
	m := s.Metadata
	if m == nil {
		return "no metadata returned", ""
	}
	fps := int64(f.FPS)
	chk := func(name, got, want string) string {
		if got != want {
			return fmt.Sprintf("metadata %s = %q, file has %q", name, got, want)
		}
		return ""
	}
	pint := func(p *int) string {
		if p == nil {
			return "nil"
		}
		return fmt.Sprint(*p)
	}
	for _, c := range []string{
		chk("frame rate", fmt.Sprint(m.Framerate), fmt.Sprint(f.FPS)),
		chk("display standard", m.STLDisplayStandardCode, strings.TrimSpace(string(f.DSC))),
		chk("language", m.Language, f.Lang),
		chk("original programme title", m.Title, f.OPT),
		chk("original episode title", m.STLOriginalEpisodeTitle, f.OET),
		chk("translated programme title", m.STLTranslatedProgramTitle, f.TPT),
		chk("translated episode title", m.STLTranslatedEpisodeTitle, f.TET),
		chk("translator name", m.STLTranslatorName, f.TN),
		chk("translator contact", m.STLTranslatorContactDetails, f.TCD),
		chk("subtitle list reference", m.STLSubtitleListReferenceCode, f.SLR),
		chk("creation date", dateStr(m.STLCreationDate), f.CD),
		chk("revision date", dateStr(m.STLRevisionDate), f.RD),
		chk("revision number", fmt.Sprint(m.STLRevisionNumber), fmt.Sprint(f.RN)),
		chk("max characters per row", pint(m.STLMaximumNumberOfDisplayableCharactersInAnyTextRow), fmt.Sprint(f.MNC)),
		chk("max rows", pint(m.STLMaximumNumberOfDisplayableRows), fmt.Sprint(f.MNR)),
		chk("country of origin", m.STLCountryOfOrigin, f.CO),
		chk("publisher", m.STLPublisher, f.PUB),
		chk("editor name", m.STLEditorName, f.EN),
		chk("editor contact", m.STLEditorContactDetails, f.ECD),
	} {
		if c != "" {
			return c, "stl-read-metadata"
		}
	}
	tcp := int64(0)
	if !ignore {
		tcp = f.TCP.scaled(f.FPS)
	}
	if absI64(int64(m.STLTimecodeStartOfProgramme)*fps-tcp) >= fps {
		return fmt.Sprintf("metadata programme start = %v, file has %v at %d fps (ignore=%v)", m.STLTimecodeStartOfProgramme, f.TCP, f.FPS, ignore), "stl-read-tcp"
	}
	var cues []stlCue
	for _, c := range f.Blocks {
		if !c.UserData {
			cues = append(cues, c)
		}
	}
	got := stlCuesFromSubs(s)
	if len(got) != len(cues) {
		return fmt.Sprintf("%d cues, file has %d subtitle blocks", len(got), len(cues)), "stl-read-count"
	}
	for i, c := range cues {
		g := got[i]
		ws, we := c.In.scaled(f.FPS)-tcp, c.Out.scaled(f.FPS)-tcp
		// each conversion rounds up by less than 1 ns
		if absI64(g.Start*fps-ws) >= fps || absI64(g.End*fps-we) >= fps {
			return fmt.Sprintf("cue %d: [%d,%d) ns, file has %v-%v at %d fps minus programme start %v (ignore=%v)", i+1, g.Start, g.End, c.In, c.Out, f.FPS, f.TCP, ignore), "stl-read-time"
		}
		if g.VP != c.VP {
			return fmt.Sprintf("cue %d: vertical position %d, file has %d", i+1, g.VP, c.VP), "stl-read-vp"
		}
		wantJC := int(c.JC)
		if wantJC > 3 {
			wantJC = 0 // any other justification byte is "unchanged presentation"
		}
		if g.JC != wantJC {
			return fmt.Sprintf("cue %d: justification %d, file has %d", i+1, g.JC, c.JC), "stl-read-jc"
		}
		if d, _ := stlRowsDiff(g.Rows, c.Rows); d != "" {
			return fmt.Sprintf("cue %d: %s", i+1, d), "stl-read-text"
		}
	}
	return "", ""
}

func stlReadObs(data []byte, f *stlFile, ignore bool, group string, human map[string]interface{}) *obs {
	e := &enc{}
	e.bool(ignore).bytes(data)
	if human == nil {
		human = map[string]interface{}{}
	}
	human["file_hex"] = hexShort(data)
	human["ignore_programme_start"] = ignore
	o := &obs{Suite: "stlread", Group: group, Input: e.String(), Human: human}
	var s *astisub.Subtitles
	var err error
	p := safely(func() {
		s, err = astisub.ReadFromSTL(bytes.NewReader(data), astisub.STLOptions{IgnoreTimecodeStartOfProgramme: ignore})
	})
	switch {
	case p != "":
		o.Impl, o.Oracle, o.Sig = "2", "ReadFromSTL panicked: "+p, "stl-read-panic"
	case err != nil:
		o.Impl = "1"
		if f != nil {
			o.Oracle, o.Sig = "ReadFromSTL rejects a well-formed file: "+err.Error(), "stl-read-reject"
		}
	default:
		oe := &enc{}
		oe.n(0)
		encSTLDoc(oe, s)
		o.Impl = oe.String()
		if f != nil {
			o.Oracle, o.Sig = stlReadOracle(s, f, ignore)
		}
	}
	return o
}

// ---- writer ------------------------------------------------------------------------------------------------

type stlWCue struct {
	Start, End int64
	VP         *int
	J          *astisub.Justification
	Rows       [][]stlRun
}

func bp(b bool) *bool { return &b }

func stlSubsFromWCues(r *rng, cues []stlWCue) *astisub.Subtitles {
	s := astisub.NewSubtitles()
	for _, c := range cues {
		it := &astisub.Item{StartAt: time.Duration(c.Start), EndAt: time.Duration(c.End)}
		if c.VP != nil || c.J != nil || r.chance(1, 3) {
			it.InlineStyle = &astisub.StyleAttributes{}
			if c.VP != nil {
				it.InlineStyle.STLPosition = &astisub.STLPosition{VerticalPosition: *c.VP, MaxRows: 23, Rows: len(c.Rows)}
			}
			it.InlineStyle.STLJustification = c.J
		}
		for _, row := range c.Rows {
			var l astisub.Line
			for _, ru := range row {
				li := astisub.LineItem{Text: ru.Text}
				if ru.It || ru.Un || ru.Bx || r.chance(1, 3) {
					sa := &astisub.StyleAttributes{}
					if ru.It {
						sa.STLItalics = bp(true)
					} else if r.chance(1, 2) {
						sa.STLItalics = bp(false)
					}
					if ru.Un {
						sa.STLUnderline = bp(true)
					} else if r.chance(1, 2) {
						sa.STLUnderline = bp(false)
					}
					if ru.Bx {
						sa.STLBoxing = bp(true)
					} else if r.chance(1, 2) {
						sa.STLBoxing = bp(false)
					}
					li.InlineStyle = sa
				}
				l.Items = append(l.Items, li)
			}
			it.Lines = append(it.Lines, l)
		}
		s.Items = append(s.Items, it)
	}
	return s
}

func stlDatePtr(s string) *time.Time {
	if s == "" {
		return nil
	}
	var y, m, d int
	fmt.Sscanf(s, "%02d%02d%02d", &y, &m, &d)
	if y >= 69 {
		y += 1900
	} else {
		y += 2000
	}
	t := time.Date(y, time.Month(m), d, 0, 0, 0, 0, time.UTC)
	return &t
}

// input of the writer model, projected from the subtitles handed to WriteToSTL
func encSTLWriteInput(e *enc, s *astisub.Subtitles) {
	e.str(stlNowStr)
	encSTLMetadataOnly(e, s)
	e.n(len(s.Items))
	for _, it := range s.Items {
		e.i(int64(it.StartAt)).i(int64(it.EndAt))
		if it.InlineStyle == nil || it.InlineStyle.STLJustification == nil {
			e.n(0)
		} else {
			e.n(int(*it.InlineStyle.STLJustification) + 1)
		}
		if it.InlineStyle == nil || it.InlineStyle.STLPosition == nil {
			e.n(0)
		} else {
			e.n(1).n(it.InlineStyle.STLPosition.VerticalPosition)
		}
		e.n(len(it.Lines))
		for _, l := range it.Lines {
			e.n(len(l.Items))
			for _, li := range l.Items {
				sa := li.InlineStyle
				e.str(li.Text)
				e.bool(sa != nil && sa.STLItalics != nil && *sa.STLItalics)
				e.bool(sa != nil && sa.STLUnderline != nil && *sa.STLUnderline)
				e.bool(sa != nil && sa.STLBoxing != nil && *sa.STLBoxing)
			}
		}
	}
}

func encSTLMetadataOnly(e *enc, s *astisub.Subtitles) {
	if m := s.Metadata; m == nil {
		e.n(0)
	} else {
		e.n(1)
		od := func(t *time.Time) {
			if t == nil {
				e.n(0)
			} else {
				e.n(1).str(fmt.Sprintf("%02d%02d%02d", t.Year()%100, int(t.Month()), t.Day()))
			}
		}
		oi := func(p *int) {
			if p == nil {
				e.n(0)
			} else {
				e.n(1).n(*p)
			}
		}
		e.n(m.Framerate).str(m.Language).str(m.Title).str(m.STLCountryOfOrigin)
		od(m.STLCreationDate)
		e.str(m.STLDisplayStandardCode).str(m.STLEditorContactDetails).str(m.STLEditorName)
		oi(m.STLMaximumNumberOfDisplayableCharactersInAnyTextRow)
		oi(m.STLMaximumNumberOfDisplayableRows)
		e.str(m.STLOriginalEpisodeTitle).str(m.STLPublisher)
		od(m.STLRevisionDate)
		e.n(m.STLRevisionNumber).str(m.STLSubtitleListReferenceCode).i(int64(m.STLTimecodeStartOfProgramme))
		e.str(m.STLTranslatedEpisodeTitle).str(m.STLTranslatedProgramTitle).str(m.STLTranslatorContactDetails).str(m.STLTranslatorName)
	}
}

// frame-level timecode of an instant: the latest frame not after it
func tcOf(ns int64, fps int) stlTC {
	s := ns / 1e9
	return stlTC{int(s / 3600), int(s / 60 % 60), int(s % 60), int(ns % 1e9 * int64(fps) / 1e9)}
}

func jcOfJ(j *astisub.Justification) int {
	if j == nil {
		return 1
	}
	switch *j {
	case astisub.JustificationUnchanged:
		return 0
	case astisub.JustificationLeft:
		return 1
	case astisub.JustificationCentered:
		return 2
	case astisub.JustificationRight:
		return 3
	}
	return 1
}

type stlWExpect struct {
	cues    []stlWCue
	md      *astisub.Metadata // metadata whose STL fields the file must carry (nil: absent or foreign)
	fps     int               // expected frame rate of the file
	dsc     string            // expected display standard
	checkVP bool
}

// oracle on the bytes written: layout, independent decoder, the library's reader, second pass
func stlWriteOracle(out []byte, x stlWExpect) (string, string) {
	n := len(x.cues)
	if len(out) != 1024+128*n {
		return fmt.Sprintf("%d bytes written for %d cues, want 1024 + 128*%d", len(out), n, n), "stl-write-layout"
	}
	d, err := decodeSTL(out)
	if err != nil {
		return "independent decoder: " + err.Error(), "stl-write-undecodable"
	}
	if d.FPS != x.fps {
		return fmt.Sprintf("independent decoder: frame rate %d, want %d", d.FPS, x.fps), "stl-write-fps"
	}
	if strings.TrimSpace(d.GSI["DSC"]) != x.dsc {
		return fmt.Sprintf("independent decoder: display standard %q, want %q", d.GSI["DSC"], x.dsc), "stl-write-dsc"
	}
	dollar := false
	tcp := int64(0)
	if x.md != nil {
		tcp = int64(x.md.STLTimecodeStartOfProgramme)
		m := x.md
		fit := func(s string, n int) string {
			if len(s) > n {
				return s[:n]
			}
			return s
		}
		date := func(t *time.Time) string {
			if t == nil {
				return stlNowStr
			}
			return fmt.Sprintf("%02d%02d%02d", t.Year()%100, int(t.Month()), t.Day())
		}
		for _, c := range [][3]string{
			{"OPT", d.GSI["OPT"], m.Title}, {"OET", d.GSI["OET"], m.STLOriginalEpisodeTitle}, {"TPT", d.GSI["TPT"], m.STLTranslatedProgramTitle},
			{"TET", d.GSI["TET"], m.STLTranslatedEpisodeTitle}, {"TN", d.GSI["TN"], m.STLTranslatorName}, {"TCD", d.GSI["TCD"], m.STLTranslatorContactDetails},
			{"SLR", d.GSI["SLR"], m.STLSubtitleListReferenceCode}, {"PUB", d.GSI["PUB"], m.STLPublisher}, {"EN", d.GSI["EN"], m.STLEditorName},
			{"ECD", d.GSI["ECD"], m.STLEditorContactDetails},
			{"CD", d.GSI["CD"], date(m.STLCreationDate)}, {"RD", d.GSI["RD"], date(m.STLRevisionDate)},
			{"RN", d.GSI["RN"], fmt.Sprintf("%02d", m.STLRevisionNumber)},
			{"MNC", d.GSI["MNC"], fmt.Sprintf("%02d", *m.STLMaximumNumberOfDisplayableCharactersInAnyTextRow)},
			{"MNR", d.GSI["MNR"], fmt.Sprintf("%02d", *m.STLMaximumNumberOfDisplayableRows)},
			{"TCP", d.GSI["TCP"], tcString(tcOf(tcp, x.fps))},
		} {
			if strings.TrimRight(c[1], " ") != fit(c[2], len(c[1])) {
				return fmt.Sprintf("independent decoder: GSI %s = %q, metadata has %q", c[0], c[1], c[2]), "stl-write-metadata"
			}
		}
		// an empty country keeps the writer's default
		if m.STLCountryOfOrigin != "" && strings.TrimRight(d.GSI["CO"], " ") != fit(m.STLCountryOfOrigin, 3) {
			return fmt.Sprintf("independent decoder: GSI CO = %q, metadata has %q", d.GSI["CO"], m.STLCountryOfOrigin), "stl-write-metadata"
		}
	}
	if len(d.Blocks) != n {
		return fmt.Sprintf("independent decoder: %d TTI blocks, want %d", len(d.Blocks), n), "stl-write-count"
	}
	for i, c := range x.cues {
		b := d.Blocks[i]
		if b.UserData {
			return fmt.Sprintf("TTI block %d is a user data block", i), "stl-write-ebn"
		}
		// the timecodes of the file are relative to the programme start written in the GSI block
		wi, wo := tcOf(c.Start+tcp, x.fps), tcOf(c.End+tcp, x.fps)
		if b.In != wi || b.Out != wo {
			return fmt.Sprintf("independent decoder: cue %d timecodes %v-%v, want %v-%v (%d ns - %d ns at %d fps, programme start %d ns)", i+1, b.In, b.Out, wi, wo, c.Start, c.End, x.fps, tcp), "stl-write-time"
		}
		if x.checkVP && c.VP != nil && b.VP != *c.VP {
			return fmt.Sprintf("independent decoder: cue %d vertical position %d, want %d", i+1, b.VP, *c.VP), "stl-write-vp"
		}
		if c.J != nil && int(b.JC) != jcOfJ(c.J) {
			return fmt.Sprintf("independent decoder: cue %d justification code %d, want %d", i+1, b.JC, jcOfJ(c.J)), "stl-write-jc"
		}
		if df, onlyDollar := stlRowsDiff(b.Rows, c.Rows); df != "" {
			if !onlyDollar {
				return fmt.Sprintf("independent decoder: cue %d: %s", i+1, df), "stl-write-text"
			}
			dollar = true
		}
	}
	// the library's reader
	var s2 *astisub.Subtitles
	p := safely(func() { s2, err = astisub.ReadFromSTL(bytes.NewReader(out), astisub.STLOptions{}) })
	if p != "" {
		return "ReadFromSTL panicked on the written file: " + p, "stl-reread-panic"
	}
	if err != nil {
		return "ReadFromSTL rejects the written file: " + err.Error(), "stl-reread-reject"
	}
	got := stlCuesFromSubs(s2)
	if len(got) != n {
		return fmt.Sprintf("read back: %d cues, want %d", len(got), n), "stl-reread-count"
	}
	fps := int64(x.fps)
	for i, c := range x.cues {
		g := got[i]
		ws, we := tcOf(c.Start+tcp, x.fps).scaled(x.fps)-tcOf(tcp, x.fps).scaled(x.fps), tcOf(c.End+tcp, x.fps).scaled(x.fps)-tcOf(tcp, x.fps).scaled(x.fps)
		if absI64(g.Start*fps-ws) >= fps || absI64(g.End*fps-we) >= fps {
			return fmt.Sprintf("read back: cue %d [%d,%d) ns, written from [%d,%d) ns at %d fps, programme start %d ns", i+1, g.Start, g.End, c.Start, c.End, x.fps, tcp), "stl-reread-time"
		}
		if x.checkVP && c.VP != nil && g.VP != *c.VP {
			return fmt.Sprintf("read back: cue %d vertical position %d, want %d", i+1, g.VP, *c.VP), "stl-reread-vp"
		}
		if c.J != nil && g.JC != jcOfJ(c.J) {
			return fmt.Sprintf("read back: cue %d justification %d, want %d", i+1, g.JC, jcOfJ(c.J)), "stl-reread-jc"
		}
		if df, onlyDollar := stlRowsDiff(g.Rows, c.Rows); df != "" {
			if onlyDollar {
				dollar = true
				continue
			}
			return fmt.Sprintf("read back: cue %d: %s", i+1, df), "stl-reread-text"
		}
	}
	if x.md != nil {
		m, m2 := x.md, s2.Metadata
		if m2 == nil {
			return "read back: no metadata", "stl-reread-metadata"
		}
		fit := func(s string, n int) string {
			if len(s) > n {
				s = s[:n]
			}
			return strings.TrimSpace(s)
		}
		for _, c := range [][3]string{
			{"title", m2.Title, fit(m.Title, 32)}, {"episode", m2.STLOriginalEpisodeTitle, fit(m.STLOriginalEpisodeTitle, 32)},
			{"publisher", m2.STLPublisher, fit(m.STLPublisher, 32)}, {"editor", m2.STLEditorName, fit(m.STLEditorName, 32)},
			{"frame rate", fmt.Sprint(m2.Framerate), fmt.Sprint(x.fps)},
		} {
			if c[1] != c[2] {
				return fmt.Sprintf("read back: metadata %s = %q, written from %q", c[0], c[1], c[2]), "stl-reread-metadata"
			}
		}
	}
	if x.md != nil {
		m, m2 := x.md, s2.Metadata
		if m.STLCountryOfOrigin != "" && m2.STLCountryOfOrigin != strings.TrimSpace((m.STLCountryOfOrigin + "   ")[:3]) {
			return fmt.Sprintf("read back: metadata country = %q, written from %q", m2.STLCountryOfOrigin, m.STLCountryOfOrigin), "stl-reread-metadata"
		}
		for _, l := range stlLanguages {
			if m.Language == l && m2.Language != l {
				return fmt.Sprintf("read back: metadata language = %q, written from %q", m2.Language, m.Language), "stl-reread-metadata"
			}
		}
	}
	// second pass: reading then writing again changes no timecode
	var out2 bytes.Buffer
	p = safely(func() { err = s2.WriteToSTL(&out2) })
	if p != "" || err != nil {
		return fmt.Sprintf("writing the re-read subtitles again fails: %s %v", p, err), "stl-rewrite-fails"
	}
	d2, err := decodeSTL(out2.Bytes())
	if err != nil {
		return "second pass: independent decoder: " + err.Error(), "stl-rewrite-undecodable"
	}
	if len(d2.Blocks) != len(d.Blocks) {
		return fmt.Sprintf("second pass: %d TTI blocks, first pass %d", len(d2.Blocks), len(d.Blocks)), "stl-rewrite-count"
	}
	for i := range d.Blocks {
		if d.Blocks[i].In != d2.Blocks[i].In || d.Blocks[i].Out != d2.Blocks[i].Out {
			return fmt.Sprintf("second pass: cue %d timecodes %v-%v, first pass %v-%v (%d fps, programme start %s)", i+1, d2.Blocks[i].In, d2.Blocks[i].Out, d.Blocks[i].In, d.Blocks[i].Out, d.FPS, d.GSI["TCP"]), "stl-rewrite-time"
		}
	}
	if dollar {
		return "the only differing characters are '$' (written as 0x24) decoded as the currency sign by the independent decoder and by the reader", sigDollar
	}
	return "", ""
}

func stlWriteObs(s *astisub.Subtitles, x *stlWExpect, group string, human map[string]interface{}) *obs {
	e := &enc{}
	encSTLWriteInput(e, s)
	o := &obs{Suite: "stlwrite", Group: group, Input: e.String(), Human: human}
	var buf bytes.Buffer
	var err error
	p := safely(func() { err = s.WriteToSTL(&buf) })
	switch {
	case p != "":
		o.Impl, o.Oracle, o.Sig = "2", "WriteToSTL panicked: "+p, "stl-write-panic"
	case err != nil:
		o.Impl = "1"
		if x != nil && len(x.cues) > 0 {
			o.Oracle, o.Sig = "WriteToSTL fails: "+err.Error(), "stl-write-fails"
		}
	default:
		oe := &enc{}
		oe.n(0).bytes(buf.Bytes())
		o.Impl = oe.String()
		if human != nil {
			human["written_hex"] = hexShort(buf.Bytes())
		}
		if x != nil {
			o.Oracle, o.Sig = stlWriteOracle(buf.Bytes(), *x)
		}
	}
	return o
}

func randSTLWCues(r *rng, n int, fps int, teletext, styled, dollar, grid bool) []stlWCue {
	var cues []stlWCue
	for i := 0; i < n; i++ {
		var c stlWCue
		a, b := randTC(r, fps), randTC(r, fps)
		a.H, b.H = a.H%12, b.H%12
		if tcLess(b, a) {
			a, b = b, a
		}
		// on the frame grid as the reader produces it (rounded up), or anywhere inside the frame
		c.Start = (a.scaled(fps) + int64(fps) - 1) / int64(fps)
		c.End = (b.scaled(fps) + int64(fps) - 1) / int64(fps)
		if !grid {
			c.Start += r.i64n(1e9 / int64(fps) / 2)
			c.End += r.i64n(1e9 / int64(fps) / 2)
		}
		if r.chance(3, 4) {
			vp := r.intn(100)
			if teletext {
				vp = 1 + r.intn(23)
			}
			c.VP = &vp
		}
		if r.chance(3, 4) {
			j := []astisub.Justification{astisub.JustificationUnchanged, astisub.JustificationLeft, astisub.JustificationCentered, astisub.JustificationRight}[r.intn(4)]
			c.J = &j
		}
		for {
			c.Rows = randSTLRows(r, styled, dollar)
			if stlRowsFit(c.Rows) {
				break
			}
		}
		cues = append(cues, c)
	}
	return cues
}

func ip(v int) *int { return &v }

func randSTLMetadata(r *rng, f *stlFile) *astisub.Metadata {
	m := &astisub.Metadata{
		Framerate: f.FPS, Language: f.Lang, Title: f.OPT, STLCountryOfOrigin: f.CO, STLCreationDate: stlDatePtr(f.CD),
		STLDisplayStandardCode: string(f.DSC), STLEditorContactDetails: f.ECD, STLEditorName: f.EN,
		STLMaximumNumberOfDisplayableCharactersInAnyTextRow: ip(f.MNC), STLMaximumNumberOfDisplayableRows: ip(f.MNR),
		STLOriginalEpisodeTitle: f.OET, STLPublisher: f.PUB, STLRevisionDate: stlDatePtr(f.RD), STLRevisionNumber: f.RN,
		STLSubtitleListReferenceCode: f.SLR, STLTranslatedEpisodeTitle: f.TET, STLTranslatedProgramTitle: f.TPT,
		STLTranslatorContactDetails: f.TCD, STLTranslatorName: f.TN,
	}
	m.STLTimecodeStartOfProgramme = time.Duration((f.TCP.scaled(f.FPS) + int64(f.FPS) - 1) / int64(f.FPS))
	return m
}

// subtitles whose metadata come from another format, read through the library
func stlForeignSubs(r *rng, k int, cues []srtCue) (*astisub.Subtitles, string, error) {
	switch k % 5 {
	case 0:
		s, err := astisub.ReadFromSRT(bytes.NewReader(renderVTTPlainAsSRT(cues)))
		return s, "srt", err
	case 1:
		s, err := astisub.ReadFromWebVTT(bytes.NewReader(renderVTTPlain(cues)))
		return s, "webvtt", err
	case 2:
		s, err := astisub.ReadFromSSA(bytes.NewReader(renderSSAPlain(cues)))
		return s, "ssa", err
	case 3:
		s, err := astisub.ReadFromTTML(bytes.NewReader(renderTTMLPlain(cues, 0)))
		return s, "ttml", err
	default:
		s, err := astisub.ReadFromTTML(bytes.NewReader(renderTTMLPlain(cues, []int{24, 25, 30, 50}[r.intn(4)])))
		return s, "ttml+framerate", err
	}
}

func renderVTTPlainAsSRT(cues []srtCue) []byte {
	var b strings.Builder
	for i, c := range cues {
		fmt.Fprintf(&b, "%d\n%s --> %s\n%s\n\n", i+1, stamp(c.Start, ",", 3, false), stamp(c.End, ",", 3, false), strings.Join(plainLines(c), "\n"))
	}
	return []byte(b.String())
}

// ---- exhaustive repertoire documents -------------------------------------------------------------------------

// every spacing character of the table and every floating diacritic x letter pair, as rows of at most [per] characters
func stlRepertoireRows(per int, dollar bool) [][]stlRun {
	var chars []string
	for _, b := range stlSpacingBytes {
		r := iso6937[b]
		if r == ' ' || r == 0xA0 || r == '$' && !dollar {
			continue
		}
		chars = append(chars, string(r))
	}
	for _, d := range stlFloatBytes {
		for _, l := range stlBaseLetters {
			chars = append(chars, norm.NFC.String(string([]rune{l, iso6937Floating[d]})))
		}
	}
	var rows [][]stlRun
	for i := 0; i < len(chars); i += per {
		j := i + per
		if j > len(chars) {
			j = len(chars)
		}
		rows = append(rows, []stlRun{{Text: strings.Join(chars[i:j], "")}})
	}
	return rows
}

// ---- the suite ---------------------------------------------------------------------------------------------

func suiteStl(R *runner, r *rng) {
	R.rule("stl: ground-truth files (GSI field values, 25/30 fps, display standards 0/1/2, programme start, 0..6 cues with timecodes over h:m:s:f, 1..3 rows of 1..3 runs over the whole Latin table incl. floating diacritic x letter pairs, italic/underline/boxing code sequences in any order with or without closing codes, start/end box and colour/double-height codes under teletext standards, interleaved user-data blocks) x ignore-programme-start; reader vs ground truth (oracle: metadata, times within 1 ns of the exact frame instant minus programme start, rows/runs/flags up to canonical equivalence, vertical position, justification) and vs the Coq model (all values incl. teletext attributes); every table character and every diacritic x letter pair under each display standard; every timecode h:m:s:f at 25 and 30 fps; writer (metadata present / absent / inherited from SRT, WebVTT, SSA, TTML) vs the Coq model (bytes) and oracles: 1024+128n bytes, the harness's own GSI/TTI decoder, the library's reader, second pass keeps every timecode; mutated and truncated files (class and model); field-level suites for the character codec, rows, GSI and TTI blocks; rows also as arbitrary element sequences (style codes redundant / repeated / unclosed / at the row ends, undefined bytes inside rows, trailing blanks, both currency positions) with the harness's own denotation, GSI numbers in all accepted forms, leading blanks, blank timecodes, non-blank spare bytes, arbitrary extension block numbers and justification bytes (stl.free.* counts); stl.needs: the worked instances of C05_read_rendered and the documents of its computed counter-examples, model vs library and the meaning the Coq examples state; non-trivial = at least one cue / non-empty input")
	stlCountR = R
	defer func() { stlCountR = nil }()
	saved := astisub.Now
	astisub.Now = func() time.Time { return stlNow }
	defer func() { astisub.Now = saved }()
	thorough := R.tier == "thorough"
	N := 500
	if thorough {
		N = 6000
	}

	// 1. reader on ground-truth files
	for c := 0; c < N; c++ {
		f := randSTLFile(r, 6, c%4 != 0, true)
		data := renderSTL(r, f)
		for _, ign := range []bool{false, true} {
			h := map[string]interface{}{"fps": f.FPS, "dsc": string(f.DSC), "programme_start": f.TCP.String(), "blocks": len(f.Blocks)}
			o := stlReadObs(data, f, ign, "stl.read", h)
			o.NT = f.TNS > 0
			R.add(o)
		}
		R.count(fmt.Sprintf("stl.read.fps%d", f.FPS))
		R.count("stl.read.dsc" + string(f.DSC))
		R.countN("stl.read.cues", f.TNS)
		R.countN("stl.read.userdata_blocks", f.TNB-f.TNS)
		if f.TCP != (stlTC{}) {
			R.count("stl.read.programme_start_nonzero")
		}
		// read, write again: no timecode changes
		if c%2 == 0 {
			R.add(stlRewriteObs(data, f, c%4 == 0))
		}
	}

	// 2. the whole repertoire under each display standard and frame rate
	for _, dsc := range []byte{'0', '1', '2'} {
		rows := stlRepertoireRows(14, true)
		f := randSTLFile(r, 0, false, true)
		f.DSC, f.Blocks, f.TCP = dsc, nil, stlTC{}
		for i := 0; i < len(rows); i += 3 {
			j := i + 3
			if j > len(rows) {
				j = len(rows)
			}
			tc := stlTC{0, i / 60 % 60, i % 60, i % f.FPS}
			f.Blocks = append(f.Blocks, stlCue{In: tc, Out: stlTC{1, tc.M, tc.S, tc.F}, VP: 1 + i%23, JC: byte(i % 4), Rows: rows[i:j]})
		}
		f.TNB, f.TNS = len(f.Blocks), len(f.Blocks)
		data := renderSTL(r, f)
		o := stlReadObs(data, f, false, "stl.read.repertoire", map[string]interface{}{"dsc": string(dsc), "what": "every table character and every diacritic x letter pair"})
		o.NT = true
		R.add(o)
	}

	// 3. every timecode h:m:s:f at both frame rates: the TTI conversion and its stability under format
	suiteStlTimecodes(R, thorough)

	// 4. mutated / truncated files: class and model
	for c := 0; c < N/2; c++ {
		f := randSTLFile(r, 3, true, true)
		data := renderSTL(r, f)
		desc := ""
		switch r.intn(5) {
		case 0:
			cut := r.intn(len(data) + 1)
			data = data[:cut]
			desc = fmt.Sprintf("truncated to %d bytes", cut)
		case 1:
			for k := 0; k < 1+r.intn(4); k++ {
				off := r.intn(448)
				data[off] = byte(r.intn(256))
			}
			desc = "GSI bytes replaced"
		case 2:
			for k := 0; k < 1+r.intn(3); k++ {
				off := []int{3, 11, 12, 13, 224, 230, 236, 238, 243, 248, 251, 253, 255, 256, 264, 272, 273}[r.intn(17)] + r.intn(2)
				data[off] = []byte{' ', '0', '9', '-', '+', 'x', 0xa0, 0x85, '1'}[r.intn(9)]
			}
			desc = "GSI numeric/date/timecode characters replaced"
		case 3:
			if len(data) > 1024 {
				for k := 0; k < 1+r.intn(8); k++ {
					off := 1024 + r.intn(len(data)-1024)
					data[off] = byte(r.intn(256))
				}
			}
			desc = "TTI bytes replaced"
		default:
			if len(data) > 1024 {
				for k := 0; k < 1+r.intn(6); k++ {
					off := 1024 + 128*r.intn((len(data)-1024)/128) + 16 + r.intn(112)
					data[off] = []byte{0x0a, 0x0b, 0x00, 0x07, 0x0c, 0x0d, 0x0e, 0x0f, 0x80, 0x85, 0x8a, 0xc1, 0xcf, 0xc9, 0xa8, 0x1f, 0x20}[r.intn(17)]
				}
			}
			desc = "control/style codes spliced into text fields"
		}
		o := stlReadObs(data, nil, r.chance(1, 2), "stl.read.mutated", map[string]interface{}{"mutation": desc})
		o.NT = len(data) >= 1024
		R.count("stl.mutation." + strings.Fields(desc)[0])
		R.add(o)
	}

	// 5. writer
	for c := 0; c < N; c++ {
		mode := c % 3 // 0 metadata present, 1 absent, 2 inherited from another format
		human := map[string]interface{}{}
		var s *astisub.Subtitles
		x := &stlWExpect{fps: 25, dsc: "1", checkVP: true}
		switch mode {
		case 0, 1:
			f := randSTLFile(r, 0, false, false)
			if mode == 0 {
				x.fps, x.dsc = f.FPS, string(f.DSC)
			}
			x.cues = randSTLWCues(r, r.intn(6), x.fps, x.dsc != "0", c%5 != 0, c%7 == 0, c%2 == 0)
			s = stlSubsFromWCues(r, x.cues)
			if mode == 0 {
				s.Metadata = randSTLMetadata(r, f)
				x.md = s.Metadata
				human["metadata"] = "present"
			} else {
				s.Metadata = nil
				human["metadata"] = "absent"
			}
		default:
			var cues []srtCue
			n := 1 + r.intn(4)
			for i := 0; i < n; i++ {
				st := int64(i)*4e9 + r.i64n(1000)*1e6
				cu := srtCue{Start: st, End: st + 1e9 + r.i64n(2000)*1e6}
				for l := 0; l < 1+r.intn(2); l++ {
					cu.Lines = append(cu.Lines, []srtRun{{Text: r.pick("Hello world", "Bonjour", "a b c", "Zwei Worte", "x")}})
				}
				cues = append(cues, cu)
			}
			var from string
			var err error
			s, from, err = stlForeignSubs(r, c/3, cues)
			if err != nil {
				fatal("harness: foreign source %s: %v", from, err)
			}
			human["metadata"] = "inherited from " + from
			R.count("stl.write.inherited." + from)
			for _, cu := range cues {
				w := stlWCue{Start: cu.Start, End: cu.End}
				for _, l := range cu.Lines {
					w.Rows = append(w.Rows, []stlRun{{Text: l[0].Text}})
				}
				x.cues = append(x.cues, w)
			}
			if s.Metadata != nil && (s.Metadata.Framerate == 25 || s.Metadata.Framerate == 30) {
				x.fps = s.Metadata.Framerate
			}
		}
		human["cues"] = len(x.cues)
		human["fps"] = x.fps
		human["dsc"] = x.dsc
		o := stlWriteObs(s, x, "stl.write", human)
		o.NT = len(x.cues) > 0
		R.count("stl.write.metadata_" + strings.Fields(human["metadata"].(string))[0])
		R.add(o)
		if c%4 == 1 {
			// the same cue list with nil elements in it, through the model of the Go-shaped list
			R.count("stl.write.nil_item")
			R.add(stlWriteNilObs(s, x, "stl.write.nil_item", human, c/4, false))
		}
	}
	// the whole repertoire through the writer, under each display standard
	for _, dsc := range []string{"0", "1", "2"} {
		for _, dollar := range []bool{false, true} {
			rows := stlRepertoireRows(14, dollar)
			x := &stlWExpect{fps: 25, dsc: dsc, checkVP: true}
			for i := 0; i < len(rows); i += 3 {
				j := i + 3
				if j > len(rows) {
					j = len(rows)
				}
				x.cues = append(x.cues, stlWCue{Start: int64(i) * 1e9, End: int64(i)*1e9 + 2e9, Rows: rows[i:j]})
			}
			s := stlSubsFromWCues(r, x.cues)
			s.Metadata = &astisub.Metadata{STLDisplayStandardCode: dsc, Framerate: 25}
			o := stlWriteObs(s, x, "stl.write.repertoire", map[string]interface{}{"dsc": dsc, "with_dollar": dollar, "what": "every table character and every diacritic x letter pair"})
			o.NT = true
			R.add(o)
		}
	}
	// writer outside the oracle's proviso: long text, out-of-range positions, characters outside the repertoire, odd metadata
	for c := 0; c < N/2; c++ {
		cues := randSTLWCues(r, 1+r.intn(3), 25, false, true, true, false)
		for i := range cues {
			switch r.intn(5) {
			case 0:
				vp := r.intn(400) - 100
				cues[i].VP = &vp
			case 1:
				cues[i].Rows[0][0].Text += strings.Repeat(r.pick("x", "é", "Ω", "½"), 60+r.intn(80))
			case 2:
				cues[i].Rows[0][0].Text += r.pick("€", "ж", "中", "😀", "́", "̧́", "ȩ́", "¨", "ǖ", "Ǻ", "ﬁ", "\xff", "\n", "\u008a")
			case 3:
				j := astisub.Justification(r.intn(7))
				cues[i].J = &j
			}
		}
		s := stlSubsFromWCues(r, cues)
		if r.chance(2, 3) {
			f := randSTLFile(r, 0, false, false)
			s.Metadata = randSTLMetadata(r, f)
			switch r.intn(5) {
			case 0:
				s.Metadata.Framerate = []int{0, 24, 50, -1, 29}[r.intn(5)]
			case 1:
				s.Metadata.STLDisplayStandardCode = r.pick("", "3", "10", " ")
			case 2:
				s.Metadata.STLRevisionNumber = r.intn(2000) - 500
				s.Metadata.STLMaximumNumberOfDisplayableRows = ip(r.intn(300) - 50)
			case 3:
				s.Metadata.Title = strings.Repeat("T", 40)
				s.Metadata.STLCountryOfOrigin = "FRANCE"
				s.Metadata.Language = r.pick("english", "klingon", "")
			}
		}
		o := stlWriteObs(s, nil, "stl.write.edge", map[string]interface{}{"what": "outside the round-trip proviso: model correspondence and panic oracle only"})
		o.NT = true
		R.add(o)
		if c%4 == 1 {
			R.count("stl.write.nil_item")
			R.add(stlWriteNilObs(s, nil, "stl.write.nil_item", map[string]interface{}{"what": "edge cases with nil elements"}, c/4, c%8 == 5))
		}
	}
	// nothing to write
	{
		s := astisub.NewSubtitles()
		o := stlWriteObs(s, &stlWExpect{}, "stl.write.edge", map[string]interface{}{"what": "no subtitles"})
		R.add(o)
	}

	suiteStlFields(R, r, N)
	suiteStlNeeds(R, r)
	suiteStlOutside(R, r)
}

// read a generated file, write it again, decode: every timecode of a subtitle block is unchanged
func stlRewriteObs(data []byte, f *stlFile, ignore bool) *obs {
	o := &obs{Suite: "stlrewrite", Group: "stl.rewrite", NoModel: true, NT: f.TNS > 0,
		Input: (&enc{}).bool(ignore).bytes(data).String(),
		Human: map[string]interface{}{"file_hex": hexShort(data), "fps": f.FPS, "programme_start": f.TCP.String(), "ignore_programme_start": ignore}}
	var s *astisub.Subtitles
	var err error
	var out bytes.Buffer
	p := safely(func() {
		s, err = astisub.ReadFromSTL(bytes.NewReader(data), astisub.STLOptions{IgnoreTimecodeStartOfProgramme: ignore})
		if err == nil && len(s.Items) > 0 {
			err = s.WriteToSTL(&out)
		}
	})
	if p != "" {
		o.Impl, o.Oracle, o.Sig = "2", "read then write panicked: "+p, "stl-rewrite-panic"
		return o
	}
	if err != nil {
		o.Impl, o.Oracle, o.Sig = "1", "read then write fails: "+err.Error(), "stl-rewrite-fails"
		return o
	}
	o.Impl = "0"
	if len(s.Items) == 0 {
		return o
	}
	d, err := decodeSTL(out.Bytes())
	if err != nil {
		o.Oracle, o.Sig = "independent decoder on the rewritten file: "+err.Error(), "stl-rewrite-undecodable"
		return o
	}
	if d.FPS != f.FPS {
		o.Oracle, o.Sig = fmt.Sprintf("rewritten file has frame rate %d, source %d", d.FPS, f.FPS), "stl-rewrite-fps"
		return o
	}
	i := 0
	for _, c := range f.Blocks {
		if c.UserData {
			continue
		}
		if i >= len(d.Blocks) {
			o.Oracle, o.Sig = "rewritten file has fewer blocks", "stl-rewrite-count"
			return o
		}
		b := d.Blocks[i]
		if b.In != c.In || b.Out != c.Out {
			o.Oracle = fmt.Sprintf("cue %d: timecodes %v-%v in the source file, %v-%v after read and write (%d fps, programme start %v, ignore=%v)", i+1, c.In, c.Out, b.In, b.Out, f.FPS, f.TCP, ignore)
			o.Sig = "stl-rewrite-time"
			return o
		}
		i++
	}
	return o
}

func suiteStlTimecodes(R *runner, thorough bool) {
	hours := []int{0, 1, 9, 10, 23}
	if thorough {
		hours = nil
		for h := 0; h < 24; h++ {
			hours = append(hours, h)
		}
	}
	n := 0
	for _, fps := range []int{25, 30} {
		for _, h := range hours {
			for m := 0; m < 60; m++ {
				for s := 0; s < 60; s++ {
					for f := 0; f < fps; f++ {
						n++
						tc := stlTC{h, m, s, f}
						b := []byte{byte(h), byte(m), byte(s), byte(f)}
						d := astisub.VerifParseDurationSTLBytes(b, fps)
						back := astisub.VerifFormatDurationSTLBytes(d, fps)
						bad := ""
						if absI64(int64(d)*int64(fps)-tc.scaled(fps)) >= int64(fps) {
							bad = fmt.Sprintf("timecode %v at %d fps read as %d ns", tc, fps, int64(d))
						} else if !bytes.Equal(back, b) {
							bad = fmt.Sprintf("timecode %v at %d fps read as %d ns and written back as %v", tc, fps, int64(d), back)
						}
						if bad != "" {
							e := &enc{}
							e.bytes(b).n(fps)
							R.add(&obs{Suite: "stltimecode", Group: "stl.timecodes", NoModel: true, Input: e.String(), Impl: fmt.Sprint(int64(d)), Oracle: bad, Sig: "stl-timecode", NT: true,
								Human: map[string]interface{}{"timecode": tc.String(), "fps": fps}})
						}
					}
				}
			}
		}
	}
	R.bulk("stl.timecodes", n, n)
	if thorough {
		R.exhaustive("stl.timecodes")
	}
}
