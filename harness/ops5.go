package main

// C13 Optimize on heaps with ALIASED definition objects (second audit, N13): a cue, a run, a region or a style may point
// to a Style object that is not the one stored in the map under that identifier (same ID, its own parent link).  The
// operation models encode a reference by the identifier of its target, so this family has no model evaluation; it is
// judged by the property's own oracle only: after Optimize every reference left in the list - from a cue, a run, a used
// region, and the parent link of every style that is kept or pointed to - resolves to a definition with that identifier.

import (
	"fmt"

	astisub "github.com/asticode/go-astisub"
)

func suiteOptimizeAlias(R *runner, r *rng) {
	R.rule("optimize.alias: reference graphs as in optimize, then 1..3 pointers (cue->style, run->style, region->style, style->parent) redirected to a copy of their target (same identifier, not stored in the map) whose own parent link is redrawn among the stored styles; no model evaluation (the models identify a reference with an identifier); oracle: every reference left resolves by identifier, cues untouched, definitions only deleted; non-trivial = a definition is deleted")
	N := 3000
	if R.tier == "thorough" {
		N = 40000
	}
	for c := 0; c < N; c++ {
		ns := 2 + r.intn(5)
		s := randGraph(r, ns, r.intn(4), 1+r.intn(5), false)
		stored := make([]*astisub.Style, 0, ns)
		for _, k := range keysOfS(s.Styles) {
			stored = append(stored, s.Styles[k])
		}
		alias := func(t *astisub.Style) *astisub.Style {
			cp := *t
			cp.Style = nil
			if r.chance(2, 3) {
				cp.Style = stored[r.intn(len(stored))]
			}
			return &cp
		}
		// collect the pointer slots
		var slots []**astisub.Style
		for _, it := range s.Items {
			if it.Style != nil {
				slots = append(slots, &it.Style)
			}
			for li := range it.Lines {
				for k := range it.Lines[li].Items {
					if it.Lines[li].Items[k].Style != nil {
						slots = append(slots, &it.Lines[li].Items[k].Style)
					}
				}
			}
		}
		for _, k := range keysOf(s.Regions) {
			if s.Regions[k].Style != nil {
				slots = append(slots, &s.Regions[k].Style)
			}
		}
		for _, st := range stored {
			if st.Style != nil {
				slots = append(slots, &st.Style)
			}
		}
		if len(slots) == 0 {
			continue
		}
		na := 1 + r.intn(3)
		var redirected []string
		for i := 0; i < na; i++ {
			sl := slots[r.intn(len(slots))]
			a := alias(*sl)
			d := "copy of " + a.ID
			if a.Style != nil {
				d += " with parent " + a.Style.ID
			}
			redirected = append(redirected, d)
			*sl = a
		}
		before := snapItems(s.Items)
		origR, origS := keysOf(s.Regions), keysOfS(s.Styles)
		h := map[string]interface{}{"styles": describeStyles(s), "regions": describeRegions(s), "cues": describeRefs(s), "aliases": redirected}
		o := &obs{Suite: "optimize", Group: "optimize.alias", NoModel: true, Input: fmt.Sprintf("alias %d %v %v %v %v", c, describeStyles(s), describeRegions(s), describeRefs(s), redirected), Human: h}
		p := safely(func() { s.Optimize() })
		if p != "" {
			o.Impl, o.Oracle, o.Sig = "PANIC", "Optimize panicked: "+p, "optimize-panic"
			R.add(o)
			continue
		}
		o.Impl = fmt.Sprint(keysOfS(s.Styles), keysOf(s.Regions))
		defined := map[string]bool{}
		for _, st := range s.Styles {
			defined[st.ID] = true
		}
		definedR := map[string]bool{}
		for _, rg := range s.Regions {
			definedR[rg.ID] = true
		}
		chk := func(from string, st *astisub.Style) {
			for n := 0; st != nil && n < 20; n++ {
				if !defined[st.ID] && o.Oracle == "" {
					o.Oracle, o.Sig = fmt.Sprintf("reference to style %s (from %s) is left in the list but no definition with that identifier remains", st.ID, from), "optimize-alias-dangling-style"
				}
				from = "the parent link of style " + st.ID
				st = st.Style
			}
		}
		for i, it := range s.Items {
			chk(fmt.Sprintf("cue %d", i), it.Style)
			if it.Region != nil {
				if !definedR[it.Region.ID] && o.Oracle == "" {
					o.Oracle = "reference to region " + it.Region.ID + " no longer resolves"
				}
				chk("region "+it.Region.ID, it.Region.Style)
			}
			for _, l := range it.Lines {
				for _, li := range l.Items {
					chk(fmt.Sprintf("a run of cue %d", i), li.Style)
				}
			}
		}
		for _, k := range keysOfS(s.Styles) {
			chk("the stored style "+s.Styles[k].ID, s.Styles[k].Style)
		}
		for _, k := range keysOf(s.Regions) {
			chk("the stored region "+s.Regions[k].ID, s.Regions[k].Style)
		}
		after := snapItems(s.Items)
		if len(after) != len(before) {
			o.Oracle = "cue count changed"
		}
		for i := range before {
			if i < len(after) && before[i] != after[i] {
				o.Oracle = "a cue was modified"
			}
		}
		if len(s.Styles) > len(origS) || len(s.Regions) > len(origR) {
			o.Oracle = "definitions were added"
		}
		o.NT = len(s.Styles) < len(origS) || len(s.Regions) < len(origR)
		R.add(o)
	}
}
