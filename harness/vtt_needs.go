package main

// C02, reading half for all renderings (coq/Proofs/VttRead*.v, C02_read_rendered): the worked instance of the theorem
// (every rendering freedom at once) and the documents of the computed counter-examples C02_read_rendered_needs_* are
// replayed on the library: model vs implementation on each (suite vttreadm), and for the worked instance the reader's
// result against what the document denotes (oracle).  The byte strings are the ones Coq computes
// (render_eol [10] (render_vtt ...)); they are also fed with CR LF and CR line ends.

import (
	"fmt"
	"strings"

	astisub "github.com/asticode/go-astisub"
)

var vttNeedsDocs = []struct{ name, doc string }{
	{"vttNeedWorked", "\xef\xbb\xbfWEBVTT - some title\nX-TIMESTAMP-MAP=LOCAL:00:00:05.000,MPEGTS:900000\nSTYLE\n::cue {\ncolor: red }\n  \n\nRegion: id=fred lines=3 regionanchor=0%,100% scroll=up viewportanchor=10%,90% width=40%\nRegion: id=bill\nNOTE a comment\nmore\n\t\ncue-1\n00:01.000\t-->0000:00:02.500 vertical:rl\t region:fred\talign:start  align:end\n<v Bob><c.red.big>Hello </c><00:00:01.500>world\nsecond\n\n \n42\n1:02:03.004 --> 123:00:00.500\nsecond\n\n00:05.000  -->\t00:06.000\tsize:50%\n\n\t\n"},
	{"vttNeedGap", "\xef\xbb\xbfWEBVTT - some title\nX-TIMESTAMP-MAP=LOCAL:00:00:05.000,MPEGTS:900000\nSTYLE\n::cue {\ncolor: red }\n  \n\nRegion: id=fred lines=3 regionanchor=0%,100% scroll=up viewportanchor=10%,90% width=40%\nRegion: id=bill\nNOTE a comment\nmore\n\t\ncue-1\n00:01.000\t-->0000:00:02.500 vertical:rl\t region:fred\talign:start  align:end\n<v Bob><c.red.big>Hello </c><00:00:01.500>world\nsecond\n42\n1:02:03.004 --> 123:00:00.500\nsecond\n"},
	{"vttNeedNoteBlank", "\xef\xbb\xbfWEBVTT - some title\nX-TIMESTAMP-MAP=LOCAL:00:00:05.000,MPEGTS:900000\nSTYLE\n::cue {\ncolor: red }\n  \n\nRegion: id=fred lines=3 regionanchor=0%,100% scroll=up viewportanchor=10%,90% width=40%\nRegion: id=bill\nNOTE note\n42\n0:00:01.000 --> 0:00:02.000\nsecond\n"},
	{"vttNeedHours", "\xef\xbb\xbfWEBVTT - some title\nX-TIMESTAMP-MAP=LOCAL:00:00:05.000,MPEGTS:900000\nSTYLE\n::cue {\ncolor: red }\n  \n\nRegion: id=fred lines=3 regionanchor=0%,100% scroll=up viewportanchor=10%,90% width=40%\nRegion: id=bill\n02:03.004 --> 02:04.000\n"},
	{"vttNeedStyleBrace", "\xef\xbb\xbfWEBVTT - some title\nSTYLE\n::cue { color: red\n  \n\n\n \n42\n1:02:03.004 --> 123:00:00.500\nsecond\n"},
	{"vttNeedDupRegion", "\xef\xbb\xbfWEBVTT - some title\nRegion: id=bill\nRegion: id=bill\n\n \n42\n1:02:03.004 --> 123:00:00.500\nsecond\n"},
	{"vttNeedRegionUndefined", "\xef\xbb\xbfWEBVTT - some title\nNOTE a comment\nmore\n\t\ncue-1\n00:01.000\t-->0000:00:02.500 vertical:rl\t region:fred\talign:start  align:end\n<v Bob><c.red.big>Hello </c><00:00:01.500>world\nsecond\n"},
	// C02_write_rendering_empty_region_id: a setting word with nothing after the colon (the canonical rendering of a cue
	// that refers to the region whose identifier is empty), and an empty align value
	{"vttEmptyRegionId", "WEBVTT\n\nRegion: id=\n\n1\n00:00:00.000 --> 00:00:01.000 region:\nsecond\n"},
	{"vttEmptySettingValue", "WEBVTT\n\n1\n00:00:00.000 --> 00:00:01.000 align: size:50%\nsecond\n"},
}

func suiteVttNeeds(R *runner, r *rng) {
	R.rule("vtt.needs: the worked instance of C02_read_rendered and the six documents of the C02_read_rendered_needs_* counter-examples, the document of C02_write_rendering_empty_region_id and one with an empty setting value, each with LF / CR LF / CR: extracted reader model vs ReadFromWebVTT; worked instance: reader vs denotation (identifiers 0 / 42 / 0, times to the ms incl. 123 h, comments, region fred, vertical rl, align end (repeated key: last wins), size 50%, line counts 2 / 1 / 0)")
	for _, d := range vttNeedsDocs {
		for _, eol := range []string{"\n", "\r\n", "\r"} {
			doc := strings.ReplaceAll(d.doc, "\n", eol)
			R.count("vtt.needs." + d.name)
			o := vttReadObs(doc, "vtt.needs", map[string]interface{}{"name": d.name, "document": doc})
			o.NT = true
			if d.name == "vttNeedWorked" && o.Oracle == "" {
				if m := vttWorkedDenotes(doc); m != "" {
					o.Oracle, o.Sig = "worked instance of C02_read_rendered: "+m, "vtt-read-rendered-worked"
				}
			}
			R.add(o)
		}
	}
}

func vttWorkedDenotes(doc string) string {
	s, err := astisub.ReadFromWebVTT(strings.NewReader(doc))
	if err != nil {
		return "reader rejects the document: " + err.Error()
	}
	if len(s.Items) != 3 {
		return fmt.Sprintf("%d cues, want 3", len(s.Items))
	}
	want := []struct {
		idx      int
		st, en   int64
		comments string
		region   string
		vertical string
		align    string
		size     string
		lines    int
	}{
		{0, 1000000000, 2500000000, "a comment|more", "fred", "rl", "end", "", 2},
		{42, 3723004000000, 442800500000000, "", "", "", "", "", 1},
		{0, 5000000000, 6000000000, "", "", "", "", "50%", 0},
	}
	for i, w := range want {
		it := s.Items[i]
		if it.Index != w.idx || int64(it.StartAt) != w.st || int64(it.EndAt) != w.en || strings.Join(it.Comments, "|") != w.comments || len(it.Lines) != w.lines {
			return fmt.Sprintf("cue %d: index %d [%d,%d) comments %q lines %d, want index %d [%d,%d) comments %q lines %d", i+1, it.Index, it.StartAt, it.EndAt, it.Comments, len(it.Lines), w.idx, w.st, w.en, w.comments, w.lines)
		}
		reg := ""
		if it.Region != nil {
			reg = it.Region.ID
		}
		if reg != w.region {
			return fmt.Sprintf("cue %d: region %q, want %q", i+1, reg, w.region)
		}
		if it.InlineStyle == nil {
			return fmt.Sprintf("cue %d: no inline style", i+1)
		}
		if it.InlineStyle.WebVTTVertical != w.vertical || it.InlineStyle.WebVTTAlign != w.align || it.InlineStyle.WebVTTSize != w.size {
			return fmt.Sprintf("cue %d: vertical %q align %q size %q, want %q %q %q", i+1, it.InlineStyle.WebVTTVertical, it.InlineStyle.WebVTTAlign, it.InlineStyle.WebVTTSize, w.vertical, w.align, w.size)
		}
	}
	if s.Metadata == nil || s.Metadata.WebVTTTimestampMap == nil || int64(s.Metadata.WebVTTTimestampMap.Local) != 5000000000 || s.Metadata.WebVTTTimestampMap.MpegTS != 900000 {
		return "timestamp map differs"
	}
	if len(s.Regions) != 2 {
		return fmt.Sprintf("%d regions, want 2", len(s.Regions))
	}
	return ""
}
