package main

// C03 (TTML): ground-truth model, generator, renderer with the syntactic freedoms of the property's
// quantifier, projection of the library's values, comparison against the ground truth.

import (
	"fmt"
	"math/big"
	"sort"
	"strconv"
	"strings"
	"time"
	"unicode/utf8"

	astisub "github.com/asticode/go-astisub"
)

// ---------- projected values (what the property talks about) ----------

var ttAttrNames = []string{"backgroundColor", "color", "direction", "display", "displayAlign", "extent", "fontFamily",
	"fontSize", "fontStyle", "fontWeight", "lineHeight", "opacity", "origin", "overflow", "padding", "showBackground",
	"textAlign", "textDecoration", "textOutline", "unicodeBidi", "visibility", "wrapOption", "writingMode"}

const ttNA = 23

type tvAttrs struct {
	S [ttNA]*string
	Z *int
}
type tvRun struct {
	Text  string
	Style *string
	A     tvAttrs
}
type tvItem struct {
	St, En        int64
	Region, Style *string
	A             tvAttrs
	Lines         [][]tvRun
}
type tvStyle struct {
	Key, ID string
	Ref     *string // parent style (styles) / style (regions)
	A       tvAttrs
}
type tvDoc struct {
	HasMeta                bool
	Framerate              int
	Title, Copyright, Lang string
	Styles, Regions        []tvStyle // sorted by key
	Items                  []tvItem
}

func attrsOfSA(sa *astisub.StyleAttributes) (a tvAttrs) {
	if sa == nil {
		return
	}
	a.S = [ttNA]*string{sa.TTMLBackgroundColor, sa.TTMLColor, sa.TTMLDirection, sa.TTMLDisplay, sa.TTMLDisplayAlign, sa.TTMLExtent,
		sa.TTMLFontFamily, sa.TTMLFontSize, sa.TTMLFontStyle, sa.TTMLFontWeight, sa.TTMLLineHeight, sa.TTMLOpacity, sa.TTMLOrigin,
		sa.TTMLOverflow, sa.TTMLPadding, sa.TTMLShowBackground, sa.TTMLTextAlign, sa.TTMLTextDecoration, sa.TTMLTextOutline,
		sa.TTMLUnicodeBidi, sa.TTMLVisibility, sa.TTMLWrapOption, sa.TTMLWritingMode}
	a.Z = sa.TTMLZIndex
	return
}

func saOfAttrs(a tvAttrs) *astisub.StyleAttributes {
	cp := func(p *string) *string {
		if p == nil {
			return nil
		}
		v := *p
		return &v
	}
	sa := &astisub.StyleAttributes{TTMLBackgroundColor: cp(a.S[0]), TTMLColor: cp(a.S[1]), TTMLDirection: cp(a.S[2]), TTMLDisplay: cp(a.S[3]),
		TTMLDisplayAlign: cp(a.S[4]), TTMLExtent: cp(a.S[5]), TTMLFontFamily: cp(a.S[6]), TTMLFontSize: cp(a.S[7]), TTMLFontStyle: cp(a.S[8]),
		TTMLFontWeight: cp(a.S[9]), TTMLLineHeight: cp(a.S[10]), TTMLOpacity: cp(a.S[11]), TTMLOrigin: cp(a.S[12]), TTMLOverflow: cp(a.S[13]),
		TTMLPadding: cp(a.S[14]), TTMLShowBackground: cp(a.S[15]), TTMLTextAlign: cp(a.S[16]), TTMLTextDecoration: cp(a.S[17]),
		TTMLTextOutline: cp(a.S[18]), TTMLUnicodeBidi: cp(a.S[19]), TTMLVisibility: cp(a.S[20]), TTMLWrapOption: cp(a.S[21]), TTMLWritingMode: cp(a.S[22])}
	if a.Z != nil {
		z := *a.Z
		sa.TTMLZIndex = &z
	}
	return sa
}

func (a tvAttrs) empty() bool {
	for _, p := range a.S {
		if p != nil {
			return false
		}
	}
	return a.Z == nil
}

// projection of a Subtitles value; problems = pointer-identity violations (a reference that is not the
// map's entry for its identifier)
func projectSubs(s *astisub.Subtitles) (d tvDoc, problems []string) {
	if s.Metadata != nil {
		d.HasMeta = true
		d.Framerate, d.Title, d.Copyright, d.Lang = s.Metadata.Framerate, s.Metadata.Title, s.Metadata.TTMLCopyright, s.Metadata.Language
	}
	styleRef := func(p *astisub.Style, who string) *string {
		if p == nil {
			return nil
		}
		if q, ok := s.Styles[p.ID]; !ok || q != p {
			problems = append(problems, who+" refers to a style that is not the document's style "+strconv.Quote(p.ID))
		}
		id := p.ID
		return &id
	}
	for k, st := range s.Styles {
		if st == nil {
			continue
		}
		d.Styles = append(d.Styles, tvStyle{Key: k, ID: st.ID, Ref: styleRef(st.Style, "style "+k), A: attrsOfSA(st.InlineStyle)})
	}
	sort.Slice(d.Styles, func(i, j int) bool { return d.Styles[i].Key < d.Styles[j].Key })
	for k, rg := range s.Regions {
		if rg == nil {
			continue
		}
		d.Regions = append(d.Regions, tvStyle{Key: k, ID: rg.ID, Ref: styleRef(rg.Style, "region "+k), A: attrsOfSA(rg.InlineStyle)})
	}
	sort.Slice(d.Regions, func(i, j int) bool { return d.Regions[i].Key < d.Regions[j].Key })
	for i, it := range s.Items {
		v := tvItem{St: int64(it.StartAt), En: int64(it.EndAt), A: attrsOfSA(it.InlineStyle), Style: styleRef(it.Style, fmt.Sprintf("item %d", i))}
		if it.Region != nil {
			if q, ok := s.Regions[it.Region.ID]; !ok || q != it.Region {
				problems = append(problems, fmt.Sprintf("item %d refers to a region that is not the document's region %q", i, it.Region.ID))
			}
			id := it.Region.ID
			v.Region = &id
		}
		for _, l := range it.Lines {
			runs := []tvRun{}
			for _, li := range l.Items {
				runs = append(runs, tvRun{Text: li.Text, Style: styleRef(li.Style, fmt.Sprintf("a run of item %d", i)), A: attrsOfSA(li.InlineStyle)})
			}
			v.Lines = append(v.Lines, runs)
		}
		d.Items = append(d.Items, v)
	}
	return
}

func (e *enc) ostr(p *string) *enc {
	if p == nil {
		return e.n(0)
	}
	return e.n(1).str(*p)
}
func (e *enc) tattrs(a tvAttrs) *enc {
	for _, p := range a.S {
		e.ostr(p)
	}
	if a.Z == nil {
		return e.n(0)
	}
	return e.n(1).i(int64(*a.Z))
}
func (e *enc) tstyles(l []tvStyle) *enc {
	e.n(len(l))
	for _, s := range l {
		e.str(s.Key).str(s.ID).ostr(s.Ref).tattrs(s.A)
	}
	return e
}
func (e *enc) tdoc(d tvDoc) *enc {
	e.bool(d.HasMeta).i(int64(d.Framerate)).str(d.Title).str(d.Copyright).str(d.Lang)
	e.tstyles(d.Styles).tstyles(d.Regions)
	e.n(len(d.Items))
	for _, it := range d.Items {
		e.i(it.St).i(it.En).ostr(it.Region).ostr(it.Style).tattrs(it.A)
		e.n(len(it.Lines))
		for _, l := range it.Lines {
			e.n(len(l))
			for _, r := range l {
				e.str(r.Text).ostr(r.Style).tattrs(r.A)
			}
		}
	}
	return e
}

func eqOStr(a, b *string) bool {
	if a == nil || b == nil {
		return a == nil && b == nil
	}
	return *a == *b
}
func showOStr(a *string) string {
	if a == nil {
		return "none"
	}
	return strconv.Quote(*a)
}
func diffAttrs(a, b tvAttrs) string {
	for i := range a.S {
		if !eqOStr(a.S[i], b.S[i]) {
			return fmt.Sprintf("attribute %s: got %s, want %s", ttAttrNames[i], showOStr(a.S[i]), showOStr(b.S[i]))
		}
	}
	if (a.Z == nil) != (b.Z == nil) || (a.Z != nil && *a.Z != *b.Z) {
		return "attribute zIndex differs"
	}
	return ""
}
func diffStyles(kind string, got, want []tvStyle) string {
	if len(got) != len(want) {
		return fmt.Sprintf("%d %ss, want %d", len(got), kind, len(want))
	}
	for i := range got {
		g, w := got[i], want[i]
		if g.Key != w.Key || g.ID != w.ID {
			return fmt.Sprintf("%s %d: key/id %q/%q, want %q/%q", kind, i, g.Key, g.ID, w.Key, w.ID)
		}
		if !eqOStr(g.Ref, w.Ref) {
			if kind == "style" {
				return fmt.Sprintf("style %q: parent %s, want %s", g.ID, showOStr(g.Ref), showOStr(w.Ref))
			}
			return fmt.Sprintf("region %q: style %s, want %s", g.ID, showOStr(g.Ref), showOStr(w.Ref))
		}
		if m := diffAttrs(g.A, w.A); m != "" {
			return fmt.Sprintf("%s %q: %s", kind, g.ID, m)
		}
	}
	return ""
}

// diffDocs compares everything except the cue times (which have their own tolerance); "" = equal
func diffDocs(got, want tvDoc, withFramerate bool) (string, string) {
	if got.HasMeta != want.HasMeta {
		return "metadata presence differs", "meta"
	}
	if got.Title != want.Title {
		return fmt.Sprintf("title %q, want %q", got.Title, want.Title), "meta"
	}
	if got.Copyright != want.Copyright {
		return fmt.Sprintf("copyright %q, want %q", got.Copyright, want.Copyright), "meta"
	}
	if got.Lang != want.Lang {
		return fmt.Sprintf("language %q, want %q", got.Lang, want.Lang), "lang"
	}
	if withFramerate && got.Framerate != want.Framerate {
		return fmt.Sprintf("frame rate %d, want %d", got.Framerate, want.Framerate), "meta"
	}
	if m := diffStyles("style", got.Styles, want.Styles); m != "" {
		if strings.Contains(m, "parent") {
			return m, "parent"
		}
		return m, "styles"
	}
	if m := diffStyles("region", got.Regions, want.Regions); m != "" {
		return m, "regions"
	}
	if len(got.Items) != len(want.Items) {
		return fmt.Sprintf("%d cues, want %d", len(got.Items), len(want.Items)), "cues"
	}
	for i := range got.Items {
		g, w := got.Items[i], want.Items[i]
		if !eqOStr(g.Region, w.Region) {
			return fmt.Sprintf("cue %d: region %s, want %s", i, showOStr(g.Region), showOStr(w.Region)), "refs"
		}
		if !eqOStr(g.Style, w.Style) {
			return fmt.Sprintf("cue %d: style %s, want %s", i, showOStr(g.Style), showOStr(w.Style)), "refs"
		}
		if m := diffAttrs(g.A, w.A); m != "" {
			return fmt.Sprintf("cue %d: %s", i, m), "attrs"
		}
		if len(g.Lines) != len(w.Lines) {
			return fmt.Sprintf("cue %d: %d lines, want %d (%s vs %s)", i, len(g.Lines), len(w.Lines), showLines(g.Lines), showLines(w.Lines)), "lines"
		}
		for j := range g.Lines {
			if len(g.Lines[j]) != len(w.Lines[j]) {
				return fmt.Sprintf("cue %d line %d: %d runs, want %d (%s vs %s)", i, j, len(g.Lines[j]), len(w.Lines[j]), showLines(g.Lines), showLines(w.Lines)), "lines"
			}
			for k := range g.Lines[j] {
				gr, wr := g.Lines[j][k], w.Lines[j][k]
				if gr.Text != wr.Text {
					return fmt.Sprintf("cue %d line %d run %d: text %q, want %q", i, j, k, gr.Text, wr.Text), "text"
				}
				if !eqOStr(gr.Style, wr.Style) {
					return fmt.Sprintf("cue %d line %d run %d: style %s, want %s", i, j, k, showOStr(gr.Style), showOStr(wr.Style)), "refs"
				}
				if m := diffAttrs(gr.A, wr.A); m != "" {
					return fmt.Sprintf("cue %d line %d run %d: %s", i, j, k, m), "attrs"
				}
			}
		}
	}
	return "", ""
}

func showLines(ls [][]tvRun) string {
	var b strings.Builder
	for i, l := range ls {
		if i > 0 {
			b.WriteString(" / ")
		}
		for k, r := range l {
			if k > 0 {
				b.WriteString("|")
			}
			b.WriteString(strconv.Quote(r.Text))
		}
	}
	return "[" + b.String() + "]"
}

// ---------- time expressions: text + the exact instant it means (rational nanoseconds) ----------

type ttTime struct {
	Expr  string
	Exact *big.Rat
	Kind  string
}

func ratI(v int64) *big.Rat { return new(big.Rat).SetInt64(v) }

// checkInstant: the tolerance the property text implies: the result is the denoted instant when that is
// a whole number of nanoseconds (the library's unit), otherwise one of the two neighbouring nanoseconds.
func checkInstant(got int64, exact *big.Rat) bool {
	if exact.IsInt() {
		return exact.Num().IsInt64() && exact.Num().Int64() == got
	}
	d := new(big.Rat).Sub(ratI(got), exact)
	return d.Abs(d).Cmp(ratI(1)) < 0
}

func clockHMS(ms int64) (h, m, s, f int64) {
	return ms / 3600000, ms / 60000 % 60, ms / 1000 % 60, ms % 1000
}

func decStr(num int64, decimals int, trim bool) string {
	// num / 10^decimals as a decimal string
	s := strconv.FormatInt(num, 10)
	for len(s) <= decimals {
		s = "0" + s
	}
	ip, fp := s[:len(s)-decimals], s[len(s)-decimals:]
	if trim {
		fp = strings.TrimRight(fp, "0")
	}
	if fp == "" {
		return ip
	}
	return ip + "." + fp
}

// exprForMs renders the instant ms (whole milliseconds) in one of the equivalent syntaxes available for it
func exprForMs(r *rng, ms int64, fr, tr int) ttTime {
	exact := ratI(ms * 1e6)
	h, m, s, f := clockHMS(ms)
	hh := fmt.Sprintf("%02d", h)
	if r.chance(1, 8) && h < 10 {
		hh = fmt.Sprintf("%03d", h)
	}
	for tries := 0; tries < 20; tries++ {
		switch r.intn(11) {
		case 0:
			return ttTime{fmt.Sprintf("%s:%02d:%02d.%03d", hh, m, s, f), exact, "clock.3"}
		case 1:
			if f%10 == 0 {
				return ttTime{fmt.Sprintf("%s:%02d:%02d.%02d", hh, m, s, f/10), exact, "clock.2"}
			}
		case 2:
			if f%100 == 0 {
				return ttTime{fmt.Sprintf("%s:%02d:%02d.%d", hh, m, s, f/100), exact, "clock.1"}
			}
		case 3:
			if f == 0 {
				return ttTime{fmt.Sprintf("%s:%02d:%02d", hh, m, s), exact, "clock.0"}
			}
		case 4:
			if fr > 0 && f*int64(fr)%1000 == 0 {
				return ttTime{fmt.Sprintf("%s:%02d:%02d:%02d", hh, m, s, f*int64(fr)/1000), exact, "clock.frames"}
			}
		case 5:
			return ttTime{decStr(ms, 3, r.chance(2, 3)) + "s", exact, "offset.s"}
		case 6:
			if r.chance(1, 3) {
				return ttTime{decStr(ms*10, 1, false) + "ms", exact, "offset.ms"}
			}
			return ttTime{strconv.FormatInt(ms, 10) + "ms", exact, "offset.ms"}
		case 7:
			// minutes: ms/60000 is a finite decimal iff ms is a multiple of 3 (60000 = 2^5*3*5^4): ms/60000 = (ms/3)/20000 = (ms/3*5)/10^5
			if ms%3 == 0 {
				return ttTime{decStr(ms/3*5, 5, true) + "m", exact, "offset.m"}
			}
		case 8:
			// hours: 3600000 = 2^7*3^2*5^5: ms/3600000 = (ms/9)/400000 = (ms/9*25)/10^7
			if ms%9 == 0 {
				return ttTime{decStr(ms/9*25, 7, true) + "h", exact, "offset.h"}
			}
		case 9:
			if fr > 0 && ms*int64(fr)%1000 == 0 {
				return ttTime{strconv.FormatInt(ms*int64(fr)/1000, 10) + "f", exact, "offset.f"}
			}
			if fr > 0 && ms < 1e12 {
				// a fractional frame count: ms*fr/1000 frames
				return ttTime{decStr(ms*int64(fr), 3, true) + "f", exact, "offset.f.frac"}
			}
		case 10:
			if tr > 0 && ms*int64(tr)%1000 == 0 && ms > 0 {
				return ttTime{strconv.FormatInt(ms*int64(tr)/1000, 10) + "t", exact, "offset.t"}
			}
			if tr > 0 && tr <= 1000 && ms > 0 && ms < 1e12 {
				return ttTime{decStr(ms*int64(tr), 3, true) + "t", exact, "offset.t.frac"}
			}
		}
	}
	return ttTime{fmt.Sprintf("%s:%02d:%02d.%03d", hh, m, s, f), exact, "clock.3"}
}

// exprFrames: an instant on the frame grid of rate fr (sec whole seconds + frames/fr), in clock-with-frames or offset-f syntax
func exprFrames(r *rng, sec, frames int64, fr int) ttTime {
	exact := new(big.Rat).Add(ratI(sec*1e9), new(big.Rat).SetFrac64(frames*1e9, int64(fr)))
	if r.chance(1, 2) && frames < int64(fr) {
		return ttTime{fmt.Sprintf("%02d:%02d:%02d:%02d", sec/3600, sec/60%60, sec%60, frames), exact, "clock.frames"}
	}
	return ttTime{strconv.FormatInt(sec*int64(fr)+frames, 10) + "f", exact, "offset.f"}
}

func exprTicks(ticks int64, tr int) ttTime {
	ex := new(big.Rat).Mul(ratI(ticks), ratI(1e9))
	return ttTime{strconv.FormatInt(ticks, 10) + "t", ex.Quo(ex, ratI(int64(tr))), "offset.t"}
}

// ---------- ground-truth documents ----------

type ttCue struct {
	Begin, End ttTime
	ID         string
	V          tvItem   // times unused
	Merge      [][]bool // Merge[j][0]: line j's first run continues the previous line's last run inside one element
	Anon       [][]bool // run rendered as bare character data
}
type ttDoc struct {
	V            tvDoc
	Cues         []ttCue
	LangAttr     string
	HasLang      bool
	FrameRate    int
	HasFrameRate bool
	TickRate     int
	StyleOrder   []int // document order of V.Styles
	RegionOrder  []int
}

var ttValuePalette = [][]string{
	{"black", "#000000", "transparent", "#00000080", "rgba(0,0,0,128)"}, {"white", "red", "#ffff00", "yellow", "#FFFFFFFF"}, {"ltr", "rtl"}, {"auto", "none"},
	{"before", "center", "after"}, {"80% 10%", "100% 20%", "640px 60px", "auto"}, {"proportionalSansSerif", "Arial, sans-serif", "monospace", "'Courier New'"},
	{"100%", "80%", "16px", "1c"}, {"normal", "italic", "oblique"}, {"normal", "bold"}, {"normal", "125%", "20px"}, {"1.0", "0.5", "0"},
	{"10% 80%", "0% 0%", "auto", "12px 400px"}, {"visible", "hidden"}, {"0px", "1% 2%", "2px 4px 2px 4px"}, {"always", "whenActive"},
	{"left", "center", "right", "start", "end"}, {"none", "underline", "noUnderline lineThrough"}, {"none", "black 1px", "red 1px 2px"},
	{"normal", "embed", "bidiOverride"}, {"visible", "hidden"}, {"wrap", "noWrap"}, {"lrtb", "rltb", "tbrl", "tblr", "lr", "tb"},
}

var ttTextPalette = []string{"a", "b", "e", "Hello", "world", " ", " ", "  ", "&", "<", ">", "\"", "'", "\u00e9", "\u00fc", "\u00df", "\u65e5\u672c", "\u8bed", "\U0001F600", "\u00a0", "-", "...", "1", "x y", "\t", "&amp;", "<br/>", "]]>", "\u2009", "\u3000", "\ufeff", "\u0301"}

func ttRandText(r *rng, maxParts int) string {
	n := r.intn(maxParts + 1)
	var b strings.Builder
	for i := 0; i < n; i++ {
		b.WriteString(ttTextPalette[r.intn(len(ttTextPalette))])
	}
	return b.String()
}

func ttRandAttrValue(r *rng, i int) string {
	if r.chance(1, 12) {
		return r.pick("", " ", "a&b", "x<y", "\"q\"", "it's", "é", "  padded  ", "a>b", "100%")
	}
	p := ttValuePalette[i]
	return p[r.intn(len(p))]
}

func ttRandAttrs(r *rng, density int) (a tvAttrs) {
	if density == 0 {
		return
	}
	n := r.intn(density + 1)
	if r.chance(1, 25) {
		n = ttNA
	}
	for k := 0; k < n; k++ {
		i := r.intn(ttNA)
		v := ttRandAttrValue(r, i)
		a.S[i] = &v
	}
	if r.chance(1, 6) {
		z := r.intn(12) - 3
		a.Z = &z
	}
	return
}

var ttIDPalette = []string{"s", "S", "style", "st_", "r", "region", "bottom", "top", "é", "a.b", "a-b", "x y", "id&", "1"}

func ttFreshID(r *rng, used map[string]bool) string {
	for {
		id := ttIDPalette[r.intn(len(ttIDPalette))]
		if r.chance(3, 4) {
			id += strconv.Itoa(r.intn(30))
		}
		if !used[id] {
			used[id] = true
			return id
		}
	}
}

// XML white space (production S): the only characters that can be indentation
const xmlSpace = " \t\r\n"

func startsWithSpace(s string) bool {
	return s != "" && strings.TrimLeft(s, xmlSpace) != s
}
func isUniSpace(c rune) bool {
	switch c {
	case ' ', '\t', '\n', '\v', '\f', '\r', 0x85, 0xA0, 0x1680, 0x2028, 0x2029, 0x202f, 0x205f, 0x3000:
		return true
	}
	return c >= 0x2000 && c <= 0x200a
}
func isBlankXML(s string) bool { return strings.Trim(s, xmlSpace) == "" }

type ttGenOpts struct {
	MaxCues, MaxStyles, MaxRegions int
	MsOnly                         bool // every boundary a whole number of milliseconds (needed for write/read comparisons)
}

func ttRandDoc(r *rng, o ttGenOpts) *ttDoc {
	d := &ttDoc{}
	d.V.HasMeta = true
	// parameters
	if r.chance(3, 4) {
		d.HasFrameRate = true
		d.FrameRate = []int{0, 24, 25, 30, 50, 60, 8, 1, 12, 100, 48, 120}[r.intn(12)]
	}
	if r.chance(1, 2) {
		d.TickRate = []int{1, 10, 1000, 10000000, 90000, 3, 60, 7, 27000000, 44100, 48000}[r.intn(11)]
	}
	d.V.Framerate = d.FrameRate
	// metadata
	if r.chance(2, 3) {
		d.V.Title = ttRandText(r, 4)
	}
	if r.chance(1, 2) {
		d.V.Copyright = ttRandText(r, 4)
	}
	if r.chance(4, 5) {
		d.HasLang = true
		d.LangAttr = r.pick("en", "fr", "ja", "zh", "no", "en-US", "fr-CA", "zh-Hans", "ja-JP", "no-NO", "de", "es-419", "nl", "")
		if len(d.LangAttr) >= 2 {
			d.V.Lang = map[string]string{"en": "english", "fr": "french", "ja": "japanese", "zh": "chinese", "no": "norwegian"}[d.LangAttr[:2]]
		}
	}
	// styles: a forest (parent chosen among the styles created earlier; the document order is a shuffle, so
	// a parent may be defined after its children; several styles may share one parent)
	used := map[string]bool{}
	ns := r.intn(o.MaxStyles + 1)
	for i := 0; i < ns; i++ {
		st := tvStyle{ID: ttFreshID(r, used), A: ttRandAttrs(r, 4)}
		st.Key = st.ID
		if i > 0 && r.chance(2, 3) {
			p := d.V.Styles[r.intn(i)].ID
			if r.chance(1, 2) {
				p = d.V.Styles[0].ID // force sharing
			}
			st.Ref = &p
		}
		d.V.Styles = append(d.V.Styles, st)
	}
	d.StyleOrder = make([]int, ns)
	for i := range d.StyleOrder {
		d.StyleOrder[i] = i
	}
	for i := ns - 1; i > 0; i-- {
		j := r.intn(i + 1)
		d.StyleOrder[i], d.StyleOrder[j] = d.StyleOrder[j], d.StyleOrder[i]
	}
	pickStyle := func(num, den int) *string {
		if ns == 0 || !r.chance(num, den) {
			return nil
		}
		id := d.V.Styles[r.intn(ns)].ID
		return &id
	}
	usedR := map[string]bool{}
	nr := r.intn(o.MaxRegions + 1)
	for i := 0; i < nr; i++ {
		rg := tvStyle{ID: ttFreshID(r, usedR), A: ttRandAttrs(r, 4), Ref: pickStyle(1, 2)}
		rg.Key = rg.ID
		d.V.Regions = append(d.V.Regions, rg)
	}
	d.RegionOrder = make([]int, nr)
	for i := range d.RegionOrder {
		d.RegionOrder[i] = i
	}
	for i := nr - 1; i > 0; i-- {
		j := r.intn(i + 1)
		d.RegionOrder[i], d.RegionOrder[j] = d.RegionOrder[j], d.RegionOrder[i]
	}
	// cues
	nc := 1 + r.intn(o.MaxCues)
	var t int64 // ms
	for c := 0; c < nc; c++ {
		cu := ttCue{}
		mk := func() ttTime {
			switch {
			case !o.MsOnly && d.FrameRate > 0 && r.chance(1, 4):
				t += int64(r.intn(4000))
				sec := t/1000 + 1
				t = sec * 1000
				return exprFrames(r, sec, int64(r.intn(d.FrameRate)), d.FrameRate)
			case !o.MsOnly && d.TickRate > 0 && r.chance(1, 5):
				t += int64(1 + r.intn(4000))
				ticks := t * int64(d.TickRate) / 1000
				if d.TickRate > 1000 {
					ticks += int64(r.intn(d.TickRate / 1000))
				}
				if ticks == 0 {
					ticks = 1
				}
				e := exprTicks(ticks, d.TickRate)
				t = (ticks*1000+int64(d.TickRate)-1)/int64(d.TickRate) + 1
				return e
			default:
				switch r.intn(6) {
				case 0:
					t += int64(r.intn(3)) * 1000
					t -= t % 1000
				case 1:
					t += int64(r.intn(40)) * 100
					t -= t % 100
				case 2:
					t += int64(r.intn(5000))
					t -= t % 40
				case 3:
					t += int64(r.intn(3)) * 3600000
				default:
					t += int64(r.intn(5000))
				}
				return exprForMs(r, t, d.FrameRate, d.TickRate)
			}
		}
		if c == 0 && r.chance(1, 4) {
			t = int64(r.intn(3)) * 3600000
		}
		cu.Begin = mk()
		cu.End = mk()
		if r.chance(1, 3) {
			cu.ID = "p" + strconv.Itoa(c)
		}
		cu.V.A = ttRandAttrs(r, 2)
		cu.V.Style = pickStyle(1, 3)
		if nr > 0 && r.chance(1, 2) {
			id := d.V.Regions[r.intn(nr)].ID
			cu.V.Region = &id
		}
		nl := 1 + r.intn(3)
		if r.chance(1, 15) {
			nl = 5
		}
		for j := 0; j < nl; j++ {
			nrun := 1 + r.intn(3)
			if r.chance(1, 12) || (nl > 1 && (j == 0 || j == nl-1) && r.chance(1, 8)) {
				nrun = 0
			}
			var runs []tvRun
			var anon, merge []bool
			for k := 0; k < nrun; k++ {
				run := tvRun{Text: ttRandText(r, 3)}
				isAnon := false
				if r.chance(1, 3) {
					// bare character data: no style, no attributes, not blank, no leading white space
					run.Text = strings.TrimLeft(run.Text, xmlSpace)
					if isBlankXML(run.Text) {
						run.Text = "w" + run.Text
					}
					isAnon = !(k > 0 && anon[k-1]) // two adjacent bare texts would be one text
					if !isAnon {
						run.Style = pickStyle(1, 3)
					}
				} else {
					run.Style = pickStyle(1, 3)
					run.A = ttRandAttrs(r, 2)
				}
				mg := false
				if k == 0 && j > 0 && len(cu.V.Lines[j-1]) > 0 && r.chance(1, 2) {
					// continue the previous line's last run across the line break (same element)
					prev := cu.V.Lines[j-1][len(cu.V.Lines[j-1])-1]
					pa := cu.Anon[j-1][len(cu.Anon[j-1])-1]
					if !pa {
						run.Style, run.A, isAnon, mg = prev.Style, prev.A, false, true
					}
				}
				runs = append(runs, run)
				anon = append(anon, isAnon)
				merge = append(merge, mg)
			}
			cu.V.Lines = append(cu.V.Lines, runs)
			cu.Anon = append(cu.Anon, anon)
			cu.Merge = append(cu.Merge, merge)
		}
		d.Cues = append(d.Cues, cu)
		d.V.Items = append(d.V.Items, cu.V)
	}
	sort.Slice(d.V.Styles, func(i, j int) bool { return d.V.Styles[i].Key < d.V.Styles[j].Key })
	sort.Slice(d.V.Regions, func(i, j int) bool { return d.V.Regions[i].Key < d.V.Regions[j].Key })
	return d
}

// ---------- rendering ----------

type ttRendering struct {
	Indent   string // "" = everything on one line
	Prefix   int    // 0: default namespace + tts/ttm/ttp; 1: tt: on every element; 2: unusual prefix names
	BrInside bool
	Decl     bool
}

type ttWriter struct {
	b                  strings.Builder
	r                  *rng
	rd                 ttRendering
	el, sty, meta, par string // prefixes with colon ("" or "tt:")
}

func (w *ttWriter) escText(s string) string {
	var b strings.Builder
	for _, c := range s {
		switch {
		case c == '&':
			b.WriteString(w.r.pick("&amp;", "&#38;", "&#x26;"))
		case c == '<':
			b.WriteString(w.r.pick("&lt;", "&#60;"))
		case c == '>':
			if strings.HasSuffix(b.String(), "]") {
				b.WriteString("&gt;") // "]]>" must not appear in character data
			} else {
				b.WriteString(w.r.pick("&gt;", ">", "&gt;"))
			}
		case c == '"' && w.r.chance(1, 2):
			b.WriteString("&quot;")
		case c == '\'' && w.r.chance(1, 2):
			b.WriteString("&apos;")
		case c > 0x7f && !isUniSpace(c) && w.r.chance(1, 6):
			if w.r.chance(1, 2) {
				b.WriteString("&#" + strconv.Itoa(int(c)) + ";")
			} else {
				b.WriteString("&#x" + strconv.FormatInt(int64(c), 16) + ";")
			}
		default:
			b.WriteRune(c)
		}
	}
	return b.String()
}

func (w *ttWriter) attr(name, v string) string {
	q := "\""
	if w.r.chance(1, 5) {
		q = "'"
	}
	var b strings.Builder
	for _, c := range v {
		switch {
		case c == '&':
			b.WriteString("&amp;")
		case c == '<':
			b.WriteString("&lt;")
		case c == '"' && (q == "\"" || w.r.chance(1, 2)):
			b.WriteString("&quot;")
		case c == '\'' && (q == "'" || w.r.chance(1, 2)):
			b.WriteString("&apos;")
		default:
			b.WriteRune(c)
		}
	}
	return " " + name + "=" + q + b.String() + q
}

func (w *ttWriter) attrs(a tvAttrs) string {
	var parts []string
	for i, p := range a.S {
		if p != nil {
			parts = append(parts, w.attr(w.sty+ttAttrNames[i], *p))
		}
	}
	if a.Z != nil {
		z := strconv.Itoa(*a.Z)
		if *a.Z > 0 && w.r.chance(1, 6) {
			z = "+" + z
		}
		parts = append(parts, w.attr(w.sty+"zIndex", z))
	}
	// attribute order is free
	for i := len(parts) - 1; i > 0; i-- {
		j := w.r.intn(i + 1)
		if i != j {
			ttFree("attr_order.inline")
		}
		parts[i], parts[j] = parts[j], parts[i]
	}
	return strings.Join(parts, "")
}

func (w *ttWriter) nl(depth int) {
	if w.rd.Indent != "" {
		w.b.WriteString("\n" + strings.Repeat(w.rd.Indent, depth))
	}
}

func (w *ttWriter) br() string {
	if w.r.chance(1, 8) {
		ttFree("linebreak_in_tag.br")
		return w.r.pick("<"+w.el+"br\n/>", "<"+w.el+"br\n   />", "<"+w.el+"br\n></"+w.el+"br\n >")
	}
	return w.r.pick("<"+w.el+"br/>", "<"+w.el+"br/>", "<"+w.el+"br />", "<"+w.el+"br></"+w.el+"br>")
}

// tagGap: the white space before an attribute or before the closing > of a tag: a blank, or a line break with indentation
func (w *ttWriter) tagGap(attrs string) string {
	if attrs == "" || !w.r.chance(1, 6) {
		return attrs
	}
	ttFree("linebreak_in_tag.attributes")
	// attr() writes " name=value": replace the separating blanks that are not inside a value
	var b strings.Builder
	var q byte
	for i := 0; i < len(attrs); i++ {
		c := attrs[i]
		switch {
		case q != 0:
			if c == q {
				q = 0
			}
			b.WriteByte(c)
		case c == '"' || c == '\'':
			q = c
			b.WriteByte(c)
		case c == ' ' && w.r.chance(2, 3):
			b.WriteString(w.r.pick("\n", "\n    ", "\n\t", " \n "))
		default:
			b.WriteByte(c)
		}
	}
	return b.String()
}

// per-freedom counters of the renderer (moved into the runner's distribution by the suite)
var ttFreedoms = map[string]int{}

func ttFree(k string) { ttFreedoms[k]++ }

func renderTTML(r *rng, d *ttDoc, rd ttRendering) string {
	w := &ttWriter{r: r, rd: rd}
	nsT, nsS, nsM, nsP := "http://www.w3.org/ns/ttml", "http://www.w3.org/ns/ttml#styling", "http://www.w3.org/ns/ttml#metadata", "http://www.w3.org/ns/ttml#parameter"
	var decl string
	switch rd.Prefix {
	case 0:
		w.el, w.sty, w.meta, w.par = "", "tts:", "ttm:", "ttp:"
		decl = fmt.Sprintf(` xmlns="%s" xmlns:tts="%s" xmlns:ttm="%s" xmlns:ttp="%s"`, nsT, nsS, nsM, nsP)
	case 1:
		w.el, w.sty, w.meta, w.par = "tt:", "tts:", "ttm:", "ttp:"
		decl = fmt.Sprintf(` xmlns:tt="%s" xmlns:tts="%s" xmlns:ttm="%s" xmlns:ttp="%s"`, nsT, nsS, nsM, nsP)
	default:
		w.el, w.sty, w.meta, w.par = "", "s:", "md:", "p:"
		decl = fmt.Sprintf(` xmlns:md="%s" xmlns="%s" xmlns:p="%s" xmlns:s="%s"`, nsM, nsT, nsP, nsS)
	}
	if rd.Decl {
		w.b.WriteString(`<?xml version="1.0" encoding="UTF-8"?>`)
		if rd.Indent != "" {
			w.b.WriteString("\n")
		}
	}
	// the root's attributes in any order; the name-space declarations stay first (they are attributes too)
	var rootParts []string
	if d.HasLang {
		rootParts = append(rootParts, w.attr("xml:lang", d.LangAttr))
		if len(d.LangAttr) > 2 {
			ttFree("lang.subtag")
		}
	}
	if d.HasFrameRate {
		rootParts = append(rootParts, w.attr(w.par+"frameRate", strconv.Itoa(d.FrameRate)))
		if d.FrameRate == 0 {
			ttFree("root.frameRate.zero_written")
		}
	}
	if d.TickRate != 0 {
		rootParts = append(rootParts, w.attr(w.par+"tickRate", strconv.Itoa(d.TickRate)))
	} else if r.chance(1, 6) {
		rootParts = append(rootParts, w.attr(w.par+"tickRate", "0"))
		ttFree("root.tickRate.zero_written")
	}
	for i := len(rootParts) - 1; i > 0; i-- {
		j := r.intn(i + 1)
		if i != j {
			ttFree("root.attr_order")
		}
		rootParts[i], rootParts[j] = rootParts[j], rootParts[i]
	}
	if r.chance(1, 2) {
		w.b.WriteString("<" + w.el + "tt" + decl + strings.Join(rootParts, "") + ">")
	} else {
		w.b.WriteString("<" + w.el + "tt" + strings.Join(rootParts, "") + decl + ">")
		ttFree("root.declarations_last")
	}
	ttFree("prefix." + strconv.Itoa(rd.Prefix))
	if rd.Indent != "" {
		ttFree("indent.structure")
	}
	idAttr := func() string { return r.pick("xml:id", "xml:id", "xml:id", "id") }
	hasHead := len(d.V.Styles) > 0 || len(d.V.Regions) > 0 || d.V.Title != "" || d.V.Copyright != "" || r.chance(1, 2)
	if hasHead {
		w.nl(1)
		w.b.WriteString("<" + w.el + "head>")
		section := func(which int) {
			switch which {
			case 0:
				if d.V.Title != "" || d.V.Copyright != "" || r.chance(1, 3) {
					w.nl(2)
					w.b.WriteString("<" + w.el + "metadata>")
					items := []int{0, 1}
					if r.chance(1, 2) {
						items = []int{1, 0}
						ttFree("metadata.copyright_first")
					}
					for _, k := range items {
						name, v := "title", d.V.Title
						if k == 1 {
							name, v = "copyright", d.V.Copyright
						}
						if v != "" || r.chance(1, 4) {
							w.nl(3)
							w.b.WriteString("<" + w.meta + name + ">" + w.escText(v) + "</" + w.meta + name + ">")
						}
					}
					w.nl(2)
					w.b.WriteString("</" + w.el + "metadata>")
				}
			case 1:
				if len(d.V.Styles) > 0 || r.chance(1, 3) {
					w.nl(2)
					w.b.WriteString("<" + w.el + "styling>")
					for _, i := range d.StyleOrder {
						st := d.V.Styles[i]
						w.nl(3)
						w.b.WriteString("<" + w.el + "style" + w.attr(idAttr(), st.ID))
						if st.Ref != nil {
							w.b.WriteString(w.attr("style", *st.Ref))
						}
						w.b.WriteString(w.attrs(st.A))
						w.b.WriteString(r.pick("/>", "></"+w.el+"style>"))
					}
					w.nl(2)
					w.b.WriteString("</" + w.el + "styling>")
				}
			default:
				if len(d.V.Regions) > 0 || r.chance(1, 3) {
					w.nl(2)
					w.b.WriteString("<" + w.el + "layout>")
					for _, i := range d.RegionOrder {
						rg := d.V.Regions[i]
						w.nl(3)
						w.b.WriteString("<" + w.el + "region" + w.attr(idAttr(), rg.ID))
						if rg.Ref != nil {
							w.b.WriteString(w.attr("style", *rg.Ref))
						}
						w.b.WriteString(w.attrs(rg.A))
						w.b.WriteString(r.pick("/>", "></"+w.el+"region>"))
					}
					w.nl(2)
					w.b.WriteString("</" + w.el + "layout>")
				}
			}
		}
		oi := r.intn(6)
		order := [][]int{{0, 1, 2}, {0, 2, 1}, {1, 0, 2}, {1, 2, 0}, {2, 0, 1}, {2, 1, 0}}[oi]
		ttFree("sections.order." + strconv.Itoa(oi))
		for n, k := range order {
			section(k)
			if n < 2 && r.chance(1, 10) {
				// character data between sections (not indentation): the reader must not care
				w.b.WriteString(w.escText(r.pick("note", "x", "--", "é")))
				ttFree("head.text_between_sections")
			}
		}
		w.nl(1)
		w.b.WriteString("</" + w.el + "head>")
	}
	w.nl(1)
	w.b.WriteString("<" + w.el + "body>")
	w.nl(2)
	w.b.WriteString("<" + w.el + "div>")
	for _, cu := range d.Cues {
		w.nl(3)
		w.b.WriteString("<" + w.el + "p")
		var parts []string
		parts = append(parts, w.attr("begin", cu.Begin.Expr), w.attr("end", cu.End.Expr))
		if cu.ID != "" {
			parts = append(parts, w.attr(idAttr(), cu.ID))
		}
		if cu.V.Region != nil {
			parts = append(parts, w.attr("region", *cu.V.Region))
		}
		if cu.V.Style != nil {
			parts = append(parts, w.attr("style", *cu.V.Style))
		}
		for i := len(parts) - 1; i > 0; i-- {
			j := r.intn(i + 1)
			if i != j {
				ttFree("attr_order.p")
			}
			parts[i], parts[j] = parts[j], parts[i]
		}
		if r.chance(1, 2) {
			w.b.WriteString(strings.Join(parts, "") + w.attrs(cu.V.A) + ">")
		} else {
			w.b.WriteString(w.attrs(cu.V.A) + strings.Join(parts, "") + ">")
			ttFree("attr_order.p.inline_first")
		}
		w.renderContent(cu)
		w.b.WriteString("</" + w.el + "p>")
	}
	w.nl(2)
	w.b.WriteString("</" + w.el + "div>")
	w.nl(1)
	w.b.WriteString("</" + w.el + "body>")
	w.nl(0)
	w.b.WriteString("</" + w.el + "tt>")
	if rd.Indent != "" && r.chance(1, 2) {
		w.b.WriteString("\n")
	}
	return w.b.String()
}

// renderContent writes the content of a <p>: runs as elements or bare text, a <br/> at every line break,
// placed between elements or (when the runs on both sides are one element's) inside the element
func (w *ttWriter) renderContent(cu ttCue) {
	r := w.r
	ind := w.rd.Indent != ""
	first := true
	indent := func(next string) {
		// indentation may precede a node unless that would glue white space to significant text
		if ind && r.chance(4, 5) && !startsWithSpace(next) {
			w.nl(4)
		}
		first = false
	}
	open := false // an element is open (a run continued across a line break)
	lines := cu.V.Lines
	for j, runs := range lines {
		if j > 0 {
			mergedHere := len(runs) > 0 && cu.Merge[j][0] && w.rd.BrInside
			if mergedHere {
				// <br/> inside the open element; indentation around it is harmless before the tag
				if ind && r.chance(1, 3) {
					w.nl(5)
				}
				w.b.WriteString(w.br())
				if ind && r.chance(1, 3) && !startsWithSpace(runs[0].Text) {
					w.nl(5)
				}
			} else {
				if open {
					w.b.WriteString("</" + w.el + "span>")
					open = false
				}
				indent("")
				w.b.WriteString(w.br())
			}
		}
		for k, run := range runs {
			if k == 0 && open {
				// continuation of the element opened on the previous line
				w.b.WriteString(w.escText(run.Text))
			} else if cu.Anon[j][k] {
				indent(run.Text)
				w.b.WriteString(w.escText(run.Text))
			} else {
				indent("")
				w.b.WriteString("<" + w.el + "span")
				sa := ""
				if run.Style != nil {
					sa = w.attr("style", *run.Style)
				}
				w.b.WriteString(w.tagGap(sa+w.attrs(run.A)) + w.r.pick("", "", "", "\n") + ">")
				w.b.WriteString(w.escText(run.Text))
				open = true
			}
			last := k == len(runs)-1
			if open {
				cont := last && j+1 < len(lines) && len(lines[j+1]) > 0 && cu.Merge[j+1][0] && w.rd.BrInside
				if !cont {
					w.b.WriteString("</" + w.el + "span>")
					open = false
				}
			}
		}
	}
	if open {
		w.b.WriteString("</" + w.el + "span>")
	}
	_ = first
	if ind && r.chance(4, 5) {
		w.nl(3)
	}
}

// ---------- Subtitles value from a ground-truth document (writer input) ----------

func subsOfDoc(v tvDoc) *astisub.Subtitles {
	s := astisub.NewSubtitles()
	if v.HasMeta {
		s.Metadata = &astisub.Metadata{Framerate: v.Framerate, Title: v.Title, TTMLCopyright: v.Copyright, Language: v.Lang}
	} else {
		s.Metadata = nil
	}
	byID := map[string]*astisub.Style{}
	for _, st := range v.Styles {
		p := &astisub.Style{ID: st.ID, InlineStyle: saOfAttrs(st.A)}
		s.Styles[st.Key] = p
		byID[st.ID] = p
	}
	for _, st := range v.Styles {
		if st.Ref != nil {
			s.Styles[st.Key].Style = byID[*st.Ref]
		}
	}
	ref := func(p *string) *astisub.Style {
		if p == nil {
			return nil
		}
		if q, ok := byID[*p]; ok {
			return q
		}
		return &astisub.Style{ID: *p}
	}
	regByID := map[string]*astisub.Region{}
	for _, rg := range v.Regions {
		p := &astisub.Region{ID: rg.ID, InlineStyle: saOfAttrs(rg.A), Style: ref(rg.Ref)}
		s.Regions[rg.Key] = p
		regByID[rg.ID] = p
	}
	for _, it := range v.Items {
		x := &astisub.Item{StartAt: time.Duration(it.St), EndAt: time.Duration(it.En), InlineStyle: saOfAttrs(it.A), Style: ref(it.Style)}
		if it.Region != nil {
			if q, ok := regByID[*it.Region]; ok {
				x.Region = q
			} else {
				x.Region = &astisub.Region{ID: *it.Region}
			}
		}
		for _, l := range it.Lines {
			ln := astisub.Line{}
			for _, run := range l {
				ln.Items = append(ln.Items, astisub.LineItem{Text: run.Text, InlineStyle: saOfAttrs(run.A), Style: ref(run.Style)})
			}
			x.Lines = append(x.Lines, ln)
		}
		s.Items = append(s.Items, x)
	}
	return s
}

func xmlLegal(s string) bool {
	if !utf8.ValidString(s) {
		return false
	}
	for _, c := range s {
		if !(c == 0x9 || c == 0xA || c == 0xD || (c >= 0x20 && c <= 0xD7FF) || (c >= 0xE000 && c <= 0xFFFD) || (c >= 0x10000 && c <= 0x10FFFF)) {
			return false
		}
	}
	return true
}
