package main

// C07, styled conversions between SSA/ASS and WebVTT (coq/Model/ConvSsaVtt.v, coq/Model/ConvVttSsa.v; theorems
// C07_ssa_to_vtt_styled, C07_vtt_to_ssa_styled).  Registers the two pairs for the styled sources of
// suiteConvertPlainStyled (destination BYTES of the library vs the model's conversion) with an oracle on the
// implementation (destination read back by the library: same cues, times to the destination's unit, same text per
// line), and adds a suite of its own with harder texts and speaker names.

import (
	"bytes"
	"fmt"
	"strings"
	"unicode/utf8"

	astisub "github.com/asticode/go-astisub"
)

func init() {
	styledConvSuites["ssa->vtt"] = "convssavtt"
	styledConvSuites["vtt->ssa"] = "convvttssa"
	styledConvOracle["ssa->vtt"] = func(src *astisub.Subtitles, dst []byte) string {
		if why := ssaVttClaimed(src); why != "" {
			return ""
		}
		return styledTextSurvives(src, dst, 1e6, func(b []byte) (*astisub.Subtitles, error) { return astisub.ReadFromWebVTT(bytes.NewReader(b)) })
	}
	styledConvOracle["vtt->ssa"] = func(src *astisub.Subtitles, dst []byte) string {
		if why := vttSsaClaimed(src); why != "" {
			return ""
		}
		return styledTextSurvives(src, dst, 1e7, func(b []byte) (*astisub.Subtitles, error) { return astisub.ReadFromSSA(bytes.NewReader(b)) })
	}
	suitesByProp["C07"] = append(suitesByProp["C07"], suiteConvSsaVttHard)
}

// what C07 asks of a conversion: the destination, read back, has the same number of cues in the same order, the times
// truncated to the destination's unit, and per line the same text (Line.String())
func styledTextSurvives(src *astisub.Subtitles, dst []byte, unit int64, read func([]byte) (*astisub.Subtitles, error)) string {
	back, err := read(dst)
	if err != nil {
		return "the destination cannot be read back: " + err.Error()
	}
	if len(back.Items) != len(src.Items) {
		return fmt.Sprintf("%d cues read back, source has %d", len(back.Items), len(src.Items))
	}
	for i, it := range src.Items {
		b := back.Items[i]
		ws, we := int64(it.StartAt)-int64(it.StartAt)%unit, int64(it.EndAt)-int64(it.EndAt)%unit
		if int64(b.StartAt) != ws || int64(b.EndAt) != we {
			return fmt.Sprintf("cue %d: times %d-%d, want %d-%d", i+1, int64(b.StartAt), int64(b.EndAt), ws, we)
		}
		if len(b.Lines) != len(it.Lines) {
			return fmt.Sprintf("cue %d: %d lines read back, source has %d", i+1, len(b.Lines), len(it.Lines))
		}
		for j := range it.Lines {
			if g, w := b.Lines[j].String(), it.Lines[j].String(); g != w {
				return fmt.Sprintf("cue %d line %d: text %q, want %q", i+1, j+1, g, w)
			}
		}
	}
	return ""
}

// The sources for which C07_ssa_to_vtt_styled claims the text survives (its hypothesis repr_vdoc of the conversion, as far
// as the text is concerned): every cue line, as WriteToWebVTT writes it, is a WebVTT text line that reads back as itself.
// Returns "" when claimed, else the first reason.
func ssaVttClaimed(src *astisub.Subtitles) string {
	for _, it := range src.Items {
		if it.StartAt < 0 || it.EndAt < 0 {
			return "negative time"
		}
		for _, l := range it.Lines {
			v, t := l.VoiceName, l.String()
			if v != strings.TrimSpace(v) || strings.ContainsAny(v, "&<\r\n\x00") /* a '>' is fine since the fix of F2: written &gt; */ || !utf8.ValidString(v) {
				return "speaker name not expressible as a voice annotation"
			}
			if t == "" {
				return "empty line"
			}
			if strings.ContainsAny(t, "\r\n\x00") || !utf8.ValidString(t) {
				return "text with a control byte or invalid UTF-8"
			}
			for _, li := range l.Items {
				if strings.HasSuffix(li.Text, "\xc2") {
					return "run ending inside a character"
				}
			}
			w := strings.NewReplacer("&", "&amp;", "<", "&lt;", " ", "&nbsp;").Replace(t)
			if v != "" {
				w = "<v " + v + ">" + w
			}
			if w != strings.TrimSpace(w) {
				return "white space at an end of the line"
			}
			if strings.Contains(w, "-->") || strings.HasPrefix(w, "NOTE ") || strings.HasPrefix(w, "STYLE") || strings.HasPrefix(w, "Region: ") || strings.HasPrefix(w, "X-TIMESTAMP-MAP") {
				return "line that WebVTT reads as another kind of line"
			}
		}
	}
	return ""
}

// The sources for which C07_vtt_to_ssa_styled claims the text survives (its hypothesis doc_repr of the conversion, as far as
// the text is concerned): at least one line per cue, no braces, no backslash-n / backslash-N, no white space at the ends
// of a line (a speaker name WITH a comma is included since the library fix of finding F1: the text must survive).
func vttSsaClaimed(src *astisub.Subtitles) string {
	for _, it := range src.Items {
		if it.StartAt < 0 || it.EndAt < 0 {
			return "negative time"
		}
		if len(it.Lines) == 0 {
			return "cue without lines"
		}
		for _, l := range it.Lines {
			v, t := l.VoiceName, l.String()
			if strings.ContainsAny(v, "\r\n") || v != strings.TrimSpace(v) { // a comma is fine since the fix of F1: written as a semicolon
				return "speaker name not expressible in the Name column"
			}
			if strings.ContainsAny(t, "{}\r\n") || strings.Contains(t, "\\n") || strings.Contains(t, "\\N") {
				return "text with braces or a line-break sequence"
			}
			if t != strings.TrimSpace(t) {
				return "white space at an end of the line"
			}
		}
	}
	return ""
}

func hardSsaDoc(r *rng) []byte {
	names := []string{"", "", "Bob", "Mary Ann", "a>b", "A&B", " Bob ", "x<y", "Zoë", "D'Arcy; J"}
	frag := []string{"alpha", "beta", "gamma", " ", " ", "{\\i1}", "{\\i0}", "{\\b1}{\\c&HFF&}", "&", "<", ">", " --> ", "NOTE ", "STYLE", "\\N", "\\n", "\\N\\N",
		"{", "}", ",", ": ", "; ", "é", " ", "&amp;", "&lt;", "\t", "<i>", "</i>", "<00:00:01.500>", "42", "Region: ", "日本", "-", "--", "x > y", "\\h", "\\"}
	// every second document stays inside what both formats can express (hard characters in the middle of the lines only)
	mild := r.chance(1, 2)
	if mild {
		names = []string{"", "Bob", "Mary Ann", "Zoë", "D'Arcy; J"}
		frag = []string{"alpha", "beta", " ", " ", "{\\i1}", "{\\i0}", "{\\b1}{\\c&HFF&}", "&", "<", ">", ",", ": ", "; ", "é", "\u00a0", "&amp;", "&lt;", "<i>", "</i>", "<00:00:01.500>", "42", "日本", "-", "--", "\\h", "\\", "\\Nword"}
	}
	v4p := r.chance(1, 2)
	var b strings.Builder
	b.WriteString("[Script Info]\n; a comment\nTitle: hard texts\n")
	if v4p {
		b.WriteString("ScriptType: v4.00+\n")
	}
	if r.chance(2, 3) {
		if v4p {
			b.WriteString("\n[V4+ Styles]\n")
		} else {
			b.WriteString("\n[V4 Styles]\n")
		}
		b.WriteString("Format: Name, Fontname, Fontsize, Bold\nStyle: Default,Arial,20,1\nStyle: Alt,Courier,18.5,0\n")
	}
	b.WriteString("\n[Events]\n")
	if v4p {
		b.WriteString("Format: Layer, Start, End, Style, Name, MarginL, MarginR, MarginV, Effect, Text\n")
	} else {
		b.WriteString("Format: Marked, Start, End, Style, Name, MarginL, MarginR, MarginV, Effect, Text\n")
	}
	n := 1 + r.intn(4)
	t := int64(0)
	for i := 0; i < n; i++ {
		t += int64(r.intn(300))
		st := t
		t += 1 + int64(r.intn(500))
		en := t
		text := ""
		k := 1 + r.intn(6)
		if r.chance(1, 12) && !mild {
			k = 0
		}
		for j := 0; j < k; j++ {
			text += frag[r.intn(len(frag))]
		}
		if mild {
			text = r.pick("One", "deux", "3") + text + r.pick("end", "fin", "!")
		}
		first := "0"
		if !v4p {
			first = "Marked=0"
		}
		cs := func(v int64) string { return fmt.Sprintf("%d:%02d:%02d.%02d", v/360000, v/6000%60, v/100%60, v%100) }
		fmt.Fprintf(&b, "Dialogue: %s,%s,%s,%s,%s,0,0,0,,%s\n", first, cs(st), cs(en), r.pick("Default", "Alt", "", "*Default"), names[r.intn(len(names))], text)
	}
	return []byte(b.String())
}

func hardVttDoc(r *rng) []byte {
	frag := []string{"alpha", "beta", "gamma", " ", " ", "<i>", "</i>", "<b>", "</b>", "<c.red>", "</c>", "<lang en>", "</lang>", "&amp;", "&lt;", "&nbsp;", "&gt;", ">",
		"{b}", "{", "}", "{\\i1}", "\\N", "\\n", ",", ": ", "; ", "é", " ", "<00:00:01.500>", "<00:02.000>", "42", "[Events]", "Dialogue: ", "日本", "\t", "\\"}
	voices := []string{"", "", "<v Bob>", "<v Mary Ann>", "<v Smith, John>", "<v.loud Zoë>", "<v  Bob >", "<v A;B>"}
	mild := r.chance(1, 2)
	if mild {
		frag = []string{"alpha", "beta", " ", " ", "<i>", "</i>", "<b>", "</b>", "<c.red>", "</c>", "<lang en>", "</lang>", "&amp;", "&lt;", "&nbsp;", "&gt;", ">",
			",", ": ", "; ", "é", "<00:00:01.500>", "<00:02.000>", "42", "[Events]", "Dialogue: ", "日本", "\\", "-"}
		voices = []string{"", "<v Bob>", "<v Mary Ann>", "<v.loud Zoë>", "<v A;B>"}
	}
	var b strings.Builder
	b.WriteString("WEBVTT\n")
	if r.chance(1, 4) {
		b.WriteString("X-TIMESTAMP-MAP=LOCAL:00:00:00.000,MPEGTS:900000\n")
	}
	b.WriteString("\n")
	if r.chance(1, 2) {
		b.WriteString("STYLE\n::cue { color: red }\n\n")
	}
	if r.chance(1, 2) {
		b.WriteString("Region: id=fred width=40% lines=3\n\n")
	}
	n := 1 + r.intn(4)
	t := int64(0)
	for i := 0; i < n; i++ {
		if r.chance(1, 4) {
			b.WriteString("NOTE a comment\n\n")
		}
		if r.chance(1, 2) {
			fmt.Fprintf(&b, "%d\n", i+1)
		}
		t += int64(r.intn(3000))
		st := t
		t += 1 + int64(r.intn(5000))
		en := t
		ms := func(v int64) string {
			return fmt.Sprintf("%02d:%02d:%02d.%03d", v/3600000, v/60000%60, v/1000%60, v%1000)
		}
		fmt.Fprintf(&b, "%s --> %s%s\n", ms(st), ms(en), r.pick("", "", " align:left", " line:0 position:50%"))
		nl := 1 + r.intn(3)
		if r.chance(1, 10) && !mild {
			nl = 0
		}
		for j := 0; j < nl; j++ {
			line := voices[r.intn(len(voices))]
			k := 1 + r.intn(5)
			for q := 0; q < k; q++ {
				line += frag[r.intn(len(frag))]
			}
			if mild {
				line = voices[r.intn(len(voices))] + r.pick("One", "deux", "3")
				for q := 0; q < k; q++ {
					line += frag[r.intn(len(frag))]
				}
				line += r.pick("end", "fin", "!")
			}
			if strings.TrimSpace(line) == "" || strings.Contains(line, "-->") {
				line = "plain"
			}
			b.WriteString(line + "\n")
		}
		b.WriteString("\n")
	}
	return []byte(b.String())
}

func suiteConvSsaVttHard(R *runner, r *rng) {
	R.rule("styled conversions SSA/ASS <-> WebVTT on hand-rendered sources with hard texts (override blocks, braces, \\N and \\n, commas, '&' '<' '>' '-->', NOTE/STYLE/Region prefixes, entity look-alikes, no-break spaces, tabs, blanks at the ends, empty texts, CJK) and speaker names (empty, with blanks, with '>' '&' '<' ';' ','), tags, classes, inline timestamps, settings, STYLE block, region, timestamp map: destination bytes of the library vs convert_ssa_vtt / convert_vtt_ssa; oracle (text survives) on the sources inside the domain of the theorems' hypotheses")
	N := 150
	if R.tier == "thorough" {
		N = 3000
	}
	type dir struct {
		pair, suite string
		gen         func(*rng) []byte
		read        func([]byte) (*astisub.Subtitles, error)
		write       func(*astisub.Subtitles, *bytes.Buffer) error
	}
	rdS := func(b []byte) (*astisub.Subtitles, error) { return astisub.ReadFromSSA(bytes.NewReader(b)) }
	rdV := func(b []byte) (*astisub.Subtitles, error) { return astisub.ReadFromWebVTT(bytes.NewReader(b)) }
	dirs := []dir{
		{"ssa->vtt", "convssavtt", hardSsaDoc, rdS, func(s *astisub.Subtitles, w *bytes.Buffer) error { return s.WriteToWebVTT(w) }},
		{"vtt->ssa", "convvttssa", hardVttDoc, rdV, func(s *astisub.Subtitles, w *bytes.Buffer) error { return s.WriteToSSA(w) }},
	}
	for c := 0; c < N; c++ {
		for _, d := range dirs {
			doc := d.gen(r)
			o := &obs{Suite: d.suite, Group: "conv.hard." + d.pair, Input: (&enc{}).bytes(doc).String(), NT: true,
				Human: map[string]interface{}{"pair": d.pair, "document": string(doc)}}
			R.count("conv.hard." + d.pair)
			s, err := d.read(doc)
			if err != nil {
				o.Impl = "1"
				R.count("conv.hard." + d.pair + ".source_rejected")
				R.add(o)
				continue
			}
			var out bytes.Buffer
			var werr error
			p := safely(func() { werr = d.write(s, &out) })
			switch {
			case p != "":
				o.Impl, o.Oracle, o.Sig = "2", fmt.Sprintf("%s panicked: %s", d.pair, p), "convstyled-panic"
			case werr != nil:
				o.Impl = "1"
			default:
				o.Impl = (&enc{}).n(0).bytes(out.Bytes()).String()
				s0, _ := d.read(doc)
				var why string
				if d.pair == "ssa->vtt" {
					why = ssaVttClaimed(s0)
				} else {
					why = vttSsaClaimed(s0)
				}
				if why == "" {
					R.count("conv.hard." + d.pair + ".claimed")
					if m := styledConvOracle[d.pair](s0, out.Bytes()); m != "" {
						o.Oracle, o.Sig = d.pair+": "+m, "convstyled-text-"+d.pair
					}
				} else {
					R.count("conv.hard." + d.pair + ".outside: " + why)
				}
			}
			R.add(o)
		}
	}
}
