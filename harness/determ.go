package main

// C19 writers are deterministic and pure

import (
	"bytes"
	"crypto/sha1"
	"encoding/hex"
	"encoding/json"
	"fmt"
	"os"
	"os/exec"
	"strings"
	"time"

	astisub "github.com/asticode/go-astisub"
)

func hashBytes(b []byte) string { h := sha1.Sum(b); return hex.EncodeToString(h[:8]) }

func c19List(seed uint64, c int) *astisub.Subtitles {
	r := newRng(seed*1000003 + uint64(c))
	return richSubs(r, richOpts{safe: true, maxStyles: 6, maxItems: 5, caseIDs: c%3 == 1, unordered: c%2 == 1, dangling: c%4 == 2, breaks: c%5 == 3})
}

// writes list c to every format once; returns format -> hash (or "ERR"/"PANIC")
func c19WriteAll(s *astisub.Subtitles) map[string]string {
	out := map[string]string{}
	for _, f := range formats {
		var buf bytes.Buffer
		var err error
		p := safely(func() { err = f.write(s, &buf) })
		switch {
		case p != "":
			out[f.name] = "PANIC " + p
		case err != nil:
			out[f.name] = "ERR"
		default:
			out[f.name] = hashBytes(buf.Bytes())
		}
	}
	return out
}

// child mode: print the hashes of n lists
func c19Child(seed uint64, n int) {
	fixClock()
	res := make([]map[string]string, n)
	for c := 0; c < n; c++ {
		res[c] = c19WriteAll(c19List(seed, c))
	}
	b, _ := json.Marshal(res)
	os.Stdout.Write(b)
}

var clockTicks int

func fixClock() {
	astisub.Now = func() time.Time {
		clockTicks++
		return time.Date(2021, 3, 4, 5, 6, 7, 0, time.UTC)
	}
}

func suiteDeterminism(R *runner, r *rng) {
	R.rule("determinism: cue lists (every second one not in start order) with 0..6 styles (every third list with identifiers differing only by case) and 0..4 regions having heterogeneous attribute subsets (SSA attribute sets differing between styles, WebVTT style blocks spread over several styles), metadata present; each list written to each of the 5 formats 50 times in this process, once in each of 4 fresh processes, and in 6 different writer orders; a deep snapshot of the list before/after every write; the STL clock (astisub.Now) is fixed, moved when the metadata supplies both dates, and the GSI creation/revision dates are checked against the metadata or the injected clock (metadata as is, without dates, nil); TTML written with and without an indent option alternately; oracle: all outputs of a format byte-identical, list unchanged; non-trivial = at least 2 styles")
	fixClock()
	N := 40
	if R.tier == "thorough" {
		N = 400
	}
	seed := R.seed
	// other processes
	var childRes [][]map[string]string
	for p := 0; p < 4; p++ {
		cmd := exec.Command(os.Args[0], "-child", "c19", "-seed", fmt.Sprint(seed), "-n", fmt.Sprint(N))
		cmd.Env = append(os.Environ(), fmt.Sprintf("VERIF_CHILD=%d", p))
		out, err := cmd.Output()
		var res []map[string]string
		if err == nil {
			err = json.Unmarshal(out, &res)
		}
		if err != nil {
			R.note("child process failed: " + err.Error())
			continue
		}
		childRes = append(childRes, res)
	}
	R.countN("determinism.child_processes", len(childRes))
	for c := 0; c < N; c++ {
		s := c19List(seed, c)
		before, _ := json.Marshal(s)
		first := c19WriteAll(s)
		h := map[string]interface{}{"list": c, "styles": len(s.Styles), "regions": len(s.Regions), "cues": len(s.Items)}
		o := &obs{Suite: "determ", Group: "determ.repeat", NoModel: true, NT: len(s.Styles) >= 2, Input: fmt.Sprintf("list %d", c), Human: h}
		bad := func(msg, sig string) {
			if o.Oracle == "" {
				o.Oracle, o.Sig = msg, sig
			}
		}
		for f, v := range first {
			if strings.HasPrefix(v, "PANIC") {
				bad(f+" writer panicked: "+v, "determ-panic-"+f)
			}
		}
		for rep := 0; rep < 50; rep++ {
			again := c19WriteAll(s)
			for f, v := range again {
				if v != first[f] {
					bad(fmt.Sprintf("%s writer: repetition %d of the same list gives different bytes (%d styles, %d regions)", f, rep+2, len(s.Styles), len(s.Regions)), "determ-"+f)
				}
			}
		}
		for p, res := range childRes {
			if c < len(res) {
				for f, v := range res[c] {
					if v != first[f] {
						bad(fmt.Sprintf("%s writer: process %d gives different bytes for the same list", f, p), "determ-"+f)
					}
				}
			}
		}
		after, _ := json.Marshal(s)
		if !bytes.Equal(before, after) {
			bad("a writer modified the cue list it was given", "determ-mutation")
		}
		// other writer orders
		for k := 0; k < 6; k++ {
			s2 := c19List(seed, c)
			perm := []int{0, 1, 2, 3, 4}
			for i := len(perm) - 1; i > 0; i-- {
				j := r.intn(i + 1)
				perm[i], perm[j] = perm[j], perm[i]
			}
			for _, fi := range perm {
				f := formats[fi]
				var buf bytes.Buffer
				var err error
				safely(func() { err = f.write(s2, &buf) })
				got := "ERR"
				if err == nil {
					got = hashBytes(buf.Bytes())
				}
				if got != first[f.name] && !strings.HasPrefix(first[f.name], "PANIC") {
					bad(fmt.Sprintf("%s output depends on which writers ran before (order %v)", f.name, perm), "determ-order-"+f.name)
				}
			}
		}
		// the TTML writer with an indent option takes part in the orders: options are per call
		{
			var ref string
			for k := 0; k < 3; k++ {
				var b1, b2 bytes.Buffer
				var e1, e2 error
				safely(func() { e1 = s.WriteToTTML(&b1, astisub.WriteToTTMLWithIndentOption("\t")) })
				safely(func() { e2 = s.WriteToTTML(&b2) })
				if e1 == nil {
					if ref == "" {
						ref = hashBytes(b1.Bytes())
					} else if hashBytes(b1.Bytes()) != ref {
						bad("ttml writer with an indent option: repetition gives different bytes", "determ-ttml-indent")
					}
					if e2 == nil && bytes.Equal(b1.Bytes(), b2.Bytes()) && len(s.Items) > 0 {
						bad("ttml writer: the indent option of one call is still in force in the next call", "determ-ttml-option-leak")
					}
				}
				got := "ERR"
				if e2 == nil {
					got = hashBytes(b2.Bytes())
				}
				if got != first["ttml"] && !strings.HasPrefix(first["ttml"], "PANIC") {
					bad("ttml output depends on the options of an earlier call", "determ-ttml-option-leak")
				}
			}
		}
		// the STL dates come from the metadata when it has them, else from the injectable clock and from nothing else
		for variant := 0; variant < 3; variant++ {
			s3 := c19List(seed, c)
			wantC, wantR := "010203", "010203"
			switch variant {
			case 0:
				if s3.Metadata != nil && s3.Metadata.STLCreationDate != nil {
					wantC = s3.Metadata.STLCreationDate.Format("060102")
				}
				if s3.Metadata != nil && s3.Metadata.STLRevisionDate != nil {
					wantR = s3.Metadata.STLRevisionDate.Format("060102")
				}
			case 1:
				if s3.Metadata != nil {
					m := *s3.Metadata
					m.STLCreationDate, m.STLRevisionDate = nil, nil
					s3.Metadata = &m
				}
			default:
				s3.Metadata = nil
			}
			astisub.Now = func() time.Time { return time.Date(2001, 2, 3, 4, 5, 6, 0, time.UTC) }
			var buf bytes.Buffer
			var err error
			safely(func() { err = s3.WriteToSTL(&buf) })
			fixClock()
			if err == nil && buf.Len() >= 1024 {
				gotC, gotR := string(buf.Bytes()[224:230]), string(buf.Bytes()[230:236])
				if gotC != wantC || gotR != wantR {
					bad(fmt.Sprintf("STL creation/revision dates %s/%s, want %s/%s (metadata dates when present, else the injected clock 2001-02-03)", gotC, gotR, wantC, wantR), "determ-clock-source")
				}
			}
		}
		// clock independence when the metadata supplies the dates
		if s.Metadata != nil && s.Metadata.STLCreationDate != nil && s.Metadata.STLRevisionDate != nil {
			astisub.Now = func() time.Time { return time.Date(1999, 9, 9, 9, 9, 9, 0, time.UTC) }
			var buf bytes.Buffer
			var err error
			safely(func() { err = s.WriteToSTL(&buf) })
			fixClock()
			if err == nil && hashBytes(buf.Bytes()) != first["stl"] {
				bad("STL output depends on the clock although the metadata supplies creation and revision dates", "determ-clock")
			}
		}
		R.add(o)
	}
}
