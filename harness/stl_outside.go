package main

// C05, outside the proviso "text in the Latin repertoire and fits" (audit N9b): what WriteToSTL does there is recorded
// as an OBSERVATION, not judged: the pinned cases below are the ones computed on the model in coq/Proofs/StlOutside.v
// (C05_outside_*).  The characters are outside the model's normalisation tables but have no canonical decomposition
// (NFD leaves them alone), so the model applies without its domain guard: driver suites stlencraw / stlwriteraw /
// stlreadraw = the same functions as stlenc / stlwrite / stlread without the faithful-domain test.

import (
	"bytes"
	"strings"
	"time"

	astisub "github.com/asticode/go-astisub"
)

func suiteStlOutside(R *runner, r *rng) {
	R.rule("outside the C05 proviso, pinned cases (observation, no oracle): code points that are not in the Latin repertoire and have no decomposition (U+0416, U+1F600, U+20AC, U+4E2D, alone and inside text) through encodeTextSTL - written as their low byte -; a cue of 130 letters - cut at 112 bytes without an error -; the written files read back (display standard 0: the reader rejects the byte 0x16; default standard: the character is gone); library vs model byte for byte")
	texts := []string{"Ж", "😀", "€", "中", "aЖb", "x😀", "€€", "中文", "Жж"}
	for _, t := range texts {
		var out []byte
		p := safely(func() { out = astisub.VerifEncodeTextSTL(t) })
		o := &obs{Suite: "stlencraw", Group: "stl.encode_text.outside", Input: (&enc{}).str(t).String(), NT: true, Human: map[string]interface{}{"text": t}}
		if p != "" {
			o.Impl, o.Oracle, o.Sig = "2", "encodeTextSTL panicked: "+p, "stl-encode-panic"
		} else {
			o.Impl = (&enc{}).n(0).bytes(out).String()
			o.Human.(map[string]interface{})["bytes_hex"] = hexShort(out)
		}
		R.count("stl.outside.encode")
		R.add(o)
	}
	saved := astisub.Now
	astisub.Now = func() time.Time { return stlNow }
	defer func() { astisub.Now = saved }()
	for _, dsc := range []string{"", "0", "1"} {
		for _, t := range append(texts, strings.Repeat("x", 130), strings.Repeat("é", 60)) {
			s := astisub.NewSubtitles()
			s.Items = append(s.Items, &astisub.Item{StartAt: time.Second, EndAt: 2 * time.Second, Lines: []astisub.Line{{Items: []astisub.LineItem{{Text: t}}}}})
			if dsc != "" {
				s.Metadata = &astisub.Metadata{Framerate: 25, STLDisplayStandardCode: dsc}
			}
			e := &enc{}
			encSTLWriteInput(e, s)
			h := map[string]interface{}{"text": t, "dsc": dsc}
			o := &obs{Suite: "stlwriteraw", Group: "stl.write.outside", Input: e.String(), NT: true, Human: h}
			var buf bytes.Buffer
			var err error
			p := safely(func() { err = s.WriteToSTL(&buf) })
			switch {
			case p != "":
				o.Impl, o.Oracle, o.Sig = "2", "WriteToSTL panicked: "+p, "stl-write-panic"
			case err != nil:
				o.Impl = "1"
			default:
				o.Impl = (&enc{}).n(0).bytes(buf.Bytes()).String()
				h["text_field_hex"] = hexShort(buf.Bytes()[1024+16:])
			}
			R.count("stl.outside.write")
			R.add(o)
			if p == "" && err == nil {
				// the library's own reader on what it wrote
				ro := stlReadObs(buf.Bytes(), nil, false, "stl.read.outside", map[string]interface{}{"text": t, "dsc": dsc})
				ro.Suite, ro.NT = "stlreadraw", true
				if ro.Impl == "1" {
					R.count("stl.outside.own_file_rejected")
				}
				R.count("stl.outside.read")
				R.add(ro)
			}
		}
	}
}
