package main

// C07, styled EBU STL sources converted to WebVTT and TTML (coq/Model/ConvStlVtt.v, ConvStlTtml.v): ground-truth STL files
// of the C05 generator (metadata, 25/30 fps, display standards 0/1/2, programme start, rows with italic / underline /
// boxing runs and, under the teletext standards, colour and double-height codes, user-data blocks) read by the library and
// written as WebVTT / TTML; the library's destination bytes are compared with the model's conversion (the STL reader's
// WebVTTAlign / WebVTTLine cue settings from justification and vertical position; Metadata.Language -> xml:lang, Title ->
// ttm:title; teletext colours -> TTMLColor).

import (
	"bytes"
	"fmt"

	astisub "github.com/asticode/go-astisub"
)

func suiteConvertStlStyled(R *runner, r *rng) {
	R.rule("styled STL sources -> WebVTT / TTML: C05 ground-truth files (1..5 cues, styled rows, all display standards, programme start, user-data blocks) read by the library and written as WebVTT and TTML; destination bytes vs the models convert_stl_vtt / convert_stl_ttml (cue settings align / line from justification and vertical position; language, title; teletext colours); the destination read back by the library has the cues' times to the millisecond and, line by line, the run texts put together (a cue without lines = a cue with one empty line)")
	N := 30
	if R.tier == "thorough" {
		N = 500
	}
	for c := 0; c < N; c++ {
		f := randSTLFile(r, 5, true, true)
		if f.TNS == 0 {
			continue
		}
		data := renderSTL(r, f)
		for _, dst := range []struct {
			name, suite string
			write       func(*astisub.Subtitles, *bytes.Buffer) error
			read        func([]byte) (*astisub.Subtitles, error)
		}{
			{"vtt", "convstlvtt", func(s *astisub.Subtitles, w *bytes.Buffer) error { return s.WriteToWebVTT(w) },
				func(b []byte) (*astisub.Subtitles, error) { return astisub.ReadFromWebVTT(bytes.NewReader(b)) }},
			{"ttml", "convstlttml", func(s *astisub.Subtitles, w *bytes.Buffer) error { return s.WriteToTTML(w) },
				func(b []byte) (*astisub.Subtitles, error) { return astisub.ReadFromTTML(bytes.NewReader(b)) }},
		} {
			ign := r.chance(1, 3)
			s, err := astisub.ReadFromSTL(bytes.NewReader(data), astisub.STLOptions{IgnoreTimecodeStartOfProgramme: ign})
			if err != nil {
				continue
			}
			var out bytes.Buffer
			o := &obs{Suite: dst.suite, Group: "conv.styled.stl->" + dst.name, Input: (&enc{}).bool(ign).bytes(data).String(), NT: true,
				Human: map[string]interface{}{"file_hex": hexShort(data), "dsc": string(f.DSC), "fps": f.FPS, "ignore_programme_start": ign}}
			R.count("conv.styled.stl->" + dst.name)
			R.count("conv.styled.stl.dsc" + string(f.DSC))
			if stlSourceInDomain(s, dst.name) {
				// the hypotheses of C07_stl_to_vtt_styled / C07_stl_to_ttml_styled, as far as they are visible on the cue list
				R.count("conv.styled.stl->" + dst.name + ".in-theorem-domain")
			}
			var werr error
			p := safely(func() { werr = dst.write(s, &out) })
			switch {
			case p != "":
				o.Impl, o.Oracle, o.Sig = "2", fmt.Sprintf("stl -> %s panicked: %s", dst.name, p), "convstyled-panic"
			case werr != nil:
				o.Impl = "1"
			default:
				o.Impl = (&enc{}).n(0).bytes(out.Bytes()).String()
				// oracle of the property on the implementation: same cues, times to the millisecond, text put together
				back, rerr := dst.read(out.Bytes())
				if rerr != nil {
					o.Oracle, o.Sig = fmt.Sprintf("stl -> %s: the destination is not readable: %v", dst.name, rerr), "convstyled-unreadable"
				} else if len(back.Items) != len(s.Items) {
					o.Oracle, o.Sig = fmt.Sprintf("stl -> %s: %d cues read back, source has %d", dst.name, len(back.Items), len(s.Items)), "convstyled-count"
				} else {
					for i, it := range s.Items {
						b := back.Items[i]
						if int64(b.StartAt) != int64(it.StartAt)/1e6*1e6 || int64(b.EndAt) != int64(it.EndAt)/1e6*1e6 {
							if it.StartAt >= 0 && it.EndAt >= 0 {
								o.Oracle, o.Sig = fmt.Sprintf("stl -> %s: cue %d times %v-%v, source %v-%v", dst.name, i+1, b.StartAt, b.EndAt, it.StartAt, it.EndAt), "convstyled-time"
							}
						}
						if itemNows(b) != itemNows(it) {
							o.Oracle, o.Sig = fmt.Sprintf("stl -> %s: cue %d text %q, source %q", dst.name, i+1, itemNows(b), itemNows(it)), "convstyled-text"
						}
					}
				}
			}
			R.add(o)
		}
	}
}

// the text of a cue, line by line, blanks disregarded; a cue without lines and a cue whose only line is empty are the
// same text (ReadFromTTML gives every <p> at least one line, so an STL cue whose text field is all padding comes back
// from TTML with one empty line)
func itemNows(it *astisub.Item) string {
	t := ""
	if len(it.Lines) == 0 {
		return "/"
	}
	for _, l := range it.Lines {
		t += nows(l.String()) + "/"
	}
	return t
}

// the visible part of stl_vtt_ok / stlttml_ok: times not negative, (ttml) every cue has a line, (vtt) no two adjacent runs
// of one written colour class
func stlSourceInDomain(s *astisub.Subtitles, dst string) bool {
	if len(s.Items) == 0 {
		return false
	}
	class := map[string]string{"#00ffff": "cyan", "#ffff00": "yellow", "#ff0000": "red", "#ff00ff": "magenta"}
	for _, it := range s.Items {
		if it.StartAt < 0 || it.EndAt < 0 {
			return false
		}
		if dst == "ttml" && len(it.Lines) == 0 {
			return false
		}
		for _, l := range it.Lines {
			prev := ""
			for _, li := range l.Items {
				c := ""
				if li.InlineStyle != nil && li.InlineStyle.TTMLColor != nil {
					c = class[*li.InlineStyle.TTMLColor]
				}
				if dst == "vtt" && c != "" && c == prev {
					return false
				}
				prev = c
			}
		}
	}
	return true
}
