package main

// Second audit, N10: the operations on values near the ends of int64.  time.Duration wraps around; the int64 models
// (coq/Model/Ops64.v) do the same arithmetic, so implementation and model must agree out of range as well.  The oracles
// of the properties are applied only where the range hypothesis of the corresponding C..._int64 theorem holds.

import (
	"fmt"
	"math"
	"math/big"
	"time"

	astisub "github.com/asticode/go-astisub"
)

// a value near -2^63, -2^62, 0, 2^62 or 2^63-1
func hugeVal(r *rng) int64 {
	k := r.rangeI64(0, 40)
	if r.chance(1, 4) {
		k = r.rangeI64(0, 4_000_000)
	}
	switch r.intn(7) {
	case 0:
		return math.MinInt64 + k
	case 1:
		return math.MaxInt64 - k
	case 2:
		return -(1 << 62) + k - 20
	case 3:
		return (1 << 62) + k - 20
	case 4:
		return k - 20
	case 5:
		return math.MaxInt64/2 - k
	default:
		return int64(r.u64())
	}
}

func hugeItems(r *rng, n int, ordered bool) []*astisub.Item {
	var items []*astisub.Item
	for i := 0; i < n; i++ {
		s, e := hugeVal(r), hugeVal(r)
		if r.chance(2, 3) && s > e {
			s, e = e, s
		}
		items = append(items, mkItem(s, e, r.pick("a", "b")))
	}
	if ordered {
		for i := 1; i < len(items); i++ {
			for j := i; j > 0 && items[j-1].StartAt > items[j].StartAt; j-- {
				items[j-1], items[j] = items[j], items[j-1]
			}
		}
	}
	return items
}

func inI64(v *big.Int) bool { return v.IsInt64() }
func bigSum(a, b int64) *big.Int {
	return new(big.Int).Add(big.NewInt(a), big.NewInt(b))
}

func suiteAddHuge(R *runner, r *rng) {
	R.rule("add.huge: lists of 1..4 cues whose times lie near -2^63, -2^62, 0, 2^62, 2^63-1 (and random 64-bit values), shifts of the same kind; the int64 model add_dur64 (wrap-around on both additions) must agree with Add whether or not a sum leaves int64; the property's oracle is applied when start <= end and no sum overflows (the range of C09_int64); non-trivial = some sum overflows")
	N := 3000
	if R.tier == "thorough" {
		N = 40000
	}
	for c := 0; c < N; c++ {
		items := hugeItems(r, 1+r.intn(4), false)
		d := hugeVal(r)
		u := uidsOf(items)
		in := &enc{}
		in.i(d)
		encItems(in, items, u)
		before := snapItems(items)
		inRange, wf := true, true
		for _, b := range before {
			if !inI64(bigSum(b.s, d)) || !inI64(bigSum(b.e, d)) {
				inRange = false
			}
			if b.s > b.e {
				wf = false
			}
		}
		o := &obs{Suite: "add64", Group: "add.huge", Input: in.String(), Human: map[string]interface{}{"d_ns": d, "cues": humanItems(items, u)}, NT: !inRange}
		s := &astisub.Subtitles{Items: items}
		p := safely(func() { s.Add(time.Duration(d)) })
		if p != "" {
			o.Impl, o.Oracle, o.Sig = "PANIC", "Add panicked: "+p, "add-panic"
			R.add(o)
			continue
		}
		o.Impl = itemsString(s.Items, u)
		if inRange && wf {
			o.Oracle = oracleAdd(before, d, s.Items)
		}
		R.add(o)
	}
}

func suiteForceHuge(R *runner, r *rng) {
	R.rule("force.huge: start-ordered lists of 0..4 cues with times near the ends of int64 and targets of the same kind (incl. within 1 ms of MinInt64, where the filler's start d - 1ms wraps), filler on and off; the int64 model force_duration64 must agree with ForceDuration; non-trivial = d - 1 ms leaves int64")
	N := 3000
	if R.tier == "thorough" {
		N = 40000
	}
	for c := 0; c < N; c++ {
		items := hugeItems(r, r.intn(5), true)
		d := hugeVal(r)
		if r.chance(1, 4) {
			d = math.MinInt64 + r.rangeI64(0, 2_000_000)
		}
		dummy := r.chance(1, 2)
		u := uidsOf(items)
		in := &enc{}
		in.i(d).bool(dummy).n(0)
		encItems(in, items, u)
		o := &obs{Suite: "force64", Group: "force.huge", Input: in.String(), Human: map[string]interface{}{"d_ns": d, "filler": dummy, "cues": humanItems(items, u)},
			NT: !inI64(new(big.Int).Sub(big.NewInt(d), big.NewInt(1_000_000)))}
		s := &astisub.Subtitles{Items: items}
		p := safely(func() { s.ForceDuration(time.Duration(d), dummy) })
		if p != "" {
			o.Impl, o.Oracle, o.Sig = "PANIC", "ForceDuration panicked: "+p, "force-panic"
			R.add(o)
			continue
		}
		o.Impl = itemsString(s.Items, u)
		R.add(o)
	}
}

// does the library's loop for one cue stop within bound tests of its condition?  (Go's own wrapping arithmetic; this is
// only the guard that keeps the harness from calling a Fragment that would not return.)
func fragmentStops(s, e, f int64, bound int) bool {
	b := s - s%f
	if b <= s {
		b += f
	}
	for n := 0; n < bound; n++ {
		if !(b < e) {
			return true
		}
		b += f
	}
	return false
}

func suiteFragmentHuge(R *runner, r *rng) {
	const bound = 48
	R.rule(fmt.Sprintf("fragment.huge: start-ordered lists of 1..3 cues with times near the ends of int64 and periods near 2^62, 2^63-1, 2^61 and small ones; a harness-side replay of the loop decides whether every cue's loop stops within %d tests: if so Fragment is called and must agree with the int64 model fragment64 (fuel %d: the same number of tests) also when += f wrapped on the way; otherwise Fragment is NOT called (it would not return) and the model must say 'still running' (None) with that fuel; the property's oracle is applied inside the range of C10_int64; non-trivial = some += f wraps", bound, bound))
	N := 3000
	if R.tier == "thorough" {
		N = 40000
	}
	for c := 0; c < N; c++ {
		items := hugeItems(r, 1+r.intn(3), true)
		var f int64
		switch r.intn(5) {
		case 0:
			f = (1 << 62) + r.rangeI64(-3, 3)
		case 1:
			f = math.MaxInt64 - r.rangeI64(0, 5)
		case 2:
			f = (1 << 61) + r.rangeI64(-3, 3)
		case 3:
			f = 1 + r.i64n(1000)
		default:
			f = 1 + r.i64n(math.MaxInt64-1)
		}
		u := uidsOf(items)
		in := &enc{}
		in.n(bound).i(f)
		encItems(in, items, u)
		before := snapItems(items)
		stops, inRange := true, true
		for _, b := range before {
			if !fragmentStops(b.s, b.e, f, bound) {
				stops = false
			}
			if !inI64(bigSum(b.s, f)) || !inI64(bigSum(b.e, f)) {
				inRange = false
			}
		}
		o := &obs{Suite: "fragment64", Group: "fragment.huge", Input: in.String(), Human: map[string]interface{}{"f_ns": f, "cues": humanItems(items, u), "loop_stops": stops}, NT: !inRange}
		if !stops {
			o.Group = "fragment.huge.diverges"
			o.Impl = "1"
			R.add(o)
			continue
		}
		s := &astisub.Subtitles{Items: items}
		p := safely(func() { s.Fragment(time.Duration(f)) })
		if p != "" {
			o.Impl, o.Oracle, o.Sig = "PANIC", "Fragment panicked: "+p, "fragment-panic"
			R.add(o)
			continue
		}
		o.Impl = "0 " + itemsString(s.Items, u)
		if inRange {
			wf := true
			for _, b := range before {
				if b.s >= b.e {
					wf = false
				}
			}
			if wf {
				o.Oracle = oracleFragment(before, f, s.Items)
			}
		}
		R.add(o)
	}
}

func suiteUnfragmentHuge(R *runner, r *rng) {
	R.rule("unfragment.huge / order.huge: lists of 0..5 cues, two texts, times near the ends of int64; Unfragment and Order do no arithmetic: the models of Model/Ops.v are their int64 models and must agree; every result time is an input time; non-trivial = always")
	N := 2000
	if R.tier == "thorough" {
		N = 20000
	}
	for c := 0; c < N; c++ {
		for _, op := range []string{"unfragment", "order"} {
			items := hugeItems(r, r.intn(6), false)
			u := uidsOf(items)
			in := &enc{}
			encItems(in, items, u)
			seen := map[int64]bool{}
			for _, it := range items {
				seen[int64(it.StartAt)], seen[int64(it.EndAt)] = true, true
			}
			o := &obs{Suite: op, Group: op + ".huge", Input: in.String(), Human: map[string]interface{}{"cues": humanItems(items, u)}, NT: true}
			s := &astisub.Subtitles{Items: items}
			p := safely(func() {
				if op == "order" {
					s.Order()
				} else {
					s.Unfragment()
				}
			})
			if p != "" {
				o.Impl, o.Oracle, o.Sig = "PANIC", op+" panicked: "+p, op+"-panic"
				R.add(o)
				continue
			}
			o.Impl = itemsString(s.Items, u)
			for _, it := range s.Items {
				if !seen[int64(it.StartAt)] || !seen[int64(it.EndAt)] {
					o.Oracle = "a result time is not one of the input times"
				}
			}
			R.add(o)
		}
	}
}

func suiteLinHuge(R *runner, r *rng) {
	R.rule("lincorr.huge: reference quadruples and boundaries near the ends of int64 (differences that wrap, slopes of any size and sign, a1 = a2 excluded); the int64 model linear_correction64 - wrapping subtractions, float64 -> int64 conversion yielding MinInt64 outside int64 as on amd64, wrapping sum - must agree bit for bit; amd64 only (the conversion is implementation-defined); non-trivial = always")
	N := 2000
	if R.tier == "thorough" {
		N = 20000
	}
	for c := 0; c < N; c++ {
		a1, d1, a2, d2 := hugeVal(r), hugeVal(r), hugeVal(r), hugeVal(r)
		if a1 == a2 {
			continue
		}
		items := hugeItems(r, 1+r.intn(3), false)
		u := uidsOf(items)
		in := &enc{}
		in.i(a1).i(d1).i(a2).i(d2)
		encItems(in, items, u)
		o := &obs{Suite: "lincorr64", Group: "lincorr.huge", Input: in.String(), Human: map[string]interface{}{"a1": a1, "d1": d1, "a2": a2, "d2": d2, "cues": humanItems(items, u)}, NT: true}
		s := &astisub.Subtitles{Items: items}
		p := safely(func() {
			s.ApplyLinearCorrection(time.Duration(a1), time.Duration(d1), time.Duration(a2), time.Duration(d2))
		})
		if p != "" {
			o.Impl, o.Oracle, o.Sig = "PANIC", "ApplyLinearCorrection panicked: "+p, "lin-panic"
			R.add(o)
			continue
		}
		o.Impl = itemsString(s.Items, u)
		R.add(o)
	}
}
