package main

// C07 plain view, EBU STL (format code 3): the library's reader and writer as the conversion suite uses them.  The
// writer runs with the clock fixed to the value the model's stl_enc uses (Model/PlainStl.v: stl_plain_now).

import (
	"bytes"
	"time"

	astisub "github.com/asticode/go-astisub"
)

func init() {
	// ReadFromSTL sets inline attributes on every cue (propagateSTLAttributes: WebVTTAlign from the justification code,
	// WebVTTLine from the vertical position), which WriteToWebVTT emits as cue settings ("align:left line:82%"); the
	// plain view (times and line texts) does not carry them, so the bytes differ from vtt_enc of the plain cues.  The
	// cues themselves (times, texts) are covered for this pair by suiteConvert's oracle.  The pair itself, cue settings
	// and colours included, is modelled by coq/Model/ConvStlVtt.v and compared byte for byte by suiteConvertStlStyled
	// (conv_stl_src.go, group conv.styled.stl->vtt).
	plainSkipPairs["stl->vtt"] = "STL reader sets WebVTTAlign/WebVTTLine, written by the WebVTT writer as cue settings"
	// ReadFromSTL fills Metadata.Language from the GSI language code (the writer's default "0F" = French), which
	// WriteToTTML emits as xml:lang; the plain view carries no metadata, so ttml_enc of the plain cues has no xml:lang.
	// The cues themselves are covered for this pair by suiteConvert's oracle.  The pair itself, language, title and
	// colours included, is modelled by coq/Model/ConvStlTtml.v and compared byte for byte by suiteConvertStlStyled
	// (group conv.styled.stl->ttml).
	plainSkipPairs["stl->ttml"] = "STL reader sets Metadata.Language from the GSI block, written by the TTML writer as xml:lang"
	// styled sources into STL: modelled by coq/Model/ConvStl.v (the writer joins the line items of a line with a blank; SSA
	// carries the script's title, TTML frame rate / title / language)
	plainStyledModels["srt->stl"] = "convsrtstl"
	plainStyledModels["vtt->stl"] = "convvttstl"
	plainStyledModels["ssa->stl"] = "convssastl"
	plainStyledModels["ttml->stl"] = "convttmlstl"
	plainCodecs = append(plainCodecs, plainCodec{3, "stl", 4e7,
		func(b []byte) (*astisub.Subtitles, error) {
			return astisub.ReadFromSTL(bytes.NewReader(b), astisub.STLOptions{})
		},
		func(s *astisub.Subtitles, w *bytes.Buffer) error {
			saved := astisub.Now
			astisub.Now = func() time.Time { return stlNow }
			defer func() { astisub.Now = saved }()
			return s.WriteToSTL(w)
		}})
}
