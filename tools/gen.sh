#!/bin/bash
# Translators: regenerate coq/Gen/*.v from the repository's current working tree.
# usage: tools/gen.sh <repo> <builddir>
set -e
REPO=$1; BUILD=$2
HERE="$(cd "$(dirname "$0")/.." && pwd)"
export GOFLAGS=-mod=mod GOPROXY=off GOSUMDB=off GOTOOLCHAIN=local
mkdir -p "$BUILD" "$HERE/coq/Gen"
if [ ! -x "$BUILD/geneffects" ] || [ "$HERE/tools/geneffects/main.go" -nt "$BUILD/geneffects" ]; then
  (cd "$HERE/tools/geneffects" && go build -o "$BUILD/geneffects" .)
fi
"$BUILD/geneffects" "$REPO" > "$BUILD/Effects.v.new"
if ! cmp -s "$BUILD/Effects.v.new" "$HERE/coq/Gen/Effects.v"; then cp "$BUILD/Effects.v.new" "$HERE/coq/Gen/Effects.v"; fi
