#!/bin/bash
# Translators: regenerate coq/Gen/*.v from the repository's current working tree.
# usage: tools/gen.sh <repo> <builddir>
set -e
REPO=$1; BUILD=$2
HERE="$(cd "$(dirname "$0")/.." && pwd)"
export GOFLAGS=-mod=mod GOPROXY=off GOSUMDB=off GOTOOLCHAIN=local
mkdir -p "$BUILD" "$HERE/coq/Gen"
if [ ! -x "$BUILD/geneffects" ] || [ "$HERE/tools/geneffects/main.go" -nt "$BUILD/geneffects" ]; then
  (cd "$HERE/tools/geneffects" && go build -o "$BUILD/geneffects" .)
fi
"$BUILD/geneffects" "$REPO" > "$BUILD/Effects.v.new"
if ! cmp -s "$BUILD/Effects.v.new" "$HERE/coq/Gen/Effects.v"; then cp "$BUILD/Effects.v.new" "$HERE/coq/Gen/Effects.v"; fi
# teletext tables (C06): built against the repository's working tree with the verif tag on every run
rm -rf "$BUILD/genttx-src" && mkdir -p "$BUILD/genttx-src"
cp "$HERE/tools/genttx/main.go" "$BUILD/genttx-src/"
sed "s#=> /repo#=> $REPO#" "$HERE/tools/genttx/go.mod" > "$BUILD/genttx-src/go.mod"
cp "$REPO/go.sum" "$BUILD/genttx-src/go.sum"
(cd "$BUILD/genttx-src" && go build -tags verif -o "$BUILD/genttx" .)
"$BUILD/genttx" > "$BUILD/TtxTables.v.new"
if ! cmp -s "$BUILD/TtxTables.v.new" "$HERE/coq/Gen/TtxTables.v"; then cp "$BUILD/TtxTables.v.new" "$HERE/coq/Gen/TtxTables.v"; fi

# ---- EBU STL tables (C05): tools/gentables built against the repository with the verif hooks
GT="$BUILD/gentables-src"
mkdir -p "$GT"
cp "$HERE/tools/gentables/main.go" "$GT/main.go"
cat > "$GT/go.mod" <<MOD
module gentables

go 1.21

require github.com/asticode/go-astisub v0.0.0

replace github.com/asticode/go-astisub => $REPO
MOD
cp "$REPO/go.sum" "$GT/go.sum"
(cd "$GT" && go build -tags verif -o "$BUILD/gentables" .)
"$BUILD/gentables" > "$BUILD/StlTables.v.new"
if ! cmp -s "$BUILD/StlTables.v.new" "$HERE/coq/Gen/StlTables.v"; then cp "$BUILD/StlTables.v.new" "$HERE/coq/Gen/StlTables.v"; fi

# ---- constants of the source (tools/genconsts: go/packages over the repository, no build tag needed)
if [ ! -x "$BUILD/genconsts" ] || [ "$HERE/tools/genconsts/main.go" -nt "$BUILD/genconsts" ]; then
  (cd "$HERE/tools/genconsts" && go build -o "$BUILD/genconsts" .)
fi
"$BUILD/genconsts" "$REPO" "$BUILD/funcs.json" > "$BUILD/Consts.v.new"
if ! cmp -s "$BUILD/Consts.v.new" "$HERE/coq/Gen/Consts.v"; then cp "$BUILD/Consts.v.new" "$HERE/coq/Gen/Consts.v"; fi
