module genttx

go 1.21

require github.com/asticode/go-astisub v0.0.0

replace github.com/asticode/go-astisub => /repo
