module genconsts

go 1.22.0

toolchain go1.23.5

require golang.org/x/tools v0.29.0

require (
	golang.org/x/mod v0.22.0 // indirect
	golang.org/x/sync v0.10.0 // indirect
)
