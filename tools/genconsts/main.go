// genconsts: dumps the constants of the library's *current* source as a Coq file (coq/Gen/Consts.v): every package-level
// constant (strings as byte lists, integers as Z), the regular expressions handed to regexp.MustCompile by package-level
// variables, the pairs of every package-level bidirectional map built by a chain of .Set(k, v) calls with constant
// arguments, package-level string slices / string-keyed maps with constant entries, and the xml struct tags of every
// struct type.  The models' literals are proved equal to these by reflexivity (Proofs/ConstTie*.v), so a constant edited
// in the Go source breaks a proof obligation of the property that depends on it.  Output is deterministic (sorted).
package main

import (
	"bufio"
	"bytes"
	"crypto/sha1"
	"encoding/json"
	"fmt"
	"go/ast"
	"go/constant"
	"go/printer"
	"go/token"
	"go/types"
	"os"
	"path/filepath"
	"reflect"
	"sort"
	"strconv"
	"strings"

	"golang.org/x/tools/go/packages"
)

var w = bufio.NewWriter(os.Stdout)

func bytesOf(s string) string {
	p := make([]string, 0, len(s))
	for i := 0; i < len(s); i++ {
		p = append(p, strconv.Itoa(int(s[i])))
	}
	return "[" + strings.Join(p, "; ") + "]"
}

// text for Coq comments: printable ASCII without quotes, comment brackets and backslashes
func safe(s string) string {
	var b strings.Builder
	for _, r := range s {
		if r >= ' ' && r < 127 && r != '"' && r != '*' && r != '(' && r != ')' && r != '\\' {
			b.WriteRune(r)
		} else {
			fmt.Fprintf(&b, "<U+%04X>", r)
		}
	}
	return b.String()
}

// a constant value as a Coq term of type cval
func cval(v constant.Value) (string, bool) {
	switch v.Kind() {
	case constant.String:
		return "CS " + bytesOf(constant.StringVal(v)), true
	case constant.Int:
		return "CI (" + v.ExactString() + ")", true
	case constant.Bool:
		if constant.BoolVal(v) {
			return "CI 1", true
		}
		return "CI 0", true
	}
	return "", false
}

type entry struct{ name, body, comment string }

func main() {
	dir := os.Args[1]
	cfg := &packages.Config{Mode: packages.NeedName | packages.NeedFiles | packages.NeedSyntax | packages.NeedTypes | packages.NeedTypesInfo | packages.NeedImports | packages.NeedDeps, Dir: dir, Fset: token.NewFileSet()}
	pkgs, err := packages.Load(cfg, ".")
	if err != nil || len(pkgs) != 1 || len(pkgs[0].Errors) > 0 {
		fmt.Fprintln(os.Stderr, "genconsts: cannot load the package:", err, pkgs)
		os.Exit(1)
	}
	pkg := pkgs[0]
	info := pkg.TypesInfo
	var out []entry
	// fingerprints of the function bodies (second argument: where to write them): file -> function -> hash of the
	// declaration printed without comments.  bin/check compares them with the pinned list to notice that the source a
	// model was transcribed from has changed (which widens the search; it is not a verdict).
	funcs := map[string]map[string]string{}
	// 1. constants
	scope := pkg.Types.Scope()
	for _, n := range scope.Names() {
		if c, ok := scope.Lookup(n).(*types.Const); ok {
			switch c.Val().Kind() {
			case constant.String:
				s := constant.StringVal(c.Val())
				out = append(out, entry{"gc_" + n, ": str := " + bytesOf(s), "const " + n + " = " + safe(s)})
			case constant.Int:
				out = append(out, entry{"gc_" + n, ": Z := (" + c.Val().ExactString() + ")", "const " + n})
			}
		}
	}
	// 2. package-level variables
	constOf := func(e ast.Expr) (string, bool) {
		if tv, ok := info.Types[e]; ok && tv.Value != nil {
			return cval(tv.Value)
		}
		// a named package-level value that is not a constant (e.g. a *Color variable): by name
		if id, ok := e.(*ast.Ident); ok {
			return "CN " + bytesOf(id.Name), true
		}
		if u, ok := e.(*ast.UnaryExpr); ok && u.Op == token.AND {
			if id, ok := u.X.(*ast.Ident); ok {
				return "CN " + bytesOf(id.Name), true
			}
		}
		return "", false
	}
	var setChain func(e ast.Expr) ([]string, bool)
	setChain = func(e ast.Expr) ([]string, bool) {
		call, ok := e.(*ast.CallExpr)
		if !ok {
			return nil, false
		}
		sel, ok := call.Fun.(*ast.SelectorExpr)
		if !ok {
			return nil, false
		}
		if sel.Sel.Name == "NewBiMap" && len(call.Args) == 0 {
			return []string{}, true
		}
		if sel.Sel.Name != "Set" || len(call.Args) != 2 {
			return nil, false
		}
		prev, ok := setChain(sel.X)
		if !ok {
			return nil, false
		}
		a, ok1 := constOf(call.Args[0])
		b, ok2 := constOf(call.Args[1])
		if !ok1 || !ok2 {
			return nil, false
		}
		return append(prev, "("+a+", "+b+")"), true
	}
	for _, f := range pkg.Syntax {
		fname := pkg.Fset.Position(f.Pos()).Filename
		if strings.HasSuffix(fname, "_test.go") || strings.Contains(fname, "verif_hooks") {
			continue
		}
		for _, d := range f.Decls {
			if fd, ok := d.(*ast.FuncDecl); ok && fd.Body != nil {
				// 4. the string literals of every function body (sorted, without duplicates)
				name := fd.Name.Name
				if fd.Recv != nil && len(fd.Recv.List) == 1 {
					t := fd.Recv.List[0].Type
					if st, ok := t.(*ast.StarExpr); ok {
						t = st.X
					}
					if id, ok := t.(*ast.Ident); ok {
						name = id.Name + "_" + name
					}
				}
				{
					doc := fd.Doc
					fd.Doc = nil
					var pb bytes.Buffer
					printer.Fprint(&pb, pkg.Fset, fd)
					fd.Doc = doc
					base := filepath.Base(fname)
					if funcs[base] == nil {
						funcs[base] = map[string]string{}
					}
					funcs[base][name] = fmt.Sprintf("%x", sha1.Sum(pb.Bytes()))[:16]
				}
				seen := map[string]bool{}
				ast.Inspect(fd.Body, func(n ast.Node) bool {
					if bl, ok := n.(*ast.BasicLit); ok && bl.Kind == token.STRING {
						if sv, err := strconv.Unquote(bl.Value); err == nil {
							seen[sv] = true
						}
					}
					return true
				})
				if len(seen) > 0 {
					var ks []string
					for k := range seen {
						ks = append(ks, k)
					}
					sort.Strings(ks)
					var items, cm []string
					for _, k := range ks {
						items = append(items, bytesOf(k))
						cm = append(cm, safe(k))
					}
					out = append(out, entry{"gc_strs_" + name, ": list str :=\n  [" + strings.Join(items, ";\n   ") + "]", "string literals in the body of " + name + ": " + strings.Join(cm, " | ")})
				}
				continue
			}
			gd, ok := d.(*ast.GenDecl)
			if !ok {
				continue
			}
			if gd.Tok == token.TYPE {
				// 3. xml struct tags
				for _, sp := range gd.Specs {
					ts := sp.(*ast.TypeSpec)
					st, ok := ts.Type.(*ast.StructType)
					if !ok {
						continue
					}
					var tags []string
					for _, fl := range st.Fields.List {
						if fl.Tag == nil {
							continue
						}
						t, _ := strconv.Unquote(fl.Tag.Value)
						x, ok := reflect.StructTag(t).Lookup("xml")
						if !ok {
							continue
						}
						fn := "_"
						if len(fl.Names) > 0 {
							fn = fl.Names[0].Name
						} else if id, ok := fl.Type.(*ast.Ident); ok {
							fn = id.Name
						}
						tags = append(tags, "("+bytesOf(fn)+", "+bytesOf(x)+")")
					}
					if len(tags) > 0 {
						out = append(out, entry{"gc_xmltags_" + ts.Name.Name, ": list (str * str) :=\n  [" + strings.Join(tags, ";\n   ") + "]", "xml struct tags of type " + ts.Name.Name + " (field, tag), in declaration order"})
					}
				}
				continue
			}
			if gd.Tok != token.VAR {
				continue
			}
			for _, sp := range gd.Specs {
				vs := sp.(*ast.ValueSpec)
				for i, nm := range vs.Names {
					if i >= len(vs.Values) {
						continue
					}
					v := vs.Values[i]
					// regexp.MustCompile("...")
					if call, ok := v.(*ast.CallExpr); ok {
						if sel, ok := call.Fun.(*ast.SelectorExpr); ok && sel.Sel.Name == "MustCompile" && len(call.Args) == 1 {
							if tv, ok := info.Types[call.Args[0]]; ok && tv.Value != nil && tv.Value.Kind() == constant.String {
								s := constant.StringVal(tv.Value)
								out = append(out, entry{"gc_re_" + nm.Name, ": str := " + bytesOf(s), "regexp.MustCompile pattern of var " + nm.Name + ": " + safe(s)})
								continue
							}
						}
						if pairs, ok := setChain(v); ok {
							out = append(out, entry{"gc_bimap_" + nm.Name, ": list (cval * cval) :=\n  [" + strings.Join(pairs, ";\n   ") + "]", "bidirectional map " + nm.Name + ": the Set(k, v) calls in source order"})
							continue
						}
					}
					if cl, ok := v.(*ast.CompositeLit); ok {
						var items []string
						good := len(cl.Elts) > 0
						for _, el := range cl.Elts {
							if kv, ok := el.(*ast.KeyValueExpr); ok {
								a, ok1 := constOf(kv.Key)
								b, ok2 := constOf(kv.Value)
								if !ok1 || !ok2 {
									good = false
									break
								}
								items = append(items, "("+a+", "+b+")")
							} else {
								a, ok1 := constOf(el)
								if !ok1 {
									good = false
									break
								}
								items = append(items, "("+a+", CI 0)")
							}
						}
						if good {
							out = append(out, entry{"gc_lit_" + nm.Name, ": list (cval * cval) :=\n  [" + strings.Join(items, ";\n   ") + "]", "composite literal of var " + nm.Name + ": (key, value) entries, or (element, 0) for a slice, in source order"})
						}
					}
				}
			}
		}
	}
	if len(os.Args) > 2 {
		b, _ := json.MarshalIndent(funcs, "", " ")
		if err := os.WriteFile(os.Args[2], append(b, '\n'), 0o644); err != nil {
			fmt.Fprintln(os.Stderr, "genconsts:", err)
			os.Exit(1)
		}
	}
	sort.Slice(out, func(i, j int) bool { return out[i].name < out[j].name })
	fmt.Fprintln(w, "(* GENERATED by tools/genconsts from the repository's current source on every run - do not edit. *)")
	fmt.Fprint(w, "From Coq Require Import List NArith ZArith.\nFrom Astisub Require Import Kit.Base.\nImport ListNotations.\nOpen Scope N_scope.\n\n")
	fmt.Fprint(w, "(* a constant value: a string (bytes), an integer, or the name of a package-level value *)\nInductive cval := CS (s : str) | CI (z : Z) | CN (name : str).\n\n")
	for _, e := range out {
		body := e.body
		if strings.HasPrefix(body, ": Z :=") || strings.Contains(body, "CI (") {
			// integers are written in Z scope
			body = strings.Replace(body, ":=", ":= (", 1) + ")%Z"
			if strings.Contains(e.body, "cval") {
				body = e.body
			}
		}
		fmt.Fprintf(w, "(* %s *)\nDefinition %s %s.\n\n", e.comment, e.name, body)
	}
	w.Flush()
}
