#!/usr/bin/env python3
"""Writes /verif/MANIFEST.json from the table below (one place to keep claims current)."""
import json, os, subprocess

VERIF = os.path.dirname(os.path.dirname(os.path.abspath(__file__)))

TRUST = ("Trusted: Coq 8.16.1 kernel (vm_compute where stated; no native_compute); axioms exactly as Print Assumptions "
         "reports under each theorem (listed in the evidence file); extraction with ExtrOcamlBasic only (N/Z/positive kept "
         "inductive) + ocaml/driver.ml glue; the hand-written Gallina models (coq/Model) are transcriptions of the Go code "
         "and are tied to /repo only by the correspondence suites of the Go harness (generators, oracles, diffing) run on "
         "every check against the working tree; library contracts named in DESIGN.md section 6.")

# id -> (claimed?, level text, technique, extra note / not-applicable reason)
CHECKS = {
    "C01": (True,
            "Theorems for ALL cue lists (any number of cues; the line-length limit of the real reader - 65535 bytes, C17/C18 - is not part of the writer/reader model, so the round trip is claimed for lines below it): every representable list (times >= 0 in int64 range; no blank runs - the writer drops them -, no adjacent unstyled runs, no edge white space inside a run, no SRTPosition; lines "
            "of styled runs with bold/italic/underline/font colour, arbitrary UTF-8 text incl. '&', '<' and no-break space, free of line "
            "terminators and '-->') is written to a document that the reader model maps back to the same cues - times truncated to the "
            "millisecond, cues numbered 1..n, every line and run unchanged (C01_write_read); a written line parses back to its runs; "
            "unescape is a left inverse of escape on every byte string; LF, CR LF and lone CR renderings of any line list denote the same "
            "document, an unterminated last line included; the reader never panics. The reader/writer/markup models are run (extracted) "
            "against ReadFromSRT/WriteToSRT on every generated case; the reading half over all tolerated renderings (BOM, index "
            "present/absent/garbage, 1..3 blank lines, 0..3 at EOF, ',' or '.', 1..3 fraction digits, coordinates, spacing, unterminated and "
            "multi-line emphasis tags, line ends straddling the scanner's buffer boundary) is decided on the implementation by a ground-truth "
            "oracle, the writing half by an independent SubRip decoder written in the harness.",
            "Rocq proof over a Gallina model of the SubRip reader, writer and markup parser + extracted-model differential correspondence",
            "golang.org/x/net/html's tokenizer is modelled on the fragment html_simple (tags b/i/u/font with a color attribute, text, "
            "comments; see Kit/Html.v); the representability predicates imply html_simple for every line the theorems talk about "
            "(C01_*_in_faithful_domain; colours without '&'/CR/NUL, no raw-text elements in raw lines - each exclusion shown necessary by "
            "a computed counter-example, C01_needs_*), outside it the harness compares only whether the call panics (model class Panic vs a Go panic; the Ok/Err distinction is not compared there); the reading of every "
            "tolerated rendering is proved (C01_read_rendered, C01_read_rendered_raw); the writer's output is one of those renderings "
            "(C01_write_is_rendering), so the denotation of the reading theorem is a Coq-side decoder independent of the reader "
            "(C01_write_denotes); checked models with explicit panic sites agree with the models (C01_checked_*); bufio.Scanner is "
            "modelled by Kit/Scan.v (C17); details and the panic-site table in notes/C01.md."),
    "C12": (True,
            "Theorems for all cue lists and all definition maps (no size bound): Order is a sorted, stable permutation and "
            "any stable sort yields the model's result; Merge's cues are the stable ordered union, its definitions the union "
            "with the receiver winning, independent of map iteration order. The model is run (extracted) against "
            "Subtitles.Order/Merge on exhaustive small grids and random pairs incl. nil-map receivers; an independent Go "
            "oracle states the property on the implementation's result.",
            "Rocq proof over a Gallina model + extracted-model differential correspondence",
            "sort.SliceStable is assumed to be a stable sort (the uniqueness theorem turns that contract into Order = order); "
            "pointer identity is modelled by uid tags checked on the Go side."),
    "C09": (True,
            "Theorems for all cue lists (any order, overlaps, no size bound) and all d: Add removes exactly the cues whose end would be <= 0, "
            "keeps the others in order with identity and content untouched, end += d, start = max(0, start + d), and d then -d restores every "
            "cue neither clamped nor removed. The extracted model is run against Subtitles.Add on every list of <=3 cues over a 0..4 grid x "
            "d in -6..6 and on random ns-granular lists; an independent Go oracle states the property on the implementation's result.",
            "Rocq proof over a Gallina model + extracted-model differential correspondence",
            "the theorems of the first part are over unbounded Z; the int64 layer ties them to Go's arithmetic (see the level text)."),
    "C14": (True,
            "Theorems for all well-formed timelines (start-ordered, non-decreasing ends, start<end; no size bound), all d>0 and both filler "
            "settings: ForceDuration = clipped cues starting before d ++ filler [d-1ms,d) iff requested and the kept part is empty or ends "
            "before d; duration becomes exactly d with a filler; unchanged when already lasting d. The extracted model is run against "
            "Subtitles.ForceDuration on all timelines of <=3/<=4 cues over a 0..8 grid x all d on the half-grid x filler, and on random "
            "timelines; an independent Go oracle states the property.",
            "Rocq proof over a Gallina model + extracted-model differential correspondence",
            "the scan-and-truncate loop is modelled as structural recursion (trim); equality with the loop is established by the correspondence only."),
    "C10": (True,
            "Theorems for all cue lists and all f>0 (no size bound): Fragment's result is a start-ordered permutation of the per-cue "
            "pieces; the pieces of a cue tile [s,e) consecutively, are cut only at multiples of f, none strictly contains a multiple "
            "of f, each carries the original's content; cues containing no multiple are untouched. The model is the transcription of "
            "the repaired per-cue loop (the loop before the fix commit was convicted by the oracle). Extracted model vs "
            "Subtitles.Fragment on the exhaustive grids of the property text (with and without spare slice capacity) and random "
            "ms-granular lists; independent Go oracle (per-cue cutting).",
            "Rocq proof over a Gallina model + extracted-model differential correspondence",
            "fuel-bounded cutting loop with a proved sufficiency bound; Order as in C12."),
    "C11": (True,
            "Theorems for all cue lists with start<=end (any order, no size bound): Unfragment's result is start-ordered, every result "
            "cue is an input cue extended to the end of a same-text cue, the set of texts on screen at every instant is unchanged, no two "
            "same-text cues touch or overlap; ordered lists without touching same-text cues are fixpoints; idempotence; and the inverse law "
            "map proj (unfragment (fragment f l)) = map proj l for every f>0 and every start-ordered list of positive-length cues free of "
            "touching same-text cues. Model and implementation are also composed on exhaustive grids x f in 1..5 and random lists, with "
            "an independent oracle.",
            "Rocq proof over a Gallina model + extracted-model differential correspondence",
            "text identity is Item.String() modelled on the structured text (item_text)."),
    "C13": (True,
            "Theorems for all cue lists with arbitrary reference graphs (no size bound, cyclic parent links included): after Optimize a "
            "definition survives iff its identifier is reachable (inductive relation: cue, run, used region, style inheritance); the "
            "marking function equals that relation (with a fuel-sufficiency argument = termination on cycles); references left resolve "
            "(wf_refs preserved); cues untouched; empty list untouched; idempotent; RemoveStyling leaves no styling and keeps times, "
            "text, voices, order. On TTML documents (the format with style inheritance and region styles): a definition survives exactly "
            "when reachable, idempotent, representability preserved, and the optimized document is written, parsed and read back "
            "THROUGH BYTES with the same cues and metadata as the original, for every indent option. Extracted models vs "
            "Optimize/RemoveStyling on random graphs and vs Optimize on documents read by ReadFromTTML (full value comparison); "
            "independent Go reachability oracles; write/read round trip after optimizing.",
            "Rocq proof over Gallina models (generic cue list and TTML document) + extracted-model differential correspondence",
            "pointers are modelled by identifiers under the well-formedness 'every pointer is the map entry for its ID', which the "
            "generators respect; the write/read-back half for the other formats is exercised under C07 (styled sources with Optimize)."),
    "C16": (True,
            "Theorems for every non-negative int64 instant (no 100 h bound) and k in 1..3 fraction digits, separator ',' or '.': the "
            "rendering has the format's grammar (two-digit minutes/seconds below 60, exactly k fraction digits), the reader maps it to "
            "t - t mod unit (the latest representable instant not after t), re-formatting that value gives the same string, and the "
            "value is monotone in t; STL (0 < fps < 100, t < 24 h): frame = latest frame not after t, below fps, reader within 1 ns, "
            "second write identical. String-level model (Split/TrimSpace/Atoi/Itoa/StrPad) run against formatDuration/parseDuration "
            "and the STL functions through verif hooks on boundaries +-1 ns and random instants; integer oracle in Go; thorough tier "
            "sweeps every millisecond of 24 h and every STL (h,m,s,frame) on the implementation. The float64 expressions of "
            "formatDuration are modelled in Flocq (frac_float) and compared with the implementation.",
            "Rocq proof over a Gallina string-level model + extracted-model differential correspondence",
            "field-width facts (two digits for values < 100, k digits for values < 10^k) are finite sweeps closed by vm_compute; "
            "formatDurationSTL's float64 Hours()/Minutes()/Seconds() floors are transcribed in Flocq binary64 (Model/DurFloat.v, "
            "Model/StlFloat.v) and PROVED equal to the integer model for every frame rate: below 24 h (C16_stl_float_path), below 256 h for the separate fields "
            "(C16_stl_float_fields) and below 1024 h (C16_stl_float_path_1024h; the frame field itself is integer arithmetic in the code); the 4-byte cue-boundary form on arbitrary "
            "instants: floor frame, within 1 ns, second write identical, monotone (C16_stl_bytes); the float theorems print the "
            "standard-library Reals axioms."),
    "C15": (True,
            "Theorems (Flocq, binary64 with round-to-nearest-even): for all reference points and boundaries in [0,24h] with exact slope "
            "in [1/2,2] (either orientation), the value computed in the code's evaluation order is within 3 ns of the exact affine map "
            "d1+(t-a1)(d2-d1)/(a2-a1) (hence a1->d1, a2->d2 within 3 ns), is monotone in t, and text/style/identity/order are untouched. "
            "The executable Flocq model is compared bit for bit with ApplyLinearCorrection on random quadruples (NTSC/PAL ratios, slopes "
            "0.5..2, swapped references) x cue lists; oracle: big.Rat evaluation with the property's 1 us tolerance.",
            "Rocq/Flocq proof over a binary64 model + extracted-model bit-exact correspondence",
            "Axioms: the standard library's real-number axioms (ClassicalDedekindReals.sig_not_dec, sig_forall_dec, "
            "functional_extensionality_dep, Classical_Prop.classic) as printed by Print Assumptions; Go on amd64 does not fuse "
            "float operations (assumption, exercised by the bit-exact comparison); int64 conversion of in-range values truncates."),
    "C17": (True,
            "Theorems for all byte strings and all schedules of read sizes (zero-length reads, data with EOF, any number of reads): the "
            "tokens delivered by the line scanner are exactly lines(data) (LF, CRLF, lone CR each one break), so the SubRip, WebVTT and "
            "SSA/ASS reader models are schedule-independent; the split function is stable under extension of the buffer; an STL block "
            "present in full is returned whole for every schedule, fewer bytes give end-of-file (none) or an error (some), and the STL "
            "reader with its blocks obtained through readNBytes under ANY schedule equals the one-shot reader; with bufio.Scanner's "
            "buffer limit (Kit/ScanLim.v, max = 65536 as newScanner never calls Buffer): within the bound the tokens are lines(data) for "
            "every schedule, the exact boundary per line end (LF 65535, CR LF / CR 65534, last line 65535) is proved and matches a probe "
            "on the library, and the result depends on the schedule only for a last line that exactly fills the buffer. Tie: the scanner, "
            "readNBytes and the STL reader under harness-controlled schedules against the extracted models (exhaustive over "
            "{a,CR,LF}^<=5 x every split); the readers of all six formats (teletext transport streams included, read with PID/page auto-detection through a seekable scheduled reader) are run on every single split point / one-byte reads / random "
            "chunkings and, for the five text/binary formats, 4096-65536-aligned splits of a large document, and compared with the one-shot result.",
            "Rocq proof over scanner/block-reader/reader models + extracted-model correspondence + exhaustive split-point enumeration",
            "bufio.Scanner's buffer growth/compaction is a library contract: the models are the abstract scanner in which each read appends "
            "an arbitrary prefix of the unread bytes, and its capacity-limited refinement (io.ErrNoProgress after 100 empty reads not "
            "modelled); TTML hands the stream to xml.Decoder and teletext to "
            "astits: their read loops are named contracts (the models start after them and have no schedule parameter), covered only by the "
            "schedule enumeration on the implementation - which found that astits detects the packet size from a single first Read (a stream "
            "delivering fewer than 193 bytes first failed): repaired in the library (repo b00351a: every Read of the demuxer is filled), seed C17-teletext-short-first-read. "
            "Non-seekable readers are a different kind of reader (astits cannot rewind after PID detection), not a different schedule: not compared with seekable ones."),
    "C18": (True,
            "Theorems: the SubRip, WebVTT and SSA/ASS reader models return an error whenever the scanner stopped on an error (a read "
            "fault at any offset under any schedule, or an over-long line), whatever was delivered before; the STL reader returns an "
            "error for a stream failing after any prefix under any schedule - also exactly on a block boundary - and for an end-of-file "
            "inside a block (both with the error proved not to be the out-of-fuel one); a line longer than the scanner's buffer makes "
            "every line-based reader fail under every schedule after delivering a prefix (C18_too_long), and over both ways a stream "
            "can end and for any destination a successful return means the complete document (C18_success_means_complete, "
            "C18_limit_success_means_complete, C18_writes_ok_complete); a writer modelled as its list of checked Write calls fails when the destination fails before the end of "
            "the document and hands over every byte otherwise: instantiated for the SubRip and WebVTT writers (one Write), the SSA/ASS "
            "writer (up to three), the STL writer (one per block), and the TTML writer for ANY cut of its bytes into checked Writes. "
            "Tie: every reader, the teletext reader on generated transport streams included, is run with a read fault injected at every offset (sampled on big documents; TTML up to the end of the "
            "root element; the fault is sticky - a stream that fails once and then reports end-of-file is not exercised), on lines of 2^16..2^20 bytes, every writer against a destination failing after k bytes for every k, the STL "
            "reader/writer fault models against the implementation, and the file helpers on missing/uncreatable paths.",
            "Rocq proof over reader/writer error-propagation models + exhaustive fault-offset enumeration on the implementation",
            "xml.Decoder/Encoder buffering (TTML) and the transport-stream demultiplexer (teletext) are contracts: for them the level is "
            "fault enumeration on the implementation; the file-level helpers are exercised, not modelled."),
    "C19": (True,
            "Theorems: for any function folded over the SORTED keys of a definition map, the result does not depend on the order in "
            "which the runtime ranges over the map; sorting forgets the iteration order; the WebVTT and SSA/ASS writer models take the "
            "iteration orders of their maps as parameters and their bytes are independent of them; the TTML writer's bytes are a function "
            "of (indent, value) invariant under permutation of the style/region tables; the STL writer ranges over no map and depends on "
            "the clock only through the two GSI date fields (offsets 224..235), not at all when the metadata supplies both dates; the "
            "SubRip writer is a function of the cue list alone. The models being pure functions, 'the input is untouched' holds of them "
            "by construction; for the real writers purity and byte-level determinism are decided on the implementation: each generated "
            "list (0..6 styles with heterogeneous SSA attribute sets, WebVTT style blocks spread over several styles, regions, metadata) "
            "is written 50 times in-process, once in each of 4 other processes and in 6 writer orders, with deep snapshots of the list "
            "before/after and a moving clock when the metadata supplies the STL dates; every writer model's bytes equal the library's "
            "on every case of C01-C05.",
            "Rocq proof over the writer models (map-order and clock independence) + repeated-write / cross-process byte comparison on the implementation",
            "Go's map iteration is randomised per range statement, so 50 repetitions x 5 processes exercise many orders; purity of the "
            "real writers (no mutation of the caller's list) is observed through deep snapshots only."),
    "C08": (True,
            "Theorems (result never Panic, every loop structural or fuelled with a sufficiency argument): the SubRip reader for every "
            "token list - hence every byte string under every delivery schedule - and writer for every cue list; the WebVTT reader and "
            "writer; the SSA/ASS reader and writer (any document value, any map order); the EBU STL reader on any byte string in one "
            "shot or under any block schedule and writer on any metadata / cue list / clock; the TTML reader on any XML tree (and on any "
            "bytes through the XML parser model) and writer on any document value; the teletext reader on any delivered list of PES "
            "payloads of arbitrary bytes; the cue-list operations are total functions. For SubRip and WebVTT the totality is "
            "stated on CHECKED models (Model/SrtC.v, VttC.v, DurC.v: every Go index / slice / pointer dereference is an explicit checked "
            "access behind the code's own guard, Panic otherwise; proved equal to the pattern-matching models and never to Panic: "
            "C08_*_checked_*; removing a guard makes Panic reachable: C08_unguarded_index_panics) and those checked models are what the "
            "correspondence suites run; the same for stl.go (Model/StlC.v, StlCW.v: slice indices, slicing, nil dereferences, the "
            "divisions by the frame rate and by MaxRows, the diacritic swap, and the type assertions on BiMap values whose dynamic types "
            "are probed from the code on every run; C08_stl_checked_*, unguarded examples), for ssa.go (Model/SsaC.v: every split/format "
            "index, the nil option callbacks, the nil-map store; C08_ssa_checked_*) and for ttml.go (Model/TtmlC.v: Begin/End pointers, "
            "regexp sub-match indices under the stated contract of 4 sub-matches, map stores, nil Metadata/InlineStyle/Style/Region and "
            "nil map entries in the writer; C08_ttml_checked_*); nil *Item elements inside Items are skipped by every writer "
            "(C08_*_writer_total_nil_items, after a fix). Tie and the rest of the quantifier on the "
            "implementation: every reader (all option values, and the extension-dispatching opener) on valid documents, structure-aware "
            "mutations/truncations/splices, wrong-format documents, random bytes, transport streams with malformed PES payloads / data "
            "units / teletext packets inside a valid packet layer (the teletext model is value-compared on the hostile payloads); every "
            "writer on cue lists with every optional part absent and hostile text; all under recover() and a 15 s watchdog. Panics that "
            "originate inside the third-party demultiplexer are excluded, as the property states.",
            "Rocq totality proofs for the six reader and five writer models + structure-aware mutation under recover()/watchdog on the implementation",
            "not reached by the models: encoding/xml's tokenizer on arbitrary bytes, the transport-stream demultiplexer and PID detection, "
            "html tokenizer outside html_simple; running time is only observed through the watchdog."),
    "C07": (True,
            "Theorems: the codec dispatch is case-insensitive, an unsupported extension yields the invalid-extension error for reading "
            "and writing, .ts is read-only, an empty list yields nothing-to-write; for ALL representable documents the SubRip -> WebVTT "
            "and WebVTT -> SubRip conversions (composition of the codec models through the conversion of Model/Conv.v, whose bytes are "
            "compared with the library's on every generated styled document) give a destination that reads back with the same number "
            "of cues, in order, times truncated to the millisecond and the same text per line; with operations in between (Model/ConvOps.v "
            "composes the codec models with the operation models of C09-C15; its bytes are compared with the library's on every generated "
            "styled SubRip document x sequence of 0..4 operations incl. merge with a second document): for ALL representable SubRip documents "
            "and ALL sequences of sync/fragment/unfragment/order/optimize/linear correction/merge every resulting cue carries the lines of a "
            "source cue and, when the times produced are non-negative, the converted SubRip or WebVTT file reads back as exactly the "
            "transformed list. EVERY PAIR of the five writable codecs through the plain view (start, end, text of each line): each "
            "codec is proved plain-faithful at its time unit (SubRip, WebVTT, TTML at byte level: 1 ms; SSA/ASS: 10 ms; EBU STL: 40 ms) - "
            "every acceptable unstyled cue list is written to a document that reads back with the same cues, order and texts, times "
            "truncated - and the generic theorems C07_pair / C07_pair_ops compose any two of them, with any sequence of operations in "
            "between, into the property's conversion statement; the library's destination BYTES are compared with the composed model "
            "for all 25 pairs (two restricted with the stated reason: STL sources carry reader-set cue settings / language that the "
            "WebVTT / TTML writers emit) with and without operations, and every reader's cues with the model's. The command-line tool "
            "(Model/Cli.v: the flag validation of astisub/main.go and the one operation each sub-command applies) composes the same way "
            "(C07_cli), and the CLI binary's output bytes - or its refusal for invalid flags - are compared with the model for every "
            "sub-command and codec pair. The 7x6 conversion matrix is decided on "
            "the implementation: sources rendered by the harness's own encoders (SubRip renderer, minimal WebVTT/SSA/TTML renderers, an "
            "EBU STL encoder for display standards 0/1/2, a teletext-in-TS encoder through the astits muxer) from ground-truth cue lists, "
            "0..4 operations with random parameters through the library and one through the built CLI binary, the destination re-read and "
            "compared (count, order, times truncated to the destination unit, text without white space) with the composed reference "
            "semantics of the operations; the CLI additionally on unordered/overlapping lists with operation parameters spanning the whole "
            "time range; styled and metadata-bearing sources (documents of the C01/C02/C04 generators, TTML with regions and styles carrying "
            "random attribute subsets) to every destination with and without Optimize; extension dispatch compared with the extracted model.",
            "Rocq proof of the dispatch model, of every codec pair through the plain view with operation sequences in between, and of the styled SubRip/WebVTT conversions + byte-level correspondence of the composed models + conversion matrix through file API and CLI on the implementation",
            "partial: for styled cues the pairwise theorems exist for the SubRip/WebVTT pairs only (what crosses between other formats "
            "for styled cues - attribute propagation, inherited metadata - is decided by the matrix oracle on the implementation); "
            "teletext as a source is covered at the level of the delivered PES payloads (C07_ttx_plain_source: the teletext reader model "
            "is plain-faithful for G0 text; the library's ts -> {srt, vtt, ssa, stl, ttml} bytes equal the model's); the "
            "operation-sequence theorems go through Kit/Float64.v (linear correction), hence the standard-library Reals axioms that Flocq "
            "brings in (listed in the evidence); the content tag of Model/ConvOps.v (source index carried in the style-pointer field, which "
            "the SubRip/WebVTT readers never set) is a modelling device checked by the byte comparison; coloured "
            "runs are outside the WebVTT representability predicate; in the matrix and in the styled-source suite texts are plain Latin words (arbitrary "
            "Unicode text only in the SubRip/WebVTT model comparison)."),
    "C03": (True,
            "Executable Gallina model of ttml.go: the time-expression parser over bytes with bit-exact binary64 (Flocq; ParseFloat on its "
            "exact path, math.Round, int conversion), the reader over an XML token tree (paths by local name, indentation stripping, the "
            "held <br> token, line/run splitting, style/region tables, parent links, reference resolution, metadata and the five "
            "languages, frameRate/tickRate), the writer to a tree and to BYTES (xml.Encoder escaping and indentation modelled), and a "
            "byte-level XML parser for the subset the writer emits. Machine-checked for ALL values: every time-expression form denotes "
            "the instant it means - clock times with a 0..3 digit fraction exactly, clock times with frames, offsets in h/m/s/ms with any "
            "decimal fraction, frames and ticks at any rate: exactly when the instant is a whole number of ns, else within 1 ns (instants "
            "below 2^49 ns, mantissas below 2^53); parse(format t) = t truncated to the ms for all t >= 0; every rendering of a paragraph "
            "(<br/> between or inside spans, any indentation) reads as the lines and runs it means; every style is linked to the parent "
            "its attribute names, for any parent relation (sharing, forward references); every returned reference names a table entry; "
            "name-space prefixes and attribute order are irrelevant; the five language codes with any subtag; write->read round trip for "
            "every representable document and every white-space indent option, at tree level and THROUGH BYTES (the Coq parser inverts "
            "the byte-level writer model for every document value); reader and writer never panic; the writer refuses exactly the empty "
            "list; the COMPOSITE reading theorem C03_read_rendered: for every ground-truth document (cues with exact-fraction boundaries, "
            "styles with arbitrary parent links, regions, metadata, the five languages, rates) and every rendering (each boundary in any "
            "time-expression syntax, attribute order, name-space assignment, character data between structural elements, section "
            "orders, br placement, indentation) the reader returns what the document denotes with every boundary within the stated "
            "instant tolerance - also THROUGH BYTES (C03_read_rendered_bytes) with an XML parser model covering prolog, both quote "
            "styles, self-closing tags, entities and character references, comments (C03_parse2_print2), compared per case with "
            "encoding/xml on rendered documents; each side condition outside the quantifier has a computed counter-example replayed on "
            "the library; xml.EscapeText is modelled exactly (U+FFFD for runes outside the XML Char production and for invalid UTF-8): "
            "the byte-level round trip holds for every XML-legal document (C03_write_read_bytes_go; a NUL byte shows the premise is "
            "needed); clock times are bounded by int64 (C03_time_clock_int64, boundary example). Tie: extracted reader model vs ReadFromTTML on ground-truth documents x renderings (every boundary in any equivalent "
            "time syntax, indentation, br placement, prefixes) parsed into the tree by the harness's own encoding/xml loop; time "
            "expressions through a hook on exhaustive and boundary grids; WriteToTTML bytes = the model's bytes for every indent option; "
            "the Coq XML parser vs encoding/xml on the library's output; oracles: exact rational instants, an independent "
            "encoding/xml-based decoder and the library's reader on writer output (cues, styles, regions, title, copyright, language) "
            "for text of XML-legal characters.",
            "Rocq proof over a Gallina model of the TTML codec (bit-exact binary64 time arithmetic, tree-level reader, byte-level writer and parser) + extracted-model differential correspondence + independent XML-based decoder and exact-rational time oracle",
            "encoding/xml's tokenizer on arbitrary rendered documents is a stated contract (harness-side tree builder, faithful domain "
            "xml_simple: no comments/PI/CDATA/CR/white-space character references inside the root); for writer output the contract is "
            "replaced by the parser theorem plus a per-case comparison of Go's decoder with the Coq parser; theorems that mention the "
            "reader print the four standard-library Reals axioms Flocq brings in (ClassicalDedekindReals.sig_not_dec, sig_forall_dec, "
            "functional_extensionality_dep, Classical_Prop.classic); regexp = hand matchers; details in notes/C03.md."),
    "C04": (True,
            "Executable Gallina model of the SSA/ASS reader and writer (Model/Ssa.v: line scanning, sections, comments, the Format map "
            "with its overlay quirk, style rows, event rows with surplus commas folded into the last column, colours, booleans, numbers, "
            "times, *-prefixed style names, event text splitting at \\N / \\n and at {...} blocks with a hand-written matcher for the "
            "regular expression, script info; the writer's three Write calls with the styles map's iteration order as an explicit "
            "argument). Machine-checked for ALL values (any number of rows and cells; lines below the real reader's 65535-byte limit, which is modelled in C17/C18 only): field codecs (booleans - the written 1 and every non-zero integer "
            "are true -, decimal and &H colours, numbers with three decimals, times to the centisecond incl. H:MM:SS.cc); event text: a "
            "written line splits back into exactly its runs, every mixture of \\N and \\n denotes the same lines, commas are ordinary "
            "bytes; style and event rows decoded column by column for EVERY Format line (any order, subset, repetition, unknown names, "
            "TertiaryColour) and every admissible cell encoding; reading of rendered documents for every order of the script-info keys, "
            "every spelling of the section names and every pair of Format lines, generalised (C04_read_sections_all) to sections in any "
            "order and number, preamble lines, unknown script-info keys, comments and junk inside any section, several Format lines; "
            "parser-free characterisations of every cell spelling the reader accepts (ints, booleans, colours in mixed-case/6-digit "
            "hex, numbers, times with hours of any width: C04_*_spellings); reading any rendering then writing, reading and writing again "
            "gives a byte-equal second write (C04_rewrite_rendered); write->read = the document (canonical form) for every "
            "representable document and every iteration order of the styles map (true booleans stay true, all 23 attributes); second "
            "write byte-equal: write (read (write d)) = write d; bytes independent of the map order; unintelligible lines, unknown "
            "sections and non-Dialogue events ignored; LF/CRLF/CR and BOM; reader and writer never panic. Tie: extracted model vs "
            "ReadFromSSA/WriteToSSA on reader values and writer bytes (rendered, written, mutated, line-soup, corner and repository "
            "documents; writer values incl. nil metadata/styles, key != ID, dangling pointers) and row-level suites through hooks "
            "(style/event rows, colours, times, text, script info, floats); oracles on the implementation: reader vs ground truth on "
            "the observable columns over all renderings of the quantifier, writer vs an independent Format-driven decoder and vs the "
            "reader, write->read->write byte equality.",
            "Rocq proof over a Gallina model of the SSA/ASS codec + extracted-model differential correspondence (values, bytes, rows through hooks) + independent Format-driven decoder",
            "floats are fixed-point thousandths in the model (|k| < 10^15); strconv's behaviour on them is a stated contract exercised by "
            "the ssafloat suites, outside that domain only panic vs no panic is compared (the Ok/Err distinction is not: e.g. a cell '12.3456' that Go's ParseFloat accepts is an error of the model); strings.ToLower, regexp and sort.Strings as "
            "stated in notes/C04.md; a malformed Style/Dialogue-like row (too few cells) aborts the read (judged a malformed row, not an "
            "unintelligible line; reasoning in notes/C04.md); every theorem of Properties/C04.v is closed under the global context."),
    "C05": (True,
            "Executable Gallina models of ReadFromSTL and WriteToSTL (Model/Stl.v: block framing, GSI parse/encode, TTI parse/encode, "
            "timecodes and programme start, the character handler with pending diacritics, open-subtitling and teletext row parsers, "
            "style codes, justification, vertical position) over tables REGENERATED FROM THE CODE on every run (tools/gentables -> "
            "Gen/StlTables.v: the Latin code table, stlUnicodeMapping/Diacritic with their inverses, NFC/NFD of the repertoire as the "
            "vendored x/text computes them, frame-rate/language maps, GSI/TTI field layouts probed from the code). Machine-checked for ALL "
            "values: decode(encode s) = s for every string over the Latin repertoire (168 spacing characters and 2184 letter x diacritic "
            "compositions; '$' refuted: C05_chars_dollar_refuted, recorded as a known finding), every h:m:s:f timecode at 25/30 fps read "
            "to within 1 ns and written back as the same four bytes, programme-start subtraction/addition leaves every timecode unchanged "
            "(read then write again changes no timecode), the probed field layouts are those of EBU Tech 3264, GSI and TTI block round "
            "trips, file layout 1024 + 128n, user-data blocks skipped, rows round-trip through the open-subtitling and through the "
            "teletext row parser (runs, texts, italic/underline/box flags), document-level write->read for every representable document "
            "under every display standard (times, lines, vertical position, justification, every metadata field), the reader's structure "
            "on ANY file of a GSI block plus 128-byte blocks (one cue per non-user-data block, in order, timecode minus programme start "
            "unless ignored), short files are errors, reader and writer never panic; the READING half for every rendering "
            "(C05_read_rendered, every display standard, both values of the ignore option): GSI numbers zero- or blank-padded, blank "
            "dates/timecodes, arbitrary spare bytes, user-data blocks anywhere, arbitrary SGN/SN/CS/CF/EBN bytes, any four timecode "
            "bytes, rows with ANY sequence of style codes (redundant, repeated, unclosed), floating diacritics, undefined bytes, 0x8F "
            "padding - the reader returns what the file denotes; the teletext-standard rows rest on the row model shared with the "
            "teletext reader (C05_teletext_row_is_shared_model); side conditions shown necessary by computed counter-examples replayed "
            "on the library. Tie: extracted model vs the implementation on "
            "generated binaries x the ignore-programme-start option, writer bytes, and field-level suites through hooks (GSI/TTI codecs, "
            "text codec, row parsers, normalisation); oracles on the implementation: ground-truth files (GSI values, 25/30 fps, display "
            "standards 0/1/2, programme start, every timecode, the full Latin table incl. all diacritic x letter pairs, style code "
            "sequences, interleaved user-data blocks) vs the reader, writer output vs an independent GSI/TTI + ISO 6937 decoder and vs "
            "the reader, second-pass timecode stability, metadata present / absent / inherited from another format.",
            "Rocq proof over Gallina models of the EBU STL codec with tables regenerated from the code + extracted-model differential correspondence + independent GSI/TTI/ISO 6937 decoder",
            "known finding (KNOWN-FINDING line, exit 0): WriteToSTL writes '$' as 0x24, which the Latin table and the library's own reader "
            "define as the currency sign; the byte is pinned by the golden file testdata/example-opn-out.stl, so it cannot be repaired "
            "with the test suite unedited; matched only when every differing character is '$' read back as the currency sign. "
            "norm.NFD/NFC on the repertoire = the generated tables (validated by the encode/decode suites); "
            "every theorem of Properties/C05.v is closed under the global context."),
    "C06": (True,
            "Theorems about a Gallina model of the teletext reader from the delivered PES payloads on (page buffer, character decoder, "
            "page and row parsing; Model/Ttx.v, Model/TtxRow.v), with every table regenerated from the code on each run (tools/genttx -> "
            "Gen/TtxTables.v: G0/G2 sets, national subsets and their 13 positions, teletextCharsets, astikit's Hamming-8/4 and parity "
            "tables, bits.Reverse8): the Hamming table equals the standard's nearest-code-word decoder on every byte (round trip on the 16 "
            "nibbles, all single errors corrected, all double errors rejected), bit reversal is involutive, parity/cell tables characterised "
            "on all 256 bytes (a byte failing parity contributes no text), the national option changes exactly the 13 positions for every "
            "entry of teletextCharsets; the code's character tables EQUAL the tables of ETS 300 706 written by hand in Coq (Model/TtxStd.v: "
            "Latin G0, the 13 national sub-sets, the alphabetic columns of the Cyrillic and Greek sets, the designation table 32) at every "
            "asserted position, re-proved each run (C06_tables_are_standard, C06_designation_map_is_standard) - the first sweep found "
            "seven groups of wrong entries in the library, repaired by fix commits; Hamming 24/18 (encoder/decoder from clause 8.3): round "
            "trip, single errors corrected, double errors rejected for all 2^18 words; X/28 and M/29 triplets are decoded with it; unit, packet, header and row codecs round-trip for ALL values; and the stream-level statement: for "
            "EVERY ground-truth page schedule, EVERY multiplexing in the decidable class mux_ok (stuffing / non-subtitle / wrong-framing / "
            "short units, uncorrectable addresses and corrected single-bit Hamming errors, rows and pages of other magazines in parallel "
            "mode, X/26 X/27 X/30 X/31, X/28 and M/29 character-set designation packets with their exact semantics - the last designation "
            "received applies to every page -, rows with parity-damaged cells - a failing byte contributes no text -, PES packets without "
            "time / with another data identifier / empty / with a truncated last unit, time-filling headers, terminators, erase pages) and ANY "
            "grouping of the units into PES packets, the reader returns exactly cues_of(schedule) - one cue per non-empty instance, start = "
            "time of the PES that began it, end = that of the next instance or the last time, relative to the first, rows in row order "
            "decoded in the page's national set, runs split at colour/size codes - with the page given or auto-detected by the subtitle "
            "flag; the reader never panics on any delivered list of arbitrary bytes. Tie: the extracted model is value-compared with the "
            "library's own page-buffer loop (hook VerifTeletextFeed) on generated schedules x multiplexing choices and on hostile payloads "
            "(no class-only domain); the extracted mux_ok/cues_of are evaluated on the generated schedules and compared with what the "
            "implementation returns; ground-truth oracles through the hook and through the astits muxer + ReadFromTeletext (page/PID "
            "given or auto-detected, distractor PIDs, PAT/PMT repetition).",
            "Rocq proof over a Gallina model of the teletext page buffer/decoder with tables regenerated from the code + extracted-model differential correspondence + schedule oracle through the real transport-stream path",
            "the third-party demultiplexer (astits) is not modelled: 'astits delivers, for the selected PID, the PES payloads with their "
            "PTS/PCR times and the PMT descriptors as the muxer wrote them' is a named contract, exercised only by the TS-level oracle "
            "suites; the standard's tables in Model/TtxStd.v are written from memory of ETS 300 706 (no copy in the sandbox; positions not "
            "known with confidence - Turkish 2/3, punctuation columns of Cyrillic/Greek, Arabic and Hebrew sets, which the library does "
            "not implement - are left unasserted) and are a trusted input; PID detection and other PIDs are harness-only; "
            "attributes or a start box after the end box, repeated rows in one instance and a row whose only start box is destroyed by a "
            "parity error are modelled and value-compared but outside the stream theorem's class (notes/C06.md); every theorem of Properties/C06.v is closed under the global context."),
    "C20": (True,
            "Theorems: (i) frame property - in an interleaving semantics where steps only read the shared store, every thread ends, under "
            "ANY schedule, in the state it reaches alone; (ii) instance - the write-effect summary regenerated on every run from the go/ssa "
            "form of the package (every store, map update, copy/delete/clear, in-place sort and Set*/Add*/Delete* method call whose "
            "target derives from a package-level variable; the derivation is followed through address arithmetic, loads, phis, local "
            "cells and closures, and INTER-PROCEDURALLY by function summaries iterated to a fixpoint: results of the package's own "
            "functions, parameters a function writes through - also via methods invoked through interfaces -, and struct fields into "
            "which a package-derived pointer is stored) contains no write outside the package initialiser, by vm_compute on the "
            "generated list. Runtime half, observed only: a race-detector build of the harness runs a multiset of independent operations "
            "(6 readers, 5 writers, all transformations, read-then-convert) on 2..32 goroutines with GOMAXPROCS 2/4/16, randomized start "
            "order, and compares every result with the sequential run.",
            "Rocq frame theorem over a generated write-effect summary (translator: go/ssa) - partial; race-detector runs compared with sequential results",
            "partial: the Go memory model and the mutex inside astikit's BiMap are not modelled; the analysis is field-based, not a "
            "points-to analysis (aliasing through slices of pointers, channels, reflection or other packages' state is not followed); "
            "the frame theorem is generic and not instantiated per function; tools/geneffects (x/tools v0.29.0 go/ssa) is trusted."),
    "C02": (True,
            "Gallina transcription of ReadFromWebVTT (header loop, block state machine, NOTE/STYLE/Region blocks, cue settings, "
            "X-TIMESTAMP-MAP), parseTextWebVTT (tag stack with classes/annotations, voices, inline timestamps, over a model of the "
            "x/net/html tokenizer) and WriteToWebVTT. Theorems for ALL representable documents (any number of cues and definitions; lines below the real reader's 65535-byte limit, which is modelled in C17/C18 only): write then read returns "
            "the document (cues numbered 1..n, times to the millisecond, settings/regions with fallbacks resolved, STYLE, timestamp map, "
            "comments, voices, tag stacks with classes and annotations, inline timestamps); written lines parse back to their runs and lie "
            "inside the tokenizer model's faithful domain; regions are defined before use in what is written and in any accepted input; "
            "LF/CRLF/CR equivalence; reader and writer total; reader schedule-independent and fault-reporting; nothing-to-write; writer "
            "bytes independent of the iteration order of the style/region maps. READING of every rendering (C02_read_rendered, over "
            "bytes, LF/CRLF/CR): BOM, header line with trailing text, timestamp map, STYLE block, region definitions, per cue a NOTE block, "
            "identifier present / absent / not a number, each timestamp as mm:ss.ttt or with an hour field of any width, any white space "
            "or none around the arrow, settings in any order with repeats after spaces or tabs, blank lines (empty or white space) "
            "anywhere the grammar allows - the reader returns exactly what the document denotes; every side condition is a single "
            "boolean check; six of them are shown necessary by computed counter-examples replayed on the library (suite vtt.needs), the others are stated with their reason in notes/C02.md. "
            "Tie: reader values, writer bytes and single-line parses compared with the extracted model on generated documents "
            "(regions, STYLE, timestamp map, comments, settings, tag stacks of depth 0..3, timestamps, voices x EOL/BOM/short time "
            "forms/ids/tabs), mutated documents and repository samples. Oracles: ground truth for the reader; an independent WebVTT "
            "decoder and the reader for the writer (consecutive numbering, regions defined before use).",
            "Rocq proof over a Gallina codec model + extracted-model differential correspondence + independent decoder",
            "representability side conditions are those of repr_vdoc/repr_vline (Proofs/VttDoc.v, VttLine.v), each with its reason and a "
            "computed counter-example in notes/C02.md / Proofs/VttNeeds.v; they imply the tokenizer model's faithful domain for every line "
            "the theorems talk about (C02_*_in_faithful_domain: no raw-text element names, no '&'/CR in annotations, no NUL); the writer's "
            "output is one of the renderings of C02_read_rendered (C02_write_is_rendering, C02_write_denotes: a Coq-side decoder "
            "independent of the reader); checked models with explicit panic sites agree with the models (C02_checked_*); x/net/html "
            "tokenizer and the two regular "
            "expressions are hand-written matchers compared with the library inside the faithful domain html_simple/vtt_tag_simple "
            "(outside it only panic vs no panic is compared)."),
}

# additions of the last wave, appended to the texts above: id -> (appended to the level text, appended to the note)
INT64 = (" Go's int64 arithmetic: Model/Ops64.v redoes the operation's arithmetic with two's-complement wrap-around "
         "(Kit/Int64.v) and %s proves it equal to the unbounded model under the exact no-overflow condition stated in the "
         "theorem (a sufficient range: all times and parameters in [-2^62, 2^62)), so every theorem above transfers to the "
         "library's arithmetic inside that range; outside it a computed witness shows the two differ (%s); the 64-bit model is "
         "what the harness runs on values near +-2^63 (families *.huge), wrapped results included.")
ADDENDA = {
    "C01": (" The round trip through the REAL reader's buffer: C01_write_read_within_limit / _exact_limit compose the writer with the limit-aware reader for every buffer size and delivery schedule (every written line below the limit: same cues; C01_real_line_bound: 65535 bytes read back, 65536 refused - replayed on the library at 65533..65537 bytes with LF, CR LF, CR and unterminated lines); the five vacuous nat-subtraction panic sites of the checked model are now Go's l[:len(l)-1] and C08_srt_guards_load_bearing shows the guards are needed."
            " The model's time separator and byte order mark are proved equal to the named constants of the Go source regenerated "
            "on every run (C01_constants_from_source, tools/genconsts; literals inside function bodies are deliberately not tied).", ""),
    "C02": (" The writer is modelled over the map KEYS (C02_writer_keyed_maps: keys differing from the identifiers, nil values, two keys with one identifier - the model was stale after an earlier repair and the second audit noticed; suiteVttKeyed sends the maps by key and states 'a referenced region is defined earlier' on the written bytes); C02_write_read_within_limit / C02_real_line_bound as for C01."
            " The timestamp-map header, the time separator and the default style id are proved equal to the named constants of the "
            "Go source regenerated on every run (C02_constants_from_source).", ""),
    "C03": (" A line break inside a start tag of a paragraph's content (between the element name and an attribute, or between "
            "attributes) is one of the renderings (C03_read_rendered_bytes_go; found false of the library by the second audit and "
            "repaired there, repo 45c3eea; a line break inside a quoted attribute value of a span stays excluded by bytes_ok_go); "
            "frame-based clock times carry their int64 bound (C03_time_clock_frames_int64); the 24 tts: attribute names in struct "
            "order, the language table and the begin/end/tt names are proved equal to the struct tags and map entries "
            "of the Go source regenerated on every run (C03_constants_from_source).",
            " There is no C03_write_is_rendering: the rendering skeleton always has the three head sections, the writer omits "
            "empty ones (C03.v comment); the writer's output is covered by C03_write_read_bytes_go and the independent decoder."),
    "C04": (" C04_write_read_within_limit / C04_rewrite_within_limit / C04_real_line_bound as for C01; eight instance theorems became Examples; all four callback combinations run on the Go side too."
            " The 25 style column names, 15 script-info keys, 11 event column names and the Dialogue category are "
            "proved equal to the named constants of the Go source regenerated on every run (C04_constants_from_source); event style "
            "names the styles section does not declare are generated (the cue then has no style reference).", ""),
    "C05": (" The writer's bytes are one of the renderings of the reading theorem, for open subtitling and for teletext rows with "
            "the start box written or omitted (C05_write_is_rendering_open/_teletext, C05_write_denotes_*), so C05_read_rendered "
            "covers the library's own output.",
            " Outside the proviso (recorded as observations, model = library on 75 pinned cases): code points outside the "
            "repertoire are written by their low byte and a row longer than 112 bytes is cut."),
    "C07": (" Styled pairs into WebVTT, SSA/ASS and SubRip: ssa->vtt (the event's Name as a voice tag), vtt->ssa (last voice as Name, STYLE block as a styles row), ttml->vtt (regions with origin/extent mapped, per-cue settings, the five class colours), ttml->ssa (title, every style as a Style row, the cue's style), stl/ttml/ssa->srt (nothing but times and text): a theorem per pair on the writer's normal form (adjacent runs merged; *_merged_bytes / *_norm_bytes show the library's bytes are those of the normal form) and byte comparison on styled and hard-text documents. Two library defects found and repaired there: a comma in a WebVTT voice name made the converted SSA file unreadable (c8994f7), a '>' in an SSA speaker name moved text into the WebVTT cue (6c5c236)."
            " Styled sources: for every source format a Gallina model of what each destination writer sees of the source reader's "
            "cues (Model/ConvTtml.v, ConvStl.v, ConvStlVtt.v, ConvStlTtml.v, ConvTtx.v) with a theorem per pair that the "
            "destination decodes to the source's plain view, the destination bytes compared with the library's on styled "
            "documents; XML-illegal runes into TTML follow encoding/xml's substitution (write_ttml_bytes_go); conversion sources "
            "carry programme titles up to 70 bytes with multi-byte characters and SSA events naming undeclared styles.", ""),
    "C08": (" C08_srt/vtt/dur_guards_load_bearing: guard-dropped variants of real model functions panic (most replayed on a copy of the library with that guard deleted); VttC sites 659-714 are explicit index loops proved equal to the structural functions."
            " nil *Item elements of the cue list are skipped by all five writers: the STL and TTML checked writers go through "
            "Kit.Chk.somes like the SubRip/WebVTT/SSA ones (C08_stl_writer_total_nil_items, C08_ttml_writer_total_nil_items) and "
            "the harness passes lists with nil elements to the models.", ""),
    "C09": (INT64 % ("C09_int64", "C09_int64_wraps: Add(10) on a cue ending at MaxInt64-5") +
            " Composition: two shifts in the same direction equal one shift by the sum (C09_compose_back for every list with start<=end, "
            "removal and clamping included; C09_compose_forward and C09_zero_shift for cues on the timeline); opposite signs do not "
            "compose (C09_compose_mixed_differs, computed). Order: a start-ordered list stays start-ordered after any shift, so a following "
            "Order is a no-op (C09_preserves_order, C09_then_order; no start<=end hypothesis).", ""),
    "C10": (INT64 % ("C10_int64", "C10_int64_diverges: Fragment(2^62) on [0, MaxInt64) never terminates - the fuelled model returns None for every fuel - and C10_piece_count bounds the pieces by (end-start)/f + 2") +
            " C10_idempotent: a second Fragment with the same period changes nothing.", ""),
    "C11": (" C11_inverse_any drops the start<end hypothesis of the inverse law (the property has none); Unfragment, Order and Merge "
            "do no arithmetic: their output times are drawn from the input times (C11_int64, C12_int64), so the models are already "
            "their int64 models.", ""),
    "C12": (" Merge and Order do no arithmetic on times: output times are drawn from the input times (C12_int64, C12_int64_merge)."
            " Consequences: Order leaves an ordered list unchanged, is idempotent and keeps the length (C12_order_fixes_sorted, "
            "_idempotent, _length); merging an empty list orders the receiver and merging lists whose concatenation is already "
            "ordered is the concatenation (C12_merge_empty, C12_merge_sorted_disjoint_times).", ""),
    "C13": (" References are followed through objects, definitions are kept by identifier: an item pointing to a style object "
            "other than the one stored under its identifier (redirected pointers, suite optimize.alias) left a dangling parent "
            "link in the library - found by the harness's oracle, repaired (repo a175e5f), seed C13-optimize-aliased-style-object.",
            " wf_refs speaks about identifiers only (five conditions, spelled out in C13.v); the model's reading and the heap "
            "reading coincide when every pointer targets the map's own entry."),
    "C14": (INT64 % ("C14_int64 (C14_int64_range: the condition holds for every d >= 0)", "C14_int64_wraps: d within 1 ms of MinInt64")
            + " Successive calls on the same value are judged call by call (the filler must be a new cue)."
            " C14_idempotent: forcing d again on a list already forced to d with the filler changes nothing (no second filler).", ""),
    "C15": (" C15_int64: inside the property's domain the int64/float64 model of the code (wrapping subtraction, conversion to int64) "
            "equals the model above and the result is an int64 value; the float-to-int64 conversion outside int64 follows amd64 "
            "(Go leaves it implementation-defined) and rests on the bit-for-bit comparison, not on a proof.", ""),
    "C17": (" Teletext: a Gallina model of the reader wrapper that fills every Read of the demultiplexer (Model/TtxFull.v) over the "
            "schedule model: for every schedule the buffers the demultiplexer receives are the one-shot ones (C17_ttx_full_reads, "
            "C17_ttx_full_reads_schedule_free), compared with the real wrapper on random data/schedules/request sizes; generated "
            "transport streams (incl. one of 83 kB) x options x seekable / non-seekable / bufio readers x schedules against the "
            "one-shot result of the same kind of reader.", ""),
    "C18": (" Teletext wrapper: a fault at offset k surfaces at the Read that reaches k, earlier Reads are filled, nothing beyond k "
            "is delivered (C18_ttx_fault_propagates). STL: an error delivered together with the last bytes of a block was dropped "
            "by io.ReadFull - a stream failing there and then reporting end-of-file gave a truncated list with no error; repaired "
            "(repo a01924f), modelled (C18_read_stl_fault_with_data), the STL fault suite now fails with and without data and "
            "then is sticky, reports EOF, or resumes.", ""),
    "C20": (" C20_frame_merge / C20_frame_private_op instantiate the frame theorem (goroutines merging the same read-only list "
            "into private receivers; any unary operation on a private list).", ""),
}

PENDING = "check not built yet in this session (work in progress; see DESIGN.md section 7 for the plan)"


def main():
    props = [json.loads(l) for l in open(os.path.join(VERIF, "properties.jsonl"))]
    hook_commits = subprocess.check_output(
        ["git", "-C", "/repo", "log", "--format=%h", "--", "verif_hooks*.go"], text=True).split()
    checks, na = [], []
    for p in props:
        pid = p["id"]
        c = CHECKS.get(pid)
        if not c or not c[0]:
            na.append({"property_id": pid, "reason": (c[3] if c else PENDING)})
            continue
        checks.append({
            "property_id": pid,
            "quick_cmd": "bin/check %s quick" % pid,
            "thorough_cmd": "bin/check %s thorough" % pid,
            "evidence_file": "evidence/%s.json" % pid,
            "replay_cmd_template": "bin/check %s quick --replay {path}" % pid,
            "engine": "rocq-model+correspondence",
            "level_claimed": {"category": "proof", "text": c[1] + ADDENDA.get(pid, ("", ""))[0], "design_ref": "DESIGN.md section 7 and 13.2, " + pid},
            "level_note": TRUST + " " + c[3] + ADDENDA.get(pid, ("", ""))[1],
            "technique": c[2],
        })
    m = {
        "version": 1,
        "setup_cmd": "bin/setup",
        "hooks": {
            "guard": "verif",
            "enable": "go build -tags verif (the harness is built with GOFLAGS=-mod=mod GOPROXY=off and a replace directive pointing at /repo)",
            "baseline_off_cmd": "cd /repo && GOFLAGS=-mod=mod GOPROXY=off GOSUMDB=off GOTOOLCHAIN=local go test -json -vet=off -count=1 -timeout 25m ./...",
            "source_commits": hook_commits,
            "add_only": True,
        },
        "engines": [{
            "name": "rocq-model+correspondence", "path": "bin/check",
            "serves_properties": [c["property_id"] for c in checks],
            "kind_free_text": "Coq 8.16 development in coq/ (models, proofs, Properties/<ID>.v), OCaml driver of the extracted models, "
                              "Go harness built against /repo with -tags verif; bin/check rebuilds all three and compares",
        }],
        "checks": checks,
        "not_applicable": na,
        "notes": "See DESIGN.md. Known findings and fixed defects: known_findings.json.",
    }
    with open(os.path.join(VERIF, "MANIFEST.json"), "w") as fh:
        json.dump(m, fh, indent=1)
    print("MANIFEST.json: %d checks, %d not claimed" % (len(checks), len(na)))


if __name__ == "__main__":
    main()
