// Throw-away probe behind coq/Properties/C16.v C16_stl_float_path: the real formatDurationSTL / formatDurationSTLBytes
// (hooks VerifFormatDurationSTL, VerifFormatDurationSTLBytes) against the integer formula of Model/Dur.v.
// Run: cd tools/probe_stlfloat && GOFLAGS=-mod=mod GOPROXY=off go run -tags verif .

package main

import (
	"fmt"
	"math/rand"
	"time"

	astisub "github.com/asticode/go-astisub"
)

func two(v int64) string { return fmt.Sprintf("%02d", v) }

func ref(t int64, fps int64) string {
	h := t / 3600000000000
	t1 := t - h*3600000000000
	m := t1 / 60000000000
	t2 := t1 - m*60000000000
	s := t2 / 1000000000
	t3 := t2 - s*1000000000
	return two(h) + two(m) + two(s) + two(t3*fps/1000000000)
}

func main() {
	bad, n := 0, 0
	check := func(t int64, fps int) {
		if t < 0 || t >= 1024*3600000000000 {
			return
		}
		n++
		got := astisub.VerifFormatDurationSTL(time.Duration(t), fps)
		gb := astisub.VerifFormatDurationSTLBytes(time.Duration(t), fps)
		want := ref(t, int64(fps))
		wb := fmt.Sprintf("%02d%02d%02d%02d", gb[0], gb[1], gb[2], gb[3])
		if got != want || (t < 100*3600000000000 && wb != want) {
			bad++
			if bad < 10 {
				fmt.Println("MISMATCH", t, fps, got, wb, want)
			}
		}
	}
	r := rand.New(rand.NewSource(1))
	for _, fps := range []int{25, 30, 24, 1, 99} {
		for _, unit := range []int64{1000000000, 60000000000, 3600000000000} {
			for k := int64(0); k <= 1024; k++ {
				for d := int64(-3); d <= 3; d++ {
					check(k*unit+d, fps)
				}
			}
		}
		for i := 0; i < 300000; i++ {
			check(r.Int63n(24*3600000000000), fps)
			check(r.Int63n(1024*3600000000000), fps)
		}
	}
	fmt.Println("checked", n, "mismatches", bad)
}
