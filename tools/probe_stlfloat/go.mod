module gostl

go 1.21

require github.com/asticode/go-astisub v0.0.0

require (
	github.com/asticode/go-astikit v0.20.0 // indirect
	github.com/asticode/go-astits v1.8.0 // indirect
	golang.org/x/net v0.0.0-20200904194848-62affa334b73 // indirect
	golang.org/x/text v0.3.2 // indirect
)

replace github.com/asticode/go-astisub => /repo
