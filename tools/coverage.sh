#!/bin/bash
# tools/coverage.sh [tier] : statement coverage of package astisub under every property's harness suites (go build -cover,
# GOCOVERDIR).  Not part of the checks (about two minutes); prints the per-function table (lowest first) and the total.
set -e
cd "$(dirname "$0")/.."
T=${1:-quick}
export GOFLAGS=-mod=mod GOPROXY=off GOSUMDB=off GOTOOLCHAIN=local
[ -d .build/hb ] || { echo "run bin/check once first (harness sources are staged in .build/hb)"; exit 2; }
W=$(mktemp -d /tmp/verifcov.XXXX)
(cd .build/hb && go build -cover -coverpkg=github.com/asticode/go-astisub,verifharness -tags verif -o $W/harness-cover .)
mkdir -p $W/data
for id in C01 C02 C03 C04 C05 C06 C07 C08 C09 C10 C11 C12 C13 C14 C15 C16 C17 C18 C19; do
  GOCOVERDIR=$W/data $W/harness-cover -prop $id -tier $T -seed 1 -driver ocaml/driver.exe -out $W/out.json -replays $W/replays \
    -known known_findings.json -repo ${VERIF_REPO:-/repo} -build .build >/dev/null 2>&1 || true
done
(cd $W && go tool covdata textfmt -i=data -o cov.txt && (echo "mode: atomic"; grep "go-astisub/" cov.txt | grep -v verif_hooks) > lib.txt)
(cd ${VERIF_REPO:-/repo} && go tool cover -func=$W/lib.txt | sort -k3 -n | head -40; go tool cover -func=$W/lib.txt | tail -1)
rm -rf $W
