#!/bin/bash
# runs every claimed check (quick tier by default) on the current tree and rewrites the evidence files
cd "$(dirname "$0")/.."
T=${1:-quick}
for id in $(python3 -c "import json;print(' '.join(c['property_id'] for c in json.load(open('MANIFEST.json'))['checks']))"); do
  timeout 7200 bin/check $id $T 2>&1 | grep -E "VIOLATION|KNOWN-FINDING|\[check\]"
done
