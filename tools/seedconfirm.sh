#!/bin/bash
# tools/seedconfirm.sh <dir with patch.diff + demo_test.go>
# confirms in a scratch worktree of /repo HEAD: demo passes clean, patch applies, suite green with the patch, demo fails with it
export GOFLAGS=-mod=mod GOPROXY=off GOSUMDB=off GOTOOLCHAIN=local
D=$(cd "$1" && pwd)
WT=$(mktemp -d /tmp/seedwt.XXXX)
git -C /repo worktree add -q --detach $WT HEAD || exit 3
res=""
( cd $WT && cp $D/demo_test.go ./zz_demo_test.go && go test -count=1 -run . . >$WT.clean.log 2>&1 ) && res="$res demo_clean=PASS" || res="$res demo_clean=FAIL"
( cd $WT && rm -f zz_demo_test.go && git apply $D/patch.diff ) || { echo "patch does not apply"; git -C /repo worktree remove --force $WT; exit 3; }
( cd $WT && go build ./... && go test -count=1 ./... >$WT.suite.log 2>&1 ) && res="$res suite_patched=PASS" || res="$res suite_patched=FAIL"
( cd $WT && cp $D/demo_test.go ./zz_demo_test.go && go test -count=1 -run . . >$WT.patched.log 2>&1 ) && res="$res demo_patched=PASS" || res="$res demo_patched=FAIL"
git -C /repo worktree remove --force $WT
rm -f $WT.clean.log $WT.suite.log $WT.patched.log
echo "CONFIRM $(basename $D):$res"
