#!/bin/bash
# tools/seedtest.sh <PROP> <dir with patch.diff + demo_test.go> [tier]
# 1. confirms in a scratch worktree: patch applies, suite green, demo fails with / passes without
# 2. applies the patch to /repo, runs bin/check <PROP> <tier>, reverts
export GOFLAGS=-mod=mod GOPROXY=off GOSUMDB=off GOTOOLCHAIN=local
P=$1; D=$2; T=${3:-quick}
WT=$(mktemp -d /tmp/seedwt.XXXX)
git -C /repo worktree add -q --detach $WT HEAD || exit 3
res=""
( cd $WT && cp $D/demo_test.go ./zz_demo_test.go && go test -count=1 -run . . >/tmp/seed.clean.log 2>&1 ) && res="$res demo_clean=PASS" || res="$res demo_clean=FAIL"
( cd $WT && rm -f zz_demo_test.go && git apply $D/patch.diff ) || { echo "patch does not apply"; git -C /repo worktree remove --force $WT; exit 3; }
( cd $WT && go build ./... && go test -count=1 ./... >/tmp/seed.suite.log 2>&1 ) && res="$res suite_patched=PASS" || res="$res suite_patched=FAIL"
( cd $WT && cp $D/demo_test.go ./zz_demo_test.go && go test -count=1 -run . . >/tmp/seed.patched.log 2>&1 ) && res="$res demo_patched=PASS" || res="$res demo_patched=FAIL"
git -C /repo worktree remove --force $WT
echo "CONFIRM:$res"
cd /verif
git -C /repo apply $D/patch.diff || { echo "apply to /repo failed"; exit 3; }
cp evidence/$P.json /tmp/seed.evidence.$P.json 2>/dev/null
bin/check $P $T > /tmp/seed.check.log 2>&1; rc=$?
git -C /repo checkout -- .
# evidence is from clean-tree runs only: put the file of the last clean run back
cp /tmp/seed.evidence.$P.json evidence/$P.json 2>/dev/null; rm -f /tmp/seed.evidence.$P.json
grep -E "VIOLATION|KNOWN-FINDING|\[check\] $P" /tmp/seed.check.log
echo "CHECK: exit=$rc"
