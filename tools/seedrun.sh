#!/bin/bash
# tools/seedrun.sh <PROP> <dir with patch.diff> [tier]
# runs bin/check <PROP> against a scratch worktree of /repo HEAD with the patch applied (never touches /repo, the
# evidence directory or the main scratch directory), prints the verdict lines and the exit code
export GOFLAGS=-mod=mod GOPROXY=off GOSUMDB=off GOTOOLCHAIN=local
P=$1; D=$(cd "$2" && pwd); T=${3:-quick}
WT=$(mktemp -d /tmp/seedrun.XXXX)
git -C /repo worktree add -q --detach $WT/repo HEAD || exit 3
( cd $WT/repo && git apply $D/patch.diff ) || { echo "patch does not apply"; git -C /repo worktree remove --force $WT/repo; rm -rf $WT; exit 3; }
cd "$(dirname "$0")/.."
VERIF_REPO=$WT/repo VERIF_BUILD=$WT/build VERIF_EVIDENCE=$WT/evidence bin/check $P $T > $WT/log 2>&1; rc=$?
grep -E "VIOLATION|KNOWN-FINDING|\[check\] $P|FAILURE" $WT/log | sed "s/^/$(basename $D): /"
echo "$(basename $D): CHECK exit=$rc"
git -C /repo worktree remove --force $WT/repo; rm -rf $WT
