#!/usr/bin/env python3
"""tools/keepseed.py <PROP> <srcdir> <name> <needs> <caught-by>: store a confirmed seeded change."""
import json, os, shutil, sys
prop, src, name, needs, caught = sys.argv[1:6]
dst = os.path.join('/verif/seeded', name)
os.makedirs(dst, exist_ok=True)
for f in ('patch.diff', 'demo_test.go', 'notes.md'):
    if os.path.exists(os.path.join(src, f)):
        shutil.copy(os.path.join(src, f), dst)
meta = {"property": prop, "needs_to_manifest": needs,
        "confirmed": "tools/seedtest.sh %s seeded/%s: scratch worktree of /repo HEAD: demo passes clean, patch applies, existing suite passes with the patch, demo fails with the patch; then patch applied to /repo, bin/check %s quick run, patch reverted" % (prop, name, prop),
        "check_result": caught}
json.dump(meta, open(os.path.join(dst, 'meta.json'), 'w'), indent=1)
print("kept", dst)
