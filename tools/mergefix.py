#!/usr/bin/env python3
"""Resolves the append-only conflicts of a slice merge in coq/Extract.v and harness/main.go by taking both sides."""
import re, sys
def blocks(s):
    return re.compile(r"<<<<<<< [^\n]*\n(.*?)=======\n(.*?)>>>>>>> [^\n]*\n", re.S)
p = 'coq/Extract.v'
s = open(p).read()
def fix_extract(m):
    a, b = m.group(1), m.group(2)
    if a.startswith('From Astisub Require Import'):
        mods = []
        for side in (a, b):
            for w in side.strip().rstrip('.').split()[4:]:
                if w not in mods:
                    mods.append(w)
        return 'From Astisub Require Import ' + ' '.join(mods) + '.\n'
    return a.rstrip().rstrip('.') + '\n' + b
s = blocks(s).sub(fix_extract, s)
open(p, 'w').write(s)
p = 'harness/main.go'
s = open(p).read()
def fix_main(m):
    # per property the union of the suites both sides list (HEAD's order, then the other side's new ones)
    a, b = m.group(1).splitlines(), m.group(2).splitlines()
    keys, order = {}, []
    for line in a + b:
        k = line.split(':')[0].strip()
        mm = re.match(r'(\s*"C\d+":\s*\{)(.*)(\},?\s*)$', line)
        if k not in keys:
            order.append(k)
            keys[k] = line
        elif mm and re.match(r'(\s*"C\d+":\s*\{)(.*)(\},?\s*)$', keys[k]):
            old = re.match(r'(\s*"C\d+":\s*\{)(.*)(\},?\s*)$', keys[k])
            have = [x.strip() for x in old.group(2).split(',') if x.strip()]
            for x in [x.strip() for x in mm.group(2).split(',') if x.strip()]:
                if x not in have:
                    have.append(x)
            keys[k] = old.group(1) + ', '.join(have) + old.group(3)
        elif len(line) > len(keys[k]):
            keys[k] = line
    return '\n'.join(keys[k] for k in order) + '\n'
s = blocks(s).sub(fix_main, s)
open(p, 'w').write(s)
p = 'coq/_CoqProject'
s = open(p).read()
s = blocks(s).sub(lambda m: m.group(1) + m.group(2), s)
open(p, 'w').write(s)
# Properties files: both sides appended theorem blocks / import lines at the same place: HEAD's text, then the other
# side's lines that HEAD does not have (an import line whose modules HEAD already imports is dropped)
import glob
for p in glob.glob('coq/Properties/C*.v'):
    s = open(p).read()
    if '<<<<<<<' not in s:
        continue
    def fix_prop(m):
        a, b = m.group(1), m.group(2)
        mods = set(w.rstrip('.') for l in a.splitlines() if l.startswith('From Astisub Require Import') for w in l.split()[4:])
        out = a
        for l in b.splitlines():
            if l in a.splitlines():
                continue
            if l.startswith('From Astisub Require Import') and set(w.rstrip('.') for w in l.split()[4:]) <= mods:
                continue
            out += l + '\n'
        return out
    s = blocks(s).sub(fix_prop, s)
    open(p, 'w').write(s)
