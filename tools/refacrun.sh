#!/bin/bash
# tools/refacrun.sh <dir with patch.diff> [tier]: a behaviour-preserving change against every check anchored in a file it
# touches (scratch worktree of /repo HEAD, own build and evidence directories); no check may report a violation
export GOFLAGS=-mod=mod GOPROXY=off GOSUMDB=off GOTOOLCHAIN=local
D=$(cd "$1" && pwd); T=${2:-quick}
WT=$(mktemp -d /tmp/refacrun.XXXX)
git -C /repo worktree add -q --detach $WT/repo HEAD || exit 3
( cd $WT/repo && git apply $D/patch.diff ) || { echo "$(basename $(dirname $D))/$(basename $D): patch does not apply"; git -C /repo worktree remove --force $WT/repo; rm -rf $WT; exit 3; }
cd "$(dirname "$0")/.."
files=$(cd $WT/repo && git diff --name-only | xargs -n1 basename | tr '\n' ' ')
props=$(python3 - "$files" <<'PY'
import json,sys,os
touched=set(sys.argv[1].split())
out=[]
for l in open('properties.jsonl'):
    d=json.loads(l)
    fs={os.path.basename(f) for f in d.get('anchors',{}).get('files',[])}
    if fs & touched or d['id'] in ('C07','C08','C19','C20'):
        out.append(d['id'])
print(' '.join(out))
PY
)
tag="$(basename $(dirname $D))/$(basename $D)"
for P in $props; do
  VERIF_REPO=$WT/repo VERIF_BUILD=$WT/build VERIF_EVIDENCE=$WT/evidence bin/check $P $T > $WT/log 2>&1; rc=$?
  echo "$tag [$files] $P exit=$rc $(grep -E "VIOLATION|FAILURE" $WT/log | head -2 | tr '\n' ' ')"
done
git -C /repo worktree remove --force $WT/repo; rm -rf $WT
