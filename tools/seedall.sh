#!/bin/bash
# tools/seedall.sh [tier] : every stored seeded change (seeded/<name>/meta.json names the property) against its check,
# four at a time, each in its own scratch worktree; a seed is CAUGHT when the check exits 1 with a VIOLATION line
cd "$(dirname "$0")/.."
T=${1:-quick}
ls -d seeded/*/ | grep -v pending | while read d; do
  p=$(python3 -c "import json,sys;print(json.load(open('$d/meta.json'))['property'])")
  echo "$p $d"
done | xargs -P 3 -L 1 bash -c 'tools/seedrun.sh $0 $1 '"$T"' 2>&1 | grep -E "CHECK exit|FAILURE"' | sort | tee /tmp/seedall.out
echo "caught: $(grep -c 'exit=1' /tmp/seedall.out) / $(wc -l < /tmp/seedall.out)"
