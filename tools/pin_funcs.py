#!/usr/bin/env python3
"""tools/pin_funcs.py: pin the fingerprints of /repo's function declarations (tools/FUNCS.lock.json) - run when the models
have been reviewed against the current source (after every fix: commit).  bin/check compares on every run; a difference
is not a verdict, it makes the quick check run the thorough generators too."""
import os, subprocess, sys, json
here = os.path.dirname(os.path.dirname(os.path.abspath(__file__)))
repo = os.environ.get("VERIF_REPO", "/repo")
env = dict(os.environ, GOFLAGS="-mod=mod", GOPROXY="off", GOSUMDB="off", GOTOOLCHAIN="local")
exe = "/tmp/genconsts-pin"
subprocess.check_call(["go", "build", "-o", exe, "."], cwd=os.path.join(here, "tools", "genconsts"), env=env)
out = os.path.join(here, "tools", "FUNCS.lock.json")
subprocess.check_call([exe, repo, out], stdout=subprocess.DEVNULL, env=env)
os.remove(exe)
d = json.load(open(out))
print("pinned", sum(len(v) for v in d.values()), "functions of", len(d), "files at", subprocess.check_output(["git", "-C", repo, "rev-parse", "--short", "HEAD"]).decode().strip())
