// Throw-away probe behind coq/Properties/C17.v "the real constant": runs the library's line scanner (hook VerifScanTokens)
// on lines of 65533..65537 bytes with every kind of line end and four kinds of stream.
// Run: cd tools/probe_scanlimit && GOFLAGS=-mod=mod GOPROXY=off go run -tags verif .

package main

import (
	"bytes"
	"fmt"
	"io"
	"strings"

	astisub "github.com/asticode/go-astisub"
)

// joint delivers the last bytes together with io.EOF
type joint struct{ data []byte }

func (j *joint) Read(p []byte) (int, error) {
	n := copy(p, j.data)
	j.data = j.data[n:]
	if len(j.data) == 0 {
		return n, io.EOF
	}
	return n, nil
}

// chunk delivers at most k bytes per read, EOF separately
type chunk struct {
	data []byte
	k    int
}

func (c *chunk) Read(p []byte) (int, error) {
	if len(c.data) == 0 {
		return 0, io.EOF
	}
	n := c.k
	if n > len(p) {
		n = len(p)
	}
	if n > len(c.data) {
		n = len(c.data)
	}
	copy(p, c.data[:n])
	c.data = c.data[n:]
	return n, nil
}

func main() {
	terms := []struct{ name, t string }{{"LF", "\n"}, {"CRLF", "\r\n"}, {"CR+x", "\rx"}, {"CR@EOF", "\r"}, {"none", ""}}
	for _, pre := range []string{"", "ab\n"} {
		for _, tm := range terms {
			for _, L := range []int{65533, 65534, 65535, 65536, 65537} {
				data := pre + strings.Repeat("a", L) + tm.t
				res := ""
				for _, mk := range []func() io.Reader{
					func() io.Reader { return bytes.NewReader([]byte(data)) },
					func() io.Reader { return &joint{[]byte(data)} },
					func() io.Reader { return &chunk{[]byte(data), 1000} },
					func() io.Reader { return &chunk{[]byte(data), 7} },
				} {
					toks, err := astisub.VerifScanTokens(mk())
					if err != nil {
						res += fmt.Sprintf(" ERR(%d toks)", len(toks))
					} else {
						res += fmt.Sprintf(" ok(%d toks)", len(toks))
					}
				}
				fmt.Printf("pre=%q term=%-6s L=%d:%s\n", pre, tm.name, L, res)
			}
		}
	}
	// the readers on an over-long line
	long := "1\n00:00:01,000 --> 00:00:02,000\n" + strings.Repeat("a", 70000) + "\n"
	_, e1 := astisub.ReadFromSRT(strings.NewReader(long))
	_, e2 := astisub.ReadFromWebVTT(strings.NewReader("WEBVTT\n\n00:01.000 --> 00:02.000\n" + strings.Repeat("a", 70000) + "\n"))
	_, e3 := astisub.ReadFromSSA(strings.NewReader("[Script Info]\n; " + strings.Repeat("a", 70000) + "\n"))
	fmt.Println("srt:", e1, "| vtt:", e2, "| ssa:", e3)
}
