#!/usr/bin/env python3
"""tools/pin_theorems.py [--check]: (re)write coq/Properties/THEOREMS.lock.json = for every property file, the qualified
name and the hash of the normalised statement of each Theorem.  bin/check compares the property files with it on every
run and never writes it: a theorem that disappears or whose statement changes without this tool being run deliberately
makes the check report the property as no longer shown."""
import glob, json, os, sys
from importlib.machinery import SourceFileLoader
chk = SourceFileLoader("vcheck", os.path.join(os.path.dirname(os.path.dirname(os.path.abspath(__file__))), "bin", "check")).load_module()
cur = {}
for f in sorted(glob.glob(os.path.join(chk.COQ, "Properties", "C*.v"))):
    pid = os.path.basename(f)[:-2]
    cur[pid] = dict(chk.theorem_table(open(f).read()))
if "--check" in sys.argv:
    old = json.load(open(chk.LOCKFILE)) if os.path.exists(chk.LOCKFILE) else {}
    bad = 0
    for pid in sorted(set(old) | set(cur)):
        for n, h in old.get(pid, {}).items():
            if cur.get(pid, {}).get(n) != h:
                print("%s: %s %s" % (pid, n, "missing" if n not in cur.get(pid, {}) else "statement changed")); bad += 1
        new = [n for n in cur.get(pid, {}) if n not in old.get(pid, {})]
        if new:
            print("%s: not pinned yet: %s" % (pid, ", ".join(new)))
    sys.exit(1 if bad else 0)
json.dump(cur, open(chk.LOCKFILE, "w"), indent=1, sort_keys=True)
print("pinned", sum(len(v) for v in cur.values()), "theorems in", len(cur), "files")
