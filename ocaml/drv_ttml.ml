(* C03: TTML suites of the model driver (time expressions, tree-level reader and writer). *)
open Model open Driver

let rec rxnode r : xnode =
  if rint r = 0 then XText (rstr r)
  else begin
    let sp = rstr r in let lo = rstr r in
    let attrs = rlist (fun r -> let s = rstr r in let l = rstr r in let v = rstr r in ({ x_space = s; x_local = l }, v)) r in
    let kids = rlist rxnode r in
    XElem ({ x_space = sp; x_local = lo }, attrs, kids)
  end
let rec pxnode = function
  | XText s -> pint 0; pstr s
  | XElem (n, attrs, kids) ->
    pint 1; pstr n.x_space; pstr n.x_local;
    plist (fun (a, v) -> pstr a.x_space; pstr a.x_local; pstr v) attrs;
    plist pxnode kids

let rostr r = ropt_with rstr r
let postr = popt_with pstr
let rtattrs r =
  let s = List.init 23 (fun _ -> rostr r) in
  let z = ropt_with rz r in { ta_s = s; ta_z = z }
let ptattrs a = List.iter postr a.ta_s; popt_with pz a.ta_z
let rtstyle r = let k = rstr r in let i = rstr r in let rf = rostr r in let a = rtattrs r in (k, { ts_id = i; ts_ref = rf; ts_attrs = a })
let cmp_key (a, _) (b, _) = compare (List.map int_of_n a) (List.map int_of_n b)
let ptstyles l = plist (fun (k, s) -> pstr k; pstr s.ts_id; postr s.ts_ref; ptattrs s.ts_attrs) (List.sort cmp_key l)
let rtrun r = let t = rstr r in let s = rostr r in let a = rtattrs r in { tr_txt = t; tr_style = s; tr_attrs = a }
let ptrun x = pstr x.tr_txt; postr x.tr_style; ptattrs x.tr_attrs
let rtitem r =
  let s = rz r in let e = rz r in let rg = rostr r in let sy = rostr r in let a = rtattrs r in
  let ls = rlist (rlist rtrun) r in
  { ti_st = s; ti_en = e; ti_region = rg; ti_style = sy; ti_attrs = a; ti_lines = ls }
let ptitem x = pz x.ti_st; pz x.ti_en; postr x.ti_region; postr x.ti_style; ptattrs x.ti_attrs; plist (plist ptrun) x.ti_lines
let rtdoc r =
  let hm = rbool r in let fr = rz r in let ti = rstr r in let co = rstr r in let la = rstr r in
  let st = rlist rtstyle r in let rg = rlist rtstyle r in let it = rlist rtitem r in
  { td_meta = (if hm then Some { tm_framerate = fr; tm_title = ti; tm_copyright = co; tm_lang = la } else None);
    td_styles = st; td_regions = rg; td_items = it }
let ptdoc d =
  (match d.td_meta with
   | Some m -> pint 1; pz m.tm_framerate; pstr m.tm_title; pstr m.tm_copyright; pstr m.tm_lang
   | None -> pint 0; pint 0; pint 0; pint 0; pint 0);
  ptstyles d.td_styles; ptstyles d.td_regions; plist ptitem d.td_items

(* the checked transcriptions (Model/TtmlC.v) are what the correspondence runs *)
exception Model_panic
let ttml_time_c s fr tr =
  match ttml_unmarshal_c s with
  | Ok (Some d) -> Some (ttml_duration d fr tr)
  | Ok None -> None
  | _ -> raise Model_panic
let wdoc_of (d : tdoc) : wdoc =
  let hs (k, s) = (k, Some { ws_id = s.ts_id; ws_ref = s.ts_ref; ws_inline = Some s.ts_attrs }) in
  { w_meta = d.td_meta; w_styles = List.map hs d.td_styles; w_regions = List.map hs d.td_regions;
    w_items = List.map (fun it ->
      { wi_start = it.ti_st; wi_stop = it.ti_en; wi_region = it.ti_region; wi_style = it.ti_style;
        wi_inline = Some it.ti_attrs;
        wi_runs = List.map (List.map (fun r -> { wr_txt = r.tr_txt; wr_style = r.tr_style; wr_inline = Some r.tr_attrs })) it.ti_lines })
      d.td_items }
let big = z_of_string "4000000000000000000"
let in_range z = (match Z.add z big with Zneg _ -> false | _ -> true) && (match Z.add (Z.opp z) big with Zneg _ -> false | _ -> true)

let () =
  (* C07 plain view: TTML sources are library-written, i.e. inside xml_parse's subset *)
  Drv_plain.register_plain 4 ttml_dec2 ttml_enc
    (fun d -> match xml_parse2 d with Some t -> doc_time_simple t | None -> false);
  register "ttmlopt" (fun r -> let d = rtdoc r in pint 0; ptdoc (ttml_optimize d));
  register "ttmlrenderex" (fun r ->
    let t = rxnode r in
    pint (if t = render_ttml ex_rendering ex_model then 1 else 0);
    ptdoc (denote_ttml ex_rendering ex_model));
  (* C07: styled sources converted into TTML (Model/ConvTtml.v); values inside the source reader's faithful domain *)
  register "convstyledttml" (fun r ->
    let src = rint r in let doc = rstr r in
    let res = (match src with 0 -> convert_srt_ttml doc | 1 -> convert_vtt_ttml doc | 2 -> convert_ssa_ttml doc | _ -> convert_stl_ttml_go false doc) in
    if (Hashtbl.find Drv_plain.plain_simple src) doc then pres pstr res else (Buffer.add_string b "NS "; pres (fun _ -> ()) res));
  register "ttmlconst" (fun r -> pint (rint r));
  register "ttmltime" (fun r ->
    let s = rstr r in let fr = rz r in let tr = rz r in
    let res = ttml_time_c s fr tr in
    let ok = time_simple s && (match res with Some z -> in_range z | None -> true) in
    if not ok then Buffer.add_string b "NS ";
    (match res with Some z -> pint 0; if ok then pz z | None -> pint 1));
  register "ttmlread" (fun r ->
    let simple = rbool r in
    let root = rxnode r in
    let res = read_ttml_c root in
    let ok = simple && doc_time_simple root
             && (match res with Ok d -> List.for_all (fun it -> in_range it.ti_st && in_range it.ti_en) d.td_items | _ -> true) in
    if ok then pres ptdoc res else (Buffer.add_string b "NS "; pres (fun _ -> ()) res));
  register "xmlparse2" (fun r ->
    match xml_parse2 (rstr r) with
    | Some t -> pint 0; pxnode t
    | None -> pint 1);
  register "ttmlreadbytes2" (fun r ->
    let simple = rbool r in
    let data = rstr r in
    match xml_parse2 data with
    | Some t ->
      let res = read_ttml_c t in
      let ok = simple && doc_time_simple t
               && (match res with Ok d -> List.for_all (fun it -> in_range it.ti_st && in_range it.ti_en) d.td_items | _ -> true) in
      if ok then pres ptdoc res else (Buffer.add_string b "NS "; pres (fun _ -> ()) res)
    | None -> Buffer.add_string b "NOPARSE");
  register "xmlparse" (fun r ->
    match xml_parse (rstr r) with
    | Some t -> pint 0; pxnode t
    | None -> pint 1);
  register "ttmlreadbytes" (fun r ->
    match xml_parse (rstr r) with
    | Some t -> pres ptdoc (read_ttml_c t)
    | None -> Buffer.add_string b "NOPARSE");
  register "ttmlwritetree" (fun r ->
    let indent = rstr r in
    let d = rtdoc r in
    pres (fun t -> pxnode (indent_doc indent t)) (write_ttml_c (wdoc_of d)));
  register "ttmlwrite" (fun r ->
    let indent = rstr r in
    let d = rtdoc r in
    pres (fun t -> pstr (print_node_go print_name indent O t)) (write_ttml_c (wdoc_of d)))
