(* C07: conversion with operations in between (Model/ConvOps.v) *)
open Model
open Driver

let ns = ref false
let simple d = List.for_all html_simple (lines d)
let rcop r =
  match rint r with
  | 0 -> let d = rz r in CAdd d
  | 1 -> let f = rz r in CFragment f
  | 2 -> CUnfragment
  | 3 -> COrder
  | 4 -> COptimize
  | 5 -> let a1 = rz r in let d1 = rz r in let a2 = rz r in let d2 = rz r in CLin (a1, d1, a2, d2)
  | 6 ->
    let d = rstr r in
    if not (simple d) then ns := true;
    (match read_srt d with Ok l -> CMerge l | _ -> failwith "convops: merge source unreadable")
  | _ -> failwith "convops: unknown operation"

let () =
  register "convops" (fun r ->
    ns := false;
    let dst = rint r in
    let d = rstr r in
    if not (simple d) then ns := true;
    let ops = rlist rcop r in
    let res = if dst = 0 then convert_srt_ops_srt ops d else convert_srt_ops_vtt ops d in
    if !ns then (Buffer.add_string b "NS "; pres (fun _ -> ()) res) else pres pstr res)
