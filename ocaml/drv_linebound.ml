open Model open Driver
(* The line scanner with bufio.Scanner's buffer limit (Kit/ScanLim.v scan_lim), for the line-bound suites of C01 / C02 / C04
   (harness/linebound.go).
     scanlim: max, the data as run-length chunks (list of: repeat count, bytes), the sizes of the successive Reads
              -> error flag (1 = ErrTooLong), number of tokens, per token its length and a hash of its bytes.
   The chunks keep a 65 kB line of one letter short on the wire. *)
let () = register "scanlim" (fun r ->
  let mx = nat_of_int (rint r) in
  let chunks = rlist (fun r -> let k = rint r in let s = rstr r in (k, s)) r in
  let data = List.concat (List.map (fun (k, s) -> List.concat (List.init k (fun _ -> s))) chunks) in
  let cs = rlist (fun r -> nat_of_int (rint r)) r in
  let (toks, e) = scan_lim mx data cs in
  pbool e; pint (List.length toks);
  List.iter (fun t -> pint (List.length t); pint (List.fold_left (fun h c -> (h * 31 + int_of_n c) mod 1000000007) 7 t)) toks)
