open Model open Driver
(* C06 teletext: the feeder-level reader model (Model/Ttx.v) on delivered (time, payload) lists *)
let poptb = function None -> pint 0 | Some b -> pint (if b then 2 else 1)
let ptrun x =
  pstr x.tr_text; popt x.tr_sty.ts_color; poptb x.tr_sty.ts_dh; poptb x.tr_sty.ts_ds; poptb x.tr_sty.ts_dw;
  pn x.tr_sb; pn x.tr_sa
let ptcue c = pz c.c_st; pz c.c_en; plist (plist ptrun) c.c_lines
let () =
  register "ttxfeed" (fun r ->
    let page = rz r in
    let ds = rlist (fun r -> let t = ropt_with rz r in let p = rstr r in (t, p)) r in
    pres (plist ptcue) (ttx_feed page ds));
  register "ttxrow" (fun r ->
    let c = rlist rstr r in let row = rstr r in
    pres (plist ptrun) (ttx_parse_row c row))
