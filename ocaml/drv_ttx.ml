open Model open Driver
(* C06 teletext: the feeder-level reader model (Model/Ttx.v) on delivered (time, payload) lists *)
let poptb = function None -> pint 0 | Some b -> pint (if b then 2 else 1)
let ptrun x =
  pstr x.tr_text; popt x.tr_sty.ts_color; poptb x.tr_sty.ts_dh; poptb x.tr_sty.ts_ds; poptb x.tr_sty.ts_dw;
  pn x.tr_sb; pn x.tr_sa
let ptcue c = pz c.c_st; pz c.c_en; plist (plist ptrun) c.c_lines
let () =
  register "ttxfeed" (fun r ->
    let page = rz r in
    let ds = rlist (fun r -> let t = ropt_with rz r in let p = rstr r in (t, p)) r in
    pres (plist ptcue) (ttx_feed page ds));
  register "ttxrow" (fun r ->
    let c = rlist rstr r in let row = rstr r in
    pres (plist ptrun) (ttx_parse_row c row))

(* C06: the specification side (Model/TtxSpec.v): a generated case as schedule x multiplexing x PES grouping; inside the
   class of the stream theorems the cues the schedule denotes, outside it "NS" *)
let runit r = let id = rn r in let d = rstr r in (id, d)
let rtunit r = let t = rz r in let u = runit r in (t, u)
let rrowspec r =
  let pre = rstr r in let boxes = nat_of_int (rint r) in
  let segs = rlist (fun r -> let c = rstr r in let x = rstr r in { sg_codes = c; sg_cells = x }) r in
  let e = if rbool r then Some (rstr r) else None in
  { rw_pre = pre; rw_boxes = boxes; rw_segs = segs; rw_end = e }
let rec take n l = if n = 0 then ([], l) else match l with [] -> ([], []) | x :: r -> let (a, b) = take (n - 1) r in (x :: a, b)
let () =
  register "ttxspec" (fun r ->
    let auto = rbool r in let mag = rn r in let pn = rz r in
    let insts = rlist (fun r -> let t = rz r in let cs = rn r in
                        let rows = rlist (fun r -> let row = rn r in let sp = rrowspec r in (row, sp)) r in
                        { i_t = t; i_cs = cs; i_rows = rows }) r in
    let pre = rlist rtunit r in
    let ims = rlist (fun r ->
      let h = runit r in
      let body = rlist (fun r -> let t = rz r in let f = rbool r in let u = runit r in (t, (f, u))) r in
      let tail = if rbool r then (let tm = rtunit r in let dead = rlist rtunit r in Some (tm, dead)) else None in
      { im_hdr = h; im_body = body; im_tail = tail }) r in
    let s = { s_mag = mag; s_pn = pn; s_insts = insts } in
    let m = { mx_pre = pre; mx_insts = ims } in
    let evs = events s m in
    let rest = ref evs in
    let peses = rlist (fun r ->
      match rint r with
      | 0 -> let t = rz r in let id = rn r in let n = rint r in let trail = rstr r in
             let (a, b) = take n !rest in rest := b; PUnits (t, id, List.map snd a, trail)
      | 1 -> PNoTime (rstr r)
      | _ -> let t = rz r in let p = rstr r in PInert (t, p)) r in
    let flat = List.concat (List.map pes_units peses) in
    let inclass = (if auto then mux_ok_auto s m else mux_ok s m) && List.for_all pes_ok peses && flat = evs in
    if not inclass && Sys.getenv_opt "TTX_DEBUG" <> None then begin
      let why = Buffer.create 100 in
      if not (List.for_all pes_ok peses) then Buffer.add_string why "pes_ok ";
      if flat <> evs then Buffer.add_string why "flat ";
      if List.length insts <> List.length ims then Buffer.add_string why "len ";
      List.iter (fun (_, u) -> if not (if auto then unselected_ok u else (dead_ok mag pn u || desig_ok mag u)) then Buffer.add_string why "pre ") pre;
      List.iteri (fun k (i, im) ->
        if not (is_our_header mag pn i.i_cs im.im_hdr) then Buffer.add_string why (Printf.sprintf "hdr%d " k);
        List.iter (fun (row, sp) -> if not (rowspec_ok sp) then Buffer.add_string why (Printf.sprintf "rowspec%d " k)) i.i_rows;
        if not (body_ok mag pn i.i_rows im.im_body) then begin
          Buffer.add_string why (Printf.sprintf "body%d " k);
          let rows = ref i.i_rows in
          List.iter (fun (_, (f, u)) ->
            if f then (match !rows with (row, sp) :: rs -> (if not (is_our_row mag row (row_cells sp) u) then Buffer.add_string why "ROW "); rows := rs | [] -> Buffer.add_string why "NOROW ")
            else if not (benign mag pn u || desig_ok mag u) then Buffer.add_string why (Printf.sprintf "BENIGN(id=%d) " (int_of_n (fst u)))) im.im_body end;
        (match im.im_tail with Some ((_, tu), dead) ->
           if not (is_terminator mag pn tu) then Buffer.add_string why "term ";
           List.iter (fun (_, u) -> if not (dead_ok mag pn u || desig_ok mag u) then Buffer.add_string why "dead ") dead
         | None -> ())) (List.combine insts ims);
      prerr_endline ("NS because: " ^ Buffer.contents why) end;
    if not inclass then Buffer.add_string b "NS 0 "
    else (pint 0; plist ptcue (cues_of s (zero_or (tmin peses None)) (zero_or (tmax peses None)) (desig_final auto mag m))))

(* C07, teletext as the source of conversions (Model/PlainTtx.v): ttxenc: plain cues -> the delivered list of ttx_enc (only
   inside ttx_plain_ok, else NS); plainreadttx: delivered list -> ttx_dec; convplainttx: destination code, delivered list ->
   convert_plain ttx_dec F_enc with the writers registered in Drv_plain *)
let rdeliveries r = rlist (fun r -> let t = ropt_with rz r in let p = rstr r in (t, p)) r
let () =
  register "ttxenc" (fun r ->
    let p = Drv_plain.rplain r in
    if not (ttx_plain_okb p) then Buffer.add_string b "NS 0 " else
    pres (plist (fun (t, d) -> popt_with pz t; pstr d)) (ttx_enc p));
  register "plainreadttx" (fun r -> pres Drv_plain.pplain (ttx_dec (rdeliveries r)));
  register "convplainttx" (fun r ->
    let d = rint r in let ds = rdeliveries r in
    pres pstr (convert_plain ttx_dec (Hashtbl.find Drv_plain.plain_writers d) ds))

(* Hamming 24/18 (Model/TtxHam.v): ttxham: a 24-bit word -> the decoded 18 data bits or nothing; ttxhamenc: 18 data bits -> word *)
let () =
  register "ttxham" (fun r -> let w = rn r in popt (ham2418_dec_word w));
  register "ttxhamenc" (fun r -> let d = rn r in pn (ham2418_word d))

(* C07, styled teletext sources (Model/ConvTtx.v): convttx: destination code, delivered list -> destination bytes *)
let () =
  register "convttx" (fun r ->
    let d = rint r in let ds = rdeliveries r in
    pres pstr ((match d with 0 -> convert_ttx_srt | 1 -> convert_ttx_vtt | 2 -> convert_ttx_ssa | 3 -> convert_ttx_stl | _ -> convert_ttx_ttml) ds))

(* C17/C18, teletextFullReader (Model/TtxFull.v): ttxfull: data, end (0 = end-of-file, 1+k = failure at offset k), counts,
   end signal with the last bytes, request sizes -> what each Read of the wrapper returns (bytes, 0 nil / 1 EOF / 2 failure);
   ttxfullspec: the one-shot sequence of the same stream *)
let () =
  let rnat r = nat_of_int (rint r) in
  let psig = function None -> pint 0 | Some TfEOF -> pint 1 | Some TfFault -> pint 2 in
  let pseq l = plist (fun (b, s) -> pstr b; psig s) l in
  let rcase r =
    let d = rstr r in let e = rint r in let cs = rlist rnat r in let w = rbool r in let ns = rlist rnat r in
    (tf_of d (if e = 0 then SEof else SFail (nat_of_int (e - 1))) cs w, ns) in
  register "ttxfull" (fun r -> let (s, ns) = rcase r in
    match tf_reads s ns with None -> pint 0 | Some l -> pint 1; pseq l);
  register "ttxfullspec" (fun r -> let (s, ns) = rcase r in pint 1; pseq (tf_oneshot s.tf_avail s.tf_end ns))
