(* main loop of the model driver; compiled last so that every drv_*.ml has registered its suites *)
open Driver
let () =
  try
    while true do
      let l = input_line stdin in
      let toks = Array.of_list (List.filter (fun s -> s <> "") (String.split_on_char ' ' l)) in
      if Array.length toks > 0 then begin
        Buffer.clear b;
        (try run_case toks.(0) { toks; pos = 1 }
         with e -> (Buffer.clear b; Buffer.add_string b ("DRIVER-ERROR " ^ Printexc.to_string e)));
        print_string (String.trim (Buffer.contents b)); print_newline ()
      end
    done
  with End_of_file -> ()
