open Model open Driver
(* EBU STL (C05): suites of the extracted STL model.  Encodings mirror harness/stl.go. *)

let pob = function None -> pint 0 | Some v -> pint 1; pbool v
let prun_stl (x : erun) =
  pstr x.ru_text;
  let a = x.ru_at in
  pob a.a_it; pob a.a_un; pob a.a_bx; popt a.a_col; pob a.a_dh; pob a.a_ds; pob a.a_dw;
  popt x.ru_sb; popt x.ru_sa
let pritem (x : ritem) =
  pz x.ri_st; pz x.ri_en; pn x.ri_just; pz x.ri_vp; pz x.ri_maxrows; pn x.ri_rows; pstr x.ri_align; pstr x.ri_line;
  plist (plist prun_stl) x.ri_lines
let prdoc (d : rdoc) =
  pz d.rd_fps; pstr d.rd_co; pstr d.rd_cd; pstr d.rd_dsc; pstr d.rd_ecd; pstr d.rd_en; pz d.rd_mnc; pz d.rd_mnr;
  pstr d.rd_oet; pstr d.rd_pub; pstr d.rd_rd; pz d.rd_rn; pstr d.rd_slr; pstr d.rd_tet; pstr d.rd_tpt; pstr d.rd_tcd;
  pstr d.rd_tn; pstr d.rd_title; pz d.rd_tcp; pstr d.rd_lang; plist pritem d.rd_items

let ropt_z r = ropt_with rz r
let rwmeta r =
  let fps = rz r in let lang = rstr r in let title = rstr r in let co = rstr r in let cd = ropt_with rstr r in
  let dsc = rstr r in let ecd = rstr r in let en = rstr r in let mnc = ropt_z r in let mnr = ropt_z r in
  let oet = rstr r in let pub = rstr r in let rd = ropt_with rstr r in let rn = rz r in let slr = rstr r in
  let tcp = rz r in let tet = rstr r in let tpt = rstr r in let tcd = rstr r in let tn = rstr r in
  { wm_fps = fps; wm_lang = lang; wm_title = title; wm_co = co; wm_cd = cd; wm_dsc = dsc; wm_ecd = ecd; wm_en = en;
    wm_mnc = mnc; wm_mnr = mnr; wm_oet = oet; wm_pub = pub; wm_rd = rd; wm_rn = rn; wm_slr = slr; wm_tcp = tcp;
    wm_tet = tet; wm_tpt = tpt; wm_tcd = tcd; wm_tn = tn }
let rwrun r = let t = rstr r in let i = rbool r in let u = rbool r in let b = rbool r in
  { wr_text = t; wr_it = i; wr_un = u; wr_bx = b }
let rwitem r = let s = rz r in let e = rz r in let j = ropt r in let vp = ropt_z r in let ls = rlist (rlist rwrun) r in
  { wi_st = s; wi_en = e; wi_just = j; wi_vp = vp; wi_lines = ls }

let rgsi r =
  let cct = rn r in let cpn = rn r in let co = rstr r in let cd = rstr r in let dsn = rz r in let dsc = rstr r in
  let ecd = rstr r in let en = rstr r in let fps = rz r in let lc = rstr r in let mnc = rz r in let mnr = rz r in
  let oet = rstr r in let opt = rstr r in let pub = rstr r in let rd = rstr r in let rnn = rz r in let slr = rstr r in
  let tcf = rz r in let tcp = rz r in let tcs = rstr r in let tnd = rz r in let tng = rz r in let tns = rz r in
  let tnb = rz r in let tet = rstr r in let tpt = rstr r in let tcd = rstr r in let tn = rstr r in let uda = rstr r in
  { g_cct = cct; g_cpn = cpn; g_co = co; g_cd = cd; g_dsn = dsn; g_dsc = dsc; g_ecd = ecd; g_en = en; g_fps = fps;
    g_lc = lc; g_mnc = mnc; g_mnr = mnr; g_oet = oet; g_opt = opt; g_pub = pub; g_rd = rd; g_rn = rnn; g_slr = slr;
    g_tcf = tcf; g_tcp = tcp; g_tcs = tcs; g_tnd = tnd; g_tng = tng; g_tns = tns; g_tnb = tnb; g_tet = tet;
    g_tpt = tpt; g_tcd = tcd; g_tn = tn; g_uda = uda }
let pgsi g =
  pn g.g_cct; pn g.g_cpn; pstr g.g_co; pstr g.g_cd; pz g.g_dsn; pstr g.g_dsc; pstr g.g_ecd; pstr g.g_en; pz g.g_fps;
  pstr g.g_lc; pz g.g_mnc; pz g.g_mnr; pstr g.g_oet; pstr g.g_opt; pstr g.g_pub; pstr g.g_rd; pz g.g_rn; pstr g.g_slr;
  pz g.g_tcf; pz g.g_tcp; pstr g.g_tcs; pz g.g_tnd; pz g.g_tng; pz g.g_tns; pz g.g_tnb; pstr g.g_tet; pstr g.g_tpt;
  pstr g.g_tcd; pstr g.g_tn; pstr g.g_uda
let rtti r =
  let cf = rn r in let cs = rn r in let ebn = rz r in let jc = rn r in let sgn = rz r in let sn = rz r in
  let text = rstr r in let tin = rz r in let tout = rz r in let vp = rz r in
  { t_cf = cf; t_cs = cs; t_ebn = ebn; t_jc = jc; t_sgn = sgn; t_sn = sn; t_text = text; t_in = tin; t_out = tout; t_vp = vp }
let ptti t =
  pn t.t_cf; pn t.t_cs; pz t.t_ebn; pn t.t_jc; pz t.t_sgn; pz t.t_sn; pstr t.t_text; pz t.t_in; pz t.t_out; pz t.t_vp

let rec int_of_nat = function O -> 0 | S n -> 1 + int_of_nat n
let ns_class res = Buffer.add_string b "NS "; pres (fun _ -> ()) res

let () =
  register "stlread" (fun r ->
    let ign = rbool r in let d = rstr r in
    let res = read_stl_c ign d in   (* the checked transcription (Model/StlC.v); equal to read_stl by Proofs/StlChk.v *)
    if read_faithful d then pres prdoc res else ns_class res);
  register "stlwrite" (fun r ->
    let now = rstr r in let md = ropt_with rwmeta r in let items = rlist rwitem r in
    let res = write_stl_c now md items in   (* checked transcription *)
    if write_faithful md items then pres pstr res else ns_class res);
  (* C08: the Go-shaped cue list, nil elements and nil-able style pointers included (Model/StlCW.v) *)
  register "stlwritem" (fun r ->
    let now = rstr r in let md = ropt_with rwmeta r in
    let rgstyle r = let j = ropt r in let p = ropt_z r in let i = ropt_with rbool r in let u = ropt_with rbool r in
      let bx = ropt_with rbool r in { gs_just = j; gs_pos = p; gs_it = i; gs_un = u; gs_bx = bx } in
    let rgli r = let t = rstr r in let s = ropt_with rgstyle r in { gl_text = t; gl_style = s } in
    let rgitem r = let s = rz r in let e = rz r in let sa = ropt_with rgstyle r in let ls = rlist (rlist rgli) r in
      { gsi_st = s; gsi_en = e; gsi_style = sa; gsi_lines = ls } in
    let l = rlist (ropt_with rgitem) r in
    let res = write_stl_items_c now md l in
    let flat = List.filter_map (function Some i -> Some (item_flat i) | None -> None) l in
    if write_faithful md flat then pres pstr res else ns_class res);
  (* pinned cases outside the faithful domain whose characters the normaliser leaves alone (harness/stl_outside.go) *)
  register "stlencraw" (fun r -> let t = rstr r in pres pstr (encode_text_stl_c t));
  register "stlwriteraw" (fun r ->
    let now = rstr r in let md = ropt_with rwmeta r in let items = rlist rwitem r in pres pstr (write_stl_c now md items));
  register "stlreadraw" (fun r -> let ign = rbool r in let d = rstr r in pres prdoc (read_stl_c ign d));
  register "stlenc" (fun r ->
    let t = rstr r in
    if text_faithful t then pres pstr (encode_text_stl_c t) else Buffer.add_string b "NS 0 ");
  register "stldec" (fun r ->
    let bs = rstr r in
    let (o, acc) = decode_bytes None bs in pstr o; popt acc);
  register "stlopenrow" (fun r ->
    let row = rstr r in let acc = ropt r in
    pres (fun (l, acc') -> plist prun_stl l; popt acc') (open_row_c row [] [] (Some sattr0_stl) acc));
  register "stlttxrow" (fun r ->
    let row = rstr r in let acc = ropt r in
    pres (fun (l, acc') -> plist prun_stl l; popt acc') (stl_ttx_row_c row [] [] sattr0_stl false acc));
  register "stlgsi" (fun r ->
    let blk = rstr r in
    let res = parse_gsi_c blk in   (* checked: the harness hands over 1024-byte blocks *)
    if gsi_faithful blk then pres pgsi res else ns_class res);
  register "stlgsiw" (fun r ->
    let g = rgsi r in
    if time_faithful g.g_tcp && time_faithful g.g_tcf then pres pstr (gsi_bytes_c g) else Buffer.add_string b "NS 0 ");
  register "stltti" (fun r -> let blk = rstr r in let fps = rz r in
    match parse_tti_c blk fps with Ok t -> ptti t | Err _ -> pint 1 | Panic _ -> pint 2);
  register "stlttiw" (fun r ->
    let t = rtti r in let fps = rz r in let dsc = rstr r in
    if time_faithful t.t_in && time_faithful t.t_out && text_faithful t.t_text then pres pstr (tti_bytes_c fps dsc Z0 t)
    else Buffer.add_string b "NS 0 ");
  (* C17/C18: schedules, failing streams, failing destinations *)
  register "stlreadsched" (fun r ->
    let ign = rbool r in let d = rstr r in let cs = rlist (fun r -> nat_of_int (rint r)) r in
    let res = read_stl_sched ign d cs in
    if read_faithful d then pres prdoc res else ns_class res);
  register "stlreadfail" (fun r ->
    let ign = rbool r in let d = rstr r in let k = nat_of_int (rint r) in let cs = rlist (fun r -> nat_of_int (rint r)) r in
    pres (fun _ -> ()) (read_stl_fail_at ign d k cs));
  register "stlreadfailwd" (fun r ->   (* the failing Read delivers the last bytes with its error *)
    let ign = rbool r in let d = rstr r in let k = nat_of_int (rint r) in let cs = rlist (fun r -> nat_of_int (rint r)) r in
    pres (fun _ -> ()) (read_stl_fail_at_wd ign d k cs));
  register "stlwriteto" (fun r ->
    let now = rstr r in let md = ropt_with rwmeta r in let items = rlist rwitem r in let k = nat_of_int (rint r) in
    let res = write_stl_to now md items (Fail_at k) in
    if write_faithful md items then pres (fun n -> pint (int_of_nat n)) res else ns_class res);
  (* C07 plain view: format code 3 *)
  Drv_plain.register_plain 3 stl_dec stl_enc read_faithful;
  (* C07 styled conversions into STL (Model/ConvStl.v); outside the source reader's faithful domain: class only *)
  let styled name code conv =
    register name (fun r ->
      let _ = rint r in let doc = rstr r in
      let res = conv doc in
      if (Hashtbl.find Drv_plain.plain_simple code) doc then pres pstr res else ns_class res) in
  styled "convsrtstl" 0 convert_srt_stl;
  styled "convvttstl" 1 convert_vtt_stl;
  styled "convssastl" 2 convert_ssa_stl;
  styled "convttmlstl" 4 convert_ttml_stl;
  (* C07 styled STL sources (Model/ConvStlVtt.v, ConvStlTtml.v) *)
  register "convstlvtt" (fun r -> let ign = rbool r in let d = rstr r in
    let res = convert_stl_vtt ign d in if read_faithful d then pres pstr res else ns_class res);
  register "convstlttml" (fun r -> let ign = rbool r in let d = rstr r in
    let res = convert_stl_ttml_go ign d in if read_faithful d then pres pstr res else ns_class res)
