(* C07 through the plain view (Model/Plain.v): codecs register a reader-to-plain and a plain-to-writer; suites
   "convplain" (source format, destination format, document -> destination bytes) and "plainread" (format, document ->
   plain cues).  Format codes: 0 srt, 1 vtt, 2 ssa, 3 stl, 4 ttml. *)
open Model
open Driver

let plain_readers : (int, n list -> ((z * z) * n list list) list res) Hashtbl.t = Hashtbl.create 8
let plain_writers : (int, ((z * z) * n list list) list -> n list res) Hashtbl.t = Hashtbl.create 8
let plain_simple : (int, n list -> bool) Hashtbl.t = Hashtbl.create 8
let register_plain code rd wr simple =
  Hashtbl.replace plain_readers code rd; Hashtbl.replace plain_writers code wr; Hashtbl.replace plain_simple code simple

let pplain p = plist (fun ((s, e), ls) -> pz s; pz e; plist pstr ls) p
let rplain r = rlist (fun r -> let s = rz r in let e = rz r in let ls = rlist rstr r in ((s, e), ls)) r

let () =
  register_plain 0 srt_dec srt_enc (fun d -> List.for_all html_simple (lines d));
  register_plain 1 vtt_dec vtt_enc (fun d -> List.for_all vtt_line_simple (lines d));
  register "convplain" (fun r ->
    let s = rint r in let d = rint r in let doc = rstr r in
    let rd = Hashtbl.find plain_readers s and wr = Hashtbl.find plain_writers d and simple = Hashtbl.find plain_simple s in
    let res = convert_plain rd wr doc in
    if simple doc then pres pstr res else (Buffer.add_string b "NS "; pres (fun _ -> ()) res));
  register "plainread" (fun r ->
    let s = rint r in let doc = rstr r in
    let rd = Hashtbl.find plain_readers s and simple = Hashtbl.find plain_simple s in
    let res = rd doc in
    if simple doc then pres pplain res else (Buffer.add_string b "NS "; pres (fun _ -> ()) res));
  register "convplainops" (fun r ->
    let s = rint r in let d = rint r in let doc = rstr r in
    let rd = Hashtbl.find plain_readers s and wr = Hashtbl.find plain_writers d and simple = Hashtbl.find plain_simple s in
    let ns = ref (not (simple doc)) in
    let rop r =
      match rint r with
      | 0 -> let d = rz r in PAdd d
      | 1 -> let f = rz r in PFragment f
      | 2 -> PUnfragment
      | 3 -> POrder
      | 4 -> POptimize
      | 5 -> let a1 = rz r in let d1 = rz r in let a2 = rz r in let d2 = rz r in PLin (a1, d1, a2, d2)
      | 6 ->
        let m = rstr r in
        if not ((Hashtbl.find plain_simple 0) m) then ns := true;
        (match (Hashtbl.find plain_readers 0) m with Ok p -> PMerge p | _ -> failwith "convplainops: merge source unreadable")
      | _ -> failwith "convplainops: unknown operation" in
    let ops = rlist rop r in
    let res = convert_plain_ops rd wr ops doc in
    if !ns then (Buffer.add_string b "NS "; pres (fun _ -> ()) res) else pres pstr res);
  (* the CLI: sub-command code 0 apply-linear-correction, 1 convert, 2 fragment, 3 merge, 4 optimize, 5 sync, 6 unfragment,
     7 invalid; for an STL destination the creation/revision date bytes (offsets 224..235: real clock) are masked *)
  register "cliplain" (fun r ->
    let s = rint r in let d = rint r in let doc = rstr r in
    let cmd = (match rint r with 0 -> SApplyLin | 1 -> SConvert | 2 -> SFragment | 3 -> SMerge | 4 -> SOptimize | 5 -> SSync
                               | 6 -> SUnfragment | _ -> SInvalid) in
    let a1 = rz r in let d1 = rz r in let a2 = rz r in let d2 = rz r in let f = rz r in let sy = rz r in
    let rd = Hashtbl.find plain_readers s and wr = Hashtbl.find plain_writers d and simple = Hashtbl.find plain_simple s in
    let ns = ref (not (simple doc)) in
    let second =
      if rint r = 0 then None else begin
        let m = rstr r in
        if not ((Hashtbl.find plain_simple 0) m) then ns := true;
        (match (Hashtbl.find plain_readers 0) m with Ok p -> Some p | _ -> failwith "cliplain: second input unreadable")
      end in
    let a = { c_cmd = cmd; c_a1 = a1; c_d1 = d1; c_a2 = a2; c_d2 = d2; c_f = f; c_s = sy; c_second = second } in
    let res = cli_run rd wr a doc in
    let res = (match res with
               | Ok bytes when d = 3 -> Ok (List.mapi (fun i c -> if i >= 224 && i <= 235 then n_of_int 48 else c) bytes)
               | x -> x) in
    if !ns then (Buffer.add_string b "NS "; pres (fun _ -> ()) res) else pres pstr res);
  register "plainwrite" (fun r ->
    let d = rint r in let p = rplain r in
    pres pstr ((Hashtbl.find plain_writers d) p))
