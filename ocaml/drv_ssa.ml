open Model open Driver
(* SSA/ASS (C04): suites of the extracted model Model/Ssa.v.
   Encodings (all integers, see harness/ssa_model.go):
     optz      = 0 | 1 z                      optbool = 0 | 1 b          optstr = 0 | 1 str
     color     = a b g r                      optcolor = 0 | 1 color
     style     = name fontname bold italic strikeout underline (optbool x4)
                 back outline primary secondary (optcolor x4)
                 alphalevel angle fontsize outline scalex scaley shadow spacing (optz x8, thousandths)
                 alignment borderstyle encoding marginl marginr marginv (optz x6)
     info      = comments(list str) collisions oediting oscript otiming otranslation scripttype updatedby synchpoint
                 title updatedetails wrapstyle (str x11) playdepth playresx playresy (optz x3) timer (optz, thousandths)
     run       = text optstr(effect)          line = voice list(run)
     evattr    = effect layer ml mr mv (optz x4) marked (optbool)
     item      = start end optstr(style id) (0 | 1 evattr) list(line)
     event     = category effect end layer marked ml mr mv name start style text
     doc       = (0 | 1 info) list(key (0 | 1 style)) list(item)
   Results outside the float domain of the model (Err EOther) are printed as "NS 1". *)

let roptz r = if rint r = 0 then None else Some (rz r)
let roptbool r = if rint r = 0 then None else Some (rbool r)
let poptbool = function None -> pint 0 | Some v -> pint 1; pbool v
let rcolor r = let a = rn r in let bb = rn r in let g = rn r in let rr = rn r in { ac_a = a; ac_b = bb; ac_g = g; ac_r = rr }
let pcolor c = pn c.ac_a; pn c.ac_b; pn c.ac_g; pn c.ac_r

let rstyle_ssa r =
  let name = rstr r in let fn = rstr r in
  let b1 = roptbool r in let b2 = roptbool r in let b3 = roptbool r in let b4 = roptbool r in
  let c1 = ropt_with rcolor r in let c2 = ropt_with rcolor r in let c3 = ropt_with rcolor r in let c4 = ropt_with rcolor r in
  let f1 = roptz r in let f2 = roptz r in let f3 = roptz r in let f4 = roptz r in
  let f5 = roptz r in let f6 = roptz r in let f7 = roptz r in let f8 = roptz r in
  let i1 = roptz r in let i2 = roptz r in let i3 = roptz r in let i4 = roptz r in let i5 = roptz r in let i6 = roptz r in
  { ay_name = name; ay_fontname = fn; ay_bold = b1; ay_italic = b2; ay_strikeout = b3; ay_underline = b4;
    ay_back = c1; ay_outlinec = c2; ay_primary = c3; ay_secondary = c4;
    ay_alpha = f1; ay_angle = f2; ay_fontsize = f3; ay_outline = f4; ay_scalex = f5; ay_scaley = f6; ay_shadow = f7; ay_spacing = f8;
    ay_alignment = i1; ay_border = i2; ay_encoding = i3; ay_ml = i4; ay_mr = i5; ay_mv = i6 }
let pstyle_ssa s =
  pstr s.ay_name; pstr s.ay_fontname;
  poptbool s.ay_bold; poptbool s.ay_italic; poptbool s.ay_strikeout; poptbool s.ay_underline;
  popt_with pcolor s.ay_back; popt_with pcolor s.ay_outlinec; popt_with pcolor s.ay_primary; popt_with pcolor s.ay_secondary;
  poptz s.ay_alpha; poptz s.ay_angle; poptz s.ay_fontsize; poptz s.ay_outline;
  poptz s.ay_scalex; poptz s.ay_scaley; poptz s.ay_shadow; poptz s.ay_spacing;
  poptz s.ay_alignment; poptz s.ay_border; poptz s.ay_encoding; poptz s.ay_ml; poptz s.ay_mr; poptz s.ay_mv

let rinfo r =
  let cm = rlist rstr r in
  let s1 = rstr r in let s2 = rstr r in let s3 = rstr r in let s4 = rstr r in let s5 = rstr r in let s6 = rstr r in
  let s7 = rstr r in let s8 = rstr r in let s9 = rstr r in let s10 = rstr r in let s11 = rstr r in
  let n1 = roptz r in let n2 = roptz r in let n3 = roptz r in let tm = roptz r in
  { an_comments = cm; an_collisions = s1; an_oediting = s2; an_oscript = s3; an_otiming = s4; an_otranslation = s5;
    an_scripttype = s6; an_updatedby = s7; an_synchpoint = s8; an_title = s9; an_updatedetails = s10; an_wrapstyle = s11;
    an_playdepth = n1; an_playresx = n2; an_playresy = n3; an_timer = tm }
let pinfo i =
  plist pstr i.an_comments;
  pstr i.an_collisions; pstr i.an_oediting; pstr i.an_oscript; pstr i.an_otiming; pstr i.an_otranslation;
  pstr i.an_scripttype; pstr i.an_updatedby; pstr i.an_synchpoint; pstr i.an_title; pstr i.an_updatedetails; pstr i.an_wrapstyle;
  poptz i.an_playdepth; poptz i.an_playresx; poptz i.an_playresy; poptz i.an_timer

let rrun_ssa r = let t = rstr r in let e = ropt_with rstr r in { ar_text = t; ar_eff = e }
let prun_ssa x = pstr x.ar_text; popt_with pstr x.ar_eff
let rline_ssa r = let v = rstr r in let rs = rlist rrun_ssa r in { al_voice = v; al_runs = rs }
let pline_ssa l = pstr l.al_voice; plist prun_ssa l.al_runs
let revattr r =
  let e = rstr r in let l = roptz r in let ml = roptz r in let mr = roptz r in let mv = roptz r in let mk = roptbool r in
  { ae_effect = e; ae_layer = l; ae_ml = ml; ae_mr = mr; ae_mv = mv; ae_marked = mk }
let pevattr a = pstr a.ae_effect; poptz a.ae_layer; poptz a.ae_ml; poptz a.ae_mr; poptz a.ae_mv; poptbool a.ae_marked
let ritem_ssa r =
  let s = rz r in let e = rz r in let sty = ropt_with rstr r in let inl = ropt_with revattr r in let ls = rlist rline_ssa r in
  { ai_start = s; ai_end = e; ai_style = sty; ai_inl = inl; ai_lines = ls }
let pitem_ssa i = pz i.ai_start; pz i.ai_end; popt_with pstr i.ai_style; popt_with pevattr i.ai_inl; plist pline_ssa i.ai_lines
let revent r =
  let cat = rstr r in let eff = rstr r in let en = rz r in let lay = roptz r in let mk = roptbool r in
  let ml = roptz r in let mr = roptz r in let mv = roptz r in let nm = rstr r in let st = rz r in let sty = rstr r in let tx = rstr r in
  { av_category = cat; av_effect = eff; av_end = en; av_layer = lay; av_marked = mk; av_ml = ml; av_mr = mr; av_mv = mv;
    av_name = nm; av_start = st; av_style = sty; av_text = tx }
let pevent e =
  pstr e.av_category; pstr e.av_effect; pz e.av_end; poptz e.av_layer; poptbool e.av_marked; poptz e.av_ml; poptz e.av_mr; poptz e.av_mv;
  pstr e.av_name; pz e.av_start; pstr e.av_style; pstr e.av_text
let cmp_str (a : n list) (b : n list) = compare (List.map int_of_n a) (List.map int_of_n b)
let rdoc_ssa r =
  let m = ropt_with rinfo r in
  let sts = rlist (fun r -> let k = rstr r in let v = ropt_with rstyle_ssa r in (k, v)) r in
  let its = rlist ritem_ssa r in
  { ad_meta = m; ad_styles = sts; ad_items = its }
let pdoc_ssa d =
  popt_with pinfo d.ad_meta;
  plist (fun (k, v) -> pstr k; popt_with pstyle_ssa v) (List.sort (fun (a, _) (b, _) -> cmp_str a b) d.ad_styles);
  plist pitem_ssa d.ad_items

(* results: Err EOther = outside the model's float domain *)
let pres_ns f = function
  | Ok v -> pint 0; f v
  | Err EOther -> Buffer.add_string b "NS 1 "
  | Err _ -> pint 1
  | Panic _ -> pint 2
let rec drop_none = function [] -> [] | Some x :: r -> x :: drop_none r | None :: r -> drop_none r

(* the plain view of C07: outside the model's float domain (a style row with an exotic float) only the class is compared *)
let ssa_plain_simple d = match read_ssa d with Err EOther -> false | _ -> true

(* The suites below run the CHECKED transcription (Model/SsaC.v: every panic site of ssa.go behind its guard), equal to
   the functions of Model/Ssa.v by Proofs/SsaChk.v.  The reader takes the options: both callbacks may be nil; the wire
   protocol has no field for them, so the value is derived from the length of the input (all four combinations occur;
   the result does not depend on it, read_ssa_lines_c_ok). *)
let opts_of (d : n list) : ssa_opts =
  let k = List.length d in
  { so_unknown = (if k land 1 = 0 then Some () else None); so_invalid = (if k land 2 = 0 then Some () else None) }
(* a checked function that cannot fail in the model (its result is Ok by Proofs/SsaChk.v) *)
let ok_of name = function Ok v -> v | Err _ -> failwith (name ^ ": Err") | Panic _ -> failwith (name ^ ": Panic")

let () =
  Drv_plain.register_plain 2 ssa_dec ssa_enc ssa_plain_simple;
  register "ssareadm" (fun r -> let d = rstr r in pres_ns pdoc_ssa (read_ssa_c (opts_of d) d));
  register "ssawritem" (fun r ->
    let d = rdoc_ssa r in let order = rlist rstr r in
    pres pstr (write_ssa_c d order));
  register "ssawritechunks" (fun r ->
    let d = rdoc_ssa r in let order = rlist rstr r in
    pres (plist pstr) (write_ssa_chunks_c d order));
  register "ssastyle" (fun r -> let c = rstr r in let fmt = rlist rstr r in pres_ns pstyle_ssa (style_from_string_c c fmt));
  register "ssastylestr" (fun r ->
    let s = rstyle_ssa r in let names = rlist rstr r in
    pstr (ok_of "style_string_c" (style_string_c s (drop_none (List.map (find_sattr sattrs_all) names)))));
  register "ssaevent" (fun r ->
    let h = rstr r in let c = rstr r in let fmt = rlist rstr r in pres_ns pevent (event_from_string_c h c fmt));
  register "ssaeventstr" (fun r ->
    let e = revent r in let names = rlist rstr r in
    pstr (ok_of "event_string_c" (event_string_c e (drop_none (List.map (find_eattr eattrs_all) names)))));
  register "ssacolor" (fun r -> pres (popt_with pcolor) (parse_color_c (rstr r)));
  register "ssacolorstr" (fun r -> pstr (format_color (rcolor r)));
  register "ssatime" (fun r -> poptz (ok_of "parse_time_c" (parse_time_c (rstr r))));
  register "ssatext" (fun r -> let name = rstr r in let text = rstr r in plist pline_ssa (ok_of "text_lines_c" (text_lines_c name text)));
  register "ssaitemtext" (fun r -> let ls = rlist rline_ssa r in pstr (item_name ls); pstr (item_text_ssa ls));
  register "ssaitem" (fun r ->
    let e = revent r in let names = rlist rstr r in
    pitem_ssa (ok_of "event_item_c" (event_item_c e (List.map (fun k -> (k, None)) names))));
  register "ssainfo" (fun r -> pstr (ok_of "info_bytes_c" (info_bytes_c (rinfo r))));
  register "ssafloat" (fun r -> poptz (parse_float3 (rstr r)));
  register "ssafloatstr" (fun r -> let z = rz r in pstr (format_float3 z); pstr (format_float_short z))
