(* Driver for the extracted models: reads one case per line ("<suite> <int> <int> ..."),
   prints one result line per case in the same integer encoding.  Hand-written glue (trusted):
   conversion between OCaml ints/strings and the extracted inductive N/Z, parsing, printing. *)
open Model

(* ---- int <-> positive/N/Z ---- *)
let rec pos_of_int (i : int) : positive =
  if i = 1 then XH else if i land 1 = 0 then XO (pos_of_int (i lsr 1)) else XI (pos_of_int (i lsr 1))
let n_of_int i : n = if i = 0 then N0 else Npos (pos_of_int i)
let z_of_int i : z = if i = 0 then Z0 else if i > 0 then Zpos (pos_of_int i) else Zneg (pos_of_int (- i))
let rec int_of_pos = function XH -> 1 | XO p -> 2 * int_of_pos p | XI p -> 2 * int_of_pos p + 1
let int_of_n = function N0 -> 0 | Npos p -> int_of_pos p
let int_of_z = function Z0 -> 0 | Zpos p -> int_of_pos p | Zneg p -> - (int_of_pos p)

(* big values (beyond 62 bits) travel as decimal strings through Z arithmetic *)
let z_of_string (s : string) : z =
  if String.length s <= 18 then z_of_int (int_of_string s)
  else begin
    let neg = s.[0] = '-' in
    let start = if neg then 1 else 0 in
    let acc = ref Z0 in
    let ten = z_of_int 10 in
    for i = start to String.length s - 1 do
      acc := Z.add (Z.mul !acc ten) (z_of_int (Char.code s.[i] - 48))
    done;
    if neg then Z.opp !acc else !acc
  end
let rec string_of_pos_big (p : positive) : string =
  (* only used for values beyond int range: repeated division by 10^9 *)
  let z = Zpos p in
  let base = z_of_int 1000000000 in
  let q = Z.div z base and r = Z.modulo z base in
  match q with
  | Z0 -> string_of_int (int_of_z r)
  | Zpos q' -> string_of_pos_big q' ^ Printf.sprintf "%09d" (int_of_z r)
  | Zneg _ -> assert false
let rec pos_bits = function XH -> 1 | XO p -> 1 + pos_bits p | XI p -> 1 + pos_bits p
let string_of_z (v : z) : string =
  match v with
  | Z0 -> "0"
  | Zpos p -> if pos_bits p <= 61 then string_of_int (int_of_pos p) else string_of_pos_big p
  | Zneg p -> "-" ^ (if pos_bits p <= 61 then string_of_int (int_of_pos p) else string_of_pos_big p)

(* ---- token reader ---- *)
type rd = { toks : string array; mutable pos : int }
let next r = let t = r.toks.(r.pos) in r.pos <- r.pos + 1; t
let rint r = int_of_string (next r)
let rz r = z_of_string (next r)
let rn r = n_of_int (rint r)
let rbool r = rint r <> 0
let ropt r = let k = rint r in if k = 0 then None else Some (n_of_int (k - 1))
let rlist f r = let k = rint r in List.init k (fun _ -> f r)
let rstr r = rlist rn r
let rrun r = let t = rstr r in let s = ropt r in let i = rbool r in { r_text = t; r_sty = s; r_inl = i }
let rline r = let rs = rlist rrun r in let v = rstr r in { l_runs = rs; l_voice = v }
let ritem r =
  let u = rn r in let s = rz r in let e = rz r in let ls = rlist rline r in
  let rg = ropt r in let sy = ropt r in let il = rbool r in
  { uid = u; st = s; en = e; i_lines = ls; i_reg = rg; i_sty = sy; i_inl = il }
let rstyle r = let i = rn r in let p = ropt r in let l = rbool r in { s_id = i; s_parent = p; s_inl = l }
let rregion r = let i = rn r in let s = ropt r in let l = rbool r in { g_id = i; g_sty = s; g_inl = l }
let rmap f r = if rint r = 0 then None else Some (rlist (fun r -> let k = rn r in let v = f r in (k, v)) r)
let rsubs r =
  let it = rlist ritem r in let rg = rmap rregion r in let sy = rmap rstyle r in
  { items = it; regions = rg; styles = sy }

(* ---- printer ---- *)
let b = Buffer.create 65536
let pint i = Buffer.add_string b (string_of_int i); Buffer.add_char b ' '
let pz v = Buffer.add_string b (string_of_z v); Buffer.add_char b ' '
let pn v = pint (int_of_n v)
let pbool v = pint (if v then 1 else 0)
let popt = function None -> pint 0 | Some k -> pint (int_of_n k + 1)
let plist f l = pint (List.length l); List.iter f l
let pstr s = plist pn s
let prun x = pstr x.r_text; popt x.r_sty; pbool x.r_inl
let pline x = plist prun x.l_runs; pstr x.l_voice
let pitem x = pn x.uid; pz x.st; pz x.en; plist pline x.i_lines; popt x.i_reg; popt x.i_sty; pbool x.i_inl
let pstyle x = pn x.s_id; popt x.s_parent; pbool x.s_inl
let pregion x = pn x.g_id; popt x.g_sty; pbool x.g_inl
let pmap f = function
  | None -> pint 1; pint 0 (* results: a nil map and an empty map are the same observable *)
  | Some l ->
    pint 1;
    let l = List.sort (fun (k1, _) (k2, _) -> compare (int_of_n k1) (int_of_n k2)) l in
    plist (fun (k, v) -> pn k; f v) l
let psubs s = plist pitem s.items; pmap pregion s.regions; pmap pstyle s.styles

let poptz = function None -> pint 0 | Some v -> pint 1; pz v
let rec nat_of_int i = if i <= 0 then O else S (nat_of_int (i - 1))

(* SRT *)
let rsa r = let b = rbool r in let i = rbool r in let u = rbool r in
  let c = (if rint r = 0 then None else Some (rstr r)) in { sa_b = b; sa_i = i; sa_u = u; sa_col = c }
let rsrun r = let t = rstr r in let s = (if rint r = 0 then None else Some (rsa r)) in let p = rn r in
  { sr_text = t; sr_sty = s; sr_pos = p }
let rsitem r = let i = rz r in let s = rz r in let e = rz r in let ls = rlist (rlist rsrun) r in
  { si_idx = i; si_st = s; si_en = e; si_lines = ls }
let psa a = pbool a.sa_b; pbool a.sa_i; pbool a.sa_u; (match a.sa_col with None -> pint 0 | Some c -> pint 1; pstr c)
let psrun x = pstr x.sr_text; (match x.sr_sty with None -> pint 0 | Some a -> pint 1; psa a); pn x.sr_pos
let psitem x = pz x.si_idx; pz x.si_st; pz x.si_en; plist (plist psrun) x.si_lines
let pres f = function Ok v -> pint 0; f v | Err _ -> pint 1 | Panic _ -> pint 2

(* WebVTT *)
let rvtag r = let n = rstr r in let a = rstr r in let c = rlist rstr r in { vt_name = n; vt_annot = a; vt_classes = c }
let pvtag t = pstr t.vt_name; pstr t.vt_annot; plist pstr t.vt_classes
let ropt_with f r = if rint r = 0 then None else Some (f r)
let popt_with f = function None -> pint 0 | Some v -> pint 1; f v
let rvrun r = let t = rstr r in let tg = ropt_with (rlist rvtag) r in let tm = rz r in let c = ropt_with rstr r in
  { vr_text = t; vr_tags = tg; vr_time = tm; vr_color = c }
let pvrun x = pstr x.vr_text; popt_with (plist pvtag) x.vr_tags; pz x.vr_time
let rvline r = let rs = rlist rvrun r in let v = rstr r in { vl_runs = rs; vl_voice = v }
let pvline l = plist pvrun l.vl_runs; pstr l.vl_voice
let rvset r = let a = rstr r in let l = rstr r in let p = rstr r in let s = rstr r in let v = rstr r in
  { vs_align = a; vs_line = l; vs_position = p; vs_size = s; vs_vertical = v }
let pvset s = pstr s.vs_align; pstr s.vs_line; pstr s.vs_position; pstr s.vs_size; pstr s.vs_vertical
let rvitem r = let i = rz r in let s = rz r in let e = rz r in let c = rlist rstr r in let rg = ropt_with rstr r in
  let st = ropt_with rvset r in let fb = ropt_with rvset r in let ls = rlist rvline r in
  { vi_idx = i; vi_st = s; vi_en = e; vi_comments = c; vi_region = rg; vi_set = st; vi_fb = fb; vi_lines = ls }
let pvitem x = pz x.vi_idx; pz x.vi_st; pz x.vi_en; plist pstr x.vi_comments; popt_with pstr x.vi_region;
  popt_with pvset x.vi_set; plist pvline x.vi_lines
let rvra r = let l = rz r in let a = rstr r in let s = rstr r in let v = rstr r in let w = rstr r in
  { ra_lines = l; ra_anchor = a; ra_scroll = s; ra_vanchor = v; ra_width = w }
let pvra a = pz a.ra_lines; pstr a.ra_anchor; pstr a.ra_scroll; pstr a.ra_vanchor; pstr a.ra_width
let rvregion r = let i = rstr r in let a = ropt_with rvra r in let f = ropt_with rvra r in { rg_id = i; rg_attr = a; rg_fb = f }
(* the writer's input: the Regions and Styles maps are sent BY KEY, every key followed by 0 (nil value) or 1 and the value;
   the model gets ALL the keys (style_order, region_order) and the association lists of the non-nil values *)
let rvdoc r = let it = rlist rvitem r in
  let rg = rlist (fun r -> let k = rstr r in let v = ropt_with rvregion r in (k, v)) r in
  let st = rlist (fun r -> let k = rstr r in let v = ropt_with (ropt_with (rlist rstr)) r in (k, v)) r in
  let ts = ropt_with (fun r -> let a = rz r in let b = rz r in (a, b)) r in
  let somes l = List.filter_map (fun (k, v) -> match v with Some x -> Some (k, x) | None -> None) l in
  ({ vd_items = it; vd_regions = somes rg; vd_styles = somes st; vd_tsmap = ts }, List.map fst st, List.map fst rg)
let str_of_ns (s : n list) = String.concat "," (List.map (fun c -> string_of_int (int_of_n c)) s)
let pvdoc d =
  plist pvitem d.vd_items;
  plist (fun (k, rg) -> pstr k; pstr rg.rg_id; popt_with pvra rg.rg_attr)
    (List.sort (fun (a, _) (b, _) -> compare (List.map int_of_n a) (List.map int_of_n b)) d.vd_regions);
  plist (fun (k, v) -> pstr k; popt_with (plist pstr) v) d.vd_styles;
  popt_with (fun (a, b) -> pz a; pz b) d.vd_tsmap

(* suites of the per-format driver files (ocaml/drv_*.ml), registered at start-up *)
let extra : (string, rd -> unit) Hashtbl.t = Hashtbl.create 64
let register (name : string) (f : rd -> unit) : unit = Hashtbl.replace extra name f

let run_case (suite : string) (r : rd) : unit =
  match suite with
  | "order" -> plist pitem (order (rlist ritem r))
  | "merge" ->
    let a = rsubs r in let bb = rsubs r in
    let pr = rlist rregion r in let ps = rlist rstyle r in
    psubs (merge a bb pr ps)
  | "add" -> let d = rz r in plist pitem (add_dur d (rlist ritem r))
  | "force" ->
    let d = rz r in let dm = rbool r in let u = rn r in
    plist pitem (force_duration d dm u (rlist ritem r))
  | "fragment" -> let f = rz r in plist pitem (fragment f (rlist ritem r))
  | "unfragment" -> plist pitem (unfragment (rlist ritem r))
  (* the int64 models (Model/Ops64.v): Go's wrap-around arithmetic *)
  | "add64" -> let d = rz r in plist pitem (add_dur64 d (rlist ritem r))
  | "force64" ->
    let d = rz r in let dm = rbool r in let u = rn r in
    plist pitem (force_duration64 d dm u (rlist ritem r))
  | "fragment64" ->
    let n = nat_of_int (rint r) in let f = rz r in
    (match fragment64 n f (rlist ritem r) with Some l -> pint 0; plist pitem l | None -> pint 1)
  | "lincorr64" ->
    let a1 = rz r in let d1 = rz r in let a2 = rz r in let d2 = rz r in
    plist pitem (linear_correction64 a1 d1 a2 d2 (rlist ritem r))
  | "fragunfrag" -> let f = rz r in plist pitem (unfragment (fragment f (rlist ritem r)))
  | "optimize" -> psubs (optimize (rsubs r))
  | "rmstyle" -> psubs (remove_styling (rsubs r))
  | "itemtext" -> pstr (item_text (ritem r))
  | "fmtdur" -> let t = rz r in let sep = rstr r in let k = rint r in pstr (format_duration t sep (nat_of_int k))
  | "parsedur" -> let s = rstr r in let sep = rn r in let k = rint r in poptz (parse_duration s sep (nat_of_int k))
  | "parsesrt" -> poptz (parse_srt (rstr r))
  | "fmtstl" -> let t = rz r in let fps = rz r in pstr (format_stl t fps)
  | "fmtstlb" -> let t = rz r in let fps = rz r in pstr (format_stl_bytes t fps)
  | "parsestl" -> let s = rstr r in let fps = rz r in poptz (parse_stl s fps)
  | "parsestlb" -> let s = rstr r in let fps = rz r in pz (parse_stl_bytes s fps)
  | "lin" ->
    let a1 = rz r in let d1 = rz r in let a2 = rz r in let d2 = rz r in
    plist pz (List.map (fun t -> lin a1 d1 a2 d2 t) (rlist rz r))
  | "lincorr" ->
    let a1 = rz r in let d1 = rz r in let a2 = rz r in let d2 = rz r in
    plist pitem (linear_correction a1 d1 a2 d2 (rlist ritem r))
  | "fracfloat" -> let k = rint r in let n = rz r in pz (frac_float (nat_of_int k) n)
  | "srtread" ->
    let d = rstr r in
    let res = read_srt_c d in   (* the checked transcription (Model/SrtC.v); equal to read_srt by Proofs/SrtChk.v *)
    if List.for_all html_simple (lines d) then pres (plist psitem) res
    else (Buffer.add_string b "NS "; pres (fun _ -> ()) res)
  | "srtwrite" -> pres pstr (write_srt_c (rlist rsitem r))
  | "srttext" ->
    let line = rstr r in let a = rsa r in
    let (runs, a') = parse_text_srt line a in
    if not (html_simple line) then Buffer.add_string b "NS 0 " else
    (pint 0; pint 1; pint 0; pint 0; pint 0; pint 1; plist psrun runs; psa a')
  | "htmlesc" -> let t = rstr r in let e = escape_html t in pstr e; pstr (unescape_html e)
  | "lines" -> plist pstr (lines (rstr r))
  | "scan" -> let d = rstr r in let cs = rlist (fun r -> nat_of_int (rint r)) r in plist pstr (scan d cs)
  | "readn" ->
    let n = nat_of_int (rint r) in let d = rstr r in let cs = rlist (fun r -> nat_of_int (rint r)) r in
    (match read_n n d cs with RnOk (blk, _, _) -> pint 0; pstr blk | RnEOF -> pint 1 | RnShort -> pint 2)
  | "dispatch" ->
    let name = rstr r in
    (match reader_for name with Ok _ -> pint 0 | _ -> pint 1);
    (match writer_for name with Ok _ -> pint 0 | _ -> pint 1)
  | "vttreadm" ->
    let d = rstr r in
    let res = read_vtt_c d in   (* the checked transcription (Model/VttC.v); equal to read_vtt by Proofs/VttChk.v *)
    if List.for_all vtt_line_simple (lines d) then pres pvdoc res
    else (Buffer.add_string b "NS "; pres (fun _ -> ()) res)
  | "vtttext" ->
    let line = rstr r in let tags = rlist rvtag r in
    if not (vtt_line_simple line) then Buffer.add_string b "NS 0 " else
    let (l, tags') = parse_text_vtt line tags in
    pint 0; pvline l; plist pvtag tags'
  | "vttwritem" ->
    let (d, so, ro) = rvdoc r in
    pres pstr (write_vtt_c d so ro)
  | "convsv" ->
    let d = rstr r in
    let res = convert_srt_vtt d in
    if List.for_all html_simple (lines d) then pres pstr res
    else (Buffer.add_string b "NS "; pres (fun _ -> ()) res)
  | "convvs" ->
    let d = rstr r in
    let res = convert_vtt_srt d in
    if List.for_all vtt_line_simple (lines d) then pres pstr res
    else (Buffer.add_string b "NS "; pres (fun _ -> ()) res)
  | "trimspace" -> pstr (trim_space (rstr r))
  | "atoi" -> poptz (atoi (rstr r))
  | _ -> (match Hashtbl.find_opt extra suite with Some f -> f r | None -> failwith ("unknown suite " ^ suite))

