(* C07, styled conversion TTML -> SSA/ASS (Model/ConvTtmlSsa.v): suite "convttmlssa" maps a TTML document (bytes) to the
   destination bytes of convert_ttml_ssa.  The SSA writer model takes the iteration order of the styles map as an
   argument: the suite computes the conversion with the keys in the order of the map, reversed and rotated, and fails
   (DRIVER-ERROR) if the three results differ (Proofs/ConvTtmlSsaProofs.v convert_ttml_ssa_order_independent).
   Outside the faithful domain of the TTML reader model (the XML parser model does not parse the document, or a time
   expression is outside the float transcription): "NS" and the result class, as the plain-view suites do.
   Suite "ttmlssaok": the decidable representability hypothesis of the conversion theorem (ttml_ssa_okb) on the document
   the reader model returns: class 0 and the flag / class 1 when the reader fails. *)
open Model
open Driver

let () =
  register "convttmlssa" (fun r ->
    let doc = rstr r in
    let simple = (match xml_parse2 doc with Some t -> doc_time_simple t | None -> false) in
    let res = convert_ttml_ssa doc in
    let rot l = (match l with [] -> [] | x :: t -> t @ [x]) in
    if convert_ttml_ssa_by List.rev doc <> res || convert_ttml_ssa_by rot doc <> res then
      failwith "convttmlssa: the result depends on the order of the styles map";
    if simple then pres pstr res else (Buffer.add_string b "NS "; pres (fun _ -> ()) res));
  register "ttmlssaok" (fun r ->
    let doc = rstr r in
    let simple = (match xml_parse2 doc with Some t -> doc_time_simple t | None -> false) in
    let res = (match read_ttml_bytes2 doc with Ok d -> Ok (ttml_ssa_okb d) | Err k -> Err k | Panic p -> Panic p) in
    if simple then pres pbool res else (Buffer.add_string b "NS "; pres (fun _ -> ()) res))
