(* C07, styled sources, TTML -> WebVTT (Model/ConvTtmlVtt.v): suite "convttmlvtt" maps a TTML document (bytes) to the
   WebVTT bytes of the library's conversion.  NS outside the faithful domain of the source reader's model: the bytes are
   not in the XML subset of Kit/XmlParse2.v, a begin/end value is outside time_simple, or a time is outside the range
   the duration formatter model covers. *)
open Model
open Driver

let tv_big = z_of_string "4000000000000000000"
let tv_in_range z =
  (match Z.add z tv_big with Zneg _ -> false | _ -> true) && (match Z.add (Z.opp z) tv_big with Zneg _ -> false | _ -> true)

let () =
  register "convttmlvtt" (fun r ->
    let doc = rstr r in
    let ok =
      (match xml_parse2 doc with
       | Some t ->
         doc_time_simple t
         && (match read_ttml t with
             | Ok d -> List.for_all (fun it -> tv_in_range it.ti_st && tv_in_range it.ti_en) d.td_items
             | _ -> true)
       | None -> false) in
    let res = convert_ttml_vtt doc in
    if ok then pres pstr res else (Buffer.add_string b "NS "; pres (fun _ -> ()) res))
