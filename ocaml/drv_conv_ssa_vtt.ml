open Model open Driver
(* C07, styled conversions between SSA/ASS and WebVTT (Model/ConvSsaVtt.v, Model/ConvVttSsa.v).
   Input: the source document (one byte string).  Answer: 0 + destination bytes | 1 (error) | 2 (panic); prefixed by NS
   when the source document is outside the faithful domain of the source reader's model:
     SSA    - a float column outside the model's fixed-point domain (read_ssa answers Err EOther), as suite ssareadm;
     WebVTT - a line that is not vtt_line_simple (tags the tokenizer model does not reproduce), as suite vttreadm. *)
let () =
  register "convssavtt" (fun r ->
    let d = rstr r in
    match read_ssa d with
    | Err EOther -> Buffer.add_string b "NS 1 "
    | _ -> pres pstr (convert_ssa_vtt d));
  register "convvttssa" (fun r ->
    let d = rstr r in
    let res = convert_vtt_ssa d in
    if List.for_all vtt_line_simple (lines d) then pres pstr res
    else (Buffer.add_string b "NS "; pres (fun _ -> ()) res))
