(* Unfragment inverts Fragment WITHOUT the hypothesis "every cue has positive length" (audit N13): cues of zero or
   negative length are not cut (no multiple lies strictly inside them) and absorb nothing. *)
From Coq Require Import List ZArith NArith Bool Lia Permutation Sorted.
From Astisub Require Import Kit.Base Model.Ops Proofs.OrderProofs Proofs.FragmentProofs Proofs.UnfragProofs Proofs.InverseProofs.
Import ListNotations.
Open Scope Z_scope.

(* every piece starts at or after the cue's start and carries its content - whatever the cue's length *)
Lemma pieces_loop_in_facts f : 0 < f -> forall fuel x b z, st x < b -> In z (pieces_loop fuel f x b) -> st x <= st z /\ pl z = pl x.
Proof.
  intros Hf. induction fuel as [|n IH]; intros x b z Hb Hz; cbn [pieces_loop] in Hz.
  - destruct Hz as [<-|[]]. split; [lia | reflexivity].
  - destruct (b <? en x).
    + destruct Hz as [<-|Hz]; [split; [cbn; lia | reflexivity]|].
      destruct (IH (set_st x b) (b + f) z ltac:(cbn [st set_st]; lia) Hz) as [A B]. cbn [st set_st] in A.
      split; [lia | exact B].
    + destruct Hz as [<-|[]]. split; [lia | reflexivity].
Qed.

Lemma pieces_in_facts_any f x z : 0 < f -> In z (pieces f x) -> st x <= st z /\ pl z = pl x.
Proof.
  intros Hf Hz. unfold pieces in Hz. eapply (pieces_loop_in_facts f Hf); [|exact Hz].
  apply (next_mult_spec f (st x) Hf).
Qed.

Lemma pieces_degenerate f x : 0 < f -> en x <= st x -> pieces f x = [x].
Proof. intros Hf H. apply pieces_untouched; [exact Hf|]. intros k [A B]. lia. Qed.

Lemma unfrag_fragment_any f : 0 < f -> forall l n,
  sorted l -> no_touch l -> (length (flat_map (pieces f) l) <= n)%nat ->
  map proj (unfrag n (order (flat_map (pieces f) l))) = map proj l.
Proof.
  intros Hf. induction l as [|x r IH]; intros n HS HN Hn.
  - cbn [flat_map order fold_right]. destruct n; reflexivity.
  - apply sorted_inv in HS. destruct HS as [HSr Hxr].
    inversion HN as [|? ? Hxn HNr]; subst.
    cbn [flat_map] in *. rewrite order_app.
    set (L := order (flat_map (pieces f) r)) in *.
    rewrite app_length in Hn.
    assert (HLin : forall z, In z L -> exists y, In y r /\ st y <= st z /\ pl z = pl y).
    { intros z Hz. apply (Permutation_in _ (Permutation_sym (order_perm _))) in Hz.
      apply in_flat_map in Hz. destruct Hz as (y & Hy & Hz).
      destruct (pieces_in_facts_any f y z Hf Hz) as (A & B). exists y. auto. }
    assert (HLs : sorted L) by apply order_sorted.
    assert (Hstop : forall c e, pl c = pl x -> en x <= e \/ e = en x ->
              Forall (fun z => tx z = tx c -> en x < st z) L).
    { intros c e Hc _. rewrite Forall_forall. intros z Hz Ht. destruct (HLin z Hz) as (y & Hy & Hyz & Hpy).
      rewrite Forall_forall in Hxn. specialize (Hxn y Hy).
      assert (Hxy : tx x = tx y). { rewrite <- (pl_tx _ _ Hc), <- Ht. apply pl_tx. exact Hpy. }
      specialize (Hxn Hxy). lia. }
    destruct (Z_lt_le_dec (st x) (en x)) as [Hx|Hx].
    + (* a cue of positive length: the chain of its pieces *)
      pose proof (pieces_chain f x Hf Hx) as HC.
      destruct (pieces f x) as [|p1 ps] eqn:Ep; [cbn [chain] in HC; lia|].
      cbn [chain] in HC. destruct HC as (Hs1 & Hl1 & Hp1 & Hc).
      cbn [length] in Hn. destruct n as [|k]; [lia|].
      cbn [fold_right].
      destruct (chain_ge _ _ _ _ Hc) as (Hle & Hps).
      rewrite insert_head.
      2:{ rewrite Forall_forall. intros z Hz. apply fold_insert_in in Hz. destruct Hz as [Hz|Hz].
          - rewrite Forall_forall in Hps. specialize (Hps z Hz). lia.
          - destruct (HLin z Hz) as (y & Hy & Hyz & _). rewrite Forall_forall in Hxr. specialize (Hxr y Hy). lia. }
      cbn [unfrag].
      destruct (absorb_chain ps L _ (chain_mrg _ L ps _ _ Hc) p1 (en x) (pl x)) as (c' & Ha & A1 & A2 & A3).
      * apply fold_insert_sorted. exact HLs.
      * exact Hc.
      * exact Hp1.
      * exact (Hstop p1 (en x) Hp1 (or_intror eq_refl)).
      * rewrite Ha. cbn [map]. f_equal.
        -- apply proj_of; [lia | exact A2 | exact A3].
        -- apply IH; try assumption. lia.
    + (* zero or negative length: not cut, absorbs nothing *)
      rewrite (pieces_degenerate f x Hf Hx) in *. cbn [length] in Hn. destruct n as [|k]; [lia|].
      cbn [fold_right]. rewrite insert_head.
      2:{ rewrite Forall_forall. intros z Hz. destruct (HLin z Hz) as (y & Hy & Hyz & _).
          rewrite Forall_forall in Hxr. specialize (Hxr y Hy). lia. }
      cbn [unfrag]. rewrite (absorb_stop x L (Hstop x (en x) eq_refl (or_intror eq_refl))).
      cbn [map]. f_equal. apply IH; try assumption. lia.
Qed.

Theorem unfragment_fragment_any : forall f l, 0 < f -> sorted l -> no_touch l ->
  map proj (unfragment (fragment f l)) = map proj l.
Proof.
  intros f l Hf HS HN. rewrite (fragment_eq f l Hf). unfold unfragment.
  rewrite order_idem. apply unfrag_fragment_any; try assumption.
  rewrite order_length. apply le_n.
Qed.

(* non-vacuity: a zero-length cue inside a longer cue of another text, a zero-length cue on a fragment boundary, a cue
   whose end precedes its start *)
Definition ex_cue (u : N) (s e : Z) (t : N) : item := mkItem u s e [mkLine [mkRun [t] None false] []] None None false.
Definition ex_inv_any : list item := [ex_cue 1 0 10 65; ex_cue 2 3 3 66; ex_cue 3 4 4 67; ex_cue 4 9 6 66; ex_cue 5 12 12 65].
Example ex_inv_any_hyps : sorted ex_inv_any /\ no_touch ex_inv_any /\ ~ Forall (fun x => st x < en x) ex_inv_any.
Proof.
  split; [|split].
  - unfold sorted, ex_inv_any, ex_cue. repeat constructor; cbn [st]; lia.
  - unfold no_touch, ex_inv_any, ex_cue. repeat constructor; cbn [st en]; intros Ht; first [lia | vm_compute in Ht; discriminate Ht].
  - intros H. inversion H as [|? ? _ H1]; subst. inversion H1 as [|? ? H2 _]; subst. cbn in H2. lia.
Qed.
Example ex_inv_any_roundtrip :
  map (fun x => (st x, en x)) (fragment 4 ex_inv_any) = [(0,4); (3,3); (4,8); (4,4); (8,10); (9,6); (12,12)] /\
  map proj (unfragment (fragment 4 ex_inv_any)) = map proj ex_inv_any.
Proof. split; reflexivity. Qed.
