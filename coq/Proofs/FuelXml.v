(* Fuel audit, Kit/XmlParse.v: read_attrs and parse_kids (value at O: None, which is also the value for "rejected").
   Wrappers: start_tag passes its own fuel to read_attrs; parse_kids passes its predecessor fuel to start_tag and to its
   three recursive calls; xml_parse starts with S (length s).  Every recursive call is on a strictly shorter string
   (an attribute starts with a blank, a start tag ends with '>', a text run in front of which no '<' stands consumes
   a byte, an end tag is at least "</>"), hence [length s < fuel] suffices and a [None] from xml_parse is never the
   out-of-fuel one.  Depends on the Kit files only. *)
From Coq Require Import List NArith Bool Arith Lia.
From Astisub Require Import Kit.Base Kit.Str Kit.Xml Kit.XmlParse.
Import ListNotations.
Open Scope N_scope.

Lemma fx_prefix_len p s r : prefix p s = Some r -> (length s = length p + length r)%nat.
Proof. intros H. apply prefix_Some in H. subst s. apply app_length. Qed.

Lemma fx_span_len p : forall s a b, span p s = (a, b) -> (length s = length a + length b)%nat.
Proof.
  induction s as [|c r IH]; intros a b H; cbn [span] in H.
  - inversion H; reflexivity.
  - destruct (p c).
    + destruct (span p r) as [a' b'] eqn:E. inversion H; subst. cbn [length]. rewrite (IH a' b eq_refl). reflexivity.
    + inversion H; reflexivity.
Qed.

(* entity decoding: what is left is no longer than the input minus the bytes still to skip *)
Lemma unesc_aux_len q : forall s skip t rest, unesc_aux q skip s = Some (t, rest) -> (length rest + skip <= length s)%nat.
Proof.
  induction s as [|c r IH]; intros skip t rest H; cbn [unesc_aux] in H.
  - destruct skip; [inversion H; subst; cbn [length]; lia | discriminate].
  - destruct skip as [|k].
    + destruct (is_stop q c); [inversion H; subst; lia|].
      destruct (c =? 38).
      * destruct (entity r) as [[b k]|]; [|discriminate].
        destruct (unesc_aux q k r) as [[t' rest']|] eqn:E; [|discriminate]. inversion H; subst.
        apply IH in E. cbn [length]. lia.
      * destruct (unesc_aux q 0 r) as [[t' rest']|] eqn:E; [|discriminate]. inversion H; subst.
        apply IH in E. cbn [length]. lia.
    + apply IH in H. cbn [length]. lia.
Qed.
Lemma unesc_len q s t rest : unesc q s = Some (t, rest) -> (length rest <= length s)%nat.
Proof. unfold unesc. intros H. apply unesc_aux_len in H. lia. Qed.
(* a run that does not begin at a stop byte consumes at least that byte *)
Lemma unesc_cons_len q c r t rest : is_stop q c = false -> unesc q (c :: r) = Some (t, rest) -> (length rest <= length r)%nat.
Proof.
  unfold unesc. intros Hs H. cbn [unesc_aux] in H. rewrite Hs in H. destruct (c =? 38).
  - destruct (entity r) as [[b k]|]; [|discriminate].
    destruct (unesc_aux q k r) as [[t' rest']|] eqn:E; [|discriminate]. inversion H; subst. apply unesc_aux_len in E. lia.
  - destruct (unesc_aux q 0 r) as [[t' rest']|] eqn:E; [|discriminate]. inversion H; subst. apply unesc_aux_len in E. lia.
Qed.

(* ---------------------------------------------------------------- read_attrs *)
Lemma xread_attrs_enough : forall n m s, (length s < n)%nat -> (length s < m)%nat -> read_attrs n s = read_attrs m s.
Proof.
  induction n as [|n IH]; intros m s Hn Hm; [lia|]. destruct m as [|m]; [lia|].
  cbn [read_attrs]. destruct s as [|c r]; [reflexivity|]. cbn [length] in Hn, Hm.
  destruct (c =? 62); [reflexivity|]. destruct (c =? 32); [|reflexivity].
  destruct (span name_byte r) as [raw r1] eqn:Es. apply fx_span_len in Es.
  destruct (xp_null raw); [reflexivity|].
  destruct (prefix [61; 34] r1) as [r2|] eqn:E2; [|reflexivity]. apply fx_prefix_len in E2.
  destruct (unesc true r2) as [[v r3]|] eqn:E3; [|reflexivity]. apply unesc_len in E3.
  destruct (prefix [34] r3) as [r4|] eqn:E4; [|reflexivity]. apply fx_prefix_len in E4.
  cbn [length] in E2, E4. rewrite (IH m r4) by lia. reflexivity.
Qed.
Theorem xread_attrs_indep fuel s : (S (length s) <= fuel)%nat -> read_attrs fuel s = read_attrs (S (length s)) s.
Proof. intros H. apply xread_attrs_enough; lia. Qed.

Lemma xread_attrs_len : forall f s al rest, read_attrs f s = Some (al, rest) -> (length rest < length s)%nat.
Proof.
  induction f as [|f IH]; intros s al rest H; cbn [read_attrs] in H; [discriminate|].
  destruct s as [|c r]; [discriminate|]. cbn [length].
  destruct (c =? 62); [inversion H; subst; lia|]. destruct (c =? 32); [|discriminate].
  destruct (span name_byte r) as [raw r1] eqn:Es. apply fx_span_len in Es.
  destruct (xp_null raw); [discriminate|].
  destruct (prefix [61; 34] r1) as [r2|] eqn:E2; [|discriminate]. apply fx_prefix_len in E2.
  destruct (unesc true r2) as [[v r3]|] eqn:E3; [|discriminate]. apply unesc_len in E3.
  destruct (prefix [34] r3) as [r4|] eqn:E4; [|discriminate]. apply fx_prefix_len in E4.
  destruct (read_attrs f r4) as [[al' r5]|] eqn:E5; [|discriminate]. inversion H; subst. apply IH in E5.
  cbn [length] in E2, E4. lia.
Qed.

(* ---------------------------------------------------------------- start_tag *)
Lemma start_tag_enough n m env s : (length s < n)%nat -> (length s < m)%nat -> start_tag n env s = start_tag m env s.
Proof.
  intros Hn Hm. unfold start_tag. destruct (span name_byte s) as [raw s2] eqn:Es. apply fx_span_len in Es.
  rewrite (xread_attrs_enough n m s2) by lia. reflexivity.
Qed.
Lemma start_tag_len f env s st : start_tag f env s = Some st -> (length (st_rest st) < length s)%nat.
Proof.
  unfold start_tag. destruct (span name_byte s) as [raw s2] eqn:Es. apply fx_span_len in Es.
  destruct (read_attrs f s2) as [[ral s3]|] eqn:Er; [|discriminate]. apply xread_attrs_len in Er.
  destruct (qsplit raw) as [[p l]|]; [|discriminate]. destruct (qsplit_all ral) as [qal|]; [|discriminate].
  intros H. inversion H; subst. cbn [st_rest]. lia.
Qed.

(* ---------------------------------------------------------------- parse_kids *)
Lemma fx_not_lt c : (c =? 60) = false -> is_stop false c = false.
Proof. intros H. unfold is_stop. rewrite H. reflexivity. Qed.

Lemma parse_kids_len : forall f env s ks rest, parse_kids f env s = Some (ks, rest) -> (length rest <= length s)%nat.
Proof.
  induction f as [|f IH]; intros env s ks rest H; cbn [parse_kids] in H; [discriminate|].
  destruct s as [|c s1]; [inversion H; subst; lia|].
  destruct (c =? 60) eqn:Ec.
  - destruct s1 as [|c2 s1']; [discriminate|]. destruct (c2 =? 47); [inversion H; subst; lia|].
    destruct (start_tag f env (c2 :: s1')) as [st|] eqn:Est; [|discriminate]. apply start_tag_len in Est.
    destruct (parse_kids f (st_env st) (st_rest st)) as [[kids s4]|] eqn:Ek; [|discriminate]. apply IH in Ek.
    destruct (prefix ([60; 47] ++ st_raw st ++ [62]) s4) as [s5|] eqn:Ep; [|discriminate]. apply fx_prefix_len in Ep.
    destruct (parse_kids f env s5) as [[sibs s6]|] eqn:Es; [|discriminate]. apply IH in Es.
    inversion H; subst. cbn [length] in *. lia.
  - destruct (unesc false (c :: s1)) as [[t s2]|] eqn:Eu; [|discriminate].
    apply (unesc_cons_len false c s1 t s2 (fx_not_lt c Ec)) in Eu.
    destruct (parse_kids f env s2) as [[sibs s3]|] eqn:Es; [|discriminate]. apply IH in Es.
    inversion H; subst. cbn [length]. lia.
Qed.

Lemma parse_kids_enough : forall n m env s, (length s < n)%nat -> (length s < m)%nat -> parse_kids n env s = parse_kids m env s.
Proof.
  induction n as [|n IH]; intros m env s Hn Hm; [lia|]. destruct m as [|m]; [lia|].
  cbn [parse_kids]. destruct s as [|c s1]; [reflexivity|]. cbn [length] in Hn, Hm.
  destruct (c =? 60) eqn:Ec.
  - destruct s1 as [|c2 s1']; [reflexivity|]. destruct (c2 =? 47); [reflexivity|].
    rewrite (start_tag_enough n m env (c2 :: s1')) by lia.
    destruct (start_tag m env (c2 :: s1')) as [st|] eqn:Est; [|reflexivity]. apply start_tag_len in Est.
    rewrite (IH m (st_env st) (st_rest st)) by lia.
    destruct (parse_kids m (st_env st) (st_rest st)) as [[kids s4]|] eqn:Ek; [|reflexivity]. apply parse_kids_len in Ek.
    destruct (prefix ([60; 47] ++ st_raw st ++ [62]) s4) as [s5|] eqn:Ep; [|reflexivity]. apply fx_prefix_len in Ep.
    rewrite (IH m env s5) by (cbn [length app] in *; lia). reflexivity.
  - destruct (unesc false (c :: s1)) as [[t s2]|] eqn:Eu; [|reflexivity].
    apply (unesc_cons_len false c s1 t s2 (fx_not_lt c Ec)) in Eu.
    rewrite (IH m env s2) by lia. reflexivity.
Qed.
Theorem parse_kids_indep fuel env s : (S (length s) <= fuel)%nat -> parse_kids fuel env s = parse_kids (S (length s)) env s.
Proof. intros H. apply parse_kids_enough; lia. Qed.

Lemma parse_kids_step f env c s1 :
  parse_kids (S f) env (c :: s1) =
  if c =? 60 then
    match s1 with
    | [] => None
    | c2 :: _ =>
      if c2 =? 47 then Some ([], c :: s1)
      else
        match start_tag f env s1 with
        | Some st =>
          match parse_kids f (st_env st) (st_rest st) with
          | Some (kids, s4) =>
            match prefix ([60; 47] ++ st_raw st ++ [62]) s4 with
            | Some s5 =>
              match parse_kids f env s5 with
              | Some (sibs, s6) => Some (XElem (st_name st) (st_attrs st) kids :: sibs, s6)
              | None => None
              end
            | None => None
            end
          | None => None
          end
        | None => None
        end
    end
  else
    match unesc false (c :: s1) with
    | Some (t, s2) =>
      match parse_kids f env s2 with
      | Some (sibs, s3) => Some (XText t :: sibs, s3)
      | None => None
      end
    | None => None
    end.
Proof. reflexivity. Qed.

(* the parser without fuel, and its equations (each call on the right is on a strictly shorter string) *)
Definition start_tag_c (env : nsenv) (s : str) : option stag := start_tag (S (length s)) env s.
Definition parse_kids_c (env : nsenv) (s : str) : option (list xnode * str) := parse_kids (S (length s)) env s.
Theorem xml_parse_c s :
  xml_parse s = match parse_kids_c [] s with Some ([XElem n a k], []) => Some (XElem n a k) | _ => None end.
Proof. reflexivity. Qed.
Theorem parse_kids_c_nil env : parse_kids_c env [] = Some ([], []). Proof. reflexivity. Qed.
Theorem parse_kids_c_cons env c s1 :
  parse_kids_c env (c :: s1) =
  if c =? 60 then
    match s1 with
    | [] => None
    | c2 :: _ =>
      if c2 =? 47 then Some ([], c :: s1)
      else
        match start_tag_c env s1 with
        | Some st =>
          match parse_kids_c (st_env st) (st_rest st) with
          | Some (kids, s4) =>
            match prefix ([60; 47] ++ st_raw st ++ [62]) s4 with
            | Some s5 =>
              match parse_kids_c env s5 with
              | Some (sibs, s6) => Some (XElem (st_name st) (st_attrs st) kids :: sibs, s6)
              | None => None
              end
            | None => None
            end
          | None => None
          end
        | None => None
        end
    end
  else
    match unesc false (c :: s1) with
    | Some (t, s2) =>
      match parse_kids_c env s2 with
      | Some (sibs, s3) => Some (XText t :: sibs, s3)
      | None => None
      end
    | None => None
    end.
Proof.
  unfold parse_kids_c at 1. rewrite parse_kids_step. destruct (c =? 60) eqn:Ec.
  - destruct s1 as [|c2 s1']; [reflexivity|]. destruct (c2 =? 47); [reflexivity|].
    unfold start_tag_c. rewrite (start_tag_enough (length (c :: c2 :: s1')) (S (length (c2 :: s1'))) env (c2 :: s1')) by (cbn [length]; lia).
    destruct (start_tag (S (length (c2 :: s1'))) env (c2 :: s1')) as [st|] eqn:Est; [|reflexivity]. apply start_tag_len in Est.
    unfold parse_kids_c.
    rewrite (parse_kids_enough _ (S (length (st_rest st))) (st_env st) (st_rest st)) by (cbn [length] in *; lia).
    destruct (parse_kids (S (length (st_rest st))) (st_env st) (st_rest st)) as [[kids s4]|] eqn:Ek; [|reflexivity].
    apply parse_kids_len in Ek.
    destruct (prefix ([60; 47] ++ st_raw st ++ [62]) s4) as [s5|] eqn:Ep; [|reflexivity]. apply fx_prefix_len in Ep.
    rewrite (parse_kids_enough _ (S (length s5)) env s5) by (cbn [length app] in *; lia). reflexivity.
  - destruct (unesc false (c :: s1)) as [[t s2]|] eqn:Eu; [|reflexivity].
    apply (unesc_cons_len false c s1 t s2 (fx_not_lt c Ec)) in Eu. unfold parse_kids_c.
    rewrite (parse_kids_enough _ (S (length s2)) env s2) by (cbn [length]; lia). reflexivity.
Qed.
